import Model.GErrClone
/-!
# C15 — gerror: factories immutable; message/tag/source/stack compose lawfully
-/
namespace GErrClone

/-! ### `strings.TrimSpace` -/

theorem trimRight_eq_nil_iff (s : Str) : trimRight s = [] ↔ s.all isSpace = true := by
  induction s with
  | nil => simp [trimRight]
  | cons c cs ih =>
    unfold trimRight
    split
    · rename_i h
      have := ih.mp h
      by_cases hc : isSpace c <;> simp [hc, this]
    · rename_i h
      have : ¬ (cs.all isSpace = true) := fun hh => h (ih.mpr hh)
      simp
      intro _
      simpa using this

/-- what `trimRight` cuts off is white space, what it keeps does not end in white space -/
theorem trimRight_spec (s : Str) :
    ∃ r, s = trimRight s ++ r ∧ r.all isSpace = true ∧
      ∀ c, (trimRight s).getLast? = some c → isSpace c = false := by
  induction s with
  | nil => exact ⟨[], by simp [trimRight]⟩
  | cons c cs ih =>
    obtain ⟨r, hr, hsp, hl⟩ := ih
    unfold trimRight
    split
    · rename_i h
      rw [h] at hr hl
      by_cases hc : isSpace c
      · refine ⟨c :: cs, by simp [hc], ?_, by simp [hc]⟩
        simp at hr; subst hr; simp [hc, hsp]
      · refine ⟨r, by simp [hc]; simpa using hr, hsp, ?_⟩
        simp [hc]
    · rename_i h
      refine ⟨r, by simp; exact hr, hsp, ?_⟩
      intro d hd
      rw [List.getLast?_cons_of_ne_nil h] at hd  
      exact hl d hd


theorem dropWhile_all_iff (s : Str) : (s.dropWhile isSpace).all isSpace = true ↔ s.all isSpace = true := by
  induction s with
  | nil => simp
  | cons c cs ih =>
    by_cases hc : isSpace c
    · simp [List.dropWhile, hc] at ih ⊢; exact ih
    · simp [List.dropWhile, hc]

/-- an extension is dropped exactly when it is blank (only white space, or empty) -/
theorem trimSpace_eq_nil_iff (s : Str) : trimSpace s = [] ↔ s.all isSpace = true := by
  unfold trimSpace; rw [trimRight_eq_nil_iff, dropWhile_all_iff]

/-- `TrimSpace s` is `s` without a white-space prefix and a white-space suffix, and neither starts
nor ends with white space: this determines it uniquely. -/
theorem trimSpace_spec (s : Str) :
    ∃ l r, s = l ++ trimSpace s ++ r ∧ l.all isSpace = true ∧ r.all isSpace = true ∧
      (∀ c, (trimSpace s).head? = some c → isSpace c = false) ∧
      (∀ c, (trimSpace s).getLast? = some c → isSpace c = false) := by
  obtain ⟨r, hr, hsp, hl⟩ := trimRight_spec (s.dropWhile isSpace)
  refine ⟨s.takeWhile isSpace, r, ?_, ?_, hsp, ?_, hl⟩
  · unfold trimSpace
    rw [List.append_assoc, ← hr, List.takeWhile_append_dropWhile]
  · simp
  · intro c hc
    unfold trimSpace at hc
    have hne : trimRight (s.dropWhile isSpace) ≠ [] := by intro h; simp [h] at hc
    have h1 : (s.dropWhile isSpace).head? = some c := by
      rw [hr, List.head?_append, hc]; rfl
    have h2 := List.head?_dropWhile_not isSpace s
    rw [h1] at h2
    exact h2


/-! ### the blocks of `CloneBase`, field by field -/

@[simp] theorem withSource_name (e : E) (s : Str) : (withSource e s).name = e.name := by unfold withSource; split <;> rfl
@[simp] theorem withSource_msg (e : E) (s : Str) : (withSource e s).msg = e.msg := by unfold withSource; split <;> rfl
@[simp] theorem withSource_dtag (e : E) (s : Str) : (withSource e s).dtag = e.dtag := by unfold withSource; split <;> rfl
@[simp] theorem withSource_stack (e : E) (s : Str) : (withSource e s).stack = e.stack := by unfold withSource; split <;> rfl
theorem withSource_src (e : E) (s : Str) :
    (withSource e s).src = if e.src ≠ [] then e.src else s := by
  unfold withSource
  by_cases h1 : e.src = [] <;> by_cases h2 : s = [] <;> simp [h1, h2]

@[simp] theorem withDTag_name (e : E) (s : Str) : (withDTag e s).name = e.name := by unfold withDTag; (repeat' split) <;> rfl
@[simp] theorem withDTag_msg (e : E) (s : Str) : (withDTag e s).msg = e.msg := by unfold withDTag; (repeat' split) <;> rfl
@[simp] theorem withDTag_src (e : E) (s : Str) : (withDTag e s).src = e.src := by unfold withDTag; (repeat' split) <;> rfl
@[simp] theorem withDTag_stack (e : E) (s : Str) : (withDTag e s).stack = e.stack := by unfold withDTag; (repeat' split) <;> rfl
theorem withDTag_dtag (e : E) (s : Str) :
    (withDTag e s).dtag = if s = [] then e.dtag else if e.dtag = [] then s else e.dtag ++ ['-'] ++ s := by
  unfold withDTag
  by_cases h1 : s = [] <;> by_cases h2 : e.dtag = [] <;> simp [h1, h2]

@[simp] theorem withMsg_name (e : E) (s : Str) : (withMsg e s).name = e.name := by unfold withMsg; simp only []; (repeat' split) <;> rfl
@[simp] theorem withMsg_dtag (e : E) (s : Str) : (withMsg e s).dtag = e.dtag := by unfold withMsg; simp only []; (repeat' split) <;> rfl
@[simp] theorem withMsg_src (e : E) (s : Str) : (withMsg e s).src = e.src := by unfold withMsg; simp only []; (repeat' split) <;> rfl
@[simp] theorem withMsg_stack (e : E) (s : Str) : (withMsg e s).stack = e.stack := by unfold withMsg; simp only []; (repeat' split) <;> rfl
theorem withMsg_msg (e : E) (s : Str) :
    (withMsg e s).msg =
      if trimSpace s = [] then e.msg else if e.msg = [] then trimSpace s else e.msg ++ [' '] ++ trimSpace s := by
  unfold withMsg
  by_cases h1 : trimSpace s = [] <;> by_cases h2 : e.msg = [] <;> simp [h1, h2]

@[simp] theorem withStack_name (e : E) (st : StackType) (fr : Frames) : (withStack e st fr).name = e.name := by
  unfold withStack; simp only []; (repeat' split) <;> rfl
@[simp] theorem withStack_msg (e : E) (st : StackType) (fr : Frames) : (withStack e st fr).msg = e.msg := by
  unfold withStack; simp only []; (repeat' split) <;> rfl
@[simp] theorem withStack_dtag (e : E) (st : StackType) (fr : Frames) : (withStack e st fr).dtag = e.dtag := by
  unfold withStack; simp only []; (repeat' split) <;> rfl


theorem withStack_stack (e : E) (st : StackType) (fr : Frames) :
    (withStack e st fr).stack =
      if e.stack ≠ [] then e.stack
      else if st = .noStack ∨ st = .sourceStack then [] else makeStack st fr := by
  unfold withStack
  by_cases h1 : e.stack = [] <;> by_cases h2 : e.src = [] <;> cases st <;>
    simp [h1, h2, List.length_pos_iff]

theorem withStack_src (e : E) (st : StackType) (fr : Frames) :
    (withStack e st fr).src =
      if e.src ≠ [] then e.src
      else if e.stack ≠ [] ∨ st = .noStack then []
      else metric (nearestExternal (makeStack st fr)) := by
  unfold withStack
  by_cases h1 : e.stack = [] <;> by_cases h2 : e.src = [] <;> cases st <;>
    simp [h1, h2, List.length_pos_iff]


/-! ### one `CloneBase` call -/

@[simp] theorem cloneBase_name (b : E) (st : StackType) (d s m : Str) (fr : Frames) :
    (cloneBase b st d s m fr).name = b.name := by simp [cloneBase]

theorem cloneBase_msg (b : E) (st : StackType) (d s m : Str) (fr : Frames) :
    (cloneBase b st d s m fr).msg =
      if trimSpace m = [] then b.msg else if b.msg = [] then trimSpace m else b.msg ++ [' '] ++ trimSpace m := by
  simp [cloneBase, withMsg_msg]

theorem cloneBase_dtag (b : E) (st : StackType) (d s m : Str) (fr : Frames) :
    (cloneBase b st d s m fr).dtag =
      if d = [] then b.dtag else if b.dtag = [] then d else b.dtag ++ ['-'] ++ d := by
  simp [cloneBase, withDTag_dtag]

theorem cloneBase_stack (b : E) (st : StackType) (d s m : Str) (fr : Frames) :
    (cloneBase b st d s m fr).stack =
      if b.stack ≠ [] then b.stack
      else if st = .noStack ∨ st = .sourceStack then [] else makeStack st fr := by
  simp [cloneBase, withStack_stack]

theorem cloneBase_src (b : E) (st : StackType) (d s m : Str) (fr : Frames) :
    (cloneBase b st d s m fr).src =
      if b.src ≠ [] then b.src
      else if s ≠ [] then s
      else if b.stack ≠ [] ∨ st = .noStack then []
      else metric (nearestExternal (makeStack st fr)) := by
  simp only [cloneBase, withStack_src, withMsg_src, withDTag_src, withSource_src, withMsg_stack,
    withDTag_stack, withSource_stack]
  by_cases h1 : b.src = [] <;> by_cases h2 : s = [] <;> simp [h1, h2]


/-! ### joining -/

/-- how `CloneBase` extends a field: nothing to add / nothing there yet / separator in between -/
def combine (sep base x : Str) : Str :=
  if x = [] then base else if base = [] then x else base ++ sep ++ x

theorem joinWith_merge (sep a b : Str) (rest : List Str) :
    joinWith sep ((a ++ sep ++ b) :: rest) = joinWith sep (a :: b :: rest) := by
  cases rest with
  | nil => simp [joinWith]
  | cons r rs => simp [joinWith, List.append_assoc]

theorem joinNonEmpty_single (sep a : Str) : joinNonEmpty sep [a] = a := by
  unfold joinNonEmpty
  by_cases h : a = [] <;> simp [h, joinWith]

theorem joinNonEmpty_combine (sep base x : Str) (xs : List Str) :
    joinNonEmpty sep (base :: x :: xs) = joinNonEmpty sep (combine sep base x :: xs) := by
  unfold joinNonEmpty combine
  by_cases hx : x = []
  · subst hx; simp [List.filter]
  · by_cases hb : base = []
    · simp [hx, hb]
    · have : base ++ sep ++ x ≠ [] := by simp [hb]
      rw [if_neg hx, if_neg hb]
      rw [List.filter_cons_of_pos (by simpa using hb), List.filter_cons_of_pos (by simpa using hx),
        List.filter_cons_of_pos (by simp [hb]), joinWith_merge]

theorem run_cons (e : E) (c : Call) (cs : List Call) : run e (c :: cs) = run (step e c) cs := rfl
theorem run_nil (e : E) : run e [] = e := rfl
theorem run_append (e : E) (cs ds : List Call) : run e (cs ++ ds) = run (run e cs) ds := by
  simp [run, List.foldl_append]

theorem step_name (e : E) (c : Call) : (step e c).name = e.name := by simp [step, execRow]

theorem step_msg (e : E) (c : Call) :
    (step e c).msg = combine [' '] e.msg (trimSpace c.msgArg) := by
  simp only [step, execRow, cloneBase_msg, combine, Call.msgArg]; rfl

theorem step_dtag (e : E) (c : Call) :
    (step e c).dtag = combine ['-'] e.dtag c.dtagArg := by
  simp only [step, execRow, cloneBase_dtag, combine, Call.dtagArg]; rfl

/-! ## The chain laws -/

/-- the name never changes -/
theorem name_law (e : E) (cs : List Call) : (run e cs).name = e.name := by
  induction cs generalizing e with
  | nil => rfl
  | cons c cs ih => rw [run_cons, ih, step_name]

/-- **Message law.** After any chain, the message is the base message followed by each non-blank
extension, trimmed, joined by single spaces. -/
theorem message_law (e : E) (cs : List Call) :
    (run e cs).msg = specMessage e.msg (cs.map Call.msgArg) := by
  induction cs generalizing e with
  | nil => simp [run_nil, specMessage, joinNonEmpty_single]
  | cons c cs ih =>
    rw [run_cons, ih, step_msg]
    simp only [specMessage, List.map_cons]
    rw [joinNonEmpty_combine]

/-- **Detail-tag law.** Detail tags are joined by `-` (empty ones contribute nothing). -/
theorem dtag_law (e : E) (cs : List Call) :
    (run e cs).dtag = specDTag e.dtag (cs.map Call.dtagArg) := by
  induction cs generalizing e with
  | nil => simp [run_nil, specDTag, joinNonEmpty_single]
  | cons c cs ih =>
    rw [run_cons, ih, step_dtag]
    simp only [specDTag, List.map_cons]
    rw [joinNonEmpty_combine]


/-! ### what the wiring table says about stack types -/

theorem wiring_noStack_iff (m : Method) : (wiring m).stack = .noStack ↔ m = .base := by
  cases m <;> decide

theorem wiring_defaultStack_iff (m : Method) : (wiring m).stack = .defaultStack ↔ m.takesStack = true := by
  cases m <;> decide

theorem wiring_sourceStack_iff (m : Method) :
    (wiring m).stack = .sourceStack ↔ (m ≠ .base ∧ m.takesStack = false) := by
  cases m <;> decide

theorem makeStack_default_ne_nil (fr : Frames) : makeStack .defaultStack fr ≠ [] := by
  simp [makeStack, Frames.toList, StackType.depth]

theorem step_stack (e : E) (c : Call) :
    (step e c).stack =
      if e.stack ≠ [] then e.stack
      else if c.m.takesStack then makeStack .defaultStack c.frames else [] := by
  simp only [step, execRow, cloneBase_stack]
  by_cases h : e.stack = []
  · simp only [h, ne_eq, not_true_eq_false, if_false]
    cases hm : c.m <;> simp [wiring, Method.isConvert, Method.takesStack, Method.takesSrc, Method.takesDTag, Method.takesMsg]
  · simp [h]

theorem step_hasStack (e : E) (c : Call) : (step e c).hasStack = (e.hasStack || c.m.takesStack) := by
  unfold E.hasStack
  rw [step_stack]
  by_cases h : e.stack = []
  · by_cases ht : c.m.takesStack = true
    · have := makeStack_default_ne_nil c.frames
      simp [h, ht, this]
    · simp [h, ht]
  · simp [h]

/-- **Stack law.** A stack is present after a chain exactly when the start had one or a
stack-taking method (`Stack`, `…S`) was used somewhere in the chain. -/
theorem stack_law (e : E) (cs : List Call) :
    (run e cs).hasStack = (e.hasStack || specHasStack cs) := by
  induction cs generalizing e with
  | nil => simp [run_nil, specHasStack]
  | cons c cs ih =>
    rw [run_cons, ih, step_hasStack]
    simp [specHasStack, Bool.or_assoc]

/-- from a factory (which has no stack): present iff a stack-taking method was used -/
theorem stack_iff_stack_method (f : E) (hf : f.stack = []) (cs : List Call) :
    (run f cs).stack ≠ [] ↔ ∃ c ∈ cs, c.m.takesStack = true := by
  have h := stack_law f cs
  simp only [E.hasStack, hf, specHasStack, List.isEmpty_nil, Bool.not_true, Bool.false_or] at h
  rw [← List.isEmpty_eq_false_iff, ← Bool.not_eq_true', h, List.any_eq_true]

/-- once captured, the stack is carried along unchanged -/
theorem stack_persists (e : E) (he : e.stack ≠ []) (cs : List Call) : (run e cs).stack = e.stack := by
  induction cs generalizing e with
  | nil => rfl
  | cons c cs ih =>
    have h1 : (step e c).stack = e.stack := by rw [step_stack]; simp [he]
    rw [run_cons, ih _ (by rw [h1]; exact he), h1]


/-! ### source -/

/-- a derived source is never empty (it always contains the `:` after the package name) -/
theorem metric_ne_nil (n : Str) : metric n ≠ [] := by
  simp [metric]

/-- The caller is "outside": its frame name does not start with what `getCurrentPackage` computes.
(That string is `…/gerror.Stack`, so this only excludes functions of package gerror whose name
starts with `Stack`.) -/
def CallerOutside (c : Call) : Prop := currentPackage.isPrefixOf c.frames.top = false

theorem nearestExternal_makeStack (st : StackType) (fr : Frames) (hst : st ≠ .noStack)
    (ho : currentPackage.isPrefixOf fr.top = false) :
    nearestExternal (makeStack st fr) = fr.top := by
  unfold nearestExternal makeStack Frames.toList
  cases st <;> simp [StackType.depth, List.find?, ho] at hst ⊢

/-- no stack without a source: true of every factory (no stack) and kept by every derivation -/
def Inv (e : E) : Prop := e.stack ≠ [] → e.src ≠ []

theorem step_src (e : E) (c : Call) (hi : Inv e) (ho : CallerOutside c) :
    (step e c).src =
      if e.src ≠ [] then e.src
      else if c.srcArg ≠ [] then c.srcArg
      else if c.m = .base then []
      else metric c.frames.top := by
  simp only [step, execRow, cloneBase_src, Call.srcArg]
  by_cases h1 : e.src = []
  · have h2 : e.stack = [] := by
      apply Classical.byContradiction; intro h; exact hi h h1
    by_cases h3 : evalArg (wiring c.m).src c = []
    · by_cases h4 : c.m = .base
      · simp [h1, h2, h3, h4, wiring_noStack_iff]
      · have h5 : (wiring c.m).stack ≠ .noStack := fun h => h4 ((wiring_noStack_iff _).mp h)
        simp [h1, h2, h3, h4, h5, nearestExternal_makeStack _ _ h5 ho]
    · simp [h1, h3]
  · simp [h1]

theorem step_inv (e : E) (c : Call) (hi : Inv e) (ho : CallerOutside c) : Inv (step e c) := by
  intro hs
  rw [step_src e c hi ho]
  by_cases h1 : e.src = []
  · have h2 : e.stack = [] := by
      apply Classical.byContradiction; intro h; exact hi h h1
    by_cases h3 : c.srcArg = []
    · by_cases h4 : c.m = .base
      · rw [step_stack] at hs
        simp [h2, h4, Method.takesStack] at hs
      · simp [h1, h3, h4, metric_ne_nil]
    · simp [h1, h3]
  · simp [h1]

theorem specSource_of_ne_nil (b : Str) (hb : b ≠ []) (cs : List Call) : specSource b cs = b := by
  cases cs <;> simp [specSource, hb]

/-- **Source law.** From any error that satisfies `Inv` (in particular every factory), along any
chain whose callers are outside gerror: the first non-empty source — preset in the factory, given
as an argument, or derived from the caller by the first method other than `Base` — wins and is
never overwritten. -/
theorem source_law (e : E) (hi : Inv e) (cs : List Call) (ho : ∀ c ∈ cs, CallerOutside c) :
    (run e cs).src = specSource e.src cs := by
  induction cs generalizing e with
  | nil => rfl
  | cons c cs ih =>
    have hoc := ho c (by simp)
    rw [run_cons, ih _ (step_inv e c hi hoc) (fun d hd => ho d (by simp [hd])), step_src e c hi hoc]
    by_cases h1 : e.src = []
    · by_cases h3 : c.srcArg = []
      · by_cases h4 : c.m = .base
        · simp [specSource, h1, h3, h4]
        · simp [specSource, h1, h3, h4, specSource_of_ne_nil _ (metric_ne_nil _)]
      · simp [specSource, h1, h3, specSource_of_ne_nil _ h3]
    · simp [specSource, h1, specSource_of_ne_nil _ h1]

/-- a factory (no stack) satisfies the invariant -/
theorem inv_of_factory (f : E) (hf : f.stack = []) : Inv f := fun h => absurd hf h

/-- **A non-empty source is never overwritten** — by any chain, wherever the callers are. -/
theorem source_never_overwritten (e : E) (he : e.src ≠ []) (cs : List Call) : (run e cs).src = e.src := by
  induction cs generalizing e with
  | nil => rfl
  | cons c cs ih =>
    have h1 : (step e c).src = e.src := by simp [step, execRow, cloneBase_src, he]
    rw [run_cons, ih _ (by rw [h1]; exact he), h1]

/-- **A source is derived from the caller whenever none was given, except by `Base`.** -/
theorem source_derived_unless_base (f : E) (hf : f.stack = []) (hs : f.src = []) (c : Call)
    (ho : CallerOutside c) (hg : c.srcArg = []) :
    (step f c).src = (if c.m = .base then [] else metric c.frames.top) ∧
    (c.m ≠ .base → (step f c).src ≠ []) := by
  rw [step_src f c (inv_of_factory f hf) ho]
  by_cases h4 : c.m = .base <;> simp [hs, hg, h4, metric_ne_nil]

/-- **The first non-empty source wins.** -/
theorem source_first_wins (f : E) (hf : f.stack = []) (hs : f.src = []) (c : Call) (cs : List Call)
    (ho : ∀ d ∈ c :: cs, CallerOutside d) (hg : c.srcArg ≠ []) :
    (run f (c :: cs)).src = c.srcArg := by
  rw [source_law f (inv_of_factory f hf) _ ho]
  simp [specSource, hs, hg]


/-! ## Immutability: derivations only allocate -/

theorem derive_prefix (h : Heap) (d : Deriv) : ∃ l, derive h d = h ++ l := by
  unfold derive
  split
  · exact ⟨_, rfl⟩
  · exact ⟨[], by simp⟩

theorem runHeap_prefix (h : Heap) (ds : List Deriv) : ∃ l, runHeap h ds = h ++ l := by
  induction ds generalizing h with
  | nil => exact ⟨[], by simp [runHeap]⟩
  | cons d ds ih =>
    obtain ⟨l1, h1⟩ := derive_prefix h d
    obtain ⟨l2, h2⟩ := ih (derive h d)
    refine ⟨l1 ++ l2, ?_⟩
    show runHeap (derive h d) ds = _
    rw [h2, h1, List.append_assoc]

/-- **Factories are immutable.** After any number of derivations, by any threads, from any objects
(factories or earlier results), in any order, every object that existed before — each factory in
particular — still has the same name, message, source, detail tag and stack. -/
theorem factory_unchanged (h : Heap) (ds : List Deriv) (a : Nat) (ha : a < h.length) :
    (runHeap h ds)[a]? = h[a]? := by
  obtain ⟨l, hl⟩ := runHeap_prefix h ds
  rw [hl, List.getElem?_append_left ha]

/-- every derivation adds exactly the error the sequential chain semantics predicts -/
theorem derive_result (h : Heap) (d : Deriv) (e : E) (he : h[d.addr]? = some e) :
    derive h d = h ++ [step e d.call] := by
  simp [derive, he]

/-! ## Non-vacuity -/

def exFactory : E := ⟨"ErrA".toList, "base".toList, [], [], []⟩
def exFrames : Frames := ⟨"x/sites.(*T).Plain.func1".toList, ["main.main".toList]⟩
def exChain : List Call :=
  [⟨.msg, [" %d ".toList], " 5 ".toList, exFrames⟩,
   ⟨.srcDTagS, ["late:src".toList, "t".toList], [], exFrames⟩,
   ⟨.dTagMsg, ["u".toList, "  ".toList], "  ".toList, exFrames⟩]

instance (c : Call) : Decidable (CallerOutside c) := by unfold CallerOutside; infer_instance

/-- a factory, callers outside gerror, and a chain that exercises message (one extension blank),
tags, a derived source that a later explicit source does not overwrite, and a stack -/
example :
    exFactory.stack = [] ∧ (∀ c ∈ exChain, CallerOutside c) ∧
    run exFactory exChain =
      ⟨"ErrA".toList, "base 5".toList, "sites:(*T):Plain".toList, "t-u".toList, exFrames.toList⟩ := by
  decide

end GErrClone

"""Per-property configuration of ./check (which Lean modules hold the obligations, which
harness binaries run the correspondence, what is trusted)."""

GO_TRUST = "Go compiler/runtime; the harness (cmd/%s) and the Lean line-protocol driver, incl. their canonicalisation"

PROPS = {
    "C11": dict(
        title="set: BitSet is exact bit-set algebra and reports changes truthfully",
        lean_modules=["Properties.C11"],
        harness=[dict(bin="h-set")],
        trusted=[GO_TRUST % "h-set", "Go's conversion BitSet[T](item) zero-extends (language spec)"],
        assumptions=["flags enter the model already zero-extended to 64 bits (theorem mem_ofFlag covers every width <= 64)"],
        level_text="Machine-checked Lean 4 theorems (kernel-only axioms) over a BitVec 64 model that mirrors bit_set.go statement by statement: union/difference/intersection/subset characterisations, change flag <-> value changed, multi-argument = sequential, for every set, every flag list and every flag width. The model is tied to /repo by executing model and implementation on all 65536 (set,flag) pairs of an 8-bit flag type (all triples in the thorough tier) plus random wide calls and sequences.",
        level_note="Trusted: Lean kernel + propext/Quot.sound/Classical.choice as reported by #print axioms; the Go harness and Lean driver; Go's integer conversion semantics. The theorem is about the model; the exhaustive 8-bit correspondence and random 16/32/64-bit runs are what tie it to the code.",
        technique="Lean 4 proof (induction over flag lists, bitwise extensionality) + exhaustive model/implementation correspondence",
        explanation="theorems over all BitVec 64 sets and all flag lists; correspondence exhaustive on the 8-bit flag type",
    ),
    "C07": dict(
        title="set: Set is a mathematical set under every operation sequence",
        lean_modules=["Properties.C07"],
        harness=[dict(bin="h-set")],
        trusted=[GO_TRUST % "h-set", "Go's built-in map is a finite map (insert/delete/lookup/len/range)"],
        assumptions=["Has/HasAny are called with at least one argument (the quantifier); zero-argument calls are compared only in the out-of-domain stream"],
        level_text="Machine-checked Lean 4 refinement: the model of set.go (nil/allocated map as Option (List), every early return and changed-flag guard mirrored) refines the mathematical set for EVERY operation sequence of any length over any element type (refines_math_set, by induction over the op list from the no-duplicates invariant), with Has/HasAny/Slice characterisations, change-flag <-> membership-changed, and order independence of AddSet/RemoveSet over Go's map iteration order. Tied to /repo by differential execution of random op sequences on int/string/struct sets with a full membership probe after every mutation.",
        level_note="Trusted: Lean kernel + standard axioms; Go's built-in map; the Go harness and the Lean driver. The theorem is about the model; the correspondence (20k sequences quick, 600k thorough) ties it to set.go.",
        technique="Lean 4 proof (refinement to a mathematical set by induction over operation sequences) + differential correspondence on op histories",
        explanation="refinement theorem for all op sequences; correspondence on random histories",
    ),
    "C17": dict(
        title="set: JSON and YAML encodings of Set round-trip membership",
        lean_modules=["Properties.C17"],
        harness=[dict(bin="h-set")],
        trusted=[GO_TRUST % "h-set", "encoding/json and gopkg.in/yaml.v3 round-trip lists of the element types (hypothesis Codec.RoundTrips; observed by the correspondence run, not proved)"],
        assumptions=["the list codec round-trips the element type (no NaN floats); a literal YAML null decoded into a pre-filled set is yaml.v3 behaviour and out of domain"],
        level_text="Machine-checked Lean 4 theorems, parametric in the element list codec: Unmarshal(Marshal(s)) into any target is exactly target ∪ s (hence exact round trip into nil/empty targets, nil and empty sets included), the encoding is Slice() = each member once, nil exactly when empty. PARTIAL: the codec's own round-trip law is a hypothesis of the theorems, validated differentially (json and yaml.v3, standalone and as struct field, 7 element types incl. YAML-significant strings) rather than proved.",
        level_note="Trusted: Lean kernel + standard axioms; encoding/json and yaml.v3 (not modelled; their list round trip is the hypothesis RoundTrips); the Go harness and Lean driver.",
        technique="Lean 4 proof parametric in a codec law (reusing the C07 refinement lemmas) + differential correspondence through the real codecs",
        explanation="partial: codec law is a hypothesis; everything Set itself contributes is proved",
    ),
    "C15": dict(
        title="gerror: factories immutable; message/tag/source/stack compose lawfully",
        lean_modules=["Properties.C15"],
        extract=[dict(name="extract-gerror", cmd=["go", "-C", "harness", "run", "./cmd/extract-gerror", "-out", "../lean/Generated"])],
        harness=[dict(bin="h-gerrclone")],
        trusted=[GO_TRUST % "h-gerrclone",
                 "the extractor harness/cmd/extract-gerror (go/ast; only extracts the CloneBase argument tuples, StackType constants and store sites)",
                 "fmt.Sprintf (applied by the harness, its result is an input of the model), strings.TrimSpace / unicode.IsSpace (re-implemented in Lean and compared differentially), runtime.Callers / FuncForPC (the call stack is an input of the model, recorded by the harness with runtime.CallersFrames)",
                 "Go memory model: goroutines that do not synchronise race exactly when two of them access one location and one access is a write; the allocator returns memory not reachable by anyone else"],
        assumptions=["strings are valid UTF-8 (the quantifier says unicode); invalid byte sequences are compared only in the out-of-domain stream",
                     "an empty base message contributes nothing to the joined message (no leading space); empty detail tags contribute nothing",
                     "source law: the caller's frame name does not start with github.com/drshriveer/gtools/gerror.Stack (what getCurrentPackage really computes), i.e. the caller is not a function of package gerror named Stack*",
                     "race/immutability theorems: memory at object granularity; goroutines only derive (no synchronisation between them), start from objects that existed before, and continue on their own results",
                     "factoryRef / srcError / isFactory are not part of the model record (C06)"],
        level_text="Machine-checked Lean 4 theorems (kernel-only axioms) over a statement-by-statement mirror of CloneBase (factory.go), of the 19 factory methods' argument wiring (gerror.go) and of makeStack/NearestExternal/SourceInfo/Metric (stack.go), for EVERY factory, EVERY chain of any length and all arguments: message_law (base message then each non-blank extension, TrimSpace'd, single spaces; TrimSpace itself characterised by trimSpace_spec), dtag_law ('-'-joined), source_law with source_never_overwritten / source_first_wins / source_derived_unless_base (derived = Metric of the caller frame, never empty), stack_law / stack_iff_stack_method / stack_persists, name_law; factory_unchanged (any number of derivations by anyone, in any order, leave every pre-existing object unchanged), derivations_write_only_fresh and no_data_race (any number of goroutines, any chain lengths, every interleaving). Tie to /repo on every run: (A) regenerated tables checked by `decide` - method_wiring (each method hands CloneBase the stack type and the parameters its name promises, by position), factory_methods_covered, stack_constants, stores_fresh_or_local (every store in CloneBase, the stack helpers and all *GError methods targets a just-allocated object or a local); (B) differential execution of model and real code on chains from 8 kinds of call site, observing every intermediate error and all objects afterwards, plus StackElem.Metric and TrimSpace on their own; plus one 16-goroutine run of the chains under the race detector (supporting evidence only).",
        level_note="Trusted: Lean kernel + propext/Classical.choice/Quot.sound; the extractor, Go harness and Lean driver; fmt, runtime stack capture (frame names are inputs, captured independently by the harness) and the Go memory model as stated. The race clause is proved on an object-granular access model whose write sets are regenerated from the source (syntactic go/ast classification, not SSA/escape analysis); the -race run is evidence, not proof.",
        technique="Lean 4 proof (induction over derivation chains; access-set argument for races) + regenerated wiring/write-set tables checked by decide + differential correspondence on call histories",
        explanation="chain laws for all chains by induction; wiring and write sets regenerated from gerror.go/factory.go/stack.go and checked by decide; correspondence on random chains from many call sites; -race run as supporting evidence",
    ),
    "C09": dict(
        title="gerror: generated extension types match the base type on every method",
        lean_modules=["Properties.C09"],
        extract=[dict(name="extract-gerror", cmd=["go", "-C", "harness", "run", "./cmd/extract-gerror", "-out", "../lean/Generated"])],
        harness=[dict(bin="h-gerrclone")],
        trusted=[GO_TRUST % "h-gerrclone",
                 "the extractor harness/cmd/extract-gerror (text/template/parse + go/ast over the flattened template; only extracts)",
                 "text/template, go/format and the Go compiler (the generated file is produced by the real CLI and compiled; not modelled)",
                 "fmt %v rendering of field values (an input of the model)"],
        assumptions=["extension factories are made with FactoryOf; field names are distinct Go identifiers that do not collide with GError's own fields/methods",
                     "print names without format verbs: the template pastes the print name into a fmt format string, a name containing % is compared in the out-of-domain stream only",
                     "with -skipConvertGen, Convert/ConvertS are the user's code and are not called"],
        level_text="Machine-checked Lean 4 theorems over tables REGENERATED on every run from gerror/gen/gerror.gotmpl (template parse tree flattened to Go, each stanza's CloneBase argument tuple, its {{if}} guards, the shape of toPrimaryType and the order of Error()'s parts) and from gerror/gerror.go: tmpl_rows_eq_base_rows (all 19 stanzas pass exactly what the base methods pass, `decide`), tmpl_guards, tmpl_shape; from these, for EVERY extension definition, method, argument tuple, call stack and factory: ext_eq_base and ext_chain_eq_base_chain (name/message/source/detail tag/stack of the extension result equal the plain-GError result, so all C15 chain laws carry over), clone_fields_copied, nonclone_fields_zero, error_lists_print_fields + print_fields_exact (exactly the print fields, once each, sorted by field name, under their print names, between source and message). legacy_tmpl_srcS_violates keeps the pinned template's SrcS stanza as a witness. Correspondence: random extension structs generated by the real CLI (with and without -skipConvertGen) into scratch packages, compiled with a probe; every method called on extension and plain factory from one function and compared with the specification's answer.",
        level_note="Trusted: Lean kernel + standard axioms; the extractor; the harness, probe and driver; text/template, gofmt and the Go compiler. The theorems are about the regenerated tables plus the common stanza shape (clone := CloneBase(...); return e.toPrimaryType(clone)), which the extractor enforces; the field-parsing part of generate.go (struct tags -> print/clone/name) is modelled (filter + sort by name) and covered by the correspondence, not proved against go/types.",
        technique="Lean 4 proof over tables regenerated from the template and the base methods (decide) + structural proofs for clone/print fields + differential correspondence through the real generator",
        explanation="template and base tables regenerated and compared by the kernel; extension = base for all definitions/methods/arguments; correspondence through the real CLI",
    ),
}

# properties not claimed, with the reason (kept current; see DESIGN.md)
NOT_CLAIMED = {}

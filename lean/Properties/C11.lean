import Model.BitSetM
/-!
# C11 — BitSet is exact bit-set algebra and reports changes truthfully
All statements are for every 64-bit stored value and every list of flags (any length), flags of
any width `w ≤ 64` entering through `ofFlag` (zero extension).
-/
namespace BitSetM

theorem mem_ofFlag {w : Nat} (hw : w ≤ 64) (f : BitVec w) (i : Nat) :
    mem (ofFlag f) i = f.getLsbD i := by
  unfold mem ofFlag
  simp [BitVec.getLsbD_setWidth]
  intro h
  have := BitVec.lt_of_getLsbD h
  omega

private theorem ext_mem {a b : BS} (h : ∀ i, mem a i = mem b i) : a = b := by
  apply BitVec.eq_of_getLsbD_eq
  intro i _
  exact h i

@[simp] theorem mem_or (a b : BS) (i : Nat) : mem (a ||| b) i = (mem a i || mem b i) := by simp [mem]
@[simp] theorem mem_and (a b : BS) (i : Nat) : mem (a &&& b) i = (mem a i && mem b i) := by simp [mem]
@[simp] theorem mem_zero (i : Nat) : mem 0#64 i = false := by simp [mem]
theorem mem_lt {a : BS} {i : Nat} (h : mem a i = true) : i < 64 := BitVec.lt_of_getLsbD h
@[simp high] theorem mem_andnot (a b : BS) (i : Nat) : mem (a &&& ~~~b) i = (mem a i && !mem b i) := by
  cases ha : mem a i
  · simp [ha]
  · have := mem_lt ha
    simp [mem] at ha ⊢
    simp [ha, this]

/-- `MakeBitSet` unions the bits of its arguments. -/
theorem make_is_union (fs : List BS) (i : Nat) :
    mem (make fs) i = fs.any (fun f => mem f i) := by
  unfold make
  suffices h : ∀ (r : BS), mem (fs.foldl (fun r f => r ||| f) r) i = (mem r i || fs.any (fun f => mem f i)) by
    simpa using h 0#64
  induction fs with
  | nil => intro r; simp
  | cons f fs ih => intro r; simp [ih, Bool.or_assoc]

theorem add_fst (s : BS) (fs : List BS) (b : Bool) :
    (fs.foldl addStep (s, b)).1 = fs.foldl (fun r f => r ||| f) s := by
  induction fs generalizing s b with
  | nil => rfl
  | cons f fs ih => simp [List.foldl, addStep, ih]

theorem remove_fst (s : BS) (fs : List BS) (b : Bool) :
    (fs.foldl removeStep (s, b)).1 = fs.foldl (fun r f => r &&& ~~~f) s := by
  induction fs generalizing s b with
  | nil => rfl
  | cons f fs ih => simp [List.foldl, removeStep, ih]

/-- `Add` unions the bits of its arguments into the set. -/
theorem add_is_union (s : BS) (fs : List BS) (i : Nat) :
    mem (add s fs).1 i = (mem s i || fs.any (fun f => mem f i)) := by
  unfold add
  rw [add_fst]
  induction fs generalizing s with
  | nil => simp
  | cons f fs ih => simp [ih, Bool.or_assoc]

/-- `Remove` clears the bits of its arguments. -/
theorem remove_is_diff (s : BS) (fs : List BS) (i : Nat) :
    mem (remove s fs).1 i = (mem s i && !fs.any (fun f => mem f i)) := by
  unfold remove
  rw [remove_fst]
  induction fs generalizing s with
  | nil => simp
  | cons f fs ih =>
    simp [ih, Bool.and_assoc]

/-- `MaskOf` intersects. -/
theorem maskOf_is_inter (s f : BS) (i : Nat) : mem (maskOf s f) i = (mem s i && mem f i) := by
  simp [maskOf]

/-- `Has(f)` is true exactly when every bit of `f` is present. -/
theorem has_iff_subset (s f : BS) : has s f = true ↔ ∀ i, mem f i = true → mem s i = true := by
  unfold has
  constructor
  · intro h i hf
    have h' : s &&& f = f := by simpa using h
    have := congrArg (fun x => mem x i) h'
    simp [mem] at this hf ⊢
    simp [hf] at this
    exact this
  · intro h
    have : s &&& f = f := by
      apply ext_mem
      intro i
      simp only [mem, BitVec.getLsbD_and]
      cases hf : f.getLsbD i
      · simp
      · have := h i (by simpa [mem] using hf)
        simp [mem] at this
        simp [this]
    simp [this]

/-- `HasAny` is true exactly when some argument is fully present. -/
theorem hasAny_iff (s : BS) (fs : List BS) :
    hasAny s fs = true ↔ ∃ f ∈ fs, ∀ i, mem f i = true → mem s i = true := by
  unfold hasAny
  simp only [List.any_eq_true]
  constructor
  · rintro ⟨f, hf, h⟩; exact ⟨f, hf, (has_iff_subset s f).1 h⟩
  · rintro ⟨f, hf, h⟩; exact ⟨f, hf, (has_iff_subset s f).2 h⟩

/-! ### change reporting -/

private theorem or_eq_self_iff (s f : BS) : s ||| f = s ↔ s &&& f = f := by
  constructor <;> intro h <;> apply ext_mem <;> intro i <;>
    have := congrArg (fun x => mem x i) h <;>
    simp at this ⊢ <;>
    cases hs : mem s i <;> cases hf : mem f i <;> simp_all

private theorem andnot_eq_self_iff (s f : BS) : s &&& ~~~f = s ↔ s &&& f = 0#64 := by
  constructor <;> intro h <;> apply ext_mem <;> intro i <;>
    have := congrArg (fun x => mem x i) h <;>
    simp at this ⊢ <;>
    cases hs : mem s i <;> cases hf : mem f i <;> simp_all

/-- `a ⊆ b` on bit sets. -/
private def sub (a b : BS) : Prop := ∀ i, mem a i = true → mem b i = true

private theorem sub_refl (a : BS) : sub a a := fun _ h => h
private theorem sub_or (a f : BS) : sub a (a ||| f) := by
  intro i h; simp [h]
private theorem andnot_sub (a f : BS) : sub (a &&& ~~~f) a := by
  intro i h; simp at h; exact h.1
private theorem sub_trans {a b c : BS} (h1 : sub a b) (h2 : sub b c) : sub a c :=
  fun i h => h2 i (h1 i h)
private theorem sub_antisymm {a b : BS} (h1 : sub a b) (h2 : sub b a) : a = b := by
  apply ext_mem; intro i
  have e1 := h1 i
  have e2 := h2 i
  cases ha : mem a i <;> cases hb : mem b i <;> simp_all

private theorem addStep_def (s : BS) (b : Bool) (f : BS) :
    addStep (s, b) f = (s ||| f, b || (s &&& f != f)) := rfl
private theorem removeStep_def (s : BS) (b : Bool) (f : BS) :
    removeStep (s, b) f = (s &&& ~~~f, b || (s &&& f != 0#64)) := rfl

private theorem add_fold_sub (s : BS) (fs : List BS) (b : Bool) :
    sub s (fs.foldl addStep (s, b)).1 := by
  induction fs generalizing s b with
  | nil => exact sub_refl s
  | cons f fs ih =>
    rw [List.foldl_cons, addStep_def]
    exact sub_trans (sub_or s f) (ih (s ||| f) _)

private theorem remove_fold_sub (s : BS) (fs : List BS) (b : Bool) :
    sub (fs.foldl removeStep (s, b)).1 s := by
  induction fs generalizing s b with
  | nil => exact sub_refl s
  | cons f fs ih =>
    rw [List.foldl_cons, removeStep_def]
    exact sub_trans (ih (s &&& ~~~f) _) (andnot_sub s f)

private theorem add_flag (s : BS) (fs : List BS) (b : Bool) :
    (fs.foldl addStep (s, b)).2 = (b || decide ((fs.foldl addStep (s, b)).1 ≠ s)) := by
  induction fs generalizing s b with
  | nil => simp
  | cons f fs ih =>
    rw [List.foldl_cons, addStep_def, ih]
    by_cases hf : s &&& f = f
    · have : s ||| f = s := (or_eq_self_iff s f).2 hf
      simp [hf, this]
    · have hne : (fs.foldl addStep (s ||| f, b || (s &&& f != f))).1 ≠ s := by
        intro heq
        have h1 := add_fold_sub (s ||| f) fs (b || (s &&& f != f))
        rw [heq] at h1
        have := sub_antisymm h1 (sub_or s f)
        exact hf ((or_eq_self_iff s f).1 this)
      simp [hf, hne]

private theorem remove_flag (s : BS) (fs : List BS) (b : Bool) :
    (fs.foldl removeStep (s, b)).2 = (b || decide ((fs.foldl removeStep (s, b)).1 ≠ s)) := by
  induction fs generalizing s b with
  | nil => simp
  | cons f fs ih =>
    rw [List.foldl_cons, removeStep_def, ih]
    by_cases hf : s &&& f = 0#64
    · have : s &&& ~~~f = s := (andnot_eq_self_iff s f).2 hf
      simp [hf, this]
    · have hne : (fs.foldl removeStep (s &&& ~~~f, b || (s &&& f != 0#64))).1 ≠ s := by
        intro heq
        have h1 := remove_fold_sub (s &&& ~~~f) fs (b || (s &&& f != 0#64))
        rw [heq] at h1
        have := sub_antisymm (andnot_sub s f) h1
        exact hf ((andnot_eq_self_iff s f).1 this)
      simp [hf, hne]

/-- `Add` returns true exactly when the stored bits changed. -/
theorem add_true_iff_changed (s : BS) (fs : List BS) :
    (add s fs).2 = true ↔ (add s fs).1 ≠ s := by
  unfold add; rw [add_flag]; simp

/-- `Remove` returns true exactly when the stored bits changed. -/
theorem remove_true_iff_changed (s : BS) (fs : List BS) :
    (remove s fs).2 = true ↔ (remove s fs).1 ≠ s := by
  unfold remove; rw [remove_flag]; simp

/-- A multi-argument `Add` equals the same call made one argument at a time
(value, and the disjunction of the returned flags). -/
theorem add_multi_eq_sequential (s : BS) (fs : List BS) :
    add s fs = fs.foldl (fun (a : BS × Bool) f => let r := add a.1 [f]; (r.1, a.2 || r.2)) (s, false) := by
  unfold add
  congr 1

/-- A multi-argument `Remove` equals the same call made one argument at a time. -/
theorem remove_multi_eq_sequential (s : BS) (fs : List BS) :
    remove s fs = fs.foldl (fun (a : BS × Bool) f => let r := remove a.1 [f]; (r.1, a.2 || r.2)) (s, false) := by
  unfold remove
  congr 1

/-- `HasAny` of several flags is the disjunction of single-flag calls. -/
theorem hasAny_multi_eq_sequential (s : BS) (fs : List BS) :
    hasAny s fs = fs.any (fun f => hasAny s [f]) := by
  simp [hasAny]

/-- The algorithm at the pinned commit violates the change-reporting clause: removing a composite
flag of which only one bit is present changes the set and reports `false`; removing the zero
flag changes nothing and reports `true`. -/
theorem legacy_remove_violates :
    ((removeLegacy 1#64 [3#64]).1 ≠ 1#64 ∧ (removeLegacy 1#64 [3#64]).2 = false) ∧
    ((removeLegacy 1#64 [0#64]).1 = 1#64 ∧ (removeLegacy 1#64 [0#64]).2 = true) := by
  decide

/-- non-vacuity: a concrete composite-flag instance of the change-reporting theorems. -/
example : (remove 5#64 [6#64, 0#64]).2 = true ∧ (remove 5#64 [6#64, 0#64]).1 = 1#64 ∧
    (add 5#64 [4#64, 1#64]).2 = false := by decide

end BitSetM

import Model.GErrorIs
import Lemmas.GErrorIsInv
/-!
# C06 — gerror: errors.Is identifies exactly the originating factory, never panics

All theorems are about `run cmds` for EVERY history `cmds` in the quantifier's domain
(`inDomain 0 cmds`): any number of factories (base with/without `FactoryOf`, generated extension
types with `FactoryOf`), any tree of calls of the 19 methods on any earlier value (so in particular
every chain, of any length), Convert/ConvertS arguments being nothing, any foreign error not wrapping
a gerror error (any dynamic type, comparable or not, any `%w` nesting), or any earlier value.
The specification (`specOrigin`, `specSources`, `specIs`, `specIsForeign`) only reads the history.
`fuel` bounds the Go loops; every statement holds for all fuel above a small explicit bound and the
outcome is never `Res.fuel`/`Res.panic` there.

The model mirrors the REPAIRED code (comparability guard in `Is`; every converted error kept);
the pinned code's two violations are the `legacy_…` witnesses at the end.
-/
namespace GErrorIs

variable {cmds : List Cmd}

/-- errors.Is between any two values of a history (factories or derived errors, in either role):
true exactly when they come from the same factory.  Covers "errors.Is(err, F) holds",
"errors.Is(err, G) is false for every other factory G" and "errors.Is holds between any two errors
derived from F" (see the three corollaries). -/
theorem is_iff_same_factory (hd : inDomain 0 cmds = true) {i j : Nat}
    (hi : i < (run cmds).vals.length) (hj : j < (run cmds).vals.length) (n : Nat) :
    errorsIs (run cmds).h (n + 3) ((run cmds).val i) ((run cmds).val j) = .ofBool (specIs cmds i j) := by
  have g := good_run hd
  obtain ⟨a, ha, _⟩ := g.val i hi
  obtain ⟨b, hb, _, _, hmark, _⟩ := g.val j hj
  rw [errorsIs_isG g.wf n ha hb hmark]
  apply Res.ofBool_congr
  rw [Bool.eq_iff_iff]
  simp only [decide_eq_true_eq, specIs, beq_iff_eq]
  exact g.same_iff hi hj ha hb

/-- the originating factory of a value is a value of the history, and is its own origin -/
theorem specOrigin_lt_idem (hd : inDomain 0 cmds = true) {i : Nat} (hi : i < (run cmds).vals.length) :
    specOrigin cmds i < (run cmds).vals.length ∧ specOrigin cmds (specOrigin cmds i) = specOrigin cmds i := by
  have g := good_run hd
  obtain ⟨a, _, _, _, _, h5, _⟩ := g.val i hi
  exact ⟨h5, g.O_idem hi⟩

/-- errors.Is(err, F) holds for the factory F that err was derived from (any chain, length 0 included) -/
theorem is_own_factory (hd : inDomain 0 cmds = true) {i : Nat} (hi : i < (run cmds).vals.length) (n : Nat) :
    errorsIs (run cmds).h (n + 3) ((run cmds).val i) ((run cmds).val (specOrigin cmds i)) = .t := by
  have h := specOrigin_lt_idem hd hi
  rw [is_iff_same_factory hd hi h.1, specIs, h.2]; simp

/-- errors.Is(err, G) is false for every value G (factory or derived) of another factory -/
theorem not_is_other_factory (hd : inDomain 0 cmds = true) {i j : Nat}
    (hi : i < (run cmds).vals.length) (hj : j < (run cmds).vals.length)
    (hne : specOrigin cmds i ≠ specOrigin cmds j) (n : Nat) :
    errorsIs (run cmds).h (n + 3) ((run cmds).val i) ((run cmds).val j) = .f := by
  rw [is_iff_same_factory hd hi hj, specIs]; simp [hne]

/-- errors.Is holds between any two errors derived from the same factory -/
theorem is_sibling (hd : inDomain 0 cmds = true) {i j : Nat}
    (hi : i < (run cmds).vals.length) (hj : j < (run cmds).vals.length)
    (he : specOrigin cmds i = specOrigin cmds j) (n : Nat) :
    errorsIs (run cmds).h (n + 3) ((run cmds).val i) ((run cmds).val j) = .t := by
  rw [is_iff_same_factory hd hi hj, specIs]; simp [he]

/-- ExtractFactoryReference(err) identifies F: it is the (embedded) `*GError` of the originating
factory value.  Sole exception, stated exactly: when err IS an unmarked bare `*GError` root (chain of
length 0 on a factory not made with FactoryOf) the function returns nil, as its doc comment says
("if one exists"). -/
theorem factoryRef_identifies (hd : inDomain 0 cmds = true) {i : Nat} (hi : i < (run cmds).vals.length) :
    ∃ r, embedded ((run cmds).val (specOrigin cmds i)) = some r ∧
      (extractFactoryRef (run cmds).h ((run cmds).val i) = .base r ∨
        (extractFactoryRef (run cmds).h ((run cmds).val i) = .nil ∧
          embedded ((run cmds).val i) = some r ∧ (obj (run cmds).h r).isFactory = false)) := by
  have g := good_run hd
  obtain ⟨a, ha, _, _, _, _, h6⟩ := g.val i hi
  refine ⟨origin (run cmds).h a, h6, ?_⟩
  rw [xref_of_embedded ha]
  rcases g.wf.ref a with hr | ⟨r, hr, _, _, hnf⟩
  · rw [origin_root hr]
    cases hf : (obj (run cmds).h a).isFactory
    · right; exact ⟨by simp [hr], ha, rfl⟩
    · left; simp
  · left; rw [origin_derived hr, hnf]; simp [hr]

/-- … injectively: different factories are identified by different references -/
theorem factoryRef_injective (hd : inDomain 0 cmds = true) {i j r : Nat}
    (hi : i < (run cmds).vals.length) (hj : j < (run cmds).vals.length)
    (h1 : embedded ((run cmds).val (specOrigin cmds i)) = some r)
    (h2 : embedded ((run cmds).val (specOrigin cmds j)) = some r) :
    specOrigin cmds i = specOrigin cmds j := by
  have g := good_run hd
  have hi' := specOrigin_lt_idem hd hi
  have hj' := specOrigin_lt_idem hd hj
  have := g.inj _ _ r r hi'.1 hj'.1 h1 h2 rfl
  rw [show O (specOrigins cmds) (specOrigin cmds i) = specOrigin cmds (specOrigin cmds i) from rfl,
      show O (specOrigins cmds) (specOrigin cmds j) = specOrigin cmds (specOrigin cmds j) from rfl,
      hi'.2, hj'.2] at this
  exact this

/-- errors.Is(err, e) for ANY foreign target e: never a panic; for a comparable e it is true exactly
when e (the same value) was converted on the way to err; for a non-comparable e it is false. -/
theorem is_foreign_iff_converted (hd : inDomain 0 cmds = true) {i : Nat} (hi : i < (run cmds).vals.length)
    (e : Val) (he : isForeign e = true) (n : Nat) :
    errorsIs (run cmds).h (n + 2) ((run cmds).val i) e =
      .ofBool (isComparable e && specIsForeign cmds i e) := by
  have g := good_run hd
  obtain ⟨a, ha, _, h3, _⟩ := g.val i hi
  rw [errorsIs_isG_foreign g.wf n ha he, h3]
  cases e with
  | foreign ty id x =>
    cases ty with
    | noncmp t => simp [isComparable]
    | cmp t =>
      have hs : ∀ s ∈ S (cmds.foldl specSourcesStep []) i, isForeign s = true := by
        intro s hs; rw [← h3] at hs; exact g.wf.srcs a s hs
      rw [containsErr_cmp hs]
      simp [isComparable, specIsForeign, specSources, S]
  | _ => simp [isForeign] at he

/-- Convert/ConvertS of a comparable foreign error e make errors.Is(result, e) true — on ANY
receiver of the history, whatever it already carries. -/
theorem convert_foreign (hd : inDomain 0 cmds = true) {i : Nat} (hi : i < (run cmds).vals.length)
    (m : Meth) (hm : m.isConvert = true) (t id : Nat) (x : Val)
    (hp : pureForeign (.foreign (.cmp t) id x) = true) (n : Nat) :
    let cmds' := cmds ++ [.call i m (.foreign (.foreign (.cmp t) id x))]
    errorsIs (run cmds').h (n + 2) ((run cmds').val (run cmds).vals.length) (.foreign (.cmp t) id x) = .t := by
  intro cmds'
  have g := good_run hd
  have hd' : inDomain 0 cmds' = true := by
    have aux : ∀ (k : Nat) (cs : List Cmd) (c : Cmd), inDomain k cs = true → c.inDomain (k + cs.length) = true →
        inDomain k (cs ++ [c]) = true := by
      intro k cs
      induction cs generalizing k with
      | nil => intro c _ hc; simpa [inDomain] using hc
      | cons d ds ih =>
        intro c h hc
        simp only [inDomain, Bool.and_eq_true, List.cons_append] at h ⊢
        exact ⟨h.1, ih (k + 1) c h.2 (by simpa [Nat.add_assoc, Nat.add_comm 1] using hc)⟩
    apply aux 0 cmds _ hd
    have : cmds.length = (run cmds).vals.length := by
      have h1 := g.lo
      have h2 : ∀ (cs : List Cmd) (os : List Nat), (cs.foldl specOriginStep os).length = os.length + cs.length := by
        intro cs
        induction cs with
        | nil => intro os; simp
        | cons c cs ih =>
          intro os; rw [List.foldl_cons, ih]
          have : (specOriginStep os c).length = os.length + 1 := by
            cases c with
            | call i m arg => simp only [specOriginStep]; split <;> simp
            | _ => simp [specOriginStep]
          rw [this]; simp; omega
      rw [← h1, specOrigins, h2]; simp
    simp only [Nat.zero_add, this, Cmd.inDomain, Bool.and_eq_true, decide_eq_true_eq]
    exact ⟨hi, hp⟩
  have hlen : (run cmds').vals.length = (run cmds).vals.length + 1 := by
    simp only [cmds', run, List.foldl_append, List.foldl_cons, List.foldl_nil]
    exact exec_vals_length _ _
  rw [is_foreign_iff_converted hd' (by rw [hlen]; omega) _ rfl]
  have hsrc : specSources cmds' (run cmds).vals.length = specSources cmds i ++ [.foreign (.cmp t) id x] := by
    have hl : (cmds.foldl specSourcesStep []).length = (run cmds).vals.length := g.ls
    simp only [specSources, cmds', List.foldl_append, List.foldl_cons, List.foldl_nil, specSourcesStep, hm]
    rw [← hl]; simp
  simp [isComparable, specIsForeign, hsrc, sameForeign]

/-- … while errors.Is(e, result) stays false — for every value of the history and every foreign e
(any dynamic type, any nesting of wrapped foreign errors), with fuel for e's unwrap chain. -/
theorem foreign_is_not_result (hd : inDomain 0 cmds = true) {i : Nat} (hi : i < (run cmds).vals.length)
    (e : Val) (he : pureForeign e = true) (fuel : Nat) (hf : depth e ≤ fuel) :
    errorsIs (run cmds).h fuel e ((run cmds).val i) = .f := by
  have g := good_run hd
  obtain ⟨a, ha, _⟩ := g.val i hi
  have hw : isG ((run cmds).val i) = true := by simp [isG, ha]
  have hen : e ≠ .nil := by intro h; subst h; simp [pureForeign] at he
  have hwn : (run cmds).val i ≠ .nil := by intro h; rw [h] at ha; simp [embedded] at ha
  rw [errorsIs]; simp only [hen, hwn, or_self, if_false]
  exact loop_pureForeign_left _ he hw _ fuel hf

/-- Convert/ConvertS return errors that already are gerror errors unchanged: the result IS the
argument value and nothing is allocated or modified. -/
theorem convert_gerror_identity (hd : inDomain 0 cmds = true) {i j : Nat}
    (hi : i < (run cmds).vals.length) (hj : j < (run cmds).vals.length) (m : Meth) (hm : m.isConvert = true) :
    run (cmds ++ [.call i m (.value j)]) = ⟨(run cmds).h, (run cmds).vals ++ [(run cmds).val j]⟩ := by
  have g := good_run hd
  obtain ⟨a, ha, _⟩ := g.val i hi
  obtain ⟨b, hb, _⟩ := g.val j hj
  have hrun : run (cmds ++ [.call i m (.value j)]) = exec (run cmds) (.call i m (.value j)) := by
    simp [run, List.foldl_append]
  have := call_convert_gerror (run cmds).h ((run cmds).val i) m ((run cmds).val j) (by simp [isG, ha]) (by simp [hm, hb])
  rw [hrun]
  show execWith call (run cmds) _ = _
  simp only [execWith, World.argVal]
  rw [this]

/-- none of these calls panics: on the heap of any in-domain history errors.Is is panic-free for
EVERY pair of error values (gerror values, foreign errors of comparable or non-comparable type,
wrapped ones, nil; as source or as target) and every fuel. -/
theorem no_panic (hd : inDomain 0 cmds = true) (fuel : Nat) (x y : Val) :
    errorsIs (run cmds).h fuel x y ≠ .panic :=
  errorsIs_ne_panic (good_run hd).wf fuel x y

/-! ### non-vacuity: a concrete history in the domain, exercising every kind of command -/

example :
    let e1 := Val.foreign (.cmp 0) 0 .nil
    let s := Val.foreign (.noncmp 0) 1 .nil
    let cmds := [Cmd.newBase true, .newBase false, .newExt 1 true,
      .call 0 .Convert (.foreign s), .call 3 .MsgS .none, .call 4 .ConvertS (.foreign e1),
      .call 2 .Convert (.foreign e1), .call 1 .Convert (.value 6), .call 1 .Stack .none]
    inDomain 0 cmds = true ∧ (run cmds).vals.length = 9 ∧
    specOrigin cmds 5 = 0 ∧ specOrigin cmds 7 = 2 ∧ specOrigin cmds 8 = 1 ∧
    errorsIs (run cmds).h 8 ((run cmds).val 5) ((run cmds).val 0) = .t ∧
    errorsIs (run cmds).h 8 ((run cmds).val 5) ((run cmds).val 1) = .f ∧
    errorsIs (run cmds).h 8 ((run cmds).val 7) ((run cmds).val 2) = .t ∧
    errorsIs (run cmds).h 8 ((run cmds).val 5) e1 = .t ∧
    errorsIs (run cmds).h 8 ((run cmds).val 5) s = .f ∧
    extractFactoryRef (run cmds).h ((run cmds).val 1) = .nil ∧
    extractFactoryRef (run cmds).h ((run cmds).val 8) = .base 1 := by
  decide

/-! ### the pinned code violates the property (kernel-checked witnesses, replayed from corpus/C06) -/

/-- `F := FactoryOf(&GError{})`, `r := F.Convert(sliceErr{…})`: on the pinned code
`errors.Is(r, sliceErr{…})` panics (`e.srcError == err` on two values of one non-comparable type);
on the repaired code it is `false`. -/
theorem legacy_is_panics :
    let e := Val.foreign (.noncmp 0) 0 .nil
    let w := runLegacy [.newBase true, .call 0 .Convert (.foreign e)]
    errorsIsLegacy w.h 8 (w.val 1) e = .panic ∧
    errorsIs (run [.newBase true, .call 0 .Convert (.foreign e)]).h 8 (w.val 1) e = .f := by
  decide

/-- `F.Convert(e₁).Convert(e₂)` on the pinned code keeps only `e₁` (`clone.srcError == nil &&`):
`errors.Is(result, e₂)` is `false` although `e₂` was just converted; the repaired code keeps both. -/
theorem legacy_reconvert_violates :
    let e1 := Val.foreign (.cmp 0) 0 .nil
    let e2 := Val.foreign (.cmp 0) 1 .nil
    let cmds := [Cmd.newBase true, .call 0 .Convert (.foreign e1), .call 1 .Convert (.foreign e2)]
    errorsIsLegacy (runLegacy cmds).h 8 ((runLegacy cmds).val 2) e2 = .f ∧
    specIsForeign cmds 2 e2 = true ∧
    errorsIs (run cmds).h 8 ((run cmds).val 2) e2 = .t ∧
    errorsIs (run cmds).h 8 ((run cmds).val 2) e1 = .t := by
  decide

end GErrorIs

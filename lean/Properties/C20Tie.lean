import Generated.GoGogenproto
import Lemmas.GoLoop
import Properties.C20
/-!
# C20, tie A by translation: `Generate.Run`, the `WalkDir` callback of `findProtos`, `protoFileHasGoPackage`
-/
set_option linter.unusedSimpArgs false
set_option linter.unusedVariables false
set_option linter.unusedSectionVars false
namespace C20Tie
open Gogenproto Generated.GoGogenproto GoLoop

/-! ## 1. the WalkDir callback (for EVERY `Env`) -/

/-- what the callback of `findProtos` decides for one entry -/
inductive Verdict where
  | keep
  | skip
  | skipDir
  | fail (e : String)
deriving DecidableEq, Repr

/-- the model's decision (`Gogenproto.walk` branches in this order) -/
def cbModel (isInput recurse isDir isReg isProto : Bool) (err : Option String) : Verdict :=
  match err with
  | some e => .fail e
  | none =>
    if isInput then .skip
    else if isDir && !recurse then .skipDir
    else if isReg && isProto then .keep else .skip

def Verdict.apply {S : Type} (pathname : S) (st : List S) : Verdict → List S × WalkRet
  | .keep => (st ++ [pathname], .nil)
  | .skip => (st, .nil)
  | .skipDir => (st, .skipDir)
  | .fail e => (st, .err e)

/-- `go_walkFn_eq`: the translated callback never panics and decides as the model does, for every
environment, entry, incoming error and list collected so far. -/
theorem go_walkFn_eq {S : Type} (env : Env S) (g : Generate S) (recurse : Bool) (pathname : S)
    (d : DirEntry S) (err : Option String) (st : List S) :
    findProtos_fn env g recurse pathname d err st =
      pure ((cbModel (env.eq pathname (env.lit ".") || env.eq pathname g.InputDir) recurse d.isDir
        d.isRegular (env.eq (env.filepathExt d.name) (env.lit ".proto")) err).apply pathname st) := by
  unfold findProtos_fn cbModel
  cases err with
  | some e => simp [WalkRet.ofErr, Verdict.apply]
  | none =>
    cases h1 : (env.eq pathname (env.lit ".") || env.eq pathname g.InputDir) <;>
    cases h2 : d.isDir <;> cases recurse <;> cases h3 : d.isRegular <;>
    cases h4 : env.eq (env.filepathExt d.name) (env.lit ".proto") <;>
    simp_all [WalkRet.ofErr, Verdict.apply] <;> rfl

/-! ## 2. the line scan (for EVERY `Env`) -/

/-- `go_hasGoPackage_eq`: the translated scan answers "some line contains `option go_package =`" -/
theorem go_hasGoPackage_eq {S : Type} (env : Env S) (path : S) :
    protoFileHasGoPackage env path = (do
      let lines ← env.scanLines path
      pure (lines.any (fun l => env.stringsContains l (env.lit "option go_package =")))) := by
  unfold protoFileHasGoPackage
  cases env.scanLines path with
  | error e => rfl
  | ok lines =>
    simp only [bind, Except.bind]
    rw [forIn_search _ (fun l => env.stringsContains l (env.lit "option go_package =")) (some true, ()) (none, ())
      (by intro a; rfl)]
    by_cases h : (lines.any fun l => env.stringsContains l (env.lit "option go_package =")) = true
    · simp [h]; rfl
    · simp [h]; rfl

/-! ## 3. the model's strings and external functions

A Go `string` as the model sees it: a literal (options, raw flag values, names, packages), the
absolute clean path `filepath.Abs` / an include walk hands out (`absP`), the name under which the walk
of `g.InputDir` hands out the entry at an absolute path (`firstP`: `Join(g.InputDir, …)`; protoc gets
these as file operands and the model identifies the file, not its spelling), a path relative to an
include root (`relP`), and concatenations. -/
inductive Sym where
  | lit (s : String)
  | absP (p : Path)
  | firstP (p : Path)
  | relP (p : Path)
  | cat (a b : Sym)
deriving DecidableEq

/-- the strings protoc sees (`firstP` as the model's `Arg.render` shows a file operand) -/
def Sym.conc : Sym → String
  | .lit s => s
  | .absP p => renderPath p
  | .firstP p => "file:" ++ renderPath p
  | .relP p => renderRel p
  | .cat a b => a.conc ++ b.conc

/-- `==` on strings.  A path handed out by a walk is compared with `"."` and `g.InputDir` only; the
model's reading (header of Model/Gogenproto.lean): in the walk of `g.InputDir` the test holds exactly
at the root, in an include walk exactly at the input directory's node and only if `g.InputDir` is
spelled as that absolute clean path. -/
def symEq (rq : Request) : Sym → Sym → Bool
  | .lit a, .lit b => a == b
  | .firstP p, .lit s => s == rq.inputDir && p == rq.config.input
  | .absP p, .lit s => s == rq.inputDir && (rq.config.inputAbsSpelled && p == rq.config.input)
  | _, _ => false

def entryOf : Tree → DirEntry Sym
  | .file n reg _ => ⟨.lit n, false, reg⟩
  | .dir n _ => ⟨.lit n, true, false⟩

abbrev Fn := Sym → DirEntry Sym → Option String → List Sym → Go.M (List Sym × WalkRet)

/-! `filepath.WalkDir`: lexical pre-order over the tree; `SkipDir` for a directory skips its
entries, for a file the rest of its directory; an error ends the walk. -/
mutual
def walkT (fn : Fn) (nm : Path → Sym) (pre : Path) : Tree → List Sym → Go.M (List Sym × Bool)
  | .file n reg g, st =>
    match fn (nm (pre ++ [n])) ⟨.lit n, false, reg⟩ none st with
    | .error e => .error e
    | .ok (st', .nil) => .ok (st', false)
    | .ok (st', .skipDir) => .ok (st', true)
    | .ok (_, .err e) => .error e
  | .dir n cs, st =>
    match fn (nm (pre ++ [n])) ⟨.lit n, true, false⟩ none st with
    | .error e => .error e
    | .ok (st', .nil) =>
      match walkListT fn nm (pre ++ [n]) cs st' with
      | .error e => .error e
      | .ok st'' => .ok (st'', false)
    | .ok (st', .skipDir) => .ok (st', false)
    | .ok (_, .err e) => .error e
def walkListT (fn : Fn) (nm : Path → Sym) (pre : Path) : List Tree → List Sym → Go.M (List Sym)
  | [], st => .ok st
  | t :: ts, st =>
    match walkT fn nm pre t st with
    | .error e => .error e
    | .ok (st', true) => .ok st'
    | .ok (st', false) => walkListT fn nm pre ts st'
end

/-- the root itself is visited first (a `SkipDir` there ends the walk without error) -/
def walkRoot (fn : Fn) (nm : Path → Sym) (root : Path) (cs : List Tree) (st : List Sym) : Go.M (List Sym) :=
  match fn (nm root) ⟨.lit (root.getLast?.getD ""), true, false⟩ none st with
  | .error e => .error e
  | .ok (st', .nil) => walkListT fn nm root cs st'
  | .ok (st', .skipDir) => .ok st'
  | .ok (_, .err e) => .error e

def walkAt (fs : List Tree) (dir : Sym) (root : Path) (nm : Path → Sym) (fn : Fn) (st : List Sym) :
    Go.M (List Sym × Option String) :=
  match lookupDir fs root with
  | none =>   -- the initial Lstat fails: the callback gets the error
    match fn dir ⟨.lit "", false, false⟩ (some "lstat") st with
    | .error e => .error e
    | .ok (st', .err e) => .ok (st', some e)
    | .ok (st', _) => .ok (st', none)
  | some cs =>
    match walkRoot fn nm root cs st with
    | .error e => .ok (st, some e)
    | .ok st' => .ok (st', none)

def symWalkDir (rq : Request) (fs : List Tree) (dir : Sym) (fn : Fn) (st : List Sym) :
    Go.M (List Sym × Option String) :=
  match dir with
  | .lit s => walkAt fs dir (absPath rq.cwd s) .firstP fn st
  | .absP p => walkAt fs dir p .absP fn st
  | _ => .error "WalkDir: not a directory name"

/-- the model's definitions as the environment of the translated code -/
def symEnv (pkgOf : Path → String) (linesOf : Path → List String) (fs : List Tree) (rq : Request) : Env Sym where
  lit := .lit
  cat := .cat
  eq := symEq rq
  stringsCut := fun s sep =>
    match s, sep with
    | .lit a, .lit "=" => (.lit (cut a).1, .lit ((cut a).2.getD ""), (cut a).2.isSome)
    | _, _ => (s, .lit "", false)
  stringsContains := fun s sub =>
    match s, sub with
    | .lit a, .lit b => decide (b.toList <:+: a.toList)
    | _, _ => false
  filepathAbs := fun s =>
    match s with
    | .lit a => pure (.absP (absPath rq.cwd a))
    | .absP p => pure (.absP p)
    | _ => throw "Abs: not a path"
  filepathRel := fun b p =>
    match b, p with
    | .absP b, .absP p => pure (.relP (p.drop b.length))
    | _, _ => throw "Rel: not absolute paths"
  filepathDir := fun s =>
    match s with
    | .absP p => .absP p.dropLast
    | .relP p => .relP p.dropLast
    | s => s
  filepathJoin := fun xs =>
    match xs with
    | [.lit pre, .relP d] => .lit (joinPkg (pre.splitOn "/") d)
    | _ => .lit ""
  filepathExt := fun s =>
    match s with
    | .lit n => .lit (ext n)
    | s => .lit ""
  packageNameFromPath := fun s =>
    match s with
    | .absP d => pure (.lit (pkgOf d))
    | _ => throw "PackageNameFromPath: not an absolute directory"
  scanLines := fun s =>
    match s with
    | .absP p => pure ((linesOf p).map .lit)
    | _ => throw "Open: not an absolute path"
  walkDir := symWalkDir rq fs

/-! ## 4. the walk under the callback = the model's `walk` -/

theorem symEq_proto (rq : Request) (n : String) :
    symEq rq (.lit (ext n)) (.lit ".proto") = isProtoName n := rfl

section walk
variable (E : Env Sym) (g : Generate Sym) (c : WalkCtx) (nm : Path → Sym)
  (hin : ∀ p, (E.eq (nm p) (E.lit ".") || E.eq (nm p) g.InputDir) = c.isInput p)
  (hext : ∀ n, E.eq (E.filepathExt (.lit n)) (E.lit ".proto") = isProtoName n)
include hin hext

mutual
theorem walkT_eq (pre : Path) (t : Tree) (st : List Sym) :
    walkT (findProtos_fn E g c.recurse) nm pre t st
      = .ok (st ++ (walk c pre t).map (fun f => nm f.path), false) := by
  match t with
  | .file n reg gp =>
    simp only [walkT, go_walkFn_eq, hin, hext, walk, cbModel]
    cases h1 : c.isInput (pre ++ [n]) <;> cases reg <;> cases h2 : isProtoName n <;>
      simp [pure, Except.pure, Verdict.apply]
  | .dir n cs =>
    have ih := walkListT_eq (pre ++ [n]) cs
    simp only [walkT, go_walkFn_eq, hin, hext, walk, cbModel]
    cases h1 : c.isInput (pre ++ [n]) <;> cases h2 : c.recurse <;> simp only [h2] at ih <;>
      simp [pure, Except.pure, Verdict.apply, ih, h2]
theorem walkListT_eq (pre : Path) (ts : List Tree) (st : List Sym) :
    walkListT (findProtos_fn E g c.recurse) nm pre ts st
      = .ok (st ++ (walkList c pre ts).map (fun f => nm f.path)) := by
  match ts with
  | [] => simp [walkListT, walkList]
  | t :: ts =>
    simp only [walkListT, walkT_eq pre t st, walkListT_eq pre ts, walkList]
    simp
end

theorem walkRoot_eq (root : Path) (cs : List Tree) :
    walkRoot (findProtos_fn E g c.recurse) nm root cs []
      = .ok ((Gogenproto.findProtos c root cs).map (fun f => nm f.path)) := by
  have ih := walkListT_eq E g c nm hin hext root cs
  simp only [walkRoot, go_walkFn_eq, hin, cbModel, Gogenproto.findProtos]
  cases h1 : c.isInput root <;> cases h2 : c.recurse <;> simp only [h2] at ih <;>
    simp [pure, Except.pure, Verdict.apply, ih, h2]
end walk

/-! ## 5. `findProtos` and `Run` under the model's environment -/

/-- the options as the translated code gets them (`pp` = `-protoc-path`) -/
def gen (rq : Request) (pp : String) : Generate Sym :=
  ⟨.lit rq.inputDir, .lit pp, rq.recurse, rq.vt, rq.grpc, rq.includes.map .lit⟩

section run
variable (pkgOf : Path → String) (linesOf : Path → List String) (fs : List Tree) (rq : Request) (pp : String)

theorem hin_first (p : Path) :
    ((symEnv pkgOf linesOf fs rq).eq (.firstP p) ((symEnv pkgOf linesOf fs rq).lit ".") ||
      (symEnv pkgOf linesOf fs rq).eq (.firstP p) (gen rq pp).InputDir) = (firstCtx rq.config).isInput p := by
  simp [symEnv, symEq, gen, firstCtx]

theorem hin_incl (p : Path) :
    ((symEnv pkgOf linesOf fs rq).eq (.absP p) ((symEnv pkgOf linesOf fs rq).lit ".") ||
      (symEnv pkgOf linesOf fs rq).eq (.absP p) (gen rq pp).InputDir) = (inclCtx rq.config).isInput p := by
  simp only [symEnv, symEq, gen, inclCtx]
  cases ("." == rq.inputDir) <;> simp

theorem hext_sym (n : String) :
    (symEnv pkgOf linesOf fs rq).eq ((symEnv pkgOf linesOf fs rq).filepathExt (.lit n))
      ((symEnv pkgOf linesOf fs rq).lit ".proto") = isProtoName n := rfl

theorem symEnv_walkDir : (symEnv pkgOf linesOf fs rq).walkDir = symWalkDir rq fs := rfl

/-- the walk of `g.InputDir` -/
theorem go_findProtos_first {cs : List Tree} (hcs : lookupDir fs rq.config.input = some cs) :
    findProtos (symEnv pkgOf linesOf fs rq) (gen rq pp) (.lit rq.inputDir) rq.recurse =
      pure ((Gogenproto.findProtos (firstCtx rq.config) rq.config.input cs).map (fun f => Sym.firstP f.path)) := by
  have hcs' : lookupDir fs (absPath rq.cwd rq.inputDir) = some cs := hcs
  have := walkRoot_eq (symEnv pkgOf linesOf fs rq) (gen rq pp) (firstCtx rq.config) .firstP
    (hin_first pkgOf linesOf fs rq pp) (hext_sym pkgOf linesOf fs rq) rq.config.input cs
  have hr : (firstCtx rq.config).recurse = rq.recurse := rfl
  rw [hr] at this
  have hi : rq.config.input = absPath rq.cwd rq.inputDir := rfl
  rw [hi] at this
  unfold Generated.GoGogenproto.findProtos
  simp only [symEnv_walkDir, symWalkDir, walkAt, hcs', this, bind, Except.bind, pure, Except.pure]
  rfl

/-- the walk of an include directory -/
theorem go_findProtos_incl (p : Path) {cs : List Tree} (hcs : lookupDir fs p = some cs) :
    findProtos (symEnv pkgOf linesOf fs rq) (gen rq pp) (.absP p) true =
      pure ((Gogenproto.findProtos (inclCtx rq.config) p cs).map (fun f => Sym.absP f.path)) := by
  have := walkRoot_eq (symEnv pkgOf linesOf fs rq) (gen rq pp) (inclCtx rq.config) .absP
    (hin_incl pkgOf linesOf fs rq pp) (hext_sym pkgOf linesOf fs rq) p cs
  have hr : (inclCtx rq.config).recurse = true := rfl
  rw [hr] at this
  unfold Generated.GoGogenproto.findProtos
  simp only [symEnv_walkDir, symWalkDir, walkAt, hcs, this, bind, Except.bind, pure, Except.pure]


/-- does a file with these lines declare `option go_package =` (what `strings.Contains` finds) -/
def hasOpt (ls : List String) : Bool :=
  ls.any (fun l => decide ("option go_package =".toList <:+: l.toList))

/-- the argument as the string protoc gets -/
def argSym : Arg → Sym
  | .out .go => .lit "--go_out=."
  | .out .vt => .lit "--go-vtproto_out=."
  | .out .grpc => .lit "--go-grpc_out=."
  | .optPaths .go => .lit "--go_opt=paths=source_relative"
  | .optPaths .vt => .lit "--go-vtproto_opt=paths=source_relative,features=marshal+unmarshal+size+equal+clone+pool"
  | .optPaths .grpc => .lit "--go-grpc_opt=paths=source_relative"
  | .fatalWarnings => .lit "--fatal_warnings"
  | .incl p => .cat (.lit "-I=") (.absP p)
  | .mapping .go rel pkg => .cat (.lit "--go_opt=M") (.cat (.cat (.relP rel) (.lit "=")) (.lit pkg))
  | .mapping .vt rel pkg => .cat (.lit "--go-vtproto_opt=M") (.cat (.cat (.relP rel) (.lit "=")) (.lit pkg))
  | .mapping .grpc rel pkg => .cat (.lit "--go-grpc_opt=M") (.cat (.cat (.relP rel) (.lit "=")) (.lit pkg))
  | .file p => .firstP p

theorem forIn_yield_mem {α β : Type} (body : α → β → Go.M (ForInStep β)) (f : β → α → β)
    (items : List α) (h : ∀ a ∈ items, ∀ b, body a b = pure (.yield (f b a))) (b : β) :
    forIn items b body = pure (items.foldl f b) := by
  induction items generalizing b with
  | nil => rfl
  | cons a as ih =>
    simp only [List.forIn_cons, h a (by simp) b, pure_bind, List.foldl_cons]
    exact ih (fun a' ha' => h a' (by simp [ha'])) _

/-- one round of the include loop, on the raw include string -/
def outerF (args : List Sym) (s : String) : List Sym :=
  match resolveRoot fs rq.cwd s with
  | some r => args ++ (rootArgs pkgOf rq.config r).map argSym
  | none => args

/-- one round of the mapping loop -/
def innerF (r : Root) (args : List Sym) (f : Found) : List Sym :=
  args ++ ((if f.goPkg then [] else
    mappingArgs rq.config (f.path.drop r.abs.length) (pkgFor pkgOf r f)) : List Arg).map argSym

theorem foldl_innerF (r : Root) (fs' : List Found) (args : List Sym) :
    fs'.foldl (innerF pkgOf rq r) args = args ++ (fs'.flatMap (fun f => if f.goPkg then [] else
      mappingArgs rq.config (f.path.drop r.abs.length) (pkgFor pkgOf r f))).map argSym := by
  induction fs' generalizing args with
  | nil => simp
  | cons f fs' ih => simp [List.foldl_cons, ih, innerF, List.flatMap_cons]

theorem foldl_outerF (strs : List String) : ∀ (roots : List Root) (args : List Sym),
    strs.mapM (resolveRoot fs rq.cwd) = some roots →
    strs.foldl (outerF pkgOf fs rq) args = args ++ (roots.flatMap (rootArgs pkgOf rq.config)).map argSym := by
  induction strs with
  | nil => intro roots args h; simp at h; subst h; simp
  | cons s strs ih =>
    intro roots args h
    rw [List.mapM_cons] at h
    cases hr : resolveRoot fs rq.cwd s with
    | none => simp [hr] at h
    | some r =>
      cases hrs : strs.mapM (resolveRoot fs rq.cwd) with
      | none => simp [hr, hrs] at h
      | some rs =>
        simp [hr, hrs] at h
        subst h
        simp [List.foldl_cons, outerF, hr, ih rs _ hrs, List.flatMap_cons]

theorem mapM_some_mem {α β : Type} (f : α → Option β) : ∀ (l : List α) (ys : List β),
    l.mapM f = some ys → ∀ a ∈ l, ∃ y ∈ ys, f a = some y := by
  intro l
  induction l with
  | nil => intro ys _ a ha; simp at ha
  | cons x xs ih =>
    intro ys h a ha
    rw [List.mapM_cons] at h
    cases hx : f x with
    | none => simp [hx] at h
    | some y =>
      cases hxs : xs.mapM f with
      | none => simp [hx, hxs] at h
      | some ys' =>
        simp [hx, hxs] at h
        subst h
        rcases List.mem_cons.1 ha with rfl | ha'
        · exact ⟨y, by simp, hx⟩
        · obtain ⟨y', hy', hf⟩ := ih ys' hxs a ha'
          exact ⟨y', by simp [hy'], hf⟩

/-! the environment on the shapes the code produces -/
local notation "E" => symEnv pkgOf linesOf fs rq
theorem env_cut (a : String) : (E).stringsCut (.lit a) ((E).lit "=") =
    (.lit (cut a).1, .lit ((cut a).2.getD ""), (cut a).2.isSome) := rfl
theorem env_abs (a : String) : (E).filepathAbs (.lit a) = pure (.absP (absPath rq.cwd a)) := rfl
theorem env_rel (b p : Path) : (E).filepathRel (.absP b) (.absP p) = pure (.relP (p.drop b.length)) := rfl
theorem env_dirRel (p : Path) : (E).filepathDir (.relP p) = .relP p.dropLast := rfl
theorem env_dirAbs (p : Path) : (E).filepathDir (.absP p) = .absP p.dropLast := rfl
theorem env_join (pre : String) (d : Path) :
    (E).filepathJoin [.lit pre, .relP d] = .lit (joinPkg (pre.splitOn "/") d) := rfl
theorem env_pkg (d : Path) : (E).packageNameFromPath (.absP d) = pure (.lit (pkgOf d)) := rfl
theorem env_lit (s : String) : (E).lit s = .lit s := rfl
theorem env_cat (a b : Sym) : (E).cat a b = .cat a b := rfl
theorem env_eqLit (a b : String) : (E).eq (.lit a) (.lit b) = (a == b) := rfl

/-- the scan on a file of the model's tree -/
theorem go_hasGoPackage_sym (p : Path) :
    protoFileHasGoPackage (E) (.absP p) = pure (hasOpt (linesOf p)) := by
  rw [go_hasGoPackage_eq]
  show (pure (List.any (List.map Sym.lit (linesOf p)) _) : Go.M Bool) = _
  simp only [List.any_map, hasOpt]
  rfl

theorem go_run_args_eq {cs : List Tree} {roots : List Root}
    (hcs : lookupDir fs rq.config.input = some cs)
    (hroots : (rq.inputDir :: rq.includes).mapM (resolveRoot fs rq.cwd) = some roots)
    (hlines : ∀ r ∈ roots, ∀ f ∈ Gogenproto.findProtos (inclCtx rq.config) r.abs r.children,
      f.goPkg = hasOpt (linesOf f.path)) :
    Generated.GoGogenproto.run (E) (gen rq pp) =
      pure (.lit (if pp == "" then "protoc" else pp), (runRaw pkgOf rq.config cs roots).map argSym) := by
  unfold Generated.GoGogenproto.run
  have h1 : (gen rq pp).InputDir = .lit rq.inputDir := rfl
  have h2 : (gen rq pp).Recurse = rq.recurse := rfl
  have h3 : (gen rq pp).VTProto = rq.vt := rfl
  have h4 : (gen rq pp).GRPC = rq.grpc := rfl
  have h5 : (gen rq pp).Include = rq.includes.map .lit := rfl
  have h6 : (gen rq pp).ProtocPath = .lit pp := rfl
  have h7 : ([Sym.lit rq.inputDir] ++ rq.includes.map Sym.lit) = (rq.inputDir :: rq.includes).map Sym.lit := rfl
  have hv' : rq.config.vt = rq.vt := rfl
  have hg' : rq.config.grpc = rq.grpc := rfl
  rw [h1, h2, go_findProtos_first pkgOf linesOf fs rq pp hcs]
  simp only [h3, h4, h5, h6, h7]
  cases hvt : rq.vt <;> cases hgr : rq.grpc <;>
    simp only [pure_bind, Bool.false_eq_true, if_false, if_true, List.forIn_map] <;>
  · rw [forIn_yield_mem _ (outerF pkgOf fs rq) _ (by
      intro a ha b
      obtain ⟨r, hr, hres⟩ := mapM_some_mem _ _ _ hroots a ha
      have hres' := hres
      simp only [resolveRoot] at hres'
      cases hl : lookupDir fs (absPath rq.cwd (cut a).1) with
      | none => simp [hl] at hres'
      | some cs' =>
        simp only [hl, Option.map_some, Option.some.injEq] at hres'
        have hcsr : lookupDir fs r.abs = some r.children := by rw [← hres']; exact hl
        have habs : absPath rq.cwd (cut a).1 = r.abs := by rw [← hres']
        simp only [env_cut, env_abs, pure_bind, habs, go_findProtos_incl pkgOf linesOf fs rq pp r.abs hcsr,
          List.forIn_map]
        rw [forIn_yield_mem _ (innerF pkgOf rq r) _ (by
          intro f hf b'
          have hgp := hlines r hr f hf
          simp only [go_hasGoPackage_sym, pure_bind, ← hgp]
          cases hfg : f.goPkg with
          | true => simp [innerF, hfg]
          | false =>
            have hpre : r.pkgPrefix = (cut a).2.map (·.splitOn "/") := by rw [← hres']
            rcases Option.eq_none_or_eq_some (cut a).2 with hc | ⟨pre, hc⟩
            ·
              simp [innerF, hfg, env_rel, env_dirAbs, env_pkg, env_lit, env_cat, mappingArgs, hv', hg', hvt, hgr,
                argSym, pkgFor, hpre, hc]
            ·
              simp [innerF, hfg, env_rel, env_dirRel, env_join, env_lit, env_cat, mappingArgs, hv', hg', hvt, hgr,
                argSym, pkgFor, hpre, hc])]
        simp [outerF, hres, rootArgs, foldl_innerF, argSym, env_lit, env_cat, List.flatMap_cons])]
    simp only [pure_bind, foldl_outerF pkgOf fs rq _ roots _ hroots, env_eqLit, env_lit]
    by_cases hpp : (pp == "") = true <;>
      simp [hpp, runRaw, fixedArgs, hv', hg', hvt, hgr, argSym, pure, Except.pure]


/-! ## 6. the property, for the translated code -/

/-- reading an argument back from the string (left inverse of `argSym`) -/
def symArg : Sym → Option Arg
  | .lit s =>
    if s = "--go_out=." then some (.out .go)
    else if s = "--go-vtproto_out=." then some (.out .vt)
    else if s = "--go-grpc_out=." then some (.out .grpc)
    else if s = "--go_opt=paths=source_relative" then some (.optPaths .go)
    else if s = "--go-vtproto_opt=paths=source_relative,features=marshal+unmarshal+size+equal+clone+pool" then some (.optPaths .vt)
    else if s = "--go-grpc_opt=paths=source_relative" then some (.optPaths .grpc)
    else if s = "--fatal_warnings" then some .fatalWarnings
    else none
  | .cat (.lit f) (.absP p) => if f = "-I=" then some (.incl p) else none
  | .cat (.lit f) (.cat (.cat (.relP rel) (.lit e)) (.lit pkg)) =>
    if e = "=" then
      if f = "--go_opt=M" then some (.mapping .go rel pkg)
      else if f = "--go-vtproto_opt=M" then some (.mapping .vt rel pkg)
      else if f = "--go-grpc_opt=M" then some (.mapping .grpc rel pkg)
      else none
    else none
  | .firstP p => some (.file p)
  | _ => none

omit pkgOf linesOf fs rq pp in
theorem symArg_argSym (a : Arg) : symArg (argSym a) = some a := by
  cases a with
  | out p => cases p <;> simp [argSym, symArg]
  | optPaths p => cases p <;> simp [argSym, symArg]
  | fatalWarnings => simp [argSym, symArg]
  | incl p => simp [argSym, symArg]
  | mapping pl rel pkg => cases pl <;> simp [argSym, symArg]
  | file p => simp [argSym, symArg]

omit pkgOf linesOf fs rq pp in
theorem argSym_injective {a b : Arg} (h : argSym a = argSym b) : a = b := by
  have := congrArg symArg h
  simpa [symArg_argSym] using this

omit pkgOf linesOf fs rq pp in
theorem mem_map_argSym (a : Arg) (l : List Arg) : argSym a ∈ l.map argSym ↔ a ∈ l := by
  constructor
  · intro h
    obtain ⟨b, hb, hab⟩ := List.mem_map.1 h
    rw [← argSym_injective hab]; exact hb
  · exact fun h => List.mem_map.2 ⟨a, h, rfl⟩

omit pkgOf linesOf fs rq pp in
theorem count_map_argSym (a : Arg) (l : List Arg) : (l.map argSym).count (argSym a) = l.count a := by
  induction l with
  | nil => rfl
  | cons b l ih =>
    simp only [List.map_cons, List.count_cons, ih]
    by_cases h : b = a
    · simp [h]
    · have : argSym b ≠ argSym a := fun e => h (argSym_injective e)
      simp [h, this]

omit pkgOf linesOf fs rq pp in
/-- the symbolic argument concretises to the model's rendering (the strings protoc gets; a file operand
as the model shows it) -/
theorem conc_argSym (a : Arg) : (argSym a).conc = a.render := by
  cases a with
  | out p => cases p <;> rfl
  | optPaths p => cases p <;> rfl
  | fatalWarnings => rfl
  | incl p => rfl
  | file p => rfl
  | mapping pl rel pkg =>
    cases pl <;> simp only [argSym, Sym.conc, Arg.render, Plugin.flag, String.append_assoc] <;> rfl

/-- what the restated theorems assume of the INPUT: the input directory and every include directory
exist, the input directory's spelling has no `=`, and a file's `goPkg` bit says what its lines say -/
structure Inputs (cs : List Tree) (incs : List Root) : Prop where
  noEq : '=' ∉ rq.inputDir.toList
  input : lookupDir fs rq.config.input = some cs
  includes : rq.includes.mapM (resolveRoot fs rq.cwd) = some incs
  bits : ∀ r ∈ (⟨rq.config.input, none, cs⟩ : Root) :: incs,
    ∀ f ∈ Gogenproto.findProtos (inclCtx rq.config) r.abs r.children, f.goPkg = hasOpt (linesOf f.path)

/-- the translated `Run` hands protoc exactly the model's `run` -/
theorem go_run_eq_run {cs : List Tree} {incs : List Root} (hI : Inputs linesOf fs rq cs incs) :
    Generated.GoGogenproto.run (E) (gen rq pp) =
      pure (.lit (if pp == "" then "protoc" else pp), (Gogenproto.run pkgOf rq.config cs incs).map argSym) := by
  have hroot : resolveRoot fs rq.cwd rq.inputDir = some ⟨rq.config.input, none, cs⟩ := by
    have : absPath rq.cwd rq.inputDir = rq.config.input := rfl
    simp [resolveRoot, cut_noEq _ hI.noEq, this, hI.input]
  have hroots : (rq.inputDir :: rq.includes).mapM (resolveRoot fs rq.cwd)
      = some ((⟨rq.config.input, none, cs⟩ : Root) :: incs) := by
    simp [List.mapM_cons, hroot, hI.includes]
  exact go_run_args_eq pkgOf linesOf fs rq pp hI.input hroots hI.bits

section restated
variable {cs : List Tree} {incs : List Root} (hI : Inputs linesOf fs rq cs incs)
  {path : Sym} {args : List Sym}
  (hrun : Generated.GoGogenproto.run (symEnv pkgOf linesOf fs rq) (gen rq pp) = pure (path, args))
include hI hrun

theorem args_eq : args = (Gogenproto.run pkgOf rq.config cs incs).map argSym := by
  rw [go_run_eq_run pkgOf linesOf fs rq pp hI] at hrun
  injection hrun with h
  exact (congrArg Prod.snd h).symm

/-- `protos_exactly_once` for the translated code -/
theorem go_protos_exactly_once (hwf : WFL cs) (p : Path) :
    (InScope rq.config.recurse rq.config.input cs p → args.count (argSym (.file p)) = 1) ∧
    (¬ InScope rq.config.recurse rq.config.input cs p → args.count (argSym (.file p)) = 0) := by
  rw [args_eq pkgOf linesOf fs rq pp hI hrun, count_map_argSym]
  exact protos_exactly_once pkgOf rq.config cs incs hwf p

/-- `includes_present` for the translated code -/
theorem go_includes_present :
    args.filterMap (fun s => (symArg s).bind Arg.inclOf) = rq.config.input :: incs.map (·.abs) := by
  rw [args_eq pkgOf linesOf fs rq pp hI hrun, List.filterMap_map]
  have : ((fun s => (symArg s).bind Arg.inclOf) ∘ argSym) = Arg.inclOf := by
    funext a; simp [symArg_argSym]
  rw [this]
  exact includes_present pkgOf rq.config cs incs

/-- `mapping_iff_no_go_package` for the translated code -/
theorem go_mapping_iff_no_go_package (hok : ∀ r ∈ incs, RootOK rq.config r) (pl : Plugin) (rel : Path)
    (pkg : String) :
    argSym (.mapping pl rel pkg) ∈ args ↔
      rq.config.requested pl = true ∧ ∃ r ∈ (⟨rq.config.input, none, cs⟩ : Root) :: incs, ∃ dirs n,
        HasFile r.children dirs n true false ∧ EndsWithProto n ∧ rel = dirs ++ [n] ∧
          pkg = specPkg pkgOf r dirs := by
  rw [args_eq pkgOf linesOf fs rq pp hI hrun, mem_map_argSym]
  exact mapping_iff_no_go_package pkgOf rq.config cs incs hok pl rel pkg

/-- `plugins_iff_flags` for the translated code -/
theorem go_plugins_iff_flags (pl : Plugin) :
    (argSym (.out pl) ∈ args ↔ rq.config.requested pl = true) ∧
    (argSym (.optPaths pl) ∈ args ↔ rq.config.requested pl = true) := by
  rw [args_eq pkgOf linesOf fs rq pp hI hrun, mem_map_argSym, mem_map_argSym]
  exact plugins_iff_flags pkgOf rq.config cs incs pl

/-- the protoc that is started: `-protoc-path` when given, `protoc` otherwise -/
theorem go_protoc_path : path = .lit (if pp == "" then "protoc" else pp) := by
  rw [go_run_eq_run pkgOf linesOf fs rq pp hI] at hrun
  injection hrun with h
  exact (congrArg Prod.fst h).symm
end restated

end run

end C20Tie

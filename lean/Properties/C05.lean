import Model.Genum
import Lemmas.Genum
import Lemmas.GenumTraits
import Properties.C04
/-!
# C05 — genum: JSON/text/YAML codecs round-trip values and reject all else

About `genFull` (generator + template + compile check, `Model/Genum.lean` part 2) and the decoder
models `unmarshalJSON` / `unmarshalText` / `unmarshalYAML` of the CURRENT tree (`Quirks` all off).
-/
namespace Genum.C05
open Genum

variable {f : FileDef} {t : TypeDecl} {k : IntKind}

/-- what `genFull` returns: the C04 output of the type with the `Parse` switch extended by the
parsable trait constants, and no duplicate `case` constant anywhere -/
theorem genFull_shape (o : Options) (g : GenFull) (h : genFull o f t = .ok g) :
    ∃ cases, g.base = { genType o f t.name with cases := cases } ∧ hasDupCase g = false := by
  unfold genFull genFullQ at h
  simp only [bind, Except.bind] at h
  split at h
  · cases h
  · split at h
    · cases h
    · rename_i ts _ cases _
      split at h
      · cases h
      · rename_i hd
        injection h with h
        subst h
        exact ⟨cases, rfl, by simpa using hd⟩

/-- all three encoders emit `String()` … -/
theorem marshal_eq_string (g : GenFull) (e : Int) : g.marshal e = g.base.string e := rfl

/-- … which is the primary name of every defined value, under every option combination. -/
theorem marshal_is_primary_name (o : Options) (g : GenFull) (h : genFull o f t = .ok g)
    (ha : Accepted f t.name k) (e : Int) (hd : Defined f t.name e) :
    IsPrimary f t.name e (g.marshal e) := by
  obtain ⟨cases, hb, _⟩ := genFull_shape o g h
  have := C04.string_primary o ha e hd
  unfold GenFull.marshal GenOut.string
  rw [hb]
  exact this

/-! ## the generated switch decides everything -/

/-- in a switch without duplicate constants, an input equal to a constant of a case selects
exactly that case -/
theorem parse_of_case (g : GenOut) (hn : (g.cases.flatMap (·.consts)).Nodup)
    (c : ParseCase) (hc : c ∈ g.cases) (d : Dyn) (hd : d ∈ c.consts) :
    g.parse d = some c.target.val := by
  unfold GenOut.parse
  have : g.cases.find? (fun c => c.consts.contains d) = some c := by
    generalize g.cases = l at *
    induction l with
    | nil => cases hc
    | cons x xs ih =>
      rw [List.flatMap_cons, List.nodup_append] at hn
      rw [List.find?_cons]
      rcases List.mem_cons.mp hc with rfl | hc'
      · have : c.consts.contains d = true := by simpa using hd
        rw [this]
      · have hx : x.consts.contains d = false := by
          rw [Bool.eq_false_iff]
          intro hcon
          have h1 : d ∈ x.consts := by simpa using hcon
          have h2 : d ∈ xs.flatMap (·.consts) := List.mem_flatMap.mpr ⟨c, hc', hd⟩
          exact hn.2.2 d h1 d h2 rfl
        rw [hx]
        exact ih hn.2.1 hc'
  rw [this]

/-- round trip, reduced to the switch: if `Parse<T>` of the emitted name returns the value, every
decoder returns it for every encoding. -/
theorem roundtrip_of_parse (g : GenFull) (e : Int)
    (h : g.base.parse (Dyn.ofString (g.marshal e)) = some e) :
    g.unmarshalJSON {} (.str (g.marshal e)) = some e ∧
    g.unmarshalText (g.marshal e) = some e ∧
    g.unmarshalYAML {} (g.marshal e) = some e := by
  have hs : stringTry g (g.marshal e) = some e := by unfold stringTry; rw [h]
  refine ⟨hs, hs, ?_⟩
  unfold GenFull.unmarshalYAML; rw [hs]

/-- no duplicate constant among the cases of an accepted generation -/
theorem cases_nodup {o : Options} {g : GenFull} (h : genFull o f t = .ok g) :
    (g.base.cases.flatMap (·.consts)).Nodup := by
  obtain ⟨_, _, _, hdup⟩ := genFull_ok h
  unfold hasDupCase at hdup
  simp only [Bool.or_eq_false_iff] at hdup
  simpa using hdup.1.1

/-- `Parse<T>` of the emitted name returns the value — also when the switch holds parsable trait
constants (no case constant occurs twice, so no trait constant can shadow a name). -/
theorem parse_marshal (o : Options) (g : GenFull) (h : genFull o f t = .ok g)
    (ha : Accepted f t.name k) (e : Int) (hd : Defined f t.name e) :
    g.base.parse (Dyn.ofString (g.marshal e)) = some e := by
  have hn := cases_nodup h
  obtain ⟨ts, _, hg, _⟩ := genFull_ok h
  obtain ⟨c, hc, ht, hv, hname, _⟩ := C04.string_primary o ha e hd
  have hm : g.marshal e = c.name := by
    rw [hname]; subst hg; rfl
  have hcase : caseOf ts (sortedValues f t.name).head? (Value.ofConst c) ∈ g.base.cases := by
    subst hg
    exact List.mem_map.mpr ⟨_, mem_sortedValues.mpr ⟨c, hc, ht, rfl⟩, rfl⟩
  have := parse_of_case g.base hn _ hcase (Dyn.ofString c.name) (by simp [caseOf, Value.ofConst])
  rw [hm, this]
  simp [caseOf, Value.ofConst, hv]

/-- `roundtrip_json`, `roundtrip_text`, `roundtrip_yaml`: for every definition `genFull` accepts
(any traits, any parsable subset, duplicates, every option combination) and every defined value,
decoding its encoding yields the value again, in all three codecs. -/
theorem roundtrip (o : Options) (g : GenFull) (h : genFull o f t = .ok g)
    (ha : Accepted f t.name k) (e : Int) (hd : Defined f t.name e) :
    g.unmarshalJSON {} (.str (g.marshal e)) = some e ∧
    g.unmarshalText (g.marshal e) = some e ∧
    g.unmarshalYAML {} (g.marshal e) = some e :=
  roundtrip_of_parse g e (parse_marshal o g h ha e hd)

theorem roundtrip_json (o : Options) (g : GenFull) (h : genFull o f t = .ok g)
    (ha : Accepted f t.name k) (e : Int) (hd : Defined f t.name e) :
    g.unmarshalJSON {} (.str (g.marshal e)) = some e := (roundtrip o g h ha e hd).1

theorem roundtrip_text (o : Options) (g : GenFull) (h : genFull o f t = .ok g)
    (ha : Accepted f t.name k) (e : Int) (hd : Defined f t.name e) :
    g.unmarshalText (g.marshal e) = some e := (roundtrip o g h ha e hd).2.1

theorem roundtrip_yaml (o : Options) (g : GenFull) (h : genFull o f t = .ok g)
    (ha : Accepted f t.name k) (e : Int) (hd : Defined f t.name e) :
    g.unmarshalYAML {} (g.marshal e) = some e := (roundtrip o g h ha e hd).2.2

/-! ## rejection -/

/-- JSON: a scalar document is rejected unless its own content — the string, resp. the integer,
read at some type — is a constant of the `Parse` switch (a name, a name up to case under
`-caseInsensitive`, or a parsable trait constant). Nothing else is ever mapped to a value. -/
theorem reject_json (g : GenFull) (doc : JDoc)
    (h : ∀ ty, match doc with
      | .str s => g.base.parse ⟨ty, .str s⟩ = none
      | .num i => g.base.parse ⟨ty, .int i⟩ = none
      | .other => True) :
    g.unmarshalJSON {} doc = none := by
  cases doc with
  | str s => exact stringTry_none g s h
  | num i =>
    have hu := numericTry_none g .json false i h
    have hs := numericTry_none g .json true i h
    simp [GenFull.unmarshalJSON, hu, hs]
  | other => rfl

/-- text: same for the raw text -/
theorem reject_text (g : GenFull) (text : String) (h : ∀ ty, g.base.parse ⟨ty, .str text⟩ = none) :
    g.unmarshalText text = none := stringTry_none g text h

/-- YAML: a scalar is rejected unless its text is a switch constant as a string, or its text is a
decimal numeral whose value is a switch constant (this is the clause the pinned `err != nil`
guards falsify, see `yaml_legacy_accepts_garbage`). -/
theorem reject_yaml (g : GenFull) (text : String)
    (h1 : ∀ ty, g.base.parse ⟨ty, .str text⟩ = none)
    (h2 : ∀ x, parseUintLit text = some x ∨ parseIntLit text = some x → ∀ ty, g.base.parse ⟨ty, .int x⟩ = none) :
    g.unmarshalYAML {} text = none := by
  unfold GenFull.unmarshalYAML
  rw [stringTry_none g text h1]
  simp only []
  have hU : ∀ x, parseUintLit text = some x → numericTry {} g .yaml false x = none :=
    fun x hp => numericTry_none g .yaml false x (h2 x (Or.inl hp))
  have hS : ∀ x, parseIntLit text = some x → numericTry {} g .yaml true x = none :=
    fun x hp => numericTry_none g .yaml true x (h2 x (Or.inr hp))
  cases hp1 : parseUintLit text with
  | none =>
    cases hp2 : parseIntLit text with
    | none => simp
    | some y => simp [hS y hp2]
  | some x =>
    cases hp2 : parseIntLit text with
    | none => simp [hU x hp1]
    | some y => simp [hU x hp1, hS y hp2]

/-! ## rejection, sharpened: what a block does not range over cannot decode

A trait whose type brings its own unmarshaler for a codec is NOT in that codec's integer block
(`GetParsableUnderlyingInt64For<C>` excludes it), so its numerals are not decoded there; a trait
whose type brings none is in the integer block and NOT in the native one. -/

/-- JSON: a number is rejected by the string / integer branches unless it is a constant of a
parsable trait whose type has NO `UnmarshalJSON` of its own. In particular the numeral of a
constant of a trait type that decodes itself from JSON (an enum generated with `-json`) is
rejected there. -/
theorem reject_json_num_own (g : GenFull) (i : Int)
    (h : ∀ td ∈ g.traits, td.parsable = true → td.fam.implements .json = false →
      g.base.parse ⟨td.ty, .int i⟩ = none) :
    g.unmarshalJSON {} (.num i) = none := by
  have hl : ∀ sg, numericTry {} g .json sg i = none := fun sg =>
    numericTry_none_of_list g .json sg i (fun t ht => by
      obtain ⟨h1, h2, _, h4⟩ := mem_numericTraits.mp ht
      exact h t h1 h2 h4)
  simp [GenFull.unmarshalJSON, hl]

/-- YAML: a scalar is rejected by the string / integer branches unless its text is a string
constant of the switch, or a decimal numeral denoting a constant of a parsable trait whose type
has NO `UnmarshalYAML` of its own. -/
theorem reject_yaml_own (g : GenFull) (text : String)
    (h1 : ∀ ty, g.base.parse ⟨ty, .str text⟩ = none)
    (h2 : ∀ x, parseUintLit text = some x ∨ parseIntLit text = some x →
      ∀ td ∈ g.traits, td.parsable = true → td.fam.implements .yaml = false →
        g.base.parse ⟨td.ty, .int x⟩ = none) :
    g.unmarshalYAML {} text = none := by
  unfold GenFull.unmarshalYAML
  rw [stringTry_none g text h1]
  simp only []
  have hl : ∀ sg x, parseUintLit text = some x ∨ parseIntLit text = some x → numericTry {} g .yaml sg x = none :=
    fun sg x hp => numericTry_none_of_list g .yaml sg x (fun t ht => by
      obtain ⟨a, b, _, d⟩ := mem_numericTraits.mp ht
      exact h2 x hp t a b d)
  cases hp1 : parseUintLit text with
  | none =>
    cases hp2 : parseIntLit text with
    | none => simp
    | some y => simp [hl true y (Or.inr hp2)]
  | some x =>
    cases hp2 : parseIntLit text with
    | none => simp [hl false x (Or.inl hp1)]
    | some y => simp [hl false x (Or.inl hp1), hl true y (Or.inr hp2)]

/-! ## the whole decoders: with the native block -/

/-- without a parsable trait whose type brings its own unmarshaler for codec `c` the native block
of that codec does nothing: the theorems above are then about the whole generated decoder -/
theorem nativeTry_none_of_no_self (g : GenFull) (c : Codec) (dec : String → Option Int)
    (h : ∀ td ∈ g.traits, td.parsable = true → td.fam.implements c = false) : g.nativeTry c dec = none := by
  unfold GenFull.nativeTry
  apply firstSome_none
  intro x hx
  obtain ⟨td, htd, rfl⟩ := List.mem_map.mp hx
  have hm := List.mem_filter.mp htd
  have := h td hm.1 (by simpa using hm.2)
  cases hf : td.fam with
  | self inner sg b m =>
    rw [hf] at this
    simp only [Family.implements] at this
    simp [this]
  | ustr => rfl
  | nstr => rfl
  | sint b => rfl
  | uint b => rfl
  | none => rfl

theorem full_eq_of_no_self (g : GenFull) (envJ : String → JDoc → Option Int) (envY envT : String → String → Option Int)
    (hj : ∀ td ∈ g.traits, td.parsable = true → td.fam.implements .json = false)
    (hy : ∀ td ∈ g.traits, td.parsable = true → td.fam.implements .yaml = false)
    (ht : ∀ td ∈ g.traits, td.parsable = true → td.fam.implements .text = false)
    (doc : JDoc) (text : String) :
    g.unmarshalJSONFull {} envJ doc = g.unmarshalJSON {} doc ∧
    g.unmarshalYAMLFull {} envY text = g.unmarshalYAML {} text ∧
    g.unmarshalTextFull envT text = g.unmarshalText text := by
  unfold GenFull.unmarshalJSONFull GenFull.unmarshalYAMLFull GenFull.unmarshalTextFull
  rw [nativeTry_none_of_no_self g _ _ hj, nativeTry_none_of_no_self g _ _ hy, nativeTry_none_of_no_self g _ _ ht]
  refine ⟨?_, ?_, ?_⟩
  · cases g.unmarshalJSON {} doc <;> rfl
  · cases g.unmarshalYAML {} text <;> rfl
  · cases g.unmarshalText text <;> rfl

/-- the text decoder never reaches a native block for a trait type whose `UnmarshalText` has a
pointer receiver (every generated enum; every hand-written unmarshaler that stores its result):
`implementsTextUnmarshaler` asks for the VALUE type's method set -/
theorem text_full_eq_of_ptr (g : GenFull) (envT : String → String → Option Int)
    (h : ∀ td ∈ g.traits, td.parsable = true → ∀ inner sg b m, td.fam = .self inner sg b m → m.text ≠ .val)
    (text : String) : g.unmarshalTextFull envT text = g.unmarshalText text := by
  unfold GenFull.unmarshalTextFull
  rw [nativeTry_none_of_no_self g .text _ (by
    intro td htd hp
    cases hf : td.fam with
    | self inner sg b m =>
      have := h td htd hp inner sg b m hf
      simp only [Family.implements, Methods.implements]
      cases hm : m.text <;> simp_all
    | ustr => rfl
    | nstr => rfl
    | sint b => rfl
    | uint b => rfl
    | none => rfl)]
  cases g.unmarshalText text <;> rfl

/-- round trip through the whole decoders (the native block comes last and is not reached) -/
theorem roundtrip_full (o : Options) (g : GenFull) (h : genFull o f t = .ok g)
    (ha : Accepted f t.name k) (e : Int) (hd : Defined f t.name e)
    (envJ : String → JDoc → Option Int) (envY envT : String → String → Option Int) :
    g.unmarshalJSONFull {} envJ (.str (g.marshal e)) = some e ∧
    g.unmarshalYAMLFull {} envY (g.marshal e) = some e ∧
    g.unmarshalTextFull envT (g.marshal e) = some e := by
  obtain ⟨hj, ht, hy⟩ := roundtrip o g h ha e hd
  unfold GenFull.unmarshalJSONFull GenFull.unmarshalYAMLFull GenFull.unmarshalTextFull
  rw [hj, hy, ht]; exact ⟨rfl, rfl, rfl⟩

/-- the native block of codec `c` rejects unless a trait type's OWN unmarshaler for `c` reads the
document as a value whose typed constant is in the `Parse` switch -/
theorem nativeTry_none (g : GenFull) (c : Codec) (dec : String → Option Int)
    (h : ∀ td ∈ g.traits, td.parsable = true → ∀ inner sg b m v, td.fam = .self inner sg b m →
      m.implements c = true → dec inner = some v → g.base.parse ⟨td.ty, .int v⟩ = none) : g.nativeTry c dec = none := by
  unfold GenFull.nativeTry
  apply firstSome_none
  intro x hx
  obtain ⟨td, htd, rfl⟩ := List.mem_map.mp hx
  have hm := List.mem_filter.mp htd
  cases hf : td.fam with
  | self inner sg b m =>
    simp only []
    cases hi : m.implements c with
    | false => rfl
    | true =>
      simp only [if_true]
      cases hdv : dec inner with
      | none => rfl
      | some v => exact h td hm.1 (by simpa using hm.2) inner sg b m v hf hi hdv
  | ustr => rfl
  | nstr => rfl
  | sint b => rfl
  | uint b => rfl
  | none => rfl

/-- rejection by the whole JSON / YAML decoders: what the branches above reject is rejected unless
a trait type that decodes itself (for THAT codec) reads the document as one of its parsable
constants. In particular a bare numeral is never decoded THROUGH such a trait (an enum reads
names), and a name is never decoded through a trait type without an unmarshaler for the codec. -/
theorem reject_full (g : GenFull) (envJ : String → JDoc → Option Int) (envY : String → String → Option Int)
    (doc : JDoc) (text : String)
    (hj : g.unmarshalJSON {} doc = none) (hy : g.unmarshalYAML {} text = none)
    (hnj : ∀ td ∈ g.traits, td.parsable = true → ∀ inner sg b m v, td.fam = .self inner sg b m →
      m.implements .json = true → envJ inner doc = some v → g.base.parse ⟨td.ty, .int v⟩ = none)
    (hny : ∀ td ∈ g.traits, td.parsable = true → ∀ inner sg b m v, td.fam = .self inner sg b m →
      m.implements .yaml = true → envY inner text = some v → g.base.parse ⟨td.ty, .int v⟩ = none) :
    g.unmarshalJSONFull {} envJ doc = none ∧ g.unmarshalYAMLFull {} envY text = none := by
  unfold GenFull.unmarshalJSONFull GenFull.unmarshalYAMLFull
  rw [hj, hy, nativeTry_none g _ _ hnj, nativeTry_none g _ _ hny]
  exact ⟨rfl, rfl⟩

/-! ## the pinned algorithms -/

/-- values 0,1,2 with an untyped-int trait 0,10,20 declared parsable -/
def witness : FileDef :=
  ⟨[{ name := "E", kind := ⟨64, true⟩, cols := [⟨"Num", "int", .sint 64⟩] }],
   [{ name := "A0", ty := "E", val := 0, deprecated := false, tvals := [.int 0] },
    { name := "A1", ty := "E", val := 1, deprecated := false, tvals := [.int 10] },
    { name := "A2", ty := "E", val := 2, deprecated := false, tvals := [.int 20] }]⟩

def witnessType : TypeDecl := { name := "E", kind := ⟨64, true⟩, cols := [⟨"Num", "int", .sint 64⟩] }

/-- the pinned YAML fallbacks run when `strconv.ParseInt` FAILED: `garbage` decodes to the value
whose trait is 0, and the numeral `10` is rejected. The current decoder rejects `garbage` and
decodes `10` to the owner of trait constant 10. -/
theorem yaml_legacy_accepts_garbage :
    (genFull { parsable := ["Num"] } witness witnessType).toOption.map (fun g =>
      (g.unmarshalYAML { yamlGuardInverted := true } "garbage", g.unmarshalYAML { yamlGuardInverted := true } "10",
       g.unmarshalYAML {} "garbage", g.unmarshalYAML {} "10")) = some (some 0, none, none, some 1) := by decide

/-- a named `int8` trait with constants -3, -4 declared parsable -/
def narrowWitness : FileDef :=
  ⟨[{ name := "E", kind := ⟨64, true⟩, cols := [⟨"Sm", "Small", .sint 8⟩] }],
   [{ name := "A0", ty := "E", val := 0, deprecated := false, tvals := [.int (-3)] },
    { name := "A1", ty := "E", val := 1, deprecated := false, tvals := [.int (-4)] }]⟩

/-- the pinned numeric fallbacks convert without a range check: JSON `253` wraps to `Small(-3)` and
decodes to its owner although 253 is no trait constant; the current decoder rejects it. -/
theorem legacy_narrowing_accepts :
    (genFull { parsable := ["Sm"] } narrowWitness
        { name := "E", kind := ⟨64, true⟩, cols := [⟨"Sm", "Small", .sint 8⟩] }).toOption.map (fun g =>
      (g.unmarshalJSON { noRangeGuard := true } (.num 253), g.unmarshalJSON {} (.num 253), g.unmarshalJSON {} (.num (-3))))
      = some (some 0, none, some 0) := by decide

/-! ## non-vacuity -/

example : (genFull { parsable := ["Num"] } witness witnessType).toOption.map (fun g =>
    (g.marshal 1, g.unmarshalJSON {} (.str "A1"), g.unmarshalJSON {} (.num 20), g.unmarshalJSON {} (.str "nope"), hasDupCase g))
    = some ("A1", some 1, some 2, none, false) := by decide

end Genum.C05

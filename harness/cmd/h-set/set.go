package main

import (
	"fmt"
	"sort"
	"strconv"
	"strings"

	"github.com/drshriveer/gtools/set"
	"verif/harness/internal/hx"
)

type pt struct {
	X int
	S string
}

// setOps runs protocol ops on a real set.Set[T]; elements are indices into a universe.
type setOps interface {
	reset()
	exec(op string, idx []int) string
}

type typedSet[T comparable] struct {
	uni []T
	s   set.Set[T]
}

func (t *typedSet[T]) reset() { t.s = nil }

func (t *typedSet[T]) vals(idx []int) []T {
	r := make([]T, len(idx))
	for i, k := range idx {
		r[i] = t.uni[k]
	}
	return r
}

func (t *typedSet[T]) indexOf(v T) int {
	for i, u := range t.uni {
		if u == v {
			return i
		}
	}
	return -1
}

func (t *typedSet[T]) exec(op string, idx []int) string {
	switch op {
	case "nil":
		t.s = nil
		return "ok"
	case "make":
		t.s = set.Make(t.vals(idx)...)
		return "ok"
	case "add":
		return b2s(t.s.Add(t.vals(idx)...))
	case "addset":
		return b2s(t.s.AddSet(set.Make(t.vals(idx)...)))
	case "remove":
		return b2s(t.s.Remove(t.vals(idx)...))
	case "removeset":
		return b2s(t.s.RemoveSet(set.Make(t.vals(idx)...)))
	case "has":
		return b2s(t.s.Has(t.vals(idx)...))
	case "hasany":
		return b2s(t.s.HasAny(t.vals(idx)...))
	case "slice":
		sl := t.s.Slice()
		if sl == nil {
			return "nil"
		}
		ids := make([]int, len(sl))
		for i, v := range sl {
			ids[i] = t.indexOf(v)
		}
		sort.Ints(ids)
		p := make([]string, len(ids))
		for i, k := range ids {
			p[i] = strconv.Itoa(k)
		}
		return "[" + strings.Join(p, " ") + "]"
	case "probe":
		var b strings.Builder
		for i := 0; i < idx[0]; i++ {
			b.WriteString(b2s(t.s.Has(t.uni[i])))
		}
		return b.String()
	}
	return "bad-op"
}

type setImpl struct {
	cur  setOps
	kind map[string]setOps
}

func newSetImpl() *setImpl {
	return &setImpl{kind: map[string]setOps{
		"int":    &typedSet[int]{uni: []int{0, -1, 7, 1 << 40, 3, 42}},
		"string": &typedSet[string]{uni: []string{"", "a", "A", "héllo", "a b", "null"}},
		"struct": &typedSet[pt]{uni: []pt{{0, ""}, {1, ""}, {0, "x"}, {1, "x"}, {-1, "y"}, {2, "z"}}},
	}}
}

func (s *setImpl) Reset() {}

func (s *setImpl) Exec(line string) string {
	ws := strings.Fields(line)
	if len(ws) >= 3 && ws[0] == "case" && ws[1] == "set" {
		s.cur = s.kind[ws[2]]
		if s.cur == nil {
			return "bad-op"
		}
		s.cur.reset()
		return line
	}
	if len(ws) < 2 || ws[0] != "set" || s.cur == nil {
		return "bad-op"
	}
	idx := []int{}
	for _, w := range ws[2:] {
		n, err := strconv.Atoi(w)
		if err != nil || n < 0 || n >= 6 && ws[1] != "probe" {
			return "bad-op"
		}
		idx = append(idx, n)
	}
	return s.cur.exec(ws[1], idx)
}

func runC07(f *hx.Flags) {
	r := hx.NewRunner(f, "h-set", newSetImpl(), "random operation sequences (<=40 ops) over universes of 4-6 int/string/struct elements from nil, empty and pre-filled sets, argument lists of 0-6 items with repeats; after every mutating op a full membership probe and Slice(); Has/HasAny with >=1 argument are in-domain, zero-argument calls go to the out-of-domain stream. non-trivial: at least one op changed the set and one Has/HasAny was asked; distinct by request lines")
	r.KeyOf = func(d *hx.Disagreement) string {
		ws := strings.Fields(d.Request)
		if len(ws) >= 2 {
			return "C07:" + ws[1]
		}
		return "C07:?"
	}
	if r.HandleReplay() {
		return
	}
	r.RunCorpus()
	n := r.N(20000)
	if f.Tier == "thorough" {
		n = r.N(600000)
	}
	kinds := []string{"int", "string", "struct"}
	for i := 0; i < n; i++ {
		domain := r.Rng.Intn(20) != 0
		usz := 4 + r.Rng.Intn(3)
		lines := []string{"case set " + kinds[r.Rng.Intn(3)]}
		args := func(min int) string {
			k := min + r.Rng.Intn(7-min)
			p := make([]string, k)
			for j := range p {
				p[j] = strconv.Itoa(r.Rng.Intn(usz))
			}
			return strings.TrimSpace(" " + strings.Join(p, " "))
		}
		cat := func(op, a string) string {
			if a == "" {
				return "set " + op
			}
			return "set " + op + " " + a
		}
		tags := []string{}
		switch r.Rng.Intn(3) {
		case 0:
			lines = append(lines, "set nil")
			tags = append(tags, "start-nil")
		case 1:
			lines = append(lines, "set make")
			tags = append(tags, "start-empty")
		default:
			lines = append(lines, cat("make", args(1)))
			tags = append(tags, "start-filled")
		}
		L := 1 + r.Rng.Intn(40)
		mut, ask := false, false
		for j := 0; j < L; j++ {
			switch k := r.Rng.Intn(10); {
			case k < 2:
				lines = append(lines, cat("add", args(0)), fmt.Sprintf("set probe %d", usz))
				mut = true
			case k == 2:
				lines = append(lines, cat("addset", args(0)), fmt.Sprintf("set probe %d", usz))
				mut = true
			case k < 5:
				lines = append(lines, cat("remove", args(0)), fmt.Sprintf("set probe %d", usz))
				mut = true
			case k == 5:
				lines = append(lines, cat("removeset", args(0)), fmt.Sprintf("set probe %d", usz))
				mut = true
			case k < 8:
				min := 1
				if !domain {
					min = 0
				}
				lines = append(lines, cat("has", args(min)))
				ask = true
			case k == 8:
				min := 1
				if !domain {
					min = 0
				}
				lines = append(lines, cat("hasany", args(min)))
				ask = true
			default:
				lines = append(lines, "set slice")
			}
		}
		lines = append(lines, "set slice")
		if !domain {
			tags = append(tags, "zero-arg-stream")
		}
		r.Add(hx.Case{Domain: domain, Nontrivial: mut && ask, Tags: tags, Lines: lines})
	}
	r.Finish()
}

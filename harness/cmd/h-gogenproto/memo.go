package main

import (
	"bufio"
	"crypto/sha1"
	"encoding/hex"
	"encoding/json"
	"fmt"
	"os"
	"os/exec"
	"sync"

	"verif/harness/internal/hx"
)

// The implementation side is slow (every package lookup is a `go list`) and needs the process'
// working directory, so generated cases are executed ahead of time by a few worker processes
// (this binary with -gp-worker).  memoImpl serves those answers by request-line prefix and falls
// back to executing for real (corpus, replay, shrinking): an answer depends only on the lines of
// the case so far, so both routes give the same result.

type memoImpl struct {
	inner *gpImpl
	memo  map[string]string
	cur   []string
	live  bool
}

func prefixKey(prev string, line string) string {
	h := sha1.Sum([]byte(prev + "\n" + line))
	return hex.EncodeToString(h[:])
}

func (m *memoImpl) Reset() {
	m.cur = m.cur[:0]
	m.live = false
}

func (m *memoImpl) Exec(line string) string {
	m.cur = append(m.cur, line)
	if !m.live {
		k := ""
		for _, l := range m.cur {
			k = prefixKey(k, l)
		}
		if a, ok := m.memo[k]; ok {
			return a
		}
		// not precomputed: bring the real implementation to the state after the earlier lines
		m.inner.Reset()
		for _, l := range m.cur[:len(m.cur)-1] {
			hx.SafeExec(m.inner, l)
		}
		m.live = true
	}
	return m.inner.Exec(line)
}

// workerMain: one JSON array of request lines per input line, one JSON array of answers back.
func workerMain(cli string) {
	g := newImpl()
	defer g.Close()
	g.cli = cli
	in := bufio.NewScanner(os.Stdin)
	in.Buffer(make([]byte, 1<<20), 1<<28)
	out := bufio.NewWriter(os.Stdout)
	for in.Scan() {
		var lines []string
		if json.Unmarshal(in.Bytes(), &lines) != nil {
			break
		}
		g.Reset()
		ans := make([]string, len(lines))
		for i, l := range lines {
			ans[i] = hx.SafeExec(g, l)
		}
		b, _ := json.Marshal(ans)
		out.Write(b)
		out.WriteByte('\n')
		out.Flush()
	}
}

func precompute(m *memoImpl, cases []hx.Case, workers int) error {
	m.inner.buildCLI()
	if m.inner.cli == "" {
		return fmt.Errorf("%s", m.inner.cliErr)
	}
	jobs := make(chan int)
	var mu sync.Mutex
	var wg sync.WaitGroup
	var firstErr error
	fail := func(err error) {
		mu.Lock()
		if firstErr == nil {
			firstErr = err
		}
		mu.Unlock()
	}
	for w := 0; w < workers; w++ {
		wg.Add(1)
		go func() {
			defer wg.Done()
			cmd := exec.Command(os.Args[0], "-gp-worker", "-gp-cli", m.inner.cli)
			cmd.Stderr = os.Stderr
			stdin, _ := cmd.StdinPipe()
			stdout, _ := cmd.StdoutPipe()
			if err := cmd.Start(); err != nil {
				fail(err)
				for range jobs {
				}
				return
			}
			rd := bufio.NewReaderSize(stdout, 1<<20)
			for i := range jobs {
				b, _ := json.Marshal(cases[i].Lines)
				stdin.Write(append(b, '\n'))
				resp, err := rd.ReadBytes('\n')
				var ans []string
				if err != nil || json.Unmarshal(resp, &ans) != nil || len(ans) != len(cases[i].Lines) {
					fail(fmt.Errorf("worker failed on case %d: %v", i, err))
					continue
				}
				mu.Lock()
				k := ""
				for j, l := range cases[i].Lines {
					k = prefixKey(k, l)
					m.memo[k] = ans[j]
				}
				mu.Unlock()
			}
			stdin.Close()
			cmd.Wait()
		}()
	}
	for i := range cases {
		jobs <- i
	}
	close(jobs)
	wg.Wait()
	return firstErr
}

// go2lean -spec gerrorstack: translation of gerror/stack.go - `Stack.String`, `getCurrentPackage`,
// `Stack.NearestExternal`, `StackElem.SourceInfo`, `StackElem.Metric` and `makeStack` - the functions
// that compute the DERIVED SOURCE of an error (C15) and the text of its stack.
//
// Values: string = Go.Str (character list), []string / Stack / []uintptr = lists (the functions only
// take len, index, slice, range and element assignment on a slice they made themselves; nil and
// empty are not distinguished), int / StackType / StackSkip = Nat (a subtraction is Go.intSub: going
// below zero is an error of Go.M), StackElem = a structure with the fields of the source,
// strings.Builder = the text written so far.
//
// Fragment: `:=` / `=` / `const` of these kinds, `xs[i]` (Go.listGet), `xs[lo:hi]` (Go.listSlice),
// `xs[i] = v` on a slice made by `make` in the same function that is never re-sliced or copied
// (value semantics are then exact), if / else with an optional `a, b := f()` init, early return,
// named results, `for _, v := range xs`, `for i, v := range xs`, `for i := range xs`,
// `for i := a; i < len(xs); i++` and `for i := a; i < n; i++` where the body does not assign `i`,
// does not assign `n`, and assigns `xs` only directly before leaving the loop (the bound is then
// constant while the loop runs), `break`, and `break L` out of nested loops (a flag `brk_L` that
// every loop on the way out tests).  The strings / strconv functions have their MEANING in
// lean/Model/GoStrings.lean.  What comes from the runtime is a parameter (`Env`):
//
//	pc, _, _, _ := runtime.Caller(1)      -> env.callerPC
//	n := runtime.Callers(int(skip), pcs)  -> Go.fillPrefix (env.callers skip) pcs  (writes pcs[0:n])
//	pcToStackElem(pc)                     -> env.pcToStackElem pc  (runtime.FuncForPC / FileLine)
//
// Anything else makes the translator fail.
package main

import (
	"fmt"
	"go/ast"
	"go/parser"
	"go/token"
	"os"
	"path/filepath"
	"strconv"
	"strings"
)

func init() { register("gerrorstack", "../lean/Generated/GoGerrorStack.lean", runGerrorStack) }

var skFuncs = []string{"Stack.String", "getCurrentPackage", "Stack.NearestExternal", "StackElem.SourceInfo", "StackElem.Metric", "makeStack"}

var skLean = map[string]string{"str": "Go.Str", "strs": "List Go.Str", "int": "Nat", "bool": "Bool", "elem": "StackElem",
	"stack": "List StackElem", "pc": "π", "pcs": "List π", "sb": "Go.Str"}

var skElemOf = map[string]string{"strs": "str", "stack": "elem", "pcs": "pc"}

type skFn struct {
	key     string
	decl    *ast.FuncDecl
	lean    string
	env     bool
	recv    string
	recvK   string
	params  []param
	results []string
}

type skLoop struct {
	label   string
	escapes map[string]bool // labels of enclosing loops that a `break L` inside this loop leaves to
}

type sk struct {
	fns    map[string]*skFn
	fields map[string]string // StackElem field -> kind
	consts map[string]string // package constants of kind int
	scopes []map[string]string
	out    strings.Builder
	cur    *skFn
	tmp    int
	loops  []*skLoop
	made   map[string]bool // slices made by `make` in the current function
}

func (t *sk) bad(n ast.Node, what string) {
	fail("gerrorstack: %s: %s: `%s` is outside the translated fragment", at(n), what, src(n))
}
func (t *sk) line(ind int, s string) { t.out.WriteString(strings.Repeat("  ", ind) + s + "\n") }
func (t *sk) push()                  { t.scopes = append(t.scopes, map[string]string{}) }
func (t *sk) pop()                   { t.scopes = t.scopes[:len(t.scopes)-1] }
func (t *sk) bind(n, k string)       { t.scopes[len(t.scopes)-1][n] = k }
func (t *sk) lookup(n string) (string, bool) {
	for i := len(t.scopes) - 1; i >= 0; i-- {
		if k, ok := t.scopes[i][n]; ok {
			return k, true
		}
	}
	return "", false
}

func skKindOfType(e ast.Expr) string {
	switch src(e) {
	case "string":
		return "str"
	case "[]string":
		return "strs"
	case "int", "StackType", "StackSkip":
		return "int"
	case "bool":
		return "bool"
	case "StackElem":
		return "elem"
	case "Stack":
		return "stack"
	case "uintptr":
		return "pc"
	case "[]uintptr":
		return "pcs"
	}
	return ""
}

func skZero(k string) string {
	switch k {
	case "str":
		return `(Go.str "")`
	case "strs", "stack", "pcs":
		return "[]"
	case "int":
		return "0"
	case "bool":
		return "false"
	}
	fail("gerrorstack: no zero value for kind %q", k)
	return ""
}

func skStr(n ast.Node, goLit string) string {
	s, err := strconv.Unquote(goLit)
	if err != nil {
		fail("gerrorstack: %s: string literal %s", at(n), goLit)
	}
	var b strings.Builder
	for _, r := range s {
		switch {
		case r == '\n':
			b.WriteString(`\n`)
		case r == '\t':
			b.WriteString(`\t`)
		case r < 0x20 || r > 0x7e || r == '"' || r == '\\':
			fail("gerrorstack: %s: string literal %s holds a character the translator does not spell", at(n), goLit)
		default:
			b.WriteRune(r)
		}
	}
	return `(Go.str "` + b.String() + `")`
}

// expr: the Lean term, its kind, and whether evaluating it can panic (it then holds a `(← …)`)
func (t *sk) expr(e ast.Expr) (string, string, bool) {
	switch x := e.(type) {
	case *ast.ParenExpr:
		return t.expr(x.X)
	case *ast.Ident:
		if x.Name == "true" || x.Name == "false" {
			return x.Name, "bool", false
		}
		if k, ok := t.lookup(x.Name); ok {
			return name(x.Name), k, false
		}
		if _, ok := t.consts[x.Name]; ok {
			return x.Name, "int", false
		}
	case *ast.BasicLit:
		if x.Kind == token.STRING {
			return skStr(x, x.Value), "str", false
		}
		if x.Kind == token.INT {
			if _, err := strconv.ParseUint(x.Value, 10, 32); err != nil {
				t.bad(x, "integer literal")
			}
			return x.Value, "int", false
		}
	case *ast.SelectorExpr:
		v, k, m := t.expr(x.X)
		if k == "elem" {
			if fk, ok := t.fields[x.Sel.Name]; ok {
				return v + "." + name(x.Sel.Name), fk, m
			}
		}
	case *ast.IndexExpr:
		xs, k, m1 := t.expr(x.X)
		i, ki, m2 := t.expr(x.Index)
		if ek, ok := skElemOf[k]; ok && ki == "int" && !m1 {
			_ = m2
			return "(← Go.listGet " + xs + " " + i + ")", ek, true
		}
	case *ast.SliceExpr:
		id, ok := x.X.(*ast.Ident)
		if !ok || x.Slice3 {
			break
		}
		xs, k, _ := t.expr(id)
		if _, ok := skElemOf[k]; !ok {
			break
		}
		lo, hi := "0", "(List.length "+xs+")"
		if x.Low != nil {
			v, kk, _ := t.expr(x.Low)
			if kk != "int" {
				break
			}
			lo = v
		}
		if x.High != nil {
			v, kk, _ := t.expr(x.High)
			if kk != "int" {
				break
			}
			hi = v
		}
		return "(← Go.listSlice " + xs + " " + lo + " " + hi + ")", k, true
	case *ast.UnaryExpr:
		if x.Op == token.NOT {
			v, k, m := t.expr(x.X)
			if k == "bool" {
				return "(!" + v + ")", "bool", m
			}
		}
	case *ast.BinaryExpr:
		a, ka, ma := t.expr(x.X)
		b, kb, mb := t.expr(x.Y)
		if ka != kb {
			break
		}
		switch x.Op {
		case token.LAND, token.LOR:
			// Go does not evaluate the right operand when the left one decides; a lifted `(← …)` would
			if ka != "bool" || mb {
				break
			}
			op := map[token.Token]string{token.LAND: "&&", token.LOR: "||"}[x.Op]
			return "(" + a + " " + op + " " + b + ")", "bool", ma
		case token.EQL, token.NEQ:
			if ka == "str" || ka == "int" || ka == "bool" {
				op := map[token.Token]string{token.EQL: "==", token.NEQ: "!="}[x.Op]
				return "(" + a + " " + op + " " + b + ")", "bool", ma || mb
			}
		case token.LSS, token.GTR, token.LEQ, token.GEQ:
			if ka == "int" {
				op := map[token.Token]string{token.LSS: "<", token.GTR: ">", token.LEQ: "≤", token.GEQ: "≥"}[x.Op]
				return "(decide (" + a + " " + op + " " + b + "))", "bool", ma || mb
			}
		case token.ADD:
			if ka == "str" {
				return "(" + a + " ++ " + b + ")", "str", ma || mb
			}
			if ka == "int" {
				return "(" + a + " + " + b + ")", "int", ma || mb
			}
		case token.SUB:
			if ka == "int" {
				return "(← Go.intSub " + a + " " + b + ")", "int", true
			}
		}
	case *ast.CallExpr:
		if x.Ellipsis.IsValid() {
			break
		}
		var args, kinds []string
		mon := false
		fn := src(x.Fun)
		if fn != "make" {
			for _, a := range x.Args {
				v, k, m := t.expr(a)
				args, kinds, mon = append(args, v), append(kinds, k), mon || m
			}
		}
		sig := fn + "(" + strings.Join(kinds, ",") + ")"
		lib := map[string][2]string{
			"strings.Split(str,str)":      {"Go.Strings.split", "strs"},
			"strings.Join(strs,str)":      {"Go.Strings.join", "str"},
			"strings.HasPrefix(str,str)":  {"Go.Strings.hasPrefix", "bool"},
			"strings.HasSuffix(str,str)":  {"Go.Strings.hasSuffix", "bool"},
			"strings.TrimPrefix(str,str)": {"Go.Strings.trimPrefix", "str"},
			"strings.TrimSuffix(str,str)": {"Go.Strings.trimSuffix", "str"},
			"strconv.Itoa(int)":           {"Go.Strings.itoa", "str"},
			"pcToStackElem(pc)":           {"env.pcToStackElem", "elem"},
		}
		if l, ok := lib[sig]; ok {
			if fn == "pcToStackElem" && !t.cur.env {
				break
			}
			return "(" + l[0] + " " + strings.Join(args, " ") + ")", l[1], mon
		}
		switch sig {
		case "len(strs)", "len(stack)", "len(pcs)":
			return "(List.length " + args[0] + ")", "int", mon
		case "int(int)":
			return args[0], "int", mon
		}
		if fn == "make" && len(x.Args) == 2 {
			k := skKindOfType(x.Args[0])
			n, kn, m := t.expr(x.Args[1])
			if (k == "pcs" || k == "stack") && kn == "int" {
				return "(List.replicate " + n + " default)", k, m
			}
		}
		if sel, ok := x.Fun.(*ast.SelectorExpr); ok && sel.Sel.Name == "String" && len(x.Args) == 0 {
			if v, k, _ := t.exprOpt(sel.X); k == "sb" {
				return v, "str", false
			}
		}
	}
	t.bad(e, "expression")
	return "", "", false
}

// exprOpt: like expr for an identifier, without failing on an unknown one
func (t *sk) exprOpt(e ast.Expr) (string, string, bool) {
	if id, ok := e.(*ast.Ident); ok {
		if k, ok := t.lookup(id.Name); ok {
			return name(id.Name), k, false
		}
	}
	return "", "", false
}

// callOf: a call of a translated function `f(args)` / `recv.M(args)`: the Lean application
func (t *sk) callOf(e ast.Expr) (*skFn, string) {
	c, ok := e.(*ast.CallExpr)
	if !ok || c.Ellipsis.IsValid() {
		return nil, ""
	}
	var f *skFn
	recv := ""
	switch fun := c.Fun.(type) {
	case *ast.Ident:
		f = t.fns[fun.Name]
	case *ast.SelectorExpr:
		if v, k, _ := t.exprOpt(fun.X); k == "elem" || k == "stack" {
			f = t.fns[map[string]string{"elem": "StackElem", "stack": "Stack"}[k]+"."+fun.Sel.Name]
			recv = v
		}
	}
	if f == nil || len(c.Args) != len(f.params) {
		return nil, ""
	}
	if f.env && !t.cur.env {
		fail("gerrorstack: %s: %s needs the runtime, %s does not take it", at(e), f.key, t.cur.key)
	}
	app := f.lean
	if f.env {
		app += " env"
	}
	if recv != "" {
		app += " " + recv
	}
	for i, a := range c.Args {
		v, k, _ := t.expr(a)
		if k != f.params[i].kind {
			t.bad(a, "argument")
		}
		app += " " + v
	}
	return f, app
}

// defineFromCall: `a, b := f(…)`
func (t *sk) defineFromCall(ind int, x *ast.AssignStmt) bool {
	if x.Tok != token.DEFINE || len(x.Rhs) != 1 || len(x.Lhs) < 2 {
		return false
	}
	f, app := t.callOf(x.Rhs[0])
	if f == nil || len(f.results) != len(x.Lhs) {
		return false
	}
	t.tmp++
	r := fmt.Sprintf("r%d", t.tmp)
	t.line(ind, "let "+r+" ← "+app)
	for i, l := range x.Lhs {
		id, ok := l.(*ast.Ident)
		if !ok {
			t.bad(x, "definition")
		}
		if id.Name == "_" {
			continue
		}
		proj := map[int]string{0: ".1", 1: ".2"}[i]
		if len(f.results) != 2 {
			t.bad(x, "a call with other than two results")
		}
		t.bind(id.Name, f.results[i])
		t.line(ind, "let mut "+name(id.Name)+" : "+skLean[f.results[i]]+" := "+r+proj)
	}
	return true
}

func isBlank(e ast.Expr) bool { id, ok := e.(*ast.Ident); return ok && id.Name == "_" }

func (t *sk) assign(ind int, x *ast.AssignStmt) {
	if x.Tok == token.DEFINE {
		// pc, _, _, _ := runtime.Caller(1)
		if len(x.Rhs) == 1 && src(x.Rhs[0]) == "runtime.Caller(1)" {
			id, ok := x.Lhs[0].(*ast.Ident)
			if !ok || len(x.Lhs) != 4 || !isBlank(x.Lhs[1]) || !isBlank(x.Lhs[2]) || !isBlank(x.Lhs[3]) || !t.cur.env {
				t.bad(x, "use of runtime.Caller")
			}
			t.bind(id.Name, "pc")
			t.line(ind, "let mut "+name(id.Name)+" : π := env.callerPC")
			return
		}
		// n := runtime.Callers(int(skip), pcs)
		if c, ok := x.Rhs[0].(*ast.CallExpr); ok && len(x.Rhs) == 1 && src(c.Fun) == "runtime.Callers" {
			if len(x.Lhs) != 1 || len(c.Args) != 2 || !t.cur.env {
				t.bad(x, "use of runtime.Callers")
			}
			id, ok1 := x.Lhs[0].(*ast.Ident)
			buf, ok2 := c.Args[1].(*ast.Ident)
			if !ok1 || !ok2 {
				t.bad(x, "use of runtime.Callers")
			}
			skip, ks, m := t.expr(c.Args[0])
			if k, _ := t.lookup(buf.Name); k != "pcs" || ks != "int" || m {
				t.bad(x, "use of runtime.Callers")
			}
			t.tmp++
			r := fmt.Sprintf("r%d", t.tmp)
			t.line(ind, "let "+r+" := Go.fillPrefix (env.callers "+skip+") "+name(buf.Name))
			t.line(ind, name(buf.Name)+" := "+r+".1")
			t.bind(id.Name, "int")
			t.line(ind, "let mut "+name(id.Name)+" : Nat := "+r+".2")
			return
		}
		if t.defineFromCall(ind, x) {
			return
		}
		if len(x.Lhs) != 1 || len(x.Rhs) != 1 {
			t.bad(x, "definition")
		}
		id, ok := x.Lhs[0].(*ast.Ident)
		if !ok || id.Name == "_" {
			t.bad(x, "definition")
		}
		if src(x.Rhs[0]) == "strings.Builder{}" {
			t.bind(id.Name, "sb")
			t.line(ind, "let mut "+name(id.Name)+" : Go.Str := []")
			return
		}
		v, k, _ := t.expr(x.Rhs[0])
		t.bind(id.Name, k)
		t.line(ind, "let mut "+name(id.Name)+" : "+skLean[k]+" := "+v)
		return
	}
	if x.Tok != token.ASSIGN || len(x.Lhs) != 1 || len(x.Rhs) != 1 {
		t.bad(x, "assignment")
	}
	v, k, _ := t.expr(x.Rhs[0])
	switch l := x.Lhs[0].(type) {
	case *ast.Ident:
		lk, ok := t.lookup(l.Name)
		if !ok || lk != k || lk == "sb" {
			t.bad(x, "assignment")
		}
		t.line(ind, name(l.Name)+" := "+v)
	case *ast.IndexExpr:
		id, ok := l.X.(*ast.Ident)
		if !ok {
			t.bad(x, "assignment")
		}
		lk, _ := t.lookup(id.Name)
		i, ki, _ := t.expr(l.Index)
		if skElemOf[lk] != k || k == "" || ki != "int" {
			t.bad(x, "assignment")
		}
		if !t.made[id.Name] {
			fail("gerrorstack: %s: `%s` is written by index but is not a slice this function made with `make` and never re-slices, reassigns or copies: value semantics would not be exact", at(x), id.Name)
		}
		t.line(ind, name(id.Name)+" := (← Go.listSet "+name(id.Name)+" "+i+" "+v+")")
	default:
		t.bad(x, "assignment")
	}
}

func (t *sk) block(ind int, b *ast.BlockStmt) {
	t.push()
	if len(b.List) == 0 {
		t.line(ind, "pure ()")
	}
	for _, s := range b.List {
		t.stmt(ind, s, "")
	}
	t.pop()
}

// leavesLoop: does the statement after an assignment leave the loop labelled `label` (depth = number of
// loops entered below it)?
func leavesLoop(s ast.Stmt, label string, depth int) bool {
	switch x := s.(type) {
	case *ast.ReturnStmt:
		return true
	case *ast.BranchStmt:
		if x.Tok != token.BREAK {
			return false
		}
		if x.Label == nil {
			return depth == 0
		}
		return label != "" && x.Label.Name == label
	}
	return false
}

// boundStable: every assignment to `v` in the body of the loop `label` is directly followed by a
// statement that leaves that loop
func boundStable(list []ast.Stmt, v, label string, depth int) bool {
	ok := true
	var walk func(list []ast.Stmt, depth int)
	walkStmt := func(s ast.Stmt, depth int) {}
	walk = func(list []ast.Stmt, depth int) {
		for i, s := range list {
			if a, isA := s.(*ast.AssignStmt); isA {
				for _, l := range a.Lhs {
					if id, isId := l.(*ast.Ident); isId && id.Name == v {
						if i+1 >= len(list) || !leavesLoop(list[i+1], label, depth) {
							ok = false
						}
					}
				}
			}
			walkStmt(s, depth)
		}
	}
	walkStmt = func(s ast.Stmt, depth int) {
		switch x := s.(type) {
		case *ast.BlockStmt:
			walk(x.List, depth)
		case *ast.IfStmt:
			if x.Init != nil {
				walk([]ast.Stmt{x.Init}, depth)
			}
			walk(x.Body.List, depth)
			if x.Else != nil {
				walkStmt(x.Else, depth)
			}
		case *ast.ForStmt:
			walk(x.Body.List, depth+1)
		case *ast.RangeStmt:
			walk(x.Body.List, depth+1)
		case *ast.LabeledStmt:
			walkStmt(x.Stmt, depth)
		case *ast.AssignStmt, *ast.ExprStmt, *ast.ReturnStmt, *ast.BranchStmt, *ast.DeclStmt, *ast.IncDecStmt:
		default:
			ok = false
		}
	}
	walk(list, depth)
	return ok
}

// loopBody: the body of a loop, then the tests of the flags of labelled breaks that pass through
func (t *sk) loopBody(ind int, label string, body *ast.BlockStmt) {
	lp := &skLoop{label: label, escapes: map[string]bool{}}
	t.loops = append(t.loops, lp)
	t.block(ind+1, body)
	t.loops = t.loops[:len(t.loops)-1]
	var labels []string
	for l := range lp.escapes {
		labels = append(labels, l)
	}
	if len(labels) > 1 {
		fail("gerrorstack: %s: labelled breaks to more than one outer loop", at(body))
	}
	for _, l := range labels {
		if len(t.loops) == 0 {
			fail("gerrorstack: %s: `break %s` without an enclosing loop of that label", at(body), l)
		}
		parent := t.loops[len(t.loops)-1]
		t.line(ind, "if brk_"+l+" then")
		t.line(ind+1, "break")
		if parent.label != l {
			parent.escapes[l] = true
		}
	}
}

func (t *sk) stmt(ind int, s ast.Stmt, label string) {
	switch x := s.(type) {
	case *ast.DeclStmt:
		gd, ok := x.Decl.(*ast.GenDecl)
		if !ok || gd.Tok != token.CONST || len(gd.Specs) != 1 {
			t.bad(s, "declaration")
		}
		vs := gd.Specs[0].(*ast.ValueSpec)
		if len(vs.Names) != 1 || len(vs.Values) != 1 || vs.Type != nil {
			t.bad(s, "declaration")
		}
		v, k, m := t.expr(vs.Values[0])
		if m {
			t.bad(s, "declaration")
		}
		t.bind(vs.Names[0].Name, k)
		t.line(ind, "let "+name(vs.Names[0].Name)+" : "+skLean[k]+" := "+v)
	case *ast.AssignStmt:
		t.assign(ind, x)
	case *ast.ExprStmt:
		// sb.WriteString(x)
		if c, ok := x.X.(*ast.CallExpr); ok && len(c.Args) == 1 && !c.Ellipsis.IsValid() {
			if sel, ok := c.Fun.(*ast.SelectorExpr); ok && sel.Sel.Name == "WriteString" {
				if v, k, _ := t.exprOpt(sel.X); k == "sb" {
					a, ka, _ := t.expr(c.Args[0])
					if ka == "str" {
						t.line(ind, v+" := "+v+" ++ "+a)
						return
					}
				}
			}
		}
		t.bad(s, "statement")
	case *ast.IfStmt:
		t.push()
		if x.Init != nil {
			a, ok := x.Init.(*ast.AssignStmt)
			if !ok || !t.defineFromCall(ind, a) {
				t.bad(x.Init, "init statement of an `if`")
			}
		}
		c, k, _ := t.expr(x.Cond)
		if k != "bool" {
			t.bad(x.Cond, "condition")
		}
		t.line(ind, "if "+c+" then")
		t.block(ind+1, x.Body)
		switch e := x.Else.(type) {
		case nil:
		case *ast.BlockStmt:
			t.line(ind, "else")
			t.block(ind+1, e)
		case *ast.IfStmt:
			t.line(ind, "else")
			t.stmt(ind+1, e, "")
		}
		t.pop()
	case *ast.LabeledStmt:
		switch x.Stmt.(type) {
		case *ast.ForStmt, *ast.RangeStmt:
		default:
			t.bad(s, "labelled statement")
		}
		for _, lp := range t.loops {
			if lp.label == x.Label.Name {
				t.bad(s, "label reused")
			}
		}
		t.line(ind, "let mut brk_"+x.Label.Name+" : Bool := false")
		t.stmt(ind, x.Stmt, x.Label.Name)
	case *ast.ForStmt:
		init, ok1 := x.Init.(*ast.AssignStmt)
		cond, ok2 := x.Cond.(*ast.BinaryExpr)
		post, ok3 := x.Post.(*ast.IncDecStmt)
		if !ok1 || !ok2 || !ok3 || init.Tok != token.DEFINE || len(init.Lhs) != 1 || len(init.Rhs) != 1 || cond.Op != token.LSS || post.Tok != token.INC {
			t.bad(s, "loop header")
		}
		iv, ok := init.Lhs[0].(*ast.Ident)
		if !ok || src(cond.X) != iv.Name || src(post.X) != iv.Name || assignsTo(x.Body, iv.Name) {
			t.bad(s, "loop header (or the body assigns the loop variable)")
		}
		a, ka, ma := t.expr(init.Rhs[0])
		if ka != "int" || ma {
			t.bad(s, "loop start")
		}
		bound := ""
		switch b := cond.Y.(type) {
		case *ast.Ident:
			if k, _ := t.lookup(b.Name); k != "int" || assignsTo(x.Body, b.Name) {
				t.bad(s, "loop bound")
			}
			bound = name(b.Name)
		case *ast.CallExpr:
			if src(b.Fun) != "len" || len(b.Args) != 1 {
				t.bad(s, "loop bound")
			}
			sv, ok := b.Args[0].(*ast.Ident)
			if !ok {
				t.bad(s, "loop bound")
			}
			if k, _ := t.lookup(sv.Name); skElemOf[k] == "" {
				t.bad(s, "loop bound")
			}
			if !boundStable(x.Body.List, sv.Name, label, 0) {
				fail("gerrorstack: %s: the loop body assigns `%s` other than directly before leaving the loop; its bound len(%s) is not constant", at(s), sv.Name, sv.Name)
			}
			bound = "(List.length " + name(sv.Name) + ")"
		default:
			t.bad(s, "loop bound")
		}
		t.push()
		t.bind(iv.Name, "int")
		t.line(ind, "for "+name(iv.Name)+" in List.range' "+a+" ("+bound+" - "+a+") do")
		t.loopBody(ind, label, x.Body)
		t.pop()
	case *ast.RangeStmt:
		id, ok := x.X.(*ast.Ident)
		if !ok || x.Tok != token.DEFINE {
			t.bad(s, "range loop")
		}
		xs, k, _ := t.expr(id)
		ek := skElemOf[k]
		if ek == "" {
			t.bad(s, "range loop")
		}
		t.push()
		key, _ := x.Key.(*ast.Ident)
		val, _ := x.Value.(*ast.Ident)
		switch {
		case key != nil && key.Name != "_" && x.Value == nil:
			t.bind(key.Name, "int")
			t.line(ind, "for "+name(key.Name)+" in List.range (List.length "+xs+") do")
		case key != nil && val != nil && val.Name != "_":
			// the element variable is a copy taken from the slice as it was when the loop started
			// unless the body writes elements of it
			ast.Inspect(x.Body, func(n ast.Node) bool {
				if a, ok := n.(*ast.AssignStmt); ok {
					for _, l := range a.Lhs {
						if ix, ok := l.(*ast.IndexExpr); ok && src(ix.X) == id.Name {
							fail("gerrorstack: %s: the body writes elements of the slice it ranges over", at(a))
						}
					}
				}
				return true
			})
			t.bind(val.Name, ek)
			if key.Name == "_" {
				t.line(ind, "for "+name(val.Name)+" in "+xs+" do")
			} else {
				t.bind(key.Name, "int")
				t.line(ind, "for ("+name(key.Name)+", "+name(val.Name)+") in Go.indexed "+xs+" do")
			}
		default:
			t.bad(s, "range loop")
		}
		t.loopBody(ind, label, x.Body)
		t.pop()
	case *ast.BranchStmt:
		if x.Tok != token.BREAK || len(t.loops) == 0 {
			t.bad(s, "branch")
		}
		inner := t.loops[len(t.loops)-1]
		if x.Label == nil || x.Label.Name == inner.label {
			t.line(ind, "break")
			return
		}
		found := false
		for _, lp := range t.loops {
			if lp.label == x.Label.Name {
				found = true
			}
		}
		if !found {
			t.bad(s, "branch")
		}
		inner.escapes[x.Label.Name] = true
		t.line(ind, "brk_"+x.Label.Name+" := true")
		t.line(ind, "break")
	case *ast.ReturnStmt:
		if len(x.Results) != len(t.cur.results) {
			t.bad(s, "return")
		}
		var vs []string
		for i, r := range x.Results {
			v, k, _ := t.expr(r)
			if k != t.cur.results[i] {
				t.bad(s, "return")
			}
			vs = append(vs, v)
		}
		if len(vs) == 1 {
			t.line(ind, "return "+vs[0])
		} else {
			t.line(ind, "return ("+strings.Join(vs, ", ")+")")
		}
	default:
		t.bad(s, "statement")
	}
}

// indexWritable: the variables of the function that are defined exactly once, by `v := make(…)`, never
// assigned as a whole afterwards, never sliced and never copied into another variable: nothing else
// can share their backing array, so `v[i] = x` on the list is exactly what Go does
func indexWritable(fd *ast.FuncDecl) map[string]bool {
	r := map[string]bool{}
	bad := map[string]bool{}
	ast.Inspect(fd.Body, func(n ast.Node) bool {
		switch x := n.(type) {
		case *ast.AssignStmt:
			for i, l := range x.Lhs {
				id, ok := l.(*ast.Ident)
				if !ok {
					continue
				}
				isMake := false
				if x.Tok == token.DEFINE && len(x.Lhs) == len(x.Rhs) {
					if c, ok := x.Rhs[i].(*ast.CallExpr); ok && src(c.Fun) == "make" {
						isMake = true
					}
				}
				if isMake && !r[id.Name] {
					r[id.Name] = true
				} else {
					bad[id.Name] = true
				}
			}
			for _, rh := range x.Rhs {
				if id, ok := rh.(*ast.Ident); ok {
					bad[id.Name] = true
				}
			}
		case *ast.SliceExpr:
			if id, ok := x.X.(*ast.Ident); ok {
				bad[id.Name] = true
			} else {
				ast.Inspect(x.X, func(m ast.Node) bool {
					if id, ok := m.(*ast.Ident); ok {
						bad[id.Name] = true
					}
					return true
				})
			}
		case *ast.CompositeLit, *ast.FuncLit, *ast.UnaryExpr:
			ast.Inspect(x, func(m ast.Node) bool {
				if id, ok := m.(*ast.Ident); ok {
					bad[id.Name] = true
				}
				return true
			})
		}
		return true
	})
	for v := range bad {
		delete(r, v)
	}
	return r
}

// usesRuntime: the function mentions the runtime package or pcToStackElem, or calls a function that does
func usesRuntime(fd *ast.FuncDecl, known map[string]bool) bool {
	u := false
	ast.Inspect(fd.Body, func(n ast.Node) bool {
		switch x := n.(type) {
		case *ast.SelectorExpr:
			if id, ok := x.X.(*ast.Ident); ok && id.Name == "runtime" {
				u = true
			}
			if known[x.Sel.Name] {
				u = true
			}
		case *ast.Ident:
			if x.Name == "pcToStackElem" || known[x.Name] {
				u = true
			}
		}
		return true
	})
	return u
}

func runGerrorStack(repo, out string) {
	t := &sk{fns: map[string]*skFn{}, fields: map[string]string{}, consts: map[string]string{}}
	file, err := parser.ParseFile(fset, filepath.Join(repo, "gerror/stack.go"), nil, 0)
	if err != nil {
		fail("%v", err)
	}
	imports := map[string]bool{}
	for _, im := range file.Imports {
		p, _ := strconv.Unquote(im.Path.Value)
		if im.Name != nil {
			fail("gerrorstack: stack.go imports %s under the name %s", p, im.Name.Name)
		}
		imports[p] = true
	}
	for _, p := range []string{"runtime", "strconv", "strings"} {
		if !imports[p] {
			fail("gerrorstack: stack.go does not import %q; the translation reads the identifier as that package", p)
		}
	}
	decls := map[string]*ast.FuncDecl{}
	types := map[string]string{}
	var fieldOrder []cbField
	for _, d := range file.Decls {
		switch x := d.(type) {
		case *ast.GenDecl:
			for _, sp := range x.Specs {
				switch y := sp.(type) {
				case *ast.TypeSpec:
					types[y.Name.Name] = src(y.Type)
					if st, ok := y.Type.(*ast.StructType); ok && y.Name.Name == "StackElem" {
						for _, f := range st.Fields.List {
							k := skKindOfType(f.Type)
							if len(f.Names) == 0 || (k != "str" && k != "int") {
								fail("gerrorstack: stack.go: field `%s` of StackElem", src(f.Type))
							}
							for _, n := range f.Names {
								fieldOrder = append(fieldOrder, cbField{n.Name, k})
								t.fields[n.Name] = k
							}
						}
					}
				case *ast.ValueSpec:
					if x.Tok == token.CONST && len(y.Names) == 1 && len(y.Values) == 1 && y.Names[0].Name == "defaultSkip" {
						lit, ok := y.Values[0].(*ast.BasicLit)
						if !ok || lit.Kind != token.INT || y.Type != nil {
							fail("gerrorstack: stack.go: constant defaultSkip is not an untyped integer literal")
						}
						t.consts["defaultSkip"] = lit.Value
					}
				}
			}
		case *ast.FuncDecl:
			key := x.Name.Name
			if x.Recv != nil && len(x.Recv.List) == 1 {
				key = recvTypeName(x.Recv.List[0].Type) + "." + key
			}
			if x.Body != nil {
				decls[key] = x
			}
		}
	}
	for n, want := range map[string]string{"Stack": "[]StackElem", "StackType": "int", "StackSkip": "int"} {
		if types[n] != want {
			fail("gerrorstack: stack.go: type %s is declared as `%s`; the translation assumes `%s`", n, types[n], want)
		}
	}
	if len(fieldOrder) == 0 {
		fail("gerrorstack: stack.go: struct StackElem not found")
	}
	if _, ok := t.consts["defaultSkip"]; !ok {
		fail("gerrorstack: stack.go: constant defaultSkip not found")
	}
	if fd := decls["pcToStackElem"]; fd == nil || src(fd.Type) != "func(pc uintptr) StackElem" {
		fail("gerrorstack: stack.go: `func pcToStackElem(pc uintptr) StackElem` not found (it is the parameter env.pcToStackElem)")
	}
	// signatures
	for _, key := range skFuncs {
		fd := decls[key]
		if fd == nil {
			fail("gerrorstack: stack.go: function %s not found", key)
		}
		f := &skFn{key: key, decl: fd, lean: key}
		if fd.Type.TypeParams != nil {
			fail("gerrorstack: %s is generic", key)
		}
		if fd.Recv != nil {
			r := fd.Recv.List[0]
			f.recvK = skKindOfType(r.Type)
			if len(r.Names) != 1 || (f.recvK != "elem" && f.recvK != "stack") {
				fail("gerrorstack: %s: receiver `%s`", key, src(r.Type))
			}
			f.recv = r.Names[0].Name
		}
		for _, p := range fd.Type.Params.List {
			k := skKindOfType(p.Type)
			if k == "" || len(p.Names) == 0 {
				fail("gerrorstack: %s: parameter of type `%s`", key, src(p.Type))
			}
			for _, n := range p.Names {
				f.params = append(f.params, param{n.Name, k})
			}
		}
		if fd.Type.Results == nil {
			fail("gerrorstack: %s has no result", key)
		}
		for _, r := range fd.Type.Results.List {
			k := skKindOfType(r.Type)
			if k == "" {
				fail("gerrorstack: %s: result of type `%s`", key, src(r.Type))
			}
			n := len(r.Names)
			if n == 0 {
				n = 1
			}
			for i := 0; i < n; i++ {
				f.results = append(f.results, k)
			}
		}
		if len(f.results) > 2 {
			fail("gerrorstack: %s has more than two results", key)
		}
		t.fns[key] = f
	}
	// which functions take the runtime
	known := map[string]bool{}
	for changed := true; changed; {
		changed = false
		for _, f := range t.fns {
			if !f.env && usesRuntime(f.decl, known) {
				f.env, changed = true, true
				known[f.decl.Name.Name] = true
			}
		}
	}

	var b strings.Builder
	b.WriteString("import Model.GoPrelude\nimport Model.GoStrings\n")
	b.WriteString("/-! REGENERATED on every run by harness/cmd/go2lean -spec gerrorstack from gerror/stack.go. Do not edit.\nEach definition follows the Go function of the same name statement by statement (Model/GoPrelude.lean and\nModel/GoStrings.lean fix the meaning of the primitives: strings are character lists, slices are lists, ints\nare natural numbers with a checked subtraction, strings.Split/Join/HasPrefix/TrimSuffix and strconv.Itoa are\ndefined there).  A labelled `break L` out of nested loops is the flag `brk_L`.  What comes from the runtime is\nthe parameter `env`: `runtime.Caller(1)`'s pc, the pcs `runtime.Callers(skip, …)` finds, `pcToStackElem`. -/\n")
	b.WriteString("set_option linter.unusedVariables false\nnamespace Generated.GoGerrorStack\n\n")
	b.WriteString("/-- `type StackElem struct` (field order of the source) -/\nstructure StackElem where\n")
	for _, f := range fieldOrder {
		fmt.Fprintf(&b, "  %s : %s\n", name(f.name), skLean[f.kind])
	}
	b.WriteString("  deriving DecidableEq, Inhabited\n\n")
	b.WriteString("/-- what stack.go takes from the runtime -/\nstructure Env (π : Type) where\n  /-- `pc, _, _, _ := runtime.Caller(1)` inside getCurrentPackage: the pc of its caller -/\n  callerPC : π\n  /-- `runtime.Callers(skip, pcs)`: the pcs of the goroutine's stack after `skip` frames, innermost first;\n  as many of them as fit are written to `pcs` (`Go.fillPrefix`) -/\n  callers : Nat → List π\n  /-- `pcToStackElem` (runtime.FuncForPC, FileLine) -/\n  pcToStackElem : π → StackElem\n\n")
	fmt.Fprintf(&b, "def defaultSkip : Nat := %s\n\nvariable {π : Type} [Inhabited π]\n\n", t.consts["defaultSkip"])
	for _, key := range skFuncs {
		f := t.fns[key]
		t.cur = f
		t.scopes = nil
		t.loops = nil
		t.tmp = 0
		t.made = indexWritable(f.decl)
		t.out.Reset()
		t.push()
		sig := "def " + f.lean
		if f.env {
			sig += " (env : Env π)"
		}
		var muts []string
		if f.recv != "" {
			if assignsTo(f.decl.Body, f.recv) {
				fail("gerrorstack: %s assigns its receiver", key)
			}
			t.bind(f.recv, f.recvK)
			sig += " (" + name(f.recv) + " : " + skLean[f.recvK] + ")"
		}
		for _, p := range f.params {
			t.bind(p.name, p.kind)
			sig += " (" + name(p.name) + " : " + skLean[p.kind] + ")"
			if assignsTo(f.decl.Body, p.name) {
				muts = append(muts, p.name)
			}
		}
		var rts []string
		for _, k := range f.results {
			rts = append(rts, skLean[k])
		}
		sig += " : Go.M (" + strings.Join(rts, " × ") + ") := do"
		for _, m := range muts {
			t.line(1, "let mut "+name(m)+" := "+name(m))
		}
		// named results start at their zero values
		i := 0
		for _, r := range f.decl.Type.Results.List {
			for _, n := range r.Names {
				if n.Name != "_" {
					t.bind(n.Name, f.results[i])
					t.line(1, "let mut "+name(n.Name)+" : "+skLean[f.results[i]]+" := "+skZero(f.results[i]))
				}
				i++
			}
			if len(r.Names) == 0 {
				i++
			}
		}
		for _, s := range f.decl.Body.List {
			t.stmt(1, s, "")
		}
		if n := len(f.decl.Body.List); n == 0 || !endsInReturn(f.decl.Body.List[n-1]) {
			fail("gerrorstack: %s can fall off its end", key)
		}
		fmt.Fprintf(&b, "/-- `%s` -/\n%s\n%s\n", src(&ast.FuncDecl{Recv: f.decl.Recv, Name: f.decl.Name, Type: f.decl.Type}), sig, t.out.String())
	}
	b.WriteString("end Generated.GoGerrorStack\n")
	if err := os.WriteFile(out, []byte(b.String()), 0o644); err != nil {
		fail("%v", err)
	}
	fmt.Printf("go2lean gerrorstack: %d functions of gerror/stack.go -> %s\n", len(skFuncs), out)
}

import Model.GSyncCfg
namespace Generated.GoGSync
open GSyncCfg

def node : Nat → Option Node
  | 0 => some (.lock 1)
  | 1 => some (.ctrAdd (.var 0) 1 2)
  | 2 => some (.branch (.ieq (.var 1) (.lit 0)) 3 8)
  | 3 => some (.ptrSwap .sentinel 2 4)
  | 4 => some (.branch (.not (.peq (.var 2) .sentinel)) 5 6)
  | 5 => some (.close (.var 2) 6)
  | 6 => some (.unlock 7)
  | 7 => some (.retInt (.var 1))
  | 8 => some (.branch (.and (.ilt (.lit 0) (.var 0)) (.ieq (.var 1) (.var 0))) 9 6)
  | 9 => some (.make 3 10)
  | 10 => some (.ptrCAS .sentinel (.var 3) 4 11)
  | 11 => some (.branch (.not (.bvar 4)) 12 6)
  | 12 => some (.close (.var 3) 6)
  | 13 => some (.ctrLoad 0 14)
  | 14 => some (.ptrLoad 1 15)
  | 15 => some (.branch (.or (.ieq (.var 0) (.lit 0)) (.and (.ilt (.lit 0) (.var 0)) (.not (.peq (.var 1) .sentinel)))) 16 13)
  | 16 => some (.retChan (.var 1))
  | 17 => some (.ctrLoad 0 18)
  | 18 => some (.retInt (.var 0))
  | _ => none

def cfg : Cfg := { node := node, size := 19, addEntry := 0, addParam := 0, waitEntry := 13, countEntry := 17 }
def incDelta : Int := 1
def decDelta : Int := -1
end Generated.GoGSync

import Generated.GoCloneBase
/-!
# `gerror.CloneBase` as translated on this run, in closed form

`Generated/GoCloneBase.lean` is rewritten from /repo's `gerror/factory.go` by `harness/cmd/go2lean
-spec clonebase` on every run.  This file names the statement groups of that function (`ph*`) and
proves that the translated `do` block computes their composition (`go_cloneBase_pure`): the
translated function never panics and its result is `pureCB …`.  `Properties/C15Tie.lean` and
`Properties/C06Tie.lean` relate `pureCB` to the two hand-written models.
-/
set_option linter.unusedSectionVars false
namespace GoCloneBase
open Generated.GoCloneBase

variable {ι σ : Type} [DecidableEq ι]

/-! the statements of `CloneBase`, one function per group -/
def phInit (inil : ι) (base : GError ι σ) (baseRef : ι) : GError ι σ :=
  { Name := base.Name, Message := base.Message, Source := base.Source, detailTag := base.detailTag, stack := base.stack,
    factoryRef := if base.factoryRef != inil then base.factoryRef else baseRef, srcErrors := base.srcErrors, isFactory := false }

def phSource (c : GError ι σ) (source : Go.Str) : GError ι σ :=
  if source != Go.str "" && c.Source == Go.str "" then { c with Source := source } else c

def phDTag (c : GError ι σ) (dTag : Go.Str) : GError ι σ :=
  if dTag != Go.str "" then
    if c.detailTag == Go.str "" then { c with detailTag := dTag } else { c with detailTag := c.detailTag ++ (Go.str "-" ++ dTag) }
  else c

def phMsg (c : GError ι σ) (ext : Go.Str) : GError ι σ :=
  if ext != Go.str "" then
    if c.Message == Go.str "" then { c with Message := ext } else { c with Message := c.Message ++ (Go.str " " ++ ext) }
  else c

def phRef (inil err : ι) (base c : GError ι σ) : GError ι σ :=
  if c.factoryRef == inil && base.isFactory then { c with factoryRef := err } else c

def phSrcErr (inil srcError : ι) (base c : GError ι σ) : GError ι σ :=
  if srcError != inil then { c with srcErrors := base.srcErrors ++ [srcError] } else c

def skipStack (env : Env σ) (c : GError ι σ) (st : Nat) : Bool :=
  decide (env.stackLen c.stack > 0) || st == NoStack || (st == SourceStack && c.Source != Go.str "")

def phStack (env : Env σ) (c : GError ι σ) (st : Nat) : GError ι σ :=
  let c := { c with stack := env.makeStack st }
  if c.Source == Go.str "" then
    let c := { c with Source := env.nearestExternalMetric c.stack }
    if st == SourceStack then { c with stack := env.nilStack } else c
  else c

def pureCB (env : Env σ) (inil err : ι) (base : GError ι σ) (baseRef : ι) (st : Nat) (dTag source extMsg : Go.Str) (srcError : ι) : GError ι σ :=
  let c := phSrcErr inil srcError base (phRef inil err base (phMsg (phDTag (phSource (phInit inil base baseRef) source) dTag) (env.trimSpace extMsg)))
  if skipStack env c st then c else phStack env c st

theorem go_cloneBase_pure (env : Env σ) (inil err : ι) (base : GError ι σ) (baseRef : ι) (st : Nat) (dTag source extMsg : Go.Str) (srcError : ι) :
    CloneBase env inil err base baseRef st dTag source extMsg srcError = pure (pureCB env inil err base baseRef st dTag source extMsg srcError) := by
  unfold CloneBase
  extract_lets err' ext0 fRef0 c1 fRef clone0 c2 clone1 c3 c4 clone2 clone3 ext c5 c6 clone4 clone5 c7 clone6 c8 clone7 clone8 c9 clone9 c10 clone10
  have h0 : clone0 = phInit inil base baseRef := rfl
  have h1 : clone1 = phSource clone0 source := rfl
  have h3 : clone3 = phDTag clone1 dTag := by
    simp only [clone3, clone2, c3, c4, phDTag]
    by_cases hA : (dTag != Go.str "") = true <;> by_cases hB : (clone1.detailTag == Go.str "") = true <;> simp [hA, hB]
  have h5 : clone5 = phMsg clone3 ext := by
    simp only [clone5, clone4, c5, c6, phMsg]
    by_cases hA : (ext != Go.str "") = true <;> by_cases hB : (clone3.Message == Go.str "") = true <;> simp [hA, hB]
  have h6 : clone6 = phRef inil err base clone5 := rfl
  have h7 : clone7 = phSrcErr inil srcError base clone6 := rfl
  have h10 : clone10 = phStack env clone7 st := by
    simp only [clone10, clone9, clone8, c9, c10, phStack]
    by_cases hA : (clone7.Source == Go.str "") = true <;> by_cases hB : (st == SourceStack) = true <;> simp [hA, hB]
  have hc : clone7 = phSrcErr inil srcError base (phRef inil err base (phMsg (phDTag (phSource (phInit inil base baseRef) source) dTag) (env.trimSpace extMsg))) := by
    rw [h7, h6, h5, h3, h1, h0]
  rw [h10, hc]
  unfold pureCB skipStack
  simp only []
  split <;> rfl

end GoCloneBase

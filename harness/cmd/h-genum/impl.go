package main

import (
	"math/big"
	"strings"
)

// impl interprets the `gn …` protocol on the real generator and on the code it generated.
type impl struct {
	w   *world
	def *Def
	cur *built
}

func (m *impl) Reset() { m.def, m.cur = &Def{Opts: "-"}, nil }

func (m *impl) Exec(line string) string {
	ws := strings.Fields(line)
	if len(ws) == 0 {
		return "bad-op"
	}
	switch ws[0] {
	case "case":
		return strings.Join(ws, " ")
	case "echo":
		return strings.Join(ws[1:], " ")
	case "gn":
	default:
		return "bad-op"
	}
	if len(ws) < 2 {
		return "bad-op"
	}
	switch ws[1] {
	case "opt", "type", "const", "block", "skip", "other":
		if m.def == nil {
			m.def = &Def{Opts: "-"}
		}
		if !m.def.addLine(ws) {
			return "bad-op"
		}
		return "ok"
	case "gen":
		if len(ws) != 2 || m.def == nil {
			return "bad-op"
		}
		cp := *m.def
		cp.Types = append([]TypeD{}, m.def.Types...)
		cp.Items = append([]Item{}, m.def.Items...)
		m.cur = m.w.get(&cp)
		return m.cur.status
	}
	if len(ws) < 3 {
		return "bad-op"
	}
	if m.cur == nil || m.cur.status != "ok" {
		return "no-gen"
	}
	op, t := ws[1], ws[2]
	kind := m.cur.def.kindOf(t)
	if kind == "" {
		return "no-type"
	}
	switch {
	case (op == "values" || op == "strvals") && len(ws) == 3:
		return m.cur.probe.ask(t + " " + op)
	case (op == "valid" || op == "str") && len(ws) == 4:
		if ws[3] != "all" {
			lo, hi := kindRange(kind)
			for _, x := range strings.Split(ws[3], ",") {
				v, ok := new(big.Int).SetString(x, 10)
				if !ok || v.Cmp(lo) < 0 || v.Cmp(hi) > 0 {
					return "bad-op"
				}
			}
		}
		return m.cur.probe.ask(t + " " + op + " " + ws[3])
	case op == "parse" && len(ws) == 4:
		return m.cur.probe.ask(t + " parse " + ws[3])
	}
	return "bad-op"
}

import Model.Gencommon
import Generated.GoGencommonParams
import Lemmas.GoLoop
import Properties.C19
/-!
# C19, tie A by translation: gencommon's parameter naming as translated on this run = the model

`Generated/GoGencommonParams.lean` is rewritten from /repo's `gencommon/params.go`
(`getSafeParamName`, `Params.keepUserNames`, `Params.ensureNames`) and `gencommon/method.go`
(`(*Method).ensureParamNames`) by `harness/cmd/go2lean -spec gencommonparams` on every run.  For
ALL maps, names, flags and parameter lists the translated functions return exactly what the
hand-written model of `Model/Gencommon.lean` returns (`getSafe`, `keepNamed getSafe`,
`fillBlank getSafe`, `ensureParamNames`) - in particular they do not panic and the unbounded
`for { … }` of `getSafeParamName` ends: the translation runs it for at most `fuel` iterations
(`Go.loopN`, Model/GoParams.lean) and the equalities hold for EVERY fuel above an explicit bound
(the number of keys the map can have by then, plus one).  `go_names_distinct`, `go_user_names_kept`
and `go_names_valid` restate part (a) of the property for the translated code.
-/
set_option linter.unusedSimpArgs false
namespace C19Tie
open Generated.GoGencommonParams Gencommon

/-- the comma-ok lookup of the fragment on the model's association list -/
theorem simGet_eq (d : Deduper) (k : Name) :
    Go.simGet d k = ((d.get? k).getD 0, (d.get? k).isSome) := by
  unfold Go.simGet Deduper.get?
  cases d.find? (fun e => e.1 = k) <;> rfl

/-- the model's candidate search does not depend on its fuel once a free candidate is in reach -/
theorem firstFree_fuel (d : Deduper) (p : Name) : ∀ (fuel fuel' v : Nat),
    (∃ w, v ≤ w ∧ w < v + fuel ∧ w < v + fuel' ∧ p ++ num w ∉ d.keys) →
    firstFree d p fuel v = firstFree d p fuel' v := by
  intro fuel
  induction fuel with
  | zero => rintro fuel' v ⟨w, h1, h2, _⟩; omega
  | succ fuel ih =>
    rintro fuel' v ⟨w, h1, h2, h3, h4⟩
    cases fuel' with
    | zero => omega
    | succ fuel' =>
      simp only [firstFree]
      by_cases hv : d.has (p ++ num v) = true
      · simp only [hv, if_true]
        have hne : w ≠ v := by
          intro e; subst e; exact h4 ((has_iff _ _).1 hv)
        exact ih fuel' (v + 1) ⟨w, by omega, by omega, by omega, h4⟩
      · simp only [hv]
        rfl

/-- a `for { … }` whose iteration is "build candidate `p ++ itoa v`, increment, leave if it is not
a key" is the model's `firstFree`, whenever a free candidate is within `fuel` -/
theorem loopN_firstFree (d : Deduper) (p : Name)
    (body : Name × Nat → Go.M (ForInStep (Name × Nat)))
    (hbody : ∀ r v, body (r, v) = pure (if d.has (p ++ num v) then ForInStep.yield (p ++ num v, v + 1)
      else ForInStep.done (p ++ num v, v + 1))) :
    ∀ (fuel : Nat) (r : Name) (v : Nat), (∃ w, v ≤ w ∧ w < v + fuel ∧ p ++ num w ∉ d.keys) →
    Go.loopN body fuel (r, v) = pure (p ++ num (firstFree d p fuel v), firstFree d p fuel v + 1) := by
  intro fuel
  induction fuel with
  | zero => rintro r v ⟨w, h1, h2, _⟩; omega
  | succ fuel ih =>
    rintro r v ⟨w, h1, h2, h3⟩
    simp only [Go.loopN, hbody, firstFree, pure_bind]
    by_cases hv : d.has (p ++ num v) = true
    · simp only [hv, if_true]
      have hne : w ≠ v := by
        intro e; subst e; exact h3 ((has_iff _ _).1 hv)
      exact ih _ (v + 1) ⟨w, by omega, by omega, h3⟩
    · simp only [hv]
      rfl

/-- **`getSafeParamName` as translated = `getSafe`** for every map, name and flag, and every fuel
above the number of keys: result and new map -/
theorem go_getSafeParamName_eq (fuel : Nat) (d : Deduper) (p : Name) (always : Bool)
    (hf : d.length + 1 ≤ fuel) :
    getSafeParamName fuel d p always = pure (getSafe d p always) := by
  unfold getSafeParamName getSafe
  simp only [simGet_eq]
  by_cases hc : ((d.get? p).isSome || always) = true
  · simp only [hc, if_true]
    have hfree : ∃ w, (d.get? p).getD 0 ≤ w ∧ w < (d.get? p).getD 0 + (d.length + 1) ∧
        p ++ num w ∉ d.keys := by
      obtain ⟨w, h1, h2, h3⟩ := exists_free p d.keys.length d.keys ((d.get? p).getD 0) rfl
      have : d.keys.length = d.length := by simp [Deduper.keys]
      exact ⟨w, h1, by omega, h3⟩
    obtain ⟨w, h1, h2, h3⟩ := hfree
    rw [loopN_firstFree d p _ (by
      intro r v
      simp only [get?_isSome, Go.itoa, num]
      by_cases hh : d.has (p ++ Nat.toDigits 10 v) = true <;> simp [hh]) fuel p _ ⟨w, h1, by omega, h3⟩]
    rw [firstFree_fuel d p fuel (d.length + 1) _ ⟨w, h1, by omega, h2, h3⟩]
    rfl
  · simp only [hc]
    rfl

theorem getSafe_length (d : Deduper) (p : Name) (a : Bool) : (getSafe d p a).2.length = d.length + 1 := by
  unfold getSafe
  split <;> simp [Deduper.put]

theorem str_empty : Go.str "" = ([] : List Char) := rfl
theorem str_blank : Go.str "_" = ['_'] := rfl

theorem notBlank_eq (n : Name) : (!decide (n = Go.str "") && !decide (n = Go.str "_")) = !blank n := by
  unfold blank; rw [str_empty, str_blank]
  by_cases h1 : n = [] <;> by_cases h2 : n = ['_'] <;> simp [h1, h2]

theorem isBlank_eq (n : Name) : (decide (n = Go.str "") || decide (n = Go.str "_")) = blank n := by
  unfold blank; rw [str_empty, str_blank]

theorem keep_loop (fuel : Nat) : ∀ (ps acc : List P) (d : Deduper), d.length + ps.length + 1 ≤ fuel →
    forIn ps (d, acc) (fun p_ (__s : Deduper × List P) =>
      if (!blank p_.name) = true then do
        let r1 ← getSafeParamName fuel __s.fst p_.name false
        pure (ForInStep.yield (r1.snd, __s.snd ++ [{ name := r1.fst, isErr := p_.isErr, isCtx := p_.isCtx }]))
      else (pure (ForInStep.yield (__s.fst, __s.snd ++ [p_])) : Go.M _))
    = pure ((keepNamed getSafe d ps).2, acc ++ (keepNamed getSafe d ps).1) := by
  intro ps
  induction ps with
  | nil => intro acc d _; simp [keepNamed]
  | cons p ps ih =>
    intro acc d hf
    simp only [List.length_cons] at hf
    simp only [List.forIn_cons, keepNamed]
    by_cases hb : blank p.name = true
    · simp only [hb, Bool.not_true, Bool.false_eq_true, if_false, if_true, pure_bind]
      rw [ih _ _ (by omega)]
      simp
    · simp only [hb, Bool.not_false, if_true, if_false]
      rw [go_getSafeParamName_eq fuel d p.name false (by omega)]
      simp only [pure_bind]
      rw [ih _ _ (by rw [getSafe_length]; omega)]
      simp

/-- **`Params.keepUserNames` as translated = the model's first pass** (`keepNamed getSafe`) -/
theorem go_keepUserNames_eq (fuel : Nat) (ps : List P) (d : Deduper)
    (hf : d.length + ps.length + 1 ≤ fuel) :
    Params.keepUserNames fuel ps d = pure (keepNamed getSafe d ps) := by
  unfold Params.keepUserNames
  simp only [notBlank_eq]
  rw [keep_loop fuel ps [] d hf]
  simp

theorem str_err : Go.str "err" = errP := rfl
theorem str_ctx : Go.str "ctx" = ctxP := rfl
theorem str_arg : Go.str "arg" = argP := rfl
theorem str_ret : Go.str "ret" = retP := rfl

/-- the loop of `ensureNames`, from any state: `pre` is what the Go variable `prefix` holds -/
theorem fill_loop (fuel : Nat) (isOutput : Bool) (len : Nat) (pre : Name)
    (hpre : pre = if isOutput then retP else argP) :
    ∀ (ps acc : List P) (d : Deduper) (i : Nat), d.length + ps.length + 1 ≤ fuel →
    forIn ps (d, acc, i) (fun p_ (__s : Deduper × List P × Nat) =>
      if blank p_.name = true then
        if (isOutput && decide (len - 1 = __s.snd.snd) && p_.isErr) = true then do
          let r1 ← getSafeParamName fuel __s.fst errP false
          pure (ForInStep.yield
            (r1.snd, __s.snd.fst ++ [{ name := r1.fst, isErr := p_.isErr, isCtx := p_.isCtx }], __s.snd.snd + 1))
        else
          if (!isOutput && decide (__s.snd.snd = 0) && p_.isCtx) = true then do
            let r1 ← getSafeParamName fuel __s.fst ctxP false
            pure (ForInStep.yield
              (r1.snd, __s.snd.fst ++ [{ name := r1.fst, isErr := p_.isErr, isCtx := p_.isCtx }], __s.snd.snd + 1))
          else do
            let r1 ← getSafeParamName fuel __s.fst pre true
            pure (ForInStep.yield
              (r1.snd, __s.snd.fst ++ [{ name := r1.fst, isErr := p_.isErr, isCtx := p_.isCtx }], __s.snd.snd + 1))
      else (pure (ForInStep.yield (__s.fst, __s.snd.fst ++ [p_], __s.snd.snd + 1)) : Go.M _))
    = pure ((fillBlank getSafe isOutput len d i ps).2, acc ++ (fillBlank getSafe isOutput len d i ps).1,
        i + ps.length) := by
  intro ps
  induction ps with
  | nil => intro acc d i _; simp [fillBlank]
  | cons p ps ih =>
    intro acc d i hf
    simp only [List.length_cons] at hf
    simp only [List.forIn_cons, fillBlank, genName]
    by_cases hb : blank p.name = true
    · simp only [hb, if_true]
      by_cases h1 : (isOutput && decide (len - 1 = i) && p.isErr) = true
      · simp only [h1, if_true]
        rw [go_getSafeParamName_eq fuel d errP false (by omega)]
        simp only [pure_bind]
        rw [ih _ _ _ (by rw [getSafe_length]; omega)]
        simp [Nat.add_comm, Nat.add_left_comm]
      · simp only [h1, Bool.false_eq_true, if_false]
        by_cases h2 : (!isOutput && decide (i = 0) && p.isCtx) = true
        · simp only [h2, if_true]
          rw [go_getSafeParamName_eq fuel d ctxP false (by omega)]
          simp only [pure_bind]
          rw [ih _ _ _ (by rw [getSafe_length]; omega)]
          simp [Nat.add_comm, Nat.add_left_comm]
        · simp only [h2, Bool.false_eq_true, if_false]
          rw [go_getSafeParamName_eq fuel d pre true (by omega)]
          simp only [pure_bind]
          rw [ih _ _ _ (by rw [getSafe_length]; omega)]
          subst hpre
          simp [Nat.add_comm, Nat.add_left_comm]
    · simp only [hb, Bool.false_eq_true, if_false, pure_bind]
      rw [ih _ _ _ (by omega)]
      simp [Nat.add_comm, Nat.add_left_comm]

/-- **`Params.ensureNames` as translated = the model's second pass** (`fillBlank getSafe`, index
from 0, `len(ps)` the length of the list itself), for inputs and outputs -/
theorem go_ensureNames_eq (fuel : Nat) (ps : List P) (d : Deduper) (isOutput : Bool)
    (hf : d.length + ps.length + 1 ≤ fuel) :
    Params.ensureNames fuel ps d isOutput = pure (fillBlank getSafe isOutput ps.length d 0 ps) := by
  unfold Params.ensureNames
  simp only [isBlank_eq, str_err, str_ctx]
  cases isOutput with
  | true =>
    simp only [if_true]
    rw [fill_loop fuel true ps.length (Go.str "ret") rfl ps [] d 0 hf]
    simp
  | false =>
    simp only [Bool.false_eq_true, if_false]
    rw [fill_loop fuel false ps.length (Go.str "arg") rfl ps [] d 0 hf]
    simp

theorem keepNamed_dlen : ∀ (ps : List P) (d : Deduper),
    (keepNamed getSafe d ps).2.length ≤ d.length + ps.length := by
  intro ps
  induction ps with
  | nil => intro d; simp [keepNamed]
  | cons p ps ih =>
    intro d
    simp only [keepNamed, List.length_cons]
    split
    · have := ih d; simp only; omega
    · have := ih (getSafe d p.name false).2
      rw [getSafe_length] at this
      simp only; omega

theorem genName_dlen (isOut : Bool) (len : Nat) (d : Deduper) (i : Nat) (p : P) :
    (genName getSafe isOut len d i p).2.length = d.length + 1 := by
  unfold genName
  split
  · exact getSafe_length _ _ _
  · split <;> exact getSafe_length _ _ _

theorem fillBlank_dlen (isOut : Bool) (len : Nat) : ∀ (ps : List P) (d : Deduper) (i : Nat),
    (fillBlank getSafe isOut len d i ps).2.length ≤ d.length + ps.length := by
  intro ps
  induction ps with
  | nil => intro d i; simp [fillBlank]
  | cons p ps ih =>
    intro d i
    simp only [fillBlank, List.length_cons]
    split
    · have := ih (genName getSafe isOut len d i p).2 (i + 1)
      rw [genName_dlen] at this
      simp only; omega
    · have := ih d (i + 1); simp only; omega

/-- **`(*Method).ensureParamNames` as translated = the model**, for every pair of parameter lists
and every fuel above `2·(|inputs| + |outputs|)`: the four passes run in the model's order on one
map made empty, no pass panics, every `for { … }` ends. -/
theorem go_ensureParamNames_eq (fuel : Nat) (ins outs : List P)
    (hf : 2 * (ins.length + outs.length) + 1 ≤ fuel) :
    Method.ensureParamNames fuel ins outs = pure (ensureParamNames ins outs) := by
  unfold Method.ensureParamNames ensureParamNames
  simp only [Go.simMake]
  have h1 := keepNamed_dlen ins []
  have h2 := keepNamed_dlen outs (keepNamed getSafe [] ins).2
  have l1 := keepNamed_length getSafe ins []
  have l2 := keepNamed_length getSafe outs (keepNamed getSafe [] ins).2
  have h3 := fillBlank_dlen false ins.length (keepNamed getSafe [] ins).1
    (keepNamed getSafe (keepNamed getSafe [] ins).2 outs).2 0
  simp only [List.length_nil, Nat.zero_add] at h1
  rw [go_keepUserNames_eq fuel ins [] (by simp only [List.length_nil]; omega)]
  simp only [pure_bind]
  rw [go_keepUserNames_eq fuel outs _ (by omega)]
  simp only [pure_bind]
  rw [go_ensureNames_eq fuel _ _ false (by omega)]
  simp only [pure_bind, l1]
  rw [go_ensureNames_eq fuel _ _ true (by rw [l1] at h3; omega)]
  simp only [pure_bind, l2]

/-- C19 (a) for the translated code: distinct names -/
theorem go_names_distinct (fuel : Nat) (ins outs : List P)
    (hf : 2 * (ins.length + outs.length) + 1 ≤ fuel) (hU : (userNames (ins ++ outs)).Nodup) :
    ∃ r, Method.ensureParamNames fuel ins outs = pure r ∧ (names r.1 ++ names r.2).Nodup :=
  ⟨_, go_ensureParamNames_eq fuel ins outs hf, names_distinct ins outs hU⟩

/-- C19 (a) for the translated code: user-chosen names stay where they are -/
theorem go_user_names_kept (fuel : Nat) (ins outs : List P)
    (hf : 2 * (ins.length + outs.length) + 1 ≤ fuel) (hU : (userNames (ins ++ outs)).Nodup) :
    ∃ r, Method.ensureParamNames fuel ins outs = pure r ∧
      (r.1.length = ins.length ∧
        ∀ (i : Nat) (p : P), ins[i]? = some p → blank p.name = false → r.1[i]? = some p) ∧
      (r.2.length = outs.length ∧
        ∀ (i : Nat) (p : P), outs[i]? = some p → blank p.name = false → r.2[i]? = some p) :=
  ⟨_, go_ensureParamNames_eq fuel ins outs hf, user_names_kept ins outs hU⟩

/-- C19 (a) for the translated code: every resulting name is a valid, non-blank identifier -/
theorem go_names_valid (fuel : Nat) (ins outs : List P)
    (hf : 2 * (ins.length + outs.length) + 1 ≤ fuel) (hU : (userNames (ins ++ outs)).Nodup)
    (hv : ∀ u ∈ userNames (ins ++ outs), ValidIdent u) :
    ∃ r, Method.ensureParamNames fuel ins outs = pure r ∧
      ∀ n ∈ names r.1 ++ names r.2, ValidIdent n :=
  ⟨_, go_ensureParamNames_eq fuel ins outs hf, names_valid ins outs hU hv⟩

/-- the hypotheses are satisfiable: `M(arg0 int, _ string, _ context.Context) (_ T, error)` with a
user parameter called `arg0` (the witness of the pinned commit's defect), fuel 20 -/
example :
    Method.ensureParamNames 20
        [⟨"arg0".toList, false, false⟩, ⟨"_".toList, false, false⟩, ⟨[], false, true⟩]
        [⟨[], false, false⟩, ⟨[], true, false⟩]
      = pure ([⟨"arg0".toList, false, false⟩, ⟨"arg1".toList, false, false⟩, ⟨"arg2".toList, false, true⟩],
              [⟨"ret0".toList, false, false⟩, ⟨"err".toList, true, false⟩]) := by
  rw [go_ensureParamNames_eq 20 _ _ (by decide)]
  exact congrArg pure (by decide)

end C19Tie

import Model.Genum
import Lemmas.Genum
/-! Technical lemmas about part 2 of `Model/Genum` (traits, the extended `Parse` switch, the
decoders). The property theorems are in `Properties/C05.lean` and `Properties/C12.lean`. -/
namespace Genum

/-! ### `mapM` in `Except` over a function that cannot fail -/

theorem mapM_ok_pure {α β ε : Type} (g : α → β) (l : List α) :
    l.mapM (fun a => (Except.ok (g a) : Except ε β)) = .ok (l.map g) := by
  induction l with
  | nil => rfl
  | cons x xs ih =>
    rw [List.mapM_cons, ih]
    rfl

/-! ### closed form of the current `Parse` switch -/

/-- the constant trait `t` contributes to the case of value `v` -/
def caseOne (v : Value) (t : TraitDesc) : List Dyn :=
  match t.instanceOf v with
  | some r => [r.dyn]
  | none => []

/-- the trait constants in the case of value `v`: one per parsable trait that has a row on the
line of `v` -/
def caseConsts (ts : List TraitDesc) (v : Value) : List Dyn :=
  ((ts.filter (fun t => t.parsable)).map (caseOne v)).flatten

theorem traitCaseOne_default (j : Nat) (v : Value) (t : TraitDesc) :
    traitCaseOne {} j v t = .ok (caseOne v t) := by
  unfold traitCaseOne caseOne
  simp only [Bool.false_eq_true, if_false]
  cases t.instanceOf v <;> rfl

theorem traitCaseConsts_default (ts : List TraitDesc) (j : Nat) (v : Value) :
    traitCaseConsts {} ts j v = .ok (caseConsts ts v) := by
  unfold traitCaseConsts caseConsts
  have : traitCaseOne {} j v = fun t => (Except.ok (caseOne v t) : Except GenFailure (List Dyn)) := by
    funext t; exact traitCaseOne_default j v t
  rw [this, mapM_ok_pure]
  rfl

/-- the case the current template renders for value `v` -/
def caseOf (ts : List TraitDesc) (v : Value) : ParseCase := ⟨Dyn.ofString v.name :: caseConsts ts v, v⟩

theorem parseCases_default (ts : List TraitDesc) (vs : List Value) :
    parseCases {} ts vs = .ok (vs.map (caseOf ts)) := by
  unfold parseCases
  have : (fun (p : Nat × Value) => (traitCaseConsts {} ts p.1 p.2).map (fun cs => (⟨Dyn.ofString p.2.name :: cs, p.2⟩ : ParseCase)))
      = fun p => (Except.ok (caseOf ts p.2) : Except GenFailure ParseCase) := by
    funext p
    rw [traitCaseConsts_default]
    rfl
  show List.mapM (fun (p : Nat × Value) => (traitCaseConsts {} ts p.1 p.2).map (fun cs => (⟨Dyn.ofString p.2.name :: cs, p.2⟩ : ParseCase))) _ = _
  rw [this, mapM_ok_pure]
  congr 1
  have h2 : ((List.range vs.length).zip vs).map Prod.snd = vs := List.map_snd_zip (by simp)
  calc List.map (fun p => caseOf ts p.snd) ((List.range vs.length).zip vs)
      = List.map (caseOf ts) (((List.range vs.length).zip vs).map Prod.snd) := by rw [List.map_map]; rfl
    _ = List.map (caseOf ts) vs := by rw [h2]

/-- what `genFull` returns, in closed form -/
theorem genFull_ok {o : Options} {f : FileDef} {t : TypeDecl} {g : GenFull} (h : genFull o f t = .ok g) :
    ∃ ts, genTraits {} o t.cols (sortedValues f t.name) = .ok ts ∧
      g = { base := { genType o f t.name with cases := (sortedValues f t.name).map (caseOf ts) }, traits := ts } ∧
      hasDupCase g = false := by
  unfold genFull genFullQ at h
  simp only [bind, Except.bind] at h
  split at h
  · cases h
  · rename_i ts hts
    rw [parseCases_default] at h
    simp only [] at h
    split at h
    · cases h
    · rename_i hd
      injection h with h
      subst h
      exact ⟨ts, hts, rfl, by simpa using hd⟩

end Genum

import Model.GConfig
/-!
# C03 — dimension resolution selects exactly the active branch

`reduceAny` (the mirror of the Go code) equals the specification `resolve` on every well-formed
document: any depth, any nesting order of dimensions, any number of registered dimensions.
-/
namespace GConfig

/-! ### the decision part: `classify` versus `switchDim`/`selectKey` -/

theorem keySet_eq (kvs : List (String × Y)) :
    keySet kvs = (nonDefaultKeys kvs, kvs.any (fun kv => kv.1 == defaultKey)) := rfl

/-- last key (in iteration order) that parses to the selected value -/
def lastMatch (d : Dim) (ks : List String) : Option String :=
  ks.foldl (fun acc k => if d.parse k == some d.sel then some k else acc) none

theorem foldl_lastMatch_none (d : Dim) (ks : List String) (acc : Option String)
    (h : ∀ k ∈ ks, (d.parse k == some d.sel) = false) :
    ks.foldl (fun acc k => if d.parse k == some d.sel then some k else acc) acc = acc := by
  induction ks generalizing acc with
  | nil => rfl
  | cons k ks ih =>
    simp only [List.foldl_cons]
    rw [h k (by simp)]
    exact ih acc (fun k' hk' => h k' (by simp [hk']))

/-- with pairwise different parse results, the last match is the first match -/
theorem lastMatch_eq_find (d : Dim) (ks : List String) (hu : uniqueParse d ks = true) :
    lastMatch d ks = ks.find? (fun k => d.parse k == some d.sel) := by
  unfold lastMatch
  induction ks with
  | nil => rfl
  | cons k ks ih =>
    simp only [uniqueParse, Bool.and_eq_true, List.all_eq_true] at hu
    simp only [List.foldl_cons, List.find?_cons]
    by_cases hk : (d.parse k == some d.sel) = true
    · simp only [hk, if_true]
      apply foldl_lastMatch_none
      intro k' hk'
      have h1 := hu.1 k' hk'
      have hk2 : d.parse k = some d.sel := by simpa using hk
      cases hp : (d.parse k' == some d.sel)
      · rfl
      · exfalso
        have : d.parse k' = some d.sel := by simpa using hp
        rw [this, hk2] at h1
        simp at h1
    · have hk' : (d.parse k == some d.sel) = false := by simpa using hk
      simp only [hk', Bool.false_eq_true, if_false]
      exact ih hu.2

/-- what `reduce(in, dims, i)` decides, in terms of the specification's predicates, for every
map that is not `{default: …}` alone -/
theorem classify1_spec (d : Dim) (kvs : List (String × Y))
    (hnd : ¬ ((nonDefaultKeys kvs).isEmpty = true ∧ kvs.any (fun kv => kv.1 == defaultKey) = true)) :
    classify1 d kvs =
      if isSwitchOf d kvs then
        (match lastMatch d (nonDefaultKeys kvs) with
         | some k => Red.follow k
         | none => if kvs.any (fun kv => kv.1 == defaultKey) then Red.followDefault else Red.broken)
      else Red.notReducible := by
  unfold classify1
  simp only [keySet_eq, isSwitchOf, lastMatch]
  by_cases he : (nonDefaultKeys kvs).isEmpty = true
  · have hd : kvs.any (fun kv => kv.1 == defaultKey) = false := by
      cases h : kvs.any (fun kv => kv.1 == defaultKey)
      · rfl
      · exact absurd ⟨he, h⟩ hnd
    simp [he, hd]
  · have he' : (nonDefaultKeys kvs).isEmpty = false := by simpa using he
    simp only [he', Bool.false_and, Bool.false_eq_true, if_false, Bool.not_false, Bool.true_and]
    by_cases hall : (nonDefaultKeys kvs).all (fun k => (d.parse k).isSome) = true
    · have hrem : ((nonDefaultKeys kvs).filter (fun k => (d.parse k).isNone)).isEmpty = true := by
        rw [List.isEmpty_iff, List.filter_eq_nil_iff]
        intro k hk
        have := (List.all_eq_true.1 hall) k hk
        cases hp : d.parse k <;> simp [hp] at this ⊢
      simp [hrem, hall]
      rfl
    · have hall' : (nonDefaultKeys kvs).all (fun k => (d.parse k).isSome) = false := by simpa using hall
      have hrem : ((nonDefaultKeys kvs).filter (fun k => (d.parse k).isNone)).isEmpty = false := by
        cases h : ((nonDefaultKeys kvs).filter (fun k => (d.parse k).isNone)).isEmpty
        · rfl
        · exfalso
          rw [List.isEmpty_iff, List.filter_eq_nil_iff] at h
          apply hall
          rw [List.all_eq_true]
          intro k hk
          have := h k hk
          cases hp : d.parse k <;> simp [hp] at this ⊢
      simp [hrem, hall']

/-- the decision for a switch of `d`, as the Go code takes it -/
def decision (d : Dim) (kvs : List (String × Y)) : Red :=
  match lastMatch d (nonDefaultKeys kvs) with
  | some k => Red.follow k
  | none => if kvs.any (fun kv => kv.1 == defaultKey) then Red.followDefault else Red.broken

theorem decision_ne (d : Dim) (kvs : List (String × Y)) : decision d kvs ≠ Red.notReducible := by
  unfold decision; split
  · simp
  · split <;> simp

/-- the loop over the registered dimensions finds the first dimension the map is a switch of -/
theorem classify_spec (dims : List Dim) (kvs : List (String × Y))
    (hnd : ¬ ((nonDefaultKeys kvs).isEmpty = true ∧ kvs.any (fun kv => kv.1 == defaultKey) = true)) :
    classify dims kvs =
      match switchDim dims kvs with
      | some d => decision d kvs
      | none => Red.notReducible := by
  unfold switchDim
  induction dims with
  | nil => simp [classify]
  | cons d ds ih =>
    simp only [classify, List.find?_cons]
    rw [classify1_spec d kvs hnd]
    by_cases hsw : isSwitchOf d kvs = true
    · simp only [hsw, if_true]
      have := decision_ne d kvs
      unfold decision at this ⊢
      split <;> simp_all
    · have hsw' : isSwitchOf d kvs = false := by simpa using hsw
      simp only [hsw', Bool.false_eq_true, if_false]
      exact ih

theorem plain_no_switch (dims : List Dim) (kvs : List (String × Y))
    (hp : kvs.all (fun kv => kv.1 != defaultKey && !parsesInSome dims kv.1) = true) :
    switchDim dims kvs = none := by
  unfold switchDim
  rw [List.find?_eq_none]
  intro d hd hsw
  simp only [isSwitchOf, Bool.and_eq_true, Bool.not_eq_eq_eq_not, Bool.not_true, List.all_eq_true] at hsw
  obtain ⟨hne, hall⟩ := hsw
  cases hk : nonDefaultKeys kvs with
  | nil => simp [hk] at hne
  | cons k ks =>
    have hkm : k ∈ nonDefaultKeys kvs := by simp [hk]
    have hps := hall k hkm
    simp only [nonDefaultKeys, List.mem_filter, List.mem_map] at hkm
    obtain ⟨⟨kv, hkv, rfl⟩, _⟩ := hkm
    have := (List.all_eq_true.1 hp) kv hkv
    simp only [Bool.and_eq_true, Bool.not_eq_eq_eq_not, Bool.not_true] at this
    have h2 := this.2
    simp only [parsesInSome, List.any_eq_false] at h2
    have := h2 d hd
    simp [this] at hps

/-- what well-formedness of a map's keys gives -/
theorem wfKeys_cases (dims : List Dim) (kvs : List (String × Y)) (h : wfKeys dims kvs = true) :
    (switchDim dims kvs = none ∧
      ¬ ((nonDefaultKeys kvs).isEmpty = true ∧ kvs.any (fun kv => kv.1 == defaultKey) = true)) ∨
    (∃ d, switchDim dims kvs = some d ∧ uniqueParse d (nonDefaultKeys kvs) = true ∧
      ¬ ((nonDefaultKeys kvs).isEmpty = true ∧ kvs.any (fun kv => kv.1 == defaultKey) = true)) := by
  simp only [wfKeys, Bool.and_eq_true, Bool.or_eq_true] at h
  obtain ⟨_, h⟩ := h
  rcases h with hp | hs
  · left
    refine ⟨plain_no_switch dims kvs hp, ?_⟩
    rintro ⟨_, hd⟩
    rw [List.any_eq_true] at hd
    obtain ⟨kv, hkv, hkd⟩ := hd
    have := (List.all_eq_true.1 hp) kv hkv
    simp only [Bool.and_eq_true, bne_iff_ne, ne_eq] at this
    exact this.1 (by simpa using hkd)
  · right
    cases hsd : switchDim dims kvs with
    | none => simp [hsd] at hs
    | some d =>
      refine ⟨d, rfl, by simpa [hsd] using hs, ?_⟩
      rintro ⟨he, _⟩
      have hsw := List.find?_some (by simpa [switchDim] using hsd)
      simp [isSwitchOf, he] at hsw

/-- the map case, given the induction hypotheses for the entries -/
theorem reduce_map_eq (dims : List Dim) (kvs : List (String × Y)) (hk : wfKeys dims kvs = true)
    (ihk : reduceKVs dims kvs = resolveKVs dims kvs)
    (iha : ∀ key, reduceAt dims kvs key = resolveAt dims kvs key) :
    reduceAny dims (.map kvs) = resolve dims (.map kvs) := by
  rw [reduceAny, resolve]
  rcases wfKeys_cases dims kvs hk with ⟨hnone, hnd⟩ | ⟨d, hsome, hu, hnd⟩
  · rw [classify_spec dims kvs hnd, hnone]
    simp [ihk]
  · rw [classify_spec dims kvs hnd, hsome]
    simp only [decision, selectKey, lastMatch_eq_find d _ hu]
    cases hf : (nonDefaultKeys kvs).find? (fun k => d.parse k == some d.sel) with
    | some k => simp [iha]
    | none =>
      cases hd : kvs.any (fun kv => kv.1 == defaultKey) <;> simp [iha]

mutual
  /-- **C03**: on every well-formed document the reduction performed by the code is the
  resolution the property describes (`none` = loading fails). -/
  theorem reduce_eq_resolve (dims : List Dim) : ∀ (y : Y), WF dims y = true → reduceAny dims y = resolve dims y
    | .map kvs, h => by
      simp only [WF, Bool.and_eq_true] at h
      exact reduce_map_eq dims kvs h.1 (reduceKVs_eq dims kvs h.2) (fun key => reduceAt_eq dims kvs key h.2)
    | .list xs, h => by
      simp only [WF] at h
      rw [reduceAny, resolve, reduceList_eq dims xs h]
    | .null, _ => by simp [reduceAny, resolve]
    | .str _, _ => by simp [reduceAny, resolve]
    | .int _, _ => by simp [reduceAny, resolve]
    | .bool _, _ => by simp [reduceAny, resolve]
  theorem reduceList_eq (dims : List Dim) : ∀ (xs : List Y), wfList dims xs = true → reduceList dims xs = resolveList dims xs
    | [], _ => by simp [reduceList, resolveList]
    | x :: xs, h => by
      simp only [wfList, Bool.and_eq_true] at h
      rw [reduceList, resolveList, reduce_eq_resolve dims x h.1, reduceList_eq dims xs h.2]
  theorem reduceKVs_eq (dims : List Dim) : ∀ (kvs : List (String × Y)), wfKVs dims kvs = true → reduceKVs dims kvs = resolveKVs dims kvs
    | [], _ => by simp [reduceKVs, resolveKVs]
    | (k, v) :: rest, h => by
      simp only [wfKVs, Bool.and_eq_true] at h
      rw [reduceKVs, resolveKVs, reduce_eq_resolve dims v h.1, reduceKVs_eq dims rest h.2]
  theorem reduceAt_eq (dims : List Dim) : ∀ (kvs : List (String × Y)) (key : String), wfKVs dims kvs = true →
      reduceAt dims kvs key = resolveAt dims kvs key
    | [], _, _ => by simp [reduceAt, resolveAt]
    | (k, v) :: rest, key, h => by
      simp only [wfKVs, Bool.and_eq_true] at h
      rw [reduceAt, resolveAt, reduce_eq_resolve dims v h.1, reduceAt_eq dims rest key h.2]
end

/-- `FromBytes` on a well-formed document succeeds with data `m` exactly when the document
resolves to the map `m` (it fails when a selected branch is missing or the result is no map). -/
theorem fromBytes_iff (dims : List Dim) (y : Y) (h : WF dims y = true) (m : List (String × Y)) :
    fromBytes dims y = some m ↔ resolve dims y = some (.map m) := by
  unfold fromBytes
  rw [reduce_eq_resolve dims y h]
  cases hr : resolve dims y with
  | none => simp
  | some r => cases r <;> simp

/-- `Get` walks dotted key paths: `extract` is path lookup in the tree (non-empty paths). -/
theorem get_eq_lookup (m : List (String × Y)) (k : String) (ks : List String) :
    extract m (k :: ks) = lookupPath (.map m) (k :: ks) := by
  induction ks generalizing m k with
  | nil =>
    simp only [extract, lookupPath]
    cases lookupKey m k <;> simp [lookupPath]
  | cons k' ks ih =>
    simp only [extract, lookupPath]
    cases hl : lookupKey m k with
    | none => rfl
    | some v =>
      cases v with
      | map m' => simp only; rw [ih]
      | _ => simp [lookupPath]

/-- A dimension-keyed map with neither the selected value nor a `default`: loading fails
instead of yielding another branch or the raw map. -/
theorem missing_branch_errors (dims : List Dim) (kvs : List (String × Y)) (d : Dim)
    (hwf : WF dims (.map kvs) = true) (hsw : switchDim dims kvs = some d)
    (hsel : ∀ k ∈ nonDefaultKeys kvs, d.parse k ≠ some d.sel)
    (hdef : kvs.any (fun kv => kv.1 == defaultKey) = false) :
    reduceAny dims (.map kvs) = none := by
  rw [reduce_eq_resolve dims _ hwf, resolve, hsw]
  have : selectKey d kvs = none := by
    unfold selectKey
    have : (nonDefaultKeys kvs).find? (fun k => d.parse k == some d.sel) = none := by
      rw [List.find?_eq_none]
      intro k hk; simpa using hsel k hk
    simp [this, hdef]
  simp [this]

theorem resolveKVs_none (dims : List Dim) (kvs : List (String × Y)) (k : String) (v : Y)
    (hm : (k, v) ∈ kvs) (hv : resolve dims v = none) : resolveKVs dims kvs = none := by
  induction kvs with
  | nil => simp at hm
  | cons kv rest ih =>
    obtain ⟨k', v'⟩ := kv
    simp only [List.mem_cons] at hm
    rw [resolveKVs]
    rcases hm with h | h
    · cases h; simp [hv]
    · rw [ih h]; cases resolve dims v' <;> rfl

/-- an error anywhere below a plain map propagates: the map fails when a child fails -/
theorem plain_child_error (dims : List Dim) (kvs : List (String × Y))
    (hsw : switchDim dims kvs = none) (k : String) (v : Y) (hm : (k, v) ∈ kvs)
    (hv : resolve dims v = none) : resolve dims (.map kvs) = none := by
  rw [resolve, hsw]
  simp [resolveKVs_none dims kvs k v hm hv]

/-! ### the resolved tree contains no dimension-keyed map any more -/

mutual
  /-- no map inside `y` is a switch of a registered dimension -/
  def noSwitch (dims : List Dim) : Y → Bool
    | .map kvs => (switchDim dims kvs).isNone && noSwitchKVs dims kvs
    | .list xs => noSwitchList dims xs
    | _ => true
  def noSwitchList (dims : List Dim) : List Y → Bool
    | [] => true
    | x :: xs => noSwitch dims x && noSwitchList dims xs
  def noSwitchKVs (dims : List Dim) : List (String × Y) → Bool
    | [] => true
    | (_, v) :: rest => noSwitch dims v && noSwitchKVs dims rest
end

theorem resolveKVs_keys (dims : List Dim) : ∀ (kvs r : List (String × Y)),
    resolveKVs dims kvs = some r → r.map (·.1) = kvs.map (·.1)
  | [], r, h => by simp [resolveKVs] at h; subst h; rfl
  | (k, v) :: rest, r, h => by
    rw [resolveKVs] at h
    cases hv : resolve dims v with
    | none => simp [hv] at h
    | some v' =>
      cases hr : resolveKVs dims rest with
      | none => simp [hv, hr] at h
      | some rest' =>
        simp [hv, hr] at h; subst h
        simp [resolveKVs_keys dims rest rest' hr]

theorem switchDim_congr_keys (dims : List Dim) (kvs kvs' : List (String × Y))
    (h : kvs'.map (·.1) = kvs.map (·.1)) : switchDim dims kvs' = switchDim dims kvs := by
  unfold switchDim
  congr 1
  funext d
  simp only [isSwitchOf, nonDefaultKeys, h]

mutual
  /-- Every dimension-keyed map is replaced: the tree `Get` reads from contains none. -/
  theorem resolve_noSwitch (dims : List Dim) : ∀ (y r : Y), resolve dims y = some r → noSwitch dims r = true
    | .map kvs, r, h => by
      rw [resolve] at h
      cases hs : switchDim dims kvs with
      | some d =>
        simp only [hs] at h
        cases hk : selectKey d kvs with
        | none => simp [hk] at h
        | some key => simp only [hk] at h; exact resolveAt_noSwitch dims kvs key r h
      | none =>
        simp only [hs] at h
        cases hr : resolveKVs dims kvs with
        | none => simp [hr] at h
        | some kvs' =>
          simp [hr] at h; subst h
          simp only [noSwitch, Bool.and_eq_true]
          refine ⟨?_, resolveKVs_noSwitch dims kvs kvs' hr⟩
          rw [switchDim_congr_keys dims kvs kvs' (resolveKVs_keys dims kvs kvs' hr), hs]; rfl
    | .list xs, r, h => by
      rw [resolve] at h
      cases hr : resolveList dims xs with
      | none => simp [hr] at h
      | some xs' => simp [hr] at h; subst h; simpa [noSwitch] using resolveList_noSwitch dims xs xs' hr
    | .null, r, h => by simp [resolve] at h; subst h; rfl
    | .str _, r, h => by simp [resolve] at h; subst h; rfl
    | .int _, r, h => by simp [resolve] at h; subst h; rfl
    | .bool _, r, h => by simp [resolve] at h; subst h; rfl
  theorem resolveList_noSwitch (dims : List Dim) : ∀ (xs r : List Y), resolveList dims xs = some r → noSwitchList dims r = true
    | [], r, h => by simp [resolveList] at h; subst h; rfl
    | x :: xs, r, h => by
      rw [resolveList] at h
      cases hx : resolve dims x with
      | none => simp [hx] at h
      | some x' =>
        cases hr : resolveList dims xs with
        | none => simp [hx, hr] at h
        | some xs' =>
          simp [hx, hr] at h; subst h
          simp [noSwitchList, resolve_noSwitch dims x x' hx, resolveList_noSwitch dims xs xs' hr]
  theorem resolveKVs_noSwitch (dims : List Dim) : ∀ (kvs r : List (String × Y)), resolveKVs dims kvs = some r → noSwitchKVs dims r = true
    | [], r, h => by simp [resolveKVs] at h; subst h; rfl
    | (k, v) :: rest, r, h => by
      rw [resolveKVs] at h
      cases hv : resolve dims v with
      | none => simp [hv] at h
      | some v' =>
        cases hr : resolveKVs dims rest with
        | none => simp [hv, hr] at h
        | some rest' =>
          simp [hv, hr] at h; subst h
          simp [noSwitchKVs, resolve_noSwitch dims v v' hv, resolveKVs_noSwitch dims rest rest' hr]
  theorem resolveAt_noSwitch (dims : List Dim) : ∀ (kvs : List (String × Y)) (key : String) (r : Y),
      resolveAt dims kvs key = some r → noSwitch dims r = true
    | [], _, r, h => by simp [resolveAt] at h
    | (k, v) :: rest, key, r, h => by
      rw [resolveAt] at h
      split at h
      · exact resolve_noSwitch dims v r h
      · exact resolveAt_noSwitch dims rest key r h
end

/-- … hence also the tree the code builds (on well-formed documents). -/
theorem reduce_noSwitch (dims : List Dim) (y r : Y) (hwf : WF dims y = true)
    (h : reduceAny dims y = some r) : noSwitch dims r = true :=
  resolve_noSwitch dims y r (by rw [← reduce_eq_resolve dims y hwf]; exact h)

/-! ### the result does not depend on the order in which Go iterates a map -/

theorem any_perm {α : Type} (p : α → Bool) {l l' : List α} (h : l.Perm l') : l.any p = l'.any p := by
  rw [Bool.eq_iff_iff, List.any_eq_true, List.any_eq_true]
  constructor <;> rintro ⟨x, hx, hp⟩
  · exact ⟨x, h.mem_iff.1 hx, hp⟩
  · exact ⟨x, h.mem_iff.2 hx, hp⟩

theorem all_perm {α : Type} (p : α → Bool) {l l' : List α} (h : l.Perm l') : l.all p = l'.all p := by
  rw [Bool.eq_iff_iff, List.all_eq_true, List.all_eq_true]
  constructor <;> intro hx x hm
  · exact hx x (h.mem_iff.2 hm)
  · exact hx x (h.mem_iff.1 hm)

theorem uniqueParse_iff (d : Dim) (ks : List String) :
    uniqueParse d ks = true ↔ ks.Pairwise (fun a b => d.parse b ≠ d.parse a) := by
  induction ks with
  | nil => simp [uniqueParse]
  | cons k ks ih =>
    simp only [uniqueParse, Bool.and_eq_true, List.all_eq_true, List.pairwise_cons, ih]
    constructor
    · rintro ⟨h1, h2⟩; exact ⟨fun a ha => by simpa using h1 a ha, h2⟩
    · rintro ⟨h1, h2⟩; exact ⟨fun a ha => by simpa using h1 a ha, h2⟩

theorem find_unique_perm (d : Dim) {ks ks' : List String} (hp : ks.Perm ks')
    (hu : ks.Pairwise (fun a b => d.parse b ≠ d.parse a)) :
    ks.find? (fun k => d.parse k == some d.sel) = ks'.find? (fun k => d.parse k == some d.sel) := by
  have hu' : ks'.Pairwise (fun a b => d.parse b ≠ d.parse a) :=
    (hp.pairwise_iff (fun h => fun e => h e.symm)).1 hu
  -- at most one key of a pairwise-different list parses to the selected value
  have uniq : ∀ (l : List String), l.Pairwise (fun a b => d.parse b ≠ d.parse a) →
      ∀ a ∈ l, ∀ b ∈ l, d.parse a = some d.sel → d.parse b = some d.sel → a = b := by
    intro l hl
    induction l with
    | nil => intro a ha; simp at ha
    | cons x xs ih =>
      rw [List.pairwise_cons] at hl
      intro a ha b hb pa pb
      simp only [List.mem_cons] at ha hb
      rcases ha with rfl | ha <;> rcases hb with rfl | hb
      · rfl
      · exact absurd (pb.trans pa.symm) (hl.1 b hb)
      · exact absurd (pa.trans pb.symm) (hl.1 a ha)
      · exact ih hl.2 a ha b hb pa pb
  cases h1 : ks.find? (fun k => d.parse k == some d.sel) with
  | none =>
    symm
    rw [List.find?_eq_none] at h1 ⊢
    intro x hx; exact h1 x (hp.mem_iff.2 hx)
  | some a =>
    have ha : a ∈ ks := List.mem_of_find?_eq_some h1
    have pa : d.parse a = some d.sel := by simpa using List.find?_some h1
    cases h2 : ks'.find? (fun k => d.parse k == some d.sel) with
    | none =>
      rw [List.find?_eq_none] at h2
      exact absurd (by simpa using pa) (h2 a (hp.mem_iff.1 ha))
    | some b =>
      have hb : b ∈ ks' := List.mem_of_find?_eq_some h2
      have pb : d.parse b = some d.sel := by simpa using List.find?_some h2
      rw [uniq ks' hu' a (hp.mem_iff.1 ha) b hb pa pb]

/-- The decision `reduce` takes for a map does not depend on the order in which the Go runtime
iterates the map (any permutation of the entries gives the same decision). -/
theorem classify1_order_independent (d : Dim) (kvs kvs' : List (String × Y)) (hp : kvs.Perm kvs')
    (hu : uniqueParse d (nonDefaultKeys kvs) = true)
    (hnd : ¬ ((nonDefaultKeys kvs).isEmpty = true ∧ kvs.any (fun kv => kv.1 == defaultKey) = true)) :
    classify1 d kvs = classify1 d kvs' := by
  have hk : (nonDefaultKeys kvs).Perm (nonDefaultKeys kvs') := (hp.map _).filter _
  have hany := any_perm (fun kv : String × Y => kv.1 == defaultKey) hp
  have hu' : uniqueParse d (nonDefaultKeys kvs') = true :=
    (uniqueParse_iff d _).2 ((hk.pairwise_iff (fun h => fun e => h e.symm)).1 ((uniqueParse_iff d _).1 hu))
  have hnd' : ¬ ((nonDefaultKeys kvs').isEmpty = true ∧ kvs'.any (fun kv => kv.1 == defaultKey) = true) := by
    rw [← hk.isEmpty_eq, ← hany]; exact hnd
  rw [classify1_spec d kvs hnd, classify1_spec d kvs' hnd']
  have hsw : isSwitchOf d kvs = isSwitchOf d kvs' := by
    simp only [isSwitchOf, hk.isEmpty_eq, all_perm _ hk]
  rw [hsw, lastMatch_eq_find d _ hu, lastMatch_eq_find d _ hu',
    find_unique_perm d hk ((uniqueParse_iff d _).1 hu), hany]

/-! ### dimension selection through the builder default and the environment -/

theorem selectDim_default (names : List String) (dflt : Nat) (env : String → Option String) (flag : String)
    (h1 : env flag = none) (h2 : env (upper flag) = none) (h3 : env flag.toLower = none) :
    selectDim names dflt env flag = some dflt := by
  simp [selectDim, lookupEnv, h1, h2, h3]

theorem selectDim_env_exact (names : List String) (dflt : Nat) (env : String → Option String) (flag v : String)
    (h1 : env flag = some v) :
    selectDim names dflt env flag = ({ names := names, sel := 0 } : Dim).parse v := by
  simp [selectDim, lookupEnv, h1]

theorem selectDim_env_upper (names : List String) (dflt : Nat) (env : String → Option String) (flag v : String)
    (h1 : env flag = none) (h2 : env (upper flag) = some v) :
    selectDim names dflt env flag = ({ names := names, sel := 0 } : Dim).parse v := by
  simp [selectDim, lookupEnv, h1, h2]

theorem selectDim_env_lower (names : List String) (dflt : Nat) (env : String → Option String) (flag v : String)
    (h1 : env flag = none) (h2 : env (upper flag) = none) (h3 : env flag.toLower = some v) :
    selectDim names dflt env flag = ({ names := names, sel := 0 } : Dim).parse v := by
  simp [selectDim, lookupEnv, h1, h2, h3]

/-- non-vacuity: the shape of the repository's own `test.yaml` (a d2 switch outside a d1 switch,
a switch inside a list, an empty map, a same-dimension switch below a selected branch) is
well-formed, loads, and `Get` finds the selected leaves. -/
def exDims : List Dim := [⟨["D1a", "D1b", "D1c"], 1⟩, ⟨["D2a", "D2b"], 0⟩]
def exDoc : Y := .map [
  ("v1", .map [("D2a", .map [("d1b", .str "a-b"), ("default", .str "a-def")]), ("default", .str "def")]),
  ("v3", .list [.str "i", .map [("default", .str "x"), ("D1a", .str "y")]]),
  ("e", .map []),
  ("deep", .map [("D1b", .map [("k", .map [("D1B", .int 7), ("D1c", .int 8)])])])]
example : WF exDims exDoc = true := by decide +kernel
example : (match (fromBytes exDims exDoc).bind (fun m => extract m ["v1"]) with
    | some (.str s) => s == "a-b" | _ => false) = true := by decide +kernel
example : (match (fromBytes exDims exDoc).bind (fun m => extract m ["deep", "k"]) with
    | some (.int n) => n == 7 | _ => false) = true := by decide +kernel
example : (match (fromBytes exDims exDoc).bind (fun m => extract m ["e"]) with
    | some (.map []) => true | _ => false) = true := by decide +kernel

end GConfig

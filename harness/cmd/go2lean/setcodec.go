// go2lean -spec setcodec: translation of the four codec methods of set/set.go -
// MarshalJSON, UnmarshalJSON, MarshalYAML, UnmarshalYAML (property C17).  They are glue around
// external codecs: `s.Slice()` and `s.Add(v...)` go through the TRANSLATED Set.Slice / Set.Add of
// Generated/GoSet.lean, json.Marshal / json.Unmarshal / (*yaml.Node).Decode are parameters (`Env`):
// arbitrary functions from what they are given to (result, "error is not nil").
//
// Fragment: `v := s.Slice()`, `var v []T`, `v := []T{}`, `err := call`, `if err := call; err != nil
// { return err }`, `if err != nil { return err }`, `s.Add(v...)`, `return …`.  An `error` is the Bool
// "is not nil"; a pointer-receiver method returns the receiver's new value first.  Anything else
// makes the translator fail.
package main

import (
	"fmt"
	"go/ast"
	"go/parser"
	"go/token"
	"os"
	"path/filepath"
	"strings"
)

func init() { register("setcodec", "../lean/Generated/GoSetCodec.lean", runSetCodec) }

type sct struct {
	env  map[string]string // variable -> kind: set | slice | err | data | node
	out  strings.Builder
	n    int
	fn   string
	recv string
	ptr  bool
	rets []string // kinds of the results: bytes|any(slice) , err
}

func (t *sct) line(ind int, s string) { t.out.WriteString(strings.Repeat("  ", ind) + s + "\n") }
func (t *sct) bad(n ast.Node, what string) {
	fail("setcodec: %s (%s): %s `%s` is outside the translated fragment", at(n), t.fn, what, src(n))
}
func (t *sct) fresh(p string) string { t.n++; return fmt.Sprintf("%s%d", p, t.n) }

// addrOf: `&v` for a slice variable v
func (t *sct) addrOf(e ast.Expr) string {
	u, ok := e.(*ast.UnaryExpr)
	if !ok || u.Op != token.AND {
		t.bad(e, "argument")
	}
	id, ok := u.X.(*ast.Ident)
	if !ok || t.env[id.Name] != "slice" {
		t.bad(e, "argument")
	}
	return id.Name
}

// extCall: the external calls; returns (lines producing a pair/a value, name of the error component, name of the value component)
// kind "into": decodes INTO the slice variable `tgt` and returns an error
func (t *sct) extCall(ind int, c *ast.CallExpr) (kind, val, errv string) {
	f := src(c.Fun)
	switch {
	case f == "json.Marshal" && len(c.Args) == 1:
		id, ok := c.Args[0].(*ast.Ident)
		if !ok || t.env[id.Name] != "slice" {
			t.bad(c, "call")
		}
		p := t.fresh("p")
		t.line(ind, "let "+p+" := env.jsonMarshal "+name(id.Name))
		return "bytes", p + ".1", p + ".2"
	case f == "json.Unmarshal" && len(c.Args) == 2:
		d, ok := c.Args[0].(*ast.Ident)
		if !ok || t.env[d.Name] != "data" {
			t.bad(c, "call")
		}
		tgt := t.addrOf(c.Args[1])
		p := t.fresh("p")
		t.line(ind, "let "+p+" := env.jsonUnmarshal "+name(d.Name)+" "+name(tgt))
		t.line(ind, name(tgt)+" := "+p+".1")
		return "into", "", p + ".2"
	case strings.HasSuffix(f, ".Decode") && len(c.Args) == 1:
		sel := c.Fun.(*ast.SelectorExpr)
		d, ok := sel.X.(*ast.Ident)
		if !ok || t.env[d.Name] != "node" {
			t.bad(c, "call")
		}
		tgt := t.addrOf(c.Args[0])
		p := t.fresh("p")
		t.line(ind, "let "+p+" := env.yamlDecode "+name(d.Name)+" "+name(tgt))
		t.line(ind, name(tgt)+" := "+p+".1")
		return "into", "", p + ".2"
	}
	t.bad(c, "call")
	return
}

func (t *sct) retVals(x *ast.ReturnStmt) []string {
	if len(x.Results) != len(t.rets) {
		t.bad(x, "return")
	}
	var vs []string
	for i, r := range x.Results {
		want := t.rets[i]
		switch e := r.(type) {
		case *ast.Ident:
			switch {
			case e.Name == "nil" && want == "err":
				vs = append(vs, "false")
			case t.env[e.Name] == want:
				vs = append(vs, name(e.Name))
			default:
				t.bad(r, "result")
			}
		default:
			t.bad(r, "result")
		}
	}
	return vs
}

func (t *sct) emitReturn(ind int, vs []string) {
	if t.ptr {
		vs = append([]string{name(t.recv)}, vs...)
	}
	s := strings.Join(vs, ", ")
	if len(vs) > 1 {
		s = "(" + s + ")"
	}
	t.line(ind, "return "+s)
}

// sliceCall: `s.Slice()` on the receiver
func (t *sct) isSliceCall(e ast.Expr) bool {
	c, ok := e.(*ast.CallExpr)
	if !ok || len(c.Args) != 0 {
		return false
	}
	sel, ok := c.Fun.(*ast.SelectorExpr)
	if !ok || sel.Sel.Name != "Slice" {
		return false
	}
	id, ok := sel.X.(*ast.Ident)
	return ok && id.Name == t.recv
}

func (t *sct) stmt(ind int, s ast.Stmt) {
	switch x := s.(type) {
	case *ast.DeclStmt:
		gd, ok := x.Decl.(*ast.GenDecl)
		if ok && gd.Tok == token.VAR && len(gd.Specs) == 1 {
			vs := gd.Specs[0].(*ast.ValueSpec)
			if len(vs.Names) == 1 && len(vs.Values) == 0 && src(vs.Type) == "[]T" {
				t.env[vs.Names[0].Name] = "slice"
				t.line(ind, "let mut "+name(vs.Names[0].Name)+" : Go.Slice α := Go.sliceNil")
				return
			}
		}
	case *ast.AssignStmt:
		if x.Tok == token.DEFINE && len(x.Lhs) == 1 && len(x.Rhs) == 1 {
			id, ok := x.Lhs[0].(*ast.Ident)
			if !ok {
				break
			}
			if t.isSliceCall(x.Rhs[0]) {
				t.env[id.Name] = "slice"
				t.line(ind, "let mut "+name(id.Name)+" : Go.Slice α ← Generated.GoSet.Set.Slice "+name(t.recv))
				return
			}
			if cl, ok := x.Rhs[0].(*ast.CompositeLit); ok && src(cl.Type) == "[]T" && len(cl.Elts) == 0 {
				t.env[id.Name] = "slice"
				t.line(ind, "let mut "+name(id.Name)+" : Go.Slice α := some []")
				return
			}
			if c, ok := x.Rhs[0].(*ast.CallExpr); ok {
				k, _, e := t.extCall(ind, c)
				if k == "into" {
					t.env[id.Name] = "err"
					t.line(ind, "let mut "+name(id.Name)+" : Bool := "+e)
					return
				}
			}
		}
	case *ast.IfStmt:
		if x.Else != nil || len(x.Body.List) != 1 {
			break
		}
		r, ok := x.Body.List[0].(*ast.ReturnStmt)
		if !ok {
			break
		}
		saved := map[string]string{}
		for k, v := range t.env {
			saved[k] = v
		}
		if x.Init != nil {
			as, ok := x.Init.(*ast.AssignStmt)
			if !ok || as.Tok != token.DEFINE || len(as.Lhs) != 1 || len(as.Rhs) != 1 {
				break
			}
			id, ok1 := as.Lhs[0].(*ast.Ident)
			c, ok2 := as.Rhs[0].(*ast.CallExpr)
			if !ok1 || !ok2 {
				break
			}
			k, _, e := t.extCall(ind, c)
			if k != "into" {
				break
			}
			t.env[id.Name] = "err"
			t.line(ind, "let "+name(id.Name)+" : Bool := "+e)
		}
		// condition: `<err> != nil`
		b, ok := x.Cond.(*ast.BinaryExpr)
		if !ok || b.Op != token.NEQ || src(b.Y) != "nil" {
			break
		}
		ce, ok := b.X.(*ast.Ident)
		if !ok || t.env[ce.Name] != "err" {
			break
		}
		t.line(ind, "if "+name(ce.Name)+" then")
		t.emitReturn(ind+1, t.retVals(r))
		t.env = saved
		if x.Init == nil {
			return
		}
		return
	case *ast.ExprStmt:
		// s.Add(v...)
		c, ok := x.X.(*ast.CallExpr)
		if ok && c.Ellipsis.IsValid() && len(c.Args) == 1 {
			sel, ok1 := c.Fun.(*ast.SelectorExpr)
			a, ok2 := c.Args[0].(*ast.Ident)
			if ok1 && ok2 && sel.Sel.Name == "Add" && src(sel.X) == t.recv && t.ptr && t.env[a.Name] == "slice" {
				r := t.fresh("r")
				t.line(ind, "let "+r+" ← Generated.GoSet.Set.Add "+name(t.recv)+" (Go.sliceElems "+name(a.Name)+")")
				t.line(ind, name(t.recv)+" := "+r+".1")
				return
			}
		}
	case *ast.ReturnStmt:
		// `return json.Marshal(v)`
		if len(x.Results) == 1 && len(t.rets) == 2 {
			if c, ok := x.Results[0].(*ast.CallExpr); ok {
				k, v, e := t.extCall(ind, c)
				if k == "bytes" && t.rets[0] == "bytes" {
					t.emitReturn(ind, []string{v, e})
					return
				}
			}
			break
		}
		// `return s.Slice(), nil`
		if len(x.Results) == 2 && t.isSliceCall(x.Results[0]) && t.rets[0] == "slice" && src(x.Results[1]) == "nil" {
			v := t.fresh("v")
			t.line(ind, "let "+v+" ← Generated.GoSet.Set.Slice "+name(t.recv))
			t.emitReturn(ind, []string{v, "false"})
			return
		}
		t.emitReturn(ind, t.retVals(x))
		return
	}
	t.bad(s, "statement")
}

func runSetCodec(repo, out string) {
	file, err := parser.ParseFile(fset, filepath.Join(repo, "set/set.go"), nil, 0)
	if err != nil {
		fail("%v", err)
	}
	decls := map[string]*ast.FuncDecl{}
	for _, d := range file.Decls {
		if fd, ok := d.(*ast.FuncDecl); ok && fd.Recv != nil && len(fd.Recv.List) == 1 {
			decls[fd.Name.Name] = fd
		}
	}
	var b strings.Builder
	b.WriteString("import Generated.GoSet\n")
	b.WriteString("/-! REGENERATED on every run by harness/cmd/go2lean -spec setcodec from set/set.go (MarshalJSON, UnmarshalJSON,\nMarshalYAML, UnmarshalYAML).  Do not edit.  One Lean statement per Go statement; `s.Slice()` and `s.Add(v...)` are the\nTRANSLATED methods of Generated/GoSet.lean; an `error` is the Bool \"is not nil\"; a pointer-receiver method returns the\nreceiver's new value first.  json.Marshal, json.Unmarshal(data, &v) and (*yaml.Node).Decode(&v) are parameters. -/\nnamespace Generated.GoSetCodec\nvariable {α β ν : Type} [DecidableEq α] [Inhabited α]\n\n")
	b.WriteString("/-- the external codecs: `jsonMarshal v` = (bytes, err), `jsonUnmarshal data v` / `yamlDecode node v` = (new contents\nof v, err) -/\nstructure Env (α β ν : Type) where\n  jsonMarshal : Go.Slice α → β × Bool\n  jsonUnmarshal : β → Go.Slice α → Go.Slice α × Bool\n  yamlDecode : ν → Go.Slice α → Go.Slice α × Bool\n\n")
	type fn struct {
		name, recv, params, results string
		ptr                         bool
		env                         map[string]string
		rets                        []string
		sig, retTy                  string
	}
	for _, f := range []fn{
		{"MarshalJSON", "s Set[T]", "", "[]byte, error", false, map[string]string{}, []string{"bytes", "err"},
			"(env : Env α β ν) (s : Go.GMap α)", "β × Bool"},
		{"UnmarshalJSON", "s *Set[T]", "data []byte", "error", true, map[string]string{"data": "data"}, []string{"err"},
			"(env : Env α β ν) (s : Go.GMap α) (data : β)", "Go.GMap α × Bool"},
		{"MarshalYAML", "s Set[T]", "", "any, error", false, map[string]string{}, []string{"slice", "err"},
			"(s : Go.GMap α)", "Go.Slice α × Bool"},
		{"UnmarshalYAML", "s *Set[T]", "value *yaml.Node", "error", true, map[string]string{"value": "node"}, []string{"err"},
			"(env : Env α β ν) (s : Go.GMap α) (value : ν)", "Go.GMap α × Bool"},
	} {
		fd := decls[f.name]
		if fd == nil {
			fail("setcodec: method %s not found", f.name)
		}
		r := fd.Recv.List[0]
		if len(r.Names) != 1 || r.Names[0].Name+" "+src(r.Type) != f.recv {
			fail("setcodec: %s has receiver (%s), the translation assumes (%s)", f.name, src(r), f.recv)
		}
		var ps, rs []string
		for _, p := range fd.Type.Params.List {
			for _, n := range p.Names {
				ps = append(ps, n.Name+" "+src(p.Type))
			}
		}
		if fd.Type.Results != nil {
			for _, r := range fd.Type.Results.List {
				if len(r.Names) > 0 {
					fail("setcodec: %s has named results", f.name)
				}
				rs = append(rs, src(r.Type))
			}
		}
		if strings.Join(ps, ", ") != f.params || strings.Join(rs, ", ") != f.results {
			fail("setcodec: %s is (%s) (%s), the translation assumes (%s) (%s)", f.name, strings.Join(ps, ", "), strings.Join(rs, ", "), f.params, f.results)
		}
		t := &sct{env: f.env, fn: f.name, recv: r.Names[0].Name, ptr: f.ptr, rets: f.rets}
		if f.ptr {
			t.line(1, "let mut "+name(t.recv)+" := "+name(t.recv))
		}
		for _, s := range fd.Body.List {
			t.stmt(1, s)
		}
		if n := len(fd.Body.List); n == 0 || !endsInReturn(fd.Body.List[n-1]) {
			fail("setcodec: %s can fall off its end", f.name)
		}
		fmt.Fprintf(&b, "/-- `%s` -/\ndef %s %s : Go.M (%s) := do\n%s\n", src(&ast.FuncDecl{Recv: fd.Recv, Name: fd.Name, Type: fd.Type}), f.name, f.sig, f.retTy, t.out.String())
	}
	b.WriteString("end Generated.GoSetCodec\n")
	if err := os.WriteFile(out, []byte(b.String()), 0o644); err != nil {
		fail("%v", err)
	}
	fmt.Printf("go2lean setcodec: MarshalJSON, UnmarshalJSON, MarshalYAML, UnmarshalYAML -> %s\n", out)
}

package main

import (
	"bytes"
	"fmt"
	"os"
	"os/exec"
	"path/filepath"
	"strconv"
	"strings"

	genumgen "github.com/drshriveer/gtools/genum/gen"
)

// Chains (C14): several generations in ONE package directory where a later generation depends on
// what an earlier one left on disk - the output file of the earlier generation (a trait whose type
// is the enum generated just before: with `color.genum.go` present Color decodes itself and the
// second enum's decoders call it, without it they decode the underlying integer), or the
// definition file itself, edited between two generations.  The whole chain is generated inside
// THIS process and, into a directory of its own, by one separate process per step; after every
// step the file the step wrote is byte-compared.  The state of the directory before each step is
// the same in both modes, so source and options are the same: the bytes have to be.
//
//	go_ inproc chain kind=enumtrait order=ab|ba o=<jytcd>     color.go then shape.go (ab); shape.go, color.go, shape.go again (ba)
//	go_ inproc chain kind=edit gen=genum|gerror|gsort [steps=2]  definition v1, edited to v2 (one more value / field / sorter), back to v1

type chainStep struct {
	label string
	write map[string]string // files (re)written before the step
	gen   string
	def   string // definition file
	out   string // file the step writes
	args  []string
	mk    func(dir string) *genValue
}

func chainOf(ws []string) ([]chainStep, error) {
	m := kv(ws)
	switch m["kind"] {
	case "enumtrait":
		o := m["o"]
		if len(o) != 5 {
			return nil, fmt.Errorf("bad options")
		}
		var opts [5]bool
		for i, ch := range o {
			opts[i] = ch == 't'
		}
		color := "package rp\n\ntype Color int\n\nconst (\n\tRed Color = iota\n\tGreen\n\tBlue\n)\n"
		shape := "package rp\n\ntype Shape uint8\n\nconst (\n\tCircle, _Paint, _Sides = Shape(iota), Red, 0\n\tSquare, _, _ = Shape(1), Green, 4\n\tStar, _, _ = Shape(2), Blue, 10\n)\n"
		flags := func(in, typ string, parsable ...string) []string {
			a := []string{"-in", in, "-types", typ,
				"-json=" + strconv.FormatBool(opts[0]), "-yaml=" + strconv.FormatBool(opts[1]), "-text=" + strconv.FormatBool(opts[2]),
				"-caseInsensitive=" + strconv.FormatBool(opts[3]), "-disableTraits=" + strconv.FormatBool(opts[4])}
			if len(parsable) > 0 {
				a = append(a, "-parsableByTraits", strings.Join(parsable, ","))
			}
			return a
		}
		value := func(stem, typ string, parsable ...string) func(string) *genValue {
			return func(dir string) *genValue {
				g := &genumgen.Generate{InFile: filepath.Join(dir, stem+".go"), OutFile: filepath.Join(dir, stem+".genum.go"), Types: []string{typ},
					GenJSON: opts[0], GenYAML: opts[1], GenText: opts[2], CaseInsensitive: opts[3], DisableTraits: opts[4], ParsableByTraits: parsable}
				return &genValue{parse: g.Parse, write: g.Write}
			}
		}
		var par []string
		if !opts[4] {
			par = []string{"Paint"}
		}
		c := chainStep{label: "color", gen: "genum", def: "color.go", out: "color.genum.go", args: flags("color.go", "Color"), mk: value("color", "Color")}
		s := chainStep{label: "shape", gen: "genum", def: "shape.go", out: "shape.genum.go", args: flags("shape.go", "Shape", par...), mk: value("shape", "Shape", par...)}
		both := map[string]string{"color.go": color, "shape.go": shape}
		switch m["order"] {
		case "ab":
			c.write = both
			return []chainStep{c, s}, nil
		case "ba":
			s.write = both
			s2 := s
			s2.write, s2.label = nil, "shape-again"
			return []chainStep{s, c, s2}, nil
		}
		return nil, fmt.Errorf("bad order")
	case "edit":
		var h1, h2 string
		switch m["gen"] {
		case "genum":
			on := [5]bool{true, true, true, false, false}
			h1 = (&genumCase{n: 2, under: "int", shape: "plain", traits: cols("ustr+p,dur"), opts: on}).header()
			h2 = (&genumCase{n: 3, under: "int", shape: "plain", traits: cols("ustr+p,dur"), opts: on}).header()
		case "gerror":
			h1 = (&gerrorCase{fields: []gerrField{{"Code", "int", "pc"}}}).header()
			h2 = (&gerrorCase{fields: []gerrField{{"Code", "int", "pc"}, {"Note", "string", "p"}, {"When", "dur", "c"}}}).header()
		case "gsort":
			h1 = (&gsortCase{fields: []gsortField{{"A", "int", []string{"ByA,1"}}, {"B", "string", nil}}}).header()
			h2 = (&gsortCase{fields: []gsortField{{"A", "int", []string{"ByA,1"}}, {"B", "string", []string{"ByA,2", "*ByBP,1"}}}}).header()
		default:
			return nil, fmt.Errorf("bad generator")
		}
		var steps []chainStep
		hs := []string{h1, h2, h1}
		if m["steps"] == "2" {
			hs = hs[:2]
		}
		for i, h := range hs {
			it, err := parseHeader(h)
			if err != nil {
				return nil, err
			}
			it.pkg = "rp"
			_, args := it.srcArgs()
			it0 := it
			steps = append(steps, chainStep{label: []string{"v1", "v2-edited", "v1-restored"}[i], write: it.files(), gen: it.gen, def: it.defName(), out: it.genName(), args: args,
				mk: func(dir string) *genValue {
					return newGenValue(it0, filepath.Join(dir, it0.defName()), filepath.Join(dir, it0.genName()))
				}})
		}
		return steps, nil
	}
	return nil, fmt.Errorf("unknown chain")
}

// chainVsCLI runs the chain inside this process and with one separate process per step.
func (w *world) chainVsCLI(ws []string) string {
	steps, err := chainOf(ws)
	if err != nil {
		return "bad-op"
	}
	w.mu.Lock()
	base := filepath.Join(w.root, "m", fmt.Sprintf("c%d", w.nPkg))
	w.nPkg++
	w.mu.Unlock()
	defer func() {
		if os.Getenv("VERIF_KEEP") == "" {
			os.RemoveAll(base)
		}
	}()
	dirs := [2]string{filepath.Join(base, "in", "rp"), filepath.Join(base, "cli", "rp")}
	for _, d := range dirs {
		os.MkdirAll(d, 0o755)
	}
	inproc := func(st chainStep, dir string) (err error) {
		defer func() {
			if r := recover(); r != nil {
				err = fmt.Errorf("panic: %v", r)
			}
		}()
		old, _ := os.Getwd()
		if err := os.Chdir(dir); err != nil {
			return err
		}
		defer os.Chdir(old)
		v := st.mk(dir)
		if err := v.parse(); err != nil {
			return err
		}
		return v.write()
	}
	for i, st := range steps {
		var outs [2][]byte
		var errs [2]error
		for k, d := range dirs {
			for name, src := range st.write {
				os.WriteFile(filepath.Join(d, name), []byte(src), 0o644)
			}
			w.mu.Lock()
			w.genRuns++
			if k == 0 {
				errs[k] = inproc(st, d)
			}
			w.mu.Unlock()
			if k == 1 {
				cmd := exec.Command(w.bins[st.gen], st.args...)
				cmd.Dir = d
				cmd.Env = append(append([]string{}, w.env...), "PWD="+d, "GOFILE="+st.def, "GOPACKAGE=rp")
				_, errs[k] = cmd.CombinedOutput()
			}
			outs[k], _ = os.ReadFile(filepath.Join(d, st.out))
		}
		where := fmt.Sprintf("step%d-%s", i+1, st.label)
		switch {
		case errs[0] != nil && errs[1] != nil:
		case errs[0] != nil || errs[1] != nil:
			return "differs:" + where + ":error-in-one-mode"
		case !bytes.Equal(outs[0], outs[1]):
			return fmt.Sprintf("differs:%s:%s:in-process-%d-bytes-vs-separate-process-%d-bytes", where, st.out, len(outs[0]), len(outs[1]))
		}
	}
	return "same"
}

import Model.GoAny
import Generated.GoSet
import Generated.GoGConfigBuilder
namespace Generated.GoGConfigReduce
open GConfig (Y)
open GoAny (Err)

structure Dimension where
  parseGeneric : String → Nat × Err
  get : Nat
  deriving Inhabited

structure Env where
  templates : List (String → String × Bool × Err)

def defaultKey : String := "default"

def reduce_err1 : Err := some ()

mutual
def reduceAny : Nat → Y → List Dimension → Nat → Go.M (Y × Err)
  | 0, _, _, _ => throw "out of fuel"
  | fuel + 1, «in», dimensions, dIndex => do
    let mut «in» := «in»
    match «in» with
    | Y.map v0 =>
      let mut v := v0
      for i in List.range' dIndex (List.length dimensions - dIndex) do
        let p1 ← reduce fuel v dimensions i
        let r : Y := p1.1
        let reduced : Bool := p1.2.1
        let err : Err := p1.2.2
        if (err != none || reduced) then
          return (r, err)
      for (k, el) in v do
        let mut err : Err := none
        let p2 ← reduceAny fuel el dimensions dIndex
        v := GoAny.amapSet v k p2.1
        err := p2.2
        if (err != none) then
          return (Y.null, err)
      «in» := Y.map v
    | Y.list v0 =>
      let mut v := v0
      let mut i : Nat := 0
      for el in v do
        let mut err : Err := none
        let p3 ← reduceAny fuel el dimensions dIndex
        v ← Go.listSet v i p3.1
        err := p3.2
        if (err != none) then
          return (Y.null, err)
        i := i + 1
      «in» := Y.list v
    | _ => pure ()
    return («in», none)

def reduce : Nat → List (String × Y) → List Dimension → Nat → Go.M (Y × Bool × Err)
  | 0, _, _, _ => throw "out of fuel"
  | fuel + 1, «in», dimensions, dIndex => do
    let mut out : Y := Y.null
    let mut err : Err := none
    let dim ← Go.listGet dimensions dIndex
    let p1 ← Generated.GoGConfigBuilder.keySet «in»
    let mut keys : Go.GMap String := p1.1
    let hasDefault : Bool := p1.2
    if ((Go.mapLen keys) == 0 && (!hasDefault)) then
      return (Y.map «in», false, none)
    let mut foundDimKey : String := ""
    for k in Go.mapKeys keys do
      let p2 := dim.parseGeneric k
      let foundD : Nat := p2.1
      let err_1 : Err := p2.2
      if (err_1 == none) then
        let r3 ← Generated.GoSet.Set.Remove keys [k]
        keys := r3.1
        if (dim.get == foundD) then
          foundDimKey := k
    if ((Go.mapLen keys) != 0) then
      return (Y.map «in», false, none)
    let p4 := GoAny.amapGet «in» foundDimKey
    let v : Y := p4.1
    let ok : Bool := p4.2
    if ok then
      let p5 ← reduceAny fuel v dimensions 0
      out := p5.1
      err := p5.2
      return (out, true, err)
    if hasDefault then
      let p6 ← reduceAny fuel (GoAny.amapGet «in» defaultKey).1 dimensions 0
      out := p6.1
      err := p6.2
      return (out, true, err)
    let p7 ← Generated.GoGConfigBuilder.keySet «in»
    keys := p7.1
    return (Y.null, true, reduce_err1)
end

def parseTemplatedElements (env : Env) : Nat → Y → Go.M (Y × Err)
  | 0, _ => throw "out of fuel"
  | fuel + 1, «in» => do
    let mut «in» := «in»
    let mut out : Y := Y.null
    let mut err : Err := none
    match «in» with
    | Y.str v =>
      for template in env.templates do
        let p1 := template v
        let temp : String := p1.1
        let ok : Bool := p1.2.1
        let err_1 : Err := p1.2.2
        if (err_1 != none) then
          return (out, err_1)
        else
          if ok then
            return (Y.str temp, none)
    | Y.map v0 =>
      let mut v := v0
      for (k, el) in v do
        let p2 ← parseTemplatedElements env fuel el
        v := GoAny.amapSet v k p2.1
        err := p2.2
        if (err != none) then
          return (out, err)
      «in» := Y.map v
    | Y.list v0 =>
      let mut v := v0
      let mut i : Nat := 0
      for el in v do
        let p3 ← parseTemplatedElements env fuel el
        v ← Go.listSet v i p3.1
        err := p3.2
        if (err != none) then
          return (out, err)
        i := i + 1
      «in» := Y.list v
    | _ => pure ()
    return («in», none)

def fromBytes_err1 : Err := some ()

def fromBytes (env : Env) (fuel : Nat) (dimensions : List Dimension) (data : List (String × Y)) :
    Go.M (Option (List (String × Y)) × Err) := do
  let p1 ← reduceAny fuel (Y.map data) dimensions 0
  let d : Y := p1.1
  let mut err : Err := p1.2
  if (err != none) then
    return (none, err)
  let p2 := GoAny.asMap d
  let mut result : List (String × Y) := p2.1
  let ok : Bool := p2.2
  if (!ok) then
    return (none, fromBytes_err1)
  let p3 ← parseTemplatedElements env fuel (Y.map result)
  result := (GoAny.asMap p3.1).1
  err := p3.2
  if (err != none) then
    return (none, err)
  return (some result, none)

end Generated.GoGConfigReduce

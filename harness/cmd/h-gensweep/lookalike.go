package main

import (
	"fmt"
	"os"
	"path/filepath"
)

// Trait types that only LOOK like something the generator treats specially, and the scratch
// library the imported ones live in (written once per run into the scratch module, outside the
// batch directories: `scratch/lib`, `scratch/lib/conf`, `scratch/lib/internal/core`, `scratch/lib2`).
//
// (1) look-alike decoders: a method NAMED UnmarshalYAML / UnmarshalJSON / UnmarshalText whose
// signature is not the one of yaml.v3's Unmarshaler / json.Unmarshaler / encoding.TextUnmarshaler
// (the yaml.v2 callback form `UnmarshalYAML(func(interface{}) error) error`, another parameter
// type, two parameters, another result, no result; pointer and value receivers).  Such a type does
// not decode itself; a generator that goes by the method name writes a call that does not compile.
// The local ones are declared in the definition package (no UnmarshalJSON look-alike there: go vet's
// stdmethods check rejects the hand-written declaration itself), the imported ones in scratch/lib/conf.
//
// (2) aliases declared by an imported package whose TARGET the generated package cannot name: the
// usual re-export `type Level = core.Level` of a type from lib/internal/core, and an alias of an
// unexported named type.  Under Go 1.23 alias semantics (gotypesalias=1: the scratch module, the
// generator binaries and this harness are all `go 1.23`) the constant's type is the *types.Alias;
// the alias is the only name the generated file may write.
//
// Out of domain (drift only): an UNEXPORTED alias of another package (`type level = int8` next to
// exported constants of that type, kind alpriv): no name of the type can be written from outside,
// and the unchanged tree writes `lib2.level`, which does not compile.

const libCore = `package core

// Level and Name are internal types; scratch/lib re-exports them through aliases.
type Level int8

type Name string
`

const libLib = `package lib

import (
	"time"

	"scratch/lib/internal/core"
)

// Level is the public name of an internal type.
type Level = core.Level

// Name is the public name of an internal string type.
type Name = core.Name

type grade int16

// Grade is the public name of an unexported named type.
type Grade = grade

// Span is a second name of a type everybody can import.
type Span = time.Duration
`

const libLib2 = `package lib2

type level = int8

// exported constants of an unexported alias type
const (
%s)
`

const libConf = `package conf

// Dur decodes itself the yaml.v2 way (callback), pointer receiver.
type Dur int64

func (d *Dur) UnmarshalYAML(unmarshal func(interface{}) error) error {
	var x int64
	if err := unmarshal(&x); err != nil {
		return err
	}
	*d = Dur(x)
	return nil
}

// Tick: the yaml.v2 form on a value receiver.
type Tick string

func (t Tick) UnmarshalYAML(unmarshal func(interface{}) error) error { return nil }

// Js: UnmarshalJSON with another parameter type.
type Js string

func (j *Js) UnmarshalJSON(s string) error { *j = Js(s); return nil }

// Jtwo: UnmarshalJSON with two parameters.
type Jtwo int32

func (j *Jtwo) UnmarshalJSON(b []byte, strict bool) error { return nil }

// Tx: UnmarshalText with another parameter type.
type Tx string

func (t *Tx) UnmarshalText(s string) error { *t = Tx(s); return nil }

// Yb: UnmarshalYAML with another result.
type Yb uint16

func (y *Yb) UnmarshalYAML(v any) bool { return false }
`

func writeScratchLib(mod string) error {
	files := map[string]string{
		"lib/internal/core/core.go": libCore,
		"lib/lib.go":                libLib,
		"lib/conf/conf.go":          libConf,
	}
	consts := ""
	for i := 0; i < 26; i++ {
		consts += fmt.Sprintf("\tL%d level = %d\n", i, i+1)
	}
	files["lib2/lib2.go"] = fmt.Sprintf(libLib2, consts)
	for name, src := range files {
		p := filepath.Join(mod, name)
		if err := os.MkdirAll(filepath.Dir(p), 0o755); err != nil {
			return err
		}
		if err := os.WriteFile(p, []byte(src), 0o644); err != nil {
			return err
		}
	}
	return nil
}

func init() {
	num := func(format string, base int) func(int) string {
		return func(i int) string { return fmt.Sprintf(format, base+i) }
	}
	str := func(format, pre string) func(int) string {
		return func(i int) string { return fmt.Sprintf(format, fmt.Sprintf("%s%d", pre, i)) }
	}
	// look-alike decoders, declared in the definition package
	traitKinds["yv2"] = traitKind{model: "named", lit: num("Yv2(%d)", 300), uniq: true,
		decl: "type Yv2 int64\n\nfunc (v *Yv2) UnmarshalYAML(unmarshal func(interface{}) error) error {\n\tvar x int64\n\tif err := unmarshal(&x); err != nil {\n\t\treturn err\n\t}\n\t*v = Yv2(x)\n\treturn nil\n}\n"}
	traitKinds["yv2v"] = traitKind{model: "named", lit: str("Yv2v(%q)", "y"), uniq: true,
		decl: "type Yv2v string\n\nfunc (v Yv2v) UnmarshalYAML(unmarshal func(interface{}) error) error { return nil }\n"}
	traitKinds["ytwo"] = traitKind{model: "named", lit: num("Ytwo(%d)", 400), uniq: true,
		decl: "type Ytwo int\n\nfunc (v *Ytwo) UnmarshalYAML(a, b int) error { return nil }\n"}
	traitKinds["ybool"] = traitKind{model: "named", lit: num("Ybool(%d)", 60), uniq: true,
		decl: "type Ybool uint8\n\nfunc (v *Ybool) UnmarshalYAML(x any) bool { return false }\n"}
	traitKinds["tstr"] = traitKind{model: "named", lit: str("Tstr(%q)", "x"), uniq: true,
		decl: "type Tstr string\n\nfunc (v *Tstr) UnmarshalText(s string) error { *v = Tstr(s); return nil }\n"}
	traitKinds["tnores"] = traitKind{model: "named", lit: num("Tnores(%d)", 500), uniq: true,
		decl: "type Tnores int\n\nfunc (v *Tnores) UnmarshalText(b []byte) { *v = Tnores(len(b)) }\n"}
	// look-alike decoders of an imported package
	const conf = "scratch/lib/conf"
	traitKinds["cyv2"] = traitKind{model: "named", lit: num("conf.Dur(%d)", 600), uniq: true, imp: conf}
	traitKinds["cyv2v"] = traitKind{model: "named", lit: str("conf.Tick(%q)", "k"), uniq: true, imp: conf}
	traitKinds["cjstr"] = traitKind{model: "named", lit: str("conf.Js(%q)", "j"), uniq: true, imp: conf}
	traitKinds["cjtwo"] = traitKind{model: "named", lit: num("conf.Jtwo(%d)", 700), uniq: true, imp: conf}
	traitKinds["ctstr"] = traitKind{model: "named", lit: str("conf.Tx(%q)", "t"), uniq: true, imp: conf}
	traitKinds["cybool"] = traitKind{model: "named", lit: num("conf.Yb(%d)", 800), uniq: true, imp: conf}
	// aliases declared by an imported package
	const lib = "scratch/lib"
	traitKinds["alint"] = traitKind{model: "named", lit: num("lib.Level(%d)", 1), uniq: true, imp: lib}
	traitKinds["alstr"] = traitKind{model: "named", lit: str("lib.Name(%q)", "n"), uniq: true, imp: lib}
	traitKinds["alunexp"] = traitKind{model: "named", lit: num("lib.Grade(%d)", 1000), uniq: true, imp: lib}
	traitKinds["alspan"] = traitKind{model: "named", lit: num("lib.Span(%d)", 900), uniq: true, imp: lib}
	// out of domain: constants of an unexported alias type of another package
	traitKinds["alpriv"] = traitKind{model: "named", lit: func(i int) string { return fmt.Sprintf("lib2.L%d", i%26) }, uniq: true, imp: "scratch/lib2"}
}

/-! Model for C13 (generators: every option combination yields code that builds) — core Lean only.

Three things are mirrored here.

1. How `text/template` renders a position of a generator template that sits under nested
   `{{if}}` / `{{range}}` blocks (`times`): once per element of every enclosing range, and only
   if every enclosing condition holds.  The per-template tables of (declaration, guard) are
   regenerated from /repo's templates on every run (`Generated/Guards.lean`, tie A).
2. `genum/gen/generate.go`'s gating of trait inspection (`traitsSeen`) and
   `gencommon.ImportHandler.ExtractTypeRef`'s default branch for basic types (`typeRef`), which
   decides how the type of a trait constant is written into the generated file.
3. The specification read off the property text: which methods a generated type must have
   (`genumRequired`, `gerrorRequired`, `gsortRequired`).
-/
namespace GenGuards

/-- One enclosing condition of a position in a template. -/
inductive Atom where
  /-- `{{if $.F}}` body (`pos = true`), its `{{else}}` branch or `{{if not $.F}}` (`pos = false`);
      `F` is a boolean command-line option of the generator. -/
  | opt (field : String) (pos : Bool)
  /-- a condition on the definition being generated for (`gt (len $values) 15`, `len (…)`). -/
  | data (desc : String)
  /-- body of `{{range …}}`: rendered once per element. -/
  | range (desc : String)
  deriving DecidableEq, Repr

inductive Kind where
  | method | func | typ | imp
  deriving DecidableEq, Repr

/-- A declaration (or import line) written by a template, with its guard (outermost first). -/
structure Entry where
  kind : Kind
  ptr : Bool
  recv : String
  name : String
  guard : List Atom
  deriving DecidableEq, Repr

/-- A package-qualified reference (`json.`, `yaml.`, …) in the template text. -/
structure Use where
  pkg : String
  guard : List Atom
  deriving DecidableEq, Repr

/-- A reference, inside the template text, to a declaration the template itself writes: a call of
a generated method on the receiver of the enclosing method (`e.UnmarshalText(`) or of a generated
function (`Parse«T»(`); `from` is the declaration the reference sits in. -/
structure Ref where
  kind : Kind
  name : String
  «from» : String
  guard : List Atom
  deriving DecidableEq, Repr

/-- A boolean command-line option: struct field, flag alias, default. -/
structure Option' where
  field : String
  alias : String
  default : Bool
  deriving DecidableEq, Repr

/-- What a template is executed against: the option switches, the truth of every
data-dependent condition and the length of every ranged-over collection. -/
structure World where
  opt : String → Bool
  data : String → Bool
  count : String → Nat

def Atom.mult (w : World) : Atom → Nat
  | .opt f p => if w.opt f == p then 1 else 0
  | .data d => if w.data d then 1 else 0
  | .range d => w.count d

/-- Number of times `text/template` renders a position whose enclosing blocks are `g`. -/
def times (w : World) : List Atom → Nat
  | [] => 1
  | a :: g => a.mult w * times w g

/-- Number of declarations of method `m` (receiver form `ptr`) that one execution writes. -/
def declCount (w : World) (tbl : List Entry) (k : Kind) (m : String) : Nat :=
  (tbl.map fun e => if e.kind == k && e.name == m then times w e.guard else 0).sum

/-! ### Decidable summaries of a guard (what `decide` evaluates) -/

/-- An option atom agrees with the option setting (other atoms: nothing to check). -/
def Atom.optOk (env : String → Bool) : Atom → Bool
  | .opt f p => env f == p
  | _ => true

/-- The atom is an option, or the per-type loop `loop`. -/
def Atom.perTypeOk (loop : String) : Atom → Bool
  | .opt _ _ => true
  | .data _ => false
  | .range d => d == loop

def Atom.isOpt : Atom → Bool
  | .opt _ _ => true
  | _ => false

/-- Every option atom of the guard agrees with the option setting. -/
def optsHold (env : String → Bool) (g : List Atom) : Bool := g.all (Atom.optOk env)

/-- The guard has no data condition and its only range is the per-type loop `loop`
(so the position is rendered exactly once per generated type when the options agree). -/
def perType (loop : String) (g : List Atom) : Bool := g.all (Atom.perTypeOk loop)

/-- The guard has no data condition and no range at all (file header positions). -/
def perFile (g : List Atom) : Bool := g.all Atom.isOpt

/-- Entries of kind `k` named `m`. -/
def named (tbl : List Entry) (k : Kind) (m : String) : List Entry :=
  tbl.filter fun e => e.kind == k && e.name == m

/-- `m` is declared exactly once per generated type under option setting `env`, whatever the
definition: exactly one entry named `m` has its option atoms satisfied, and that entry depends on
nothing but the per-type loop. `valueRecv` additionally demands a value receiver. -/
def exactlyOnce (tbl : List Entry) (loop : String) (env : String → Bool) (valueRecv : Bool) (m : String) : Bool :=
  match (named tbl .method m).filter (fun e => optsHold env e.guard) with
  | [e] => perType loop e.guard && (!valueRecv || !e.ptr)
  | _ => false

/-- `m` is never declared under option setting `env`, whatever the definition. -/
def neverDeclared (tbl : List Entry) (env : String → Bool) (m : String) : Bool :=
  (named tbl .method m).all fun e => !optsHold env e.guard

/-- Names of the methods written once per type under `env` independently of the definition. -/
def guaranteed (tbl : List Entry) (loop : String) (env : String → Bool) : List String :=
  (tbl.filter fun e => e.kind == .method && perType loop e.guard && optsHold env e.guard).map (·.name)

/-- Methods whose guard additionally ranges over `inner` (one per element, e.g. one accessor per
trait): rendered names are data, so only their count is predicted. -/
def perElement (tbl : List Entry) (loop inner : String) (env : String → Bool) : Nat :=
  (tbl.filter fun e => e.kind == .method && optsHold env e.guard &&
    e.guard.all (fun a => match a with
      | .opt _ _ => true
      | .data _ => false
      | .range d => d == loop || d == inner) &&
    e.guard.any (fun a => a == .range inner)).length

/-- Import paths written into the file header under `env` independently of the definition. -/
def importsGuaranteed (tbl : List Entry) (env : String → Bool) : List String :=
  (tbl.filter fun e => e.kind == .imp && perFile e.guard && optsHold env e.guard).map (·.name)

/-- Every package-qualified reference that can be rendered under `env` has its import line
rendered under `env` (so the file does not rely on goimports finding the package). -/
def usesCovered (tbl : List Entry) (uses : List Use) (env : String → Bool) : Bool :=
  uses.all fun u => !optsHold env u.guard ||
    tbl.any fun e => e.kind == .imp && e.recv == u.pkg && perFile e.guard && optsHold env e.guard

/-- Every reference to one of the template's own declarations that can be rendered under `env` has
that declaration rendered under `env`, whatever the definition (so no section of the generated
file calls into a section that an option switched off). -/
def refsCovered (tbl : List Entry) (loop : String) (refs : List Ref) (env : String → Bool) : Bool :=
  refs.all fun r => !optsHold env r.guard ||
    tbl.any fun e => e.kind == r.kind && e.name == r.name && perType loop e.guard && optsHold env e.guard

/-! ### genum -/

structure GenumOpts where
  json : Bool
  yaml : Bool
  text : Bool
  caseInsensitive : Bool
  disableTraits : Bool
  deriving DecidableEq, Repr

def GenumOpts.env (o : GenumOpts) : String → Bool
  | "GenJSON" => o.json
  | "GenYAML" => o.yaml
  | "GenText" => o.text
  | "CaseInsensitive" => o.caseInsensitive
  | "DisableTraits" => o.disableTraits
  | _ => false

/-- The per-type loop of `enumTemplate.gotmpl` and its trait loop. -/
def genumLoop : String := ".Types"
def genumTraitLoop : String := "(index $.Traits $i)"

/-- generate.go: `if g.DisableTraits || len(values) == 0 { continue }` before trait extraction. -/
def traitsSeen (gates : List String) (env : String → Bool) (traits : List String) : List String :=
  if gates.any env then [] else traits

/-- A documented interface the generated type has to implement: qualified name, whether the
value type itself (not only its pointer) must implement it, and its method names. -/
structure IfaceReq where
  name : String
  onValue : Bool
  methods : List String
  deriving DecidableEq, Repr

/-- Spec (property text): "implement genum.Enum and TypedEnum plus the requested marshalers".
`ParseGeneric` returns the enum value itself as `genum.Enum`, so those interfaces have to be
implemented by the value type; `Unmarshal*` necessarily have pointer receivers.  The method
lists of `genum.Enum`/`TypedEnum` are regenerated from genum/definitions.go. -/
def genumIfaces (ifaceEnum ifaceTypedEnum : List String) (o : GenumOpts) : List IfaceReq :=
  [⟨"genum.Enum", true, ifaceEnum⟩, ⟨"genum.TypedEnum", true, ifaceTypedEnum⟩]
  ++ (if o.json then [⟨"json.Marshaler", true, ["MarshalJSON"]⟩, ⟨"json.Unmarshaler", false, ["UnmarshalJSON"]⟩] else [])
  ++ (if o.text then [⟨"encoding.TextMarshaler", true, ["MarshalText"]⟩, ⟨"encoding.TextUnmarshaler", false, ["UnmarshalText"]⟩] else [])
  ++ (if o.yaml then [⟨"yaml.Marshaler", true, ["MarshalYAML"]⟩, ⟨"yaml.Unmarshaler", false, ["UnmarshalYAML"]⟩] else [])

/-- The required methods as pairs (method, must have a value receiver). -/
def genumRequired (ifaceEnum ifaceTypedEnum : List String) (o : GenumOpts) : List (String × Bool) :=
  (genumIfaces ifaceEnum ifaceTypedEnum o).flatMap fun r => r.methods.map (·, r.onValue)

/-- Marshaler methods that were switched off (they must be absent, so that a hand-written one
does not collide with a generated one). -/
def genumUnrequested (o : GenumOpts) : List String :=
  (if o.json then [] else ["MarshalJSON", "UnmarshalJSON"])
  ++ (if o.text then [] else ["MarshalText", "UnmarshalText"])
  ++ (if o.yaml then [] else ["MarshalYAML", "UnmarshalYAML"])

/-! ### gerror -/

def gerrorEnv (skipConvertGen : Bool) : String → Bool
  | "SkipConvertGen" => skipConvertGen
  | _ => false

def gerrorLoop : String := ".ErrorDescs"

/-- Methods the documentation hands to the caller when `-skipConvertGen` is given. -/
def gerrorCallerWrites (skip : Bool) : List String := if skip then ["Convert", "ConvertS"] else []

/-- Factory methods that return a derived error and therefore have to be re-declared on the
extension type (a promoted `GError` method would return the base type): all of `Factory`
except `Error` and `Is`. -/
def gerrorDerivers (ifaceFactory : List String) : List String :=
  ifaceFactory.filter fun m => m != "Error" && m != "Is"

/-! ### gsort -/

def gsortLoop : String := ".SorterDescs"
def noOpts : String → Bool := fun _ => false

/-! ### type references of trait constants (gencommon/imports.go, ExtractTypeRef default branch) -/

/-- go/types basic kinds that the type of a constant can have. -/
inductive Basic where
  | bool | int | int8 | int16 | int32 | int64 | uint | uint8 | uint16 | uint32 | uint64 | uintptr
  | float32 | float64 | complex64 | complex128 | string
  | untypedBool | untypedInt | untypedRune | untypedFloat | untypedComplex | untypedString
  deriving DecidableEq, Repr

def Basic.all : List Basic :=
  [.bool, .int, .int8, .int16, .int32, .int64, .uint, .uint8, .uint16, .uint32, .uint64, .uintptr,
   .float32, .float64, .complex64, .complex128, .string,
   .untypedBool, .untypedInt, .untypedRune, .untypedFloat, .untypedComplex, .untypedString]

/-- `types.Basic.String()`, as its blank-separated words (`"untyped float"` = `["untyped", "float"]`);
kept as words because `decide` cannot evaluate string slicing in the kernel. -/
def Basic.words : Basic → List String
  | .bool => ["bool"] | .int => ["int"] | .int8 => ["int8"] | .int16 => ["int16"]
  | .int32 => ["int32"] | .int64 => ["int64"] | .uint => ["uint"] | .uint8 => ["uint8"]
  | .uint16 => ["uint16"] | .uint32 => ["uint32"] | .uint64 => ["uint64"]
  | .uintptr => ["uintptr"] | .float32 => ["float32"] | .float64 => ["float64"]
  | .complex64 => ["complex64"] | .complex128 => ["complex128"] | .string => ["string"]
  | .untypedBool => ["untyped", "bool"] | .untypedInt => ["untyped", "int"]
  | .untypedRune => ["untyped", "rune"] | .untypedFloat => ["untyped", "float"]
  | .untypedComplex => ["untyped", "complex"] | .untypedString => ["untyped", "string"]

/-- The type a constant of this kind takes when it is used where a type is needed
(Go spec "Constants": default type; `types.Default`).  `rune` is the predeclared alias of int32
and is what go/types prints for it. -/
inductive GoType where
  | basic (b : Basic)
  | rune
  deriving DecidableEq, Repr

def Basic.default : Basic → GoType
  | .untypedBool => .basic .bool
  | .untypedInt => .basic .int
  | .untypedRune => .rune
  | .untypedFloat => .basic .float64
  | .untypedComplex => .basic .complex128
  | .untypedString => .basic .string
  | b => .basic b

def GoType.words : GoType → List String
  | .basic b => b.words
  | .rune => ["rune"]

/-- `strings.TrimPrefix(s, "untyped ")` on the words of `s`. -/
def trimUntyped : List String → List String
  | "untyped" :: rest => rest
  | ws => ws

/-- Pinned algorithm: `strings.TrimPrefix(t.String(), "untyped ")`. -/
def typeRefLegacy (b : Basic) : List String := trimUntyped b.words

/-- Repaired algorithm: `strings.TrimPrefix(types.Default(t).String(), "untyped ")`. -/
def typeRef (b : Basic) : List String := trimUntyped b.default.words

/-- Go's predeclared type identifiers (spec, "Predeclared identifiers", Types). -/
def predeclaredTypes : List String :=
  ["any", "bool", "byte", "comparable", "complex64", "complex128", "error", "float32", "float64",
   "int", "int8", "int16", "int32", "int64", "rune", "string",
   "uint", "uint8", "uint16", "uint32", "uint64", "uintptr"]

/-- Spec: the written reference is one identifier, a predeclared type, namely the type the trait
constant has when the accessor returns it (its default type). -/
def typeRefSpec (b : Basic) : List String := b.default.words

def IsTypeIdent (ws : List String) : Prop := ∃ t, ws = [t] ∧ t ∈ predeclaredTypes

def isTypeIdent (ws : List String) : Bool :=
  match ws with
  | [t] => predeclaredTypes.contains t
  | _ => false

def render (ws : List String) : String := " ".intercalate ws

def Basic.ofWords (ws : List String) : Option Basic := Basic.all.find? (fun b => b.words == ws)

end GenGuards

import Properties.C07
/-!
# C17 — JSON and YAML encodings of Set round-trip membership
Parametric in the element list codec: its round-trip law is a *hypothesis* (`Codec.RoundTrips`),
checked for the element types of the quantifier by the correspondence run, not an axiom.
-/
namespace SetM
variable {α δ : Type} [DecidableEq α]

/-- Decoding the encoding of `s` into a target adds exactly the members of `s` and removes none. -/
theorem decode_into_prefilled_is_union (c : Codec α δ) (hc : c.RoundTrips) (s tgt : S α) :
    ∃ r, unmarshal c tgt (marshal c s) = some r ∧ ∀ x, x ∈ elems r ↔ x ∈ elems tgt ∨ x ∈ elems s := by
  unfold unmarshal marshal
  rw [hc]
  refine ⟨_, rfl, ?_⟩
  intro x
  rw [mem_add]
  unfold slice
  split
  · rename_i h0
    have : elems s = [] := List.eq_nil_of_length_eq_zero h0
    simp [this]
  · simp

/-- Round trip into a nil (or empty) target yields exactly the same members — including for the
nil and the empty set. -/
theorem roundtrip_members (c : Codec α δ) (hc : c.RoundTrips) (s : S α) :
    ∃ r, unmarshal c none (marshal c s) = some r ∧ ∀ x, x ∈ elems r ↔ x ∈ elems s := by
  obtain ⟨r, hr, hm⟩ := decode_into_prefilled_is_union c hc s none
  exact ⟨r, hr, by simpa [elems] using hm⟩

theorem roundtrip_members_empty_target (c : Codec α δ) (hc : c.RoundTrips) (s : S α) :
    ∃ r, unmarshal c (some []) (marshal c s) = some r ∧ ∀ x, x ∈ elems r ↔ x ∈ elems s := by
  obtain ⟨r, hr, hm⟩ := decode_into_prefilled_is_union c hc s (some [])
  exact ⟨r, hr, by simpa [elems] using hm⟩

/-- The invariant is kept by decoding. -/
theorem inv_unmarshal (c : Codec α δ) (tgt r : S α) (d : δ) (h : Inv tgt)
    (hr : unmarshal c tgt d = some r) : Inv r := by
  unfold unmarshal at hr
  split at hr
  · cases hr
  · cases hr; exact inv_add _ _ h

/-- What is handed to the codec lists each member exactly once; it is the nil slice (encoded as
`null` / an empty sequence by the codecs) exactly for an empty set. -/
theorem encoding_lists_each_once (s : S α) (h : Inv s) :
    (encShape s = none ↔ ∀ x, x ∉ elems s) ∧
    ∀ l, slice s = some l → l.Nodup ∧ (∀ x, x ∈ l ↔ x ∈ elems s) ∧ encShape s = some l.length := by
  have := slice_nodup_members s h
  refine ⟨by simpa [encShape] using this.1, ?_⟩
  intro l hl
  exact ⟨(this.2 l hl).1, (this.2 l hl).2, by simp [encShape, hl]⟩

/-- a decoder error leaves the target untouched (`unmarshal` yields no new state) -/
theorem decode_error_no_change (c : Codec α δ) (tgt : S α) (d : δ) (h : c.dec d = none) :
    unmarshal c tgt d = none := by simp [unmarshal, h]

/-- non-vacuity: the identity codec on `Option (List Nat)` satisfies the law, and a concrete
pre-filled decode is the union. -/
def idCodec : Codec Nat (Option (List Nat)) := ⟨id, fun d => some (d.getD [])⟩
example : idCodec.RoundTrips := fun _ => rfl
example : (unmarshal idCodec (make [5, 1]) (marshal idCodec (make [1, 2]))).map elems = some [5, 1, 2] := by
  decide

end SetM

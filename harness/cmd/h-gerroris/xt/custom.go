package xt

import (
	"fmt"

	"github.com/drshriveer/gtools/gerror"
)

//go:generate gerror --types=CustomErr --skipConvertGen

// CustomErr brings its own Convert/ConvertS (the pattern of gerror/internal/err_with_custom_convert.go).
type CustomErr struct {
	gerror.GError
	Status int `gerror:"_,print,clone"`
}

// Convert is the hand-written counterpart of the generated one.
func (e *CustomErr) Convert(err error) gerror.Error {
	if gerr, ok := err.(gerror.Error); ok {
		return gerr
	}
	clone := gerror.CloneBase(e, gerror.SourceStack, "", "", fmt.Sprintf("originalError: %+v", err), err)
	return e.toPrimaryType(clone)
}

// ConvertS is the hand-written counterpart of the generated one.
func (e *CustomErr) ConvertS(err error) gerror.Error {
	if gerr, ok := err.(gerror.Error); ok {
		return gerr
	}
	clone := gerror.CloneBase(e, gerror.DefaultStack, "", "", fmt.Sprintf("originalError: %+v", err), err)
	return e.toPrimaryType(clone)
}

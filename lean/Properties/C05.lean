import Model.Genum
import Lemmas.Genum
import Lemmas.GenumTraits
import Properties.C04
/-!
# C05 — genum: JSON/text/YAML codecs round-trip values and reject all else

About `genFull` (generator + template + compile check, `Model/Genum.lean` part 2) and the decoder
models `unmarshalJSON` / `unmarshalText` / `unmarshalYAML` of the CURRENT tree (`Quirks` all off).
-/
namespace Genum.C05
open Genum

variable {f : FileDef} {t : TypeDecl} {k : IntKind}

/-- what `genFull` returns: the C04 output of the type with the `Parse` switch extended by the
parsable trait constants, and no duplicate `case` constant anywhere -/
theorem genFull_shape (o : Options) (g : GenFull) (h : genFull o f t = .ok g) :
    ∃ cases, g.base = { genType o f t.name with cases := cases } ∧ hasDupCase g = false := by
  unfold genFull genFullQ at h
  simp only [bind, Except.bind] at h
  split at h
  · cases h
  · split at h
    · cases h
    · rename_i ts _ cases _
      split at h
      · cases h
      · rename_i hd
        injection h with h
        subst h
        exact ⟨cases, rfl, by simpa using hd⟩

/-- all three encoders emit `String()` … -/
theorem marshal_eq_string (g : GenFull) (e : Int) : g.marshal e = g.base.string e := rfl

/-- … which is the primary name of every defined value, under every option combination. -/
theorem marshal_is_primary_name (o : Options) (g : GenFull) (h : genFull o f t = .ok g)
    (ha : Accepted f t.name k) (e : Int) (hd : Defined f t.name e) :
    IsPrimary f t.name e (g.marshal e) := by
  obtain ⟨cases, hb, _⟩ := genFull_shape o g h
  have := C04.string_primary o ha e hd
  unfold GenFull.marshal GenOut.string
  rw [hb]
  exact this

/-! ## the generated switch decides everything -/

/-- in a switch without duplicate constants, an input equal to a constant of a case selects
exactly that case -/
theorem parse_of_case (g : GenOut) (hn : (g.cases.flatMap (·.consts)).Nodup)
    (c : ParseCase) (hc : c ∈ g.cases) (d : Dyn) (hd : d ∈ c.consts) :
    g.parse d = some c.target.val := by
  unfold GenOut.parse
  have : g.cases.find? (fun c => c.consts.contains d) = some c := by
    generalize g.cases = l at *
    induction l with
    | nil => cases hc
    | cons x xs ih =>
      rw [List.flatMap_cons, List.nodup_append] at hn
      rw [List.find?_cons]
      rcases List.mem_cons.mp hc with rfl | hc'
      · have : c.consts.contains d = true := by simpa using hd
        rw [this]
      · have hx : x.consts.contains d = false := by
          rw [Bool.eq_false_iff]
          intro hcon
          have h1 : d ∈ x.consts := by simpa using hcon
          have h2 : d ∈ xs.flatMap (·.consts) := List.mem_flatMap.mpr ⟨c, hc', hd⟩
          exact hn.2.2 d h1 d h2 rfl
        rw [hx]
        exact ih hn.2.1 hc'
  rw [this]

/-- round trip, reduced to the switch: if `Parse<T>` of the emitted name returns the value, every
decoder returns it for every encoding. -/
theorem roundtrip_of_parse (g : GenFull) (e : Int)
    (h : g.base.parse (Dyn.ofString (g.marshal e)) = some e) :
    g.unmarshalJSON {} (.str (g.marshal e)) = some e ∧
    g.unmarshalText (g.marshal e) = some e ∧
    g.unmarshalYAML {} (g.marshal e) = some e := by
  have hs : stringTry g (g.marshal e) = some e := by unfold stringTry; rw [h]
  refine ⟨hs, hs, ?_⟩
  unfold GenFull.unmarshalYAML; rw [hs]

/-- no duplicate constant among the cases of an accepted generation -/
theorem cases_nodup {o : Options} {g : GenFull} (h : genFull o f t = .ok g) :
    (g.base.cases.flatMap (·.consts)).Nodup := by
  obtain ⟨_, _, _, hdup⟩ := genFull_ok h
  unfold hasDupCase at hdup
  simp only [Bool.or_eq_false_iff] at hdup
  simpa using hdup.1.1

/-- `Parse<T>` of the emitted name returns the value — also when the switch holds parsable trait
constants (no case constant occurs twice, so no trait constant can shadow a name). -/
theorem parse_marshal (o : Options) (g : GenFull) (h : genFull o f t = .ok g)
    (ha : Accepted f t.name k) (e : Int) (hd : Defined f t.name e) :
    g.base.parse (Dyn.ofString (g.marshal e)) = some e := by
  have hn := cases_nodup h
  obtain ⟨ts, _, hg, _⟩ := genFull_ok h
  obtain ⟨c, hc, ht, hv, hname, _⟩ := C04.string_primary o ha e hd
  have hm : g.marshal e = c.name := by
    rw [hname]; subst hg; rfl
  have hcase : caseOf ts (Value.ofConst c) ∈ g.base.cases := by
    subst hg
    exact List.mem_map.mpr ⟨_, mem_sortedValues.mpr ⟨c, hc, ht, rfl⟩, rfl⟩
  have := parse_of_case g.base hn _ hcase (Dyn.ofString c.name) (by simp [caseOf, Value.ofConst])
  rw [hm, this]
  simp [caseOf, Value.ofConst, hv]

/-- `roundtrip_json`, `roundtrip_text`, `roundtrip_yaml`: for every definition `genFull` accepts
(any traits, any parsable subset, duplicates, every option combination) and every defined value,
decoding its encoding yields the value again, in all three codecs. -/
theorem roundtrip (o : Options) (g : GenFull) (h : genFull o f t = .ok g)
    (ha : Accepted f t.name k) (e : Int) (hd : Defined f t.name e) :
    g.unmarshalJSON {} (.str (g.marshal e)) = some e ∧
    g.unmarshalText (g.marshal e) = some e ∧
    g.unmarshalYAML {} (g.marshal e) = some e :=
  roundtrip_of_parse g e (parse_marshal o g h ha e hd)

theorem roundtrip_json (o : Options) (g : GenFull) (h : genFull o f t = .ok g)
    (ha : Accepted f t.name k) (e : Int) (hd : Defined f t.name e) :
    g.unmarshalJSON {} (.str (g.marshal e)) = some e := (roundtrip o g h ha e hd).1

theorem roundtrip_text (o : Options) (g : GenFull) (h : genFull o f t = .ok g)
    (ha : Accepted f t.name k) (e : Int) (hd : Defined f t.name e) :
    g.unmarshalText (g.marshal e) = some e := (roundtrip o g h ha e hd).2.1

theorem roundtrip_yaml (o : Options) (g : GenFull) (h : genFull o f t = .ok g)
    (ha : Accepted f t.name k) (e : Int) (hd : Defined f t.name e) :
    g.unmarshalYAML {} (g.marshal e) = some e := (roundtrip o g h ha e hd).2.2

/-! ## rejection -/

/-- JSON: a scalar document is rejected unless its own content — the string, resp. the integer,
read at some type — is a constant of the `Parse` switch (a name, a name up to case under
`-caseInsensitive`, or a parsable trait constant). Nothing else is ever mapped to a value. -/
theorem reject_json (g : GenFull) (doc : JDoc)
    (h : ∀ ty, match doc with
      | .str s => g.base.parse ⟨ty, .str s⟩ = none
      | .num i => g.base.parse ⟨ty, .int i⟩ = none
      | .other => True) :
    g.unmarshalJSON {} doc = none := by
  cases doc with
  | str s => exact stringTry_none g s h
  | num i =>
    have hu := numericTry_none g false i h
    have hs := numericTry_none g true i h
    simp [GenFull.unmarshalJSON, hu, hs]
  | other => rfl

/-- text: same for the raw text -/
theorem reject_text (g : GenFull) (text : String) (h : ∀ ty, g.base.parse ⟨ty, .str text⟩ = none) :
    g.unmarshalText text = none := stringTry_none g text h

/-- YAML: a scalar is rejected unless its text is a switch constant as a string, or its text is a
decimal numeral whose value is a switch constant (this is the clause the pinned `err != nil`
guards falsify, see `yaml_legacy_accepts_garbage`). -/
theorem reject_yaml (g : GenFull) (text : String)
    (h1 : ∀ ty, g.base.parse ⟨ty, .str text⟩ = none)
    (h2 : ∀ x, parseUintLit text = some x ∨ parseIntLit text = some x → ∀ ty, g.base.parse ⟨ty, .int x⟩ = none) :
    g.unmarshalYAML {} text = none := by
  unfold GenFull.unmarshalYAML
  rw [stringTry_none g text h1]
  simp only []
  have hU : ∀ x, parseUintLit text = some x → numericTry {} g false x = none :=
    fun x hp => numericTry_none g false x (h2 x (Or.inl hp))
  have hS : ∀ x, parseIntLit text = some x → numericTry {} g true x = none :=
    fun x hp => numericTry_none g true x (h2 x (Or.inr hp))
  cases hp1 : parseUintLit text with
  | none =>
    cases hp2 : parseIntLit text with
    | none => simp
    | some y => simp [hS y hp2]
  | some x =>
    cases hp2 : parseIntLit text with
    | none => simp [hU x hp1]
    | some y => simp [hU x hp1, hS y hp2]

/-! ## the whole decoders: with the native block -/

/-- without a parsable self-unmarshalling trait the native block does nothing: the theorems
above are then about the whole generated `UnmarshalJSON` / `UnmarshalYAML` -/
theorem nativeTry_none_of_no_self (g : GenFull) (dec : String → Option Int)
    (h : ∀ td ∈ g.traits, td.parsable = true → ∀ inner, td.fam ≠ .self inner) : g.nativeTry dec = none := by
  unfold GenFull.nativeTry
  apply firstSome_none
  intro x hx
  obtain ⟨td, htd, rfl⟩ := List.mem_map.mp hx
  have hm := List.mem_filter.mp htd
  have := h td hm.1 (by simpa using hm.2)
  cases hf : td.fam with
  | self inner => exact absurd hf (this inner)
  | ustr => rfl
  | nstr => rfl
  | sint b => rfl
  | uint b => rfl
  | none => rfl

theorem full_eq_of_no_self (g : GenFull) (envJ : String → JDoc → Option Int) (envY : String → String → Option Int)
    (h : ∀ td ∈ g.traits, td.parsable = true → ∀ inner, td.fam ≠ .self inner) (doc : JDoc) (text : String) :
    g.unmarshalJSONFull {} envJ doc = g.unmarshalJSON {} doc ∧
    g.unmarshalYAMLFull {} envY text = g.unmarshalYAML {} text := by
  unfold GenFull.unmarshalJSONFull GenFull.unmarshalYAMLFull
  rw [nativeTry_none_of_no_self g _ h, nativeTry_none_of_no_self g _ h]
  constructor
  · cases g.unmarshalJSON {} doc <;> rfl
  · cases g.unmarshalYAML {} text <;> rfl

/-- round trip through the whole decoders (the native block comes last and is not reached) -/
theorem roundtrip_full (o : Options) (g : GenFull) (h : genFull o f t = .ok g)
    (ha : Accepted f t.name k) (e : Int) (hd : Defined f t.name e)
    (envJ : String → JDoc → Option Int) (envY : String → String → Option Int) :
    g.unmarshalJSONFull {} envJ (.str (g.marshal e)) = some e ∧
    g.unmarshalYAMLFull {} envY (g.marshal e) = some e := by
  obtain ⟨hj, _, hy⟩ := roundtrip o g h ha e hd
  unfold GenFull.unmarshalJSONFull GenFull.unmarshalYAMLFull
  rw [hj, hy]; exact ⟨rfl, rfl⟩

/-- the native block rejects unless the trait type's OWN decoder reads the document as a value
whose typed constant is in the `Parse` switch -/
theorem nativeTry_none (g : GenFull) (dec : String → Option Int)
    (h : ∀ td ∈ g.traits, td.parsable = true → ∀ inner v, td.fam = .self inner → dec inner = some v →
      g.base.parse ⟨td.ty, .int v⟩ = none) : g.nativeTry dec = none := by
  unfold GenFull.nativeTry
  apply firstSome_none
  intro x hx
  obtain ⟨td, htd, rfl⟩ := List.mem_map.mp hx
  have hm := List.mem_filter.mp htd
  cases hf : td.fam with
  | self inner =>
    simp only []
    cases hdv : dec inner with
    | none => rfl
    | some v => exact h td hm.1 (by simpa using hm.2) inner v hf hdv
  | ustr => rfl
  | nstr => rfl
  | sint b => rfl
  | uint b => rfl
  | none => rfl

/-- rejection by the whole JSON / YAML decoders: what the branches above reject is rejected unless
a self-unmarshalling trait type decodes the document to one of its parsable constants. In
particular a bare numeral is never decoded THROUGH such a trait (its type reads names). -/
theorem reject_full (g : GenFull) (envJ : String → JDoc → Option Int) (envY : String → String → Option Int)
    (doc : JDoc) (text : String)
    (hj : g.unmarshalJSON {} doc = none) (hy : g.unmarshalYAML {} text = none)
    (hnj : ∀ td ∈ g.traits, td.parsable = true → ∀ inner v, td.fam = .self inner → envJ inner doc = some v →
      g.base.parse ⟨td.ty, .int v⟩ = none)
    (hny : ∀ td ∈ g.traits, td.parsable = true → ∀ inner v, td.fam = .self inner → envY inner text = some v →
      g.base.parse ⟨td.ty, .int v⟩ = none) :
    g.unmarshalJSONFull {} envJ doc = none ∧ g.unmarshalYAMLFull {} envY text = none := by
  unfold GenFull.unmarshalJSONFull GenFull.unmarshalYAMLFull
  rw [hj, hy, nativeTry_none g _ hnj, nativeTry_none g _ hny]
  exact ⟨rfl, rfl⟩

/-! ## the pinned algorithms -/

/-- values 0,1,2 with an untyped-int trait 0,10,20 declared parsable -/
def witness : FileDef :=
  ⟨[{ name := "E", kind := ⟨64, true⟩, cols := [⟨"Num", "int", .sint 64⟩] }],
   [{ name := "A0", ty := "E", val := 0, deprecated := false, tvals := [.int 0] },
    { name := "A1", ty := "E", val := 1, deprecated := false, tvals := [.int 10] },
    { name := "A2", ty := "E", val := 2, deprecated := false, tvals := [.int 20] }]⟩

def witnessType : TypeDecl := { name := "E", kind := ⟨64, true⟩, cols := [⟨"Num", "int", .sint 64⟩] }

/-- the pinned YAML fallbacks run when `strconv.ParseInt` FAILED: `garbage` decodes to the value
whose trait is 0, and the numeral `10` is rejected. The current decoder rejects `garbage` and
decodes `10` to the owner of trait constant 10. -/
theorem yaml_legacy_accepts_garbage :
    (genFull { parsable := ["Num"] } witness witnessType).toOption.map (fun g =>
      (g.unmarshalYAML { yamlGuardInverted := true } "garbage", g.unmarshalYAML { yamlGuardInverted := true } "10",
       g.unmarshalYAML {} "garbage", g.unmarshalYAML {} "10")) = some (some 0, none, none, some 1) := by decide

/-- a named `int8` trait with constants -3, -4 declared parsable -/
def narrowWitness : FileDef :=
  ⟨[{ name := "E", kind := ⟨64, true⟩, cols := [⟨"Sm", "Small", .sint 8⟩] }],
   [{ name := "A0", ty := "E", val := 0, deprecated := false, tvals := [.int (-3)] },
    { name := "A1", ty := "E", val := 1, deprecated := false, tvals := [.int (-4)] }]⟩

/-- the pinned numeric fallbacks convert without a range check: JSON `253` wraps to `Small(-3)` and
decodes to its owner although 253 is no trait constant; the current decoder rejects it. -/
theorem legacy_narrowing_accepts :
    (genFull { parsable := ["Sm"] } narrowWitness
        { name := "E", kind := ⟨64, true⟩, cols := [⟨"Sm", "Small", .sint 8⟩] }).toOption.map (fun g =>
      (g.unmarshalJSON { noRangeGuard := true } (.num 253), g.unmarshalJSON {} (.num 253), g.unmarshalJSON {} (.num (-3))))
      = some (some 0, none, some 0) := by decide

/-! ## non-vacuity -/

example : (genFull { parsable := ["Num"] } witness witnessType).toOption.map (fun g =>
    (g.marshal 1, g.unmarshalJSON {} (.str "A1"), g.unmarshalJSON {} (.num 20), g.unmarshalJSON {} (.str "nope"), hasDupCase g))
    = some ("A1", some 1, some 2, none, false) := by decide

end Genum.C05

import Model.GErrClone
import Driver.Util
/-! Line protocol for `Model/GErrClone` (stateful: numbered registers holding error objects).

Strings travel as lower-case hex of their UTF-8 bytes, `-` for the empty string.

```
ge new <reg> <name> <msg> <src>                         factory with these preset fields      -> ok
ge call <dst> <reg> <Method> <site> F:<s> P:<s>,.. S:<frames> E:<elems>   regs[dst] := regs[reg].Method(..) -> obs
ge conv <dst> <reg> <Method> <argreg>                    Convert*/of a gerror value            -> obs
ge obs <reg>                                             observe a register                    -> obs
ge metric <s>                                            StackElem{Name: s}.Metric()           -> s
ge trim <s>                                              strings.TrimSpace                     -> s
```
`ge race <seed> <n>` runs the chains from 16 goroutines under the race detector (Go side only).
`<frames>` is a comma-separated run-length list `<s>*<count>`; `<Method>` may also be `ExtMsgf` (gerror.ExtMsgf on regs[reg]) or `ExtMsgfForeign` (on a foreign error / nil;
F: is then `%+v` of that error).  `<site>` selects the Go call site and
is ignored here.  obs = `n=<s> m=<s> s=<s> d=<s> k=<len(stack)>`; `ge` answers append ` e=<Error() without stack text>`.
-/
namespace Drv.GErrClone
open _root_.GErrClone

abbrev St := List (Nat × E)

def hexVal (c : Char) : Option Nat :=
  if '0' ≤ c ∧ c ≤ '9' then some (c.toNat - '0'.toNat)
  else if 'a' ≤ c ∧ c ≤ 'f' then some (c.toNat - 'a'.toNat + 10)
  else none

def hexBytes : List Char → Option (List UInt8)
  | [] => some []
  | [_] => none
  | a :: b :: rest => do
    let x ← hexVal a
    let y ← hexVal b
    let r ← hexBytes rest
    pure (UInt8.ofNat (x * 16 + y) :: r)

/-- decode one string field -/
def dec (w : String) : Option Str :=
  if w == "-" then some [] else do
    let bs ← hexBytes w.toList
    let s ← String.fromUTF8? (ByteArray.mk bs.toArray)
    pure s.toList

def hexDigit (n : Nat) : Char := if n < 10 then Char.ofNat (48 + n) else Char.ofNat (87 + n)

def enc (s : Str) : String :=
  if s.isEmpty then "-" else
    String.ofList ((String.ofList s).toUTF8.toList.flatMap (fun b => [hexDigit (b.toNat / 16), hexDigit (b.toNat % 16)]))

def obs (e : E) : String :=
  s!"n={enc e.name} m={enc e.msg} s={enc e.src} d={enc e.dtag} k={e.stack.length}"

/-- `ge` answers also carry `(*GError).Error()` with the stack text cut off -/
def obsE (e : E) : String := s!"{obs e} e={enc (baseError e)}"

def field (pfx : String) (w : String) : Option String :=
  if w.startsWith pfx then some ((w.drop pfx.length).toString) else none

def decList (w : String) : Option (List Str) :=
  if w == "" then some [] else (w.splitOn ",").mapM dec

def decFrames (w : String) : Option (List Str) := do
  let parts ← (w.splitOn ",").mapM (fun p =>
    match p.splitOn "*" with
    | [s] => (dec s).map (fun x => [x])
    | [s, n] => do
      let x ← dec s
      let k ← n.toNat?
      pure (List.replicate k x)
    | _ => none)
  pure parts.flatten

def get (st : St) (r : Nat) : Option E := (st.find? (fun p => p.1 == r)).map (·.2)
def set (st : St) (r : Nat) (e : E) : St := (r, e) :: st.filter (fun p => p.1 != r)

/-- `E:<k><hex of register number>` with k ∈ w j v k: the error handed to Convert* is a foreign
error WRAPPING the gerror value in that register — `%w` (w, v) or `errors.Join` (j, k), around the
extension value (w, j) or around its plain-GError twin (v, k).  Returns the kind and the register. -/
def decWrap (w : String) : Option (Char × Nat) :=
  match (field "E:" w).map String.toList with
  | some (k :: hex) =>
    if k == 'w' || k == 'j' || k == 'v' || k == 'k' then
      (dec (String.ofList hex)).bind (fun s => (String.ofList s).toNat?) |>.map (fun n => (k, n))
    else none
  | _ => none

def showVals (d : ExtDef) (x : X) : String :=
  "v=" ++ ",".intercalate (d.map (fun f => enc (x.val f.name)))

def handle (st : St) (ws : List String) : St × String :=
  match ws with
  | ["new", r, n, m, s] =>
    match r.toNat?, dec n, dec m, dec s with
    | some r, some n, some m, some s => (set st r { name := n, msg := m, src := s, dtag := [], stack := [] }, "ok")
    | some _, _, _, _ => (st, "bad-utf8")
    | _, _, _, _ => (st, "bad-op")
  | ["call", d, r, "ExtMsgf", _site, f, p, s, _elems] =>
    -- gerror.ExtMsgf(regs[r], format, args...): F: is Sprintf(format, args...)
    match d.toNat?, r.toNat?, field "F:" f, field "P:" p, field "S:" s with
    | some d, some r, some f, some p, some s =>
      match get st r, dec f, decList p, decFrames s with
      | some e, some f, some [fmt], some (top :: rest) =>
        let res := extMsgf (.gerr e) fmt f [] ⟨top, rest⟩
        (set st d res, obsE res)
      | none, _, _, _ => (st, "bad-reg")
      | _, _, some _, some [] => (st, "bad-op")
      | _, _, some [_], _ => (st, "bad-utf8")
      | _, _, _, _ => (st, "bad-op")
    | _, _, _, _, _ => (st, "bad-op")
  | ["call", d, _r, "ExtMsgfForeign", _site, f, p, s, _elems] =>
    -- gerror.ExtMsgf(<foreign error or nil>, format, args...): F: is Sprintf("%+v", err)
    match d.toNat?, field "F:" f, field "P:" p, field "S:" s with
    | some d, some f, some p, some s =>
      match dec f, decList p, decFrames s with
      | some f, some [fmt], some (top :: rest) =>
        let res := extMsgf .foreign fmt [] f ⟨top, rest⟩
        (set st d res, obsE res)
      | _, some _, some [] => (st, "bad-op")
      | _, some [_], _ => (st, "bad-utf8")
      | _, _, _ => (st, "bad-op")
    | _, _, _, _ => (st, "bad-op")
  | ["call", d, r, m, _site, f, p, s, elems] =>
    match d.toNat?, r.toNat?, Method.ofGoName m, field "F:" f, field "P:" p, field "S:" s with
    | some d, some r, some m, some f, some p, some s =>
      -- Convert* of a foreign error wrapping the (stack-free) gerror value of a register: its text
      let wrapped : Option (Option Str) := match decWrap elems with
        | none => some none
        | some (k, wr) => (get st wr).map (fun inner =>
            some (if k == 'w' || k == 'v' then wrapText (baseError inner) else joinText (baseError inner)))
      match get st r, dec f, decList p, decFrames s, wrapped with
      | _, _, _, _, none => (st, "bad-reg")
      | some e, some f, some p, some (top :: rest), some wt =>
        let res := step e { m := m, params := p, formatted := wt.getD f, frames := ⟨top, rest⟩ }
        (set st d res, obsE res)
      | none, _, _, _, _ => (st, "bad-reg")
      | _, _, _, some [], _ => (st, "bad-op")
      | _, _, _, _, _ => (st, "bad-utf8")
    | _, _, _, _, _, _ => (st, "bad-op")
  | ["conv", d, r, m, a] =>
    match d.toNat?, r.toNat?, Method.ofGoName m, a.toNat? with
    | some d, some r, some m, some a =>
      match get st r, get st a with
      | some e, some g =>
        let res := convertFull (wiring m) e { m := m, params := [], formatted := [], frames := ⟨[], []⟩ } (.gerr g)
        (set st d res, obsE res)
      | _, _ => (st, "bad-reg")
    | _, _, _, _ => (st, "bad-op")
  | ["obs", r] =>
    match r.toNat? with
    | some r => match get st r with
      | some e => (st, obsE e)
      | none => (st, "bad-reg")
    | none => (st, "bad-op")
  | ["race", _, _] =>
    -- by `derivations_write_only_fresh`, `no_data_race`, `factory_unchanged` (Properties/C15) the model's answer is constant
    (st, "race-free results-equal")
  | ["metric", s] => match dec s with
    | some s => (st, enc (metric s))
    | none => (st, "bad-utf8")
  | ["trim", s] => match dec s with
    | some s => (st, enc (trimSpace s))
    | none => (st, "bad-utf8")
  | _ => (st, "bad-op")

/-! ### `gx …`: generated extension types (C09)

```
gx def <id> <name>:<tag name|~>:<options|->:<embedded 0|1>:<zero>:<kind>:<tag>,…    (`-` = no extra fields)           -> ok
gx build <id>                                      the methods generated for the definition compile  -> ok
gx new <reg> <id> <name> <msg> <src> V:<s>,… I:<n>,…   extension factory + plain GError with the same base -> ok
gx call <dst> <reg> <Method> <site> F:<s> P:<s>,.. S:<frames> E:<elems>
                                                   same call on both -> <obs ext> | <obs base> | v=<s>,…
gx err <reg>                                       Error() of both without stack text -> <s> | <s>
```
The answers are the SPECIFICATION's: the extension result has the base fields the plain `GError`
method (`step`, i.e. `wiring`) produces; clone fields copied, the others zero.
-/

structure XSt where
  defs : List (Nat × ExtDef) := []
  regs : List (Nat × (ExtDef × X)) := []

/-- `<name>:<tag name | ~>:<options p,c in tag order | ->:<embedded 0|1>:<zero>:<kind>:<raw tag>` — the
field as the generator's parser sees it; `createField` (the model) turns it into a `FieldDef` -/
def decField (w : String) : Option FieldDef :=
  match w.splitOn ":" with
  | [n, t, o, emb, z, _kind, _tag] => do
    let n ← dec n
    let t ← if t == "~" then pure none else (dec t).map some
    let z ← dec z
    let opts := if o == "-" then [] else o.toList.filterMap (fun c =>
      if c == 'p' then some "print".toList else if c == 'c' then some "clone".toList else none)
    pure (createField { name := n, embedded := emb == "1", tagName := t, opts := opts, zero := z })
  | _ => none

def handleX (st : XSt) (ws : List String) : XSt × String :=
  match ws with
  | ["def", id, spec] =>
    match id.toNat?, (if spec == "-" then some [] else (spec.splitOn ",").mapM decField) with
    | some id, some d => ({ st with defs := (id, d) :: st.defs.filter (fun p => p.1 != id) }, "ok")
    | _, _ => (st, "bad-op")
  | ["build", id] =>
    -- every definition of the domain yields a type with all methods (C13 `gerror_derivers_declared_once`);
    -- nothing in the model depends on the names or types of the extra fields
    match id.toNat? with
    | some id => if st.defs.any (fun p => p.1 == id) then (st, "ok") else (st, "bad-def")
    | none => (st, "bad-op")
  | ["new", r, id, n, m, s, v, _idx] =>
    match r.toNat?, id.toNat?, dec n, dec m, dec s, (field "V:" v).bind decList with
    | some r, some id, some n, some m, some s, some vs =>
      match st.defs.find? (fun p => p.1 == id) with
      | some (_, d) =>
        if vs.length != d.length then (st, "bad-op") else
        let x : X := { base := { name := n, msg := m, src := s, dtag := [], stack := [] },
                       vals := (d.map (·.name)).zip vs }
        ({ st with regs := (r, (d, x)) :: st.regs.filter (fun p => p.1 != r) }, "ok")
      | none => (st, "bad-def")
    | _, _, _, _, _, _ => (st, "bad-op")
  | ["call", dst, r, m, _site, f, p, s, elems] =>
    match dst.toNat?, r.toNat?, Method.ofGoName m, field "F:" f, field "P:" p, field "S:" s with
    | some dst, some r, some m, some f, some p, some s =>
      -- a wrapped gerror value: its text is computed here, from the model of the wrapped value
      let wrapped : Option (Option Str) := match decWrap elems with
        | none => some none
        | some (k, wr) => match st.regs.find? (fun q => q.1 == wr) with
          | none => none
          | some (_, (wd, wx)) =>
            let inner := if k == 'w' || k == 'j' then extError wd wx else baseError wx.base
            some (some (if k == 'w' || k == 'v' then wrapText inner else joinText inner))
      match st.regs.find? (fun q => q.1 == r), dec f, decList p, decFrames s, wrapped with
      | _, _, _, _, none => (st, "bad-reg")
      | some (_, (d, x)), some f, some p, some (top :: rest), some wt =>
        let c : Call := { m := m, params := p, formatted := wt.getD f, frames := ⟨top, rest⟩ }
        let b := step x.base c
        let res := toPrimary d x b
        ({ st with regs := (dst, (d, res)) :: st.regs.filter (fun q => q.1 != dst) },
          s!"{obs res.base} | {obs b} | {showVals d res}")
      | none, _, _, _, _ => (st, "bad-reg")
      | _, _, _, _, _ => (st, "bad-op")
    | _, _, _, _, _, _ => (st, "bad-op")
  | ["err", r] =>
    match r.toNat? with
    | some r => match st.regs.find? (fun q => q.1 == r) with
      | some (_, (d, x)) => (st, s!"{enc (extError d x)} | {enc (baseError x.base)}")
      | none => (st, "bad-reg")
    | none => (st, "bad-op")
  | _ => (st, "bad-op")

end Drv.GErrClone

import Model.Gogenproto
import Driver.Util
/-! Line protocol for `Model/Gogenproto` (stateful): `gp mod|d|f|s` build the file system below
`/T`, `gp run k=v…` answers with what the recording protoc stub would have seen. -/
namespace Drv.Gogenproto
open _root_.Gogenproto

structure St where
  mod : String := ""
  fs : List Tree := [.dir "T" []]

def unesc (s : String) : String := s.replace "%20" " "
def esc (s : String) : String := s.replace " " "%20"

def compsOf (s : String) : List String := ((unesc s).splitOn "/").filter (fun c => c ≠ "")

/-- add an entry at path `p` (its parent directories must exist) -/
def insL (cs : List Tree) (p : List String) (leaf : String → Tree) : List Tree :=
  match p with
  | [] => cs
  | [n] => cs ++ [leaf n]
  | d :: rest =>
    cs.map (fun t => match t with
      | .dir n sub => if n = d then .dir n (insL sub rest leaf) else t
      | f => f)

/-- the package of a directory of the scratch module rooted at `/T` -/
def pkgOf (mod : String) (dir : List String) : String :=
  match dir with
  | "T" :: rel => if rel.isEmpty then mod else mod ++ "/" ++ "/".intercalate rel
  | _ => "?"

def flagOf (s : String) : Bool := s == "1"

def parseRun (kvs : List String) : Option Request :=
  kvs.foldlM (fun (rq : Request) w =>
    match w.splitOn "=" with
    | k :: v :: more =>
      let v := unesc ("=".intercalate (v :: more))
      match k with
      | "via" => some rq
      | "cwd" => some { rq with cwd := compsOf v }
      | "in" => some { rq with inputDir := v }
      | "recurse" => some { rq with recurse := flagOf v }
      | "vt" => some { rq with vt := flagOf v }
      | "grpc" => some { rq with grpc := flagOf v }
      | "inc" => some { rq with includes := rq.includes ++ [v] }
      | _ => none
    | _ => none) ⟨["T"], "", false, false, false, []⟩

/-- add an entry; refused unless the path is strictly below `/T`, clean, new, and its parent exists -/
def addEntry (st : St) (p : String) (leaf : String → Tree) : St × String :=
  let cs := compsOf p
  let ok := (unesc p == renderPath cs) && cs.length ≥ 2 && cs.head? == some "T"
    && cs.all (fun c => c ≠ "." && c ≠ "..")
  if !ok then (st, "bad-op") else
  match lookupDir st.fs cs.dropLast with
  | none => (st, "bad-op")
  | some sib =>
    if sib.any (fun t => t.name == cs.getLast!) then (st, "bad-op")
    else ({ st with fs := insL st.fs cs leaf }, "ok")

def handle (st : St) (ws : List String) : St × String :=
  match ws with
  | ["mod", m] => ({ st with mod := m }, "ok")
  | ["d", p] => addEntry st p (fun n => .dir n [])
  | ["f", p, flag] => addEntry st p (fun n => .file n true (flag.startsWith "g1"))
  | ["s", p, _tgt] => addEntry st p (fun n => .file n false false)
  | "run" :: kvs =>
    if st.mod == "" then (st, "bad-op") else
    match parseRun kvs with
    | none => (st, "bad-op")
    | some rq =>
      if (lookupDir st.fs rq.cwd).isNone then (st, "bad-op") else
      match runFS (pkgOf st.mod) st.fs rq with
      | none => (st, "err n=0")
      | some args =>
        let rendered := (args.map (fun a => esc a.render)).mergeSort (fun a b => !(b < a))
        (st, "ok n=1 cwd=" ++ esc (renderPath rq.cwd) ++ " argv: " ++ joinSp rendered)
  | _ => (st, "bad-op")

end Drv.Gogenproto

package main

import (
	"bytes"
	"fmt"
	"go/ast"
	"go/parser"
	"go/token"
	"go/types"
	"os"
	"os/exec"
	"path/filepath"
	"regexp"
	"sort"
	"strings"
	"sync"
)

// outcome is everything observed about one case after the real generator ran.
type outcome struct {
	run      string              // ok | err:<class>
	methods  map[string][]string // receiver type -> sorted method names (`*` = pointer receiver)
	results  map[string]string   // Type.Method -> result type expression (single result)
	imports  []string            // import paths of the generated file that the definition file does not import itself
	fmt      string              // clean | dirty | n/a
	overprev string              // same | differs | n/a (generation over a different, longer previous output vs a fresh package)
	build    string              // ok | fail:<class> | vet:<class> | n/a
	log      string
}

// item is one case being prepared.
type item struct {
	header string
	gen    string
	gc     *genumCase
	ec     *gerrorCase
	sc     *gsortCase
	pkg    string
	dir    string
	out    *outcome
}

type world struct {
	root       string
	repo       string
	harnessDir string
	bins       map[string]string
	env        []string
	nPkg       int
	cache      map[string]*outcome
	genRuns    int
	goBuilds   int
	closed     bool
	par        int
	mu         sync.Mutex
}

func repoFromWorkspace(goWork string) (string, error) {
	b, err := os.ReadFile(goWork)
	if err != nil {
		return "", err
	}
	for _, l := range strings.Split(string(b), "\n") {
		l = strings.TrimSpace(strings.TrimPrefix(strings.TrimSpace(l), "use "))
		if strings.HasSuffix(l, "/genum") {
			return strings.TrimSuffix(l, "/genum"), nil
		}
	}
	return "", fmt.Errorf("no genum module in %s", goWork)
}

func newWorld(harnessDir string) (*world, error) {
	repo, err := repoFromWorkspace(filepath.Join(harnessDir, "go.work"))
	if err != nil {
		return nil, err
	}
	root, err := os.MkdirTemp("", "verif-c13-")
	if err != nil {
		return nil, err
	}
	w := &world{root: root, repo: repo, harnessDir: harnessDir, bins: map[string]string{}, cache: map[string]*outcome{}, par: 4}
	base := append(os.Environ(), "GOPROXY=off", "GOSUMDB=off", "GOTOOLCHAIN=local", "GOFLAGS=")
	// the real CLIs, built from the tree the harness workspace points at
	args := []string{"build", "-o", root + string(filepath.Separator)}
	for _, g := range []string{"genum", "gerror", "gsort"} {
		args = append(args, "github.com/drshriveer/gtools/"+g+"/cmd/"+g)
		w.bins[g] = filepath.Join(root, g)
	}
	cmd := exec.Command("go", args...)
	cmd.Dir = harnessDir
	cmd.Env = base
	if out, err := cmd.CombinedOutput(); err != nil {
		os.RemoveAll(root)
		return nil, fmt.Errorf("building the generator CLIs: %v\n%s", err, out)
	}
	// scratch module inside a workspace that takes the gtools modules from the same tree
	mod := filepath.Join(root, "m")
	os.MkdirAll(mod, 0o755)
	os.WriteFile(filepath.Join(mod, "go.mod"), []byte("module scratch\n\ngo 1.23\n"), 0o644)
	var ws strings.Builder
	ws.WriteString("go 1.23.0\n\nuse (\n\t.\n")
	for _, m := range []string{"gencommon", "genum", "gerror", "gsort", "rutils", "set"} {
		fmt.Fprintf(&ws, "\t%s\n", filepath.Join(repo, m))
	}
	ws.WriteString(")\n")
	os.WriteFile(filepath.Join(mod, "go.work"), []byte(ws.String()), 0o644)
	if sum, err := os.ReadFile(filepath.Join(harnessDir, "go.work.sum")); err == nil {
		os.WriteFile(filepath.Join(mod, "go.work.sum"), sum, 0o644)
	}
	w.env = append(base, "GOWORK="+filepath.Join(mod, "go.work"), "GO111MODULE=on")
	return w, nil
}

func (w *world) close() {
	if w.closed {
		return
	}
	w.closed = true
	os.RemoveAll(w.root)
}

func parseHeader(header string) (*item, error) {
	ws := strings.Fields(header)
	if len(ws) < 3 || ws[0] != "case" || (ws[1] != "gg" && ws[1] != "go_") {
		return nil, fmt.Errorf("not a gg case header")
	}
	it := &item{header: header, gen: ws[2]}
	var err error
	switch ws[2] {
	case "genum":
		it.gc, err = parseGenum(ws[3:])
	case "gerror":
		it.ec, err = parseGerror(ws[3:])
	case "gsort":
		it.sc, err = parseGsort(ws[3:])
	default:
		err = fmt.Errorf("unknown generator")
	}
	return it, err
}

func classifyGen(out string) string {
	switch {
	case strings.Contains(out, "parsableByTrait values must be unique"):
		return "err:parsable-not-unique"
	case strings.Contains(out, "has no name that can be converted"):
		return "err:trait-no-name"
	case strings.Contains(out, "trait defintions"):
		return "err:trait-count"
	case strings.Contains(out, "does not embed GError"):
		return "err:no-embed"
	case strings.Contains(out, "unsupported options"):
		return "err:bad-option"
	case strings.Contains(out, "same sort priority"):
		return "err:dup-priority"
	case strings.Contains(out, "was not found in AST"):
		return "err:type-not-found"
	case strings.Contains(out, "panic:"):
		return "err:panic"
	}
	return "err:other"
}

func classifyBuild(out string) string {
	switch {
	case strings.Contains(out, "does not implement") || strings.Contains(out, "missing method"):
		return "not-implemented"
	case strings.Contains(out, "operator") && strings.Contains(out, "not defined on"):
		return "operator-undefined"
	case strings.Contains(out, "has no field or method"):
		return "no-such-method"
	case strings.Contains(out, "duplicate case"):
		return "duplicate-case"
	case strings.Contains(out, "redeclared") || strings.Contains(out, "no new variables") || strings.Contains(out, "already declared"):
		return "redeclared"
	case strings.Contains(out, "undefined:"):
		return "undefined"
	case strings.Contains(out, "imported and not used") || strings.Contains(out, "declared and not used"):
		return "unused"
	case strings.Contains(out, "syntax error") || strings.Contains(out, "expected "):
		return "syntax"
	case strings.Contains(out, "cannot use") || strings.Contains(out, "cannot convert") || strings.Contains(out, "mismatched types"):
		return "type-mismatch"
	}
	return "other"
}

var reVetMsg = regexp.MustCompile(`: ([a-z][a-z -]+)`)

// generate runs the real CLI on one item the way go:generate would (cwd = package directory).
func (w *world) generate(it *item) {
	o := &outcome{methods: map[string][]string{}, results: map[string]string{}, fmt: "n/a", build: "n/a", overprev: "n/a"}
	it.out = o
	defs := filepath.Join(it.dir, "defs.go")
	src, args := it.srcArgs()
	assert := it.assertSource()
	os.WriteFile(defs, []byte(src), 0o644)
	runCLI := func(dir string, a []string) ([]byte, error) {
		cmd := exec.Command(w.bins[it.gen], a...)
		cmd.Dir = dir
		cmd.Env = append(append([]string{}, w.env...), "PWD="+dir, "GOFILE=defs.go", "GOPACKAGE="+it.pkg)
		return cmd.CombinedOutput()
	}
	// a previous run with a longer output in the same package (what go generate leaves behind
	// before a directive or definition is edited)
	prev := it.prevArgs()
	if prev != nil {
		if out, err := runCLI(it.dir, prev); err != nil {
			o.log += "previous run failed: " + string(out)
			prev = nil
		}
	}
	out, err := runCLI(it.dir, args)
	o.log += string(out)
	if err != nil {
		o.run = classifyGen(string(out))
		// a definition the generator rejected must not break the batch build
		os.Remove(defs)
		os.Remove(filepath.Join(it.dir, "defs."+it.gen+".go"))
		os.WriteFile(filepath.Join(it.dir, "empty.go"), []byte("package "+it.pkg+"\n"), 0o644)
		return
	}
	o.run = "ok"
	genFile := filepath.Join(it.dir, "defs."+it.gen+".go")
	b, err := os.ReadFile(genFile)
	if prev != nil {
		// the same run in a fresh package must write the same bytes
		fresh := filepath.Join(w.root, "m", "fresh_"+it.pkg, it.pkg)
		os.MkdirAll(fresh, 0o755)
		os.WriteFile(filepath.Join(fresh, "defs.go"), []byte(src), 0o644)
		o.overprev = "differs"
		if _, ferr := runCLI(fresh, args); ferr == nil {
			fb, ferr2 := os.ReadFile(filepath.Join(fresh, "defs."+it.gen+".go"))
			if (ferr2 != nil && err != nil) || (ferr2 == nil && err == nil && bytes.Equal(fb, b)) {
				o.overprev = "same"
			}
		}
		os.RemoveAll(filepath.Dir(fresh))
	}
	if err != nil {
		// gsort writes nothing when no sorter is defined
		o.fmt, o.imports = "clean", nil
		os.WriteFile(filepath.Join(it.dir, "assert_verif.go"), []byte(assert), 0o644)
		return
	}
	os.WriteFile(filepath.Join(it.dir, "assert_verif.go"), []byte(assert), 0o644)
	fset := token.NewFileSet()
	f, err := parser.ParseFile(fset, genFile, b, 0)
	if err != nil {
		o.methods = nil
		return
	}
	own := map[string]bool{}
	if df, err := parser.ParseFile(token.NewFileSet(), defs, src, parser.ImportsOnly); err == nil {
		for _, i := range df.Imports {
			own[strings.Trim(i.Path.Value, `"`)] = true
		}
	}
	for _, i := range f.Imports {
		p := strings.Trim(i.Path.Value, `"`)
		if !own[p] {
			o.imports = append(o.imports, p)
		}
	}
	sort.Strings(o.imports)
	for _, d := range f.Decls {
		fd, ok := d.(*ast.FuncDecl)
		if !ok || fd.Recv == nil || len(fd.Recv.List) != 1 {
			continue
		}
		t := fd.Recv.List[0].Type
		mark := ""
		if s, ok := t.(*ast.StarExpr); ok {
			t, mark = s.X, "*"
		}
		if id, ok := t.(*ast.Ident); ok {
			o.methods[id.Name] = append(o.methods[id.Name], mark+fd.Name.Name)
			if fd.Type.Results != nil && len(fd.Type.Results.List) == 1 {
				o.results[id.Name+"."+fd.Name.Name] = types.ExprString(fd.Type.Results.List[0].Type)
			}
		}
	}
	for k := range o.methods {
		sort.Strings(o.methods[k])
	}
}

// prepare runs a batch of cases: the generators (a few in parallel), then ONE gofmt -l, go build
// and go vet over all scratch packages of the batch.
func (w *world) prepare(headers []string) {
	var items []*item
	batch := filepath.Join(w.root, "m", fmt.Sprintf("b%d", w.nPkg))
	for _, h := range headers {
		if o := w.cache[h]; o != nil {
			continue
		}
		it, err := parseHeader(h)
		if err != nil {
			w.cache[h] = &outcome{run: "bad-op", fmt: "n/a", build: "n/a"}
			continue
		}
		it.pkg = fmt.Sprintf("p%d", w.nPkg)
		it.dir = filepath.Join(batch, it.pkg)
		w.nPkg++
		os.MkdirAll(it.dir, 0o755)
		items = append(items, it)
	}
	if len(items) == 0 {
		return
	}
	var wg sync.WaitGroup
	ch := make(chan *item)
	for k := 0; k < w.par; k++ {
		wg.Add(1)
		go func() {
			defer wg.Done()
			for it := range ch {
				w.generate(it)
			}
		}()
	}
	for _, it := range items {
		ch <- it
	}
	close(ch)
	wg.Wait()
	w.genRuns += len(items)

	byPkg := map[string]*item{}
	var genFiles []string
	for _, it := range items {
		byPkg[it.pkg] = it
		if it.out.run == "ok" {
			it.out.fmt, it.out.build = "clean", "ok"
			gf := filepath.Join(it.dir, "defs."+it.gen+".go")
			if _, err := os.Stat(gf); err == nil {
				genFiles = append(genFiles, gf)
			}
		}
	}
	if len(genFiles) > 0 {
		cmd := exec.Command("gofmt", append([]string{"-l"}, genFiles...)...)
		cmd.Env = w.env
		out, _ := cmd.CombinedOutput()
		for _, l := range strings.Split(string(out), "\n") {
			l = strings.TrimSpace(l)
			if l == "" {
				continue
			}
			// either a listed file name or `file:line:col: message` of a file that does not parse
			name := l
			if i := strings.Index(l, ".go:"); i > 0 {
				name = l[:i+3]
			}
			if it := byPkg[filepath.Base(filepath.Dir(name))]; it != nil {
				it.out.fmt = "dirty"
			}
		}
	}
	sections := func(out string) map[string]string {
		res := map[string]string{}
		cur := ""
		for _, l := range strings.Split(out, "\n") {
			if strings.HasPrefix(l, "# ") {
				f := strings.Fields(l)
				cur = filepath.Base(f[1])
				continue
			}
			if cur != "" {
				res[cur] += l + "\n"
			}
		}
		return res
	}
	w.goBuilds++
	bld := exec.Command("go", "build", "-p", "4", "./...")
	bld.Dir = batch
	bld.Env = w.env
	bout, berr := bld.CombinedOutput()
	failed := map[string]bool{}
	if berr != nil {
		secs := sections(string(bout))
		for pkg, txt := range secs {
			if it := byPkg[pkg]; it != nil && it.out.run == "ok" {
				it.out.build = "fail:" + classifyBuild(txt)
				it.out.log += txt
				failed[pkg] = true
			}
		}
		if len(failed) == 0 {
			for _, it := range items {
				if it.out.run == "ok" {
					it.out.build = "fail:batch"
					it.out.log += string(bout)
				}
			}
		}
	}
	vet := exec.Command("go", "vet", "-p", "4", "./...")
	vet.Dir = batch
	vet.Env = w.env
	vout, verr := vet.CombinedOutput()
	if verr != nil {
		for pkg, txt := range sections(string(vout)) {
			it := byPkg[pkg]
			if it == nil || it.out.run != "ok" || failed[pkg] || it.out.build != "ok" {
				continue
			}
			cls := "other"
			if m := reVetMsg.FindStringSubmatch(txt); m != nil {
				cls = strings.ReplaceAll(strings.TrimSpace(m[1]), " ", "-")
			}
			it.out.build = "vet:" + cls
			it.out.log += txt
		}
	}
	for _, it := range items {
		w.cache[it.header] = it.out
	}
	if os.Getenv("VERIF_KEEP") == "" {
		os.RemoveAll(batch)
	}
}

func (w *world) get(header string) *outcome {
	if o := w.cache[header]; o != nil {
		return o
	}
	w.prepare([]string{header})
	return w.cache[header]
}

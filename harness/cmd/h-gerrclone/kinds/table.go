package kinds

import "fmt"

// Kind is one field type of types.go with a few values: Exprs[i] is the Go expression (valid inside
// a package that holds a copy of types.go) of Vals[i]; index 0 is the zero value of the type.
type Kind struct {
	Name   string
	GoType string
	Exprs  []string
	Vals   []any
	Embed  string // non-empty: used as an anonymous field only; the field name Go derives from the type
}

func box(w, h int) *KBox { return &KBox{W: w, H: h} }

// Table lists the kinds.  How `%v` renders a value is NOT written down here: Render asks fmt.
var Table = []Kind{
	{"kstr", "KStr", []string{`KStr("")`, `KStr("E42")`, `KStr("a, b: c")`}, []any{KStr(""), KStr("E42"), KStr("a, b: c")}, ""},
	{"kstrerr", "KStrErr", []string{`KStrErr("")`, `KStrErr("boom")`, `KStrErr("hé %d")`}, []any{KStrErr(""), KStrErr("boom"), KStrErr("hé %d")}, ""},
	{"kstrboth", "KStrBoth", []string{`KStrBoth("")`, `KStrBoth("x")`}, []any{KStrBoth(""), KStrBoth("x")}, ""},
	{"kstrfmt", "KStrFmt", []string{`KStrFmt("")`, `KStrFmt("realm")`}, []any{KStrFmt(""), KStrFmt("realm")}, ""},
	{"kstrptr", "KStrPtr", []string{`KStrPtr("")`, `KStrPtr("raw")`}, []any{KStrPtr(""), KStrPtr("raw")}, ""},
	{"kstrptrfmt", "KStrPtrFmt", []string{`KStrPtrFmt("")`, `KStrPtrFmt("raw2")`}, []any{KStrPtrFmt(""), KStrPtrFmt("raw2")}, ""},
	{"kstrgo", "KStrGo", []string{`KStrGo("")`, `KStrGo("plain")`}, []any{KStrGo(""), KStrGo("plain")}, ""},
	{"kint", "KInt", []string{"KInt(0)", "KInt(13)"}, []any{KInt(0), KInt(13)}, ""},
	{"kintfmt", "KIntFmt", []string{"KIntFmt(0)", "KIntFmt(42)"}, []any{KIntFmt(0), KIntFmt(42)}, ""},
	{"kbool", "KBool", []string{"KBool(false)", "KBool(true)"}, []any{KBool(false), KBool(true)}, ""},
	{"kpair", "KPair", []string{"KPair{}", `KPair{A: 3, B: "z"}`}, []any{KPair{}, KPair{A: 3, B: "z"}}, ""},
	{"kbox", "KBox", []string{"KBox{}", "KBox{W: 2, H: 3}"}, []any{KBox{}, KBox{W: 2, H: 3}}, ""},
	{"kpbox", "*KBox", []string{"nil", "&KBox{W: 2, H: 3}"}, []any{(*KBox)(nil), box(2, 3)}, ""},
	{"kmeta", "KMeta", []string{"KMeta{}", `KMeta{Name: "inner", Source: 4, Message: true}`}, []any{KMeta{}, KMeta{Name: "inner", Source: 4, Message: true}}, "KMeta"},
	{"kpstr", "*KStrPtr", []string{"nil", `KP("pp")`}, []any{(*KStrPtr)(nil), KP("pp")}, ""},
}

// Render is fmt's `%v` text of a value: what `fmt.Sprintf("<name>: %v", e.Field)` prints after the
// name, computed here, by fmt itself, without any generated code.
func Render(v any) string { return fmt.Sprintf("%v", v) }

import Properties.C12TieV
import Lemmas.GoKV
/-!
# C12, tie A by translation: the repeated Parse keys that `validateParsableTraits` marks = the model's `repeatMarks`

Second job of the function (/repo 7793249, 42de8c1, 20f316d): a row whose own written constant - exact value and
(default) type - was already walked for the same enum value under a parsable trait is marked `repeatsParseKey`
(and `InstanceOf` then leaves it out of the value's case); an equal constant of another type is not.
`go_validateParsable_marks`: on unmarked descriptors related to the model's (`DescRelK`: every instance carries
the type identity `tid` and the exact value `kv` of the model row's `dyn`, both injective), when the function
returns no error the marks it leaves are exactly `Genum.repeatMarks`.  The map key the code builds
(`owner name + "\x00" + value`) determines its two parts when owner names contain no NUL; that fact about Go
identifiers is the hypothesis `hkey` (not proved here).
-/
set_option linter.unusedSimpArgs false
set_option linter.unusedVariables false
namespace C12Tie
open Generated.GoGenumValues Generated.GoGenumGen Genum GoLoop

def marksOf (xs : List GTraitInstance) : List Bool := xs.map (·.repeatsParseKey)

/-- the key the code builds from an owner name and a constant value -/
def keyStr (a b : String) : String := a ++ "\x00" ++ b

/-- the code's `parseKeys` and the model's walked (owner name, constant) pairs -/
def SeenRel (Ident : String → Prop) (tid : String → Nat) (kv : Scalar → String) (seen : List (String × Dyn)) (tm : TMap) : Prop :=
  ∀ a b, Ident a → (tmGet tm (keyStr a b)).map (·.defaultTypeId)
    = (seen.filter (fun p => p.1 == a && kv p.2.v == b)).map (fun p => tid p.2.ty)

/-- a model row and a code instance: `RowRel`, and the instance records the row's own constant -/
structure RowRelK (Ident : String → Prop) (tid : String → Nat) (kv : Scalar → String) (first : Genum.Value) (ty : String)
    (r : TraitRow) (x : GTraitInstance) : Prop where
  rel : RowRel first ty r x
  ident : Ident r.owner.name
  notNil : x.keyType.isNil = false
  tyid : x.keyType.defaultTypeId = tid r.dyn.ty
  value : x.keyValue = kv r.dyn.v

structure DescRelK (Ident : String → Prop) (tid : String → Nat) (kv : Scalar → String) (first : Genum.Value)
    (t : Genum.TraitDesc) (g : GTraitDesc) : Prop where
  name : g.Name = t.name
  parsable : g.Parsable = t.parsable
  fam : FamilyOf g.«Type» t.fam
  rows : All₂ (RowRelK Ident tid kv first t.ty) t.rows g.Traits

theorem All₂.mono {α β : Type} {R S : α → β → Prop} (hRS : ∀ a b, R a b → S a b) {l : List α} {l' : List β}
    (h : All₂ R l l') : All₂ S l l' := by
  induction h with
  | nil => exact .nil
  | cons hab _ ih => exact .cons (hRS _ _ hab) ih

theorem DescRelK.toRel {Ident tid kv first t g} (h : DescRelK Ident tid kv first t g) : DescRel first t g :=
  ⟨h.name, h.parsable, h.fam, h.rows.mono (fun _ _ hr => hr.rel)⟩

section
variable (Ident : String → Prop) (tid : String → Nat) (kv : Scalar → String)
variable (htid : ∀ a b, tid a = tid b → a = b) (hkv : ∀ a b, kv a = kv b → a = b)
variable (hkey : ∀ a b c d, Ident a → Ident c → keyStr a b = keyStr c d → a = c ∧ b = d)

include htid hkv in
theorem any_sameDefault (seen : List (String × Dyn)) (tm : TMap) (h : SeenRel Ident tid kv seen tm)
    (kty : GType) (a : String) (d : Dyn) (ha : Ident a) (hty : kty.defaultTypeId = tid d.ty) :
    (tmGet tm (keyStr a (kv d.v))).any (sameDefault kty) = seen.contains (a, d) := by
  have h1 : (tmGet tm (keyStr a (kv d.v))).any (sameDefault kty)
      = ((tmGet tm (keyStr a (kv d.v))).map (·.defaultTypeId)).any (fun i => i == tid d.ty) := by
    rw [List.any_map]
    congr 1
    funext s
    simp [sameDefault, hty]
  rw [h1, h a (kv d.v) ha, Bool.eq_iff_iff]
  simp only [List.any_eq_true, List.mem_map, List.mem_filter, List.contains_iff_mem, beq_iff_eq, Bool.and_eq_true]
  constructor
  · rintro ⟨i, ⟨p, ⟨hp, hpa, hpv⟩, rfl⟩, hi⟩
    obtain ⟨pa, ⟨pty, pv⟩⟩ := p
    simp only at hpa hpv hi
    have e1 := htid _ _ hi
    have e2 := hkv _ _ hpv
    subst hpa; subst e1; subst e2
    exact hp
  · intro hm
    exact ⟨tid d.ty, ⟨(a, d), ⟨hm, rfl, rfl⟩, rfl⟩, rfl⟩

include hkey in
theorem seenRel_step (seen : List (String × Dyn)) (tm : TMap) (h : SeenRel Ident tid kv seen tm)
    (kty : GType) (a : String) (d : Dyn) (ha : Ident a) (hty : kty.defaultTypeId = tid d.ty) :
    SeenRel Ident tid kv (seen ++ [(a, d)]) (Go.kvSet tm (keyStr a (kv d.v)) (tmGet tm (keyStr a (kv d.v)) ++ [kty])) := by
  intro a' b' ha'
  unfold tmGet
  rw [Go.kvGet_kvSet', List.filter_append]
  by_cases he : keyStr a (kv d.v) = keyStr a' b'
  · obtain ⟨e1, e2⟩ := hkey _ _ _ _ ha ha' he
    subst e1; subst e2
    have := h a (kv d.v) ha
    unfold tmGet at this
    simp [this, hty]
  · have := h a' b' ha'
    unfold tmGet at this
    have hne : ¬ (a = a' ∧ kv d.v = b') := by
      rintro ⟨e1, e2⟩; exact he (by rw [e1, e2])
    have hf : ([(a, d)] : List (String × Dyn)).filter (fun p => p.1 == a' && kv p.2.v == b') = [] := by
      simp only [List.filter_cons, List.filter_nil]
      by_cases h1 : a = a'
      · by_cases h2 : kv d.v = b'
        · exact absurd ⟨h1, h2⟩ hne
        · simp [h1, h2]
      · simp [h1]
    simp [he, this, hf]

include htid hkv hkey in
theorem marks_insts (first : Genum.Value) (ty : String)
    {rows : List TraitRow} {xs : List GTraitInstance} (h : All₂ (RowRelK Ident tid kv first ty) rows xs) :
    ∀ (seen : List (String × Dyn)) (m : SMap) (tm : TMap), (∀ x ∈ xs, x.repeatsParseKey = false) →
      SeenRel Ident tid kv seen tm → (vpInsts m tm xs).2.2.2 = true →
      marksOf (vpInsts m tm xs).2.2.1 = (markRows seen rows).1 ∧
      SeenRel Ident tid kv (markRows seen rows).2 (vpInsts m tm xs).2.1 := by
  induction h with
  | nil => intro seen m tm _ hs _; exact ⟨rfl, hs⟩
  | @cons r x rows xs hab _ ih =>
    intro seen m tm hun hs hok
    have hx : x.repeatsParseKey = false := hun x (by simp)
    have hun' : ∀ y ∈ xs, y.repeatsParseKey = false := fun y hy => hun y (by simp [hy])
    have hkeyx : keyOf x = keyStr r.owner.name (kv r.dyn.v) := by
      unfold keyOf keyStr
      rw [hab.rel.owner, hab.value]; rfl
    have hmark : vpMark tm x = (Go.kvSet tm (keyStr r.owner.name (kv r.dyn.v)) (tmGet tm (keyStr r.owner.name (kv r.dyn.v)) ++ [x.keyType]),
        if seen.contains (r.owner.name, r.dyn) then markOf x else x) := by
      unfold vpMark
      rw [hab.notNil, hkeyx, any_sameDefault Ident tid kv htid hkv seen tm hs x.keyType r.owner.name r.dyn hab.ident hab.tyid]
      simp
    have hstep : ∀ (m' : SMap), vpStep m tm x = some (m', (vpMark tm x).1, (vpMark tm x).2) →
        (vpInsts m tm (x :: xs)) = ((vpInsts m' (vpMark tm x).1 xs).1, (vpInsts m' (vpMark tm x).1 xs).2.1,
          (vpMark tm x).2 :: (vpInsts m' (vpMark tm x).1 xs).2.2.1, (vpInsts m' (vpMark tm x).1 xs).2.2.2) := by
      intro m' hst
      simp [vpInsts, hst]
    have hcases : vpStep m tm x = none ∨
        vpStep m tm x = some (Go.kvSet m x.value x.OwningValue.Name, (vpMark tm x).1, (vpMark tm x).2) := by
      unfold vpStep
      rcases Option.eq_none_or_eq_some (Go.kvGet m x.value) with hg | ⟨o, hg⟩
      · simp [hg]
      · by_cases hne : (o != x.OwningValue.Name) = true <;> simp [hg, hne]
    rcases hcases with hnone | hsome
    · have : (vpInsts m tm (x :: xs)).2.2.2 = false := by simp [vpInsts, hnone]
      rw [this] at hok; cases hok
    · have hv := hstep _ hsome
      rw [hv] at hok ⊢
      simp only at hok ⊢
      rw [hmark] at hok ⊢
      simp only at hok ⊢
      have := ih (seen ++ [(r.owner.name, r.dyn)]) _ _ hun'
        (seenRel_step Ident tid kv hkey seen tm hs x.keyType r.owner.name r.dyn hab.ident hab.tyid) hok
      unfold markRows
      refine ⟨?_, this.2⟩
      simp only [marksOf, List.map_cons]
      by_cases hc : seen.contains (r.owner.name, r.dyn) = true
      · simp only [hc, if_true, markOf]
        exact congrArg _ this.1
      · simp only [hc, if_false, hx, Bool.false_eq_true]
        exact congrArg _ this.1

include htid hkv hkey in
theorem marks_descs (first : Genum.Value)
    {ts : List Genum.TraitDesc} {gs : List GTraitDesc} (h : All₂ (DescRelK Ident tid kv first) ts gs) :
    ∀ (seen : List (String × Dyn)) (m : SMap) (tm : TMap), (∀ g ∈ gs, ∀ x ∈ g.Traits, x.repeatsParseKey = false) →
      SeenRel Ident tid kv seen tm → (vpDescs m tm gs).2.2.2 = true →
      (vpDescs m tm gs).1.map (fun g => marksOf g.Traits) = repeatMarksFrom seen ts := by
  induction h with
  | nil => intro seen m tm _ _ _; rfl
  | @cons t g ts gs hab _ ih =>
    intro seen m tm hun hs hok
    have hun' : ∀ g' ∈ gs, ∀ x ∈ g'.Traits, x.repeatsParseKey = false := fun g' hg' => hun g' (by simp [hg'])
    unfold vpDescs at hok ⊢
    unfold repeatMarksFrom
    rw [← hab.parsable]
    by_cases hp : g.Parsable = true
    · by_cases hok1 : (vpInsts m tm g.Traits).2.2.2 = true
      · rw [if_pos hp, if_pos hok1] at hok
        rw [if_pos hp, if_pos hok1, if_pos hp]
        obtain ⟨h1, h2⟩ := marks_insts Ident tid kv htid hkv hkey first t.ty hab.rows seen m tm (hun g (by simp)) hs hok1
        simp only [List.map_cons, h1]
        exact congrArg _ (ih _ _ _ hun' h2 hok)
      · rw [if_pos hp, if_neg hok1] at hok
        simp at hok
    · rw [if_neg hp] at hok
      rw [if_neg hp, if_neg hp]
      simp only [List.map_cons]
      have hrows : marksOf g.Traits = t.rows.map (fun _ => false) := by
        have hu := hun g (by simp)
        have hl : ∀ {rows : List TraitRow} {xs : List GTraitInstance}, All₂ (RowRelK Ident tid kv first t.ty) rows xs →
            (∀ x ∈ xs, x.repeatsParseKey = false) → marksOf xs = rows.map (fun _ => false) := by
          intro rows xs hr
          induction hr with
          | nil => intro _; rfl
          | @cons r x rows xs _ _ ih2 =>
            intro hu2
            simp only [marksOf, List.map_cons, hu2 x (by simp)]
            exact congrArg _ (ih2 (fun y hy => hu2 y (by simp [hy])))
        exact hl hab.rows hu
      rw [hrows]
      exact congrArg _ (ih seen m tm hun' hs hok)

include htid hkv hkey in
/-- the marks the translated `validateParsableTraits` leaves = the model's `repeatMarks`: for all unmarked
descriptors of the model's traits, when the texts are unique per enum value (no error) -/
theorem go_validateParsable_marks (first : Genum.Value)
    (ts : List Genum.TraitDesc) (gs : List GTraitDesc) (h : All₂ (DescRelK Ident tid kv first) ts gs)
    (hun : ∀ g ∈ gs, ∀ x ∈ g.Traits, x.repeatsParseKey = false) (hu : parsableUnique first ts = true) (e : String) :
    ∃ gs', validateParsableTraits e gs = pure (gs', none) ∧
      gs'.map (fun g => marksOf g.Traits) = repeatMarks ts := by
  have hrel : All₂ (DescRel first) ts gs := h.mono (fun _ _ hd => hd.toRel)
  obtain ⟨gs', hgs, _⟩ := go_validateParsable_eq first ts gs hrel e
  rw [hu] at hgs
  have hcl := go_validateParsable_closed e gs
  rw [hcl] at hgs
  have hinj := Except.ok.inj hgs
  have hok : (vpDescs [] [] gs).2.2.2 = true := by
    have h2 := congrArg Prod.snd hinj
    simp only [if_true] at h2
    by_cases hv : (vpDescs [] [] gs).2.2.2 = true
    · exact hv
    · simp [hv] at h2
  refine ⟨(vpDescs [] [] gs).1, ?_, ?_⟩
  · rw [hcl]; simp [hok]
  · exact marks_descs Ident tid kv htid hkv hkey first h [] [] [] hun (fun a b _ => by simp [tmGet, Go.kvGet]; rfl) hok
end

/-- on the property's domain no row is marked: when the walked rows carry pairwise different (owner, constant)
pairs, `markRows` is all `false` (so `InstanceOf` of the translated code is the model's `instanceOf`,
`go_instanceOf_eq`) -/
theorem markRows_none (rows : List TraitRow) : ∀ seen : List (String × Dyn),
    (∀ r ∈ rows, (r.owner.name, r.dyn) ∉ seen) → (rows.map (fun r => (r.owner.name, r.dyn))).Nodup →
    (markRows seen rows).1 = rows.map (fun _ => false) := by
  induction rows with
  | nil => intro _ _ _; rfl
  | cons r rows ih =>
    intro seen hs hn
    simp only [List.map_cons, List.nodup_cons] at hn
    unfold markRows
    have h0 : seen.contains (r.owner.name, r.dyn) = false := by
      rw [Bool.eq_false_iff]; intro hc; exact hs r (by simp) (by simpa using hc)
    simp only [h0, List.map_cons]
    refine congrArg _ (ih _ (fun r' hr' hm => ?_) hn.2)
    simp only [List.mem_append, List.mem_singleton] at hm
    rcases hm with hm | hm
    · exact hs r' (by simp [hr']) hm
    · exact hn.1 (List.mem_map.mpr ⟨r', hr', hm⟩)

end C12Tie

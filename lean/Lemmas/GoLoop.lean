import Model.GoPrelude
/-!
# Loop lemmas for translated Go code (`harness/cmd/go2lean`)

A Go `for … range` becomes `forIn` in the monad `Go.M`.  The two shapes below cover the loops of
the translated fragment; both are stated for an arbitrary loop body, so that the proof obligations
"generated function = hand-written model" only have to analyse ONE iteration (by case analysis and
`simp`), and do not depend on how the translator spells the body.
-/
namespace GoLoop
variable {α β : Type}

/-- A loop whose body never leaves early and cannot panic while the invariant `P` holds is a
left fold. -/
theorem forIn_yield (body : α → β → Go.M (ForInStep β)) (f : β → α → β) (P : β → Prop)
    (hP : ∀ b a, P b → P (f b a)) (h : ∀ a b, P b → body a b = pure (.yield (f b a)))
    (items : List α) (b : β) (hb : P b) :
    forIn items b body = pure (items.foldl f b) := by
  induction items generalizing b with
  | nil => rfl
  | cons a as ih =>
    simp only [List.forIn_cons, h a b hb, pure_bind, List.foldl_cons]
    exact ih _ (hP b a hb)

/-- A search loop: the body either leaves with a fixed state or carries on unchanged. -/
theorem forIn_search (body : α → β → Go.M (ForInStep β)) (p : α → Bool) (d b0 : β)
    (h : ∀ a, body a b0 = if p a then pure (.done d) else pure (.yield b0)) (items : List α) :
    forIn items b0 body = pure (if items.any p then d else b0) := by
  induction items with
  | nil => rfl
  | cons a as ih =>
    simp only [List.forIn_cons, h a, List.any_cons]
    by_cases hp : p a = true
    · simp [hp]
    · simp [hp, ih]

/-- Two folds over the same items whose states are related by `g` step by step. -/
theorem foldl_map_state {σ τ : Type} (g : σ → τ) (f : σ → α → σ) (f' : τ → α → τ)
    (h : ∀ s a, g (f s a) = f' (g s) a) (items : List α) (s : σ) :
    g (items.foldl f s) = items.foldl f' (g s) := by
  induction items generalizing s with
  | nil => rfl
  | cons a as ih => simp only [List.foldl_cons, ih, h]

theorem forIn_range'_get {α β : Type} [Inhabited α] (xs : List α) (body : α → β → Go.M (ForInStep β)) :
    ∀ (k : Nat) (b : β), k ≤ xs.length →
    forIn (List.range' k (xs.length - k)) b (fun i st => do let v ← Go.listGet xs i; body v st)
      = forIn (xs.drop k) b body := by
  intro k
  generalize hn : xs.length - k = n
  induction n generalizing k with
  | zero =>
    intro b hk
    have : xs.drop k = [] := List.drop_eq_nil_of_le (by omega)
    simp [this]
  | succ n ih =>
    intro b hk
    have hlt : k < xs.length := by omega
    have hd : xs.drop k = xs[k] :: xs.drop (k + 1) := (List.drop_eq_getElem_cons hlt)
    rw [hd, List.range'_succ, List.forIn_cons, List.forIn_cons]
    have hg : Go.listGet xs k = pure xs[k] := by
      unfold Go.listGet; simp [hlt]
    rw [hg, pure_bind]
    congr 1
    funext r
    cases r with
    | done b' => rfl
    | yield b' => exact ih (k + 1) (by omega) b' (by omega)


/-- a loop that carries a state and may return early: one iteration either continues with a new
state or leaves with a result -/
def searchFold {α σ ρ : Type} (step : σ → α → Sum σ ρ) : σ → List α → Option ρ × σ
  | s, [] => (none, s)
  | s, a :: as =>
    match step s a with
    | .inl s' => searchFold step s' as
    | .inr r => (some r, s)

theorem forIn_searchFold {α σ ρ : Type} (body : α → Option ρ × σ → Go.M (ForInStep (Option ρ × σ)))
    (step : σ → α → Sum σ ρ)
    (h : ∀ a s, body a (none, s) = pure (match step s a with
      | .inl s' => ForInStep.yield (none, s') | .inr r => ForInStep.done (some r, s)))
    (xs : List α) (s : σ) : forIn xs (none, s) body = pure (searchFold step s xs) := by
  induction xs generalizing s with
  | nil => rfl
  | cons a as ih =>
    rw [List.forIn_cons, h a s]
    unfold searchFold
    cases step s a with
    | inl s' => simpa using ih s'
    | inr r => simp


theorem listGet_zero {α : Type} [Inhabited α] (x : α) (xs : List α) : Go.listGet (x :: xs) 0 = pure x := by
  simp [Go.listGet]


section
variable {α σ ρ : Type}
/-- as `searchFold`, but leaving the loop also fixes the final state -/
def searchFold2 (step : σ → α → Sum σ (ρ × σ)) : σ → List α → Option ρ × σ
  | s, [] => (none, s)
  | s, a :: as =>
    match step s a with
    | .inl s' => searchFold2 step s' as
    | .inr (r, s') => (some r, s')

theorem forIn_searchFold2 (body : α → Option ρ × σ → Go.M (ForInStep (Option ρ × σ)))
    (step : σ → α → Sum σ (ρ × σ))
    (h : ∀ a s, body a (none, s) = pure (match step s a with
      | .inl s' => ForInStep.yield (none, s') | .inr (r, s') => ForInStep.done (some r, s')))
    (xs : List α) (s : σ) : forIn xs (none, s) body = pure (searchFold2 step s xs) := by
  induction xs generalizing s with
  | nil => rfl
  | cons a as ih =>
    rw [List.forIn_cons, h a s]
    unfold searchFold2
    cases step s a with
    | inl s' => simpa using ih s'
    | inr r => obtain ⟨r, s'⟩ := r; simp
end

end GoLoop

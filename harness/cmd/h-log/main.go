// h-log: correspondence runner for /repo/log (property C18).
//
// Sequential clause (tie B): operation sequences on the REAL package github.com/drshriveer/gtools/log,
// observed through a zaptest/observer core at every level after every step, compared with
// Model/Log.lean.  Concurrent clause (tie C): an instrumented copy of the same sources
// (verif/harness/instr/logx, mapped in by `go build -overlay`) run under the cooperative scheduler in
// lock-step with the model's interleaving transition system, plus an implementation-side monitor of
// "no field and no level change is lost" exactly as worded.  A real-goroutine stress run on the real
// package is recorded as supporting evidence only.
package main

import (
	"encoding/json"
	"fmt"
	"os"
	"sort"
	"strings"

	"verif/harness/internal/hx"
)

// impl interprets the `lg` protocol; the `lg start` line selects the part.
type impl struct {
	seq  *seqImpl
	conc *concImpl
	mode string
}

func (m *impl) Reset() {}

func (m *impl) Exec(line string) string {
	ws := strings.Fields(line)
	if len(ws) >= 1 && ws[0] == "case" {
		if m.conc != nil {
			m.conc.kill()
		}
		m.mode = ""
		return line
	}
	if len(ws) < 2 || ws[0] != "lg" {
		return "bad-op"
	}
	if ws[1] == "start" {
		if m.conc != nil {
			m.conc.kill()
		}
		if len(ws) < 5 {
			return "bad-op"
		}
		switch ws[2] {
		case "seq":
			m.mode = "seq"
			m.seq = &seqImpl{}
			return m.seq.start(ws[3:])
		case "conc":
			m.mode = "conc"
			m.conc = &concImpl{}
			return m.conc.start(ws[3:])
		}
		return "bad-op"
	}
	switch m.mode {
	case "seq":
		return m.seq.exec(ws[1:])
	case "conc":
		return m.conc.exec(ws[1:])
	}
	return "bad-op"
}

// prune keeps at most n recorded disagreements per key, so that one frequent class cannot crowd the
// others out of hx's bounded list (the total stays in DisagreementCount).
func prune(r *hx.Runner, n int) {
	seen := map[string]int{}
	kept := r.Res.Disagreements[:0]
	for _, d := range r.Res.Disagreements {
		seen[d.Key]++
		if seen[d.Key] <= n {
			kept = append(kept, d)
		}
	}
	r.Res.Disagreements = kept
}

func isConcCase(lines []string) bool {
	for _, l := range lines {
		if strings.HasPrefix(l, "lg start conc") {
			return true
		}
	}
	return false
}

// pattern part of a probe answer (everything outside the [...] field lists)
func stripFields(s string) string {
	var b strings.Builder
	depth := 0
	for _, r := range s {
		switch {
		case r == '[':
			depth++
		case r == ']':
			depth--
		case depth == 0:
			b.WriteRune(r)
		}
	}
	return b.String()
}

func loadCorpus(dir string) (seq, conc []hx.Case) {
	ents, err := os.ReadDir(dir)
	if err != nil {
		return
	}
	names := []string{}
	for _, e := range ents {
		if strings.HasSuffix(e.Name(), ".json") {
			names = append(names, e.Name())
		}
	}
	sort.Strings(names)
	for _, n := range names {
		b, err := os.ReadFile(dir + "/" + n)
		if err != nil {
			continue
		}
		var c hx.Case
		if json.Unmarshal(b, &c) != nil || len(c.Lines) == 0 {
			continue
		}
		c.Tags = append(c.Tags, "corpus")
		if isConcCase(c.Lines) {
			conc = append(conc, c)
		} else {
			seq = append(seq, c)
		}
	}
	return
}

const rule = "SEQUENTIAL: operation sequences of 1-25 calls (InitLogger, ChildLogger, WithFields, SetLevel, EnableDebug, plus context.WithValue derivations that share a logger) over a growing set of contexts (context 0 = context.Background()), random global level, field tokens key:value from a small pool (so names repeat), levels Debug..Error; after EVERY call every context is probed at every level Debug..Error through a zaptest/observer core and the emission pattern plus the sorted fields are compared with Model/Log (proved equal to the specification). non-trivial: the sequence has a WithFields, a level change and a ChildLogger/InitLogger. " +
	"CONCURRENT: programs of 2-8 goroutines x 1-3 calls (WithFields / SetLevel on contexts sharing one holder) on an instrumented copy of /repo/log under the cooperative scheduler: random and burst schedules, and every schedule with <=2 (quick) / <=3 (thorough) preemptions of fixed 2-3 goroutine programs; after EVERY atomic operation the label class, the identity of the installed logger, its level and fields (observer), and every goroutine's call status are compared with Model/Log.cstep; an implementation-side monitor evaluates 'no field and no level change is lost' as worded. non-trivial: >=2 goroutines. distinct by (program, schedule). " +
	"Out-of-domain (drift only): levels outside Debug..Error."

func main() {
	f := hx.ParseFlags()
	if f.Prop != "C18" {
		fmt.Fprintln(os.Stderr, "h-log: unknown property", f.Prop)
		os.Exit(2)
	}
	m := &impl{}
	r := hx.NewRunner(f, "h-log", m, rule)
	r.ImplVerdict = func(l string) string {
		if i := strings.Index(l, " mon="); i >= 0 {
			return strings.Fields(l[i+5:])[0]
		}
		return ""
	}
	r.Compare = func(req, a, b string) bool {
		// the monitor verdict is an implementation-side annotation, not part of the lock-step
		if i := strings.Index(a, " mon="); i >= 0 {
			a = a[:i]
		}
		return a == b
	}
	r.KeyOf = func(d *hx.Disagreement) string {
		if strings.HasPrefix(d.Request, "lg step") || strings.HasPrefix(d.Request, "lg state") {
			return "C18:lockstep"
		}
		if strings.HasPrefix(d.Request, "lg probeall") {
			if stripFields(d.Impl) != stripFields(d.Model) {
				return "C18:seq:level"
			}
			return "C18:seq:fields"
		}
		return ""
	}
	// a shrunk candidate that lost its `lg start` line is not a case of this property
	r.ShrinkReject = func(req, im, mo string) bool { return im == "bad-op" || mo == "bad-op" }
	if f.Replay != "" {
		if b, err := os.ReadFile(f.Replay); err == nil {
			var rf hx.ReplayFile
			if json.Unmarshal(b, &rf) == nil {
				r.TieOnly = isConcCase(rf.Dis.Case.Lines)
			}
		}
	}
	if r.HandleReplay() {
		return
	}
	cseq, cconc := loadCorpus(f.Corpus)
	r.Res.Extra["corpus_cases"] = len(cseq) + len(cconc)

	// ---- sequential clause (tie B) ----
	for _, c := range cseq {
		r.Add(c)
	}
	nseq, ndrift := r.N(12000), r.N(1000)
	if f.Tier == "thorough" {
		nseq, ndrift = r.N(150000), r.N(10000)
	}
	for _, c := range shapedSeqCases() {
		r.Add(c)
	}
	for i := 0; i < nseq; i++ {
		r.Add(genSeqCase(r.Rng, true))
	}
	for i := 0; i < ndrift; i++ {
		r.Add(genSeqCase(r.Rng, false))
	}
	r.Flush()
	prune(r, 5)

	// ---- concurrent clause (tie C): lock-step mismatches are broken ties, the monitor decides ----
	r.TieOnly = true
	for _, c := range cconc {
		r.Add(c)
	}
	runConc(r, f)

	// ---- real goroutines on the real package: supporting evidence only ----
	iters := r.N(5000)
	if f.Tier == "thorough" {
		iters = r.N(200000)
	}
	prune(r, 5)
	r.Res.Extra["stress_real_goroutines"] = stress(iters, f.Seed)
	r.Finish()
}

import Model.GSync
/-!
# The inductive invariant of the current `SelectableWaitGroup` algorithm (`L = true`)

`Inv s` holds in the initial state of every client program and is preserved by every step of
every thread, provided the step does not leave the counter negative.  C01 and C02 are read off
from it in `Properties/C01.lean` and `Properties/C02.lean`.
-/
namespace GSync

/-- inside the mutex-protected part of `Add` -/
def inCrit : PC → Bool
  | .aAdd _ | .aSwap _ | .aCloseOld _ _ | .aCAS _ | .aCloseNew _ _ | .aUnlock _ => true
  | _ => false

/-- every channel id other than the installed one is closed -/
def AllOthersClosed (sh : Shared) : Prop :=
  ∀ id, 0 < id → id < sh.next → id ≠ sh.wchan → id ∈ sh.closed

/-- what holds whenever no `Add` is inside its critical section -/
def Rest (sh : Shared) : Prop := (sh.count = 0 ↔ sh.wchan = 0) ∧ AllOthersClosed sh

structure RecOK (sh : Shared) (r : Rec) : Prop where
  lt : r.ch < sh.next
  le : r.start ≤ sh.zc
  seen : r.start < sh.zc ∨ (r.ch ≠ 0 ∧ r.ch = sh.wchan)

/-- per-program-counter facts -/
def PcOK (sh : Shared) (wstart : Nat) : PC → Prop
  | .aAdd _ => Rest sh
  | .aSwap _ => sh.count = 0 ∧ AllOthersClosed sh
  | .aCloseOld _ ch => sh.count = 0 ∧ sh.wchan = 0 ∧ 0 < ch ∧ ch < sh.next ∧
      (∀ id, 0 < id → id < sh.next → id ≠ ch → id ∈ sh.closed)
  | .aCAS _ => 0 < sh.count ∧ sh.wchan = 0 ∧ (∀ id, 0 < id → id < sh.next → id ∈ sh.closed)
  | .aCloseNew _ _ => False
  | .aUnlock _ => Rest sh
  | .wCount => wstart ≤ sh.zc
  | .wChan c => wstart ≤ sh.zc ∧ (c = 0 → wstart < sh.zc) ∧ 0 ≤ c
  | _ => True

structure TInv (sh : Shared) (i : Nat) (t : Thread) : Prop where
  recs : ∀ r ∈ t.recs, RecOK sh r
  pc : PcOK sh t.wstart t.pc
  mutex : inCrit t.pc = true ↔ sh.lock = some i

structure SInv (sh : Shared) : Prop where
  wlt : sh.wchan < sh.next
  wopen : sh.wchan ≠ 0 → sh.wchan ∉ sh.closed
  clt : ∀ id ∈ sh.closed, 0 < id ∧ id < sh.next
  npos : 1 ≤ sh.next
  rest : sh.lock = none → Rest sh
  nn : 0 ≤ sh.count

structure Inv (s : St) : Prop where
  sh : SInv s.sh
  th : ∀ i t, s.threads[i]? = some t → TInv s.sh i t
  holder : ∀ i, s.sh.lock = some i → ∃ t, s.threads[i]? = some t

/-! ## `enter` and `finishAdd` -/

theorem enter_recs (zc : Nat) (t : Thread) : (enter true zc t).recs = t.recs := by
  unfold enter; split <;> simp

theorem enter_inCrit (zc : Nat) (t : Thread) : inCrit (enter true zc t).pc = false := by
  unfold enter; split <;> simp [inCrit]

theorem enter_pcOK (sh : Shared) (t : Thread) (zc : Nat) (h : zc ≤ sh.zc) :
    PcOK sh (enter true zc t).wstart (enter true zc t).pc := by
  unfold enter; split <;> simp [PcOK, h]

theorem finishAdd_eq (zc : Nat) (t : Thread) (v : Int) :
    finishAdd true zc t v = { t with pc := .aUnlock v } := by simp [finishAdd]

/-! ## `tick` -/

@[simp] theorem tick_count (sh : Shared) : (tick sh).count = sh.count := rfl
@[simp] theorem tick_wchan (sh : Shared) : (tick sh).wchan = sh.wchan := rfl
@[simp] theorem tick_closed (sh : Shared) : (tick sh).closed = sh.closed := rfl
@[simp] theorem tick_next (sh : Shared) : (tick sh).next = sh.next := rfl
@[simp] theorem tick_lock (sh : Shared) : (tick sh).lock = sh.lock := rfl
theorem tick_zc_ge (sh : Shared) : sh.zc ≤ (tick sh).zc := by simp [tick]
theorem tick_zc_zero (sh : Shared) (h : sh.count = 0) : (tick sh).zc = sh.zc + 1 := by simp [tick, h]

theorem rest_tick (sh : Shared) : Rest (tick sh) ↔ Rest sh := by
  simp [Rest, AllOthersClosed]

/-! ## what a step of thread `i` guarantees to the other threads -/

structure Frame (sh sh' : Shared) (i : Nat) : Prop where
  next_le : sh.next ≤ sh'.next
  zc_le : sh.zc ≤ sh'.zc
  recs : ∀ r, RecOK sh r → RecOK sh' r
  lock_iff : ∀ j, j ≠ i → (sh'.lock = some j ↔ sh.lock = some j)
  same : ∀ j, j ≠ i → sh.lock = some j →
    sh'.count = sh.count ∧ sh'.wchan = sh.wchan ∧ sh'.closed = sh.closed ∧ sh'.next = sh.next

theorem pcOK_congr {sh sh' : Shared} (w : Nat) (pc : PC) (hc : inCrit pc = true)
    (h : sh'.count = sh.count ∧ sh'.wchan = sh.wchan ∧ sh'.closed = sh.closed ∧ sh'.next = sh.next)
    (hp : PcOK sh w pc) : PcOK sh' w pc := by
  obtain ⟨h1, h2, h3, h4⟩ := h
  cases pc <;> simp [inCrit] at hc <;>
    simp only [PcOK, Rest, AllOthersClosed, h1, h2, h3, h4] at hp ⊢ <;> exact hp

theorem tinv_stable {sh sh' : Shared} {i j : Nat} {u : Thread} (hf : Frame sh sh' i) (hji : j ≠ i)
    (hu : TInv sh j u) : TInv sh' j u := by
  refine ⟨fun r hr => hf.recs r (hu.recs r hr), ?_, ?_⟩
  · by_cases hc : inCrit u.pc = true
    · exact pcOK_congr _ _ hc (hf.same j hji (hu.mutex.1 hc)) hu.pc
    · have hp := hu.pc
      have hz := hf.zc_le
      cases hpc : u.pc <;> simp [hpc, inCrit] at hc <;> simp only [hpc, PcOK] at hp ⊢
      · omega
      · refine ⟨by omega, fun h => ?_, hp.2.2⟩
        have := hp.2.1 h; omega
  · rw [hu.mutex]; exact (hf.lock_iff j hji).symm

/-- a step that leaves everything but the ghost counter (and possibly the free lock) alone -/
theorem frame_of_readonly (sh sh' : Shared) (i : Nat)
    (hc : sh'.count = sh.count) (hw : sh'.wchan = sh.wchan) (hcl : sh'.closed = sh.closed)
    (hn : sh'.next = sh.next) (hz : sh.zc ≤ sh'.zc)
    (hl : ∀ j, j ≠ i → (sh'.lock = some j ↔ sh.lock = some j)) : Frame sh sh' i := by
  refine ⟨by omega, hz, ?_, hl, fun _ _ _ => ⟨hc, hw, hcl, hn⟩⟩
  intro r hr
  refine ⟨by have := hr.lt; omega, by have := hr.le; omega, ?_⟩
  rcases hr.seen with h | h
  · left; omega
  · right; rw [hw]; exact h

theorem sinv_tick_of {sh sh1 : Shared} (hs : SInv sh)
    (hc : sh1.count = sh.count) (hw : sh1.wchan = sh.wchan) (hcl : sh1.closed = sh.closed)
    (hn : sh1.next = sh.next) (hl : sh1.lock = none → sh.lock = none) : SInv (tick sh1) := by
  refine ⟨by simp [hw, hn, hs.wlt], by simpa [hw, hcl] using hs.wopen, by simpa [hcl, hn] using hs.clt,
    by simp [hn, hs.npos], ?_, by simp [hc, hs.nn]⟩
  intro h
  have := hs.rest (hl (by simpa using h))
  rw [rest_tick]
  simpa [Rest, AllOthersClosed, hc, hw, hcl, hn] using this

theorem recOK_tick (sh : Shared) (r : Rec) (h : RecOK sh r) : RecOK (tick sh) r := by
  have := tick_zc_ge sh
  refine ⟨by simpa using h.lt, by have := h.le; omega, ?_⟩
  rcases h.seen with h | h
  · left; omega
  · right; simpa using h

theorem recOK_transfer {sh sh' : Shared} {r : Rec} (h : RecOK sh r) (hn : sh.next ≤ sh'.next)
    (hz : sh.zc ≤ sh'.zc) (hw : sh'.wchan = sh.wchan ∨ r.start < sh'.zc) : RecOK sh' r := by
  refine ⟨by have := h.lt; omega, by have := h.le; omega, ?_⟩
  rcases hw with hw | hw
  · rcases h.seen with h | h
    · left; omega
    · right; rw [hw]; exact h
  · left; exact hw

/-- frame of a step taken by the lock holder -/
theorem frame_of_holder {sh sh' : Shared} {i : Nat} (hl : sh.lock = some i)
    (hl' : sh'.lock = some i ∨ sh'.lock = none) (hn : sh.next ≤ sh'.next) (hz : sh.zc ≤ sh'.zc)
    (hr : ∀ r, RecOK sh r → RecOK sh' r) : Frame sh sh' i := by
  refine ⟨hn, hz, hr, ?_, ?_⟩
  · intro j hj
    rcases hl' with h | h <;> simp [h, hl] <;> exact fun e => hj e.symm
  · intro j hj h; rw [hl] at h; cases h; exact absurd rfl hj

/-- the step of thread `i` itself -/
theorem tstep_local (sh : Shared) (i : Nat) (t : Thread) (hs : SInv sh) (ht : TInv sh i t)
    (hnn : 0 ≤ (tstep true sh i t).1.count) :
    SInv (tick (tstep true sh i t).1) ∧ TInv (tick (tstep true sh i t).1) i (tstep true sh i t).2.1 ∧
      Frame sh (tick (tstep true sh i t).1) i := by
  have hmut := ht.mutex
  have hpc := ht.pc
  have hrecs := ht.recs
  cases hp : t.pc with
  | idle =>
    simp only [tstep, hp]
    refine ⟨sinv_tick_of hs rfl rfl rfl rfl (fun h => h), ⟨fun r hr => recOK_tick _ _ (hrecs r hr), by simp [hp, PcOK], ?_⟩,
      frame_of_readonly _ _ _ rfl rfl rfl rfl (tick_zc_ge _) (fun _ _ => by simp)⟩
    simpa [hp] using hmut
  | aLock d =>
    simp only [tstep, hp]
    cases hl : sh.lock with
    | none =>
      simp only
      have hrest := hs.rest hl
      refine ⟨⟨by simp [hs.wlt], by simpa using hs.wopen, by simpa using hs.clt, by simp [hs.npos],
        by simp, by simp [hs.nn]⟩, ⟨fun r hr => recOK_tick _ _ ?_, ?_, by simp [inCrit]⟩, ?_⟩
      · have := hrecs r hr
        exact ⟨this.lt, this.le, this.seen⟩
      · simp only [PcOK]; rw [rest_tick]; simpa [Rest, AllOthersClosed] using hrest
      · refine frame_of_readonly _ _ _ rfl rfl rfl rfl (tick_zc_ge _) ?_
        intro j hj; simp [hl]; exact fun h => hj h.symm
    | some k =>
      simp only
      refine ⟨sinv_tick_of hs rfl rfl rfl rfl (fun h => h), ⟨fun r hr => recOK_tick _ _ (hrecs r hr), by simp [hp, PcOK], ?_⟩,
        frame_of_readonly _ _ _ rfl rfl rfl rfl (tick_zc_ge _) (fun _ _ => by simp)⟩
      simpa [hp] using hmut
  | wCount =>
    simp only [tstep, hp]
    simp only [hp, PcOK] at hpc
    refine ⟨sinv_tick_of hs rfl rfl rfl rfl (fun h => h), ⟨fun r hr => recOK_tick _ _ (hrecs r hr), ?_, ?_⟩,
      frame_of_readonly _ _ _ rfl rfl rfl rfl (tick_zc_ge _) (fun _ _ => by simp)⟩
    · simp only [PcOK]
      refine ⟨by have := tick_zc_ge sh; omega, fun h => ?_, hs.nn⟩
      rw [tick_zc_zero sh h]; omega
    · simpa [hp, inCrit] using hmut
  | wChan c =>
    simp only [tstep, hp]
    simp only [hp, PcOK] at hpc
    have hnl : sh.lock ≠ some i := by simpa [hp, inCrit] using hmut
    split
    · rename_i hret
      refine ⟨sinv_tick_of hs rfl rfl rfl rfl (fun h => h), ⟨?_, ?_, ?_⟩,
        frame_of_readonly _ _ _ rfl rfl rfl rfl (tick_zc_ge _) (fun _ _ => by simp)⟩
      · rw [enter_recs]
        intro r hr
        apply recOK_tick
        simp only [List.mem_cons] at hr
        rcases hr with rfl | hr
        · refine ⟨hs.wlt, hpc.1, ?_⟩
          rcases hret with h0 | ⟨_, hne⟩
          · left; exact hpc.2.1 h0
          · right; exact ⟨hne, rfl⟩
        · exact hrecs r hr
      · exact enter_pcOK _ _ _ (tick_zc_ge sh)
      · rw [enter_inCrit]; simpa using hnl
    · refine ⟨sinv_tick_of hs rfl rfl rfl rfl (fun h => h), ⟨fun r hr => recOK_tick _ _ (hrecs r hr), ?_, ?_⟩,
        frame_of_readonly _ _ _ rfl rfl rfl rfl (tick_zc_ge _) (fun _ _ => by simp)⟩
      · simp only [PcOK]; have := tick_zc_ge sh; omega
      · simpa [inCrit] using hnl
  | cLoad =>
    simp only [tstep, hp]
    have hnl : sh.lock ≠ some i := by simpa [hp, inCrit] using hmut
    refine ⟨sinv_tick_of hs rfl rfl rfl rfl (fun h => h), ⟨?_, ?_, ?_⟩,
      frame_of_readonly _ _ _ rfl rfl rfl rfl (tick_zc_ge _) (fun _ _ => by simp)⟩
    · rw [enter_recs]; exact fun r hr => recOK_tick _ _ (hrecs r hr)
    · exact enter_pcOK _ _ _ (tick_zc_ge sh)
    · rw [enter_inCrit]; simpa using hnl
  | aAdd d =>
    have hl : sh.lock = some i := hmut.1 (by simp [hp, inCrit])
    simp only [hp, PcOK] at hpc
    simp only [tstep, hp, finishAdd_eq] at hnn ⊢
    have hv : 0 ≤ sh.count + d := by
      split at hnn
      · simpa using hnn
      · split at hnn <;> simpa using hnn
    have hrec : ∀ (sh1 : Shared), sh1.next = sh.next → sh1.wchan = sh.wchan → sh1.zc = sh.zc →
        ∀ r, RecOK sh r → RecOK (tick sh1) r := by
      intro sh1 h1 h2 h3 r hr
      have := tick_zc_ge sh1
      exact recOK_transfer hr (by simp [h1]) (by omega) (Or.inl (by simp [h2]))
    split
    · rename_i hv0
      refine ⟨⟨by simp [hs.wlt], by simpa using hs.wopen, by simpa using hs.clt, by simp [hs.npos],
        by simp [hl], by simp [hv0]⟩, ⟨fun r hr => hrec { sh with count := sh.count + d } rfl rfl rfl r (hrecs r hr), ?_, by simp [inCrit, hl]⟩,
        frame_of_holder hl (Or.inl (by simp [hl])) (by simp) (tick_zc_ge { sh with count := sh.count + d }) (fun r hr => hrec { sh with count := sh.count + d } rfl rfl rfl r hr)⟩
      simp only [PcOK]
      exact ⟨by simp [hv0], by simpa [AllOthersClosed] using hpc.2⟩
    · rename_i hv0
      split
      · rename_i hfz
        have hc0 : sh.count = 0 := by omega
        have hw0 : sh.wchan = 0 := hpc.1.1 hc0
        refine ⟨⟨by simp [hs.wlt], by simpa using hs.wopen, by simpa using hs.clt, by simp [hs.npos],
          by simp [hl], by simpa using hv⟩, ⟨fun r hr => hrec { sh with count := sh.count + d } rfl rfl rfl r (hrecs r hr), ?_, by simp [inCrit, hl]⟩,
          frame_of_holder hl (Or.inl (by simp [hl])) (by simp) (tick_zc_ge { sh with count := sh.count + d }) (fun r hr => hrec { sh with count := sh.count + d } rfl rfl rfl r hr)⟩
        simp only [PcOK]
        refine ⟨by simp; omega, by simp [hw0], ?_⟩
        intro id h1 h2
        have := hpc.2 id h1 (by simpa using h2) (by omega)
        simpa using this
      · rename_i hfz
        have hwn : sh.wchan ≠ 0 := by
          intro hw0
          have hc0 : sh.count = 0 := hpc.1.2 hw0
          apply hfz
          constructor <;> omega
        refine ⟨⟨by simp [hs.wlt], by simpa using hs.wopen, by simpa using hs.clt, by simp [hs.npos],
          by simp [hl], by simpa using hv⟩, ⟨fun r hr => hrec { sh with count := sh.count + d } rfl rfl rfl r (hrecs r hr), ?_, by simp [inCrit, hl]⟩,
          frame_of_holder hl (Or.inl (by simp [hl])) (by simp) (tick_zc_ge { sh with count := sh.count + d }) (fun r hr => hrec { sh with count := sh.count + d } rfl rfl rfl r hr)⟩
        simp only [PcOK]; rw [rest_tick]
        refine ⟨by simp [hv0, hwn], by simpa [AllOthersClosed] using hpc.2⟩
  | aSwap v =>
    have hl : sh.lock = some i := hmut.1 (by simp [hp, inCrit])
    simp only [hp, PcOK] at hpc
    simp only [tstep, hp, finishAdd_eq]
    have hz : (tick { sh with wchan := 0 }).zc = sh.zc + 1 := tick_zc_zero _ hpc.1
    have hrec : ∀ r, RecOK sh r → RecOK (tick { sh with wchan := 0 }) r := by
      intro r hr
      exact recOK_transfer hr (by simp) (by omega) (Or.inr (by have := hr.le; omega))
    have hsi : SInv (tick { sh with wchan := 0 }) :=
      ⟨by have := hs.npos; simp; omega, by simp, by simpa using hs.clt, by simp [hs.npos], by simp [hl], by simp [hs.nn]⟩
    split
    · rename_i hold
      refine ⟨hsi, ⟨fun r hr => hrec r (hrecs r hr), ?_, by simp [inCrit, hl]⟩,
        frame_of_holder hl (Or.inl (by simp [hl])) (by simp) (by show sh.zc ≤ (tick { sh with wchan := 0 }).zc; omega) hrec⟩
      simp only [PcOK]
      refine ⟨by simp [hpc.1], by simp, by omega, by simpa using hs.wlt, ?_⟩
      intro id h1 h2 h3
      simpa using hpc.2 id h1 (by simpa using h2) h3
    · rename_i hold
      have hw0 : sh.wchan = 0 := by simpa using hold
      refine ⟨hsi, ⟨fun r hr => hrec r (hrecs r hr), ?_, by simp [inCrit, hl]⟩,
        frame_of_holder hl (Or.inl (by simp [hl])) (by simp) (by show sh.zc ≤ (tick { sh with wchan := 0 }).zc; omega) hrec⟩
      simp only [PcOK]; rw [rest_tick]
      refine ⟨by simp [hpc.1], ?_⟩
      intro id h1 h2 h3
      simpa using hpc.2 id h1 (by simpa using h2) (by rw [hw0]; simpa using h3)
  | aCloseOld v ch =>
    have hl : sh.lock = some i := hmut.1 (by simp [hp, inCrit])
    simp only [hp, PcOK] at hpc
    obtain ⟨hc0, hw0, hch0, hchn, hoth⟩ := hpc
    simp only [tstep, hp, finishAdd_eq]
    have hrec : ∀ r, RecOK sh r → RecOK (tick { sh with closed := ch :: sh.closed }) r := by
      intro r hr
      have := tick_zc_ge { sh with closed := ch :: sh.closed }
      exact recOK_transfer hr (by simp) (by simpa using this) (Or.inl (by simp))
    refine ⟨⟨by simp [hs.wlt], by simp [hw0], ?_, by simp [hs.npos], by simp [hl], by simp [hs.nn]⟩,
      ⟨fun r hr => hrec r (hrecs r hr), ?_, by simp [inCrit, hl]⟩,
      frame_of_holder hl (Or.inl (by simp [hl])) (by simp) (tick_zc_ge { sh with closed := ch :: sh.closed }) hrec⟩
    · intro id hid
      simp only [tick_closed, List.mem_cons] at hid
      rcases hid with rfl | hid
      · exact ⟨hch0, by simpa using hchn⟩
      · simpa using hs.clt id hid
    · simp only [PcOK]; rw [rest_tick]
      refine ⟨by simp [hc0, hw0], ?_⟩
      intro id h1 h2 _
      by_cases he : id = ch
      · simp [he]
      · have := hoth id h1 (by simpa using h2) he
        simp [this]
  | aCAS v =>
    have hl : sh.lock = some i := hmut.1 (by simp [hp, inCrit])
    simp only [hp, PcOK] at hpc
    obtain ⟨hcp, hw0, hall⟩ := hpc
    simp only [tstep, hp, finishAdd_eq, hw0, if_true]
    have hrec : ∀ r, RecOK sh r → RecOK (tick { sh with wchan := sh.next, next := sh.next + 1 }) r := by
      intro r hr
      have hge := tick_zc_ge { sh with wchan := sh.next, next := sh.next + 1 }
      have hlt : r.start < sh.zc := by
        rcases hr.seen with h | ⟨h1, h2⟩
        · exact h
        · rw [hw0] at h2; exact absurd h2 h1
      exact recOK_transfer hr (by simp) (by simpa using hge) (Or.inr (by
        have : sh.zc ≤ (tick { sh with wchan := sh.next, next := sh.next + 1 }).zc := by simpa using hge
        omega))
    refine ⟨⟨by simp, ?_, ?_, by simp, by simp [hl], by simp [hs.nn]⟩,
      ⟨fun r hr => hrec r (hrecs r hr), ?_, by simp [inCrit, hl]⟩,
      frame_of_holder hl (Or.inl (by simp [hl])) (by simp) (tick_zc_ge { sh with wchan := sh.next, next := sh.next + 1 }) hrec⟩
    · intro _ hmem
      have := (hs.clt _ (by simpa using hmem)).2
      simp at this
    · intro id hid
      have := hs.clt id (by simpa using hid)
      simp; omega
    · simp only [PcOK]; rw [rest_tick]
      refine ⟨?_, ?_⟩
      · have := hs.npos
        simp; constructor <;> intro h <;> omega
      · intro id h1 h2 h3
        simp at h2 h3
        simpa using hall id h1 (by omega)
  | aCloseNew v ch =>
    simp only [hp, PcOK] at hpc
  | aUnlock v =>
    have hl : sh.lock = some i := hmut.1 (by simp [hp, inCrit])
    simp only [hp, PcOK] at hpc
    simp only [tstep, hp]
    have hrec : ∀ r, RecOK sh r → RecOK (tick { sh with lock := none }) r := by
      intro r hr
      have := tick_zc_ge { sh with lock := none }
      exact recOK_transfer hr (by simp) (by simpa using this) (Or.inl (by simp))
    refine ⟨⟨by simp [hs.wlt], by simpa using hs.wopen, by simpa using hs.clt, by simp [hs.npos], ?_, by simp [hs.nn]⟩,
      ⟨?_, ?_, ?_⟩,
      frame_of_holder hl (Or.inr (by simp)) (by simp) (tick_zc_ge { sh with lock := none }) hrec⟩
    · intro _; rw [rest_tick]; simpa [Rest, AllOthersClosed] using hpc
    · rw [enter_recs]; exact fun r hr => hrec r (hrecs r hr)
    · exact enter_pcOK _ _ _ (tick_zc_ge { sh with lock := none })
    · rw [enter_inCrit]; simp

/-! ## the invariant is inductive -/

theorem step_inv (s : St) (i : Nat) (h : Inv s) (hnn : 0 ≤ (step true s i).sh.count) :
    Inv (step true s i) := by
  unfold step stepL at hnn ⊢
  cases ht : s.threads[i]? with
  | none => simpa [ht] using h
  | some t =>
    simp only [ht] at hnn ⊢
    have hloc := tstep_local s.sh i t h.sh (h.th i t ht) (by simpa using hnn)
    obtain ⟨h1, h2, h3⟩ := hloc
    have hi : i < s.threads.length := by
      have := List.getElem?_eq_some_iff.1 ht
      exact this.1
    refine ⟨h1, ?_, ?_⟩
    · intro j u hj
      simp only [List.getElem?_set] at hj
      by_cases hji : i = j
      · subst hji
        simp [hi] at hj
        subst hj; exact h2
      · simp [hji] at hj
        exact tinv_stable h3 (fun e => hji e.symm) (h.th j u hj)
    · intro k hk
      simp only at hk
      by_cases hki : k = i
      · subst hki
        exact ⟨(tstep true s.sh k t).2.1, by simp [List.getElem?_set, hi]⟩
      · have := (h3.lock_iff k hki).1 hk
        obtain ⟨u, hu⟩ := h.holder k this
        refine ⟨u, ?_⟩
        rw [List.getElem?_set]
        have hik : ¬ i = k := fun e => hki e.symm
        simp [hik, hu]

theorem init_inv (progs : List (List Call)) : Inv (init true progs) := by
  refine ⟨⟨by simp [init], by simp [init], by simp [init], by simp [init], ?_, by simp [init]⟩, ?_, by simp [init]⟩
  · intro _
    refine ⟨by simp [init], ?_⟩
    intro id h1 h2
    simp [init] at h2; omega
  · intro i t ht
    simp only [init, List.getElem?_map] at ht
    cases hp : progs[i]? with
    | none => simp [hp] at ht
    | some p =>
      simp [hp] at ht
      subst ht
      refine ⟨by rw [enter_recs]; simp, enter_pcOK _ _ _ (by simp), ?_⟩
      rw [enter_inCrit]; simp [init]

/-- Every state reachable from any client program under any schedule that never leaves the
counter negative satisfies the invariant. -/
theorem run_inv (s : St) (sched : List Nat) (h : Inv s) (hnn : NonNeg true s sched) :
    Inv (run true s sched) := by
  induction sched generalizing s with
  | nil => simpa [run] using h
  | cons a rest ih =>
    have h1 : Inv (step true s a) := by
      apply step_inv s a h
      have := hnn [a] (by simp)
      simpa [run] using this
    have := ih (step true s a) h1 (by
      intro pre hpre
      have := hnn (a :: pre) (by simpa using hpre)
      simpa [run] using this)
    simpa [run] using this

theorem reachable_inv (progs : List (List Call)) (sched : List Nat)
    (hnn : NonNeg true (init true progs) sched) : Inv (run true (init true progs) sched) :=
  run_inv _ _ (init_inv progs) hnn

end GSync

import Model.GenGuards
import Generated.Guards
/-! # C13 — generators: every option combination yields code that builds

Property text: "For every documented-valid input and every combination of generator options,
genum, gerror and gsort either report an error or write a gofmt-formatted Go file that compiles
together with its package. The generated types implement the documented interfaces - genum.Enum
and TypedEnum plus the requested marshalers, gerror.Error and Factory, sort.Interface - under
every option combination."

What is PROVED here (level: proof, partial):

* the second sentence, at the level of declarations: for EVERY option setting and EVERY
  definition (= every truth assignment to the templates' data-dependent conditions and every
  length of their ranged-over collections) the template writes each required method exactly once
  per generated type, with a receiver form that puts it into the right method set, writes no
  marshaler that was switched off, and writes the import line of every package it refers to.
  The (declaration, guard) tables are regenerated from /repo's templates on every run
  (`Generated/Guards.lean`); the finite part is `decide` over the option settings, the
  quantification over definitions is the general lemmas `times_eq_one` / `times_eq_zero`.
* the type reference written for a trait constant of every basic kind is a predeclared Go type,
  namely the constant's default type.

What is NOT proved (kept visible, observed by the compile sweep of `h-gensweep`):

  -- theorem generated_file_compiles : ∀ definition options, generator reports an error ∨
  --   (gofmt-clean output ∧ `go build` of the package succeeds)
  -- is a statement about go/format and Go's type checker; no Lean model of those exists here.

`declared_once_partial` below is the proved part of it: the declaration-level necessary
conditions (no missing method, no duplicate method from the fixed part of the template, no
missing import, no unknown basic type name).
-/
namespace C13
open GenGuards Generated.Guards

/-! ## How often a guarded position is rendered (for all worlds) -/

theorem times_eq_zero (w : World) (g : List Atom) (h : optsHold w.opt g = false) : times w g = 0 := by
  induction g with
  | nil => simp [optsHold] at h
  | cons a g ih =>
    rw [optsHold, List.all_cons, Bool.and_eq_false_iff] at h
    rcases h with h | h
    · cases a with
      | opt f p => simp [Atom.optOk] at h; simp [times, Atom.mult, h]
      | data d => simp [Atom.optOk] at h
      | range d => simp [Atom.optOk] at h
    · simp [times, ih h]

theorem times_eq_one (w : World) (loop : String) (g : List Atom)
    (hp : perType loop g = true) (ho : optsHold w.opt g = true) (hc : w.count loop = 1) :
    times w g = 1 := by
  induction g with
  | nil => rfl
  | cons a g ih =>
    rw [perType, List.all_cons, Bool.and_eq_true] at hp
    rw [optsHold, List.all_cons, Bool.and_eq_true] at ho
    have := ih hp.2 ho.2
    cases a with
    | opt f p =>
      have h1 : (w.opt f == p) = true := ho.1
      simp [times, Atom.mult, h1, this]
    | data d => simp [Atom.perTypeOk] at hp
    | range d =>
      have h1 : d = loop := by simpa [Atom.perTypeOk] using hp.1
      simp [times, Atom.mult, h1, hc, this]

theorem times_eq_one_perFile (w : World) (g : List Atom)
    (hp : perFile g = true) (ho : optsHold w.opt g = true) : times w g = 1 := by
  induction g with
  | nil => rfl
  | cons a g ih =>
    rw [perFile, List.all_cons, Bool.and_eq_true] at hp
    rw [optsHold, List.all_cons, Bool.and_eq_true] at ho
    have := ih hp.2 ho.2
    cases a with
    | opt f p =>
      have h1 : (w.opt f == p) = true := ho.1
      simp [times, Atom.mult, h1, this]
    | data d => simp [Atom.isOpt] at hp
    | range d => simp [Atom.isOpt] at hp

private theorem sum_zero_of_filter_nil (l : List Entry) (f : Entry → Nat) (p : Entry → Bool)
    (hz : ∀ x ∈ l, p x = false → f x = 0) (h : l.filter p = []) : (l.map f).sum = 0 := by
  induction l with
  | nil => rfl
  | cons x l ih =>
    have hx : p x = false := by
      cases hpx : p x with
      | false => rfl
      | true => simp [hpx] at h
    have hl : l.filter p = [] := by simpa [List.filter_cons, hx] using h
    simp [hz x (by simp) hx, ih (fun y hy => hz y (by simp [hy])) hl]

private theorem sum_of_filter_single (l : List Entry) (f : Entry → Nat) (p : Entry → Bool) (e : Entry)
    (hz : ∀ x ∈ l, p x = false → f x = 0) (h : l.filter p = [e]) : (l.map f).sum = f e := by
  induction l with
  | nil => simp at h
  | cons x l ih =>
    cases hpx : p x with
    | false =>
      have hl : l.filter p = [e] := by simpa [List.filter_cons, hpx] using h
      simp [hz x (by simp) hpx, ih (fun y hy => hz y (by simp [hy])) hl]
    | true =>
      have h' : x = e ∧ l.filter p = [] := by simpa [List.filter_cons, hpx] using h
      have := sum_zero_of_filter_nil l f p (fun y hy => hz y (by simp [hy])) h'.2
      simp [h'.1, this]

/-- The contribution of one table entry to `declCount`. -/
private def contrib (w : World) (k : Kind) (m : String) (e : Entry) : Nat :=
  if e.kind == k && e.name == m then times w e.guard else 0

private theorem declCount_def (w : World) (tbl : List Entry) (k : Kind) (m : String) :
    declCount w tbl k m = (tbl.map (contrib w k m)).sum := rfl

/-- A method that the decidable table check accepts is written exactly once per generated type,
whatever the definition makes of the data-dependent conditions. -/
theorem declCount_eq_one (w : World) (tbl : List Entry) (loop : String) (vr : Bool) (m : String)
    (h : exactlyOnce tbl loop w.opt vr m = true) (hc : w.count loop = 1) :
    declCount w tbl .method m = 1 := by
  unfold exactlyOnce at h
  split at h
  · rename_i e he
    rw [named, List.filter_filter] at he
    rw [declCount_def, sum_of_filter_single tbl (contrib w .method m)
      (fun a => optsHold w.opt a.guard && (a.kind == Kind.method && a.name == m)) e _ he]
    · have hmem : e ∈ tbl.filter
          (fun a => optsHold w.opt a.guard && (a.kind == Kind.method && a.name == m)) := by
        rw [he]; simp
      rw [List.mem_filter] at hmem
      have h2 := hmem.2
      rw [Bool.and_eq_true] at h2
      rw [Bool.and_eq_true] at h
      simp only [contrib, h2.2, if_true]
      exact times_eq_one w loop e.guard h.1 h2.1 hc
    · intro x _ hx
      rw [Bool.and_eq_false_iff] at hx
      rcases hx with hx | hx
      · simp [contrib, times_eq_zero w x.guard hx]
      · simp [contrib, hx]
  · simp at h

/-- In that case the single declaration that is rendered has the demanded receiver form. -/
theorem rendered_receiver (w : World) (tbl : List Entry) (loop : String) (m : String)
    (h : exactlyOnce tbl loop w.opt true m = true) :
    ∀ e ∈ tbl, e.kind = .method → e.name = m → times w e.guard ≠ 0 → e.ptr = false := by
  intro e he hk hn ht
  unfold exactlyOnce at h
  split at h
  · rename_i e' he'
    have ho : optsHold w.opt e.guard = true := by
      cases hh : optsHold w.opt e.guard with
      | true => rfl
      | false => exact absurd (times_eq_zero w e.guard hh) ht
    have hmem : e ∈ (named tbl .method m).filter (fun e => optsHold w.opt e.guard) := by
      simp [named, List.mem_filter, he, hk, hn, ho]
    rw [he'] at hmem
    have : e = e' := by simpa using hmem
    subst this
    have h' : perType loop e.guard = true ∧ e.ptr = false := by simpa using h
    exact h'.2
  · simp at h

/-- A method that the decidable check finds switched off is never written. -/
theorem declCount_eq_zero (w : World) (tbl : List Entry) (m : String)
    (h : neverDeclared tbl w.opt m = true) : declCount w tbl .method m = 0 := by
  rw [declCount_def]
  apply sum_zero_of_filter_nil tbl (contrib w .method m) (fun _ => false)
  · intro x hx _
    unfold contrib
    split
    · rename_i hm
      have hx' : x ∈ named tbl .method m := by simp [named, List.mem_filter, hx, hm]
      have := (List.all_eq_true.mp h) x hx'
      exact times_eq_zero w x.guard (by simpa using this)
    · rfl
  · simp

/-- A reference the decidable check covers has its import line rendered whenever it is rendered. -/
theorem import_rendered (w : World) (tbl : List Entry) (uses : List Use)
    (h : usesCovered tbl uses w.opt = true) :
    ∀ u ∈ uses, times w u.guard ≠ 0 →
      ∃ e ∈ tbl, e.kind = .imp ∧ e.recv = u.pkg ∧ times w e.guard = 1 := by
  intro u hu ht
  have h1 := (List.all_eq_true.mp h) u hu
  have ho : optsHold w.opt u.guard = true := by
    cases hh : optsHold w.opt u.guard with
    | true => rfl
    | false => exact absurd (times_eq_zero w u.guard hh) ht
  simp only [ho, Bool.not_true, Bool.false_or] at h1
  obtain ⟨e, he, hp⟩ := List.any_eq_true.mp h1
  simp only [Bool.and_eq_true, beq_iff_eq] at hp
  exact ⟨e, he, hp.1.1.1, hp.1.1.2, times_eq_one_perFile w e.guard hp.1.2 hp.2⟩

/-- A reference the decidable check covers has its declaration rendered (once per type) whenever
the reference itself is rendered. -/
theorem reference_declared (w : World) (tbl : List Entry) (loop : String) (refs : List Ref)
    (h : refsCovered tbl loop refs w.opt = true) (hc : w.count loop = 1) :
    ∀ r ∈ refs, times w r.guard ≠ 0 →
      ∃ e ∈ tbl, e.kind = r.kind ∧ e.name = r.name ∧ times w e.guard = 1 := by
  intro r hr ht
  have h1 := (List.all_eq_true.mp h) r hr
  have ho : optsHold w.opt r.guard = true := by
    cases hh : optsHold w.opt r.guard with
    | true => rfl
    | false => exact absurd (times_eq_zero w r.guard hh) ht
  simp only [ho, Bool.not_true, Bool.false_or] at h1
  obtain ⟨e, he, hp⟩ := List.any_eq_true.mp h1
  simp only [Bool.and_eq_true, beq_iff_eq] at hp
  exact ⟨e, he, hp.1.1.1, hp.1.1.2, times_eq_one w loop e.guard hp.1.2 hp.2 hc⟩

/-! ## The regenerated tables meet the specification (finite part: `decide`) -/

/-- Obligation on `enumTemplate.gotmpl`, all 2^5 option settings. -/
theorem genum_table_ok : ∀ j y t c d : Bool,
    ((genumRequired ifaceEnum ifaceTypedEnum ⟨j, y, t, c, d⟩).all fun p =>
        exactlyOnce genumEntries genumLoop (GenumOpts.env ⟨j, y, t, c, d⟩) p.2 p.1) = true
    ∧ ((genumUnrequested ⟨j, y, t, c, d⟩).all fun m =>
        neverDeclared genumEntries (GenumOpts.env ⟨j, y, t, c, d⟩) m) = true
    ∧ usesCovered genumEntries genumUses (GenumOpts.env ⟨j, y, t, c, d⟩) = true
    ∧ perElement genumEntries genumLoop genumTraitLoop (GenumOpts.env ⟨j, y, t, c, d⟩) = 1 := by
  decide

/-- Obligation on `enumTemplate.gotmpl`, all 2^5 option settings: no rendered call of a generated
method or function whose declaration the same setting switches off. -/
theorem genum_refs_ok : ∀ j y t c d : Bool,
    refsCovered genumEntries genumLoop genumRefs (GenumOpts.env ⟨j, y, t, c, d⟩) = true := by
  decide

theorem gerror_refs_ok : ∀ skip : Bool,
    refsCovered gerrorEntries gerrorLoop gerrorRefs (gerrorEnv skip) = true := by
  decide

theorem gsort_refs_ok : refsCovered gsortEntries gsortLoop gsortRefs noOpts = true := by
  decide

/-- Obligation on `gerror.gotmpl`, with and without `-skipConvertGen`. -/
theorem gerror_table_ok : ∀ skip : Bool,
    ((ifaceError ++ ifaceFactory).all fun m =>
        (guaranteed gerrorEntries gerrorLoop (gerrorEnv skip)).contains m || gerrorBaseMethods.contains m) = true
    ∧ (("Error" :: (gerrorDerivers ifaceFactory).filter (fun m => !(gerrorCallerWrites skip).contains m)).all fun m =>
        exactlyOnce gerrorEntries gerrorLoop (gerrorEnv skip) false m) = true
    ∧ ((gerrorCallerWrites skip).all fun m => neverDeclared gerrorEntries (gerrorEnv skip) m) = true
    ∧ usesCovered gerrorEntries gerrorUses (gerrorEnv skip) = true := by
  decide

/-- Obligation on `gsort.gotmpl` (no options). -/
theorem gsort_table_ok :
    (ifaceSort.all fun m => exactlyOnce gsortEntries gsortLoop noOpts true m) = true
    ∧ usesCovered gsortEntries gsortUses noOpts = true
    ∧ ((gsortEntries.filter fun e => e.kind == .typ && perType gsortLoop e.guard).length = 1) := by
  decide

/-- Trait inspection is gated by `-disableTraits` and by nothing else (generate.go). -/
theorem genum_trait_gate : genumTraitGates = ["DisableTraits"] := by decide

/-! ## Property theorems (all option settings × all definitions) -/

/-- genum: under every option setting and for every definition, each method of `genum.Enum`,
`genum.TypedEnum` and of the requested marshalers is declared exactly once per generated type. -/
theorem genum_required_methods_declared_once (o : GenumOpts) (w : World)
    (hw : w.opt = o.env) (hc : w.count genumLoop = 1) :
    ∀ p ∈ genumRequired ifaceEnum ifaceTypedEnum o, declCount w genumEntries .method p.1 = 1 := by
  intro p hp
  obtain ⟨j, y, t, c, d⟩ := o
  have h := (List.all_eq_true.mp (genum_table_ok j y t c d).1) p hp
  exact declCount_eq_one w genumEntries genumLoop p.2 p.1 (by rw [hw]; exact h) hc

/-- genum: the interface methods and the `Marshal*` methods are rendered with value receivers, so
the enum type itself (which `ParseGeneric` returns as `genum.Enum`) has them in its method set. -/
theorem genum_interface_methods_on_value (o : GenumOpts) (w : World) (hw : w.opt = o.env) :
    ∀ p ∈ genumRequired ifaceEnum ifaceTypedEnum o, p.2 = true →
      ∀ e ∈ genumEntries, e.kind = .method → e.name = p.1 → times w e.guard ≠ 0 → e.ptr = false := by
  intro p hp hv
  obtain ⟨j, y, t, c, d⟩ := o
  have h := (List.all_eq_true.mp (genum_table_ok j y t c d).1) p hp
  rw [hv] at h
  exact rendered_receiver w genumEntries genumLoop p.1 (by rw [hw]; exact h)

/-- genum: a marshaler that was switched off is not declared (for any definition). -/
theorem genum_unrequested_marshalers_absent (o : GenumOpts) (w : World) (hw : w.opt = o.env) :
    ∀ m ∈ genumUnrequested o, declCount w genumEntries .method m = 0 := by
  intro m hm
  obtain ⟨j, y, t, c, d⟩ := o
  have h := (List.all_eq_true.mp (genum_table_ok j y t c d).2.1) m hm
  exact declCount_eq_zero w genumEntries m (by rw [hw]; exact h)

/-- genum: whenever a package-qualified reference is rendered, so is its import line. -/
theorem genum_imports_cover_references (o : GenumOpts) (w : World) (hw : w.opt = o.env) :
    ∀ u ∈ genumUses, times w u.guard ≠ 0 →
      ∃ e ∈ genumEntries, e.kind = .imp ∧ e.recv = u.pkg ∧ times w e.guard = 1 := by
  obtain ⟨j, y, t, c, d⟩ := o
  exact import_rendered w genumEntries genumUses (by rw [hw]; exact (genum_table_ok j y t c d).2.2.1)

/-- genum: whenever a call of a generated method or function is rendered (e.g. `UnmarshalJSON`
calling `Parse«T»`, `MarshalText` calling `e.String()`), the declaration it calls is rendered
too - under every option setting and for every definition.  No marshaler section depends on a
section that another switch controls. -/
theorem genum_references_declared (o : GenumOpts) (w : World) (hw : w.opt = o.env)
    (hc : w.count genumLoop = 1) :
    ∀ r ∈ genumRefs, times w r.guard ≠ 0 →
      ∃ e ∈ genumEntries, e.kind = r.kind ∧ e.name = r.name ∧ times w e.guard = 1 := by
  obtain ⟨j, y, t, c, d⟩ := o
  exact reference_declared w genumEntries genumLoop genumRefs (by rw [hw]; exact genum_refs_ok j y t c d) hc

theorem gerror_references_declared (skip : Bool) (w : World) (hw : w.opt = gerrorEnv skip)
    (hc : w.count gerrorLoop = 1) :
    ∀ r ∈ gerrorRefs, times w r.guard ≠ 0 →
      ∃ e ∈ gerrorEntries, e.kind = r.kind ∧ e.name = r.name ∧ times w e.guard = 1 :=
  reference_declared w gerrorEntries gerrorLoop gerrorRefs (by rw [hw]; exact gerror_refs_ok skip) hc

/-- genum: `-disableTraits` (and only it) makes the generator see no trait. -/
theorem genum_traits_seen (o : GenumOpts) (traits : List String) :
    traitsSeen genumTraitGates o.env traits = if o.disableTraits then [] else traits := by
  rw [genum_trait_gate]
  simp [traitsSeen, GenumOpts.env]

/-- gerror: every method of `gerror.Error` and `gerror.Factory` is either declared for the
extension type (for every definition) or promoted from the embedded `GError`. -/
theorem gerror_implements_error_and_factory (skip : Bool) :
    ∀ m ∈ ifaceError ++ ifaceFactory,
      m ∈ guaranteed gerrorEntries gerrorLoop (gerrorEnv skip) ∨ m ∈ gerrorBaseMethods := by
  intro m hm
  have h := (List.all_eq_true.mp (gerror_table_ok skip).1) m hm
  simpa [Bool.or_eq_true, List.contains_iff_mem] using h

/-- gerror: `Error` and every deriving Factory method are re-declared exactly once on the
extension type - except, under `-skipConvertGen`, the two the caller writes. -/
theorem gerror_derivers_declared_once (skip : Bool) (w : World)
    (hw : w.opt = gerrorEnv skip) (hc : w.count gerrorLoop = 1) :
    ∀ m ∈ "Error" :: gerrorDerivers ifaceFactory, m ∉ gerrorCallerWrites skip →
      declCount w gerrorEntries .method m = 1 := by
  intro m hm hn
  have hm' : m ∈ "Error" :: (gerrorDerivers ifaceFactory).filter (fun m => !(gerrorCallerWrites skip).contains m) := by
    rcases List.mem_cons.mp hm with h | h
    · simp [h]
    · exact List.mem_cons_of_mem _ (List.mem_filter.mpr ⟨h, by simpa [List.contains_iff_mem] using hn⟩)
  have h := (List.all_eq_true.mp (gerror_table_ok skip).2.1) m hm'
  exact declCount_eq_one w gerrorEntries gerrorLoop false m (by rw [hw]; exact h) hc

/-- gerror: under `-skipConvertGen` the template declares neither `Convert` nor `ConvertS`, so
the caller's own declarations do not collide. -/
theorem gerror_caller_methods_absent (skip : Bool) (w : World) (hw : w.opt = gerrorEnv skip) :
    ∀ m ∈ gerrorCallerWrites skip, declCount w gerrorEntries .method m = 0 := by
  intro m hm
  have h := (List.all_eq_true.mp (gerror_table_ok skip).2.2.1) m hm
  exact declCount_eq_zero w gerrorEntries m (by rw [hw]; exact h)

theorem gerror_imports_cover_references (skip : Bool) (w : World) (hw : w.opt = gerrorEnv skip) :
    ∀ u ∈ gerrorUses, times w u.guard ≠ 0 →
      ∃ e ∈ gerrorEntries, e.kind = .imp ∧ e.recv = u.pkg ∧ times w e.guard = 1 :=
  import_rendered w gerrorEntries gerrorUses (by rw [hw]; exact (gerror_table_ok skip).2.2.2)

/-- gsort: each sorter type gets `Len`, `Less`, `Swap` exactly once, on the slice type itself. -/
theorem gsort_implements_sort_interface (w : World) (hw : w.opt = noOpts) (hc : w.count gsortLoop = 1) :
    ∀ m ∈ ifaceSort, declCount w gsortEntries .method m = 1
      ∧ ∀ e ∈ gsortEntries, e.kind = .method → e.name = m → times w e.guard ≠ 0 → e.ptr = false := by
  intro m hm
  have h := (List.all_eq_true.mp gsort_table_ok.1) m hm
  exact ⟨declCount_eq_one w gsortEntries gsortLoop true m (by rw [hw]; exact h) hc,
         rendered_receiver w gsortEntries gsortLoop m (by rw [hw]; exact h)⟩

/-! ## Type references of trait constants -/

/-- Every basic kind a trait constant can have is written as one predeclared type identifier,
and it is the constant's default type. -/
theorem typeRef_meets_spec : ∀ b : Basic, typeRef b = typeRefSpec b ∧ IsTypeIdent (typeRef b) := by
  intro b
  refine ⟨?_, ?_⟩
  · cases b <;> rfl
  · cases b <;> exact ⟨_, rfl, by decide⟩

/-- The repair changes nothing for the kinds the pinned code already got right. -/
theorem typeRef_agrees_with_legacy_elsewhere :
    ∀ b : Basic, b ≠ .untypedFloat → b ≠ .untypedComplex → typeRef b = typeRefLegacy b := by
  intro b h1 h2
  cases b <;> first | rfl | exact absurd rfl h1 | exact absurd rfl h2

/-! ## The pinned code violates the property (kernel-checked witnesses) -/

/-- The pinned template: `IsEnum` sits inside the `{{if $.GenYAML}}` block. -/
def genumEntriesLegacy : List Entry :=
  genumEntries.map fun e =>
    if e.name == "IsEnum" then { e with guard := [.range ".Types", .opt "GenYAML" true] } else e

/-- With `-yaml=false` the pinned template never declares `IsEnum` (for any definition), although
`genum.Enum` requires it: the generated type does not implement `genum.Enum`. -/
theorem legacy_isEnum_violates :
    ("IsEnum", true) ∈ genumRequired ifaceEnum ifaceTypedEnum ⟨true, false, true, false, false⟩
    ∧ ∀ w : World, w.opt = GenumOpts.env ⟨true, false, true, false, false⟩ →
        declCount w genumEntriesLegacy .method "IsEnum" = 0 := by
  refine ⟨by decide, ?_⟩
  intro w hw
  exact declCount_eq_zero w genumEntriesLegacy "IsEnum" (by rw [hw]; decide)

/-- The pinned type reference of an untyped float (complex) constant is `float` (`complex`),
which is not a Go type. -/
theorem legacy_typeRef_violates :
    typeRefLegacy .untypedFloat = ["float"] ∧ ¬ IsTypeIdent (typeRefLegacy .untypedFloat)
    ∧ typeRefLegacy .untypedComplex = ["complex"] ∧ ¬ IsTypeIdent (typeRefLegacy .untypedComplex) := by
  refine ⟨rfl, ?_, rfl, ?_⟩
  · rintro ⟨t, ht, hm⟩
    have : t = "float" := by
      have := ht.symm; simp [typeRefLegacy, trimUntyped, Basic.words] at this; exact this
    subst this; revert hm; decide
  · rintro ⟨t, ht, hm⟩
    have : t = "complex" := by
      have := ht.symm; simp [typeRefLegacy, trimUntyped, Basic.words] at this; exact this
    subst this; revert hm; decide

/-! ## The proved part of "the file compiles" -/

/-- PARTIAL (full statement `generated_file_compiles` in the header): the declaration-level
necessary conditions of compiling hold for every option setting and every definition - every
required method once, every switched-off marshaler absent, every referenced package imported,
every basic trait type a real type.  That gofmt and the type checker accept the rest of the file
is observed by the compile sweep, not proved. -/
theorem declared_once_partial (o : GenumOpts) (w : World) (hw : w.opt = o.env)
    (hc : w.count genumLoop = 1) :
    (∀ p ∈ genumRequired ifaceEnum ifaceTypedEnum o, declCount w genumEntries .method p.1 = 1)
    ∧ (∀ m ∈ genumUnrequested o, declCount w genumEntries .method m = 0)
    ∧ (∀ u ∈ genumUses, times w u.guard ≠ 0 →
        ∃ e ∈ genumEntries, e.kind = .imp ∧ e.recv = u.pkg ∧ times w e.guard = 1)
    ∧ (∀ b : Basic, IsTypeIdent (typeRef b)) :=
  ⟨genum_required_methods_declared_once o w hw hc, genum_unrequested_marshalers_absent o w hw,
   genum_imports_cover_references o w hw, fun b => (typeRef_meets_spec b).2⟩

/-! ## Non-vacuity -/

/-- A world for `-yaml=false -caseInsensitive` with one type, three traits and every data
condition true. -/
def sampleOpts : GenumOpts := ⟨true, false, true, true, false⟩
def sampleWorld : World := ⟨sampleOpts.env, fun _ => true, fun d => if d == genumLoop then 1 else 3⟩

/-- The hypotheses of the theorems are satisfiable, and the conclusions are not trivial:
`IsEnum` is declared once, `UnmarshalYAML` not at all, one accessor per trait. -/
example :
    sampleWorld.opt = sampleOpts.env ∧ sampleWorld.count genumLoop = 1
    ∧ declCount sampleWorld genumEntries .method "IsEnum" = 1
    ∧ declCount sampleWorld genumEntries .method "UnmarshalYAML" = 0
    ∧ declCount sampleWorld genumEntries .method "«$trait.Name»" = 3 :=
  ⟨rfl, by decide, by decide, by decide, by decide⟩

example : ("IsEnum", true) ∈ genumRequired ifaceEnum ifaceTypedEnum ⟨false, false, false, false, true⟩ := by
  decide

end C13

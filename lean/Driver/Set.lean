import Model.SetM
import Driver.Util
/-! Line protocol for `Model/SetM` (stateful): elements are indices into the harness's universe. -/
namespace Drv.Set
open SetM

abbrev St := S Nat

def showList (l : List Nat) : String := joinSp ((l.mergeSort (· ≤ ·)).map toString)

def handle (st : St) (ws : List String) : St × String :=
  match ws with
  | ["nil"] => (none, "ok")
  | ["slice"] => (st, match slice st with | none => "nil" | some l => "[" ++ showList l ++ "]")
  | ["probe", n] => match n.toNat? with
    | some n => (st, String.join ((List.range n).map (fun i => showBool (has st [i]))))
    | none => (st, "bad-op")
  | "rt" :: _codec :: _mode :: tgt =>
    -- round trip through the identity list codec into a target: `rt nil`, `rt empty`, `rt <idx>*`
    let t : Option St := match tgt with
      | ["nil"] => some none
      | ["empty"] => some (some [])
      | xs => (natsOf xs).map make
    match t with
    | none => (st, "bad-op")
    | some t =>
      let shape := match encShape st with | none => "null" | some n => s!"seq:{n}"
      match unmarshal ⟨id, fun d => some (d.getD [])⟩ t (marshal ⟨id, fun d => some (d.getD [])⟩ st) with
      | none => (st, "err")
      | some r => (st, s!"{shape} [{showList (elems r)}]")
  | op :: xs => match natsOf xs with
    | none => (st, "bad-op")
    | some xs =>
      match op with
      | "make" => (make xs, "ok")
      | "add" | "addset" => let r := add st xs; (r.1, showBool r.2)
      | "remove" | "removeset" => let r := remove st xs; (r.1, showBool r.2)
      | "has" => (st, showBool (has st xs))
      | "haslegacy" => (st, showBool (hasLegacy st xs))
      | "hasany" => (st, showBool (hasAny st xs))
      | _ => (st, "bad-op")
  | _ => (st, "bad-op")

end Drv.Set

/-!
# Model of `gsort/gen` (the sorter generator) and of the code it generates

Mirrors, in order:

* `sfdFromLine` (`sorter_desc.go`): one `gsort:"…"` tag, split on `,`, 1–3 options, the second
  parsed by `strconv.Atoi`;
* `createSorterDesc`: walk the struct fields in declaration order, every tag of a field in tag
  order, group the resulting `SortFieldDesc`s per sorter name in a map (here: association list),
  re-sorting the group by priority after every insertion; then `Validate` every group
  (non-empty, no two fields with the same priority);
* `SorterDesc.PriorityTree`: sort by priority, build the lopsided `CompareLine` chain
  (`IsBool`, `Accessor = FieldName[.CustomAccessor]`);
* the template's `PriorityBlock` and `CompareLine.String`, giving the body of the generated
  `Less(i, j)` as a small syntax tree `Cmp`;
* the meaning of that body on two slice elements (`Cmp.eval`), over field values of an arbitrary
  ordered type `V` (strings, integers, floats without NaN, accessor results) and booleans.

`CompareLine.string` is the algorithm of the current tree (`!s[i].B && s[j].B` for a bool key);
`CompareLine.stringLegacy` is the pinned commit (`s[j].B`), kept for the witness theorem.

The SPEC (`LexLess`, executable form `lex`) mirrors the property text and is defined separately
at the end of the file.
-/
namespace GSort

/-! ## tags -/

inductive GenErr where
  | tagArity        -- "maximum three tag options allowed …"
  | priorityNotInt  -- "second option must be an int indicating sort priority!"
  | dupPriority     -- "multiple fields have same sort priority"
  | noSortAttrs     -- "no sort attributes defined"
  deriving DecidableEq, Repr

/-- `strconv.Atoi`: optional sign, at least one decimal digit, no underscores, int64 range. -/
def atoi (s : String) : Option Int :=
  let cs := s.toList
  let p : Bool × List Char := match cs with
    | '-' :: r => (true, r)
    | '+' :: r => (false, r)
    | r => (false, r)
  if p.2.isEmpty then none
  else if p.2.all Char.isDigit then
    let n : Nat := p.2.foldl (fun acc c => acc * 10 + (c.toNat - 48)) 0
    let v : Int := if p.1 then -(n : Int) else (n : Int)
    if v < -9223372036854775808 || v > 9223372036854775807 then none else some v
  else none

/-- `strings.Split(s, ",")` (own structural recursion so that the kernel can evaluate it) -/
def splitCommaAux : List Char → List Char → List String
  | cur, [] => [String.ofList cur.reverse]
  | cur, c :: cs =>
    if c = ',' then String.ofList cur.reverse :: splitCommaAux [] cs else splitCommaAux (c :: cur) cs

def splitComma (s : String) : List String := splitCommaAux [] s.toList

/-- a struct field as the generator sees it: name, whether `FieldType.String() == "bool"`, and
the option strings of its `gsort:"…"` tags in tag order -/
structure Field where
  name : String
  isBool : Bool
  tags : List String
  deriving Repr

/-- `SortFieldDesc` -/
structure SFD where
  fieldName : String
  isBool : Bool
  accessor : String   -- CustomAccessor ("" = none)
  sorter : String     -- SortTypeName, raw (may start with `*`)
  priority : Int
  deriving DecidableEq, Repr

/-- `sfdFromLine` + the two assignments in `sortFieldDescFromTag`.
`strings.Split` never returns an empty slice, so the `len(tuple) < 1` branch is dead. -/
def sfdFromLine (f : Field) (options : String) : Except GenErr SFD :=
  let tuple := splitComma options
  if tuple.length > 3 then .error .tagArity
  else
    let sorter := tuple.headD ""
    match tuple with
    | [_] => .ok ⟨f.name, f.isBool, "", sorter, 0⟩
    | [_, p] => match atoi p with
      | none => .error .priorityNotInt
      | some n => .ok ⟨f.name, f.isBool, "", sorter, n⟩
    | [_, p, a] => match atoi p with
      | none => .error .priorityNotInt
      | some n => .ok ⟨f.name, f.isBool, a, sorter, n⟩
    | _ => .error .tagArity

/-- `sortFieldDescFromTag`: all tags of one field, first error wins -/
def sfdsOfField (f : Field) : Except GenErr (List SFD) := f.tags.mapM (sfdFromLine f)

/-- all `SortFieldDesc`s of a struct in field order then tag order, first error wins -/
def allSFDs : List Field → Except GenErr (List SFD)
  | [] => .ok []
  | f :: fs => do
    let a ← sfdsOfField f
    let b ← allSFDs fs
    pure (a ++ b)

/-! ## grouping, sorting, validation -/

/-- `sort.Sort(SortFieldDescs)`; `Less` is `Priority <`.  Go's sort is not stable; the model
uses a merge sort.  With pairwise distinct priorities every sorting algorithm returns the same
list (`Properties/C08.sorted_unique`), and other inputs are rejected by `validate`. -/
def sortP (l : List SFD) : List SFD := l.mergeSort (fun a b => decide (a.priority ≤ b.priority))

/-- the map `descs` of `createSorterDesc` as an association list keyed by raw sorter name -/
abbrev Descs := List (String × List SFD)

/-- one iteration of the inner loop: append to the sorter's group (or create it), sort it -/
def addFD : Descs → SFD → Descs
  | [], fd => [(fd.sorter, sortP [fd])]
  | (k, fs) :: rest, fd =>
    if k = fd.sorter then (k, sortP (fs ++ [fd])) :: rest else (k, fs) :: addFD rest fd

def groupAll (fds : List SFD) : Descs := fds.foldl addFD []

/-- `SortFieldDescs.Validate` -/
def validate (fs : List SFD) : Except GenErr Unit :=
  if fs.length = 0 then .error .noSortAttrs
  else if (fs.map (·.priority)).Nodup then .ok () else .error .dupPriority

/-! ## `PriorityTree`, the template, the generated body -/

/-- `CompareLine` (a non-empty singly linked chain) -/
inductive CompareLine where
  | last (isBool : Bool) (accessor : String)
  | nest (isBool : Bool) (accessor : String) (next : CompareLine)
  deriving DecidableEq, Repr

def accessorOf (f : SFD) : String :=
  if f.accessor ≠ "" then f.fieldName ++ "." ++ f.accessor else f.fieldName

/-- the loop of `PriorityTree` over the (already sorted) fields; on no field at all the Go code
returns the zero `CompareLine` -/
def chainOf : List SFD → CompareLine
  | [] => .last false ""
  | [f] => .last f.isBool (accessorOf f)
  | f :: g :: rest => .nest f.isBool (accessorOf f) (chainOf (g :: rest))

/-- `SorterDesc.PriorityTree` -/
def priorityTree (fs : List SFD) : CompareLine := chainOf (sortP fs)

/-- the expression after `return` -/
inductive RetExpr where
  | lt (acc : String)        -- `s[i].acc < s[j].acc`
  | selJ (acc : String)      -- `s[j].acc`
  | notIAndJ (acc : String)  -- `!s[i].acc && s[j].acc`
  deriving DecidableEq, Repr

/-- body of a generated `Less`: `return e` or `if s[i].acc == s[j].acc { body }; return e`.
Every body ends in a `return`, so the statement after an `if` is reached exactly when the
condition is false. -/
inductive Cmp where
  | ret (e : RetExpr)
  | ifEq (acc : String) (body : Cmp) (e : RetExpr)
  deriving DecidableEq, Repr

/-- `CompareLine.String` (current tree) -/
def retOf (isBool : Bool) (acc : String) : RetExpr := if isBool then .notIAndJ acc else .lt acc

/-- `CompareLine.String` at the pinned commit -/
def retOfLegacy (isBool : Bool) (acc : String) : RetExpr := if isBool then .selJ acc else .lt acc

/-- template `PriorityBlock`, parametric in the rendering of `{{.String}}` -/
def blockWith (ret : Bool → String → RetExpr) : CompareLine → Cmp
  | .last b a => .ret (ret b a)
  | .nest b a n => .ifEq a (blockWith ret n) (ret b a)

def priorityBlock : CompareLine → Cmp := blockWith retOf
def priorityBlockLegacy : CompareLine → Cmp := blockWith retOfLegacy

/-- one generated sorter type -/
structure Sorter where
  raw : String          -- sortTypeName as written in the tag
  less : Cmp
  deriving DecidableEq, Repr

/-- `SortTypeName()` -/
def Sorter.typeName (s : Sorter) : String :=
  if s.raw.startsWith "*" then (s.raw.drop 1).toString else s.raw
/-- `UsePointer()` -/
def Sorter.usePointer (s : Sorter) : Bool := s.raw.startsWith "*"

def validateAll : Descs → Except GenErr Unit
  | [] => .ok ()
  | (_, fs) :: rest => do validate fs; validateAll rest

/-- `createSorterDesc` after the tags were read, followed by the template -/
def generateFromSFDs (ret : Bool → String → RetExpr) (fds : List SFD) : Except GenErr (List Sorter) := do
  let descs := groupAll fds
  validateAll descs
  pure (descs.map (fun d => ⟨d.1, blockWith ret (priorityTree d.2)⟩))

/-- `createSorterDesc` followed by the template, for one struct type -/
def generateWith (ret : Bool → String → RetExpr) (fields : List Field) : Except GenErr (List Sorter) := do
  let fds ← allSFDs fields
  generateFromSFDs ret fds

def generate : List Field → Except GenErr (List Sorter) := generateWith retOf
def generateLegacy : List Field → Except GenErr (List Sorter) := generateWith retOfLegacy

def findSorter (raw : String) : List Sorter → Option Sorter
  | [] => none
  | s :: rest => if s.raw = raw then some s else findSorter raw rest

/-! ## meaning of the generated body -/

/-- a field value (or accessor result) of a slice element: a Go `bool`, or a value of an
ordered type -/
inductive Val (V : Type) where
  | flag (b : Bool)
  | ord (v : V)
  deriving DecidableEq, Repr

/-- a slice element, seen through its accessor expressions (`"Field"`, `"Field.String()"`) -/
abbrev Rec (V : Type) := String → Val V

variable {V : Type} [DecidableEq V]

def Val.isFlag : Val V → Bool
  | .flag _ => true
  | .ord _ => false

/-- Go `==` -/
def Val.eq (x y : Val V) : Bool := decide (x = y)

/-- Go `<` (not defined on `bool`: such a program does not compile; `false` here) -/
def Val.goLt (lt : V → V → Bool) : Val V → Val V → Bool
  | .ord x, .ord y => lt x y
  | _, _ => false

/-- a bool-typed expression used as a condition -/
def Val.truth : Val V → Bool
  | .flag b => b
  | .ord _ => false

def RetExpr.eval (lt : V → V → Bool) (a b : Rec V) : RetExpr → Bool
  | .lt acc => Val.goLt lt (a acc) (b acc)
  | .selJ acc => (b acc).truth
  | .notIAndJ acc => !(a acc).truth && (b acc).truth

/-- `Less(i, j)` with `a = s[i]`, `b = s[j]` -/
def Cmp.eval (lt : V → V → Bool) (a b : Rec V) : Cmp → Bool
  | .ret e => e.eval lt a b
  | .ifEq acc body e => if Val.eq (a acc) (b acc) then body.eval lt a b else e.eval lt a b

/-- The same comparison written with guard clauses (a rendering some templates prefer):
`if s[i].a != s[j].a { return e_a }; … ; return e_last`.  `Cmp.ofGuards` is the nested form the
reader of generated text (`harness/cmd/h-gsort/astchain.go`) rewrites such a body into;
`Properties/C08.evalGuards_eq` shows that the rewriting keeps the meaning. -/
def Cmp.ofGuards : List (String × RetExpr) → RetExpr → Cmp
  | [], last => .ret last
  | (acc, e) :: gs, last => .ifEq acc (Cmp.ofGuards gs last) e

/-- meaning of the guard-clause text itself: statements run top to bottom -/
def evalGuards (lt : V → V → Bool) (a b : Rec V) : List (String × RetExpr) → RetExpr → Bool
  | [], last => last.eval lt a b
  | (acc, e) :: gs, last =>
    if !(Val.eq (a acc) (b acc)) then e.eval lt a b else evalGuards lt a b gs last

/-- Normal form used when the generated program text is compared with the model's: inside
`if s[i].a == s[j].a {…}; return e` the fall-through `return s[j].a` (pinned commit) and
`return !s[i].a && s[j].a` (current tree) mean the same (`Properties/C08.normalize_eval`), so
both are written the second way.  A trailing `return s[j].a` is NOT normalised. -/
def Cmp.normalize : Cmp → Cmp
  | .ret e => .ret e
  | .ifEq acc body e =>
    .ifEq acc body.normalize (match e with
      | .selJ a => if a = acc then .notIAndJ a else .selJ a
      | e => e)

/-! ## Specification (mirrors the property text)

"lexicographic comparison of the tagged fields, or of their accessor results, in ascending
priority, with false ordered before true for booleans" -/

/-- a sort key: the expression compared and whether it is a boolean -/
structure Key where
  accessor : String
  isBool : Bool
  deriving DecidableEq, Repr

/-- the order on one key's values: the type's own `<`, and `false < true` -/
def Val.less (lt : V → V → Bool) : Val V → Val V → Bool
  | .ord x, .ord y => lt x y
  | .flag x, .flag y => !x && y
  | _, _ => false

/-- `a` is lexicographically smaller than `b` on the key list: they agree on a (possibly empty)
prefix of the keys and `a` is smaller on the next one -/
def LexLess (lt : V → V → Bool) (ks : List Key) (a b : Rec V) : Prop :=
  ∃ pre k post, ks = pre ++ k :: post ∧ (∀ x ∈ pre, a x.accessor = b x.accessor) ∧
    Val.less lt (a k.accessor) (b k.accessor) = true

/-- executable form of `LexLess` -/
def lex (lt : V → V → Bool) : List Key → Rec V → Rec V → Bool
  | [], _, _ => false
  | k :: ks, a, b =>
    if a k.accessor = b k.accessor then lex lt ks a b else Val.less lt (a k.accessor) (b k.accessor)

/-- the records are values of the struct type the keys were taken from -/
def WellTyped (ks : List Key) (a : Rec V) : Prop := ∀ k ∈ ks, (a k.accessor).isFlag = k.isBool

def keyOf (f : SFD) : Key := ⟨accessorOf f, f.isBool⟩

/-- the `SortFieldDesc`s the tags of a struct assign to sorter `raw` (declaration order) -/
def taggedFor (fds : List SFD) (raw : String) : List SFD := fds.filter (fun d => d.sorter = raw)

/-- `ks` lists the keys of sorter `raw` in ascending priority -/
def IsKeyOrder (fds : List SFD) (raw : String) (ks : List Key) : Prop :=
  ∃ l : List SFD, l.Perm (taggedFor fds raw) ∧ l.Pairwise (fun x y => x.priority < y.priority) ∧ ks = l.map keyOf

/-- a strict total order on the value type (strings, integers, floats without NaN) -/
structure StrictTotal (lt : V → V → Bool) : Prop where
  irrefl : ∀ a, lt a a = false
  trans : ∀ a b c, lt a b = true → lt b c = true → lt a c = true
  total : ∀ a b, a ≠ b → lt a b = true ∨ lt b a = true

/-! ## sorting with the generated `Less` (reference algorithm for the correspondence) -/

/-- a stable sort driven by a `Less`; stands for the contract of `sort.Stable` -/
def stableSort {α : Type} (less : α → α → Bool) (l : List α) : List α :=
  l.mergeSort (fun x y => !less y x)

/-- inner loop of Go's `insertionSort(data, a, b)` (sort/zsortinterface.go):
`for j := i; j > a && data.Less(j, j-1); j-- { data.Swap(j, j-1) }`.
`acc` is the already sorted `data[a:i]` REVERSED (nearest neighbour first), `x = data[i]`; the
result is `data[a:i+1]` after the loop, reversed. -/
def bubble {α : Type} (less : α → α → Bool) : List α → α → List α
  | [], x => [x]
  | p :: ps, x => if less x p then p :: bubble less ps x else x :: p :: ps

/-- `insertionSort(data, 0, n)`: this IS `sort.Sort` for `Len() <= 12` and `sort.Stable` for
`Len() <= 20` (Go 1.23: `pdqsort` with `maxInsertion = 12`, `stable` with `blockSize = 20`). -/
def goInsertionSort {α : Type} (less : α → α → Bool) (l : List α) : List α :=
  (l.foldl (bubble less) []).reverse

/-- generated `Swap(i, j)`: `s[i], s[j] = s[j], s[i]`; `none` = index out of range (panic) -/
def swap {α : Type} (s : List α) (i j : Nat) : Option (List α) :=
  match s[i]?, s[j]? with
  | some x, some y => some ((s.set i y).set j x)
  | _, _ => none

end GSort

import Generated.GoGSort
import Generated.GSortTmpl
import Model.GSortText
import Lemmas.GoLoop
import Properties.C07Tie
import Properties.C08
/-!
# C08, tie A by translation: the generator's own functions and template

`Properties/C08.lean` proves the property about a hand-written model of gsort/gen
(`Model/GSort.lean`).  Here the model is tied to what /repo says NOW: on every run
`harness/cmd/go2lean -spec gsort` re-translates from gsort/gen/sorter_desc.go the functions
`CompareLine.String`, `CompareLine.HasNest`, `SorterDesc.PriorityTree` (the chain is built through
pointers: cells of a heap, `Model/GoHeap.lean`), `SortFieldDescs.Validate` (through the translated
`set.Make` / `Set.Add`), `sfdFromLine`, `SorterDesc.SortTypeName` / `UsePointer`, and from the generated
sorter_desc.gsort.go the `Less` that `sort.Sort(sd.Fields)` compares with; `-spec gsorttmpl` extracts the
`Less` part of gsort.gotmpl and the `PriorityBlock` template it calls as a term of `TmplAst.Node`.

Obligations (all for EVERY input):

* `go_compareLine_string_eq`, `go_hasNest_eq`;
* `go_priorityTree_chain` (any field list, any `sort.Sort`): the cells at addresses 0, 1, … are the
  model's `chainOf` over the fields as sorted; `go_priorityTree_eq`: with `sort.Sort` keeping its
  contract (`SortContract`: a rearrangement after which the translated generated `Less` never puts
  a later element before an earlier one) and pairwise distinct priorities this is the model's
  `priorityTree` (which uses a merge sort): `contract_sort_eq`;
* `go_validate_eq`, `go_sfdFromLine_eq`, `go_sortTypeName_eq`, `go_usePointer_eq`;
* `go_render_eq_genChain`: executing the extracted template with the translated methods bound to
  their names (`goData`) writes exactly `Cmp.text` (Model/GSortText.lean) of the model's chain;
* `go_less_eq_lex`: the headline of C08 for the translated functions and the extracted template.

Not translated (stay tied by behaviour only): `createSorterDesc`'s grouping per sorter name and
`sortFieldDescFromTag`'s loop over the tags of one field; `Generate.Parse/Write` and gofmt.
-/
set_option linter.unusedSimpArgs false
namespace C08Tie
open GSort

abbrev GSFD := Generated.GoGSort.SortFieldDesc
abbrev GCL := Generated.GoGSort.CompareLine
abbrev GEnv := Generated.GoGSort.Env

/-- a descriptor of the translated code as the model sees it (`FieldType.String() == "bool"`) -/
def toModel (d : GSFD) : SFD :=
  ⟨d.FieldName, d.FieldType == "bool", d.CustomAccessor, d.SortTypeName, d.Priority⟩

/-! ### `CompareLine.String`, `CompareLine.HasNest` -/

theorem go_compareLine_string_eq (c : GCL) :
    Generated.GoGSort.CompareLine.String c = pure (retOf c.IsBool c.Accessor).text := by
  unfold Generated.GoGSort.CompareLine.String retOf
  cases h : c.IsBool <;> simp [RetExpr.text]

theorem go_hasNest_eq (c : GCL) :
    Generated.GoGSort.CompareLine.HasNest c = pure c.Nest.isSome := by
  unfold Generated.GoGSort.CompareLine.HasNest
  cases h : c.Nest <;> rfl

/-! ### `PriorityTree` -/

/-- the cells of a `CompareLine` chain at consecutive addresses from `base` on -/
def layout (base : Nat) : GSort.CompareLine → List GCL
  | .last b a => [⟨b, a, none⟩]
  | .nest b a n => ⟨b, a, some (base + 1)⟩ :: layout (base + 1) n

private theorem forIn_yield_abs {α β σ : Type} (g : σ → β) (body : α → β → Go.M (ForInStep β)) (f : σ → α → σ)
    (h : ∀ a s, body a (g s) = pure (.yield (g (f s a)))) (items : List α) (s : σ) :
    forIn items (g s) body = pure (g (items.foldl f s)) := by
  induction items generalizing s with
  | nil => rfl
  | cons a as ih => simp only [List.forIn_cons, h a s, pure_bind, List.foldl_cons]; exact ih _

theorem load_at (pre : List GCL) (c : GCL) (post : List GCL) :
    Go.load (pre ++ c :: post) (some pre.length) = pure c := by
  simp [Go.load, List.getD_eq_getElem?_getD]

theorem store_at (pre : List GCL) (c c' : GCL) (post : List GCL) :
    Go.store (pre ++ c :: post) (some pre.length) c' = pure (pre ++ c' :: post) := by
  simp [Go.store]

def accOf (v : GSFD) : String :=
  if v.CustomAccessor = "" then v.FieldName else v.FieldName ++ ("." ++ v.CustomAccessor)

/-- one iteration of the loop of `PriorityTree` on (cells before the current one, current cell) -/
def treeStep (n : Nat) (st : List GCL × GCL) (iv : GSFD × Nat) : List GCL × GCL :=
  let acc := accOf iv.1
  if iv.2 + 1 < n then
    (st.1 ++ [⟨iv.1.FieldType == "bool", acc, some (st.1.length + 1)⟩], Generated.GoGSort.CompareLine.zero)
  else (st.1, ⟨iv.1.FieldType == "bool", acc, st.2.Nest⟩)

def conc (st : List GCL × GCL) : Go.Heap GCL × Go.Ptr := (st.1 ++ [st.2], some st.1.length)

theorem go_priorityTree_loop (env : GEnv) (sd : Generated.GoGSort.SorterDesc) :
    Generated.GoGSort.SorterDesc.PriorityTree env sd =
      pure ((conc ((env.sortSort sd.Fields).zipIdx.foldl (treeStep (env.sortSort sd.Fields).length)
        ([], Generated.GoGSort.CompareLine.zero))).1, some 0) := by
  unfold Generated.GoGSort.SorterDesc.PriorityTree
  simp only []
  have h0 : ((Go.new ([] : Go.Heap GCL) Generated.GoGSort.CompareLine.zero).fst,
      (Go.new ([] : Go.Heap GCL) Generated.GoGSort.CompareLine.zero).snd) = conc ([], Generated.GoGSort.CompareLine.zero) := rfl
  rw [h0, forIn_yield_abs conc _ (treeStep (env.sortSort sd.Fields).length)]
  · simp [Go.new]
  · intro iv st
    obtain ⟨pre, c⟩ := st
    obtain ⟨v, i⟩ := iv
    have hlt : (Int.ofNat (env.sortSort sd.Fields).length - 1 > Int.ofNat i) ↔ i + 1 < (env.sortSort sd.Fields).length := by
      simp only [Int.ofNat_eq_natCast]; omega
    simp only [conc, load_at, store_at, pure_bind, Go.new, hlt, decide_eq_true_eq]
    by_cases ha : v.CustomAccessor = "" <;> by_cases hn : i + 1 < (env.sortSort sd.Fields).length
    all_goals simp [ha, hn, treeStep, load_at, store_at, conc, accOf]

theorem accessor_eq (v : GSFD) : accOf v = accessorOf (toModel v) := by
  unfold accessorOf toModel accOf
  by_cases h : v.CustomAccessor = "" <;> simp [h, String.append_assoc]

theorem tree_fold (n : Nat) (rest : List GSFD) :
    ∀ (pre : List GCL) (k : Nat), k + rest.length = n → rest ≠ [] →
      (conc ((rest.zipIdx k).foldl (treeStep n) (pre, Generated.GoGSort.CompareLine.zero))).1
        = pre ++ layout pre.length (chainOf (rest.map toModel)) := by
  induction rest with
  | nil => intro _ _ _ h; exact absurd rfl h
  | cons v rest ih =>
    intro pre k hk _
    cases rest with
    | nil =>
      have : ¬ (k + 1 < n) := by simp at hk; omega
      simp [List.zipIdx_cons, treeStep, this, conc, chainOf, layout, accessor_eq, toModel,
        Generated.GoGSort.CompareLine.zero]
    | cons w rest =>
      have hlt : k + 1 < n := by simp at hk; omega
      rw [List.zipIdx_cons, List.foldl_cons]
      have hs : treeStep n (pre, Generated.GoGSort.CompareLine.zero) (v, k)
          = (pre ++ [⟨v.FieldType == "bool", accessorOf (toModel v), some (pre.length + 1)⟩],
              Generated.GoGSort.CompareLine.zero) := by
        simp [treeStep, hlt, accessor_eq]
      rw [hs, ih _ (k + 1) (by simp at hk ⊢; omega) (by simp)]
      simp [chainOf, layout, toModel]

/-- `PriorityTree` builds, at addresses 0, 1, …, the model's chain over the fields as `sort.Sort`
left them - for EVERY field list and whatever `sort.Sort` does -/
theorem go_priorityTree_chain (env : GEnv) (sd : Generated.GoGSort.SorterDesc) :
    Generated.GoGSort.SorterDesc.PriorityTree env sd =
      pure (layout 0 (chainOf ((env.sortSort sd.Fields).map toModel)), some 0) := by
  rw [go_priorityTree_loop]
  cases h : env.sortSort sd.Fields with
  | nil => rfl
  | cons v rest =>
    have := tree_fold (v :: rest).length (v :: rest) [] 0 (by simp) (by simp)
    simp only [List.nil_append, List.length_nil] at this
    rw [this]

/-! ### `sort.Sort(sd.Fields)`: its contract, stated with the translated `Less` of sorter_desc.gsort.go -/

theorem go_sfdLess_eq (s : List GSFD) (i j : Nat) (hi : i < s.length) (hj : j < s.length) :
    Generated.GoGSort.SortFieldDescs.Less s i j = pure (decide (s[i].Priority < s[j].Priority)) := by
  unfold Generated.GoGSort.SortFieldDescs.Less
  simp [Go.listGet, hi, hj, List.getD_eq_getElem?_getD]

/-- what `sort.Sort` promises: the slice is rearranged, and afterwards no element is `Less` than an
earlier one - `Less` being the method the generator generated for its own `SortFieldDescs` -/
def SortContract (sort : List GSFD → List GSFD) : Prop :=
  ∀ l, (sort l).Perm l ∧
    ∀ i j, i < j → j < (sort l).length → Generated.GoGSort.SortFieldDescs.Less (sort l) j i = pure false

theorem contract_pairwise (sort : List GSFD → List GSFD) (h : SortContract sort) (l : List GSFD) :
    (sort l).Pairwise (fun x y => x.Priority ≤ y.Priority) := by
  rw [List.pairwise_iff_getElem]
  intro i j hi hj hij
  have := (h l).2 i j hij hj
  rw [go_sfdLess_eq _ _ _ hj hi] at this
  have h2 : decide ((sort l)[j].Priority < (sort l)[i].Priority) = false := by
    injection this
  simp at h2
  exact h2

/-- with pairwise distinct priorities (what `Validate` checks) every `sort.Sort` that keeps its
contract leaves the fields in the order of the model's merge sort -/
theorem contract_sort_eq (sort : List GSFD → List GSFD) (h : SortContract sort) (l : List GSFD)
    (hn : (l.map (·.Priority)).Nodup) : (sort l).map toModel = sortP (l.map toModel) := by
  have hperm : ((sort l).map toModel).Perm (sortP (l.map toModel)) :=
    ((h l).1.map toModel).trans (sortP_perm _).symm
  have hpri : ∀ l' : List GSFD, (l'.map toModel).map (·.priority) = l'.map (·.Priority) := by
    intro l'; simp [toModel, List.map_map, Function.comp_def]
  have hn1 : (((sort l).map toModel).map (·.priority)).Nodup := by
    rw [hpri]; exact (((h l).1.map (·.Priority)).nodup_iff).2 hn
  have hn2 : ((sortP (l.map toModel)).map (·.priority)).Nodup := by
    refine (((sortP_perm _).map (·.priority)).nodup_iff).2 ?_
    rw [hpri]; exact hn
  apply sorted_unique _ _ hperm
  · apply pairwise_lt_of_le_nodup _ _ hn1
    rw [List.pairwise_map]
    exact (contract_pairwise sort h l).imp (by intro a b hab; exact hab)
  · exact pairwise_lt_of_le_nodup _ (sortP_pairwise_le _) hn2

/-- **`PriorityTree` = the model's `priorityTree`**, laid out at addresses 0, 1, … -/
theorem go_priorityTree_eq (env : GEnv) (hs : SortContract env.sortSort) (sd : Generated.GoGSort.SorterDesc)
    (hn : (sd.Fields.map (·.Priority)).Nodup) :
    Generated.GoGSort.SorterDesc.PriorityTree env sd =
      pure (layout 0 (priorityTree (sd.Fields.map toModel)), some 0) := by
  rw [go_priorityTree_chain, contract_sort_eq _ hs _ hn]; rfl

/-- the model's own sort keeps the contract (the hypothesis is satisfiable) -/
def sortModel (l : List GSFD) : List GSFD := l.mergeSort (fun a b => decide (a.Priority ≤ b.Priority))

theorem sortModel_contract : SortContract sortModel := by
  intro l
  refine ⟨List.mergeSort_perm l _, ?_⟩
  intro i j hij hj
  have hp : (sortModel l).Pairwise (fun x y => x.Priority ≤ y.Priority) := by
    have h := List.pairwise_mergeSort (le := fun (a b : GSFD) => decide (a.Priority ≤ b.Priority))
      (by intro a b c; simp; exact Int.le_trans)
      (by intro a b; simp; exact Int.le_total _ _) l
    exact h.imp (by intro a b; simp)
  rw [List.pairwise_iff_getElem] at hp
  have := hp i j (by omega) hj hij
  rw [go_sfdLess_eq _ _ _ hj (by omega)]
  have hd : decide ((sortModel l)[j].Priority < (sortModel l)[i].Priority) = false := by
    simp only [decide_eq_false_iff_not]; omega
  rw [hd]

/-! ### `Validate` -/

def GenErr.text : GenErr → String
  | .tagArity => "maximum three tag options allowed; name of type to generate, field priority, optional accessor"
  | .priorityNotInt => "second option must be an int indicating sort priority! found: "
  | .dupPriority => "multiple fields have same sort priority"
  | .noSortAttrs => "no sort attributes defined"

/-- a Go `error` result for the model's outcome -/
def errOf {α : Type} : Except GenErr α → Option String
  | .ok _ => none
  | .error e => some (GenErr.text e)

def valStep (s : Go.GMap Int) (fd : GSFD) : Sum (Go.GMap Int) (Option String × Go.GMap Int) :=
  if fd.Priority ∈ SetM.elems s then .inr (some "multiple fields have same sort priority", some (SetM.insert (SetM.elems s) fd.Priority))
  else .inl (some (SetM.insert (SetM.elems s) fd.Priority))

theorem val_fold (xs : List GSFD) : ∀ l : List Int,
    (GoLoop.searchFold2 valStep (some l) xs).1 =
      if (xs.map (·.Priority)).Nodup ∧ ∀ x ∈ xs, x.Priority ∉ l then none
      else some (some "multiple fields have same sort priority") := by
  induction xs with
  | nil => intro l; simp [GoLoop.searchFold2]
  | cons a xs ih =>
    intro l
    unfold GoLoop.searchFold2
    by_cases hm : a.Priority ∈ l
    · simp [valStep, SetM.elems, hm]
    · simp only [valStep, SetM.elems, hm, if_false, SetM.insert]
      rw [ih]
      have : ((xs.map (·.Priority)).Nodup ∧ ∀ x ∈ xs, x.Priority ∉ l ++ [a.Priority]) ↔
          (((a :: xs).map (·.Priority)).Nodup ∧ ∀ x ∈ a :: xs, x.Priority ∉ l) := by
        rw [List.map_cons, List.nodup_cons]
        constructor
        · rintro ⟨h1, h2⟩
          refine ⟨⟨?_, h1⟩, ?_⟩
          · intro hmem
            obtain ⟨x, hx, e⟩ := List.mem_map.1 hmem
            exact h2 x hx (List.mem_append.2 (Or.inr (by simp [e])))
          · intro x hx
            rcases List.mem_cons.1 hx with rfl | hx
            · exact hm
            · intro hl; exact h2 x hx (List.mem_append.2 (Or.inl hl))
        · rintro ⟨⟨h1, h2⟩, h3⟩
          refine ⟨h2, ?_⟩
          intro x hx hmem
          rcases List.mem_append.1 hmem with hl | hr
          · exact h3 x (List.mem_cons.2 (Or.inr hx)) hl
          · have e : x.Priority = a.Priority := by simpa using hr
            exact h1 (List.mem_map.2 ⟨x, hx, e⟩)
      simp only [this]

theorem val_fold_nil (xs : List GSFD) :
    (GoLoop.searchFold2 valStep (some []) xs).1 =
      if (xs.map (·.Priority)).Nodup then none else some (some "multiple fields have same sort priority") := by
  rw [val_fold]; simp

/-- **`Validate` = the model's `validate`** (through the translated `set.Make` / `Set.Add`) -/
theorem go_validate_eq (s : List GSFD) :
    Generated.GoGSort.SortFieldDescs.Validate s = pure (errOf (validate (s.map toModel))) := by
  unfold Generated.GoGSort.SortFieldDescs.Validate
  simp only []
  cases s with
  | nil => simp [validate, errOf, GenErr.text]
  | cons a xs =>
    have hlen : ¬ ((Int.ofNat (a :: xs).length == 0) = true) := by simp; omega
    simp only [hlen, if_false, C07Tie.go_make_eq, pure_bind, SetM.make, List.foldl_nil]
    rw [GoLoop.forIn_searchFold2 _ valStep]
    · have hpri : ((a :: xs).map toModel).map (·.priority) = (a :: xs).map (·.Priority) := by
        simp [toModel, List.map_map, Function.comp_def]
      have hv : validate ((a :: xs).map toModel) =
          if ((a :: xs).map (·.Priority)).Nodup then .ok () else .error .dupPriority := by
        unfold validate; rw [hpri]; simp
      simp only [pure_bind]
      rw [val_fold_nil, hv]
      by_cases hn : ((a :: xs).map (·.Priority)).Nodup
      · rw [if_pos hn, if_pos hn]; rfl
      · rw [if_neg hn, if_neg hn]; rfl
    · intro fd st
      simp only [C07Tie.go_add_eq, pure_bind, SetM.add, List.foldl_cons, List.foldl_nil, SetM.addStep, valStep]
      by_cases hm : fd.Priority ∈ SetM.elems st <;> simp [hm]

/-! ### `sfdFromLine`, `SortTypeName`, `UsePointer` -/

/-- what the parameters of the translation have to do for the model's `splitComma`, `atoi`,
`startsWith` / `drop` to be their mirror -/
structure EnvAgrees (env : GEnv) : Prop where
  split : ∀ s, env.split s "," = splitComma s
  atoi_ok : ∀ s n, GSort.atoi s = some n → env.atoi s = (n, none)
  atoi_err : ∀ s, GSort.atoi s = none → (env.atoi s).2 ≠ none
  hasPrefix : ∀ s, env.hasPrefix s "*" = s.startsWith "*"
  trimPrefix : ∀ s, env.trimPrefix s "*" = if s.startsWith "*" then (s.drop 1).toString else s

theorem splitCommaAux_ne_nil (cur cs : List Char) : splitCommaAux cur cs ≠ [] := by
  induction cs generalizing cur with
  | nil => simp [splitCommaAux]
  | cons c cs ih =>
    unfold splitCommaAux
    split
    · simp
    · exact ih _

/-- the message of a Go `error` for the model's error class (`priorityNotInt` quotes the option) -/
def errText (e : GenErr) (options : String) : String :=
  match e with
  | .priorityNotInt => GenErr.text e ++ (splitComma options).getD 1 ""
  | _ => GenErr.text e

/-- **`sfdFromLine` = the model's**: the same three tag parts or the same error; `FieldName` and
`FieldType` are still empty (the caller, `sortFieldDescFromTag`, fills them in - the model does both
at once from its `Field` argument). -/
theorem go_sfdFromLine_eq (env : GEnv) (h : EnvAgrees env) (f : Field) (options : String) :
    Generated.GoGSort.sfdFromLine env options = pure (match GSort.sfdFromLine f options with
      | .ok d => (some ⟨"", "", d.accessor, d.sorter, d.priority⟩, none)
      | .error e => (none, some (errText e options))) := by
  unfold Generated.GoGSort.sfdFromLine GSort.sfdFromLine errText
  simp only [h.split]
  have hne := splitCommaAux_ne_nil [] options.toList
  unfold splitComma
  generalize splitCommaAux [] options.toList = tuple at hne
  match tuple, hne with
  | [a], _ =>
    simp [Go.listGet, Generated.GoGSort.SortFieldDesc.zero]
  | [a, p], _ =>
    cases hp : GSort.atoi p with
    | some n =>
      simp [Go.listGet, Generated.GoGSort.SortFieldDesc.zero, h.atoi_ok p n hp, hp]
    | none =>
      have := h.atoi_err p hp
      simp [Go.listGet, Generated.GoGSort.SortFieldDesc.zero, this, hp, GenErr.text]
  | [a, p, c], _ =>
    cases hp : GSort.atoi p with
    | some n =>
      simp [Go.listGet, Generated.GoGSort.SortFieldDesc.zero, h.atoi_ok p n hp, hp]
    | none =>
      have := h.atoi_err p hp
      simp [Go.listGet, Generated.GoGSort.SortFieldDesc.zero, this, hp, GenErr.text]
  | a :: p :: c :: d :: rest, _ =>
    have h1 : ¬ ((rest.length : Int) + 1 + 1 + 1 + 1 < 1) := by omega
    have h2 : (3 : Int) < (rest.length : Int) + 1 + 1 + 1 + 1 := by omega
    simp [GenErr.text, h1, h2]

theorem go_usePointer_eq (env : GEnv) (h : EnvAgrees env) (sd : Generated.GoGSort.SorterDesc) (c : Cmp) :
    Generated.GoGSort.SorterDesc.UsePointer env sd = pure (Sorter.usePointer ⟨sd.sortTypeName, c⟩) := by
  simp [Generated.GoGSort.SorterDesc.UsePointer, Sorter.usePointer, h.hasPrefix]

theorem go_sortTypeName_eq (env : GEnv) (h : EnvAgrees env) (sd : Generated.GoGSort.SorterDesc) (c : Cmp) :
    Generated.GoGSort.SorterDesc.SortTypeName env sd = pure (Sorter.typeName ⟨sd.sortTypeName, c⟩) := by
  simp [Generated.GoGSort.SorterDesc.SortTypeName, Sorter.typeName, h.trimPrefix]

/-- the hypotheses are satisfiable: the model's own functions -/
def envModel : GEnv where
  sortSort := sortModel
  split := fun s _ => splitComma s
  atoi := fun s => match GSort.atoi s with | some n => (n, none) | none => (0, some "invalid syntax")
  hasPrefix := fun s _ => s.startsWith "*"
  trimPrefix := fun s _ => if s.startsWith "*" then (s.drop 1).toString else s

theorem envModel_agrees : EnvAgrees envModel where
  split := fun _ => rfl
  atoi_ok := by intro s n h; simp [envModel, h]
  atoi_err := by intro s h; simp [envModel, h]
  hasPrefix := fun _ => rfl
  trimPrefix := fun _ => rfl

/-! ### the template: `PriorityBlock` and the body of `Less`, as extracted from gsort.gotmpl -/

/-- what a template of gsort.gotmpl is executed on: a `SorterDesc` (with what it takes from outside),
or a `*CompareLine` in the heap `PriorityTree` built -/
inductive Dot where
  | desc (env : GEnv) (sd : Generated.GoGSort.SorterDesc)
  | line (h : Go.Heap GCL) (p : Go.Ptr)

def optM {α : Type} : Go.M α → Option α
  | .ok a => some a
  | .error _ => none

/-- text/template's field lookup on those values: a name is the exported field or the method of that
name - the methods being the TRANSLATED ones; a method on a pointer receiver dereferences it -/
def goData : TmplAst.Data Dot where
  print := fun d f => match d with
    | .line h p =>
      if f = "Accessor" then optM (do let c ← Go.load h p; pure c.Accessor)
      else if f = "String" then optM (do let c ← Go.load h p; Generated.GoGSort.CompareLine.String c)
      else none
    | .desc _ _ => none
  truth := fun d f => match d with
    | .line h p =>
      if f = "HasNest" then optM (do let c ← Go.load h p; Generated.GoGSort.CompareLine.HasNest c) else none
    | .desc _ _ => none
  sub := fun d f => match d with
    | .line h p => if f = "Nest" then optM (do let c ← Go.load h p; pure (Dot.line h c.Nest)) else none
    | .desc env sd =>
      if f = "PriorityTree" then
        optM (do let r ← Generated.GoGSort.SorterDesc.PriorityTree env sd; pure (Dot.line r.1 r.2))
      else none

theorem gd_print_accessor (pre : List GCL) (c : GCL) (post : List GCL) :
    goData.print (.line (pre ++ c :: post) (some pre.length)) "Accessor" = some c.Accessor := by
  simp [goData, load_at, optM, pure, Except.pure, bind, Except.bind]

theorem gd_print_string (pre : List GCL) (c : GCL) (post : List GCL) :
    goData.print (.line (pre ++ c :: post) (some pre.length)) "String" = some (retOf c.IsBool c.Accessor).text := by
  simp [goData, load_at, optM, go_compareLine_string_eq, pure, Except.pure, bind, Except.bind]

theorem gd_truth_hasNest (pre : List GCL) (c : GCL) (post : List GCL) :
    goData.truth (.line (pre ++ c :: post) (some pre.length)) "HasNest" = some c.Nest.isSome := by
  simp [goData, load_at, optM, go_hasNest_eq, pure, Except.pure, bind, Except.bind]

theorem gd_sub_nest (pre : List GCL) (c : GCL) (post : List GCL) :
    goData.sub (.line (pre ++ c :: post) (some pre.length)) "Nest" = some (.line (pre ++ c :: post) c.Nest) := by
  simp [goData, load_at, optM, pure, Except.pure, bind, Except.bind]

/-- number of cells of a chain -/
def depth : GSort.CompareLine → Nat
  | .last _ _ => 1
  | .nest _ _ n => depth n + 1

/-- executing `PriorityBlock` on a chain laid out in the heap writes the text of the model's block -/
theorem render_block (c : GSort.CompareLine) : ∀ (pre : List GCL) (fuel : Nat),
    TmplAst.renderTmpl Generated.GSortTmpl.defs goData (fuel + depth c) "PriorityBlock"
        (.line (pre ++ layout pre.length c) (some pre.length))
      = some (priorityBlock c).text := by
  induction c with
  | last b a =>
    intro pre fuel
    simp [depth, TmplAst.renderTmpl, Generated.GSortTmpl.defs, Generated.GSortTmpl.tmpl0, TmplAst.renderList,
      TmplAst.renderNode, layout, gd_print_accessor, gd_print_string, gd_truth_hasNest, gd_sub_nest,
      priorityBlock, blockWith, Cmp.text]
  | nest b a n ih =>
    intro pre fuel
    have ih' := ih (pre ++ [⟨b, a, some (pre.length + 1)⟩]) fuel
    simp only [List.length_append, List.length_cons, List.length_nil, List.append_assoc, List.cons_append,
      List.nil_append, Nat.zero_add] at ih'
    have hd : fuel + depth (.nest b a n) = (fuel + depth n) + 1 := rfl
    rw [hd]
    simp [TmplAst.renderTmpl, Generated.GSortTmpl.defs, Generated.GSortTmpl.tmpl0, TmplAst.renderList,
      TmplAst.renderNode, layout, gd_print_accessor, gd_print_string, gd_truth_hasNest, gd_sub_nest, ih',
      priorityBlock, blockWith, Cmp.text, String.append_assoc]
    rw [← String.append_assoc]; rfl

/-- **rendering the extracted template on the translated tree = the text of the model's chain.**
The body of `Less` as gsort.gotmpl writes it for a sorter description, every method it consults being
the translated one, is the Go text of `priorityBlock (priorityTree fields)`. -/
theorem go_render_eq_genChain (env : GEnv) (hs : SortContract env.sortSort) (sd : Generated.GoGSort.SorterDesc)
    (hn : (sd.Fields.map (·.Priority)).Nodup) (fuel : Nat) :
    TmplAst.render Generated.GSortTmpl.defs goData (fuel + depth (priorityTree (sd.Fields.map toModel)))
        (.desc env sd) Generated.GSortTmpl.lessBody
      = some (priorityBlock (priorityTree (sd.Fields.map toModel))).text := by
  have hb := render_block (priorityTree (sd.Fields.map toModel)) [] fuel
  simp only [List.nil_append, List.length_nil] at hb
  have hsub : goData.sub (.desc env sd) "PriorityTree"
      = some (.line (layout 0 (priorityTree (sd.Fields.map toModel))) (some 0)) := by
    simp [goData, go_priorityTree_eq env hs sd hn, optM, pure, Except.pure, bind, Except.bind]
  simp [TmplAst.render, Generated.GSortTmpl.lessBody, TmplAst.renderList, TmplAst.renderNode, hsub, hb]

/-! ### the headline statement, for the translated functions and the extracted template -/

theorem depth_chainOf : ∀ l : List SFD, l ≠ [] → depth (chainOf l) = l.length
  | [], h => absurd rfl h
  | [_], _ => rfl
  | f :: g :: rest, _ => by
    have := depth_chainOf (g :: rest) (by simp)
    simp [chainOf, depth, this]

variable {V : Type} [DecidableEq V]

/-- **C08 for the code as translated.**  Take any sorter description whose fields the TRANSLATED
`Validate` accepts, and any `sort.Sort` that keeps its contract with the generated `Less` of
`SortFieldDescs`.  Then executing the `Less` part of gsort.gotmpl (as extracted from /repo) with the
TRANSLATED `PriorityTree`, `HasNest` and `String` succeeds and writes the Go text `c.text` of a
comparison chain `c` that, on all well-typed slice elements, IS lexicographic comparison of the tagged
fields / accessor results in ascending priority, false before true. -/
theorem go_less_eq_lex (lt : V → V → Bool) (hirr : ∀ v, lt v v = false)
    (env : GEnv) (hs : SortContract env.sortSort) (sd : Generated.GoGSort.SorterDesc)
    (hv : Generated.GoGSort.SortFieldDescs.Validate sd.Fields = pure none) :
    ∃ c : Cmp,
      (∀ fuel, TmplAst.render Generated.GSortTmpl.defs goData (fuel + sd.Fields.length) (.desc env sd)
          Generated.GSortTmpl.lessBody = some c.text) ∧
      ∀ ks : List Key,
        (∃ l : List SFD, l.Perm (sd.Fields.map toModel) ∧
          l.Pairwise (fun x y => x.priority < y.priority) ∧ ks = l.map keyOf) →
        ∀ a b : Rec V, WellTyped ks a → WellTyped ks b → c.eval lt a b = lex lt ks a b := by
  have hval : validate (sd.Fields.map toModel) = .ok () := by
    rw [go_validate_eq] at hv
    cases h : validate (sd.Fields.map toModel) with
    | ok u => rfl
    | error e => rw [h] at hv; simp [errOf, pure, Except.pure] at hv
  obtain ⟨hne, hnd⟩ := (validate_ok_iff _).1 hval
  have hpri : (sd.Fields.map toModel).map (·.priority) = sd.Fields.map (·.Priority) := by
    simp [toModel, List.map_map, Function.comp_def]
  have hn : (sd.Fields.map (·.Priority)).Nodup := hpri ▸ hnd
  have hsne : sortP (sd.Fields.map toModel) ≠ [] := by
    intro e
    have := sortP_perm (sd.Fields.map toModel)
    rw [e] at this
    exact hne this.nil_eq.symm
  refine ⟨priorityBlock (priorityTree (sd.Fields.map toModel)), ?_, ?_⟩
  · intro fuel
    have hd : depth (priorityTree (sd.Fields.map toModel)) = sd.Fields.length := by
      unfold priorityTree
      rw [depth_chainOf _ hsne, (sortP_perm _).length_eq, List.length_map]
    rw [← hd]
    exact go_render_eq_genChain env hs sd hn fuel
  · rintro ks ⟨l, hl, hlt, rfl⟩ a b ha hb
    have hsn : ((sortP (sd.Fields.map toModel)).map (·.priority)).Nodup :=
      (((sortP_perm _).map (·.priority)).nodup_iff).2 hnd
    have e : l = sortP (sd.Fields.map toModel) :=
      sorted_unique l _ (hl.trans (sortP_perm _).symm) hlt
        (pairwise_lt_of_le_nodup _ (sortP_pairwise_le _) hsn)
    subst e
    exact eval_chainOf_eq_lex lt hirr _ hsne a b ha hb

/-- non-vacuity: a description the translated `Validate` accepts, with a bool as last key and an
accessor, and a `sort.Sort` that keeps the contract -/
example : SortContract sortModel ∧
    Generated.GoGSort.SortFieldDescs.Validate
      [⟨"Name", "string", "", "ByName", 2⟩, ⟨"Kind", "Kind", "String()", "ByName", 1⟩, ⟨"Done", "bool", "", "ByName", 3⟩]
      = pure none :=
  ⟨sortModel_contract, by rw [go_validate_eq]; simp [validate, toModel, errOf]⟩

package main

import (
	"errors"
	"fmt"
	"go/types"
	"os"
	"os/exec"
	"path/filepath"
	"regexp"
	"sort"
	"strconv"
	"strings"

	"github.com/drshriveer/gtools/gencommon"
	"golang.org/x/tools/go/packages"
)

// ---- program description (the case's declaration lines) -------------------------------------

type tyExpr struct {
	kind     string // b n g p s a m f o
	name     string
	pkg      int
	n        int // array length
	args     []*tyExpr
	pnames   []string // func: parameter names ("" = unnamed)
	rnames   []string
	params   []*tyExpr
	results  []*tyExpr
	variadic bool
}

func parseTy(ws []string) (*tyExpr, []string, error) {
	if len(ws) == 0 {
		return nil, nil, errors.New("type expected")
	}
	w, rest := ws[0], ws[1:]
	f := strings.Split(w, ":")
	switch {
	case f[0] == "b" && len(f) == 2:
		return &tyExpr{kind: "b", name: f[1]}, rest, nil
	case f[0] == "o" && len(f) >= 2:
		return &tyExpr{kind: "o", name: strings.ReplaceAll(strings.Join(f[1:], ":"), "~", " ")}, rest, nil
	case f[0] == "n" && len(f) == 3:
		p, err := strconv.Atoi(f[1])
		return &tyExpr{kind: "n", pkg: p, name: f[2]}, rest, err
	case f[0] == "g" && len(f) == 4:
		p, err := strconv.Atoi(f[1])
		k, err2 := strconv.Atoi(f[3])
		if err != nil || err2 != nil {
			return nil, nil, errors.New("bad generic")
		}
		t := &tyExpr{kind: "g", pkg: p, name: f[2]}
		for i := 0; i < k; i++ {
			var a *tyExpr
			a, rest, err = parseTy(rest)
			if err != nil {
				return nil, nil, err
			}
			t.args = append(t.args, a)
		}
		return t, rest, nil
	case (w == "p" || w == "s"):
		e, r, err := parseTy(rest)
		return &tyExpr{kind: w, args: []*tyExpr{e}}, r, err
	case f[0] == "a" && len(f) == 2:
		k, err := strconv.Atoi(f[1])
		if err != nil {
			return nil, nil, err
		}
		e, r, err := parseTy(rest)
		return &tyExpr{kind: "a", n: k, args: []*tyExpr{e}}, r, err
	case w == "m":
		k, r, err := parseTy(rest)
		if err != nil {
			return nil, nil, err
		}
		v, r, err := parseTy(r)
		return &tyExpr{kind: "m", args: []*tyExpr{k, v}}, r, err
	case f[0] == "f" && len(f) == 4:
		np, e1 := strconv.Atoi(f[1])
		nr, e2 := strconv.Atoi(f[3])
		if e1 != nil || e2 != nil {
			return nil, nil, errors.New("bad func")
		}
		t := &tyExpr{kind: "f", variadic: f[2] == "1"}
		for i := 0; i < np+nr; i++ {
			if len(rest) == 0 {
				return nil, nil, errors.New("param expected")
			}
			nm := rest[0]
			if nm == "-" {
				nm = ""
			}
			var e *tyExpr
			var err error
			e, rest, err = parseTy(rest[1:])
			if err != nil {
				return nil, nil, err
			}
			if i < np {
				t.pnames, t.params = append(t.pnames, nm), append(t.params, e)
			} else {
				t.rnames, t.results = append(t.rnames, nm), append(t.results, e)
			}
		}
		return t, rest, nil
	}
	return nil, nil, fmt.Errorf("bad type token %q", w)
}

type pkgDecl struct {
	idx        int
	path, name string
}

type methDecl struct {
	name string
	recv string // p | v
	sig  *tyExpr
}

type tyDecl struct {
	pkg    int
	name   string
	kind   string // struct | iface
	file2  bool   // target package only: declared (with its methods) in the second file y.go
	embeds []embDecl
	meths  []methDecl
}

type embDecl struct {
	ptr  bool
	pkg  int
	name string
}

type defDecl struct {
	pkg  int
	name string
	kind string // named | generic | alias
	k    int
	ty   *tyExpr
}

type program struct {
	pkgs []pkgDecl
	imps []struct {
		pkg   int
		alias string // "" = plain
	}
	// import specs of the target package's SECOND file (y.go); LoadPackages is handed x.go, so
	// the ImportHandler never sees these
	imps2 []struct {
		pkg   int
		alias string
	}
	tys  []*tyDecl
	defs []defDecl
}

func (p *program) hasFile2() bool {
	if len(p.imps2) > 0 {
		return true
	}
	for _, t := range p.tys {
		if t.pkg == 0 && t.file2 {
			return true
		}
	}
	return false
}

func (p *program) pkgByIdx(i int) *pkgDecl {
	for k := range p.pkgs {
		if p.pkgs[k].idx == i {
			return &p.pkgs[k]
		}
	}
	return nil
}

func (p *program) ty(pkg int, name string) *tyDecl {
	for _, t := range p.tys {
		if t.pkg == pkg && t.name == name {
			return t
		}
	}
	return nil
}

func (p *program) addLine(ws []string) error {
	atoi := func(s string) (int, error) { return strconv.Atoi(s) }
	switch {
	case ws[0] == "pkg" && len(ws) == 4:
		i, err := atoi(ws[1])
		if err != nil {
			return err
		}
		p.pkgs = append(p.pkgs, pkgDecl{i, ws[2], ws[3]})
	case ws[0] == "imp" && len(ws) == 3:
		i, err := atoi(ws[1])
		if err != nil {
			return err
		}
		al := ws[2]
		if al == "-" {
			al = ""
		}
		p.imps = append(p.imps, struct {
			pkg   int
			alias string
		}{i, al})
	case ws[0] == "imp2" && len(ws) == 3:
		i, err := atoi(ws[1])
		if err != nil {
			return err
		}
		al := ws[2]
		if al == "-" {
			al = ""
		}
		p.imps2 = append(p.imps2, struct {
			pkg   int
			alias string
		}{i, al})
	case ws[0] == "in2" && len(ws) == 2:
		t := p.ty(0, ws[1])
		if t == nil {
			return errors.New("in2: unknown type")
		}
		if len(t.meths) > 0 || len(t.embeds) > 0 {
			return errors.New("in2: must directly follow the ty line")
		}
		t.file2 = true
	case ws[0] == "ty" && len(ws) == 4:
		i, err := atoi(ws[1])
		if err != nil {
			return err
		}
		p.tys = append(p.tys, &tyDecl{pkg: i, name: ws[2], kind: ws[3]})
	case ws[0] == "emb" && len(ws) == 6:
		i, err := atoi(ws[1])
		j, err2 := atoi(ws[4])
		if err != nil || err2 != nil {
			return errors.New("bad emb")
		}
		t := p.ty(i, ws[2])
		if t == nil {
			return errors.New("emb: unknown type")
		}
		t.embeds = append(t.embeds, embDecl{ws[3] == "p", j, ws[5]})
	case ws[0] == "meth" && len(ws) >= 6:
		i, err := atoi(ws[1])
		if err != nil {
			return err
		}
		t := p.ty(i, ws[2])
		if t == nil {
			return errors.New("meth: unknown type")
		}
		sig, rest, err := parseTy(ws[5:])
		if err != nil || len(rest) != 0 || sig.kind != "f" {
			return errors.New("meth: bad signature")
		}
		t.meths = append(t.meths, methDecl{ws[3], ws[4], sig})
	case ws[0] == "def" && len(ws) >= 5:
		i, err := atoi(ws[1])
		if err != nil {
			return err
		}
		d := defDecl{pkg: i, name: ws[2], kind: ws[3]}
		if d.kind == "generic" {
			d.k, err = atoi(ws[4])
			if err != nil {
				return err
			}
		} else {
			var rest []string
			d.ty, rest, err = parseTy(ws[4:])
			if err != nil || len(rest) != 0 {
				return errors.New("def: bad type")
			}
		}
		p.defs = append(p.defs, d)
	default:
		return fmt.Errorf("bad declaration %v", ws)
	}
	return nil
}

// ---- materialisation as Go source -------------------------------------------------------------

const anchor = "XAnchor"

type printer struct {
	prog  *program
	from  int
	file2 bool // printing the target package's second file
	used  map[int]bool
}

func (pr *printer) qual(pkg int) string {
	if pkg == pr.from {
		return ""
	}
	pr.used[pkg] = true
	if pr.from == 0 {
		imps := pr.prog.imps
		if pr.file2 {
			imps = pr.prog.imps2
		}
		for _, im := range imps {
			if im.pkg == pkg {
				if im.alias != "" {
					return im.alias + "."
				}
				return pr.prog.pkgByIdx(pkg).name + "."
			}
		}
		return "NOTIMPORTED."
	}
	return fmt.Sprintf("p%d.", pkg)
}

func (pr *printer) text(t *tyExpr) string {
	switch t.kind {
	case "b", "o":
		return t.name
	case "n":
		return pr.qual(t.pkg) + t.name
	case "g":
		a := make([]string, len(t.args))
		for i, x := range t.args {
			a[i] = pr.text(x)
		}
		return pr.qual(t.pkg) + t.name + "[" + strings.Join(a, ", ") + "]"
	case "p":
		return "*" + pr.text(t.args[0])
	case "s":
		return "[]" + pr.text(t.args[0])
	case "a":
		return fmt.Sprintf("[%d]", t.n) + pr.text(t.args[0])
	case "m":
		return "map[" + pr.text(t.args[0]) + "]" + pr.text(t.args[1])
	case "f":
		return "func" + pr.sig(t)
	}
	return "BAD"
}

func (pr *printer) sig(t *tyExpr) string {
	ps := make([]string, len(t.params))
	for i, x := range t.params {
		tt := pr.text(x)
		if t.variadic && i == len(t.params)-1 {
			tt = "..." + strings.TrimPrefix(tt, "[]")
		}
		ps[i] = strings.TrimSpace(t.pnames[i] + " " + tt)
	}
	rs := make([]string, len(t.results))
	for i, x := range t.results {
		rs[i] = strings.TrimSpace(t.rnames[i] + " " + pr.text(x))
	}
	out := ""
	if len(rs) > 0 {
		out = " (" + strings.Join(rs, ", ") + ")"
	}
	return "(" + strings.Join(ps, ", ") + ")" + out
}

// source prints one file: the only file of a sibling package, or x.go (file2 = false) / y.go
// (file2 = true) of the target package.
func (p *program) source(pkg int, file2 bool) (string, error) {
	pd := p.pkgByIdx(pkg)
	if pd == nil {
		return "", errors.New("no such package")
	}
	pr := &printer{prog: p, from: pkg, file2: file2, used: map[int]bool{}}
	var b strings.Builder
	if !file2 {
		fmt.Fprintf(&b, "type %s int\n\n", anchor)
	}
	for _, d := range p.defs {
		if d.pkg != pkg || file2 {
			continue
		}
		switch d.kind {
		case "named":
			fmt.Fprintf(&b, "type %s %s\n", d.name, pr.text(d.ty))
		case "alias":
			fmt.Fprintf(&b, "type %s = %s\n", d.name, pr.text(d.ty))
		case "generic":
			tp := make([]string, d.k)
			for i := range tp {
				tp[i] = fmt.Sprintf("T%d any", i)
			}
			fmt.Fprintf(&b, "type %s[%s] struct{}\n", d.name, strings.Join(tp, ", "))
		default:
			return "", errors.New("bad def kind")
		}
	}
	for _, t := range p.tys {
		if t.pkg != pkg || t.file2 != file2 {
			continue
		}
		if t.kind == "iface" {
			fmt.Fprintf(&b, "\ntype %s interface {\n", t.name)
			for _, e := range t.embeds {
				fmt.Fprintf(&b, "\t%s%s\n", pr.qual(e.pkg), e.name)
			}
			for _, m := range t.meths {
				fmt.Fprintf(&b, "\t%s%s\n", m.name, pr.sig(m.sig))
			}
			b.WriteString("}\n")
			continue
		}
		fmt.Fprintf(&b, "\ntype %s struct {\n", t.name)
		for _, e := range t.embeds {
			star := ""
			if e.ptr {
				star = "*"
			}
			fmt.Fprintf(&b, "\t%s%s%s\n", star, pr.qual(e.pkg), e.name)
		}
		b.WriteString("}\n\n")
		for _, m := range t.meths {
			recv := "r_ " + t.name
			if m.recv == "p" {
				recv = "r_ *" + t.name
			}
			fmt.Fprintf(&b, "func (%s) %s%s { panic(0) }\n", recv, m.name, pr.sig(m.sig))
		}
	}
	var h strings.Builder
	fmt.Fprintf(&h, "package %s\n\n", pd.name)
	if pkg == 0 {
		imps := p.imps
		if file2 {
			imps = p.imps2
		}
		for _, im := range imps {
			q := p.pkgByIdx(im.pkg)
			if q == nil {
				return "", errors.New("import of undeclared package")
			}
			al := im.alias
			if al != "" {
				al += " "
			}
			fmt.Fprintf(&h, "import %s%q\n", al, q.path)
			ref := im.alias
			if ref == "" {
				ref = q.name
			}
			sym := anchor
			if q.path == "context" {
				sym = "Context"
			}
			fmt.Fprintf(&b, "\nvar _ %s.%s\n", ref, sym)
		}
	} else {
		idx := []int{}
		for k := range pr.used {
			idx = append(idx, k)
		}
		sort.Ints(idx)
		for _, k := range idx {
			q := p.pkgByIdx(k)
			if q == nil {
				return "", errors.New("reference to undeclared package")
			}
			fmt.Fprintf(&h, "import p%d %q\n", k, q.path)
		}
	}
	return h.String() + "\n" + b.String(), nil
}

// ---- the interpreter on the real code --------------------------------------------------------

type gcImpl struct {
	prog     *program
	dir      string
	loaded   bool
	loadErr  string
	pkgs     []*packages.Package
	pkg      *packages.Package
	ih       *gencommon.ImportHandler
	rendered []string // interface declarations + assertions for `build`
	allSigs  []string
	// counters
	Loads, Builds, Invalid int
}

func (g *gcImpl) cleanup() {
	if g.dir != "" {
		os.RemoveAll(g.dir)
		g.dir = ""
	}
}

func (g *gcImpl) Reset() {
	g.cleanup()
	g.prog = &program{}
	g.loaded, g.loadErr = false, ""
	g.pkgs, g.pkg, g.ih = nil, nil, nil
	g.rendered, g.allSigs = nil, nil
}

func goEnv() []string {
	return append(os.Environ(), "GOPROXY=off", "GOSUMDB=off", "GOTOOLCHAIN=local", "GOFLAGS=", "GOWORK=off")
}

func (g *gcImpl) load() error {
	if g.loaded {
		if g.loadErr != "" {
			return errors.New(g.loadErr)
		}
		return nil
	}
	g.loaded = true
	err := g.doLoad()
	if err != nil {
		g.loadErr = err.Error()
		g.Invalid++
		if os.Getenv("VERIF_DEBUG") != "" {
			fmt.Fprintln(os.Stderr, "invalid program:", err)
			if src, e := g.prog.source(0, false); e == nil {
				fmt.Fprintln(os.Stderr, src)
			}
			if g.prog.hasFile2() {
				if src, e := g.prog.source(0, true); e == nil {
					fmt.Fprintln(os.Stderr, "---- y.go\n"+src)
				}
			}
		}
	}
	return err
}

func (g *gcImpl) doLoad() error {
	dir, err := os.MkdirTemp("", "verif-c19-")
	if err != nil {
		return err
	}
	g.dir = dir
	if err := os.WriteFile(filepath.Join(dir, "go.mod"), []byte("module scratch\n\ngo 1.23\n"), 0o644); err != nil {
		return err
	}
	if g.prog.pkgByIdx(0) == nil {
		return errors.New("no target package")
	}
	var target string
	for _, pd := range g.prog.pkgs {
		if pd.path == "context" {
			continue
		}
		if !strings.HasPrefix(pd.path, "scratch/") {
			return errors.New("package outside the scratch module")
		}
		src, err := g.prog.source(pd.idx, false)
		if err != nil {
			return err
		}
		d := filepath.Join(dir, strings.TrimPrefix(pd.path, "scratch/"))
		if err := os.MkdirAll(d, 0o755); err != nil {
			return err
		}
		f := filepath.Join(d, "x.go")
		if err := os.WriteFile(f, []byte(src), 0o644); err != nil {
			return err
		}
		if pd.idx == 0 {
			target = f
			if g.prog.hasFile2() {
				// the second file of the target package: its imports are invisible to the handler,
				// which is built from x.go alone
				src2, err := g.prog.source(0, true)
				if err != nil {
					return err
				}
				if err := os.WriteFile(filepath.Join(d, "y.go"), []byte(src2), 0o644); err != nil {
					return err
				}
			}
		}
	}
	g.Loads++
	pkgs, pkg, _, ih, err := loadPackagesIn(dir, target)
	if err != nil {
		return err
	}
	if len(pkg.Errors) > 0 {
		return fmt.Errorf("target package has errors: %v", pkg.Errors[0])
	}
	bad := ""
	packages.Visit(pkgs, nil, func(p *packages.Package) {
		if len(p.Errors) > 0 && bad == "" {
			bad = p.Errors[0].Error()
		}
	})
	if bad != "" {
		return errors.New("a package has errors: " + bad)
	}
	g.pkgs, g.pkg, g.ih = pkgs, pkg, ih
	return nil
}

// loadPackagesIn calls gencommon.LoadPackages with the scratch module as working directory
// (packages.Load resolves the module from the process directory).
func loadPackagesIn(dir, file string) ([]*packages.Package, *packages.Package, any, *gencommon.ImportHandler, error) {
	old, err := os.Getwd()
	if err != nil {
		return nil, nil, nil, nil, err
	}
	if err := os.Chdir(dir); err != nil {
		return nil, nil, nil, nil, err
	}
	defer os.Chdir(old)
	os.Setenv("GOWORK", "off")
	os.Setenv("GOFLAGS", "")
	os.Setenv("GOPROXY", "off")
	pkgs, pkg, fast, ih, err := gencommon.LoadPackages(file)
	return pkgs, pkg, fast, ih, err
}

func (g *gcImpl) lookupNamed(pkgIdx int, name string) *types.Named {
	pd := g.prog.pkgByIdx(pkgIdx)
	if pd == nil {
		return nil
	}
	var tp *types.Package
	packages.Visit(g.pkgs, nil, func(p *packages.Package) {
		if p.PkgPath == pd.path && p.Types != nil {
			tp = p.Types
		}
	})
	if tp == nil {
		return nil
	}
	obj := tp.Scope().Lookup(name)
	if obj == nil {
		return nil
	}
	n, _ := obj.Type().(*types.Named)
	return n
}

func pnames(ps gencommon.Params) string {
	r := make([]string, len(ps))
	for i, p := range ps {
		r[i] = p.Name
	}
	return strings.Join(r, ",")
}

func (g *gcImpl) find(pkgIdx int, name string, bits int) string {
	if err := g.load(); err != nil {
		return "invalid-program"
	}
	pd := g.prog.pkgByIdx(pkgIdx)
	if pd == nil || pkgIdx != 0 {
		return "invalid-program"
	}
	var opts []gencommon.ParseIFaceOption
	if bits&1 != 0 {
		opts = append(opts, gencommon.IncludePrivate)
	}
	if bits&2 != 0 {
		opts = append(opts, gencommon.IncludeEmbedded)
	}
	it, err := gencommon.FindInterface(g.ih, g.pkgs, pd.path, name, opts...)
	if err != nil {
		return "err"
	}
	ms := make([]string, 0, len(it.Methods))
	sigs := make([]string, 0, len(it.Methods))
	for _, m := range it.Methods {
		ms = append(ms, m.Signature()+"{"+pnames(m.Input)+"|"+pnames(m.Output)+"}")
		sigs = append(sigs, m.Signature())
	}
	sort.Strings(ms)
	sort.Strings(sigs)
	act := []string{}
	for _, a := range g.ih.GetActive() {
		act = append(act, a.ImportString())
	}
	sort.Strings(act)
	rn := fmt.Sprintf("R_%s_%d", name, bits)
	g.rendered = append(g.rendered, fmt.Sprintf("type %s interface {\n\t%s\n}\n\nvar _ %s = (*%s)(nil)\n", rn, strings.Join(sigs, "\n\t"), rn, name))
	g.allSigs = append(g.allSigs, sigs...)
	return strings.Join(ms, " ;; ") + " ## " + strings.Join(act, ",")
}

func (g *gcImpl) promoted(pkgIdx int, name string) string {
	if err := g.load(); err != nil {
		return "invalid-program"
	}
	n := g.lookupNamed(pkgIdx, name)
	if n == nil {
		return "invalid-program"
	}
	ms := types.NewMethodSet(types.NewPointer(n))
	names := []string{}
	for i := 0; i < ms.Len(); i++ {
		names = append(names, ms.At(i).Obj().Name())
	}
	sort.Strings(names)
	return "[" + strings.Join(names, ",") + "]"
}

// build writes every interface rendered so far, with the active imports the text refers to
// (what goimports leaves of GetActive()), next to the original type and compiles the module.
func (g *gcImpl) build() string {
	if err := g.load(); err != nil {
		return "invalid-program"
	}
	var b strings.Builder
	fmt.Fprintf(&b, "package %s\n\n", g.pkg.Name)
	text := strings.Join(g.allSigs, "\n")
	var quals []string // the qualifiers the rendered text uses
	for _, a := range g.ih.GetActive() {
		if regexp.MustCompile(`(^|[^A-Za-z0-9_.])` + regexp.QuoteMeta(a.Alias) + `\.`).MatchString(text) {
			fmt.Fprintf(&b, "import %s\n", a.ImportString())
			quals = append(quals, a.Alias)
		}
	}
	b.WriteString("\n" + strings.Join(g.rendered, "\n"))
	tdir := filepath.Join(g.dir, strings.TrimPrefix(g.prog.pkgByIdx(0).path, "scratch/"))
	if err := os.WriteFile(filepath.Join(tdir, "rendered_verif.go"), []byte(b.String()), 0o644); err != nil {
		return "invalid-program"
	}
	g.Builds++
	cmd := exec.Command("go", "build", "./...")
	cmd.Dir = g.dir
	cmd.Env = goEnv()
	out, err := cmd.CombinedOutput()
	os.Remove(filepath.Join(tdir, "rendered_verif.go"))
	if err == nil {
		return "ok"
	}
	for _, q := range quals {
		// two printed import lines bind one name
		if regexp.MustCompile(`(^|[^A-Za-z0-9_])` + regexp.QuoteMeta(q) + ` redeclared`).MatchString(string(out)) {
			return "fail:import-name-twice"
		}
	}
	for _, q := range quals {
		// the import line printed for a qualifier does not bind that qualifier
		if regexp.MustCompile(`undefined: ` + regexp.QuoteMeta(q) + `\b`).MatchString(string(out)) {
			return "fail:import-binding"
		}
	}
	return "fail:" + classify(string(out))
}

func classify(out string) string {
	switch {
	case strings.Contains(out, "redeclared") || strings.Contains(out, "duplicate argument"):
		return "dup-param"
	case strings.Contains(out, "does not implement") || strings.Contains(out, "missing method"):
		return "not-implemented"
	case strings.Contains(out, "imported and not used"):
		return "unused-import"
	case strings.Contains(out, "undefined"):
		return "undefined"
	case strings.Contains(out, "syntax error"):
		return "syntax"
	}
	return "other"
}

func (g *gcImpl) Exec(line string) string {
	ws := strings.Fields(line)
	if len(ws) >= 2 && ws[0] == "case" && ws[1] == "gcm" {
		g.Reset()
		return line
	}
	if len(ws) < 2 || ws[0] != "gcm" || g.prog == nil {
		return "bad-op"
	}
	ws = ws[1:]
	switch ws[0] {
	case "mode":
		return "ok"
	case "find", "findq":
		if len(ws) != 4 {
			return "bad-op"
		}
		p, e1 := strconv.Atoi(ws[1])
		bits, e2 := strconv.Atoi(ws[3])
		if e1 != nil || e2 != nil {
			return "bad-op"
		}
		ans := g.find(p, ws[2], bits)
		if ws[0] == "findq" && ans != "invalid-program" {
			return "ok"
		}
		return ans
	case "promoted":
		if len(ws) != 3 {
			return "bad-op"
		}
		p, e1 := strconv.Atoi(ws[1])
		if e1 != nil {
			return "bad-op"
		}
		return g.promoted(p, ws[2])
	case "build":
		return g.build()
	}
	// declarations always answer "ok"; a malformed or late one makes every query answer
	// "invalid-program" (which compares equal to anything, so shrinking cannot drift there)
	if g.loaded {
		g.loadErr = "declaration after the first query"
		return "ok"
	}
	if err := g.prog.addLine(ws); err != nil {
		g.loaded, g.loadErr = true, err.Error()
		g.Invalid++
	}
	return "ok"
}

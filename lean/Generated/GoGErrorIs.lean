import Model.GoIface
import Generated.GoCloneBase
/-! REGENERATED on every run by harness/cmd/go2lean -spec gerroris from gerror/gerror.go ((*GError).Is, Unwrap,
_embededGError, Convert, ConvertS, isComparable, ExtractFactoryReference) and gerror/factory.go (FactoryOf). Do not edit.
Every definition follows the Go function statement by statement; `Model/GoIface.lean` fixes the meaning of the
primitives (memory `m` of GError records addressed by *GError, interface values `Val`, `==` on interfaces that may
panic, short-circuit operators, type assertion to Error, method calls through an interface value, fuel for the
recursion).  `CloneBase` is the translated function of Generated/GoCloneBase.lean, `fmt.Sprintf` is opaque (`env.sprintf`). -/
namespace Generated.GoGErrorIs
open GErrorIs (Val)
open Generated.GoCloneBase (GError CloneBase NoStack SourceStack ShortStack DefaultStack)

/-- what the translated functions get from outside: the library functions of CloneBase and fmt.Sprintf -/
structure Env (σ : Type) where
  clone : Generated.GoCloneBase.Env σ
  sprintf : Go.Str → List Val → Go.Str

variable {σ : Type}

/-- `func (e *GError) _embededGError() *GError` -/
def _embededGError (e : Nat) : Go.M Nat := do
  return e

/-- `func (e *GError) Unwrap() error` -/
def Unwrap (m : Go.Mem (GError Val σ)) (e : Nat) : Go.M Val := do
  if ((m.cell e).factoryRef != Val.nil) then
    return (m.cell e).factoryRef
  return Val.nil

/-- `func isComparable(err error) bool` -/
def isComparable (err : Val) : Go.M Bool := do
  return (← (Go.land (pure (err != Val.nil)) (Go.reflectComparable err)))

/-- `func ExtractFactoryReference(err error) Factory` -/
def ExtractFactoryReference (m : Go.Mem (GError Val σ)) (err : Val) : Go.M Val := do
  let gerr : Val := (Go.assertError err).1
  let ok : Bool := (Go.assertError err).2
  if (!ok) then
    return Val.nil
  let embedded ← (Go.method gerr (fun p => _embededGError p))
  if (m.cell embedded).isFactory then
    return (Val.base embedded)
  return (m.cell embedded).factoryRef

/-- `func (e *GError) Is(err error) bool` -/
def Is (m : Go.Mem (GError Val σ)) : Nat → Nat → Val → Go.M Bool
  | 0, _, _ => throw Go.fuelMsg
  | fuel + 1, e, err => do
    if (← (Go.land (pure (m.cell e).isFactory) (do let t1 ← (ExtractFactoryReference m err); Go.ifaceEq (Val.base e) t1))) then
      return true
    if (← (Go.lor (Go.lor (Go.ifaceEq (Val.base e) err) (Go.land (pure ((m.cell e).factoryRef != Val.nil)) (Go.ifaceEq (m.cell e).factoryRef err))) (Go.land (isComparable err) (Go.slicesContains (m.cell e).srcErrors err)))) then
      return true
    let gerr : Val := (Go.assertError err).1
    let ok : Bool := (Go.assertError err).2
    if (!ok) then
      return false
    let unwrapped ← (Go.method gerr (fun p => Unwrap m p))
    if (unwrapped != Val.nil) then
      return (← (Is m fuel e unwrapped))
    return false

/-- `func (e *GError) Convert(err error) Error` -/
def Convert (env : Env σ) (m : Go.Mem (GError Val σ)) (e : Nat) (err : Val) : Go.M (Go.Mem (GError Val σ) × Val) := do
  let mut m := m
  let gerr : Val := (Go.assertError err).1
  let ok : Bool := (Go.assertError err).2
  if ok then
    return (m, gerr)
  let b1 ← _embededGError e
  let c2 ← CloneBase env.clone Val.nil (Val.base e) (m.cell b1) (Val.base b1) SourceStack (Go.str "") (Go.str "") (env.sprintf (Go.str "originalError: %+v") [err]) err
  let a3 := m.new c2
  m := a3.1
  return (m, Val.base a3.2)

/-- `func (e *GError) ConvertS(err error) Error` -/
def ConvertS (env : Env σ) (m : Go.Mem (GError Val σ)) (e : Nat) (err : Val) : Go.M (Go.Mem (GError Val σ) × Val) := do
  let mut m := m
  let gerr : Val := (Go.assertError err).1
  let ok : Bool := (Go.assertError err).2
  if ok then
    return (m, gerr)
  let b1 ← _embededGError e
  let c2 ← CloneBase env.clone Val.nil (Val.base e) (m.cell b1) (Val.base b1) DefaultStack (Go.str "") (Go.str "") (env.sprintf (Go.str "originalError: %+v") [err]) err
  let a3 := m.new c2
  m := a3.1
  return (m, Val.base a3.2)

/-- `func FactoryOf[T factoryOf](err T) Factory` -/
def FactoryOf (m : Go.Mem (GError Val σ)) (err : Val) : Go.M (Go.Mem (GError Val σ) × Val) := do
  let mut m := m
  let p1 ← (Go.method err (fun p => _embededGError p))
  m := m.store p1 { m.cell p1 with isFactory := true }
  return (m, err)

end Generated.GoGErrorIs

package main

import (
	"encoding/hex"
	"fmt"
	"math/big"
	"math/rand"
	"sort"
	"strings"

	"verif/harness/internal/hx"
)

type gen struct {
	r        *hx.Runner
	w        *world
	rng      *rand.Rand
	thorough bool
	serial   int
	kindCur  int
	nDefs    int
	nTypes   int
	nParse   int
	nValueQ  int
}

func (g *gen) nextSerial() int { g.serial++; return g.serial }

func (g *gen) nextKind() string {
	k := kinds[g.kindCur%len(kinds)]
	g.kindCur++
	return k
}

func bi(x int64) *big.Int { return big.NewInt(x) }

var suffixWords = []string{"Aaa", "Bbb", "Ccc", "Ddd", "Eee", "Fff", "Zed", "alpha", "Beta", "GAMMA", "delta9", "E_psilon", "Z", "a", "A1", "A_", "Ab", "AB", "aB", "Value", "Value0", "Value1", "Value10", "Value2", "X9", "x9", "Old", "New", "_x", "Q"}

// name pool for one type: distinct suffixes (distinct up to ASCII case when fold is set).
type namer struct {
	rng    *rand.Rand
	prefix string
	fold   bool
	used   map[string]bool
}

func (n *namer) key(s string) string {
	if n.fold {
		return strings.ToLower(s)
	}
	return s
}

func (n *namer) next() string {
	for tries := 0; ; tries++ {
		var s string
		if tries < 4 && n.rng.Intn(3) != 0 {
			s = suffixWords[n.rng.Intn(len(suffixWords))]
		} else {
			const al = "ABCDEFGHIJKLMNOPQRSTUVWXYZabcdefghijklmnopqrstuvwxyz0123456789_"
			l := 1 + n.rng.Intn(5)
			b := make([]byte, l)
			for i := range b {
				b[i] = al[n.rng.Intn(len(al))]
			}
			s = string(b)
		}
		if !n.used[n.key(s)] {
			n.used[n.key(s)] = true
			return n.prefix + s
		}
	}
}

// take reserves a fixed suffix (systematic definitions)
func (n *namer) take(s string) string { n.used[n.key(s)] = true; return n.prefix + s }

func randInRange(rng *rand.Rand, lo, hi *big.Int) *big.Int {
	span := new(big.Int).Sub(hi, lo)
	span.Add(span, bi(1))
	// vary the magnitude: small spans around interesting points are handled by the caller
	x := new(big.Int).Rand(rng, span)
	return x.Add(x, lo)
}

func clamp(v, lo, hi *big.Int) *big.Int {
	if v.Cmp(lo) < 0 {
		return new(big.Int).Set(lo)
	}
	if v.Cmp(hi) > 0 {
		return new(big.Int).Set(hi)
	}
	return v
}

// interesting values of a kind
func interesting(kind string) []*big.Int {
	lo, hi := kindRange(kind)
	c := []*big.Int{lo, hi, new(big.Int).Add(lo, bi(1)), new(big.Int).Sub(hi, bi(1)), bi(0), bi(1), bi(-1), bi(2), bi(7), bi(127), bi(128), bi(-128), bi(255), bi(256),
		new(big.Int).Lsh(bi(1), 31), new(big.Int).Lsh(bi(1), 32), new(big.Int).Lsh(bi(1), 63), new(big.Int).Sub(new(big.Int).Lsh(bi(1), 63), bi(1)),
		new(big.Int).Neg(new(big.Int).Lsh(bi(1), 31)), new(big.Int).Quo(hi, bi(2)), new(big.Int).Quo(lo, bi(2))}
	var r []*big.Int
	for _, v := range c {
		if v.Cmp(lo) >= 0 && v.Cmp(hi) <= 0 {
			r = append(r, v)
		}
	}
	return r
}

// randomConsts: the constants of one type as 1-4 segments of items (a segment stays together in
// one block so that iota runs can be written with implicit repetition).
func (g *gen) randomConsts(t, kind string, nm *namer) [][]Item {
	rng := g.rng
	lo, hi := kindRange(kind)
	sizes := []int{1, 2, 3, 4, 5, 6, 8, 11, 14, 15, 16, 17, 20, 28, 40}
	nC := sizes[rng.Intn(len(sizes))]
	if rng.Intn(3) == 0 {
		nC = 1 + rng.Intn(40)
	}
	nDup := 0
	if nC > 1 && rng.Intn(4) != 0 {
		nDup = 1 + rng.Intn((nC+1)/2)
	}
	nDistinct := nC - nDup
	span := new(big.Int).Sub(hi, lo)
	if span.IsInt64() && int64(nDistinct) > span.Int64()+1 {
		nDistinct = int(span.Int64() + 1)
	}
	have := map[string]bool{}
	var segs [][]Item
	var vals []*big.Int
	for len(vals) < nDistinct {
		left := nDistinct - len(vals)
		if rng.Intn(3) == 0 {
			// explicit value
			var v *big.Int
			if rng.Intn(2) == 0 {
				in := interesting(kind)
				v = in[rng.Intn(len(in))]
			} else if rng.Intn(2) == 0 {
				v = clamp(bi(int64(rng.Intn(41)-20)), lo, hi)
			} else {
				v = randInRange(rng, lo, hi)
			}
			if have[v.String()] {
				continue
			}
			have[v.String()] = true
			vals = append(vals, v)
			segs = append(segs, []Item{{What: "const", T: t, Name: nm.next(), Val: v, Form: "x"}})
			continue
		}
		// iota run of length l starting at some offset; position inside its block is unknown
		// here, so the run is described by its values and written as iota±k / implicit lines
		l := 1 + rng.Intn(left)
		if l > 12 && rng.Intn(2) == 0 {
			l = 1 + rng.Intn(12)
		}
		var start *big.Int
		switch rng.Intn(5) {
		case 0:
			start = bi(0)
		case 1:
			start = new(big.Int).Set(lo)
		case 2:
			start = new(big.Int).Sub(hi, bi(int64(l+2)))
		case 3:
			start = bi(int64(rng.Intn(9) - 4))
		default:
			in := interesting(kind)
			start = in[rng.Intn(len(in))]
		}
		start = clamp(start, lo, hi)
		first := "i"
		if rng.Intn(3) == 0 {
			first = "c"
		}
		var seg []Item
		v := new(big.Int).Set(start)
		for k := 0; k < l && v.Cmp(hi) <= 0; k++ {
			if k > 0 && rng.Intn(8) == 0 && new(big.Int).Add(v, bi(1)).Cmp(hi) <= 0 {
				seg = append(seg, Item{What: "skip"})
				v = new(big.Int).Add(v, bi(1))
			}
			if !have[v.String()] {
				have[v.String()] = true
				form := "r"
				if len(seg) == 0 {
					form = first
				}
				vv := new(big.Int).Set(v)
				vals = append(vals, vv)
				seg = append(seg, Item{What: "const", T: t, Name: nm.next(), Val: vv, Form: form})
			} else {
				seg = append(seg, Item{What: "skip"})
			}
			v = new(big.Int).Add(v, bi(1))
		}
		for len(seg) > 0 && seg[len(seg)-1].What == "skip" {
			seg = seg[:len(seg)-1]
		}
		if len(seg) > 0 {
			segs = append(segs, seg)
		}
	}
	// duplicates: extra names for existing values
	for i := 0; i < nDup && len(vals) > 0; i++ {
		var v *big.Int
		if i > 0 && rng.Intn(2) == 0 {
			// grow an existing duplicate group
			last := segs[len(segs)-1]
			v = last[len(last)-1].Val
			if v == nil {
				v = vals[rng.Intn(len(vals))]
			}
		} else {
			v = vals[rng.Intn(len(vals))]
		}
		form := "x"
		if rng.Intn(4) == 0 {
			form = "r"
		}
		it := Item{What: "const", T: t, Name: nm.next(), Val: v, Form: form}
		if rng.Intn(3) == 0 && len(segs) > 0 {
			k := rng.Intn(len(segs))
			segs[k] = append(segs[k], it)
		} else {
			segs = append(segs, []Item{it})
		}
	}
	// deprecation: per duplicate group a random pattern (sometimes all), singles rarely
	groups := map[string][]*Item{}
	for si := range segs {
		for ii := range segs[si] {
			it := &segs[si][ii]
			if it.What == "const" {
				groups[it.Val.String()] = append(groups[it.Val.String()], it)
			}
		}
	}
	keys := make([]string, 0, len(groups))
	for k := range groups {
		keys = append(keys, k)
	}
	sort.Strings(keys)
	for _, k := range keys {
		grp := groups[k]
		if len(grp) == 1 {
			grp[0].Dep = rng.Intn(10) == 0
			continue
		}
		mode := rng.Intn(6)
		for _, it := range grp {
			switch mode {
			case 0:
				it.Dep = true
			case 1:
				it.Dep = false
			default:
				it.Dep = rng.Intn(2) == 0
			}
		}
	}
	// merge small segments so that a type has at most 4
	rng.Shuffle(len(segs), func(i, j int) { segs[i], segs[j] = segs[j], segs[i] })
	for len(segs) > 4 {
		k := rng.Intn(len(segs) - 1)
		segs[k] = append(segs[k], segs[k+1]...)
		segs = append(segs[:k+1], segs[k+2:]...)
	}
	return segs
}

// layout interleaves the segments of the types into const blocks.
func (g *gen) layout(d *Def, perType [][][]Item, n int) {
	rng := g.rng
	idx := make([]int, len(perType))
	others := 0
	first := true
	for {
		var avail []int
		for ti := range perType {
			if idx[ti] < len(perType[ti]) {
				avail = append(avail, ti)
			}
		}
		if len(avail) == 0 {
			break
		}
		ti := avail[rng.Intn(len(avail))]
		if !first {
			switch rng.Intn(6) {
			case 0, 1, 2:
				d.Items = append(d.Items, Item{What: "block"})
			case 3:
				d.Items = append(d.Items, Item{What: "other", Name: fmt.Sprintf("Other%d_%d", n, others)})
				others++
			case 4:
				d.Items = append(d.Items, Item{What: "skip"})
			}
		}
		first = false
		d.Items = append(d.Items, perType[ti][idx[ti]]...)
		idx[ti]++
	}
}

// randomDef follows the quantifier text.
func (g *gen) randomDef() *Def {
	rng := g.rng
	n := g.nextSerial()
	d := &Def{Opts: "-"}
	if rng.Intn(3) == 0 {
		d.Opts = "c"
	}
	fold := d.Opts == "c"
	if rng.Intn(4) == 0 {
		// -disableTraits on a definition without trait columns: "every option setting" of the property;
		// the constants of a random definition are laid out in any source order
		d.Opts = strings.TrimPrefix(d.Opts, "-") + "D"
	}
	nTypes := []int{1, 1, 1, 1, 2, 2, 2, 3, 3, 4}[rng.Intn(10)]
	var perType [][][]Item
	for ti := 0; ti < nTypes; ti++ {
		kind := g.nextKind()
		t := fmt.Sprintf("E%d%c", n, 'a'+ti)
		d.Types = append(d.Types, TypeD{Name: t, Kind: kind})
		nm := &namer{rng: rng, prefix: fmt.Sprintf("C%d%c", n, 'a'+ti), fold: fold, used: map[string]bool{}}
		perType = append(perType, g.randomConsts(t, kind, nm))
	}
	g.layout(d, perType, n)
	return d
}

// systematic: small definitions first, so that the first disagreement of a class is a small one:
// every duplicate pattern up to length 3 (and some longer), every kind with its extremes, the
// binary-search threshold from both sides, each with and without -caseInsensitive where relevant.
func (g *gen) systematic() []*Def {
	var defs []*Def
	pats := []string{"LL", "Ld", "dL", "dd", "LLL", "LLd", "LdL", "Ldd", "dLL", "dLd", "ddL", "ddd", "ddLL", "dLLd", "dLdL", "dddd", "dLLLL"}
	sfx := []string{"Aaa", "Bbb", "Ccc", "Ddd", "Eee"}
	for pi, p := range pats {
		n := g.nextSerial()
		kind := g.nextKind()
		lo, hi := kindRange(kind)
		t := fmt.Sprintf("E%da", n)
		pre := fmt.Sprintf("C%da", n)
		d := &Def{Opts: "-", Types: []TypeD{{Name: t, Kind: kind}}}
		// source order is a rotation of the alphabetical order
		order := make([]int, len(p))
		for i := range order {
			order[i] = (i + pi) % len(p)
		}
		dupVal := bi(1)
		for _, i := range order {
			d.Items = append(d.Items, Item{What: "const", T: t, Name: pre + sfx[i], Val: dupVal, Dep: p[i] == 'd', Form: "x"})
		}
		d.Items = append(d.Items, Item{What: "block"},
			Item{What: "const", T: t, Name: pre + "Lo", Val: lo, Form: "x"},
			Item{What: "const", T: t, Name: pre + "Hi", Val: hi, Form: "x"})
		defs = append(defs, d)
	}
	// thresholds: 14..17 and 40 constants, distinct and with duplicates, signed and unsigned
	sizes, tkinds := []int{15, 16, 40}, []string{"i8", "u64"}
	if g.thorough {
		sizes, tkinds = []int{14, 15, 16, 17, 40}, []string{"i8", "u16", "int", "u64"}
	}
	for _, nC := range sizes {
		for _, kind := range tkinds {
			for _, dups := range []bool{false, true} {
				n := g.nextSerial()
				t := fmt.Sprintf("E%da", n)
				pre := fmt.Sprintf("C%da", n)
				lo, hi := kindRange(kind)
				d := &Def{Opts: "-", Types: []TypeD{{Name: t, Kind: kind}}}
				if (n % 2) == 0 {
					d.Opts = "c"
				}
				if (n % 3) == 0 {
					d.Opts = strings.TrimPrefix(d.Opts, "-") + "D" // -disableTraits: no effect without trait columns
				}
				nDistinct := nC
				if dups {
					nDistinct = nC - 3
				}
				start := bi(0)
				if lo.Sign() < 0 {
					start = bi(-5)
				}
				form := "i"
				for i := 0; i < nDistinct-2; i++ {
					d.Items = append(d.Items, Item{What: "const", T: t, Name: fmt.Sprintf("%sV%d", pre, i), Val: new(big.Int).Add(start, bi(int64(i))), Form: form})
					form = "r"
				}
				d.Items = append(d.Items, Item{What: "block"},
					Item{What: "const", T: t, Name: pre + "Lo", Val: lo, Form: "x"},
					Item{What: "const", T: t, Name: pre + "Hi", Val: hi, Form: "x"})
				if dups {
					d.Items = append(d.Items,
						Item{What: "const", T: t, Name: pre + "A0", Val: bi(3), Dep: true, Form: "x"},
						Item{What: "const", T: t, Name: pre + "B0", Val: bi(3), Form: "x"},
						Item{What: "const", T: t, Name: pre + "A1", Val: hi, Dep: true, Form: "x"})
				}
				defs = append(defs, d)
			}
		}
	}
	defs = append(defs, g.gapAliasDefs()...)
	// two types sharing one const block with a running iota (the repository's own test shape)
	{
		n := g.nextSerial()
		ta, tb := fmt.Sprintf("E%da", n), fmt.Sprintf("E%db", n)
		pa, pb := fmt.Sprintf("C%da", n), fmt.Sprintf("C%db", n)
		d := &Def{Opts: "-", Types: []TypeD{{Name: ta, Kind: "int"}, {Name: tb, Kind: "u64"}}}
		d.Items = []Item{
			{What: "const", T: ta, Name: pa + "V0", Val: bi(0), Form: "i"},
			{What: "const", T: ta, Name: pa + "V1", Val: bi(1), Form: "r"},
			{What: "const", T: ta, Name: pa + "V2", Val: bi(2), Form: "r"},
			{What: "const", T: ta, Name: pa + "V7", Val: bi(7), Form: "x"},
			{What: "other", Name: fmt.Sprintf("Other%d_0", n)},
			{What: "const", T: tb, Name: pb + "V0", Val: bi(5), Form: "i"},
			{What: "const", T: tb, Name: pb + "V1", Val: bi(6), Form: "r"},
			{What: "const", T: ta, Name: pa + "Neg", Val: bi(-1), Form: "x"},
			{What: "block"},
			{What: "const", T: ta, Name: pa + "V0b", Val: bi(0), Dep: true, Form: "i"},
			{What: "const", T: ta, Name: pa + "V1b", Val: bi(1), Form: "i"},
			{What: "const", T: ta, Name: pa + "V2b", Val: bi(2), Form: "i"},
		}
		defs = append(defs, d)
	}
	return defs
}

func hexOf(s string) string {
	if s == "" {
		return "-"
	}
	return hex.EncodeToString([]byte(s))
}

func swapCase(s string) string {
	b := []byte(s)
	for i, c := range b {
		switch {
		case c >= 'a' && c <= 'z':
			b[i] = c - 32
		case c >= 'A' && c <= 'Z':
			b[i] = c + 32
		}
	}
	return string(b)
}

// valueList: boundary, defined, defined±1 and random values of the kind (ascending, distinct).
func (g *gen) valueList(kind string, consts []Item) string {
	lo, hi := kindRange(kind)
	seen := map[string]bool{}
	var vs []*big.Int
	add := func(v *big.Int) {
		if v.Cmp(lo) < 0 || v.Cmp(hi) > 0 || seen[v.String()] || len(vs) >= 220 {
			return
		}
		seen[v.String()] = true
		vs = append(vs, v)
	}
	for _, v := range interesting(kind) {
		add(v)
	}
	for _, it := range consts {
		add(it.Val)
		add(new(big.Int).Add(it.Val, bi(1)))
		add(new(big.Int).Sub(it.Val, bi(1)))
	}
	// every value inside the range of the constants (the gaps) when that range is small
	if len(consts) > 0 {
		mn, mx := consts[0].Val, consts[0].Val
		for _, it := range consts {
			if it.Val.Cmp(mn) < 0 {
				mn = it.Val
			}
			if it.Val.Cmp(mx) > 0 {
				mx = it.Val
			}
		}
		if span := new(big.Int).Sub(mx, mn); span.IsInt64() && span.Int64() <= 80 {
			for v := new(big.Int).Set(mn); v.Cmp(mx) <= 0; v = new(big.Int).Add(v, bi(1)) {
				add(v)
			}
		}
	}
	for i := 0; i < 10; i++ {
		add(randInRange(g.rng, lo, hi))
	}
	sort.Slice(vs, func(i, j int) bool { return vs[i].Cmp(vs[j]) < 0 })
	ss := make([]string, len(vs))
	for i, v := range vs {
		ss[i] = v.String()
	}
	return strings.Join(ss, ",")
}

// parseInputs: every constant name, case variants, near-miss strings.
func (g *gen) parseInputs(d *Def, t string, consts []Item) []string {
	rng := g.rng
	seen := map[string]bool{}
	var in []string
	add := func(s string) {
		for _, c := range []byte(s) {
			if c < 0x20 || c > 0x7e {
				return
			}
		}
		if !seen[s] {
			seen[s] = true
			in = append(in, s)
		}
	}
	for _, it := range consts {
		add(it.Name)
	}
	pick := consts
	if len(pick) > 6 {
		pick = nil
		for _, i := range rng.Perm(len(consts))[:6] {
			pick = append(pick, consts[i])
		}
	}
	for _, it := range pick {
		n := it.Name
		add(strings.ToLower(n))
		add(strings.ToUpper(n))
		add(swapCase(n))
		add(n + "x")
		add(n[:len(n)-1])
		add("x" + n)
		add(n + " ")
		add(" " + n)
		add(n[:len(n)-1] + string(rune(n[len(n)-1]^1)))
		add(fmt.Sprintf("Undefined%s:%s", t, it.Val.String()))
		add(it.Val.String())
	}
	add("")
	add(t)
	add(strings.ToLower(t))
	add("iota")
	add("0")
	add("Undefined" + t + ":0")
	// constants of the other types and unrelated constants of the same file
	for _, it := range d.Items {
		if (it.What == "const" && it.T != t) || it.What == "other" {
			if rng.Intn(3) == 0 {
				add(it.Name)
			}
		}
	}
	const al = "ABCXYZabcxyz019_ :-"
	for i := 0; i < 4; i++ {
		l := 1 + rng.Intn(6)
		b := make([]byte, l)
		for k := range b {
			b[k] = al[rng.Intn(len(al))]
		}
		add(string(b))
	}
	return in
}

// emit prepares the batch on the implementation side (generator runs + one go build) and adds
// one case per enum type.
func (g *gen) emit(defs []*Def, domain bool) {
	g.w.prepare(defs)
	for _, d := range defs {
		g.nDefs++
		defLines := append(d.Lines(), "gn gen")
		for _, td := range d.Types {
			g.nTypes++
			consts := d.constsOf(td.Name)
			bits, signed, _, _ := kindInfo(td.Kind)
			hdr := fmt.Sprintf("case gn %d %s", g.nDefs, td.Name)
			lines := append([]string{hdr}, defLines...)
			lines = append(lines, "gn values "+td.Name, "gn strvals "+td.Name)
			tags := []string{"kind:" + td.Kind, fmt.Sprintf("types-in-file:%d", len(d.Types))}
			if signed {
				tags = append(tags, "signed")
			} else {
				tags = append(tags, "unsigned")
			}
			if len(consts) > 15 {
				tags = append(tags, "isvalid:binary-search")
			} else {
				tags = append(tags, "isvalid:linear")
			}
			if strings.Contains(d.Opts, "c") {
				tags = append(tags, "caseInsensitive")
			}
			neg := false
			for _, it := range consts {
				if it.Val.Sign() < 0 {
					neg = true
				}
			}
			if neg {
				tags = append(tags, "negative-constants")
			}
			pats := dupPatterns(d, td.Name)
			for _, p := range pats {
				if len(p) > 4 {
					p = p[:4] + "+"
				}
				tags = append(tags, "dup:"+p)
			}
			if bits == 8 {
				lines = append(lines, "gn valid "+td.Name+" all", "gn str "+td.Name+" all")
				tags = append(tags, "exhaustive-8bit")
				g.nValueQ += 512
			} else {
				vl := g.valueList(td.Kind, consts)
				lines = append(lines, "gn valid "+td.Name+" "+vl, "gn str "+td.Name+" "+vl)
				g.nValueQ += 2 * (strings.Count(vl, ",") + 1)
			}
			for _, s := range g.parseInputs(d, td.Name, consts) {
				lines = append(lines, "gn parse "+td.Name+" "+hexOf(s))
				g.nParse++
			}
			// the slices returned above were mutated in place by the probe (caller-owned): ask again
			lines = append(lines, "gn values "+td.Name, "gn strvals "+td.Name)
			if bits == 8 {
				lines = append(lines, "gn valid "+td.Name+" all", "gn str "+td.Name+" all")
			} else {
				vl := g.valueList(td.Kind, consts)
				lines = append(lines, "gn valid "+td.Name+" "+vl, "gn str "+td.Name+" "+vl)
			}
			lines = append(lines, "gn values "+td.Name, "gn strvals "+td.Name)
			if h, a := holesAndAliases(consts); h > 0 {
				switch {
				case a == h:
					tags = append(tags, "aliases=holes")
				case a == h+1 || a+1 == h:
					tags = append(tags, "aliases=holes+-1")
				}
			}
			nt := len(pats) > 0 || len(consts) > 15 || neg
			g.r.Add(hx.Case{Lines: lines, Domain: domain, Nontrivial: nt, Tags: tags})
		}
	}
}

// outOfDomain: definitions the quantifier does not cover. Compared, recorded as drift only.
func (g *gen) outOfDomain() {
	var defs []*Def
	// names that differ only in case, generated with -caseInsensitive: the property's parse clause
	// cannot hold for both; the generated lower-case switch has a duplicate case
	{
		n := g.nextSerial()
		t, pre := fmt.Sprintf("E%da", n), fmt.Sprintf("C%da", n)
		defs = append(defs, &Def{Opts: "c", Types: []TypeD{{Name: t, Kind: "int"}}, Items: []Item{
			{What: "const", T: t, Name: pre + "Foo", Val: bi(0), Form: "i"},
			{What: "const", T: t, Name: pre + "FOO", Val: bi(1), Form: "r"},
		}})
	}
	// a type without constants (the quantifier says 1-40)
	{
		n := g.nextSerial()
		t, pre := fmt.Sprintf("E%da", n), fmt.Sprintf("C%da", n)
		defs = append(defs, &Def{Opts: "-", Types: []TypeD{{Name: t, Kind: "int"}, {Name: t + "Empty", Kind: "u8"}}, Items: []Item{
			{What: "const", T: t, Name: pre + "A", Val: bi(0), Form: "i"},
		}})
	}
	for _, d := range defs {
		g.emit([]*Def{d}, false)
	}
}

// holesAndAliases: number of integers strictly inside the value range that are not defined, and
// number of alias names (names minus distinct values); holes = -1 when the range is huge.
func holesAndAliases(consts []Item) (holes, aliases int) {
	if len(consts) == 0 {
		return 0, 0
	}
	distinct := map[string]bool{}
	mn, mx := consts[0].Val, consts[0].Val
	for _, it := range consts {
		distinct[it.Val.String()] = true
		if it.Val.Cmp(mn) < 0 {
			mn = it.Val
		}
		if it.Val.Cmp(mx) > 0 {
			mx = it.Val
		}
	}
	span := new(big.Int).Sub(mx, mn)
	if !span.IsInt64() || span.Int64() > 100000 {
		return -1, len(consts) - len(distinct)
	}
	return int(span.Int64()) + 1 - len(distinct), len(consts) - len(distinct)
}

// gapAliasDefs: value ranges with holes, and alias names whose number equals the number of holes
// or is one off (any shortcut that compares `last-first` with a count of names instead of distinct
// values goes wrong exactly there). Small and >15-constant enums, signed with negative values and
// unsigned, 8-bit kinds included (IsValid is asked on every value of those, on every value of
// the range otherwise). Four types per file.
func (g *gen) gapAliasDefs() []*Def {
	rng := g.rng
	kindsQ := []string{"i8", "u8", "int", "u64"}
	if g.thorough {
		kindsQ = []string{"i8", "u8", "i16", "u16", "i32", "u32", "i64", "u64", "int", "uint"}
	}
	type shape struct {
		kind  string
		m     int // distinct values
		h     int // holes inside the range
		delta int // aliases - holes
	}
	var shapes []shape
	for ki, kind := range kindsQ {
		for si, m := range []int{4, 17} {
			for _, delta := range []int{0, -1, 1} {
				h := 1 + (ki+si+delta+3)%3
				if h+delta < 0 {
					continue
				}
				shapes = append(shapes, shape{kind, m, h, delta})
			}
		}
	}
	var defs []*Def
	var d *Def
	n := 0
	for i, sh := range shapes {
		if i%4 == 0 {
			n = g.nextSerial()
			d = &Def{Opts: "-"}
			if (i/4)%3 == 2 {
				d.Opts = "c"
			}
			defs = append(defs, d)
		}
		ti := i % 4
		t := fmt.Sprintf("E%d%c", n, 'a'+ti)
		pre := fmt.Sprintf("C%d%c", n, 'a'+ti)
		d.Types = append(d.Types, TypeD{Name: t, Kind: sh.kind})
		lo, _ := kindRange(sh.kind)
		start := bi(0)
		if lo.Sign() < 0 {
			start = bi(int64(-2 - rng.Intn(3))) // negative values on signed kinds
		}
		// positions 0..m+h-1, holes at h distinct interior positions
		total := sh.m + sh.h
		hole := map[int]bool{}
		for len(hole) < sh.h {
			hole[1+rng.Intn(total-2)] = true
		}
		if ti > 0 {
			d.Items = append(d.Items, Item{What: "block"})
		}
		var vals []*big.Int
		first := true
		for p := 0; p < total; p++ {
			if hole[p] {
				d.Items = append(d.Items, Item{What: "skip"})
				continue
			}
			v := new(big.Int).Add(start, bi(int64(p)))
			vals = append(vals, v)
			form := "r"
			if first {
				form = "i"
				first = false
			}
			d.Items = append(d.Items, Item{What: "const", T: t, Name: fmt.Sprintf("%sV%d", pre, p), Val: v, Form: form})
		}
		d.Items = append(d.Items, Item{What: "block"})
		for a := 0; a < sh.h+sh.delta; a++ {
			v := vals[rng.Intn(len(vals))]
			d.Items = append(d.Items, Item{What: "const", T: t, Name: fmt.Sprintf("%sAlias%d", pre, a), Val: v, Dep: rng.Intn(2) == 0, Form: "x"})
		}
	}
	return defs
}

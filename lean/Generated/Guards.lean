import Model.GenGuards
/-! REGENERATED on every run by harness/cmd/extract-guards from the templates
genum/gen/enumTemplate.gotmpl, gerror/gen/gerror.gotmpl, gsort/gen/gsort.gotmpl
(text/template/parse) and from genum/definitions.go, gerror/error.go, gerror/factory.go, gerror/gerror.go,
the three gen/generate.go and GOROOT/src/sort/sort.go (go/ast). Do not edit.
Entry = ⟨kind, pointer receiver, receiver (alias for imports), name (import path), guard⟩;
Ref = ⟨kind, referenced declaration, enclosing declaration, guard⟩. -/
namespace Generated.Guards
open GenGuards

def genumOptions : List Option' := [⟨"GenJSON", "json", true⟩, ⟨"GenYAML", "yaml", true⟩, ⟨"GenText", "text", true⟩, ⟨"DisableTraits", "disableTraits", false⟩, ⟨"CaseInsensitive", "caseInsensitive", false⟩]
def gerrorOptions : List Option' := [⟨"SkipConvertGen", "skipConvertGen", false⟩]
def gsortOptions : List Option' := []
def genumTraitGates : List String := ["DisableTraits"]

def genumEntries : List Entry := [
  ⟨.method, false, "«$enumTypeName»", "«$trait.Name»", [.range ".Types", .range "(index $.Traits $i)"]⟩,
  ⟨.method, false, "«$enumTypeName»", "IsValid", [.range ".Types"]⟩,
  ⟨.method, false, "«$enumTypeName»", "Values", [.range ".Types"]⟩,
  ⟨.method, false, "«$enumTypeName»", "StringValues", [.range ".Types"]⟩,
  ⟨.method, false, "«$enumTypeName»", "String", [.range ".Types"]⟩,
  ⟨.method, false, "«$enumTypeName»", "ParseString", [.range ".Types"]⟩,
  ⟨.func, false, "", "Parse«$enumTypeName»", [.range ".Types"]⟩,
  ⟨.method, false, "«$enumTypeName»", "ParseGeneric", [.range ".Types"]⟩,
  ⟨.method, false, "«$enumTypeName»", "MarshalJSON", [.range ".Types", .opt "GenJSON" true]⟩,
  ⟨.method, true, "«$enumTypeName»", "UnmarshalJSON", [.range ".Types", .opt "GenJSON" true]⟩,
  ⟨.method, false, "«$enumTypeName»", "MarshalText", [.range ".Types", .opt "GenText" true]⟩,
  ⟨.method, true, "«$enumTypeName»", "UnmarshalText", [.range ".Types", .opt "GenText" true]⟩,
  ⟨.method, false, "«$enumTypeName»", "MarshalYAML", [.range ".Types", .opt "GenYAML" true]⟩,
  ⟨.method, true, "«$enumTypeName»", "UnmarshalYAML", [.range ".Types", .opt "GenYAML" true]⟩,
  ⟨.method, false, "«$enumTypeName»", "IsEnum", [.range ".Types"]⟩,
  ⟨.imp, false, "slices", "slices", []⟩,
  ⟨.imp, false, "json", "encoding/json", [.opt "GenJSON" true]⟩,
  ⟨.imp, false, "strings", "strings", [.opt "CaseInsensitive" true]⟩,
  ⟨.imp, false, "yaml", "gopkg.in/yaml.v3", [.opt "GenYAML" true]⟩,
  ⟨.imp, false, "strconv", "strconv", [.opt "GenYAML" true]⟩,
  ⟨.imp, false, "«$import.Alias»", "«$import.PkgPath»", [.range "$.Imports.GetActive"]⟩,
  ⟨.imp, false, "fmt", "fmt", []⟩,
  ⟨.imp, false, "genum", "github.com/drshriveer/gtools/genum", []⟩
]
def genumUses : List Use := [
  ⟨"slices", [.range ".Types", .data "gt (len (index $.Values $i)) 15"]⟩,
  ⟨"slices", [.range ".Types"]⟩,
  ⟨"fmt", [.range ".Types"]⟩,
  ⟨"strings", [.range ".Types", .opt "CaseInsensitive" true]⟩,
  ⟨"genum", [.range ".Types"]⟩,
  ⟨"json", [.range ".Types", .opt "GenJSON" true]⟩,
  ⟨"json", [.range ".Types", .opt "GenJSON" true, .data "(len ((index $.Traits $i).GetParsableUnderlyingUint64ForJSON))"]⟩,
  ⟨"json", [.range ".Types", .opt "GenJSON" true, .data "(len ((index $.Traits $i).GetParsableUnderlyingInt64ForJSON))"]⟩,
  ⟨"json", [.range ".Types", .opt "GenJSON" true, .data "(len ((index $.Traits $i).GetParsableUnderlyingFloat64ForJSON))"]⟩,
  ⟨"json", [.range ".Types", .opt "GenJSON" true, .data "(len ((index $.Traits $i).GetParsableUnderlyingFloat32ForJSON))"]⟩,
  ⟨"json", [.range ".Types", .opt "GenJSON" true, .data "(len ((index $.Traits $i).GetParsableJSONUnmarshalable))", .range "(index $.Traits $i).GetParsableJSONUnmarshalable"]⟩,
  ⟨"fmt", [.range ".Types", .opt "GenJSON" true]⟩,
  ⟨"fmt", [.range ".Types", .opt "GenText" true]⟩,
  ⟨"yaml", [.range ".Types", .opt "GenYAML" true]⟩,
  ⟨"strconv", [.range ".Types", .opt "GenYAML" true, .data "(len ((index $.Traits $i).GetParsableUnderlyingUint64ForYAML))"]⟩,
  ⟨"strconv", [.range ".Types", .opt "GenYAML" true, .data "(len ((index $.Traits $i).GetParsableUnderlyingInt64ForYAML))"]⟩,
  ⟨"strconv", [.range ".Types", .opt "GenYAML" true, .data "(len ((index $.Traits $i).GetParsableUnderlyingFloat64ForYAML))"]⟩,
  ⟨"strconv", [.range ".Types", .opt "GenYAML" true, .data "(len ((index $.Traits $i).GetParsableUnderlyingFloat32ForYAML))"]⟩,
  ⟨"fmt", [.range ".Types", .opt "GenYAML" true]⟩
]
def genumRefs : List Ref := [
  ⟨.func, "Parse«$enumTypeName»", "ParseString", [.range ".Types"]⟩,
  ⟨.func, "Parse«$enumTypeName»", "ParseGeneric", [.range ".Types"]⟩,
  ⟨.method, "String", "MarshalJSON", [.range ".Types", .opt "GenJSON" true]⟩,
  ⟨.func, "Parse«$enumTypeName»", "UnmarshalJSON", [.range ".Types", .opt "GenJSON" true]⟩,
  ⟨.func, "Parse«$enumTypeName»", "UnmarshalJSON", [.range ".Types", .opt "GenJSON" true, .range "(index $.Traits $i).GetParsableUnderlyingStringForJSON"]⟩,
  ⟨.func, "Parse«$enumTypeName»", "UnmarshalJSON", [.range ".Types", .opt "GenJSON" true, .data "(len ((index $.Traits $i).GetParsableUnderlyingUint64ForJSON))", .range "(index $.Traits $i).GetParsableUnderlyingUint64ForJSON"]⟩,
  ⟨.func, "Parse«$enumTypeName»", "UnmarshalJSON", [.range ".Types", .opt "GenJSON" true, .data "(len ((index $.Traits $i).GetParsableUnderlyingInt64ForJSON))", .range "(index $.Traits $i).GetParsableUnderlyingInt64ForJSON"]⟩,
  ⟨.func, "Parse«$enumTypeName»", "UnmarshalJSON", [.range ".Types", .opt "GenJSON" true, .data "(len ((index $.Traits $i).GetParsableUnderlyingFloat64ForJSON))", .range "(index $.Traits $i).GetParsableUnderlyingFloat64ForJSON"]⟩,
  ⟨.func, "Parse«$enumTypeName»", "UnmarshalJSON", [.range ".Types", .opt "GenJSON" true, .data "(len ((index $.Traits $i).GetParsableUnderlyingFloat32ForJSON))", .range "(index $.Traits $i).GetParsableUnderlyingFloat32ForJSON"]⟩,
  ⟨.func, "Parse«$enumTypeName»", "UnmarshalJSON", [.range ".Types", .opt "GenJSON" true, .data "(len ((index $.Traits $i).GetParsableJSONUnmarshalable))", .range "(index $.Traits $i).GetParsableJSONUnmarshalable"]⟩,
  ⟨.method, "String", "MarshalText", [.range ".Types", .opt "GenText" true]⟩,
  ⟨.func, "Parse«$enumTypeName»", "UnmarshalText", [.range ".Types", .opt "GenText" true]⟩,
  ⟨.func, "Parse«$enumTypeName»", "UnmarshalText", [.range ".Types", .opt "GenText" true, .range "(index $.Traits $i).GetParsableUnderlyingStringForText"]⟩,
  ⟨.func, "Parse«$enumTypeName»", "UnmarshalText", [.range ".Types", .opt "GenText" true, .data "(len ((index $.Traits $i).GetParsableTextUnmarshalable))", .range "(index $.Traits $i).GetParsableTextUnmarshalable"]⟩,
  ⟨.method, "String", "MarshalYAML", [.range ".Types", .opt "GenYAML" true]⟩,
  ⟨.func, "Parse«$enumTypeName»", "UnmarshalYAML", [.range ".Types", .opt "GenYAML" true]⟩,
  ⟨.func, "Parse«$enumTypeName»", "UnmarshalYAML", [.range ".Types", .opt "GenYAML" true, .range "(index $.Traits $i).GetParsableUnderlyingStringForYAML"]⟩,
  ⟨.func, "Parse«$enumTypeName»", "UnmarshalYAML", [.range ".Types", .opt "GenYAML" true, .data "(len ((index $.Traits $i).GetParsableUnderlyingUint64ForYAML))", .range "(index $.Traits $i).GetParsableUnderlyingUint64ForYAML"]⟩,
  ⟨.func, "Parse«$enumTypeName»", "UnmarshalYAML", [.range ".Types", .opt "GenYAML" true, .data "(len ((index $.Traits $i).GetParsableUnderlyingInt64ForYAML))", .range "(index $.Traits $i).GetParsableUnderlyingInt64ForYAML"]⟩,
  ⟨.func, "Parse«$enumTypeName»", "UnmarshalYAML", [.range ".Types", .opt "GenYAML" true, .data "(len ((index $.Traits $i).GetParsableUnderlyingFloat64ForYAML))", .range "(index $.Traits $i).GetParsableUnderlyingFloat64ForYAML"]⟩,
  ⟨.func, "Parse«$enumTypeName»", "UnmarshalYAML", [.range ".Types", .opt "GenYAML" true, .data "(len ((index $.Traits $i).GetParsableUnderlyingFloat32ForYAML))", .range "(index $.Traits $i).GetParsableUnderlyingFloat32ForYAML"]⟩,
  ⟨.func, "Parse«$enumTypeName»", "UnmarshalYAML", [.range ".Types", .opt "GenYAML" true, .data "(len ((index $.Traits $i).GetParsableYAMLUnmarshalable))", .range "(index $.Traits $i).GetParsableYAMLUnmarshalable"]⟩
]
def gerrorEntries : List Entry := [
  ⟨.method, true, "«$desc.TypeName»", "Error", [.range ".ErrorDescs"]⟩,
  ⟨.method, true, "«$desc.TypeName»", "Base", [.range ".ErrorDescs"]⟩,
  ⟨.method, true, "«$desc.TypeName»", "SourceOnly", [.range ".ErrorDescs"]⟩,
  ⟨.method, true, "«$desc.TypeName»", "Stack", [.range ".ErrorDescs"]⟩,
  ⟨.method, true, "«$desc.TypeName»", "Src", [.range ".ErrorDescs"]⟩,
  ⟨.method, true, "«$desc.TypeName»", "DTag", [.range ".ErrorDescs"]⟩,
  ⟨.method, true, "«$desc.TypeName»", "Msg", [.range ".ErrorDescs"]⟩,
  ⟨.method, true, "«$desc.TypeName»", "SrcDTagMsg", [.range ".ErrorDescs"]⟩,
  ⟨.method, true, "«$desc.TypeName»", "SrcDTag", [.range ".ErrorDescs"]⟩,
  ⟨.method, true, "«$desc.TypeName»", "SrcMsg", [.range ".ErrorDescs"]⟩,
  ⟨.method, true, "«$desc.TypeName»", "DTagMsg", [.range ".ErrorDescs"]⟩,
  ⟨.method, true, "«$desc.TypeName»", "SrcS", [.range ".ErrorDescs"]⟩,
  ⟨.method, true, "«$desc.TypeName»", "DTagS", [.range ".ErrorDescs"]⟩,
  ⟨.method, true, "«$desc.TypeName»", "MsgS", [.range ".ErrorDescs"]⟩,
  ⟨.method, true, "«$desc.TypeName»", "SrcDTagMsgS", [.range ".ErrorDescs"]⟩,
  ⟨.method, true, "«$desc.TypeName»", "SrcDTagS", [.range ".ErrorDescs"]⟩,
  ⟨.method, true, "«$desc.TypeName»", "SrcMsgS", [.range ".ErrorDescs"]⟩,
  ⟨.method, true, "«$desc.TypeName»", "DTagMsgS", [.range ".ErrorDescs"]⟩,
  ⟨.method, true, "«$desc.TypeName»", "Convert", [.range ".ErrorDescs", .opt "SkipConvertGen" false]⟩,
  ⟨.method, true, "«$desc.TypeName»", "ConvertS", [.range ".ErrorDescs", .opt "SkipConvertGen" false]⟩,
  ⟨.method, true, "«$desc.TypeName»", "toPrimaryType", [.range ".ErrorDescs"]⟩,
  ⟨.imp, false, "fmt", "fmt", []⟩,
  ⟨.imp, false, "", "«$import.ImportString»", [.range "$.Imports.GetActive"]⟩
]
def gerrorUses : List Use := [
  ⟨"fmt", [.range ".ErrorDescs", .range "$desc.FieldsToPrint"]⟩,
  ⟨"fmt", [.range ".ErrorDescs"]⟩,
  ⟨"fmt", [.range ".ErrorDescs", .opt "SkipConvertGen" false]⟩
]
def gerrorRefs : List Ref := [
  ⟨.method, "toPrimaryType", "Base", [.range ".ErrorDescs"]⟩,
  ⟨.method, "toPrimaryType", "SourceOnly", [.range ".ErrorDescs"]⟩,
  ⟨.method, "toPrimaryType", "Stack", [.range ".ErrorDescs"]⟩,
  ⟨.method, "toPrimaryType", "Src", [.range ".ErrorDescs"]⟩,
  ⟨.method, "toPrimaryType", "DTag", [.range ".ErrorDescs"]⟩,
  ⟨.method, "toPrimaryType", "Msg", [.range ".ErrorDescs"]⟩,
  ⟨.method, "toPrimaryType", "SrcDTagMsg", [.range ".ErrorDescs"]⟩,
  ⟨.method, "toPrimaryType", "SrcDTag", [.range ".ErrorDescs"]⟩,
  ⟨.method, "toPrimaryType", "SrcMsg", [.range ".ErrorDescs"]⟩,
  ⟨.method, "toPrimaryType", "DTagMsg", [.range ".ErrorDescs"]⟩,
  ⟨.method, "toPrimaryType", "SrcS", [.range ".ErrorDescs"]⟩,
  ⟨.method, "toPrimaryType", "DTagS", [.range ".ErrorDescs"]⟩,
  ⟨.method, "toPrimaryType", "MsgS", [.range ".ErrorDescs"]⟩,
  ⟨.method, "toPrimaryType", "SrcDTagMsgS", [.range ".ErrorDescs"]⟩,
  ⟨.method, "toPrimaryType", "SrcDTagS", [.range ".ErrorDescs"]⟩,
  ⟨.method, "toPrimaryType", "SrcMsgS", [.range ".ErrorDescs"]⟩,
  ⟨.method, "toPrimaryType", "DTagMsgS", [.range ".ErrorDescs"]⟩,
  ⟨.method, "toPrimaryType", "Convert", [.range ".ErrorDescs", .opt "SkipConvertGen" false]⟩,
  ⟨.method, "toPrimaryType", "ConvertS", [.range ".ErrorDescs", .opt "SkipConvertGen" false]⟩
]
def gsortEntries : List Entry := [
  ⟨.typ, false, "", "«$desc.SortTypeName»", [.range ".SorterDescs"]⟩,
  ⟨.method, false, "«$desc.SortTypeName»", "Len", [.range ".SorterDescs"]⟩,
  ⟨.method, false, "«$desc.SortTypeName»", "Swap", [.range ".SorterDescs"]⟩,
  ⟨.method, false, "«$desc.SortTypeName»", "Less", [.range ".SorterDescs"]⟩,
  ⟨.imp, false, "«$import.Alias»", "«$import.PkgPath»", [.data "$.Imports.HasActiveImports", .range "$.Imports.GetActive"]⟩
]
def gsortUses : List Use := [
]
def gsortRefs : List Ref := [
]

def ifaceEnum : List String := ["IsValid", "StringValues", "String", "IsEnum", "ParseGeneric"]
def ifaceTypedEnum : List String := ["IsValid", "StringValues", "String", "IsEnum", "ParseGeneric", "Values", "ParseString"]
def ifaceError : List String := ["Error", "Is", "Unwrap", "ErrMessage", "ErrSource", "ErrName", "ErrDetailTag", "ErrStack", "_embededGError"]
def ifaceFactory : List String := ["Base", "SourceOnly", "Stack", "Src", "DTag", "Msg", "SrcDTagMsg", "SrcDTag", "SrcMsg", "DTagMsg", "SrcS", "DTagS", "MsgS", "SrcDTagMsgS", "SrcDTagS", "SrcMsgS", "DTagMsgS", "Convert", "ConvertS", "Error", "Is"]
def ifaceSort : List String := ["Len", "Less", "Swap"]
def gerrorBaseMethods : List String := ["Base", "Convert", "ConvertS", "DTag", "DTagMsg", "DTagMsgS", "DTagS", "ErrDetailTag", "ErrMessage", "ErrName", "ErrSource", "ErrStack", "Error", "Is", "Msg", "MsgS", "SourceOnly", "Src", "SrcDTag", "SrcDTagMsg", "SrcDTagMsgS", "SrcDTagS", "SrcMsg", "SrcMsgS", "SrcS", "Stack", "Unwrap", "_embededGError"]

end Generated.Guards

import Model.GSort
/-!
# C08 — gsort: the generated `Less` is the lexicographic strict weak order

For every struct definition (any number of fields, any tags), every sorter name, every ordered
value type `V` and every pair of slice elements.
-/
namespace GSort
set_option linter.unusedSectionVars false

variable {V : Type} [DecidableEq V]

/-! ### one key -/

theorem Val.eq_iff (x y : Val V) : Val.eq x y = true ↔ x = y := by simp [Val.eq]

/-- the rendered `return` expression of a key is the key's own order (current tree) -/
theorem retOf_eval (lt : V → V → Bool) (k : Key) (a b : Rec V)
    (ha : (a k.accessor).isFlag = k.isBool) (hb : (b k.accessor).isFlag = k.isBool) :
    (retOf k.isBool k.accessor).eval lt a b = Val.less lt (a k.accessor) (b k.accessor) := by
  cases hk : k.isBool <;> rw [hk] at ha hb
  · cases hx : a k.accessor <;> cases hy : b k.accessor <;>
      simp_all [retOf, RetExpr.eval, Val.goLt, Val.less, Val.isFlag]
  · cases hx : a k.accessor <;> cases hy : b k.accessor <;>
      simp_all [retOf, RetExpr.eval, Val.truth, Val.less, Val.isFlag]

theorem Val.less_irrefl (lt : V → V → Bool) (hirr : ∀ v, lt v v = false) (x : Val V) :
    Val.less lt x x = false := by
  cases x <;> simp [Val.less, hirr]

theorem Val.less_ne (lt : V → V → Bool) (hirr : ∀ v, lt v v = false) (x y : Val V)
    (h : Val.less lt x y = true) : x ≠ y := by
  intro e; subst e; rw [Val.less_irrefl lt hirr] at h; cases h

/-! ### the chain built by `PriorityTree` + template evaluates to `lex` -/

theorem wellTyped_cons (k : Key) (ks : List Key) (a : Rec V) :
    WellTyped (k :: ks) a ↔ (a k.accessor).isFlag = k.isBool ∧ WellTyped ks a := by
  simp [WellTyped]

theorem lex_cons (lt : V → V → Bool) (k : Key) (ks : List Key) (a b : Rec V) :
    lex lt (k :: ks) a b =
      if a k.accessor = b k.accessor then lex lt ks a b else Val.less lt (a k.accessor) (b k.accessor) := rfl

theorem eval_ret (lt : V → V → Bool) (e : RetExpr) (a b : Rec V) :
    (Cmp.ret e).eval lt a b = e.eval lt a b := rfl

theorem eval_ifEq (lt : V → V → Bool) (acc : String) (body : Cmp) (e : RetExpr) (a b : Rec V) :
    (Cmp.ifEq acc body e).eval lt a b =
      if a acc = b acc then body.eval lt a b else e.eval lt a b := by
  simp [Cmp.eval, Val.eq]

/-- For every non-empty list of field descriptors (in the order `PriorityTree` leaves them), the
generated body computes the lexicographic comparison of the corresponding keys. -/
theorem eval_chainOf_eq_lex (lt : V → V → Bool) (hirr : ∀ v, lt v v = false) :
    ∀ (l : List SFD), l ≠ [] → ∀ (a b : Rec V),
      WellTyped (l.map keyOf) a → WellTyped (l.map keyOf) b →
      (priorityBlock (chainOf l)).eval lt a b = lex lt (l.map keyOf) a b
  | [], h, _, _, _, _ => absurd rfl h
  | [f], _, a, b, ha, hb => by
    have ha' := ((wellTyped_cons (keyOf f) [] a).1 ha).1
    have hb' := ((wellTyped_cons (keyOf f) [] b).1 hb).1
    have hr := retOf_eval lt (keyOf f) a b ha' hb'
    show (Cmp.ret (retOf (keyOf f).isBool (keyOf f).accessor)).eval lt a b = lex lt [keyOf f] a b
    rw [eval_ret, hr, lex_cons]
    by_cases e : a (keyOf f).accessor = b (keyOf f).accessor
    · rw [if_pos e, e, Val.less_irrefl lt hirr]; rfl
    · rw [if_neg e]
  | f :: g :: rest, _, a, b, ha, hb => by
    have ha' := (wellTyped_cons (keyOf f) ((g :: rest).map keyOf) a).1 ha
    have hb' := (wellTyped_cons (keyOf f) ((g :: rest).map keyOf) b).1 hb
    have ih := eval_chainOf_eq_lex lt hirr (g :: rest) (by simp) a b ha'.2 hb'.2
    have hr := retOf_eval lt (keyOf f) a b ha'.1 hb'.1
    show (Cmp.ifEq (keyOf f).accessor (priorityBlock (chainOf (g :: rest)))
        (retOf (keyOf f).isBool (keyOf f).accessor)).eval lt a b
      = lex lt (keyOf f :: (g :: rest).map keyOf) a b
    rw [eval_ifEq, lex_cons, ih, hr]

/-! ### `lex` is the declarative lexicographic order `LexLess` -/

theorem lex_append_of_eq (lt : V → V → Bool) (pre ks : List Key) (a b : Rec V)
    (h : ∀ x ∈ pre, a x.accessor = b x.accessor) : lex lt (pre ++ ks) a b = lex lt ks a b := by
  induction pre with
  | nil => rfl
  | cons k pre ih =>
    rw [List.cons_append, lex_cons, if_pos (h k (by simp))]
    exact ih (fun x hx => h x (by simp [hx]))

/-- the executable spec decides the property text's "first differing key decides" -/
theorem lex_iff_LexLess (lt : V → V → Bool) (hirr : ∀ v, lt v v = false) (ks : List Key) (a b : Rec V) :
    lex lt ks a b = true ↔ LexLess lt ks a b := by
  constructor
  · induction ks with
    | nil => intro h; cases h
    | cons k ks ih =>
      rw [lex_cons]
      by_cases e : a k.accessor = b k.accessor
      · rw [if_pos e]; intro h
        obtain ⟨pre, k', post, h1, h2, h3⟩ := ih h
        refine ⟨k :: pre, k', post, by rw [h1]; rfl, ?_, h3⟩
        intro x hx
        rcases List.mem_cons.1 hx with rfl | hx
        · exact e
        · exact h2 x hx
      · rw [if_neg e]; intro h
        exact ⟨[], k, ks, rfl, by simp, h⟩
  · rintro ⟨pre, k, post, rfl, h2, h3⟩
    rw [lex_append_of_eq lt pre _ a b h2, lex_cons, if_neg (Val.less_ne lt hirr _ _ h3)]
    exact h3

/-! ### strict weak order -/

theorem Val.less_asymm (lt : V → V → Bool) (hirr : ∀ v, lt v v = false)
    (htr : ∀ a b c, lt a b = true → lt b c = true → lt a c = true) (x y : Val V)
    (h : Val.less lt x y = true) : Val.less lt y x = false := by
  cases x <;> cases y <;> simp_all [Val.less]
  · rename_i v w
    cases hw : lt w v
    · rfl
    · have := htr v w v h hw; rw [hirr] at this; cases this

theorem Val.less_trans (lt : V → V → Bool)
    (htr : ∀ a b c, lt a b = true → lt b c = true → lt a c = true) (x y z : Val V)
    (h1 : Val.less lt x y = true) (h2 : Val.less lt y z = true) : Val.less lt x z = true := by
  cases x <;> cases y <;> cases z <;> simp_all [Val.less]
  · exact htr _ _ _ h1 h2

/-- `Less(i, i)` is false — for every key list and every record, typed or not. -/
theorem lex_irrefl (lt : V → V → Bool) (ks : List Key) (a : Rec V) : lex lt ks a a = false := by
  induction ks with
  | nil => rfl
  | cons k ks ih => rw [lex_cons, if_pos rfl]; exact ih

theorem lex_asymm (lt : V → V → Bool) (ho : StrictTotal lt) (ks : List Key) (a b : Rec V)
    (h : lex lt ks a b = true) : lex lt ks b a = false := by
  induction ks with
  | nil => rfl
  | cons k ks ih =>
    rw [lex_cons] at h ⊢
    by_cases e : a k.accessor = b k.accessor
    · rw [if_pos e] at h; rw [if_pos e.symm]; exact ih h
    · rw [if_neg e] at h; rw [if_neg (fun e' => e e'.symm)]
      exact Val.less_asymm lt ho.irrefl ho.trans _ _ h

theorem lex_trans (lt : V → V → Bool) (ho : StrictTotal lt) (ks : List Key) (a b c : Rec V)
    (h1 : lex lt ks a b = true) (h2 : lex lt ks b c = true) : lex lt ks a c = true := by
  induction ks with
  | nil => cases h1
  | cons k ks ih =>
    rw [lex_cons] at h1 h2 ⊢
    by_cases e1 : a k.accessor = b k.accessor
    · rw [if_pos e1] at h1
      by_cases e2 : b k.accessor = c k.accessor
      · rw [if_pos e2] at h2; rw [if_pos (e1.trans e2)]; exact ih h1 h2
      · rw [if_neg e2] at h2; rw [if_neg (by rw [e1]; exact e2), e1]; exact h2
    · rw [if_neg e1] at h1
      by_cases e2 : b k.accessor = c k.accessor
      · rw [if_pos e2] at h2; rw [if_neg (by rw [← e2]; exact e1), ← e2]; exact h1
      · rw [if_neg e2] at h2
        have h3 := Val.less_trans lt ho.trans _ _ _ h1 h2
        rw [if_neg (Val.less_ne lt ho.irrefl _ _ h3)]; exact h3

/-- records that agree on every key -/
def KeyEq (ks : List Key) (a b : Rec V) : Prop := ∀ k ∈ ks, a k.accessor = b k.accessor

theorem Val.less_total (lt : V → V → Bool) (ho : StrictTotal lt) (x y : Val V)
    (hk : x.isFlag = y.isFlag) (hne : x ≠ y) : Val.less lt x y = true ∨ Val.less lt y x = true := by
  cases x <;> cases y <;> simp_all [Val.less, Val.isFlag]
  · rename_i p q; cases p <;> cases q <;> simp_all
  · exact ho.total _ _ hne

/-- trichotomy on well-typed records: smaller, larger, or equal on every key -/
theorem lex_trichotomy (lt : V → V → Bool) (ho : StrictTotal lt) (ks : List Key) (a b : Rec V)
    (ha : WellTyped ks a) (hb : WellTyped ks b) :
    lex lt ks a b = true ∨ lex lt ks b a = true ∨ KeyEq ks a b := by
  induction ks with
  | nil => right; right; intro k hk; cases hk
  | cons k ks ih =>
    have ha' := (wellTyped_cons k ks a).1 ha
    have hb' := (wellTyped_cons k ks b).1 hb
    rw [lex_cons, lex_cons]
    by_cases e : a k.accessor = b k.accessor
    · rw [if_pos e, if_pos e.symm]
      rcases ih ha'.2 hb'.2 with h | h | h
      · exact Or.inl h
      · exact Or.inr (Or.inl h)
      · right; right; intro x hx
        rcases List.mem_cons.1 hx with rfl | hx
        · exact e
        · exact h x hx
    · rw [if_neg e, if_neg (fun e' => e e'.symm)]
      rcases Val.less_total lt ho _ _ (by rw [ha'.1, hb'.1]) e with h | h
      · exact Or.inl h
      · exact Or.inr (Or.inl h)

theorem lex_congr_left (lt : V → V → Bool) (ks : List Key) (a b c : Rec V) (h : KeyEq ks a b) :
    lex lt ks a c = lex lt ks b c := by
  induction ks with
  | nil => rfl
  | cons k ks ih =>
    rw [lex_cons, lex_cons, h k (by simp)]
    rw [ih (fun x hx => h x (by simp [hx]))]

theorem lex_congr_right (lt : V → V → Bool) (ks : List Key) (a b c : Rec V) (h : KeyEq ks a b) :
    lex lt ks c a = lex lt ks c b := by
  induction ks with
  | nil => rfl
  | cons k ks ih =>
    rw [lex_cons, lex_cons, h k (by simp)]
    rw [ih (fun x hx => h x (by simp [hx]))]

/-- incomparable under `lex` = equal on every key (well-typed records) -/
theorem lex_incomp_iff (lt : V → V → Bool) (ho : StrictTotal lt) (ks : List Key) (a b : Rec V)
    (ha : WellTyped ks a) (hb : WellTyped ks b) :
    (lex lt ks a b = false ∧ lex lt ks b a = false) ↔ KeyEq ks a b := by
  constructor
  · rintro ⟨h1, h2⟩
    rcases lex_trichotomy lt ho ks a b ha hb with h | h | h
    · rw [h1] at h; cases h
    · rw [h2] at h; cases h
    · exact h
  · intro h
    constructor
    · rw [lex_congr_left lt ks a b b h]; exact lex_irrefl lt ks b
    · rw [lex_congr_right lt ks a b b h]; exact lex_irrefl lt ks b

/-- transitivity of incomparability ("transitive equivalence") -/
theorem lex_incomp_trans (lt : V → V → Bool) (ho : StrictTotal lt) (ks : List Key) (a b c : Rec V)
    (ha : WellTyped ks a) (hb : WellTyped ks b) (hc : WellTyped ks c)
    (hab : lex lt ks a b = false ∧ lex lt ks b a = false)
    (hbc : lex lt ks b c = false ∧ lex lt ks c b = false) :
    lex lt ks a c = false ∧ lex lt ks c a = false := by
  have e1 := (lex_incomp_iff lt ho ks a b ha hb).1 hab
  have e2 := (lex_incomp_iff lt ho ks b c hb hc).1 hbc
  exact (lex_incomp_iff lt ho ks a c ha hc).2 (fun k hk => (e1 k hk).trans (e2 k hk))

/-- negative transitivity: what a comparison sort actually relies on -/
theorem lex_neg_trans (lt : V → V → Bool) (ho : StrictTotal lt) (ks : List Key) (a b c : Rec V)
    (hb : WellTyped ks b) (hc : WellTyped ks c)
    (h1 : lex lt ks b a = false) (h2 : lex lt ks c b = false) : lex lt ks c a = false := by
  cases h : lex lt ks c a
  · rfl
  · exfalso
    rcases lex_trichotomy lt ho ks b c hb hc with h3 | h3 | h3
    · have := lex_trans lt ho ks b c a h3 h; rw [h1] at this; cases this
    · rw [h2] at h3; cases h3
    · rw [← lex_congr_left lt ks b c a h3, h1] at h; cases h

/-! ### normal form used by the program-text comparison is sound -/

theorem normalize_eval (lt : V → V → Bool) (c : Cmp) (a b : Rec V) :
    c.normalize.eval lt a b = c.eval lt a b := by
  induction c with
  | ret e => rfl
  | ifEq acc body e ih =>
    simp only [Cmp.normalize]
    rw [eval_ifEq, eval_ifEq, ih]
    by_cases h : a acc = b acc
    · rw [if_pos h, if_pos h]
    · rw [if_neg h, if_neg h]
      cases e with
      | lt x => rfl
      | notIAndJ x => rfl
      | selJ x =>
        by_cases hx : x = acc
        · subst hx
          simp only [if_true, RetExpr.eval]
          cases ha : a x <;> cases hb : b x <;> simp_all [Val.truth]
          rename_i p q; cases p <;> cases q <;> simp_all
        · simp [hx]

/-- A body written with guard clauses means what its nested rewriting means: the reader of
generated text may hand either rendering to the model. -/
theorem evalGuards_eq (lt : V → V → Bool) (gs : List (String × RetExpr)) (last : RetExpr) (a b : Rec V) :
    evalGuards lt a b gs last = (Cmp.ofGuards gs last).eval lt a b := by
  induction gs with
  | nil => rfl
  | cons g gs ih =>
    obtain ⟨acc, e⟩ := g
    simp only [evalGuards, Cmp.ofGuards, Cmp.eval, ih]
    cases Val.eq (a acc) (b acc) <;> simp

/-! ### sorting by priority: the result does not depend on the sorting algorithm -/

theorem sortP_perm (l : List SFD) : (sortP l).Perm l := List.mergeSort_perm l _

theorem sortP_pairwise_le (l : List SFD) :
    (sortP l).Pairwise (fun x y => x.priority ≤ y.priority) := by
  have h := List.pairwise_mergeSort (le := fun (a b : SFD) => decide (a.priority ≤ b.priority))
    (by intro a b c; simp; exact Int.le_trans)
    (by intro a b; simp; exact Int.le_total _ _) l
  exact h.imp (by intro a b; simp)

theorem pairwise_lt_of_le_nodup (l : List SFD)
    (h : l.Pairwise (fun x y => x.priority ≤ y.priority)) (hn : (l.map (·.priority)).Nodup) :
    l.Pairwise (fun x y => x.priority < y.priority) := by
  induction l with
  | nil => exact List.Pairwise.nil
  | cons a l ih =>
    rw [List.pairwise_cons] at h
    rw [List.map_cons, List.nodup_cons] at hn
    rw [List.pairwise_cons]
    refine ⟨?_, ih h.2 hn.2⟩
    intro b hb
    have hle := h.1 b hb
    have hne : a.priority ≠ b.priority := by
      intro e; apply hn.1; rw [e]; exact List.mem_map.2 ⟨b, hb, rfl⟩
    omega

/-- Two priority-ascending arrangements of the same fields are the same list: whatever
`sort.Sort` does internally, with distinct priorities its result is determined. -/
theorem sorted_unique (l₁ l₂ : List SFD) (hp : l₁.Perm l₂)
    (h₁ : l₁.Pairwise (fun x y => x.priority < y.priority))
    (h₂ : l₂.Pairwise (fun x y => x.priority < y.priority)) : l₁ = l₂ :=
  List.Perm.eq_of_pairwise (le := fun (x y : SFD) => x.priority < y.priority)
    (by intro a b _ _ h1 h2; omega) h₁ h₂ hp

/-! ### grouping by sorter name (`createSorterDesc`) -/

/-- map lookup in the association list -/
def lookupD (r : String) : Descs → Option (List SFD)
  | [] => none
  | (k, fs) :: rest => if k = r then some fs else lookupD r rest

theorem lookupD_addFD (d : Descs) (fd : SFD) (r : String) :
    lookupD r (addFD d fd) =
      if fd.sorter = r then some (sortP ((lookupD r d).getD [] ++ [fd])) else lookupD r d := by
  induction d with
  | nil =>
    simp only [addFD, lookupD]
    split <;> simp
  | cons e rest ih =>
    obtain ⟨k, fs⟩ := e
    by_cases hk : k = fd.sorter
    · subst hk
      by_cases hr : fd.sorter = r
      · simp [addFD, lookupD, hr]
      · simp [addFD, lookupD, hr]
    · have hk' : ¬ fd.sorter = k := fun e => hk e.symm
      by_cases hkr : k = r
      · subst hkr; simp [addFD, lookupD, hk, hk']
      · simp [addFD, lookupD, hk, hkr, ih]

theorem taggedFor_cons (fd : SFD) (fds : List SFD) (r : String) :
    taggedFor (fd :: fds) r = if fd.sorter = r then fd :: taggedFor fds r else taggedFor fds r := by
  simp only [taggedFor, List.filter_cons]
  by_cases h : fd.sorter = r <;> simp [h]

/-- after the loop, the group of every sorter is an arrangement of exactly the descriptors tagged
for it (plus what the group held before) -/
theorem lookupD_foldl (fds : List SFD) (d : Descs) (r : String) :
    ((lookupD r (fds.foldl addFD d)).getD []).Perm ((lookupD r d).getD [] ++ taggedFor fds r) ∧
    (lookupD r (fds.foldl addFD d) = none ↔ lookupD r d = none ∧ taggedFor fds r = []) := by
  induction fds generalizing d with
  | nil => simp [taggedFor]
  | cons fd fds ih =>
    rw [List.foldl_cons, taggedFor_cons]
    have h := ih (addFD d fd)
    rw [lookupD_addFD] at h
    by_cases hr : fd.sorter = r
    · rw [if_pos hr] at h ⊢
      constructor
      · refine h.1.trans ?_
        simp only [Option.getD_some]
        refine ((sortP_perm _).append_right _).trans ?_
        simp
      · constructor
        · intro hn; have := h.2.1 hn; simp at this
        · intro hn; simp at hn
    · rw [if_neg hr] at h ⊢
      exact h

theorem group_perm (fds : List SFD) (r : String) :
    ((lookupD r (groupAll fds)).getD []).Perm (taggedFor fds r) := by
  simpa [groupAll, lookupD] using (lookupD_foldl fds [] r).1

theorem group_none_iff (fds : List SFD) (r : String) :
    lookupD r (groupAll fds) = none ↔ taggedFor fds r = [] := by
  simpa [groupAll, lookupD] using (lookupD_foldl fds [] r).2

theorem keys_addFD (d : Descs) (fd : SFD) :
    (addFD d fd).map (·.1) =
      if fd.sorter ∈ d.map (·.1) then d.map (·.1) else d.map (·.1) ++ [fd.sorter] := by
  induction d with
  | nil => simp [addFD]
  | cons e rest ih =>
    obtain ⟨k, fs⟩ := e
    by_cases hk : k = fd.sorter
    · simp [addFD, hk]
    · simp only [addFD, if_neg hk, List.map_cons, ih, List.mem_cons]
      have hk' : ¬ fd.sorter = k := fun e => hk e.symm
      by_cases hm : fd.sorter ∈ rest.map (·.1)
      · simp [hm]
      · simp [hm, hk']

theorem keys_nodup_addFD (d : Descs) (fd : SFD) (h : (d.map (·.1)).Nodup) :
    ((addFD d fd).map (·.1)).Nodup := by
  rw [keys_addFD]
  split
  · exact h
  · rename_i hm
    rw [List.nodup_append]
    refine ⟨h, by simp, ?_⟩
    intro a ha b hb
    simp at hb; subst hb
    intro e; subst e; exact hm ha

theorem keys_nodup_foldl (fds : List SFD) (d : Descs) (h : (d.map (·.1)).Nodup) :
    ((fds.foldl addFD d).map (·.1)).Nodup := by
  induction fds generalizing d with
  | nil => exact h
  | cons fd fds ih => rw [List.foldl_cons]; exact ih _ (keys_nodup_addFD d fd h)

theorem mem_lookupD (d : Descs) (h : (d.map (·.1)).Nodup) (k : String) (fs : List SFD)
    (hm : (k, fs) ∈ d) : lookupD k d = some fs := by
  induction d with
  | nil => cases hm
  | cons e rest ih =>
    obtain ⟨k', fs'⟩ := e
    rw [List.map_cons, List.nodup_cons] at h
    rcases List.mem_cons.1 hm with e | hm
    · cases e; simp [lookupD]
    · have hne : k' ≠ k := by
        intro e; subst e; exact h.1 (List.mem_map.2 ⟨(k', fs), hm, rfl⟩)
      simp only [lookupD, if_neg hne]
      exact ih h.2 hm

/-- every group the loop leaves behind is an arrangement of the descriptors tagged for its
sorter, and is not empty -/
theorem group_entry (fds : List SFD) (k : String) (fs : List SFD) (hm : (k, fs) ∈ groupAll fds) :
    fs.Perm (taggedFor fds k) ∧ taggedFor fds k ≠ [] := by
  have hl := mem_lookupD (groupAll fds) (keys_nodup_foldl fds [] (by simp)) k fs hm
  have hp := group_perm fds k
  rw [hl] at hp
  refine ⟨hp, ?_⟩
  intro e
  have := (group_none_iff fds k).2 e
  rw [hl] at this; cases this

/-! ### validation -/

theorem validate_ok_iff (fs : List SFD) :
    validate fs = .ok () ↔ fs ≠ [] ∧ (fs.map (·.priority)).Nodup := by
  unfold validate
  by_cases h0 : fs.length = 0
  · have : fs = [] := List.eq_nil_of_length_eq_zero h0
    simp [this]
  · have : fs ≠ [] := fun e => h0 (by rw [e]; rfl)
    by_cases hn : (fs.map (·.priority)).Nodup
    · simp [h0, hn, this]
    · simp [h0, hn]

theorem validate_dup (fs : List SFD) (h0 : fs ≠ []) (hn : ¬ (fs.map (·.priority)).Nodup) :
    validate fs = .error .dupPriority := by
  unfold validate
  have : ¬ fs.length = 0 := fun e => h0 (List.eq_nil_of_length_eq_zero e)
  simp [this, hn]

theorem validateAll_ok_iff (d : Descs) :
    validateAll d = .ok () ↔ ∀ e ∈ d, validate e.2 = .ok () := by
  induction d with
  | nil => simp [validateAll]
  | cons e rest ih =>
    obtain ⟨k, fs⟩ := e
    simp only [validateAll, List.mem_cons, forall_eq_or_imp]
    cases hv : validate fs with
    | error x => simp [bind, Except.bind]
    | ok u => cases u; simp [bind, Except.bind, ih]

/-! ### the generator as a whole -/

/-- the quantifier's "any assignment of distinct priorities": per sorter, no priority twice -/
def Distinct (fds : List SFD) : Prop := ∀ r, ((taggedFor fds r).map (·.priority)).Nodup

theorem findSorter_map (ret : Bool → String → RetExpr) (d : Descs) (raw : String) :
    findSorter raw (d.map (fun e => (⟨e.1, blockWith ret (priorityTree e.2)⟩ : Sorter))) =
      (lookupD raw d).map (fun fs => (⟨raw, blockWith ret (priorityTree fs)⟩ : Sorter)) := by
  induction d with
  | nil => rfl
  | cons e rest ih =>
    obtain ⟨k, fs⟩ := e
    simp only [List.map_cons, findSorter, lookupD]
    by_cases h : k = raw
    · subst h; simp
    · simp [h, ih]

theorem validateAll_of_distinct (fds : List SFD) (hd : Distinct fds) :
    validateAll (groupAll fds) = .ok () := by
  rw [validateAll_ok_iff]
  rintro ⟨k, fs⟩ hm
  obtain ⟨hp, hne⟩ := group_entry fds k fs hm
  rw [validate_ok_iff]
  constructor
  · intro e; subst e; exact hne hp.nil_eq.symm
  · exact ((hp.map (·.priority)).nodup_iff).2 (hd k)

theorem generateFromSFDs_ok (ret : Bool → String → RetExpr) (fds : List SFD) (hd : Distinct fds) :
    generateFromSFDs ret fds =
      .ok ((groupAll fds).map (fun e => (⟨e.1, blockWith ret (priorityTree e.2)⟩ : Sorter))) := by
  simp [generateFromSFDs, validateAll_of_distinct fds hd, bind, Except.bind, pure, Except.pure]

theorem generateWith_of_sfds (ret : Bool → String → RetExpr) (fields : List Field) (fds : List SFD)
    (hf : allSFDs fields = .ok fds) : generateWith ret fields = generateFromSFDs ret fds := by
  simp [generateWith, hf, bind, Except.bind]

/-- with distinct priorities, the fields of a sorter have exactly one ascending arrangement, and
it is the one `PriorityTree` uses -/
theorem keyOrder_is_sortP (fds : List SFD) (hd : Distinct fds) (raw : String) (fs : List SFD)
    (hp : fs.Perm (taggedFor fds raw)) (ks : List Key) (hk : IsKeyOrder fds raw ks) :
    ks = (sortP fs).map keyOf := by
  obtain ⟨l, hl, hs, rfl⟩ := hk
  have hperm : (sortP fs).Perm l := ((sortP_perm fs).trans hp).trans hl.symm
  have hn : ((sortP fs).map (·.priority)).Nodup :=
    (((sortP_perm fs).trans hp).map (·.priority)).nodup_iff.2 (hd raw)
  have := sorted_unique (sortP fs) l hperm
    (pairwise_lt_of_le_nodup _ (sortP_pairwise_le fs) hn) hs
  rw [this]

theorem isKeyOrder_exists (fds : List SFD) (hd : Distinct fds) (raw : String) :
    ∃ ks, IsKeyOrder fds raw ks := by
  refine ⟨(sortP (taggedFor fds raw)).map keyOf, sortP (taggedFor fds raw), sortP_perm _, ?_, rfl⟩
  exact pairwise_lt_of_le_nodup _ (sortP_pairwise_le _)
    (((sortP_perm _).map (·.priority)).nodup_iff.2 (hd raw))

theorem isKeyOrder_unique (fds : List SFD) (hd : Distinct fds) (raw : String) (ks₁ ks₂ : List Key)
    (h₁ : IsKeyOrder fds raw ks₁) (h₂ : IsKeyOrder fds raw ks₂) : ks₁ = ks₂ := by
  rw [keyOrder_is_sortP fds hd raw _ (List.Perm.refl _) ks₁ h₁,
    keyOrder_is_sortP fds hd raw _ (List.Perm.refl _) ks₂ h₂]

/-- **C08, main statement (descriptor level).**  For every list of field descriptors with
distinct priorities per sorter: generation succeeds, produces a sorter for exactly the names that
occur in a tag, and the generated `Less` of sorter `raw` equals lexicographic comparison of the
fields tagged for `raw`, in ascending priority, on all well-typed slice elements. -/
theorem eval_genChain_eq_lex (lt : V → V → Bool) (hirr : ∀ v, lt v v = false)
    (fds : List SFD) (hd : Distinct fds) :
    ∃ ss, generateFromSFDs retOf fds = .ok ss ∧ ∀ raw,
      (taggedFor fds raw = [] → findSorter raw ss = none) ∧
      (taggedFor fds raw ≠ [] → ∃ s, findSorter raw ss = some s ∧ s.raw = raw ∧
        ∀ ks, IsKeyOrder fds raw ks → ∀ a b : Rec V, WellTyped ks a → WellTyped ks b →
          s.less.eval lt a b = lex lt ks a b) := by
  refine ⟨_, generateFromSFDs_ok retOf fds hd, ?_⟩
  intro raw
  rw [findSorter_map]
  constructor
  · intro h; rw [(group_none_iff fds raw).2 h]; rfl
  · intro h
    cases hl : lookupD raw (groupAll fds) with
    | none => exact absurd ((group_none_iff fds raw).1 hl) h
    | some fs =>
      have hp := group_perm fds raw
      rw [hl] at hp
      simp only [Option.getD_some] at hp
      refine ⟨_, rfl, rfl, ?_⟩
      intro ks hk a b ha hb
      have e := keyOrder_is_sortP fds hd raw fs hp ks hk
      subst e
      have hne : sortP fs ≠ [] := by
        intro e
        have := ((sortP_perm fs).trans hp)
        rw [e] at this
        exact h this.nil_eq.symm
      exact eval_chainOf_eq_lex lt hirr (sortP fs) hne a b ha hb

/-- the same from the struct definition (field list with raw tag strings) -/
theorem eval_generate_eq_lex (lt : V → V → Bool) (hirr : ∀ v, lt v v = false)
    (fields : List Field) (fds : List SFD) (hf : allSFDs fields = .ok fds) (hd : Distinct fds) :
    ∃ ss, generate fields = .ok ss ∧ ∀ raw,
      (taggedFor fds raw = [] → findSorter raw ss = none) ∧
      (taggedFor fds raw ≠ [] → ∃ s, findSorter raw ss = some s ∧ s.raw = raw ∧
        ∀ ks, IsKeyOrder fds raw ks → ∀ a b : Rec V, WellTyped ks a → WellTyped ks b →
          s.less.eval lt a b = lex lt ks a b) := by
  unfold generate
  rw [generateWith_of_sfds retOf fields fds hf]
  exact eval_genChain_eq_lex lt hirr fds hd

/-- a malformed tag is reported, whatever else the struct holds -/
theorem tag_error_reported (ret : Bool → String → RetExpr) (fields : List Field) (e : GenErr)
    (hf : allSFDs fields = .error e) : generateWith ret fields = .error e := by
  simp [generateWith, hf, bind, Except.bind]

theorem lookupD_mem (d : Descs) (k : String) (fs : List SFD) (h : lookupD k d = some fs) :
    (k, fs) ∈ d := by
  induction d with
  | nil => cases h
  | cons e rest ih =>
    obtain ⟨k', fs'⟩ := e
    simp only [lookupD] at h
    by_cases hk : k' = k
    · rw [if_pos hk] at h; cases h; subst hk; exact List.mem_cons_self
    · rw [if_neg hk] at h; exact List.mem_cons_of_mem _ (ih h)

theorem validateAll_dup (d : Descs) (hne : ∀ e ∈ d, e.2 ≠ [])
    (hdup : ∃ e ∈ d, ¬ (e.2.map (·.priority)).Nodup) : validateAll d = .error .dupPriority := by
  induction d with
  | nil => obtain ⟨e, he, _⟩ := hdup; cases he
  | cons e rest ih =>
    obtain ⟨k, fs⟩ := e
    simp only [validateAll]
    by_cases hn : (fs.map (·.priority)).Nodup
    · have hv : validate fs = .ok () := (validate_ok_iff fs).2 ⟨hne (k, fs) List.mem_cons_self, hn⟩
      rw [hv]
      simp only [bind, Except.bind]
      apply ih (fun e he => hne e (List.mem_cons_of_mem _ he))
      obtain ⟨e, he, hd⟩ := hdup
      rcases List.mem_cons.1 he with rfl | he
      · exact absurd hn hd
      · exact ⟨e, he, hd⟩
    · rw [validate_dup fs (hne (k, fs) List.mem_cons_self) hn]; rfl

/-- two fields of one sorter with the same priority: the generator refuses (for every rendering
of the template) -/
theorem dup_priority_rejected (ret : Bool → String → RetExpr) (fds : List SFD)
    (hdup : ¬ Distinct fds) : generateFromSFDs ret fds = .error .dupPriority := by
  have : ∃ r, ¬ ((taggedFor fds r).map (·.priority)).Nodup := Classical.not_forall.1 hdup
  obtain ⟨r, hr⟩ := this
  have hv : validateAll (groupAll fds) = .error .dupPriority := by
    apply validateAll_dup
    · rintro ⟨k, fs⟩ hm e
      obtain ⟨hp, hne⟩ := group_entry fds k fs hm
      simp only at e; subst e; exact hne hp.nil_eq.symm
    · have hne : taggedFor fds r ≠ [] := by intro e; rw [e] at hr; exact hr List.nodup_nil
      cases hl : lookupD r (groupAll fds) with
      | none => exact absurd ((group_none_iff fds r).1 hl) hne
      | some fs =>
        have hp := group_perm fds r
        rw [hl] at hp
        simp only [Option.getD_some] at hp
        refine ⟨(r, fs), lookupD_mem _ _ _ hl, ?_⟩
        intro hn; exact hr (((hp.map (·.priority)).nodup_iff).1 hn)
  simp [generateFromSFDs, hv, bind, Except.bind]

/-! ### consequences for the generated `Less`: a strict weak order -/

/-- a strict weak order on the elements satisfying `P` -/
structure StrictWeakOrderOn {α : Type} (P : α → Prop) (less : α → α → Bool) : Prop where
  irrefl : ∀ a, P a → less a a = false
  asymm : ∀ a b, P a → P b → less a b = true → less b a = false
  trans : ∀ a b c, P a → P b → P c → less a b = true → less b c = true → less a c = true
  incomp_trans : ∀ a b c, P a → P b → P c →
    (less a b = false ∧ less b a = false) → (less b c = false ∧ less c b = false) →
    (less a c = false ∧ less c a = false)

theorem lex_strictWeakOrder (lt : V → V → Bool) (ho : StrictTotal lt) (ks : List Key) :
    StrictWeakOrderOn (WellTyped (V := V) ks) (lex lt ks) where
  irrefl := fun a _ => lex_irrefl lt ks a
  asymm := fun a b _ _ h => lex_asymm lt ho ks a b h
  trans := fun a b c _ _ _ h1 h2 => lex_trans lt ho ks a b c h1 h2
  incomp_trans := fun a b c ha hb hc h1 h2 => lex_incomp_trans lt ho ks a b c ha hb hc h1 h2

/-- **C08, "it is therefore irreflexive, asymmetric and transitive with transitive
equivalence".**  The `Less` of every generated sorter is a strict weak order on the values of the
struct type — value and pointer form alike (the element form does not enter `Less`). -/
theorem generated_less_strictWeakOrder (lt : V → V → Bool) (ho : StrictTotal lt)
    (fields : List Field) (fds : List SFD) (hf : allSFDs fields = .ok fds) (hd : Distinct fds)
    (ss : List Sorter) (hg : generate fields = .ok ss) (s : Sorter) (hs : findSorter s.raw ss = some s) :
    ∃ ks, IsKeyOrder fds s.raw ks ∧
      StrictWeakOrderOn (WellTyped (V := V) ks) (fun a b => s.less.eval lt a b) := by
  obtain ⟨ss', hg', hall⟩ := eval_generate_eq_lex lt ho.irrefl fields fds hf hd
  rw [hg] at hg'; cases hg'
  obtain ⟨h0, h1⟩ := hall s.raw
  have hne : taggedFor fds s.raw ≠ [] := by
    intro e; rw [h0 e] at hs; cases hs
  obtain ⟨s', hs', _, heq⟩ := h1 hne
  rw [hs] at hs'; cases hs'
  obtain ⟨ks, hk⟩ := isKeyOrder_exists fds hd s.raw
  refine ⟨ks, hk, ?_⟩
  have e := heq ks hk
  have sw := lex_strictWeakOrder lt ho ks
  exact {
    irrefl := fun a ha => by rw [e a a ha ha]; exact sw.irrefl a ha
    asymm := fun a b ha hb h => by rw [e a b ha hb] at h; rw [e b a hb ha]; exact sw.asymm a b ha hb h
    trans := fun a b c ha hb hc h1 h2 => by
      rw [e a b ha hb] at h1; rw [e b c hb hc] at h2; rw [e a c ha hc]
      exact sw.trans a b c ha hb hc h1 h2
    incomp_trans := fun a b c ha hb hc h1 h2 => by
      rw [e a b ha hb, e b a hb ha] at h1; rw [e b c hb hc, e c b hc hb] at h2
      rw [e a c ha hc, e c a hc ha]
      exact sw.incomp_trans a b c ha hb hc h1 h2 }

/-! ### sorting with a strict weak order

`sort.Sort` / `sort.Stable` are not modelled (their contract is trusted and observed by the
correspondence run).  What is proved: the order the generated `Less` induces satisfies exactly
what a comparison sort needs (`!Less(b, a)` is total and transitive), so that a stable merge sort
driven by it — the reference the correspondence compares `sort.Stable` with — returns an
ascending permutation of the input that keeps ties in input order. -/

/-- slice elements of the struct type -/
abbrev Elem (V : Type) [DecidableEq V] (ks : List Key) := { a : Rec V // WellTyped ks a }

def lessE (lt : V → V → Bool) (ks : List Key) (x y : Elem V ks) : Bool := lex lt ks x.1 y.1

theorem sort_ascending_stable_perm (lt : V → V → Bool) (ho : StrictTotal lt) (ks : List Key)
    (l : List (Elem V ks)) :
    (stableSort (lessE lt ks) l).Perm l ∧
    (stableSort (lessE lt ks) l).Pairwise (fun x y => lessE lt ks y x = false) ∧
    (∀ x y, [x, y].Sublist l → lessE lt ks y x = false →
      [x, y].Sublist (stableSort (lessE lt ks) l)) := by
  have htr : ∀ a b c : Elem V ks, (!lessE lt ks b a) = true → (!lessE lt ks c b) = true →
      (!lessE lt ks c a) = true := by
    intro a b c h1 h2
    simp only [Bool.not_eq_true', lessE] at h1 h2 ⊢
    exact lex_neg_trans lt ho ks a.1 b.1 c.1 b.2 c.2 h1 h2
  have htot : ∀ a b : Elem V ks, (!lessE lt ks b a || !lessE lt ks a b) = true := by
    intro a b
    cases h : lessE lt ks b a
    · rfl
    · have := lex_asymm lt ho ks b.1 a.1 h
      simp only [lessE] at h ⊢
      simp [this]
  refine ⟨List.mergeSort_perm _ _, ?_, ?_⟩
  · have := List.pairwise_mergeSort (le := fun x y => !lessE lt ks y x) htr htot l
    exact this.imp (by intro a b h; simpa using h)
  · intro x y hsub hxy
    exact List.pair_sublist_mergeSort (le := fun x y => !lessE lt ks y x) htr htot
      (by simpa using hxy) hsub

/-! ### Go's insertion sort (`sort.Sort` for `Len <= 12`, `sort.Stable` for `Len <= 20`)

Generic in the element type; needs only asymmetry and negative transitivity of `less` for
sortedness, nothing at all for stability and for being a permutation. -/

section insertion
variable {α : Type}

theorem bubble_perm (less : α → α → Bool) (acc : List α) (x : α) : (bubble less acc x).Perm (x :: acc) := by
  induction acc with
  | nil => exact List.Perm.refl _
  | cons p ps ih =>
    simp only [bubble]
    split
    · exact (ih.cons p).trans (List.Perm.swap x p ps)
    · exact List.Perm.refl _

theorem foldl_bubble_perm (less : α → α → Bool) (l acc : List α) :
    (l.foldl (bubble less) acc).Perm (l ++ acc) := by
  induction l generalizing acc with
  | nil => exact List.Perm.refl _
  | cons a l ih =>
    rw [List.foldl_cons]
    refine (ih _).trans ?_
    refine ((bubble_perm less acc a).append_left l).trans ?_
    simp

theorem goInsertionSort_perm (less : α → α → Bool) (l : List α) : (goInsertionSort less l).Perm l := by
  unfold goInsertionSort
  refine (List.reverse_perm _).trans ?_
  simpa using foldl_bubble_perm less l []

/-- descending = the reversed sorted prefix -/
def Desc (less : α → α → Bool) (acc : List α) : Prop := acc.Pairwise (fun p q => less p q = false)

theorem bubble_desc (less : α → α → Bool)
    (hasym : ∀ a b, less a b = true → less b a = false)
    (hnt : ∀ a b c, less b a = false → less c b = false → less c a = false)
    (acc : List α) (x : α) (h : Desc less acc) : Desc less (bubble less acc x) := by
  induction acc with
  | nil => simp [bubble, Desc]
  | cons p ps ih =>
    unfold Desc at h ih ⊢
    rw [List.pairwise_cons] at h
    simp only [bubble]
    cases hl : less x p
    · simp only [Bool.false_eq_true, if_false]
      rw [List.pairwise_cons]
      refine ⟨?_, List.pairwise_cons.2 h⟩
      intro q hq
      rcases List.mem_cons.1 hq with rfl | hq
      · exact hl
      · exact hnt q p x (h.1 q hq) hl
    · simp only [if_true]
      rw [List.pairwise_cons]
      refine ⟨?_, ih h.2⟩
      intro q hq
      have := (bubble_perm less ps x).mem_iff.1 hq
      rcases List.mem_cons.1 this with rfl | hq
      · exact hasym _ _ hl
      · exact h.1 q hq

theorem foldl_bubble_desc (less : α → α → Bool)
    (hasym : ∀ a b, less a b = true → less b a = false)
    (hnt : ∀ a b c, less b a = false → less c b = false → less c a = false)
    (l acc : List α) (h : Desc less acc) : Desc less (l.foldl (bubble less) acc) := by
  induction l generalizing acc with
  | nil => exact h
  | cons a l ih => rw [List.foldl_cons]; exact ih _ (bubble_desc less hasym hnt acc a h)

theorem goInsertionSort_sorted (less : α → α → Bool)
    (hasym : ∀ a b, less a b = true → less b a = false)
    (hnt : ∀ a b c, less b a = false → less c b = false → less c a = false) (l : List α) :
    (goInsertionSort less l).Pairwise (fun x y => less y x = false) := by
  unfold goInsertionSort
  rw [List.pairwise_reverse]
  exact foldl_bubble_desc less hasym hnt l [] List.Pairwise.nil

theorem sublist_bubble (less : α → α → Bool) (acc : List α) (x : α) : acc.Sublist (bubble less acc x) := by
  induction acc with
  | nil => exact List.nil_sublist _
  | cons p ps ih =>
    simp only [bubble]
    split
    · exact ih.cons_cons p
    · exact List.sublist_cons_self _ _

theorem sublist_foldl_bubble (less : α → α → Bool) (l acc : List α) :
    acc.Sublist (l.foldl (bubble less) acc) := by
  induction l generalizing acc with
  | nil => exact List.Sublist.refl _
  | cons a l ih => rw [List.foldl_cons]; exact (sublist_bubble less acc a).trans (ih _)

theorem pair_sublist_bubble (less : α → α → Bool) (acc : List α) (x y : α) (hx : x ∈ acc)
    (hxy : less y x = false) : [y, x].Sublist (bubble less acc y) := by
  induction acc with
  | nil => cases hx
  | cons p ps ih =>
    simp only [bubble]
    cases hl : less y p
    · simp only [Bool.false_eq_true, if_false]
      exact (List.singleton_sublist.2 hx).cons_cons y
    · simp only [if_true]
      rcases List.mem_cons.1 hx with rfl | hx
      · rw [hl] at hxy; cases hxy
      · exact (ih hx).cons p

theorem pair_sublist_foldl (less : α → α → Bool) (l acc : List α) (x y : α) (hx : x ∈ acc) (hy : y ∈ l)
    (hxy : less y x = false) : [y, x].Sublist (l.foldl (bubble less) acc) := by
  induction l generalizing acc with
  | nil => cases hy
  | cons b l ih =>
    rw [List.foldl_cons]
    rcases List.mem_cons.1 hy with rfl | hy
    · exact (pair_sublist_bubble less acc x y hx hxy).trans (sublist_foldl_bubble less l _)
    · exact ih _ ((bubble_perm less acc b).mem_iff.2 (List.mem_cons_of_mem _ hx)) hy

theorem pair_sublist_foldl' (less : α → α → Bool) (l acc : List α) (x y : α) (hs : [x, y].Sublist l)
    (hxy : less y x = false) : [y, x].Sublist (l.foldl (bubble less) acc) := by
  induction l generalizing acc with
  | nil => cases hs
  | cons a l ih =>
    rw [List.foldl_cons]
    cases hs with
    | cons _ h => exact ih _ h
    | cons_cons _ h =>
      exact pair_sublist_foldl less l _ x y ((bubble_perm less acc x).mem_iff.2 List.mem_cons_self)
        (List.singleton_sublist.1 h) hxy

theorem goInsertionSort_stable (less : α → α → Bool) (l : List α) (x y : α) (hs : [x, y].Sublist l)
    (hxy : less y x = false) : [x, y].Sublist (goInsertionSort less l) := by
  unfold goInsertionSort
  have := (pair_sublist_foldl' less l [] x y hs hxy).reverse
  simpa using this

/-- `Len`/`Swap` of the generated type: `Swap(i, j)` exchanges exactly positions `i` and `j` -/
theorem swap_spec (s s' : List α) (i j : Nat) (h : swap s i j = some s') :
    s'.length = s.length ∧ ∀ k, s'[k]? = if k = j then s[i]? else if k = i then s[j]? else s[k]? := by
  unfold swap at h
  cases hi : s[i]? with
  | none => simp [hi] at h
  | some x =>
    cases hj : s[j]? with
    | none => simp [hi, hj] at h
    | some y =>
      simp [hi, hj] at h
      subst h
      refine ⟨by simp, ?_⟩
      intro k
      have hjl : j < s.length := by
        cases Nat.lt_or_ge j s.length with
        | inl h => exact h
        | inr h => rw [List.getElem?_eq_none h] at hj; cases hj
      have hil : i < s.length := by
        cases Nat.lt_or_ge i s.length with
        | inl h => exact h
        | inr h => rw [List.getElem?_eq_none h] at hi; cases hi
      by_cases hkj : k = j
      · subst hkj; simp [hjl]
      · by_cases hki : k = i
        · subst hki
          have : ¬ j = k := fun e => hkj e.symm
          simp [hkj, this, hil]
        · have h1 : ¬ j = k := fun e => hkj e.symm
          have h2 : ¬ i = k := fun e => hki e.symm
          simp [hkj, hki, h1, h2]

end insertion

/-- **C08, "so sort.Sort yields an ascending permutation and sort.Stable keeps ties in input
order"** — proved for the slice sizes at which Go's `sort.Sort` (`Len <= 12`) and `sort.Stable`
(`Len <= 20`) are the insertion sort modelled by `goInsertionSort`; for longer slices the
contract of package `sort` is trusted (and observed by the correspondence run). -/
theorem go_insertionSort_with_generated_less (lt : V → V → Bool) (ho : StrictTotal lt) (ks : List Key)
    (l : List (Elem V ks)) :
    (goInsertionSort (lessE lt ks) l).Perm l ∧
    (goInsertionSort (lessE lt ks) l).Pairwise (fun x y => lessE lt ks y x = false) ∧
    (∀ x y, [x, y].Sublist l → lessE lt ks y x = false →
      [x, y].Sublist (goInsertionSort (lessE lt ks) l)) := by
  refine ⟨goInsertionSort_perm _ l, ?_, fun x y hs hxy => goInsertionSort_stable _ l x y hs hxy⟩
  apply goInsertionSort_sorted
  · intro a b h; exact lex_asymm lt ho ks a.1 b.1 h
  · intro a b c h1 h2; exact lex_neg_trans lt ho ks a.1 b.1 c.1 b.2 c.2 h1 h2

/-! ### the pinned commit: where the statement fails, and where it does not -/

theorem retOfLegacy_eval_ne (lt : V → V → Bool) (k : Key) (a b : Rec V)
    (ha : (a k.accessor).isFlag = k.isBool) (hb : (b k.accessor).isFlag = k.isBool)
    (hne : a k.accessor ≠ b k.accessor) :
    (retOfLegacy k.isBool k.accessor).eval lt a b = Val.less lt (a k.accessor) (b k.accessor) := by
  cases hk : k.isBool <;> rw [hk] at ha hb
  · cases hx : a k.accessor <;> cases hy : b k.accessor <;>
      simp_all [retOfLegacy, RetExpr.eval, Val.goLt, Val.less, Val.isFlag]
  · cases hx : a k.accessor <;> cases hy : b k.accessor <;>
      simp_all [retOfLegacy, RetExpr.eval, Val.truth, Val.less, Val.isFlag]
    rename_i p q; cases p <;> cases q <;> simp_all

/-- last key of a non-empty descriptor list -/
def lastIsBool : List SFD → Bool
  | [] => false
  | [f] => f.isBool
  | _ :: g :: rest => lastIsBool (g :: rest)

/-- The pinned commit's rendering is right whenever the lowest-priority key is not a bool (a bool
in any other position is handled correctly by the `==` guard in front of it). -/
theorem legacy_eval_chainOf_eq_lex_partial (lt : V → V → Bool) (hirr : ∀ v, lt v v = false) :
    ∀ (l : List SFD), l ≠ [] → lastIsBool l = false → ∀ (a b : Rec V),
      WellTyped (l.map keyOf) a → WellTyped (l.map keyOf) b →
      (priorityBlockLegacy (chainOf l)).eval lt a b = lex lt (l.map keyOf) a b
  | [], h, _, _, _, _, _ => absurd rfl h
  | [f], _, hl, a, b, ha, hb => by
    have hf : f.isBool = false := hl
    have e : priorityBlockLegacy (chainOf [f]) = priorityBlock (chainOf [f]) := by
      simp [priorityBlockLegacy, priorityBlock, chainOf, blockWith, retOf, retOfLegacy, hf]
    rw [e]; exact eval_chainOf_eq_lex lt hirr [f] (by simp) a b ha hb
  | f :: g :: rest, _, hl, a, b, ha, hb => by
    have ha' := (wellTyped_cons (keyOf f) ((g :: rest).map keyOf) a).1 ha
    have hb' := (wellTyped_cons (keyOf f) ((g :: rest).map keyOf) b).1 hb
    have ih := legacy_eval_chainOf_eq_lex_partial lt hirr (g :: rest) (by simp) hl a b ha'.2 hb'.2
    show (Cmp.ifEq (keyOf f).accessor (priorityBlockLegacy (chainOf (g :: rest)))
        (retOfLegacy (keyOf f).isBool (keyOf f).accessor)).eval lt a b
      = lex lt (keyOf f :: (g :: rest).map keyOf) a b
    rw [eval_ifEq, lex_cons, ih]
    by_cases e : a (keyOf f).accessor = b (keyOf f).accessor
    · rw [if_pos e, if_pos e]
    · rw [if_neg e, if_neg e]; exact retOfLegacy_eval_ne lt (keyOf f) a b ha'.1 hb'.1 e

/-- With a bool as lowest-priority key the pinned commit's `Less(i, i)` returns that bool. -/
theorem legacy_less_self_of_bool_last (lt : V → V → Bool) :
    ∀ (l : List SFD), l ≠ [] → lastIsBool l = true → ∀ (a : Rec V),
      ∃ f ∈ l, (priorityBlockLegacy (chainOf l)).eval lt a a = (a (accessorOf f)).truth
  | [], h, _, _ => absurd rfl h
  | [f], _, hl, a => by
    have hf : f.isBool = true := hl
    refine ⟨f, by simp, ?_⟩
    simp [priorityBlockLegacy, chainOf, blockWith, retOfLegacy, hf, Cmp.eval, RetExpr.eval]
  | f :: g :: rest, _, hl, a => by
    obtain ⟨x, hx, h⟩ := legacy_less_self_of_bool_last lt (g :: rest) (by simp) hl a
    refine ⟨x, List.mem_cons_of_mem _ hx, ?_⟩
    show (Cmp.ifEq (keyOf f).accessor (priorityBlockLegacy (chainOf (g :: rest)))
        (retOfLegacy (keyOf f).isBool (keyOf f).accessor)).eval lt a a = _
    rw [eval_ifEq, if_pos rfl]; exact h

/-- **Witness on the pinned commit** (replayed on the real code by `corpus/C08`): struct
`{ Flag bool \`gsort:"Flags,1"\` }`, element `{Flag: true}`: the generated `Less(i, i)` is
`true`, while lexicographic comparison says `false` — `Less` is not irreflexive. -/
theorem legacy_bool_last_violates :
    ∃ s, generateLegacy [⟨"Flag", true, ["Flags,1"]⟩] = .ok [s] ∧
      s.less = .ret (.selJ "Flag") ∧
      s.less.eval Nat.blt (fun _ => Val.flag true) (fun _ => Val.flag true) = true ∧
      lex Nat.blt [⟨"Flag", true⟩] (fun _ => (Val.flag true : Val Nat)) (fun _ => Val.flag true) = false := by
  refine ⟨⟨"Flags", .ret (.selJ "Flag")⟩, ?_, rfl, rfl, rfl⟩
  have hf : allSFDs [⟨"Flag", true, ["Flags,1"]⟩] = .ok [⟨"Flag", true, "", "Flags", 1⟩] := rfl
  unfold generateLegacy
  rw [generateWith_of_sfds _ _ _ hf]
  simp [generateFromSFDs, groupAll, addFD, sortP, validateAll, validate, priorityTree, chainOf,
    blockWith, retOfLegacy, accessorOf, bind, Except.bind, pure, Except.pure]

/-! ### non-vacuity: the hypotheses of the main theorem are satisfiable, with a bool as last key,
an accessor key, two sorters and a pointer form -/

example :
    let fields : List Field :=
      [⟨"Name", false, ["ByKind,2", "*ByName,1"]⟩, ⟨"Kind", false, ["ByKind,1,String()"]⟩,
       ⟨"Done", true, ["ByKind,3"]⟩]
    ∃ fds ss s, allSFDs fields = .ok fds ∧ Distinct fds ∧ generate fields = .ok ss ∧
      findSorter "ByKind" ss = some s ∧
      s.less = .ifEq "Kind.String()" (.ifEq "Name" (.ret (.notIAndJ "Done")) (.lt "Name")) (.lt "Kind.String()") ∧
      IsKeyOrder fds "ByKind" [⟨"Kind.String()", false⟩, ⟨"Name", false⟩, ⟨"Done", true⟩] ∧
      WellTyped [⟨"Kind.String()", false⟩, ⟨"Name", false⟩, ⟨"Done", true⟩]
        (fun acc => if acc = "Done" then Val.flag true else (Val.ord 0 : Val Nat)) := by
  intro fields
  have hf : allSFDs fields = .ok
      [⟨"Name", false, "", "ByKind", 2⟩, ⟨"Name", false, "", "*ByName", 1⟩,
       ⟨"Kind", false, "String()", "ByKind", 1⟩, ⟨"Done", true, "", "ByKind", 3⟩] := rfl
  have hd : Distinct [⟨"Name", false, "", "ByKind", 2⟩, ⟨"Name", false, "", "*ByName", 1⟩,
       ⟨"Kind", false, "String()", "ByKind", 1⟩, ⟨"Done", true, "", "ByKind", 3⟩] := by
    intro r
    simp only [taggedFor, List.filter_cons, List.filter_nil]
    by_cases h1 : "ByKind" = r
    · subst h1; simp
    · by_cases h2 : "*ByName" = r
      · subst h2; simp
      · simp [h1, h2]
  refine ⟨_, (groupAll [⟨"Name", false, "", "ByKind", 2⟩, ⟨"Name", false, "", "*ByName", 1⟩,
       ⟨"Kind", false, "String()", "ByKind", 1⟩, ⟨"Done", true, "", "ByKind", 3⟩]).map
      (fun e => (⟨e.1, blockWith retOf (priorityTree e.2)⟩ : Sorter)),
    ⟨"ByKind", .ifEq "Kind.String()" (.ifEq "Name" (.ret (.notIAndJ "Done")) (.lt "Name"))
    (.lt "Kind.String()")⟩, hf, hd, ?_, ?_, rfl, ?_, ?_⟩
  · unfold generate
    rw [generateWith_of_sfds _ _ _ hf, generateFromSFDs_ok _ _ hd]
  · simp [groupAll, addFD, findSorter, sortP, List.mergeSort, priorityTree, chainOf, blockWith, retOf,
      accessorOf]
  · refine ⟨[⟨"Kind", false, "String()", "ByKind", 1⟩, ⟨"Name", false, "", "ByKind", 2⟩,
      ⟨"Done", true, "", "ByKind", 3⟩], ?_, ?_, ?_⟩
    · simp [taggedFor]
      exact List.Perm.swap _ _ _
    · simp
    · simp [keyOf, accessorOf]
  · intro k hk
    simp at hk
    rcases hk with rfl | rfl | rfl <;> simp [Val.isFlag]

end GSort

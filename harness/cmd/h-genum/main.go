// h-genum: correspondence runner for /repo/genum (properties C04, C05, C12).
//
// Tie B over generated programs (DESIGN.md section 6, C04): definition files are written from the
// property's quantifier, the real genum CLI (built from /repo's current tree) is run on each as
// `go:generate` would, 20-40 files are compiled together with a generated probe `main`, and the
// probe's answers (Values, IsValid, String, StringValues, Parse*) are compared with the Lean
// model of "what the generated code computes for this definition".
package main

import (
	"encoding/json"
	"flag"
	"fmt"
	"os"
	"path/filepath"
	"sort"
	"strings"

	"verif/harness/internal/hx"
)

func harnessDirDefault() string {
	if wd, err := os.Getwd(); err == nil {
		if _, err := os.Stat(filepath.Join(wd, "go.work")); err == nil {
			return wd
		}
	}
	if exe, err := os.Executable(); err == nil {
		d := filepath.Join(filepath.Dir(exe), "..", "harness")
		if _, err := os.Stat(filepath.Join(d, "go.work")); err == nil {
			return d
		}
	}
	return "."
}

func main() {
	hdir := flag.String("harness-dir", "", "directory holding the harness go.work (default: cwd or <exe>/../harness)")
	f := hx.ParseFlags()
	if *hdir == "" {
		*hdir = harnessDirDefault()
	}
	var run func(*hx.Flags, *world) int
	switch f.Prop {
	case "C04":
		run = runC04
	case "C05":
		run = runC05
	case "C12":
		run = runC12
	default:
		fmt.Fprintln(os.Stderr, "h-genum: unknown property", f.Prop)
		os.Exit(2)
	}
	w, err := newWorld(*hdir)
	if err != nil {
		fmt.Fprintln(os.Stderr, err)
		os.Exit(3)
	}
	defer w.close()
	code := run(f, w)
	w.close()
	os.Exit(code)
}

const ruleC04 = "enum definition files from the quantifier (1-4 types per file over all ten integer kinds, 1-40 constants per type in 1-4 const blocks interleaved with the other types, iota runs / explicit values / negatives / gaps / type extremes, duplicate groups of 2-5 names with every deprecation pattern); one case = one type of one file: Values, StringValues, IsValid and String on every value of an 8-bit kind (exhaustive) resp. boundary + defined±1 + random values, Parse<T>/ParseString/ParseGeneric on every constant name, case variants and near-miss strings. non-trivial = the type has a duplicated value, more than 15 constants (binary-search branch) or a negative constant; distinct by request lines"

// defOfCase rebuilds the definition from the request lines of a case.
func defOfCase(lines []string) *Def {
	d := &Def{Opts: "-"}
	for _, l := range lines {
		ws := strings.Fields(l)
		if len(ws) >= 2 && ws[0] == "gn" {
			switch ws[1] {
			case "opt", "type", "const", "block", "skip", "other", "parsable", "col", "pre":
				d.addLine(ws)
			}
		}
	}
	return d
}

// dupPatterns: for every duplicated value of type t, the deprecation pattern of its names in
// alphabetical order (d = deprecated, L = live).
func dupPatterns(d *Def, t string) []string {
	groups := map[string][]Item{}
	for _, it := range d.constsOf(t) {
		groups[it.Val.String()] = append(groups[it.Val.String()], it)
	}
	var pats []string
	for _, g := range groups {
		if len(g) < 2 {
			continue
		}
		sort.Slice(g, func(i, j int) bool { return g[i].Name < g[j].Name })
		p := ""
		for _, it := range g {
			if it.Dep {
				p += "d"
			} else {
				p += "L"
			}
		}
		pats = append(pats, p)
	}
	sort.Strings(pats)
	return pats
}

// keyOfC04: canonical class of a failing input.
func keyOfC04(d *hx.Disagreement) string {
	ws := strings.Fields(d.Request)
	if len(ws) < 2 {
		return "C04:protocol"
	}
	op := ws[1]
	if op == "gen" {
		return "C04:gen:" + d.Impl
	}
	key := "C04:" + op
	if (op == "str" || op == "strvals") && len(ws) >= 3 {
		lines := d.Case.Lines
		if len(d.Shrunk) > 0 {
			lines = d.Shrunk
		}
		for _, p := range dupPatterns(defOfCase(lines), ws[2]) {
			if strings.HasPrefix(p, "d") && strings.Count(p, "L") >= 2 {
				return key + ":deprecated-first-dup"
			}
		}
	}
	return key
}

func runC04(f *hx.Flags, w *world) int {
	m := &impl{w: w}
	r := hx.NewRunner(f, "h-genum", m, ruleC04)
	r.KeyOf = keyOfC04
	r.ShrinkBudget, r.ShrinkMax = 14, 3
	// a shrunk definition that the harness itself cannot write/compile is not a smaller failing input
	r.ShrinkReject = func(req, im, mo string) bool {
		return strings.HasPrefix(req, "gn gen") || im == "no-gen" || im == "no-type" || im == "bad-op" || im == "probe-dead"
	}
	if r.HandleReplay() {
		return 0
	}
	prepareCorpus(w, f.Corpus)
	r.RunCorpus()
	g := &gen{r: r, w: w, rng: r.Rng, thorough: f.Tier == "thorough"}
	nBatches, batch := 2, 22
	if g.thorough {
		nBatches, batch = 38, 40
	}
	// first batch: the systematic small definitions (every kind, every duplicate pattern)
	g.emit(g.systematic(), true)
	for b := 0; b < r.N(nBatches); b++ {
		var defs []*Def
		for i := 0; i < batch; i++ {
			defs = append(defs, g.randomDef())
		}
		g.emit(defs, true)
	}
	g.outOfDomain()
	r.Res.Exhaustive = true
	r.Res.Notes["exhaustive"] = "IsValid and String are compared on ALL 256 values of every 8-bit enum type; other kinds on boundary, defined, defined±1 and random values"
	r.Res.Extra["definition_files"] = g.nDefs
	r.Res.Extra["enum_types"] = g.nTypes
	r.Res.Extra["generator_runs"] = w.genRuns
	r.Res.Extra["go_builds"] = w.goBuilds
	r.Res.Extra["parse_queries"] = g.nParse
	r.Res.Extra["value_queries"] = g.nValueQ
	r.Finish()
	return 0
}

const ruleC05 = "enum definition files as in C04, with and without parsable trait columns (untyped/named string, signed and unsigned integers of 8-64 bits, time.Duration) and duplicated values, generated under the option combinations of -json/-text/-caseInsensitive/-parsableByTraits that include the codec under test (-yaml stays on: without it the generated file lacks IsEnum, see C13); shaped files in every batch: under EACH of the 8 option sets a type with parsable untyped/named string traits, values declared without trait columns and an empty-string constant; an enum whose value names are YAML/JSON-significant identifiers (Null null NULL True False Yes No On Off Y N ...); a parsable trait whose TYPE brings unmarshalers of its own - another enum generated by an earlier invocation under every subset of -json/-yaml/-text (UnmarshalJSON only, UnmarshalYAML only, UnmarshalText only, any pair, all, none) or a hand-written integer type with exactly one of the three - as the only parsable member of its integer block (alone, next to a string trait, next to an unparsable integer trait, next to an integer trait of the other signedness) and next to another parsable integer trait of the same block, the outer enum under every codec subset incl. -yaml=false, with the inner type's names, aliases, numerals and near misses as documents through every decoder the outer enum has. one case = one type x one codec: the encoding of every defined value read back as a plain string, decode(encode v) standalone and as a struct field into a target holding another value, and decoding of scalar documents: the empty string, case variants of string trait constants, names, near-miss names, empty string, random words, numbers (defined values, trait constants +-1 and +-2^8/2^16, 64-bit boundaries), non-integer scalars, constants of parsable and of non-parsable traits. non-trivial = the type has a parsable trait or a duplicated value; distinct by request lines"

const ruleC12 = "enum definition files with 1-5 trait columns per type (untyped and named string, untyped int, named int8, int16, time.Duration through a renamed import, uint8, uint64, named uint16, bool, rune), exported and _-prefixed trait names, own per-line trait constant names, random parsable subsets with pairwise distinct constants, duplicated values (deprecated alias with / without trait columns, second live name); shaped files in every batch: all 16 deprecation patterns of 3-4 names of one value whose lines carry DIFFERENT trait constants, several parsable traits of distinct named types sharing an underlying type (string, int8, uint16 families), values without trait columns, trait types with unmarshalers of their own (an enum generated earlier under a subset of -json/-yaml/-text, a hand-written integer type with one unmarshaler; per codec the rendered constant is the inner NAME where the type has that codec's unmarshaler and the NUMERAL where it has not); per type: every accessor on all 256 values of 8-bit kinds (boundary, defined, defined+-1, random otherwise), Parse<T> of every typed trait constant and its successor, and per parsable column the decoding of a JSON/YAML (text for string kinds) scalar holding each constant of a primary definition, compared with what the property demands (the owning value). every case is non-trivial; distinct by request lines"

func keyOfGeneric(prop string) func(d *hx.Disagreement) string {
	return func(d *hx.Disagreement) string {
		if d.Case.Key != "" {
			return d.Case.Key
		}
		ws := strings.Fields(d.Request)
		if len(ws) < 2 {
			return prop + ":protocol"
		}
		op := ws[1]
		switch op {
		case "gen":
			return prop + ":gen:" + d.Impl
		case "dec", "sdec", "rt", "marshal":
			key := prop + ":" + op
			if len(ws) >= 4 {
				key += ":" + ws[3]
			}
			if op == "dec" && len(ws) >= 5 {
				key += ":" + map[byte]string{'s': "string", 'n': "number", 'o': "other"}[ws[4][0]]
			}
			return key
		}
		return prop + ":" + op
	}
}

func traitRunner(f *hx.Flags, w *world, rule string) (*hx.Runner, *gen) {
	m := &impl{w: w}
	r := hx.NewRunner(f, "h-genum", m, rule)
	r.KeyOf = keyOfGeneric(f.Prop)
	// known findings are reported from the unshrunk case: shrinking them costs a generator run and
	// a go build per step, on every run
	r.LoadKnownKeys(filepath.Join(w.harnessDir, "..", "known_findings.json"))
	r.ShrinkBudget, r.ShrinkMax = 6, 2
	r.ShrinkReject = func(req, im, mo string) bool {
		return strings.HasPrefix(req, "gn gen") || im == "no-gen" || im == "no-type" || im == "bad-op" || im == "probe-dead" || im == "no-trait" || im == "not-parsable"
	}
	g := &gen{r: r, w: w, rng: r.Rng, thorough: f.Tier == "thorough"}
	return r, g
}

var numericAndString = []string{"string", "Str", "int", "Sm", "int16", "time.Duration", "uint8", "uint64", "Un"}

func runC05(f *hx.Flags, w *world) int {
	r, g := traitRunner(f, w, ruleC05)
	if r.HandleReplay() {
		return 0
	}
	prepareCorpus(w, f.Corpus)
	r.RunCorpus()
	optSets := []string{"-", "c", "J", "T", "JT", "cJ", "cT", "cJT"}
	nBatches, batch := 2, 8
	if g.thorough {
		nBatches, batch = 15, 28
	}
	stringish := []string{"string", "Str", "Str", "int", "uint8"}
	for b := 0; b < r.N(nBatches); b++ {
		var defs []*Def
		// shaped definitions, every option set in every batch: parsable string traits (untyped and
		// named) next to values declared WITHOUT trait columns and an empty-string constant, so that
		// the empty document and case variants meet every fallback of every option combination
		for k, opts := range optSets {
			defs = append(defs, g.shapedDef(traitShape{opts: opts, fixedCols: stringish[:2+(k+b)%3], allParsable: k%2 == 0,
				rowless: true, emptyStr: (k+b)%2 == 1, dups: k%3 == 2, nTypes: 1, nConsts: 3 + (k+b)%4}))
		}
		// a parsable trait whose type is another enum of the package, generated earlier (it decodes
		// itself: native block), next to integer and string traits
		defs = append(defs, g.shapedDef(traitShape{opts: optSets[(3*b+1)%len(optSets)], fixedCols: []string{"int", "Str"}, allParsable: true,
			selfCol: true, nTypes: 1, nConsts: 4 + b, rowless: b%2 == 1}))
		// trait types with unmarshalers of their own, per codec: inner enums generated under every
		// subset of -json / -yaml / -text, hand-written types with one unmarshaler, as the only member of
		// their integer block and next to another one, under the outer enum's codec subsets
		defs = append(defs, g.selfCodecDefs(b, r.N(nBatches))...)
		// one constant value in several parsable trait columns of a line: different types (every one a
		// key of its own in the Parse switch), the same type (listed once)
		defs = append(defs, g.sameValueDefs(b, optSets)...)
		// 64-bit integer traits (untyped int, uint64, the named int64 type time.Duration) with constants
		// of magnitude >= 2^53 that float64 holds exactly: the constants must decode, their neighbours
		// +-1, +-2, ... and the float spellings <c>.0 / <c>e0 must be rejected
		defs = append(defs, g.shapedDef(traitShape{opts: optSets[(5*b+2)%len(optSets)], fixedCols: []string{"int", "uint64", "time.Duration"}, allParsable: true,
			big: true, nTypes: 1, nConsts: 4 + b}))
		// value names that are YAML/JSON-significant identifiers (one such file per package)
		defs = append(defs, g.yamlNamesDef(optSets[(2*b)%len(optSets)]))
		for i := 0; i < batch; i++ {
			opts := optSets[(b*batch+i)%len(optSets)]
			switch i % 4 {
			case 0: // a plain C04 definition under this option set
				d := g.randomDef()
				d.Opts = opts
				if strings.Contains(opts, "c") {
					d = g.refold(d)
				}
				defs = append(defs, d)
			default:
				defs = append(defs, g.shapedDef(traitShape{opts: opts, maxCols: 3, dups: i%4 == 3, families: numericAndString, rowless: i%4 == 2, emptyStr: i%8 == 1, big: i%2 == 1}))
			}
		}
		g.emitC05(defs, true)
	}
	{
		// second spelling set of the significant names under -caseInsensitive
		g.emitC05([]*Def{g.yamlNamesDef("c")}, true)
	}
	// out of domain: -yaml=false (the generated file does not build on its own: C13)
	g.emitC05([]*Def{g.traitDef("Y", 2, false, numericAndString)}, false)
	r.Res.Extra["definition_files"] = g.nDefs
	r.Res.Extra["enum_types"] = g.nTypes
	r.Res.Extra["generator_runs"] = w.genRuns
	r.Res.Extra["go_builds"] = w.goBuilds
	r.Res.Extra["decode_queries"] = g.nParse
	r.Finish()
	return 0
}

func runC12(f *hx.Flags, w *world) int {
	r, g := traitRunner(f, w, ruleC12)
	if r.HandleReplay() {
		return 0
	}
	prepareCorpus(w, f.Corpus)
	r.RunCorpus()
	nBatches, batch := 2, 9
	if g.thorough {
		nBatches, batch = 15, 34
	}
	// every deprecation pattern of a duplicated value with 3-4 names; the names of a group carry
	// DIFFERENT trait constants (the generator must keep the primary line's)
	pats3 := []string{"LLL", "LLd", "LdL", "Ldd", "dLL", "dLd", "ddL", "ddd"}
	pats4 := []string{"dLLL", "dLLd", "dLdL", "ddLL", "LdLL", "dddL", "LLLL", "dddd"}
	for b := 0; b < r.N(nBatches); b++ {
		var defs []*Def
		opt := func(k int) string {
			if (k+b)%3 == 2 {
				return "c"
			}
			return "-"
		}
		// (c) duplicate groups: all patterns of length 3 in one type, of length 4 in another
		defs = append(defs,
			g.shapedDef(traitShape{opts: opt(0), fixedCols: []string{"string", "int"}, allParsable: true, dupGroups: pats3, nTypes: 1}),
			g.shapedDef(traitShape{opts: opt(1), fixedCols: []string{"Str", "Sm", "uint8"}, allParsable: b%2 == 0, dupGroups: pats4, nTypes: 1}))
		// (d) several parsable traits of DISTINCT named types sharing an underlying type
		defs = append(defs,
			g.shapedDef(traitShape{opts: opt(2), fixedCols: []string{"Str", "Str", "Sm", "Sm", "int8"}, allParsable: true, nTypes: 1, nConsts: 3 + b}),
			g.shapedDef(traitShape{opts: opt(3), fixedCols: []string{"Un", "Un", "uint16", "Str", "Str"}, allParsable: true, nTypes: 1, nConsts: 3 + b, rowless: b%2 == 1}))
		// (e) a parsable trait whose type is another enum of the package generated by an EARLIER
		// invocation (self-unmarshalling: native block), alone and next to other families
		defs = append(defs,
			g.shapedDef(traitShape{opts: opt(5), fixedCols: []string{"int", "string"}, allParsable: true, selfCol: true, nTypes: 1, nConsts: 4, dups: b%2 == 1}),
			g.shapedDef(traitShape{opts: opt(6), fixedCols: []string{"uint8"}, allParsable: b%2 == 0, selfCol: true, nTypes: 2, sharedNames: true, nConsts: 3}))
		// (e') the inner type under every subset of its own codec switches / hand-written with one
		// unmarshaler, alone in its integer block and next to another integer trait
		defs = append(defs, g.selfCodecDefs(b, r.N(nBatches))...)
		// (e'') one constant value in several parsable trait columns of a line, of different types and
		// of the same type
		defs = append(defs, g.sameValueDefs(b, []string{"-", "c", "-"})...)
		// (f) ONE invocation for several types that share their parsable trait names
		defs = append(defs, g.shapedDef(traitShape{opts: opt(7), fixedCols: []string{"int", "Str", "uint8"}, allParsable: true, nTypes: 2, sharedNames: true, nConsts: 3 + b}))
		// (g) parsable traits of different types with the same literal text on different members
		defs = append(defs, g.textCollisionDef(3*b), g.textCollisionDef(3*b+1), g.textCollisionDef(3*b+2))
		// families the template has no (bool) or a recent (untyped rune) decoder branch for, parsable:
		// two values only, so that the bool constants stay pairwise distinct
		defs = append(defs, g.shapedDef(traitShape{opts: opt(4), fixedCols: []string{"bool", "rune", "string"}, allParsable: true, nTypes: 1, nConsts: 2}))
		for i := 0; i < batch; i++ {
			opts := "-"
			if i%5 == 4 {
				opts = "c"
			}
			defs = append(defs, g.shapedDef(traitShape{opts: opts, maxCols: 5, dups: i%3 == 2, families: colTypes, rowless: i%4 == 1, emptyStr: i%6 == 3}))
		}
		g.emitC12(defs, true)
	}
	r.Res.Exhaustive = true
	r.Res.Notes["exhaustive"] = "every trait accessor is compared on ALL 256 values of every 8-bit enum type"
	r.Res.Extra["definition_files"] = g.nDefs
	r.Res.Extra["enum_types"] = g.nTypes
	r.Res.Extra["generator_runs"] = w.genRuns
	r.Res.Extra["go_builds"] = w.goBuilds
	r.Res.Extra["trait_constant_queries"] = g.nParse
	r.Res.Extra["accessor_queries"] = g.nValueQ
	r.Finish()
	return 0
}

// refold renames nothing: randomDef already draws names that are distinct up to case only when it
// chose -caseInsensitive itself; for a definition switched to `c` afterwards, drop constants whose
// folded name collides.
func (g *gen) refold(d *Def) *Def {
	seen := map[string]bool{}
	var items []Item
	for _, it := range d.Items {
		if it.What == "const" {
			k := it.T + "/" + strings.ToLower(it.Name)
			if seen[k] {
				continue
			}
			seen[k] = true
		}
		items = append(items, it)
	}
	d.Items = items
	return d
}

// prepareCorpus builds all corpus definitions in ONE scratch package before hx runs the corpus
// cases one by one (otherwise every corpus case costs a generator run and a go build of its own).
func prepareCorpus(w *world, dir string) {
	if dir == "" {
		return
	}
	ents, err := os.ReadDir(dir)
	if err != nil {
		return
	}
	var names []string
	for _, e := range ents {
		if strings.HasSuffix(e.Name(), ".json") {
			names = append(names, e.Name())
		}
	}
	sort.Strings(names)
	var defs []*Def
	for _, n := range names {
		b, err := os.ReadFile(filepath.Join(dir, n))
		if err != nil {
			continue
		}
		var c hx.Case
		if json.Unmarshal(b, &c) != nil || len(c.Lines) == 0 {
			continue
		}
		defs = append(defs, defOfCase(c.Lines))
	}
	w.prepare(defs)
}

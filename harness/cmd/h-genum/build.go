package main

import (
	"bufio"
	"fmt"
	"io"
	"os"
	"os/exec"
	"path/filepath"
	"strings"
	"sync"
)

// built is what the implementation side knows about one definition file after the real
// generator ran on it and its output was compiled.
type built struct {
	def    *Def
	status string // "ok" | err:generate | err:compile | err:harness-table
	probe  *probeProc
	detail string
}

type probeProc struct {
	bin   string
	cmd   *exec.Cmd
	in    io.WriteCloser
	out   *bufio.Reader
	dirty bool // queries were answered since the process started
}

// start launches the probe binary and waits for its hello line.
func (p *probeProc) start() (string, error) {
	cmd := exec.Command(p.bin)
	in, _ := cmd.StdinPipe()
	po, _ := cmd.StdoutPipe()
	cmd.Stderr = os.Stderr
	if err := cmd.Start(); err != nil {
		return "", err
	}
	p.cmd, p.in, p.out, p.dirty = cmd, in, bufio.NewReaderSize(po, 1<<20), false
	hello, _ := p.out.ReadString('\n')
	return strings.TrimSpace(hello), nil
}

// fresh: every case starts from a new probe process. The probe mutates the slices the generated
// API hands out; if that leaks into package state, the damage must stay inside the case that
// caused it, so that a case (and its replay, and its shrunk form) is self-contained.
func (p *probeProc) fresh() {
	if !p.dirty {
		return
	}
	p.in.Close()
	p.cmd.Process.Kill()
	p.cmd.Wait()
	p.start()
}

func (p *probeProc) ask(line string) string {
	p.dirty = true
	if _, err := io.WriteString(p.in, line+"\n"); err != nil {
		return "probe-dead"
	}
	s, err := p.out.ReadString('\n')
	if err != nil {
		return "probe-dead"
	}
	return strings.TrimRight(s, "\n")
}

// world owns the scratch module, the generator binary and the cache of built definitions.
type world struct {
	root       string
	genumBin   string
	harnessDir string
	cache      map[string]*built
	procs      []*probeProc
	nPkg       int
	genRuns    int
	goBuilds   int
	env        []string
	closed     bool
}

// repoUses: the /repo module directories the harness workspace builds against (so that a
// harness pointed at another checkout of the repository takes the scratch module along).
func repoUses(harnessDir string) ([]string, error) {
	b, err := os.ReadFile(filepath.Join(harnessDir, "go.work"))
	if err != nil {
		return nil, err
	}
	var uses []string
	in := false
	for _, l := range strings.Split(string(b), "\n") {
		l = strings.TrimSpace(l)
		switch {
		case strings.HasPrefix(l, "use ("):
			in = true
		case in && l == ")":
			in = false
		case in && strings.HasPrefix(l, "/"):
			uses = append(uses, l)
		case strings.HasPrefix(l, "use /"):
			uses = append(uses, strings.TrimSpace(strings.TrimPrefix(l, "use")))
		}
	}
	return uses, nil
}

func newWorld(harnessDir string) (*world, error) {
	root, err := os.MkdirTemp("", "verif-genum-")
	if err != nil {
		return nil, err
	}
	w := &world{root: root, harnessDir: harnessDir, cache: map[string]*built{}}
	w.env = append(os.Environ(), "GOPROXY=off", "GOSUMDB=off", "GOTOOLCHAIN=local", "GOFLAGS=", "GO111MODULE=on")
	fail := func(err error) (*world, error) { os.RemoveAll(root); return nil, err }
	uses, err := repoUses(harnessDir)
	if err != nil {
		return fail(err)
	}
	genumDir := ""
	for _, u := range uses {
		if filepath.Base(u) == "genum" {
			genumDir = u
		}
	}
	if genumDir == "" {
		return fail(fmt.Errorf("harness go.work does not use the genum module"))
	}
	// the scratch module: generated code imports gtools/genum (workspace) and yaml.v3 (module cache)
	work := "go 1.23.0\n\nuse (\n\t.\n"
	for _, u := range uses {
		work += "\t" + u + "\n"
	}
	work += ")\n"
	os.WriteFile(filepath.Join(root, "go.work"), []byte(work), 0o644)
	os.WriteFile(filepath.Join(root, "go.mod"), []byte("module scratch\n\ngo 1.23.0\n\nrequire gopkg.in/yaml.v3 v3.0.1\n"), 0o644)
	sum, _ := os.ReadFile(filepath.Join(genumDir, "go.sum"))
	var keep []string
	for _, l := range strings.Split(string(sum), "\n") {
		if strings.HasPrefix(l, "gopkg.in/yaml.v3 ") || strings.HasPrefix(l, "gopkg.in/check.v1 ") {
			keep = append(keep, l)
		}
	}
	os.WriteFile(filepath.Join(root, "go.sum"), []byte(strings.Join(keep, "\n")+"\n"), 0o644)
	// the real CLI, built from the repository's current tree through the harness workspace
	w.genumBin = filepath.Join(root, "genum-cli")
	cmd := exec.Command("go", "build", "-o", w.genumBin, "github.com/drshriveer/gtools/genum/cmd/genum")
	cmd.Dir = harnessDir
	cmd.Env = w.env
	if out, err := cmd.CombinedOutput(); err != nil {
		return fail(fmt.Errorf("building genum/cmd/genum: %v\n%s", err, out))
	}
	return w, nil
}

func (w *world) close() {
	if w.closed {
		return
	}
	w.closed = true
	for _, p := range w.procs {
		p.in.Close()
		p.cmd.Process.Kill()
		p.cmd.Wait()
	}
	os.RemoveAll(w.root)
}

// genArgs: CLI flags of a definition's options.
func genArgs(d *Def, inFile string) []string {
	args := []string{"-in", inFile, "-types", strings.Join(d.typeNames(), ",")}
	if strings.Contains(d.Opts, "c") {
		args = append(args, "-caseInsensitive")
	}
	if strings.Contains(d.Opts, "J") {
		args = append(args, "-json=false")
	}
	if strings.Contains(d.Opts, "Y") {
		args = append(args, "-yaml=false")
	}
	if strings.Contains(d.Opts, "T") {
		args = append(args, "-text=false")
	}
	if strings.Contains(d.Opts, "D") {
		// only set on definitions WITHOUT trait columns, where the option must not change anything
		args = append(args, "-disableTraits")
	}
	if len(d.Parsable) > 0 {
		args = append(args, "-parsableByTraits", strings.Join(d.Parsable, ","))
	}
	return args
}

// tryBuild: one generator run per definition file (each in its own directory, as `go:generate`
// runs it per file), then all files + generated files + the probe in ONE package, one go build.
func (w *world) tryBuild(defs []*Def) []*built {
	pkg := fmt.Sprintf("p%d", w.nPkg)
	w.nPkg++
	dir := filepath.Join(w.root, pkg)
	os.MkdirAll(dir, 0o755)
	res := make([]*built, len(defs))
	var wg sync.WaitGroup
	sem := make(chan struct{}, 4)
	for k, d := range defs {
		res[k] = &built{def: d, status: "ok"}
		wg.Add(1)
		w.genRuns++
		for _, p := range d.Pre {
			if _, own := d.PreFlags[p]; own && !d.isHand(p) {
				w.genRuns++
			}
		}
		go func(k int, d *Def) {
			defer wg.Done()
			sem <- struct{}{}
			defer func() { <-sem }()
			sub := filepath.Join(dir, fmt.Sprintf("d%d", k))
			os.MkdirAll(sub, 0o755)
			// one generator invocation per file; a definition with pre-generated types is two files
			// in one directory: the earlier invocation's output exists when the later one runs
			inner, outer := d.split()
			var files []string
			runGen := func(part *Def, base string) bool {
				in := filepath.Join(sub, base+".go")
				os.WriteFile(in, []byte(part.Source("main")), 0o644)
				gen := exec.Command(w.genumBin, genArgs(part, in)...)
				gen.Dir = sub
				gen.Env = append(append([]string{}, w.env...), "PWD="+sub)
				out, err := gen.CombinedOutput()
				if err != nil {
					res[k].status = "err:generate"
					res[k].detail = string(out)
					return false
				}
				genFile := filepath.Join(sub, base+".genum.go")
				if _, err := os.Stat(genFile); err != nil {
					res[k].status = "err:generate"
					res[k].detail = "no output file"
					return false
				}
				files = append(files, in, genFile)
				return true
			}
			for pi, in := range inner {
				base := fmt.Sprintf("defs%dpre", k)
				if pi > 0 {
					base = fmt.Sprintf("defs%dpre%d", k, pi)
				}
				if in.hand {
					// a hand-written trait type: no invocation, the file just exists when the others run
					f := filepath.Join(sub, base+".go")
					os.WriteFile(f, []byte(handSource(in.def, "main")), 0o644)
					files = append(files, f)
					continue
				}
				if !runGen(in.def, base) {
					return
				}
			}
			if len(outer.Types) > 0 && !runGen(outer, fmt.Sprintf("defs%d", k)) {
				return
			}
			for _, f := range files {
				os.Rename(f, filepath.Join(dir, filepath.Base(f)))
			}
		}(k, d)
	}
	wg.Wait()
	for k := range defs {
		os.RemoveAll(filepath.Join(dir, fmt.Sprintf("d%d", k)))
	}
	var okDefs []*Def
	for k, d := range defs {
		if res[k].status == "ok" {
			okDefs = append(okDefs, d)
		} else if os.Getenv("VERIF_DEBUG") != "" {
			fmt.Fprintf(os.Stderr, "generator failed:\n%s\n%s\n", d.Source("main"), res[k].detail)
		}
	}
	if len(okDefs) == 0 {
		return res
	}
	os.WriteFile(filepath.Join(dir, "main.go"), []byte(probeSource(okDefs)), 0o644)
	bin := filepath.Join(dir, "probe")
	bld := exec.Command("go", "build", "-o", bin, ".")
	bld.Dir = dir
	bld.Env = w.env
	w.goBuilds++
	setAll := func(st, detail string) {
		for k := range res {
			if res[k].status == "ok" {
				res[k].status, res[k].detail = st, detail
			}
		}
	}
	if out, err := bld.CombinedOutput(); err != nil {
		if os.Getenv("VERIF_DEBUG") != "" {
			fmt.Fprintf(os.Stderr, "probe build failed in %s:\n%s\n", dir, out)
			if keep := os.Getenv("VERIF_KEEP"); keep != "" {
				exec.Command("cp", "-r", dir, filepath.Join(keep, filepath.Base(dir))).Run()
			}
		}
		setAll("err:compile", string(out))
		return res
	}
	p := &probeProc{bin: bin}
	hello, err := p.start()
	if err != nil {
		setAll("err:probe-start", err.Error())
		return res
	}
	w.procs = append(w.procs, p)
	if hello != "ready" {
		setAll("err:harness-table", hello)
		return res
	}
	for k := range res {
		if res[k].status == "ok" {
			res[k].probe = p
		}
	}
	return res
}

// prepare makes sure every definition is in the cache: one package (one `go build`) for the
// whole batch; if that does not compile, each definition on its own, so that a failure is
// attributed to the definition that causes it.
func (w *world) prepare(defs []*Def) {
	var todo, later []*Def
	names := map[string]bool{}
	for _, d := range defs {
		if _, ok := w.cache[d.Key()]; ok {
			continue
		}
		if !d.wellFormed() {
			w.cache[d.Key()] = &built{def: d, status: "err:harness-malformed"}
			continue
		}
		clash := false
		for _, n := range d.declared() {
			if names[n] {
				clash = true
			}
		}
		if clash {
			dup := false
			for _, t := range todo {
				if t.Key() == d.Key() {
					dup = true
				}
			}
			if !dup {
				later = append(later, d)
			}
			continue
		}
		for _, n := range d.declared() {
			names[n] = true
		}
		todo = append(todo, d)
	}
	if len(todo) > 0 {
		res := w.tryBuild(todo)
		compileFailed := false
		for _, b := range res {
			if b.status == "err:compile" || b.status == "err:harness-table" || b.status == "err:probe-start" {
				compileFailed = true
			}
		}
		if compileFailed && len(todo) > 1 {
			for _, b := range res {
				if b.status == "err:generate" {
					w.cache[b.def.Key()] = b
				} else {
					w.prepare([]*Def{b.def})
				}
			}
		} else {
			for _, b := range res {
				w.cache[b.def.Key()] = b
			}
		}
	}
	if len(later) > 0 {
		w.prepare(later)
	}
}

func (w *world) get(d *Def) *built {
	if b, ok := w.cache[d.Key()]; ok {
		return b
	}
	w.prepare([]*Def{d})
	return w.cache[d.Key()]
}

// probeSource renders the probe `main`: it answers `<Type> <op> <arg>` queries on stdin.
func probeSource(defs []*Def) string {
	var b strings.Builder
	hdr := probeHeader
	for _, d := range defs {
		for _, t := range d.Types {
			for _, c := range t.Cols {
				if c.Ty == "time.Duration" && !strings.Contains(hdr, "stupidTime") {
					hdr = strings.Replace(hdr, "\t\"strings\"\n", "\t\"strings\"\n\tstupidTime \"time\"\n", 1)
				}
			}
		}
	}
	b.WriteString(hdr)
	b.WriteString("func tablesOK() bool {\n\tok := true\n")
	for _, d := range defs {
		for _, it := range d.Items {
			if it.What != "const" {
				continue
			}
			_, signed, _, _ := kindInfo(d.kindOf(it.T))
			fmt.Fprintf(&b, "\tok = ok && fmtI(%s, %v) == %q\n", it.Name, signed, it.Val.String())
		}
	}
	b.WriteString("\treturn ok\n}\n\nvar probes = map[string]*probe{\n")
	for _, d := range defs {
		for _, t := range d.Types {
			if d.isHand(t.Name) {
				continue // not an enum: no generated API to probe
			}
			bits, signed, _, _ := kindInfo(t.Kind)
			fmt.Fprintf(&b, "\t%q: newProbe[%s](Parse%s, %v, %d, map[string]traitP{\n", t.Name, t.Name, t.Name, signed, bits)
			first, hasFirst := d.firstConst(t.Name)
			for j, c := range t.Cols {
				if !hasFirst || j >= len(first.TVals) {
					continue
				}
				gt := goTypeOf(c.Ty)
				var get, mk string
				switch {
				case c.Ty == "string" || strings.HasPrefix(c.Ty, "Str"):
					get = fmt.Sprintf("fmtS(string(v.(%s).%s()))", t.Name, c.Name)
					mk = fmt.Sprintf("s, ok := scS(sc); return %s(s), ok", gt)
				case c.Ty == "bool":
					get = fmt.Sprintf("fmtB(v.(%s).%s())", t.Name, c.Name)
					mk = "b, ok := scB(sc); return b, ok"
				case c.Ty == "uint8" || c.Ty == "uint16" || c.Ty == "uint64" || strings.HasPrefix(c.Ty, "Un") || isUnsignedKind(d.kindOf(c.Ty)):
					get = fmt.Sprintf("\"i:\" + strconv.FormatUint(uint64(v.(%s).%s()), 10)", t.Name, c.Name)
					mk = fmt.Sprintf("n, ok := scU(sc); x := %s(n); return x, ok && uint64(x) == n", gt)
				default: // signed integer kinds, rune
					get = fmt.Sprintf("\"i:\" + strconv.FormatInt(int64(v.(%s).%s()), 10)", t.Name, c.Name)
					mk = fmt.Sprintf("n, ok := scI(sc); x := %s(n); return x, ok && int64(x) == n", gt)
				}
				fmt.Fprintf(&b, "\t\t%q: {get: func(v any) string { return %s }, mk: func(sc string) (any, bool) { %s }},\n", c.Name, get, mk)
			}
			b.WriteString("\t}),\n")
		}
	}
	b.WriteString("}\n")
	return b.String()
}

const probeHeader = `package main

import (
	"bufio"
	"encoding"
	"encoding/hex"
	"encoding/json"
	"fmt"
	"os"
	"strconv"
	"strings"

	"github.com/drshriveer/gtools/genum"
	"gopkg.in/yaml.v3"
)

var _ = strconv.Itoa

type traitP struct {
	get func(v any) string
	mk  func(sc string) (any, bool)
}

func fmtS(s string) string { return "s:" + hex.EncodeToString([]byte(s)) }

func fmtB(b bool) string {
	if b {
		return "b:t"
	}
	return "b:f"
}

func scS(sc string) (string, bool) {
	if !strings.HasPrefix(sc, "s:") {
		return "", false
	}
	raw, err := hex.DecodeString(sc[2:])
	return string(raw), err == nil
}

func scB(sc string) (bool, bool) { return sc == "b:t", sc == "b:t" || sc == "b:f" }

func scI(sc string) (int64, bool) {
	if !strings.HasPrefix(sc, "i:") {
		return 0, false
	}
	n, err := strconv.ParseInt(sc[2:], 10, 64)
	return n, err == nil
}

func scU(sc string) (uint64, bool) {
	if !strings.HasPrefix(sc, "i:") {
		return 0, false
	}
	n, err := strconv.ParseUint(sc[2:], 10, 64)
	return n, err == nil
}

// docBytes: the document of a dec query for one codec.
func docBytes(codec, doc string) ([]byte, bool) {
	k, p, ok := strings.Cut(doc, ":")
	if !ok {
		return nil, false
	}
	switch k {
	case "n":
		return []byte(p), true
	case "s", "o":
		raw, err := hex.DecodeString(p)
		if err != nil {
			return nil, false
		}
		if k == "o" || codec == "text" {
			return raw, true
		}
		if codec == "json" {
			b, err := json.Marshal(string(raw))
			return b, err == nil
		}
		b, err := yaml.Marshal(string(raw))
		return b, err == nil
	}
	return nil, false
}

type enumI[T any] interface {
	genum.EnumLike
	IsValid() bool
	String() string
	Values() []T
	StringValues() []string
	ParseString(string) (T, error)
	ParseGeneric(any) (genum.Enum, error)
}

type probe struct {
	ask func(op string, args []string) string
}

func fmtI[T genum.EnumLike](v T, signed bool) string {
	if signed {
		return strconv.FormatInt(int64(v), 10)
	}
	return strconv.FormatUint(uint64(v), 10)
}

func atoT[T genum.EnumLike](s string, signed bool, bits int) (T, bool) {
	if signed {
		x, err := strconv.ParseInt(s, 10, bits)
		return T(x), err == nil
	}
	x, err := strconv.ParseUint(s, 10, bits)
	return T(x), err == nil
}

func join(xs []string) string {
	if len(xs) == 0 {
		return "-"
	}
	return strings.Join(xs, ",")
}

func newProbe[T enumI[T]](parse func(any) (T, error), signed bool, bits int, traits map[string]traitP) *probe {
	var zero T
	encode := func(codec string, v T) ([]byte, error) {
		switch codec {
		case "json":
			return json.Marshal(v)
		case "yaml":
			return yaml.Marshal(v)
		}
		m, ok := any(v).(encoding.TextMarshaler)
		if !ok {
			return nil, fmt.Errorf("no MarshalText")
		}
		return m.MarshalText()
	}
	type wrapT struct {
		F T "json:\"f\" yaml:\"f\""
	}
	// decodeInto: the target starts at init, so that a decoder that silently leaves the target
	// untouched is seen (round trips start from a value different from the expected one)
	decodeInto := func(codec string, b []byte, init T, field bool) (T, error) {
		if field {
			w := wrapT{F: init}
			var err error
			if codec == "json" {
				err = json.Unmarshal(b, &w)
			} else {
				err = yaml.Unmarshal(b, &w)
			}
			return w.F, err
		}
		e := init
		switch codec {
		case "json":
			err := json.Unmarshal(b, &e)
			return e, err
		case "yaml":
			err := yaml.Unmarshal(b, &e)
			return e, err
		}
		u, ok := any(&e).(encoding.TextUnmarshaler)
		if !ok {
			return e, fmt.Errorf("no UnmarshalText")
		}
		err := u.UnmarshalText(b)
		return e, err
	}
	encodeField := func(codec string, v T) ([]byte, error) {
		if codec == "json" {
			return json.Marshal(wrapT{F: v})
		}
		return yaml.Marshal(wrapT{F: v})
	}
	decode := func(codec string, b []byte) (T, error) {
		var e T
		switch codec {
		case "json":
			err := json.Unmarshal(b, &e)
			return e, err
		case "yaml":
			err := yaml.Unmarshal(b, &e)
			return e, err
		}
		u, ok := any(&e).(encoding.TextUnmarshaler)
		if !ok {
			return e, fmt.Errorf("no UnmarshalText")
		}
		err := u.UnmarshalText(b)
		return e, err
	}
	asString := func(codec string, b []byte) string {
		var s string
		switch codec {
		case "json":
			if json.Unmarshal(b, &s) != nil {
				return "!not-a-string"
			}
		case "yaml":
			if yaml.Unmarshal(b, &s) != nil {
				return "!not-a-string"
			}
		default:
			s = string(b)
		}
		return s
	}
	vals := func(arg string) ([]T, bool) {
		if arg == "all" {
			if bits > 8 {
				return nil, false
			}
			var r []T
			if signed {
				for i := -128; i <= 127; i++ {
					r = append(r, T(i))
				}
			} else {
				for i := 0; i <= 255; i++ {
					r = append(r, T(i))
				}
			}
			return r, true
		}
		var r []T
		for _, w := range strings.Split(arg, ",") {
			v, ok := atoT[T](w, signed, bits)
			if !ok {
				return nil, false
			}
			r = append(r, v)
		}
		return r, true
	}
	res := func(v T, err error) string {
		if err != nil {
			return "err"
		}
		return "ok:" + fmtI(v, signed)
	}
	return &probe{ask: func(op string, args []string) string {
		arg := ""
		if len(args) > 0 {
			arg = args[len(args)-1]
		}
		switch op {
		case "trait":
			if len(args) != 2 {
				return "bad-op"
			}
			tp, ok := traits[args[0]]
			if !ok {
				return "no-trait"
			}
			vs, ok := vals(arg)
			if !ok {
				return "bad-op"
			}
			r := make([]string, len(vs))
			for i, v := range vs {
				r[i] = tp.get(v)
			}
			return join(r)
		case "ptrait":
			if len(args) != 2 {
				return "bad-op"
			}
			tp, ok := traits[args[0]]
			if !ok {
				return "no-trait"
			}
			x, ok := tp.mk(arg)
			if !ok {
				return "bad-op"
			}
			return res(parse(x))
		case "marshal", "rt", "rtf":
			if len(args) != 2 || (op == "rtf" && args[0] == "text") {
				return "bad-op"
			}
			vs, ok := vals(arg)
			if !ok {
				return "bad-op"
			}
			r := make([]string, len(vs))
			for i, v := range vs {
				var b []byte
				var err error
				if op == "rtf" {
					b, err = encodeField(args[0], v)
				} else {
					b, err = encode(args[0], v)
				}
				switch {
				case err != nil:
					r[i] = "!err"
				case op == "marshal":
					r[i] = asString(args[0], b)
				default:
					r[i] = res(decodeInto(args[0], b, v+1, op == "rtf"))
				}
			}
			return join(r)
		case "dec":
			if len(args) != 2 {
				return "bad-op"
			}
			b, ok := docBytes(args[0], arg)
			if !ok {
				return "bad-op"
			}
			return res(decode(args[0], b))
		case "values":
			// every slice the generated API returns is caller-owned: read it, then mutate it in place
			// (reverse, overwrite the first element); later queries must not notice
			vs := zero.Values()
			var r []string
			for _, v := range vs {
				r = append(r, fmtI(v, signed))
			}
			for i, j := 0, len(vs)-1; i < j; i, j = i+1, j-1 {
				vs[i], vs[j] = vs[j], vs[i]
			}
			if len(vs) > 0 {
				vs[0] = vs[0] + 1
			}
			return join(r)
		case "strvals":
			ss := zero.StringValues()
			out := join(ss)
			for i, j := 0, len(ss)-1; i < j; i, j = i+1, j-1 {
				ss[i], ss[j] = ss[j], ss[i]
			}
			if len(ss) > 0 {
				ss[0] = "mutated-by-the-caller"
			}
			return out
		case "valid":
			vs, ok := vals(arg)
			if !ok {
				return "bad-op"
			}
			buf := make([]byte, len(vs))
			for i, v := range vs {
				buf[i] = 'f'
				if v.IsValid() {
					buf[i] = 't'
				}
			}
			return string(buf)
		case "str":
			vs, ok := vals(arg)
			if !ok {
				return "bad-op"
			}
			r := make([]string, len(vs))
			for i, v := range vs {
				r[i] = v.String()
			}
			return join(r)
		case "parse":
			s := ""
			if arg != "-" {
				raw, err := hex.DecodeString(arg)
				if err != nil {
					return "bad-op"
				}
				s = string(raw)
			}
			a := res(parse(s))
			b := res(zero.ParseString(s))
			g, err := zero.ParseGeneric(s)
			c := "err"
			if err == nil {
				gv, ok := g.(T)
				if !ok {
					c = "generic-not-T"
				} else {
					c = res(gv, nil)
				}
			}
			if a == b && b == c {
				return a
			}
			return "split:" + a + "|" + b + "|" + c
		}
		return "bad-op"
	}}
}

func answer(line string) (out string) {
	defer func() {
		if r := recover(); r != nil {
			out = "panic"
		}
	}()
	w := strings.Fields(line)
	if len(w) < 2 {
		return "bad-op"
	}
	p, ok := probes[w[0]]
	if !ok {
		return "no-type"
	}
	return p.ask(w[1], w[2:])
}

func main() {
	out := bufio.NewWriter(os.Stdout)
	if tablesOK() {
		fmt.Fprintln(out, "ready")
	} else {
		fmt.Fprintln(out, "bad-table")
	}
	out.Flush()
	sc := bufio.NewScanner(os.Stdin)
	sc.Buffer(make([]byte, 1<<20), 1<<28)
	for sc.Scan() {
		fmt.Fprintln(out, answer(sc.Text()))
		out.Flush()
	}
}

`

func isUnsignedKind(k string) bool {
	_, signed, _, ok := kindInfo(k)
	return ok && !signed
}

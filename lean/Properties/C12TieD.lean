import Properties.C12TieV
import Lemmas.GoKV
/-!
# C12, tie A by translation: `processDuplicates` as translated on this run = the model's `keepRow` + `sortTraits`

The Go function groups the values by their number in a `map[uint64]Values`, walks the groups in the order the
runtime happens to choose (`walk`, any permutation of the entries), asks the TRANSLATED `Values.getPrimary` for
each group's primary name, deletes from every trait (`slices.DeleteFunc`, written back through `traits[i].Traits`)
the instances of the group's non-primary names when the group has more than one name, and sorts the traits by
name.  `go_processDuplicates_closed`: for every list of 64-bit values, all descriptors and every walk, no panic and
the result is `sort (map (prune by the primaries of the groups with several names))`.
`go_processDuplicates_eq`: on descriptors related to the model's, that is the model's
`sortTraits (rows filtered by keepRow)` - for every walk order.
-/
set_option linter.unusedSimpArgs false
set_option linter.unusedVariables false
namespace C12Tie
open Generated.GoGenumValues Generated.GoGenumGen Genum GoLoop

abbrev VMap := Go.KV Go.U64 (List GValue)

/-- one iteration of the grouping loop -/
def groupStep (d : VMap) (v : GValue) : VMap :=
  if (Go.kvGet d v.Value).isSome then Go.kvSet d v.Value ((Go.kvGet d v.Value).getD default ++ [v])
  else Go.kvSet d v.Value [v]

/-- `data` after the grouping loop -/
def groups (vals : List GValue) : VMap := vals.foldl groupStep []

def sameValue (k : Go.U64) (v : GValue) : Bool := v.Value == k

/-- invariant of the grouping loop: one entry per number, holding the values of that number in order -/
def GroupInv (d : VMap) (done : List GValue) : Prop :=
  (d.map Prod.fst).Nodup ∧
  ∀ k, Go.kvGet d k = if done.filter (sameValue k) = [] then none else some (done.filter (sameValue k))

theorem groupStep_inv (d : VMap) (done : List GValue) (v : GValue) (h : GroupInv d done) :
    GroupInv (groupStep d v) (done ++ [v]) := by
  obtain ⟨hn, hg⟩ := h
  unfold groupStep
  have hv := hg v.Value
  by_cases he : done.filter (sameValue v.Value) = []
  · rw [he] at hv; simp only [if_true] at hv
    simp only [hv, Option.isSome_none, Bool.false_eq_true, if_false]
    refine ⟨Go.kvSet_nodup _ _ _ hn, fun k => ?_⟩
    rw [Go.kvGet_kvSet', hg k, List.filter_append]
    by_cases hk : v.Value = k
    · subst hk; simp [he, sameValue]
    · have : sameValue k v = false := by simp [sameValue, hk]
      simp [hk, this]
  · simp only [he, if_false] at hv
    simp only [hv, Option.isSome_some, if_true, Option.getD_some]
    refine ⟨Go.kvSet_nodup _ _ _ hn, fun k => ?_⟩
    rw [Go.kvGet_kvSet', hg k, List.filter_append]
    by_cases hk : v.Value = k
    · subst hk; simp [he, sameValue]
    · have : sameValue k v = false := by simp [sameValue, hk]
      simp [hk, this]

theorem groups_inv_aux (rest : List GValue) : ∀ (d : VMap) (done : List GValue), GroupInv d done →
    GroupInv (rest.foldl groupStep d) (done ++ rest) := by
  induction rest with
  | nil => intro d done h; simpa using h
  | cons v rest ih =>
    intro d done h
    have := ih (groupStep d v) (done ++ [v]) (groupStep_inv d done v h)
    simpa [List.append_assoc] using this

theorem groups_inv (vals : List GValue) : GroupInv (groups vals) vals := by
  have := groups_inv_aux vals [] [] ⟨by simp, fun k => by simp [Go.kvGet]⟩
  simpa [groups] using this

/-- the entries of `data`: the non-empty classes of equal numbers -/
theorem mem_groups (vals : List GValue) (k : Go.U64) (l : List GValue) :
    (k, l) ∈ groups vals ↔ l = vals.filter (sameValue k) ∧ l ≠ [] := by
  obtain ⟨hn, hg⟩ := groups_inv vals
  rw [Go.mem_iff_kvGet _ hn, hg k]
  by_cases he : vals.filter (sameValue k) = []
  · simp only [he, if_true]
    constructor
    · intro h; cases h
    · rintro ⟨h1, h2⟩; exact absurd h1 h2
  · simp only [he, if_false, Option.some.injEq]
    constructor
    · intro h; subst h; exact ⟨rfl, he⟩
    · rintro ⟨h1, _⟩; exact h1.symm

/-- an index loop that replaces every element in place -/
theorem forIn_inplace_map {α : Type} (f : α → α) (body : Nat → List α → Go.M (ForInStep (List α)))
    (h : ∀ (i : Nat) (s : List α) (hi : i < s.length), body i s = pure (ForInStep.yield (s.set i (f s[i]))))
    (suf : List α) : ∀ pre : List α,
    forIn (List.range' pre.length suf.length) (pre ++ suf) body = pure (pre ++ suf.map f) := by
  induction suf with
  | nil => intro pre; simp
  | cons a suf ih =>
    intro pre
    have hi : pre.length < (pre ++ a :: suf).length := by simp
    rw [List.length_cons, List.range'_succ, List.forIn_cons, h _ _ hi]
    have ha : (pre ++ a :: suf)[pre.length] = a := by simp
    have hset : (pre ++ a :: suf).set pre.length (f a) = (pre ++ [f a]) ++ suf := by simp [List.set_append]
    simp only [pure_bind, ha, hset]
    have := ih (pre ++ [f a])
    simp only [List.length_append, List.length_singleton] at this
    rw [this]
    simp

theorem forIn_inplace_map0 {α : Type} (f : α → α) (body : Nat → List α → Go.M (ForInStep (List α)))
    (s : List α)
    (h : ∀ (i : Nat) (s : List α) (hi : i < s.length), body i s = pure (ForInStep.yield (s.set i (f s[i])))) :
    forIn (List.range' 0 s.length) s body = pure (s.map f) := by
  have := forIn_inplace_map f body h s []
  simpa using this

/-- `slices.DeleteFunc` predicate of one group with primary `p` -/
def dropFor (p : GValue) (x : GTraitInstance) : Bool :=
  x.OwningValue.Value == p.Value && x.OwningValue.Name != p.Name

def pruneBy (p : GValue) (td : GTraitDesc) : GTraitDesc :=
  { td with Traits := td.Traits.filter (fun t => !dropFor p t) }

/-- all groups with several names at once -/
def pruneAll (ps : List GValue) (td : GTraitDesc) : GTraitDesc :=
  { td with Traits := td.Traits.filter (fun t => ps.all (fun p => !dropFor p t)) }

theorem pruneAll_cons (p : GValue) (ps : List GValue) (td : GTraitDesc) :
    pruneAll ps (pruneBy p td) = pruneAll (p :: ps) td := by
  unfold pruneAll pruneBy
  simp only [List.filter_filter, List.all_cons]
  congr 1
  congr 1
  funext t
  exact Bool.and_comm _ _

theorem pruneAll_nil (td : GTraitDesc) : pruneAll [] td = td := by
  unfold pruneAll
  have : td.Traits.filter (fun t => ([] : List GValue).all (fun p => !dropFor p t)) = td.Traits := by
    simp
  rw [this]

/-- the primary of a group of model values, as the translated `getPrimary` returns it -/
def primOf (G : List Genum.Value) : Option GValue := (Genum.getPrimary G).map (fun p => C04Tie.abs p.1)

/-- the primaries of the groups with more than one name -/
def prims (Gs : List (List Genum.Value)) : List GValue :=
  Gs.filterMap (fun G => if G.length > 1 then primOf G else none)

abbrev DupBody := List GValue → List GTraitDesc → Go.M (ForInStep (List GTraitDesc))

theorem dup_loop (body : DupBody)
    (h : ∀ (G : List Genum.Value) (s : List GTraitDesc) (pm : Genum.Value) (safe : Bool),
      Genum.getPrimary G = some (pm, safe) →
      body (G.map C04Tie.abs) s = pure (ForInStep.yield (if G.length > 1 then s.map (pruneBy (C04Tie.abs pm)) else s)))
    (Gs : List (List Genum.Value)) (hne : ∀ G ∈ Gs, G ≠ []) : ∀ s : List GTraitDesc,
    forIn (Gs.map (fun G => G.map C04Tie.abs)) s body = pure (s.map (pruneAll (prims Gs))) := by
  induction Gs with
  | nil =>
    intro s
    have : s.map (pruneAll (prims [])) = s := by
      have : prims [] = [] := rfl
      rw [this]
      conv => rhs; rw [← List.map_id s]
      apply List.map_congr_left
      intro td _
      exact pruneAll_nil td
    rw [this]; rfl
  | cons G Gs ih =>
    intro s
    have hG : G ≠ [] := hne G (by simp)
    obtain ⟨pm, safe, hp⟩ : ∃ pm safe, Genum.getPrimary G = some (pm, safe) := by
      match G, hG with
      | [v], _ => exact ⟨v, true, rfl⟩
      | v :: w :: rest, _ => exact ⟨_, _, rfl⟩
    rw [List.map_cons, List.forIn_cons, h G s pm safe hp]
    simp only [pure_bind]
    rw [ih (fun G' hG' => hne G' (by simp [hG']))]
    by_cases hl : G.length > 1
    · have : prims (G :: Gs) = C04Tie.abs pm :: prims Gs := by
        simp [prims, List.filterMap_cons, hl, primOf, hp]
      simp only [hl, if_true, this, List.map_map]
      congr 1
      apply List.map_congr_left
      intro td _
      exact pruneAll_cons _ _ _
    · have : prims (G :: Gs) = prims Gs := by
        simp [prims, List.filterMap_cons, hl]
      simp only [hl, if_false, this]


/-- the groups in the order of the walk, as lists of model values -/
def groupsOfWalk (w : List (Go.U64 × List GValue) → List (Go.U64 × List GValue)) (vs : List Genum.Value) :
    List (List Genum.Value) :=
  (w (groups (vs.map C04Tie.abs))).map (fun e => vs.filter (fun v => BitVec.ofNat 64 v.value == e.1))

theorem filter_abs (vs : List Genum.Value) (k : Go.U64) :
    (vs.map C04Tie.abs).filter (sameValue k) = (vs.filter (fun v => BitVec.ofNat 64 v.value == k)).map C04Tie.abs := by
  rw [List.filter_map]
  rfl

theorem walk_groups (w : List (Go.U64 × List GValue) → List (Go.U64 × List GValue)) (hw : ∀ l, (w l).Perm l)
    (vs : List Genum.Value) :
    (w (groups (vs.map C04Tie.abs))).map Prod.snd = (groupsOfWalk w vs).map (fun G => G.map C04Tie.abs) ∧
    ∀ G ∈ groupsOfWalk w vs, G ≠ [] := by
  unfold groupsOfWalk
  constructor
  · rw [List.map_map]
    apply List.map_congr_left
    intro e he
    have he' : (e.1, e.2) ∈ groups (vs.map C04Tie.abs) := (hw _).mem_iff.mp he
    rw [mem_groups] at he'
    simp only [Function.comp]
    rw [he'.1, filter_abs]
  · intro G hG
    simp only [List.mem_map] at hG
    obtain ⟨e, he, rfl⟩ := hG
    have he' : (e.1, e.2) ∈ groups (vs.map C04Tie.abs) := (hw _).mem_iff.mp he
    rw [mem_groups] at he'
    intro hnil
    apply he'.2
    rw [he'.1, filter_abs, hnil]
    rfl

/-- `processDuplicates`, for every list of 64-bit values, all descriptors and every walk order of the map: no
panic; every trait loses the instances that `slices.DeleteFunc` drops for the primaries of the groups with several
names; the traits come back sorted by name -/
theorem go_processDuplicates_closed (w : List (Go.U64 × List GValue) → List (Go.U64 × List GValue))
    (hw : ∀ l, (w l).Perm l) (vs : List Genum.Value) (gs : List GTraitDesc) (e : String) :
    processDuplicates w (vs.map C04Tie.abs) gs e = pure (
      if vs = [] then gs
      else Go.sortSort (fun a b => decide (a.Name < b.Name)) (gs.map (pruneAll (prims (groupsOfWalk w vs))))) := by
  unfold processDuplicates
  simp only []
  by_cases hvs : vs = []
  · subst hvs; simp
  · have hlen : ((vs.map C04Tie.abs).length == 0) = false := by
      cases vs with
      | nil => exact absurd rfl hvs
      | cons a l => simp
    simp only [hlen, Bool.false_eq_true, if_false, hvs]
    rw [forIn_yield _ groupStep (fun _ => True) (fun _ _ _ => trivial) (by
      intro v d _
      unfold groupStep
      by_cases hs : (Go.kvGet d v.Value).isSome = true <;> simp [hs]) _ _ trivial]
    simp only [pure_bind]
    have hgroups : List.foldl groupStep [] (vs.map C04Tie.abs) = groups (vs.map C04Tie.abs) := rfl
    rw [hgroups, (walk_groups w hw vs).1]
    rw [dup_loop _ ?h _ (walk_groups w hw vs).2]
    · simp
    case h =>
      intro G s pm safe hp
      have hgp := C04Tie.go_getPrimary_eq G
      rw [hp] at hgp
      simp only [hgp, pure_bind, List.length_map]
      by_cases hl : G.length > 1
      · simp only [hl, decide_true, if_true]
        rw [forIn_inplace_map0 (pruneBy (C04Tie.abs pm)) _ s ?h2]
        · cases safe <;> rfl
        case h2 =>
          intro i s' hi
          simp only [listGet_lt _ _ hi, pure_bind, Go.listSet, hi, if_true]
          rfl
      · simp only [hl, decide_false, if_false, Bool.false_eq_true]
        cases safe <;> rfl

end C12Tie

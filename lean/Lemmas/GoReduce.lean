import Model.GoAny
import Lemmas.GoLoop
/-!
# Loop lemmas for the translated tree walks of gconfig (`go2lean -spec gconfigreduce`)

`reduceAny` and `parseTemplatedElements` walk a document with the same two loops:

    for k, el := range v { v[k], err = f(el); if err != nil { return …, err } }     (v map[string]any)
    for i, el := range v { v[i], err = f(el); if err != nil { return …, err } }     (v []any)

The translation ranges over the entries `v` had when the loop started and threads the updated `v`
through the iterations.  The lemmas below say, for an ARBITRARY loop body that behaves on one entry
like "apply `g`; on failure leave with `R`", that the whole loop computes `mapKVs g` / `mapList g`
(all entries rewritten in place, in walk order, or the first failure), provided the keys of the map
are pairwise distinct (as in every Go map).  `forIn_findSome` is the loop that leaves with the first
hit (the `for i := dIndex; i < len(dimensions); i++` loop of `reduceAny`).
-/
namespace GoReduce
open GConfig GoAny

/-- rewrite every value of an association list with `g`, failing when `g` fails -/
def mapKVs (g : Y → Option Y) : List (String × Y) → Option (List (String × Y))
  | [] => some []
  | (k, v) :: rest =>
    match g v with
    | none => none
    | some v' =>
      match mapKVs g rest with
      | none => none
      | some rest' => some ((k, v') :: rest')

/-- rewrite every element of a list with `g`, failing when `g` fails -/
def mapList (g : Y → Option Y) : List Y → Option (List Y)
  | [] => some []
  | x :: xs =>
    match g x with
    | none => none
    | some x' =>
      match mapList g xs with
      | none => none
      | some xs' => some (x' :: xs')

theorem mapKVs_congr (g g' : Y → Option Y) : ∀ (kvs : List (String × Y)),
    (∀ k v, (k, v) ∈ kvs → g v = g' v) → mapKVs g kvs = mapKVs g' kvs
  | [], _ => rfl
  | (k, v) :: rest, h => by
    have h1 := h k v (by simp)
    have h2 := mapKVs_congr g g' rest (fun k' v' hm => h k' v' (by simp [hm]))
    simp only [mapKVs, h1, h2]

theorem mapList_congr (g g' : Y → Option Y) : ∀ (xs : List Y),
    (∀ x, x ∈ xs → g x = g' x) → mapList g xs = mapList g' xs
  | [], _ => rfl
  | x :: xs, h => by
    have h1 := h x (by simp)
    have h2 := mapList_congr g g' xs (fun x' hm => h x' (by simp [hm]))
    simp only [mapList, h1, h2]

theorem mapKVs_keys (g : Y → Option Y) : ∀ (kvs r : List (String × Y)),
    mapKVs g kvs = some r → r.map (·.1) = kvs.map (·.1)
  | [], r, h => by simp [mapKVs] at h; subst h; rfl
  | (k, v) :: rest, r, h => by
    simp only [mapKVs] at h
    cases hg : g v with
    | none => simp [hg] at h
    | some v' =>
      cases hr : mapKVs g rest with
      | none => simp [hg, hr] at h
      | some rest' =>
        simp [hg, hr] at h; subst h
        simp [mapKVs_keys g rest rest' hr]

theorem amapSet_mid (A : List (String × Y)) (k : String) (v x : Y) (rest : List (String × Y))
    (hk : k ∉ A.map (·.1)) : amapSet (A ++ (k, v) :: rest) k x = A ++ (k, x) :: rest := by
  induction A with
  | nil => simp [amapSet]
  | cons a A ih =>
    obtain ⟨k', v'⟩ := a
    have hne : ¬ (k' = k) := by intro h; apply hk; simp [h]
    have ih' := ih (by intro h; apply hk; simp only [List.map_cons, List.mem_cons]; exact Or.inr h)
    simp [amapSet, hne, ih']

/-- the first hit of a search loop whose body is only known on the items of the list -/
theorem forIn_findSome {α ρ : Type} (body : α → Option ρ × Unit → Go.M (ForInStep (Option ρ × Unit)))
    (sel : α → Option ρ) (items : List α)
    (h : ∀ a ∈ items, body a (none, ()) = pure (match sel a with
      | some r => ForInStep.done (some r, ()) | none => ForInStep.yield (none, ()))) :
    forIn items (none, ()) body = pure (items.findSome? sel, ()) := by
  induction items with
  | nil => rfl
  | cons a as ih =>
    rw [List.forIn_cons, h a (by simp)]
    cases hs : sel a with
    | some r => simp [hs]
    | none =>
      simp only [List.findSome?_cons, hs, pure_bind]
      exact ih (fun a' ha' => h a' (by simp [ha']))

/-- `for k, el := range v { v[k], err = f(el); if err != nil { return R } }`.  The loop state is
`mk v` (the map and whatever else the body assigns, e.g. `err`, which is back at its start value
after every successful iteration); the state on the failing exit is of no interest. -/
theorem forIn_amapUpdate {σ ρ : Type} (mk : List (String × Y) → σ) (g : Y → Option Y) (R : ρ)
    (junk : String × Y → List (String × Y) → σ)
    (body : String × Y → Option ρ × σ → Go.M (ForInStep (Option ρ × σ)))
    (rest : List (String × Y))
    (h : ∀ kv v, kv ∈ rest → body kv (none, mk v) = pure (match g kv.2 with
      | some x => ForInStep.yield (none, mk (amapSet v kv.1 x))
      | none => ForInStep.done (some R, junk kv v))) :
    ∀ (A : List (String × Y)), ((A ++ rest).map (·.1)).Nodup →
    ∃ s, forIn rest (none, mk (A ++ rest)) body = pure (match mapKVs g rest with
      | some rest' => (none, mk (A ++ rest'))
      | none => (some R, s)) := by
  induction rest with
  | nil => intro A _; exact ⟨mk [], by simp [mapKVs]⟩
  | cons kv rest ih =>
    intro A hnd
    obtain ⟨k, el⟩ := kv
    rw [List.forIn_cons, h (k, el) _ (by simp)]
    cases hg : g el with
    | none => exact ⟨junk (k, el) (A ++ (k, el) :: rest), by simp [mapKVs, hg]⟩
    | some x =>
      have hk : k ∉ A.map (·.1) := by
        intro hm
        simp only [List.map_append, List.map_cons, List.nodup_append, List.mem_cons] at hnd
        exact hnd.2.2 k hm k (Or.inl rfl) rfl
      have hnd' : (((A ++ [(k, x)]) ++ rest).map (·.1)).Nodup := by
        simpa [List.map_append] using hnd
      obtain ⟨s, hs⟩ := ih (fun kv v hm => h kv v (by simp [hm])) (A ++ [(k, x)]) hnd'
      refine ⟨s, ?_⟩
      simp only [pure_bind, amapSet_mid A k el x rest hk]
      have e : A ++ (k, x) :: rest = (A ++ [(k, x)]) ++ rest := by simp
      rw [e, hs]
      simp only [mapKVs, hg]
      cases mapKVs g rest <;> simp

/-- `for i, el := range v { v[i], err = f(el); if err != nil { return R } }`; the loop state is
`mk v i` -/
theorem forIn_listUpdate {σ ρ : Type} (mk : List Y → Nat → σ) (g : Y → Option Y) (R : ρ)
    (junk : Y → List Y → Nat → σ)
    (body : Y → Option ρ × σ → Go.M (ForInStep (Option ρ × σ)))
    (rest : List Y)
    (h : ∀ el v i, el ∈ rest → i < v.length → body el (none, mk v i) = pure (match g el with
      | some x => ForInStep.yield (none, mk (v.set i x) (i + 1))
      | none => ForInStep.done (some R, junk el v i))) :
    ∀ (A : List Y),
    ∃ s, forIn rest (none, mk (A ++ rest) A.length) body = pure (match mapList g rest with
      | some rest' => (none, mk (A ++ rest') (A ++ rest).length)
      | none => (some R, s)) := by
  induction rest with
  | nil => intro A; exact ⟨mk [] 0, by simp [mapList]⟩
  | cons el rest ih =>
    intro A
    rw [List.forIn_cons, h el _ _ (by simp) (by simp)]
    cases hg : g el with
    | none => exact ⟨junk el (A ++ el :: rest) A.length, by simp [mapList, hg]⟩
    | some x =>
      obtain ⟨s, hs⟩ := ih (fun el v i hm => h el v i (by simp [hm])) (A ++ [x])
      refine ⟨s, ?_⟩
      have e : (A ++ el :: rest).set A.length x = (A ++ [x]) ++ rest := by simp
      have e2 : A.length + 1 = (A ++ [x]).length := by simp
      simp only [pure_bind, e]
      rw [e2, hs]
      simp only [mapList, hg]
      cases mapList g rest <;> simp [Nat.add_left_comm]

end GoReduce

import Model.GoParams
import Model.Gencommon
/-! REGENERATED on every run by harness/cmd/go2lean -spec gencommonparams from gencommon/params.go and
gencommon/method.go.  Do not edit.  Each definition follows the Go function of the same name statement by
statement.  `map[string]int` is `Go.SIMap`, `Params` (`[]*Param`, distinct pointers) a `List Gencommon.P`
whose `name` is the field `Name` and whose `isErr` / `isCtx` are `TypeImplements(p.ActualType,
ErrorInterface / ContextInterface)`; `fuel` bounds the iterations of `for { … }` (Model/GoParams.lean).
A function returns its Go result followed by the new values of what it can write through. -/
namespace Generated.GoGencommonParams

/-- `func getSafeParamName(paramDeduper map[string]int, paramName string, alwaysNumber bool) string` -/
def getSafeParamName (fuel : Nat) (paramDeduper : Go.SIMap) (paramName : Go.Str) (alwaysNumber : Bool) : Go.M (Go.Str × Go.SIMap) := do
  let mut paramDeduper := paramDeduper
  let r1 := Go.simGet paramDeduper paramName
  let mut v : Nat := r1.1
  let mut ok : Bool := r1.2
  let mut result : Go.Str := paramName
  if (ok || alwaysNumber) then
    let r2 ← Go.loopN (fun (st : Go.Str × Nat) => do
        let mut result : Go.Str := st.1
        let mut v : Nat := st.2
        result := (paramName ++ (Go.itoa v))
        v := v + 1
        let r3 := Go.simGet paramDeduper result
        let mut taken : Bool := r3.2
        if (!taken) then
          return ForInStep.done (result, v)
        return ForInStep.yield (result, v)) fuel (result, v)
    result := r2.1
    v := r2.2
  paramDeduper := Go.simSet paramDeduper paramName v
  return (result, paramDeduper)

/-- `func (ps Params) keepUserNames(paramDeduper map[string]int)` -/
def Params.keepUserNames (fuel : Nat) (ps : List Gencommon.P) (paramDeduper : Go.SIMap) : Go.M (List Gencommon.P × Go.SIMap) := do
  let mut ps := ps
  let mut paramDeduper := paramDeduper
  let mut psOut : List Gencommon.P := []
  for p_ in ps do
    let mut p : Gencommon.P := p_
    if ((!decide (p.name = (Go.str ""))) && (!decide (p.name = (Go.str "_")))) then
      let r1 ← getSafeParamName fuel paramDeduper p.name false
      paramDeduper := r1.2
      p := { p with name := r1.1 }
    psOut := psOut ++ [p]
  ps := psOut
  return (ps, paramDeduper)

/-- `func (ps Params) ensureNames(paramDeduper map[string]int, isOutput bool)` -/
def Params.ensureNames (fuel : Nat) (ps : List Gencommon.P) (paramDeduper : Go.SIMap) (isOutput : Bool) : Go.M (List Gencommon.P × Go.SIMap) := do
  let mut ps := ps
  let mut paramDeduper := paramDeduper
  let mut «prefix» : Go.Str := (Go.str "arg")
  if isOutput then
    «prefix» := (Go.str "ret")
  let mut psOut : List Gencommon.P := []
  let mut i : Nat := 0
  for p_ in ps do
    let mut p : Gencommon.P := p_
    if ((decide (p.name = (Go.str ""))) || (decide (p.name = (Go.str "_")))) then
      if ((isOutput && (decide (((List.length ps) - 1) = i))) && p.isErr) then
        let r1 ← getSafeParamName fuel paramDeduper (Go.str "err") false
        paramDeduper := r1.2
        p := { p with name := r1.1 }
      else if (((!isOutput) && (decide (i = 0))) && p.isCtx) then
        let r2 ← getSafeParamName fuel paramDeduper (Go.str "ctx") false
        paramDeduper := r2.2
        p := { p with name := r2.1 }
      else
        let r3 ← getSafeParamName fuel paramDeduper «prefix» true
        paramDeduper := r3.2
        p := { p with name := r3.1 }
    psOut := psOut ++ [p]
    i := i + 1
  ps := psOut
  return (ps, paramDeduper)

/-- `func (m *Method) ensureParamNames()` -/
def Method.ensureParamNames (fuel : Nat) (mInput : List Gencommon.P) (mOutput : List Gencommon.P) : Go.M (List Gencommon.P × List Gencommon.P) := do
  let mut mInput := mInput
  let mut mOutput := mOutput
  let mut paramDeduper : Go.SIMap := (Go.simMake ((List.length mInput) + (List.length mOutput)))
  let r1 ← Params.keepUserNames fuel mInput paramDeduper
  mInput := r1.1
  paramDeduper := r1.2
  let r2 ← Params.keepUserNames fuel mOutput paramDeduper
  mOutput := r2.1
  paramDeduper := r2.2
  let r3 ← Params.ensureNames fuel mInput paramDeduper false
  mInput := r3.1
  paramDeduper := r3.2
  let r4 ← Params.ensureNames fuel mOutput paramDeduper true
  mOutput := r4.1
  paramDeduper := r4.2
  return (mInput, mOutput)

end Generated.GoGencommonParams

import Model.LogRt
/-! REGENERATED on every run by harness/cmd/go2lean -spec log from log/context_utils.go and log/custom_level.go. Do not edit.
Each definition follows the Go function of the same name statement by statement; Model/LogRt.lean fixes what
the primitives mean.  Functions that touch holders, contexts or the global logger are `do` blocks in `LogRt.M`
(all take `fuel`, the bound of `for {}`), the others plain definitions; a func literal is lifted to `<function>.func<n>` over the
variables it captures; a receiver `c *customLevelCoreWrapper` is its two fields; `z` is zap (`LogRt.Zap`).
`logHolder.update.steps` is `(*logHolder).update` once more, as the step program of one goroutine (`LogRt.Prog`).
Not translated: TestContext (builds a context around zaptest.NewLogger(t); the holder/context part is InitLogger's).
-/
namespace Generated.GoLog
open LogRt
set_option linter.unusedVariables false

/-- func literal 1 of `CustomLevelLogger`: `func(core zapcore.Core) zapcore.Core { return &customLevelCoreWrapper{ Core: core, minLevel: level, } }` -/
def CustomLevelLogger.func1 (z : Zap) (level : ZLevel) (core : ZCore) : ZCore :=
  (mkWrapper (Core := core) (minLevel := level))

/-- `func CustomLevelLogger(logger *zap.Logger, level zapcore.Level) *zap.Logger` -/
def CustomLevelLogger (z : Zap) (logger : Logger) (level : ZLevel) : Logger :=
  (z.withWrapCore logger (CustomLevelLogger.func1 z level))

/-- `func (c *customLevelCoreWrapper) Level() zapcore.Level` -/
def customLevelCoreWrapper.Level (z : Zap) (c_Core : ZCore) (c_minLevel : ZLevel) : ZLevel :=
  c_minLevel

/-- `func (c *customLevelCoreWrapper) Enabled(l zapcore.Level) bool` -/
def customLevelCoreWrapper.Enabled (z : Zap) (c_Core : ZCore) (c_minLevel : ZLevel) (l : ZLevel) : Bool :=
  (decide (c_minLevel ≤ l))

/-- `func (c *customLevelCoreWrapper) With(fields []zapcore.Field) zapcore.Core` -/
def customLevelCoreWrapper.With (z : Zap) (c_Core : ZCore) (c_minLevel : ZLevel) (fields : List ZField) : ZCore :=
  (mkWrapper (Core := (z.coreWith c_Core fields)) (minLevel := c_minLevel))

/-- `func (c *customLevelCoreWrapper) Check(ent zapcore.Entry, ce *zapcore.CheckedEntry) *zapcore.CheckedEntry` -/
def customLevelCoreWrapper.Check {κ : Type} (addCore : κ → Entry → ZCore → κ) (z : Zap) (c_Core : ZCore) (c_minLevel : ZLevel) (ent : Entry) (ce : κ) : κ :=
  if (customLevelCoreWrapper.Enabled z c_Core c_minLevel ent.Level) then
    (addCore ce ent (mkWrapper c_Core c_minLevel))
  else
  ce

/-- `func (lh *logHolder) update(derive func(*zap.Logger) *zap.Logger)` -/
def logHolder.update (fuel : Nat) (z : Zap) (lh : Holder) (derive : (Logger → Logger)) : M Unit := do
  loop fuel (do
    let mut logger : Logger := (← load lh)
    if (← cas lh logger (derive logger)) then
      return (some ())
    return none)

/-- `func (lh *logHolder) update(derive func(*zap.Logger) *zap.Logger)` as the step program of one goroutine -/
def logHolder.update.steps : StepProg where
  loop := true
  body :=
    Prog.load fun logger =>
    Prog.derive logger fun t1 =>
    Prog.cas logger t1 fun t2 =>
    if t2 then
      Prog.ret
    else
    Prog.fall

/-- `func getOrDefault(ctx context.Context) (*logHolder, bool)` -/
def getOrDefault (fuel : Nat) (z : Zap) (ctx : Ctx) : M (Holder × Bool) := do
  let r1 := ctxHolder ctx
  let mut lh : Holder := r1.1
  let mut ok : Bool := r1.2
  if ok then
    return (lh, true)
  lh := (← newHolder)
  store lh (← globalLogger)
  return (lh, false)

/-- `func InitLogger(ctx context.Context, fields ...zap.Field) context.Context` -/
def InitLogger (fuel : Nat) (z : Zap) (ctx : Ctx) (fields : List ZField) : M Ctx := do
  let mut ctx := ctx
  let mut lh : Holder := (← newHolder)
  store lh (z.loggerWith (← globalLogger) fields)
  ctx := (← withHolder ctx lh)
  return ctx

/-- `func ChildLogger(ctx context.Context, fields ...zap.Field) context.Context` -/
def ChildLogger (fuel : Nat) (z : Zap) (ctx : Ctx) (fields : List ZField) : M Ctx := do
  let mut ctx := ctx
  let r1 := (← getOrDefault fuel z ctx)
  let mut lh : Holder := r1.1
  let mut newLogger : Logger := (z.loggerWith (← load lh) fields)
  lh := (← newHolder)
  store lh newLogger
  ctx := (← withHolder ctx lh)
  return ctx

/-- `func Log(ctx context.Context) *zap.Logger` -/
def Log (fuel : Nat) (z : Zap) (ctx : Ctx) : M Logger := do
  let r1 := (← getOrDefault fuel z ctx)
  let mut lh : Holder := r1.1
  return (← load lh)

/-- func literal 1 of `SetLevel`: `func(logger *zap.Logger) *zap.Logger { return CustomLevelLogger(logger, level) }` -/
def SetLevel.func1 (z : Zap) (level : ZLevel) (logger : Logger) : Logger :=
  (CustomLevelLogger z logger level)

/-- `func SetLevel(ctx context.Context, level zapcore.Level) context.Context` -/
def SetLevel (fuel : Nat) (z : Zap) (ctx : Ctx) (level : ZLevel) : M Ctx := do
  let mut ctx := ctx
  let r1 := (← getOrDefault fuel z ctx)
  let mut lh : Holder := r1.1
  let mut ok : Bool := r1.2
  logHolder.update fuel z lh (SetLevel.func1 z level)
  if (!ok) then
    ctx := (← withHolder ctx lh)
  return ctx

/-- `func EnableDebug(ctx context.Context) context.Context` -/
def EnableDebug (fuel : Nat) (z : Zap) (ctx : Ctx) : M Ctx := do
  return (← SetLevel fuel z ctx DebugLevel)

/-- func literal 1 of `WithFields`: `func(logger *zap.Logger) *zap.Logger { return logger.With(fields...) }` -/
def WithFields.func1 (z : Zap) (fields : List ZField) (logger : Logger) : Logger :=
  (z.loggerWith logger fields)

/-- `func WithFields(ctx context.Context, fields ...zap.Field) context.Context` -/
def WithFields (fuel : Nat) (z : Zap) (ctx : Ctx) (fields : List ZField) : M Ctx := do
  let mut ctx := ctx
  let r1 := (← getOrDefault fuel z ctx)
  let mut lh : Holder := r1.1
  let mut ok : Bool := r1.2
  logHolder.update fuel z lh (WithFields.func1 z fields)
  if (!ok) then
    ctx := (← withHolder ctx lh)
  return ctx

/-- the translated functions -/
def translated : List String := ["ChildLogger", "CustomLevelLogger", "EnableDebug", "InitLogger", "Log", "SetLevel", "WithFields", "customLevelCoreWrapper.Check", "customLevelCoreWrapper.Enabled", "customLevelCoreWrapper.Level", "customLevelCoreWrapper.With", "getOrDefault", "logHolder.update", "logHolder.update.steps"]

/-- other functions of the package (not called by the translated ones, or the translation would have failed) -/
def untranslated : List String := ["TestContext"]

end Generated.GoLog

package main

import (
	"math/big"
	"strings"
)

// impl interprets the `gn …` protocol on the real generator and on the code it generated.
type impl struct {
	w   *world
	def *Def
	cur *built
}

func (m *impl) Reset() { m.def, m.cur = &Def{Opts: "-"}, nil }

func (m *impl) Exec(line string) string {
	ws := strings.Fields(line)
	if len(ws) == 0 {
		return "bad-op"
	}
	switch ws[0] {
	case "case":
		return strings.Join(ws, " ")
	case "echo":
		return strings.Join(ws[1:], " ")
	case "gn":
	default:
		return "bad-op"
	}
	if len(ws) < 2 {
		return "bad-op"
	}
	switch ws[1] {
	case "opt", "type", "const", "block", "skip", "other", "parsable", "col", "pre":
		if m.def == nil {
			m.def = &Def{Opts: "-"}
		}
		if !m.def.addLine(ws) {
			return "bad-op"
		}
		return "ok"
	case "gen":
		if len(ws) != 2 || m.def == nil {
			return "bad-op"
		}
		cp := *m.def
		cp.Parsable = append([]string{}, m.def.Parsable...)
		cp.Pre = append([]string{}, m.def.Pre...)
		cp.Types = append([]TypeD{}, m.def.Types...)
		cp.Items = append([]Item{}, m.def.Items...)
		m.cur = m.w.get(&cp)
		if m.cur.probe != nil {
			m.cur.probe.fresh()
		}
		return m.cur.status
	}
	if len(ws) < 3 {
		return "bad-op"
	}
	if m.cur == nil || m.cur.status != "ok" {
		return "no-gen"
	}
	op, t := ws[1], ws[2]
	kind := m.cur.def.kindOf(t)
	if kind == "" {
		return "no-type"
	}
	switch {
	case (op == "values" || op == "strvals") && len(ws) == 3:
		return m.cur.probe.ask(t + " " + op)
	case (op == "valid" || op == "str") && len(ws) == 4:
		if ws[3] != "all" {
			lo, hi := kindRange(kind)
			for _, x := range strings.Split(ws[3], ",") {
				v, ok := new(big.Int).SetString(x, 10)
				if !ok || v.Cmp(lo) < 0 || v.Cmp(hi) > 0 {
					return "bad-op"
				}
			}
		}
		return m.cur.probe.ask(t + " " + op + " " + ws[3])
	case op == "parse" && len(ws) == 4:
		return m.cur.probe.ask(t + " parse " + ws[3])
	case (op == "trait" || op == "marshal" || op == "rt" || op == "rtf") && len(ws) == 5:
		if op != "trait" && ws[3] != "json" && ws[3] != "yaml" && ws[3] != "text" {
			return "bad-op"
		}
		if op == "rtf" && ws[3] == "text" {
			return "bad-op"
		}
		if ws[4] != "all" {
			lo, hi := kindRange(kind)
			for _, x := range strings.Split(ws[4], ",") {
				v, ok := new(big.Int).SetString(x, 10)
				if !ok || v.Cmp(lo) < 0 || v.Cmp(hi) > 0 {
					return "bad-op"
				}
			}
		}
		return m.cur.probe.ask(strings.Join([]string{t, op, ws[3], ws[4]}, " "))
	case op == "sdec" && len(ws) == 6:
		// the implementation side decodes the rendered document
		td := m.cur.def.typeD(t)
		parsable := false
		for _, p := range m.cur.def.Parsable {
			if p == ws[4] {
				parsable = true
			}
		}
		known := false
		inner := ""
		for _, c := range td.Cols {
			if c.Name == ws[4] {
				known = true
				// a trait type that brings its own unmarshaler FOR THIS CODEC reads its own documents
				// (an enum: names); without one it is, for this codec, a plain integer type
				if in, _, ok := innerOfFam(c.Fam); ok && famImplements(c.Fam, ws[3]) {
					inner = in
				}
			}
		}
		if !known {
			return "no-trait"
		}
		if !parsable {
			return "not-parsable"
		}
		k, p, ok := strings.Cut(ws[5], ":")
		if !ok {
			return "bad-op"
		}
		doc := ""
		switch {
		case inner != "" && k == "i":
			// a trait type that decodes itself for this codec (another enum generated with the codec's
			// switch on, a hand-written type): the document holds the NAME of the inner value (JSON
			// string / YAML scalar)
			v, ok := new(big.Int).SetString(p, 10)
			if !ok {
				return "bad-op"
			}
			pr, ok := primaryOf(m.cur.def, inner)[v.String()]
			if !ok {
				return "bad-op"
			}
			doc = "s:" + hexOf2(pr.Name)
		case k == "s":
			doc = "s:" + p
		case k == "i":
			doc = "n:" + p
		case k == "b":
			doc = "o:" + hexOf(map[string]string{"t": "true", "f": "false"}[p])
		default:
			return "bad-op"
		}
		return m.cur.probe.ask(strings.Join([]string{t, "dec", ws[3], doc}, " "))
	case (op == "ptrait" || op == "dec") && len(ws) == 5:
		return m.cur.probe.ask(strings.Join([]string{t, op, ws[3], ws[4]}, " "))
	}
	return "bad-op"
}

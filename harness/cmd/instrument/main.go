// instrument: tie C source rewriter. Copies the non-test Go files of a /repo package into a
// scratch directory, rewriting ONLY the import paths "sync/atomic" and "sync" (to the scheduler
// shims with identical APIs) and calls of the builtin close (to sched.CloseLate / sched.Close), and writes a
// `go build -overlay` file that maps them over the stub package <dst-pkg-dir> of the harness.
//
//	instrument -src /repo/gsync -dst /verif/harness/instr/gsyncx -tmp <scratch dir> -overlay <file>
package main

import (
	"encoding/json"
	"flag"
	"fmt"
	"go/ast"
	"go/format"
	"go/parser"
	"go/token"
	"os"
	"path/filepath"
	"strconv"
	"strings"
)

const (
	shimAtomic = "verif/harness/internal/sched/atomic"
	shimSync   = "verif/harness/internal/sched/sync"
	schedPkg   = "verif/harness/internal/sched"
)

func main() {
	src := flag.String("src", "", "package directory in /repo")
	dst := flag.String("dst", "", "stub package directory in the harness")
	tmp := flag.String("tmp", "", "scratch directory for the rewritten files")
	overlay := flag.String("overlay", "", "overlay JSON to write")
	flag.Parse()
	ents, err := os.ReadDir(*src)
	if err != nil {
		fail(err)
	}
	replace := map[string]string{}
	// hide whatever is committed in the stub directory
	if st, err := os.ReadDir(*dst); err == nil {
		for _, e := range st {
			if strings.HasSuffix(e.Name(), ".go") {
				replace[filepath.Join(*dst, e.Name())] = ""
			}
		}
	}
	stats := map[string]int{}
	for _, e := range ents {
		n := e.Name()
		if e.IsDir() || !strings.HasSuffix(n, ".go") || strings.HasSuffix(n, "_test.go") {
			continue
		}
		fset := token.NewFileSet()
		f, err := parser.ParseFile(fset, filepath.Join(*src, n), nil, parser.ParseComments)
		if err != nil {
			fail(err)
		}
		usesClose := false
		// a statement `close(X)` becomes vsched.CloseLate(func(op *vsched.Op) { vsched.CloseNow(op, X) }):
		// yield first, evaluate X when the close is performed (see sched.CloseLate)
		stmtCalls := map[*ast.CallExpr]bool{}
		ast.Inspect(f, func(nd ast.Node) bool {
			if es, ok := nd.(*ast.ExprStmt); ok {
				if c, ok := es.X.(*ast.CallExpr); ok {
					stmtCalls[c] = true
				}
			}
			return true
		})
		var rewritten []*ast.CallExpr
		ast.Inspect(f, func(nd ast.Node) bool {
			if c, ok := nd.(*ast.CallExpr); ok {
				if id, ok := c.Fun.(*ast.Ident); ok && id.Name == "close" && id.Obj == nil && len(c.Args) == 1 {
					usesClose = true
					stats["close"]++
					if stmtCalls[c] {
						rewritten = append(rewritten, c)
						return true
					}
					c.Fun = &ast.SelectorExpr{X: ast.NewIdent("vsched"), Sel: ast.NewIdent("Close")}
				}
			}
			return true
		})
		for _, c := range rewritten {
			// every new node carries the position of the original call, so that the printer keeps
			// the file's comments where they were
			pos, end := c.Pos(), c.End()
			id := func(n string) *ast.Ident { return &ast.Ident{NamePos: pos, Name: n} }
			inner := &ast.CallExpr{
				Fun:    &ast.SelectorExpr{X: id("vsched"), Sel: id("CloseNow")},
				Lparen: pos,
				Args:   []ast.Expr{id("vschedOp"), c.Args[0]},
				Rparen: end,
			}
			lit := &ast.FuncLit{
				Type: &ast.FuncType{Func: pos, Params: &ast.FieldList{Opening: pos, Closing: pos, List: []*ast.Field{{
					Names: []*ast.Ident{id("vschedOp")},
					Type:  &ast.StarExpr{Star: pos, X: &ast.SelectorExpr{X: id("vsched"), Sel: id("Op")}},
				}}}},
				Body: &ast.BlockStmt{Lbrace: pos, List: []ast.Stmt{&ast.ExprStmt{X: inner}}, Rbrace: end},
			}
			c.Fun = &ast.SelectorExpr{X: id("vsched"), Sel: id("CloseLate")}
			c.Args = []ast.Expr{lit}
		}
		for _, im := range f.Imports {
			p, _ := strconv.Unquote(im.Path.Value)
			switch p {
			case "sync/atomic":
				im.Path.Value = strconv.Quote(shimAtomic)
				if im.Name == nil {
					im.Name = ast.NewIdent("atomic")
				}
				stats["sync/atomic"]++
			case "sync":
				im.Path.Value = strconv.Quote(shimSync)
				if im.Name == nil {
					im.Name = ast.NewIdent("sync")
				}
				stats["sync"]++
			}
		}
		if usesClose {
			spec := &ast.ImportSpec{Name: ast.NewIdent("vsched"), Path: &ast.BasicLit{Kind: token.STRING, Value: strconv.Quote(schedPkg)}}
			decl := &ast.GenDecl{Tok: token.IMPORT, Specs: []ast.Spec{spec}}
			f.Decls = append([]ast.Decl{decl}, f.Decls...)
			f.Imports = append(f.Imports, spec)
		}
		out := filepath.Join(*tmp, n)
		w, err := os.Create(out)
		if err != nil {
			fail(err)
		}
		if err := format.Node(w, fset, f); err != nil {
			fail(err)
		}
		w.Close()
		replace[filepath.Join(*dst, n)] = out
	}
	b, _ := json.MarshalIndent(map[string]any{"Replace": replace}, "", " ")
	if err := os.WriteFile(*overlay, b, 0o644); err != nil {
		fail(err)
	}
	fmt.Printf("instrumented %s: %v\n", *src, stats)
}

func fail(err error) {
	fmt.Fprintln(os.Stderr, "instrument:", err)
	os.Exit(1)
}

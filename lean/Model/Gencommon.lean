/-!
# Model of `gencommon` (FindInterface and what it renders)

Three parts, each a mirror of the Go code:

* (a) `params.go` / `method.go`: `getSafeParamName`, `ensureNames`, `ensureParamNames`
* (b) `interface.go`: `namedTypeToInterface` — method collection, private filter, embedded-method
  merge — over an abstract embedding tree `Ty σ` (own methods, ordered embedded fields)
* (c) `imports.go`: `ExtractTypeRef` / `addNamed` over `GoType`, producing a type expression tree
  `TExpr` and the activated import table

Names are `List Char` (so that the decimal rendering lemmas of core apply).  `…Legacy` definitions
are the algorithms at the pinned commit; the unsuffixed ones mirror the repaired code
(`fix-C19.diff`).  Specifications (mirrors of the property text) are at the end of each part.
-/
namespace Gencommon

abbrev Name := List Char

/-! ## (a) parameter naming -/

/-- `strconv.FormatInt(int64(v), 10)` for `v ≥ 0` -/
def num (v : Nat) : Name := Nat.toDigits 10 v

/-- `paramDeduper map[string]int` as an association list; the newest binding of a key wins -/
abbrev Deduper := List (Name × Nat)

def Deduper.get? (d : Deduper) (k : Name) : Option Nat := (d.find? (fun e => e.1 = k)).map (·.2)
def Deduper.has (d : Deduper) (k : Name) : Bool := d.any (fun e => e.1 = k)
def Deduper.put (d : Deduper) (k : Name) (v : Nat) : Deduper := (k, v) :: d
def Deduper.keys (d : Deduper) : List Name := d.map (·.1)

/-- `getSafeParamName` at the pinned commit -/
def getSafeLegacy (d : Deduper) (p : Name) (always : Bool) : Name × Deduper :=
  let v := (d.get? p).getD 0
  if (d.get? p).isSome || always then (p ++ num v, d.put p (v + 1)) else (p, d.put p v)

/-- the repaired loop `for { result = name+itoa(v); v++; if !taken(result) { break } }`.
`fuel` only makes the recursion structural; `firstFree_spec` shows `d.length + 1` suffices. -/
def firstFree (d : Deduper) (p : Name) : Nat → Nat → Nat
  | 0, v => v
  | fuel + 1, v => if d.has (p ++ num v) then firstFree d p fuel (v + 1) else v

/-- `getSafeParamName` (repaired): numbered candidates that are already keys are skipped -/
def getSafe (d : Deduper) (p : Name) (always : Bool) : Name × Deduper :=
  let v := (d.get? p).getD 0
  if (d.get? p).isSome || always then
    let w := firstFree d p (d.length + 1) v
    (p ++ num w, d.put p (w + 1))
  else (p, d.put p v)

/-- what parameter naming looks at: the declared name (`[]` = unnamed) and the two
`TypeImplements` answers -/
structure P where
  name : Name
  isErr : Bool := false
  isCtx : Bool := false
deriving DecidableEq, Repr

def blank (n : Name) : Bool := n = [] || n = ['_']

def argP : Name := ['a', 'r', 'g']
def retP : Name := ['r', 'e', 't']
def ctxP : Name := ['c', 't', 'x']
def errP : Name := ['e', 'r', 'r']

/-- first loop of `ensureNames` (= `keepUserNames` after the repair): named parameters -/
def keepNamed (gs : Deduper → Name → Bool → Name × Deduper) (d : Deduper) : List P → List P × Deduper
  | [] => ([], d)
  | p :: ps =>
    if blank p.name then
      let r := keepNamed gs d ps
      (p :: r.1, r.2)
    else
      let g := gs d p.name false
      let r := keepNamed gs g.2 ps
      ({ p with name := g.1 } :: r.1, r.2)

/-- the name an unnamed / `_` parameter at index `i` of `len` gets -/
def genName (gs : Deduper → Name → Bool → Name × Deduper) (isOutput : Bool) (len : Nat)
    (d : Deduper) (i : Nat) (p : P) : Name × Deduper :=
  if isOutput && len - 1 = i && p.isErr then gs d errP false
  else if !isOutput && i = 0 && p.isCtx then gs d ctxP false
  else gs d (if isOutput then retP else argP) true

/-- second loop of `ensureNames`: unnamed / `_` parameters; `i` is the index, `len = len(ps)` -/
def fillBlank (gs : Deduper → Name → Bool → Name × Deduper) (isOutput : Bool) (len : Nat)
    (d : Deduper) (i : Nat) : List P → List P × Deduper
  | [] => ([], d)
  | p :: ps =>
    if blank p.name then
      let g := genName gs isOutput len d i p
      let r := fillBlank gs isOutput len g.2 (i + 1) ps
      ({ p with name := g.1 } :: r.1, r.2)
    else
      let r := fillBlank gs isOutput len d (i + 1) ps
      (p :: r.1, r.2)

/-- `ensureNames` at the pinned commit: both loops on one list -/
def ensureNamesLegacy (d : Deduper) (isOutput : Bool) (ps : List P) : List P × Deduper :=
  let a := keepNamed getSafeLegacy d ps
  fillBlank getSafeLegacy isOutput ps.length a.2 0 a.1

/-- `(*Method).ensureParamNames` at the pinned commit -/
def ensureParamNamesLegacy (ins outs : List P) : List P × List P :=
  let a := ensureNamesLegacy [] false ins
  let b := ensureNamesLegacy a.2 true outs
  (a.1, b.1)

/-- `(*Method).ensureParamNames` (repaired): every user-chosen name of inputs and outputs is
registered before any name is generated -/
def ensureParamNames (ins outs : List P) : List P × List P :=
  let a := keepNamed getSafe [] ins
  let b := keepNamed getSafe a.2 outs
  let c := fillBlank getSafe false ins.length b.2 0 a.1
  let e := fillBlank getSafe true outs.length c.2 0 b.1
  (c.1, e.1)

/-! ### specification vocabulary for (a) -/

def names (ps : List P) : List Name := ps.map (·.name)

/-- the user-chosen names of a parameter list -/
def userNames (ps : List P) : List Name := (names ps).filter (fun n => !blank n)

def isLetter (c : Char) : Bool := c.isAlpha || c = '_' || decide (128 ≤ c.toNat)

/-- a Go identifier other than the blank identifier (ASCII letters, `_`, any non-ASCII rune
counted as a letter; keywords are not modelled) -/
def ValidIdent (n : Name) : Prop :=
  (∃ c cs, n = c :: cs ∧ isLetter c = true) ∧ (∀ c ∈ n, isLetter c = true ∨ c.isDigit = true) ∧
    n ≠ ['_']

/-! ## (b) method collection and embedded merge -/

/-- a named type as `namedTypeToInterface` sees it: its own methods in declaration order (for an
interface type: its complete method set) and the embedded fields whose type is a named type or a
pointer to one, in field order; `self` is what `ExtractTypeRef(t)` is called with for the
`TypeRef` field -/
inductive Ty (ρ σ : Type) where
  | mk (self : ρ) (own : List (Name × σ)) (emb : List (Ty ρ σ))

/-- `(*types.Func).Exported()` -/
def exported : Name → Bool
  | c :: _ => c.isUpper
  | [] => false

structure Opts where
  priv : Bool
  embedded : Bool
deriving DecidableEq, Repr

/-- state of the merge loop -/
structure Merge (τ : Type) where
  ignore : List Name      -- ignoreEmbeddedMethodsNamed
  toAdd : List (Name × τ) -- methodsToAdd (a Go map; kept in insertion order here)
  amb : List Name         -- repaired code only: names that are ambiguous below this type

/-- body of `for _, m := range embeddedIface.Methods` -/
def mergeStep {τ : Type} (st : Merge τ) (m : Name × τ) : Merge τ :=
  if st.ignore.contains m.1 then st
  else if st.toAdd.any (fun e => e.1 = m.1) then
    { ignore := m.1 :: st.ignore, toAdd := st.toAdd.filter (fun e => e.1 ≠ m.1), amb := m.1 :: st.amb }
  else { st with toAdd := st.toAdd ++ [m] }

/-- repaired code: body of `for name := range embeddedIface.ambiguous` -/
def ambStep {τ : Type} (st : Merge τ) (n : Name) : Merge τ :=
  if st.ignore.contains n then st
  else { ignore := n :: st.ignore, toAdd := st.toAdd.filter (fun e => e.1 ≠ n), amb := n :: st.amb }

/-- the result of `namedTypeToInterface`: methods, and (repaired code) the ambiguous names -/
structure IfaceR (τ : Type) where
  methods : List (Name × τ)
  amb : List Name

/-- own-method loop: private filter, then `MethodFromSignature` (`visit`, which may update the
import handler `S`) -/
def visitOwn {σ τ S : Type} (visit : S → σ → S × τ) (o : Opts) : S → List (Name × σ) → S × List (Name × τ)
  | s, [] => (s, [])
  | s, m :: ms =>
    if o.priv || exported m.1 then
      let v := visit s m.2
      let r := visitOwn visit o v.1 ms
      (r.1, (m.1, v.2) :: r.2)
    else visitOwn visit o s ms

mutual
/-- `namedTypeToInterface` (repaired).  `propagate = false` gives the pinned commit's algorithm,
which forgets the names an embedded type found ambiguous. -/
def nti {ρ σ τ S : Type} (enter : S → ρ → S) (visit : S → σ → S × τ) (propagate : Bool) (o : Opts) :
    S → Ty ρ σ → S × IfaceR τ
  | s, .mk self own emb =>
    let r := visitOwn visit o (enter s self) own
    if !o.embedded then (r.1, ⟨r.2, []⟩)
    else
      let e := ntiEmb enter visit propagate o r.1 emb ⟨r.2.map (·.1), [], []⟩
      (e.1, ⟨r.2 ++ e.2.toAdd, e.2.amb⟩)
/-- `for i := 0; i < s.NumFields(); i++` over the embedded fields -/
def ntiEmb {ρ σ τ S : Type} (enter : S → ρ → S) (visit : S → σ → S × τ) (propagate : Bool) (o : Opts) :
    S → List (Ty ρ σ) → Merge τ → S × Merge τ
  | s, [], st => (s, st)
  | s, t :: ts, st =>
    let r := nti enter visit propagate o s t
    let st1 := r.2.methods.foldl mergeStep st
    let st2 := if propagate then r.2.amb.foldl ambStep st1 else st1
    ntiEmb enter visit propagate o r.1 ts st2
end

/-- the merge on method names alone -/
def ifaceNames (propagate : Bool) (o : Opts) (t : Ty Unit Unit) : List Name :=
  (nti (fun (_ : Unit) (_ : Unit) => ()) (fun (_ : Unit) (_ : Unit) => ((), ())) propagate o () t).2.methods.map (·.1)

/-! ### specification for (b) -/

mutual
/-- every method name defined by the type or anywhere under its embedded fields -/
def allNames {ρ σ : Type} : Ty ρ σ → List Name
  | .mk _ own emb => own.map (·.1) ++ allNamesL emb
def allNamesL {ρ σ : Type} : List (Ty ρ σ) → List Name
  | [] => []
  | t :: ts => allNames t ++ allNamesL ts
end

mutual
/-- the property text, applied recursively: a type's interface has its own methods and the names
that are defined under exactly one embedded field and are in that field's interface -/
def specHas {ρ σ : Type} : Ty ρ σ → Name → Bool
  | .mk _ own emb, n => (own.map (·.1)).contains n || (specCount emb n == 1 && specAny emb n)
/-- number of embedded fields under which `n` is defined -/
def specCount {ρ σ : Type} : List (Ty ρ σ) → Name → Nat
  | [], _ => 0
  | t :: ts, n => (if (allNames t).contains n then 1 else 0) + specCount ts n
/-- `n` is in the interface of an embedded field under which it is defined -/
def specAny {ρ σ : Type} : List (Ty ρ σ) → Name → Bool
  | [], _ => false
  | t :: ts, n => specHas t n || specAny ts n
end

mutual
/-- Go's selector rule: number of methods called `n` at embedding depth exactly `d` -/
def countAt {ρ σ : Type} : Nat → Ty ρ σ → Name → Nat
  | 0, .mk _ own _, n => if (own.map (·.1)).contains n then 1 else 0
  | d + 1, .mk _ _ emb, n => countAtL d emb n
def countAtL {ρ σ : Type} : Nat → List (Ty ρ σ) → Name → Nat
  | _, [], _ => 0
  | d, t :: ts, n => countAt d t n + countAtL d ts n
end

/-- `x.n` is a legal method selector on `T` (hence in the method set of `*T`): exactly one `n` at
the shallowest depth that has one -/
def GoPromotes {ρ σ : Type} (t : Ty ρ σ) (n : Name) : Prop :=
  ∃ d, countAt d t n = 1 ∧ ∀ d', d' < d → countAt d' t n = 0

mutual
def height {ρ σ : Type} : Ty ρ σ → Nat
  | .mk _ _ emb => heightL emb + 1
def heightL {ρ σ : Type} : List (Ty ρ σ) → Nat
  | [] => 0
  | t :: ts => max (height t) (heightL ts)
end

/-- executable form of `GoPromotes`, scanning depths `d, d+1, …` -/
def goPromotesFrom {ρ σ : Type} (t : Ty ρ σ) (n : Name) : Nat → Nat → Bool
  | 0, _ => false
  | fuel + 1, d => if countAt d t n = 0 then goPromotesFrom t n fuel (d + 1) else countAt d t n = 1

def goPromotes {ρ σ : Type} (t : Ty ρ σ) (n : Name) : Bool := goPromotesFrom t n (height t + 1) 0

/-! ## (c) type references and imports -/

/-- `types.Type` as far as `ExtractTypeRef` distinguishes it -/
inductive GoType where
  | basic (n : Name)                       -- *types.Basic and universe names (`error`, `any`)
  | named (path pkgName n : Name) (targs : List GoType)  -- *types.Named / *types.Alias of a package
  | ptr (e : GoType)
  | slice (e : GoType)
  | array (len : Nat) (e : GoType)
  | map (k v : GoType)
  | func (params : List (Name × GoType)) (variadic : Bool) (results : List (Name × GoType))
  | other (text : Name)                    -- default branch: `t.String()`

/-- a rendered type reference, before flattening to text -/
inductive TExpr where
  | basic (n : Name)
  | named (alias : Option Name) (n : Name) (targs : List TExpr)
  | ptr (e : TExpr)
  | slice (e : TExpr)
  | array (len : Nat) (e : TExpr)
  | map (k v : TExpr)
  | func (params : List (Name × TExpr)) (variadic : Bool) (results : List TExpr)
  | other (text : Name)

structure ImportDesc where
  alias : Name
  path : Name
  aliasIsPkgName : Bool
  inUse : Bool
deriving DecidableEq, Repr

/-- `ImportHandler` -/
structure IH where
  cur : Name                         -- PInfo.PkgPath
  pinfoImports : List (Name × Name)  -- PInfo.Imports: path ↦ package name
  imports : List ImportDesc          -- the map `imports`, keyed by `path`

def IH.find? (ih : IH) (path : Name) : Option ImportDesc := ih.imports.find? (fun i => i.path = path)

def markUsed (path : Name) : List ImportDesc → List ImportDesc
  | [] => []
  | i :: is => if i.path = path then { i with inUse := true } :: is else i :: markUsed path is

def hasSuffix (s suf : Name) : Bool := suf.isSuffixOf s

/-- the import part of `addNamed`: returns the qualifier to print (`none` = same package) -/
def addImport (ih : IH) (path pkgName : Name) : IH × Option Name :=
  if path = ih.cur then (ih, none)
  else match ih.find? path with
    | some i => ({ ih with imports := markUsed path ih.imports }, some i.alias)
    | none =>
      let viaPInfo := (ih.pinfoImports.find? (fun e => e.1 = path)).map (·.2)
      let d : ImportDesc :=
        match viaPInfo, decide (pkgName = []) with
        | some nm, true => ⟨nm, path, true, true⟩
        | _, _ => ⟨pkgName, path, hasSuffix path pkgName, true⟩
      ({ ih with imports := ih.imports ++ [d] }, some d.alias)

def isErrorType : GoType → Bool
  | .basic n => n = "error".toList
  | _ => false

def isContextType : GoType → Bool
  | .named path _ n _ => path = "context".toList && n = "Context".toList
  | _ => false

def zipNames {α : Type} (ps : List P) (ts : List α) : List (Name × α) :=
  (ps.zip ts).map (fun x => (x.1.name, x.2))

mutual
/-- `(*ImportHandler).ExtractTypeRef` -/
def extract (gs : List P → List P → List P × List P) : IH → GoType → IH × TExpr
  | ih, .basic n => (ih, .basic n)
  | ih, .other s => (ih, .other s)
  | ih, .ptr e => let r := extract gs ih e; (r.1, .ptr r.2)
  | ih, .slice e => let r := extract gs ih e; (r.1, .slice r.2)
  | ih, .array k e => let r := extract gs ih e; (r.1, .array k r.2)
  | ih, .map k v =>
    let a := extract gs ih k
    let b := extract gs a.1 v
    (b.1, .map a.2 b.2)
  | ih, .named path pkgName n targs =>
    let a := addImport ih path pkgName
    let r := extractL gs a.1 targs
    (r.1, .named a.2 n r.2)
  | ih, .func ps variadic rs =>
    -- MethodFromSignature: params, results, ensureParamNames; only Signature() is kept
    let a := extractPs gs ih ps
    let b := extractPs gs a.1 rs
    let nm := gs (a.2.map (·.1)) (b.2.map (·.1))
    (b.1, .func (zipNames nm.1 (a.2.map (·.2))) variadic (b.2.map (·.2)))
def extractL (gs : List P → List P → List P × List P) : IH → List GoType → IH × List TExpr
  | ih, [] => (ih, [])
  | ih, t :: ts =>
    let a := extract gs ih t
    let r := extractL gs a.1 ts
    (r.1, a.2 :: r.2)
/-- `ParamsFromSignatureTuple` -/
def extractPs (gs : List P → List P → List P × List P) :
    IH → List (Name × GoType) → IH × List (P × TExpr)
  | ih, [] => (ih, [])
  | ih, p :: ps =>
    let a := extract gs ih p.2
    let r := extractPs gs a.1 ps
    (r.1, (⟨p.1, isErrorType p.2, isContextType p.2⟩, a.2) :: r.2)
end

/-- a method signature as `go/types` has it -/
structure Sig where
  params : List (Name × GoType)
  variadic : Bool
  results : List (Name × GoType)

/-- a `*Method` after `MethodFromSignature` -/
structure RMeth where
  input : List (Name × TExpr)
  variadic : Bool
  output : List (Name × TExpr)

/-- `MethodFromSignature` -/
def methodFromSignature (gs : List P → List P → List P × List P) (ih : IH) (s : Sig) : IH × RMeth :=
  let a := extractPs gs ih s.params
  let b := extractPs gs a.1 s.results
  let nm := gs (a.2.map (·.1)) (b.2.map (·.1))
  (b.1, ⟨zipNames nm.1 (a.2.map (·.2)), s.variadic, zipNames nm.2 (b.2.map (·.2))⟩)

/-- `FindInterface` on an already located type -/
def findInterface (legacy : Bool) (o : Opts) (ih : IH) (t : Ty GoType Sig) : IH × IfaceR RMeth :=
  let gs := if legacy then ensureParamNamesLegacy else ensureParamNames
  nti (fun ih self => (extract gs ih self).1) (methodFromSignature (if legacy then ensureParamNamesLegacy else ensureParamNames))
    (!legacy) o ih t

/-- `GetActive` (unsorted) -/
def IH.active (ih : IH) : List ImportDesc := ih.imports.filter (·.inUse)

/-! ### specification for (c): what a rendered reference denotes -/

/-- type identity: package identity is the import path, parameter names do not matter -/
inductive SType where
  | basic (n : Name)
  | named (path n : Name) (targs : List SType)
  | ptr (e : SType)
  | slice (e : SType)
  | array (len : Nat) (e : SType)
  | map (k v : SType)
  | func (params : List SType) (variadic : Bool) (results : List SType)
  | other (text : Name)
deriving Repr

mutual
/-- structural equality of denoted types (no `DecidableEq` deriving for nested inductives) -/
def SType.same : SType → SType → Bool
  | .basic a, .basic b => a = b
  | .other a, .other b => a = b
  | .ptr a, .ptr b => a.same b
  | .slice a, .slice b => a.same b
  | .array k a, .array l b => k = l && a.same b
  | .map a b, .map c d => a.same c && b.same d
  | .named p n ts, .named q m us => p = q && n = m && SType.sameL ts us
  | .func ps v rs, .func qs w ss => SType.sameL ps qs && v = w && SType.sameL rs ss
  | _, _ => false
def SType.sameL : List SType → List SType → Bool
  | [], [] => true
  | a :: as, b :: bs => a.same b && SType.sameL as bs
  | _, _ => false
end

mutual
def sem : GoType → SType
  | .basic n => .basic n
  | .other s => .other s
  | .ptr e => .ptr (sem e)
  | .slice e => .slice (sem e)
  | .array k e => .array k (sem e)
  | .map k v => .map (sem k) (sem v)
  | .named path _ n targs => .named path n (semL targs)
  | .func ps v rs => .func (semPs ps) v (semPs rs)
def semL : List GoType → List SType
  | [] => []
  | t :: ts => sem t :: semL ts
def semPs : List (Name × GoType) → List SType
  | [] => []
  | p :: ps => sem p.2 :: semPs ps
end

/-- which package a qualifier refers to in a file whose import block is `GetActive()` -/
def resolveAlias (act : List ImportDesc) (a : Name) : Option Name :=
  match act.filter (fun i => i.alias = a) with
  | [i] => some i.path
  | _ => none   -- not imported, or two imports under one name (does not compile)

mutual
/-- the type a rendered reference denotes inside package `cur` with import block `act` -/
def denote (cur : Name) (act : List ImportDesc) : TExpr → Option SType
  | .basic n => some (.basic n)
  | .other s => some (.other s)
  | .ptr e => (denote cur act e).map .ptr
  | .slice e => (denote cur act e).map .slice
  | .array k e => (denote cur act e).map (.array k)
  | .map k v => match denote cur act k, denote cur act v with
    | some a, some b => some (.map a b)
    | _, _ => none
  | .named none n targs => (denoteL cur act targs).map (.named cur n)
  | .named (some a) n targs => match resolveAlias act a, denoteL cur act targs with
    | some p, some ts => some (.named p n ts)
    | _, _ => none
  | .func ps v rs => match denotePs cur act ps, denoteL cur act rs with
    | some a, some b => some (.func a v b)
    | _, _ => none
def denoteL (cur : Name) (act : List ImportDesc) : List TExpr → Option (List SType)
  | [] => some []
  | t :: ts => match denote cur act t, denoteL cur act ts with
    | some a, some b => some (a :: b)
    | _, _ => none
def denotePs (cur : Name) (act : List ImportDesc) : List (Name × TExpr) → Option (List SType)
  | [] => some []
  | p :: ps => match denote cur act p.2, denotePs cur act ps with
    | some a, some b => some (a :: b)
    | _, _ => none
end


/-! ## rendering (`Signature`, `Declarations`, `TypeNames`, `ImportString`) -/

def joinWith (sep : Name) : List Name → Name
  | [] => []
  | [x] => x
  | x :: xs => x ++ sep ++ joinWith sep xs

def trimPrefix (pre s : Name) : Name := if pre.isPrefixOf s then s.drop pre.length else s

/-- `Params.Declarations()` on (name, TypeRef) pairs; the last one is variadic if `variadic` -/
def declarations (ps : List (Name × Name)) (variadic : Bool) : Name :=
  joinWith ", ".toList (ps.zipIdx.map (fun (x, i) =>
    if variadic && i + 1 = ps.length then x.1 ++ "... ".toList ++ trimPrefix "[]".toList x.2
    else x.1 ++ " ".toList ++ x.2))

/-- `(*Method).Signature()` -/
def signatureText (name : Name) (ps : List (Name × Name)) (variadic : Bool) (rs : List Name) : Name :=
  let out := joinWith ", ".toList rs
  if rs.length > 1 then name ++ "(".toList ++ declarations ps variadic ++ ") (".toList ++ out ++ ")".toList
  else name ++ "(".toList ++ declarations ps variadic ++ ") ".toList ++ out

mutual
def render : TExpr → Name
  | .basic n => n
  | .other s => s
  | .ptr e => '*' :: render e
  | .slice e => "[]".toList ++ render e
  | .array k e => "[".toList ++ num k ++ "]".toList ++ render e
  | .map k v => "map[".toList ++ render k ++ "]".toList ++ render v
  | .named a n targs =>
    (match a with | some a => a ++ ['.'] | none => []) ++ n ++
      (if targs.isEmpty then [] else "[".toList ++ joinWith ", ".toList (renderL targs) ++ "]".toList)
  | .func ps v rs => signatureText "func".toList (renderPs ps) v (renderL rs)
def renderL : List TExpr → List Name
  | [] => []
  | t :: ts => render t :: renderL ts
def renderPs : List (Name × TExpr) → List (Name × Name)
  | [] => []
  | p :: ps => (p.1, render p.2) :: renderPs ps
end

def RMeth.signature (name : Name) (m : RMeth) : Name :=
  signatureText name (renderPs m.input) m.variadic ((renderPs m.output).map (·.2))

def ImportDesc.importString (i : ImportDesc) : Name :=
  if i.aliasIsPkgName then "\"".toList ++ i.path ++ "\"".toList
  else i.alias ++ " \"".toList ++ i.path ++ "\"".toList

/-- the import declaration `ImportString` prints, as syntax: the explicit name (if one is written)
and the import path -/
def ImportDesc.importSpec (i : ImportDesc) : Option Name × Name :=
  if i.aliasIsPkgName then (none, i.path) else (some i.alias, i.path)

/-- text of an import declaration -/
def printSpec (s : Option Name × Name) : Name :=
  match s.1 with
  | some a => a ++ " \"".toList ++ s.2 ++ "\"".toList
  | none => "\"".toList ++ s.2 ++ "\"".toList

/-- Go spec, import declarations: the identifier an import declaration binds in the file block is
its explicit name if it has one, otherwise the name in the package clause of the imported package
(`decl path`) - which need not be the last element of the import path (`m/pkg/v2`, `package pkg`) -/
def boundName (decl : Name → Name) (s : Option Name × Name) : Name :=
  match s.1 with
  | some a => a
  | none => decl s.2

/-- the identifier that the import line printed for `i` binds -/
def ImportDesc.bound (decl : Name → Name) (i : ImportDesc) : Name := boundName decl i.importSpec

/-- which package a qualifier refers to in a file whose import block is the `ImportString()` of
every entry of `act` (`resolveAlias` reads the `Alias` fields instead) -/
def resolveBound (decl : Name → Name) (act : List ImportDesc) (a : Name) : Option Name :=
  match act.filter (fun i => i.bound decl = a) with
  | [i] => some i.path
  | _ => none

/-- `path.Base` for the non-empty slash-separated import paths used here -/
def pathBase (p : Name) : Name := ((p.splitOn '/').getLast?).getD p

/-- `calcImports`: one entry per import spec of the file (`alias = none`: no name given) -/
def calcImports (cur : Name) (pinfoImports : List (Name × Name)) (specs : List (Name × Option Name)) : IH :=
  { cur := cur, pinfoImports := pinfoImports,
    imports := specs.map (fun (path, al) =>
      match al with
      | some a => ⟨a, path, false, false⟩
      | none => match pinfoImports.find? (fun e => e.1 = path) with
        | some e => ⟨e.2, path, true, false⟩
        | none => ⟨pathBase path, path, true, false⟩) }

end Gencommon

import Model.SetM
/-!
# C07 — Set is a mathematical set under every operation sequence
For every element type with decidable equality, every starting set (nil, empty, pre-filled) and
every operation sequence of any length.
-/
namespace SetM
variable {α : Type} [DecidableEq α]

/-! ### representation invariant: the key list has no duplicates -/

def Inv (s : S α) : Prop := (elems s).Nodup

theorem mem_insert (l : List α) (x y : α) : y ∈ insert l x ↔ y ∈ l ∨ y = x := by
  unfold insert; split <;> simp_all

theorem addStep_def (l : List α) (b : Bool) (x : α) :
    addStep (l, b) x = (insert l x, b || !decide (x ∈ l)) := rfl
theorem removeStep_def (l : List α) (b : Bool) (x : α) :
    removeStep (l, b) x = (l.erase x, b || decide (x ∈ l)) := rfl

theorem nodup_insert (l : List α) (x : α) (h : l.Nodup) : (insert l x).Nodup := by
  unfold insert; split
  · exact h
  · rename_i hx
    rw [List.nodup_append]
    refine ⟨h, by simp, ?_⟩
    intro a ha b hb
    simp at hb; subst hb
    intro e; subst e; exact hx ha

theorem addFold_fst_mem (l : List α) (b : Bool) (items : List α) (y : α) :
    y ∈ (items.foldl addStep (l, b)).1 ↔ y ∈ l ∨ y ∈ items := by
  induction items generalizing l b with
  | nil => simp
  | cons x xs ih =>
    rw [List.foldl_cons, addStep_def]
    rw [ih, mem_insert]; simp [or_assoc]

theorem addFold_fst_nodup (l : List α) (b : Bool) (items : List α) (h : l.Nodup) :
    (items.foldl addStep (l, b)).1.Nodup := by
  induction items generalizing l b with
  | nil => simpa
  | cons x xs ih =>
    rw [List.foldl_cons, addStep_def]
    exact ih _ _ (nodup_insert l x h)

theorem addFold_snd (l : List α) (b : Bool) (items : List α) :
    (items.foldl addStep (l, b)).2 = (b || items.any (fun x => !decide (x ∈ l))) := by
  induction items generalizing l b with
  | nil => simp
  | cons x xs ih =>
    rw [List.foldl_cons, addStep_def]
    rw [ih]
    by_cases hx : x ∈ l
    · have : insert l x = l := by simp [insert, hx]
      simp [hx, this]
    · simp [hx]

theorem removeFold_fst_mem (l : List α) (b : Bool) (items : List α) (h : l.Nodup) (y : α) :
    y ∈ (items.foldl removeStep (l, b)).1 ↔ y ∈ l ∧ y ∉ items := by
  induction items generalizing l b with
  | nil => simp
  | cons x xs ih =>
    rw [List.foldl_cons, removeStep_def]
    rw [ih _ _ (h.erase x), h.mem_erase_iff]
    simp; constructor
    · rintro ⟨⟨h1, h2⟩, h3⟩; exact ⟨h2, h1, h3⟩
    · rintro ⟨h2, h1, h3⟩; exact ⟨⟨h1, h2⟩, h3⟩

theorem removeFold_fst_nodup (l : List α) (b : Bool) (items : List α) (h : l.Nodup) :
    (items.foldl removeStep (l, b)).1.Nodup := by
  induction items generalizing l b with
  | nil => simpa
  | cons x xs ih =>
    rw [List.foldl_cons, removeStep_def]
    exact ih _ _ (h.erase x)

theorem removeFold_snd (l : List α) (b : Bool) (items : List α) (h : l.Nodup) :
    (items.foldl removeStep (l, b)).2 = (b || items.any (fun x => decide (x ∈ l))) := by
  induction items generalizing l b with
  | nil => simp
  | cons x xs ih =>
    rw [List.foldl_cons, removeStep_def]
    rw [ih _ _ (h.erase x)]
    by_cases hx : x ∈ l
    · simp [hx]
    · simp [hx, List.erase_of_not_mem hx]

/-! ### the invariant is preserved -/

theorem inv_make (items : List α) : Inv (make items) := by
  unfold Inv make elems
  suffices h : ∀ l : List α, l.Nodup → (items.foldl insert l).Nodup by exact h [] (by simp)
  induction items with
  | nil => intro l h; simpa
  | cons x xs ih => intro l h; exact ih _ (nodup_insert l x h)

theorem inv_add (s : S α) (items : List α) (h : Inv s) : Inv (add s items).1 :=
  addFold_fst_nodup _ _ _ h

theorem inv_remove (s : S α) (items : List α) (h : Inv s) : Inv (remove s items).1 := by
  unfold remove; split
  · exact h
  · exact removeFold_fst_nodup _ _ _ h

theorem inv_apply (s : S α) (op : Op α) (h : Inv s) : Inv (apply s op).1 := by
  cases op <;> simp only [apply] <;> first | exact inv_add s _ h | exact inv_remove s _ h | exact h

/-! ### membership after each operation -/

theorem mem_make (items : List α) (y : α) : y ∈ elems (make items) ↔ y ∈ items := by
  unfold make elems
  suffices h : ∀ l : List α, y ∈ items.foldl insert l ↔ y ∈ l ∨ y ∈ items by simpa using h []
  induction items with
  | nil => intro l; simp
  | cons x xs ih =>
    intro l; rw [List.foldl_cons, ih, mem_insert]; simp [or_assoc]

/-- `Add/AddSet`: the result contains exactly the old members and the arguments. -/
theorem mem_add (s : S α) (items : List α) (y : α) :
    y ∈ elems (add s items).1 ↔ y ∈ elems s ∨ y ∈ items :=
  addFold_fst_mem _ _ _ _

/-- `Remove/RemoveSet`: the result contains exactly the old members that are not arguments. -/
theorem mem_remove (s : S α) (items : List α) (h : Inv s) (y : α) :
    y ∈ elems (remove s items).1 ↔ y ∈ elems s ∧ y ∉ items := by
  unfold remove; split
  · rename_i h0
    have : elems s = [] := List.eq_nil_of_length_eq_zero h0
    simp [this]
  · exact removeFold_fst_mem _ _ _ h _

/-- `Add/AddSet` return true exactly when some argument was not a member … -/
theorem add_true_iff (s : S α) (items : List α) :
    (add s items).2 = true ↔ ∃ x ∈ items, x ∉ elems s := by
  unfold add; simp only; rw [addFold_snd]; simp

/-- … which is exactly when the membership changed. -/
theorem add_true_iff_changed (s : S α) (items : List α) :
    (add s items).2 = true ↔ abs (add s items).1 ≠ abs s := by
  rw [add_true_iff]
  constructor
  · rintro ⟨x, hx, hn⟩ heq
    have := congrFun heq x
    simp [abs, mem_add, hx, hn] at this
  · intro hne
    apply Classical.byContradiction
    intro hno
    apply hne
    funext y
    simp only [abs, mem_add]
    by_cases hy : y ∈ items
    · have : y ∈ elems s := Classical.byContradiction fun hn => hno ⟨y, hy, hn⟩
      simp [this]
    · simp [hy]

theorem remove_true_iff (s : S α) (items : List α) (h : Inv s) :
    (remove s items).2 = true ↔ ∃ x ∈ items, x ∈ elems s := by
  unfold remove; split
  · rename_i h0
    have : elems s = [] := List.eq_nil_of_length_eq_zero h0
    simp [this]
  · simp only; rw [removeFold_snd _ _ _ h]; simp

/-- `Remove/RemoveSet` return true exactly when the membership changed. -/
theorem remove_true_iff_changed (s : S α) (items : List α) (h : Inv s) :
    (remove s items).2 = true ↔ abs (remove s items).1 ≠ abs s := by
  rw [remove_true_iff s items h]
  constructor
  · rintro ⟨x, hx, hm⟩ heq
    have := congrFun heq x
    simp [abs, mem_remove s items h, hx, hm] at this
  · intro hne
    apply Classical.byContradiction
    intro hno
    apply hne
    funext y
    simp only [abs, mem_remove s items h]
    by_cases hy : y ∈ items
    · have : y ∉ elems s := fun hm => hno ⟨y, hy, hm⟩
      simp [this]
    · simp [hy]

/-- `Has(items...)`, at least one argument: true exactly when every listed item is a member. -/
theorem has_iff_all_mem (s : S α) (items : List α) (hne : items ≠ []) :
    has s items = true ↔ ∀ x ∈ items, x ∈ elems s := by
  unfold has; split
  · rename_i h0
    have : elems s = [] := List.eq_nil_of_length_eq_zero h0
    cases items with
    | nil => exact absurd rfl hne
    | cons x xs => simp [this]; exact ⟨x, by simp⟩
  · simp

/-- `HasAny(items...)`: true exactly when at least one listed item is a member. -/
theorem hasAny_iff_some_mem (s : S α) (items : List α) :
    hasAny s items = true ↔ ∃ x ∈ items, x ∈ elems s := by
  unfold hasAny; split
  · rename_i h0
    have : elems s = [] := List.eq_nil_of_length_eq_zero h0
    simp [this]
  · simp

/-- `Slice()` lists each member exactly once, and is nil exactly when the set is empty. -/
theorem slice_nodup_members (s : S α) (h : Inv s) :
    (slice s = none ↔ ∀ x, x ∉ elems s) ∧
    ∀ l, slice s = some l → l.Nodup ∧ ∀ x, x ∈ l ↔ x ∈ elems s := by
  unfold slice; split
  · rename_i h0
    have : elems s = [] := List.eq_nil_of_length_eq_zero h0
    simp [this]
  · rename_i h0
    constructor
    · simp
      cases hl : elems s with
      | nil => simp [hl] at h0
      | cons a t => exact ⟨a, by simp⟩
    · intro l hl; simp at hl; subst hl; exact ⟨h, fun _ => Iff.rfl⟩

/-! ### order independence of `AddSet` / `RemoveSet` (Go map iteration order) -/

theorem addSet_order_independent (s : S α) (xs ys : List α) (hp : xs.Perm ys) :
    abs (add s xs).1 = abs (add s ys).1 ∧ (add s xs).2 = (add s ys).2 := by
  constructor
  · funext y; simp [abs, mem_add, hp.mem_iff]
  · rw [Bool.eq_iff_iff, add_true_iff, add_true_iff]
    constructor <;> rintro ⟨x, hx, hn⟩
    · exact ⟨x, hp.mem_iff.1 hx, hn⟩
    · exact ⟨x, hp.mem_iff.2 hx, hn⟩

theorem removeSet_order_independent (s : S α) (h : Inv s) (xs ys : List α) (hp : xs.Perm ys) :
    abs (remove s xs).1 = abs (remove s ys).1 ∧ (remove s xs).2 = (remove s ys).2 := by
  constructor
  · funext y; simp [abs, mem_remove s _ h, hp.mem_iff]
  · rw [Bool.eq_iff_iff, remove_true_iff s _ h, remove_true_iff s _ h]
    constructor <;> rintro ⟨x, hx, hn⟩
    · exact ⟨x, hp.mem_iff.1 hx, hn⟩
    · exact ⟨x, hp.mem_iff.2 hx, hn⟩

/-! ### refinement: every operation sequence behaves like the mathematical set -/

theorem apply_refines (s : S α) (op : Op α) (h : Inv s) (hd : op.inDomain = true) :
    abs (apply s op).1 = (mathApply (abs s) op).1 ∧ (apply s op).2 = (mathApply (abs s) op).2 := by
  cases op with
  | add xs | addSet xs =>
    simp only [apply, mathApply]
    constructor
    · funext y; simp [abs, mem_add]
    · rw [Bool.eq_iff_iff, add_true_iff]; simp [abs]
  | remove xs | removeSet xs =>
    simp only [apply, mathApply]
    constructor
    · funext y; simp [abs, mem_remove s xs h]
    · rw [Bool.eq_iff_iff, remove_true_iff s xs h]; simp [abs]
  | has xs =>
    simp only [apply, mathApply, true_and]
    have hne : xs ≠ [] := by intro e; simp [Op.inDomain, e] at hd
    rw [Bool.eq_iff_iff, has_iff_all_mem s xs hne]; simp [abs]
  | hasAny xs =>
    simp only [apply, mathApply, true_and]
    rw [Bool.eq_iff_iff, hasAny_iff_some_mem]; simp [abs]

/-- Any operation sequence from any (nil / empty / pre-filled) set: final membership and every
returned boolean are those of the mathematical set. -/
theorem refines_math_set (s : S α) (ops : List (Op α)) (h : Inv s)
    (hd : ∀ op ∈ ops, op.inDomain = true) :
    abs (run s ops).1 = (mathRun (abs s) ops).1 ∧ (run s ops).2 = (mathRun (abs s) ops).2 := by
  induction ops generalizing s with
  | nil => simp [run, mathRun]
  | cons op ops ih =>
    have h1 := apply_refines s op h (hd op (by simp))
    have h2 := ih (apply s op).1 (inv_apply s op h) (fun o ho => hd o (by simp [ho]))
    simp only [run, mathRun]
    rw [← h1.1, ← h1.2]
    exact ⟨h2.1, by rw [h2.2]⟩

/-- The three starting points of the quantifier satisfy the invariant. -/
theorem inv_nil : Inv (none : S α) := by simp [Inv, elems]
theorem inv_empty : Inv (some [] : S α) := by simp [Inv, elems]

/-- `Has` at the pinned commit violates the membership clause when an argument is repeated. -/
theorem legacy_has_violates :
    hasLegacy (make [1]) [1, 1] = false ∧ (∀ x ∈ [1, 1], x ∈ elems (make [1])) := by decide

/-- non-vacuity: a pre-filled set and a sequence with repeats, absent items and a nil-set op. -/
example : (run (make [1, 2]) [.add [2, 3, 3], .remove [1, 9], .has [2, 2], .hasAny [9, 3]]).2
      = [true, true, true, true] ∧
    (run (none : S Nat) [.remove [1], .add [], .has [1], .add [1, 1], .has [1, 1]]).2
      = [false, false, false, true, true] := by decide

end SetM

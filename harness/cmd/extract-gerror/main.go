// extract-gerror: tie A of DESIGN.md for properties C09 and C15.
//
// Re-reads, from the gerror module the harness workspace currently points at,
//
//   - gerror.go    : the 19 factory methods of *GError — each must be (an optional
//     `if gerr, ok := err.(Error); ok { return gerr }` and) `return CloneBase(e, <StackType>, <dTag>,
//     <source>, <extMsg>, <srcError>)`;
//   - factory.go   : the method names of the Factory interface;
//   - stack.go     : the StackType constants and defaultSkip;
//   - gen/gerror.gotmpl : the same 19 stanzas of the generated extension types, plus the shape of
//     toPrimaryType and the order of the parts of Error(),
//
// and writes lean/Generated/GerrorBase.lean and lean/Generated/GerrorTmpl.lean.  It only extracts;
// the comparison is done by the Lean kernel (Properties/C15.lean, Properties/C09.lean).  Source that
// has left the shape described above is reported as an error (a broken tie), never guessed at.
package main

import (
	"bytes"
	"flag"
	"fmt"
	"go/ast"
	"go/parser"
	"go/printer"
	"go/token"
	"os"
	"os/exec"
	"path/filepath"
	"strconv"
	"strings"
	"text/template/parse"
)

type row struct {
	name         string
	sig          []string
	stack        string
	dtag         string
	src          string
	msg          string
	err          string
	shortCircuit bool
	guard        string // template only: enclosing {{if}} conditions
}

func fatal(format string, a ...any) {
	fmt.Fprintf(os.Stderr, "extract-gerror: "+format+"\n", a...)
	os.Exit(1)
}

func main() {
	out := flag.String("out", "../lean/Generated", "directory for the generated Lean files")
	dir := flag.String("gerror", "", "gerror module directory (default: resolved through the go workspace)")
	flag.Parse()
	if *dir == "" {
		b, err := exec.Command("go", "list", "-f", "{{.Dir}}", "github.com/drshriveer/gtools/gerror").Output()
		if err != nil {
			fatal("cannot resolve the gerror package: %v", err)
		}
		*dir = strings.TrimSpace(string(b))
	}
	fset := token.NewFileSet()

	// ---- Factory interface ------------------------------------------------------------------
	ff, err := parser.ParseFile(fset, filepath.Join(*dir, "factory.go"), nil, 0)
	if err != nil {
		fatal("%v", err)
	}
	var factoryMethods []string
	ast.Inspect(ff, func(n ast.Node) bool {
		ts, ok := n.(*ast.TypeSpec)
		if !ok || ts.Name.Name != "Factory" {
			return true
		}
		it, ok := ts.Type.(*ast.InterfaceType)
		if !ok {
			fatal("Factory is not an interface")
		}
		for _, m := range it.Methods.List {
			for _, n := range m.Names {
				if n.Name != "Error" && n.Name != "Is" {
					factoryMethods = append(factoryMethods, n.Name)
				}
			}
		}
		return false
	})
	if len(factoryMethods) == 0 {
		fatal("no Factory interface found in factory.go")
	}

	// ---- gerror.go --------------------------------------------------------------------------
	pkgConsts = loadConsts(fset, *dir)
	gf, err := parser.ParseFile(fset, filepath.Join(*dir, "gerror.go"), nil, 0)
	if err != nil {
		fatal("%v", err)
	}
	want := map[string]bool{}
	for _, m := range factoryMethods {
		want[m] = true
	}
	baseRows := map[string]row{}
	for _, d := range gf.Decls {
		fd, ok := d.(*ast.FuncDecl)
		if !ok || fd.Recv == nil || !want[fd.Name.Name] || recvType(fd) != "GError" {
			continue
		}
		r, err := extractMethod(fd, "", "")
		if err != nil {
			fatal("gerror.go: method %s: %v", fd.Name.Name, err)
		}
		baseRows[fd.Name.Name] = r
	}
	var baseList []row
	for _, m := range factoryMethods {
		r, ok := baseRows[m]
		if !ok {
			fatal("gerror.go: no method %s on *GError", m)
		}
		baseList = append(baseList, r)
	}

	// ---- stack.go ---------------------------------------------------------------------------
	sf, err := parser.ParseFile(fset, filepath.Join(*dir, "stack.go"), nil, 0)
	if err != nil {
		fatal("%v", err)
	}
	consts := map[string]string{}
	for _, d := range sf.Decls {
		gd, ok := d.(*ast.GenDecl)
		if !ok || gd.Tok != token.CONST {
			continue
		}
		for _, s := range gd.Specs {
			vs := s.(*ast.ValueSpec)
			for i, n := range vs.Names {
				if i < len(vs.Values) {
					if bl, ok := vs.Values[i].(*ast.BasicLit); ok && bl.Kind == token.INT {
						consts[n.Name] = bl.Value
					}
				}
			}
		}
	}
	for _, c := range []string{"NoStack", "SourceStack", "ShortStack", "DefaultStack", "defaultSkip"} {
		if _, ok := consts[c]; !ok {
			fatal("stack.go: integer constant %s not found", c)
		}
	}

	var b bytes.Buffer
	b.WriteString("import Model.GErrClone\n/-! GENERATED on every run by harness/cmd/extract-gerror from gerror/gerror.go, factory.go and\nstack.go of the checked tree — do not edit.  What `*GError`'s factory methods hand to `CloneBase`. -/\nnamespace Generated.GerrorBase\nopen GErrClone\n\n")
	b.WriteString("/-- method names of the `Factory` interface (without `Error`, `Is`), in declaration order -/\ndef factoryMethods : List String := [" + quoteList(factoryMethods) + "]\n\n")
	b.WriteString("def rows : List (String × Row) := [\n" + leanRows(baseList) + "]\n\n")
	var baseErrParts []string
	for _, d := range gf.Decls {
		if fd, ok := d.(*ast.FuncDecl); ok && fd.Name.Name == "Error" && recvType(fd) == "GError" {
			baseErrParts = extractErrorParts(fd)
		}
	}
	if baseErrParts == nil {
		fatal("gerror.go: no method Error on *GError")
	}
	b.WriteString("/-- the sections `(*GError).Error()` writes, in order -/\ndef errorParts : List String := [" + quoteList(baseErrParts) + "]\n\n")
	b.WriteString(utilsLean(fset, *dir))
	b.WriteString(storesLean(fset, *dir))
	fmt.Fprintf(&b, "/-- the `StackType` constants of stack.go -/\ndef stackDepths : List (StackType × Nat) :=\n  [(.noStack, %s), (.sourceStack, %s), (.shortStack, %s), (.defaultStack, %s)]\n\ndef defaultSkip : Nat := %s\n\nend Generated.GerrorBase\n",
		consts["NoStack"], consts["SourceStack"], consts["ShortStack"], consts["DefaultStack"], consts["defaultSkip"])
	write(filepath.Join(*out, "GerrorBase.lean"), b.Bytes())

	// ---- template ---------------------------------------------------------------------------
	tmplRows, prim, errParts := extractTemplate(filepath.Join(*dir, "gen", "gerror.gotmpl"), want)
	b.Reset()
	b.WriteString("import Model.GErrClone\n/-! GENERATED on every run by harness/cmd/extract-gerror from gerror/gen/gerror.gotmpl of the checked\ntree — do not edit.  What the generated extension types' factory methods hand to `CloneBase`. -/\nnamespace Generated.GerrorTmpl\nopen GErrClone\n\n")
	b.WriteString("def rows : List (String × Row) := [\n" + leanRows(tmplRows) + "]\n\n")
	b.WriteString("/-- per method: the template conditions (`{{if …}}`) that guard the stanza -/\ndef guards : List (String × List String) := [\n")
	for i, r := range tmplRows {
		g := "[]"
		if r.guard != "" {
			g = "[" + strconv.Quote(r.guard) + "]"
		}
		sep := ","
		if i == len(tmplRows)-1 {
			sep = ""
		}
		fmt.Fprintf(&b, "  (%s, %s)%s\n", strconv.Quote(r.name), g, sep)
	}
	b.WriteString("]\n\n")
	fmt.Fprintf(&b, "/-- every stanza ends in `return e.toPrimaryType(clone)` with `clone` the CloneBase result -/\ndef allReturnToPrimary : Bool := true\n\n")
	fmt.Fprintf(&b, "/-- `toPrimaryType`: `&T{GError: *gerr, <clone fields>: e.<field>}` -/\ndef toPrimaryCopiesBase : Bool := %v\ndef toPrimaryCloneFieldsFromReceiver : Bool := %v\ndef toPrimaryOtherFields : Nat := %d\n\n", prim.copiesBase, prim.cloneFromRecv, prim.other)
	b.WriteString("/-- the parts `Error()` appends, in order -/\ndef errorParts : List String := [" + quoteList(errParts) + "]\n\nend Generated.GerrorTmpl\n")
	write(filepath.Join(*out, "GerrorTmpl.lean"), b.Bytes())
	fmt.Printf("extract-gerror: %d base rows, %d template rows from %s\n", len(baseList), len(tmplRows), *dir)
}

func write(path string, data []byte) {
	if old, err := os.ReadFile(path); err == nil && bytes.Equal(old, data) {
		return // unchanged: keep the mtime so that lake does not rebuild
	}
	if err := os.MkdirAll(filepath.Dir(path), 0o755); err != nil {
		fatal("%v", err)
	}
	if err := os.WriteFile(path, data, 0o644); err != nil {
		fatal("%v", err)
	}
}

func quoteList(xs []string) string {
	q := make([]string, len(xs))
	for i, x := range xs {
		q[i] = strconv.Quote(x)
	}
	return strings.Join(q, ", ")
}

func leanRows(rs []row) string {
	var b strings.Builder
	for i, r := range rs {
		sep := ","
		if i == len(rs)-1 {
			sep = ""
		}
		fmt.Fprintf(&b, "  (%s, { sig := [%s], stack := %s, dtag := %s, src := %s, msg := %s, err := %s, shortCircuit := %v })%s\n",
			strconv.Quote(r.name), strings.Join(r.sig, ", "), r.stack, r.dtag, r.src, r.msg, r.err, r.shortCircuit, sep)
	}
	return b.String()
}

func recvType(fd *ast.FuncDecl) string {
	if fd.Recv == nil || len(fd.Recv.List) != 1 {
		return ""
	}
	if st, ok := fd.Recv.List[0].Type.(*ast.StarExpr); ok {
		if id, ok := st.X.(*ast.Ident); ok {
			return id.Name
		}
	}
	return ""
}

func recvName(fd *ast.FuncDecl) string {
	if fd.Recv != nil && len(fd.Recv.List) == 1 && len(fd.Recv.List[0].Names) == 1 {
		return fd.Recv.List[0].Names[0].Name
	}
	return ""
}

// isSel reports whether e is `pkg.name` (pkg == "" : plain identifier `name`).
func isSel(e ast.Expr, pkg, name string) bool {
	if pkg == "" {
		id, ok := e.(*ast.Ident)
		return ok && id.Name == name
	}
	se, ok := e.(*ast.SelectorExpr)
	if !ok {
		return false
	}
	id, ok := se.X.(*ast.Ident)
	return ok && id.Name == pkg && se.Sel.Name == name
}

// pkgConsts are the package-level constants of the package being read (name -> value expression);
// extractMethod resolves identifiers through them.
var pkgConsts = map[string]ast.Expr{}

// loadConsts collects `const name = expr` declarations (explicit values only) of all non-test files.
func loadConsts(fset *token.FileSet, dir string) map[string]ast.Expr {
	out := map[string]ast.Expr{}
	ents, err := os.ReadDir(dir)
	if err != nil {
		fatal("%v", err)
	}
	for _, e := range ents {
		n := e.Name()
		if e.IsDir() || !strings.HasSuffix(n, ".go") || strings.HasSuffix(n, "_test.go") {
			continue
		}
		f, err := parser.ParseFile(fset, filepath.Join(dir, n), nil, 0)
		if err != nil {
			fatal("%v", err)
		}
		for _, d := range f.Decls {
			gd, ok := d.(*ast.GenDecl)
			if !ok || gd.Tok != token.CONST {
				continue
			}
			for _, sp := range gd.Specs {
				vs := sp.(*ast.ValueSpec)
				if len(vs.Values) != len(vs.Names) {
					continue // iota continuation lines: no explicit value
				}
				for k, nm := range vs.Names {
					out[nm.Name] = vs.Values[k]
				}
			}
		}
	}
	return out
}

// extractMethod reads one factory method. pkg is the qualifier of gerror identifiers ("" inside the
// package, "gerror" in the template); wrap is the method the CloneBase result must be passed
// through before being returned ("" or "toPrimaryType").
//
// Accepted body: an optional leading `if v, ok := p.(Error); ok { return v }`, then any number of
// straight-line single-assignment definitions (`x := expr`, `var x = expr`, `const x = expr`), then
// one `return`.  Identifiers are resolved through those definitions and through package-level
// constants to their defining expressions, so the row is the same whether an argument is written in
// place or computed into a local first.  Because the only statements are definitions evaluated once,
// in order, over parameters that are never assigned, the substitution does not change what is
// passed.  Anything else (assignment, loop, branch, call statement, a second definition of a name)
// is refused.
func extractMethod(fd *ast.FuncDecl, pkg, wrap string) (row, error) {
	r := row{name: fd.Name.Name}
	params := []string{}
	for _, f := range fd.Type.Params.List {
		ty := "Ty.other"
		switch t := f.Type.(type) {
		case *ast.Ident:
			if t.Name == "string" {
				ty = "Ty.string"
			} else if t.Name == "error" {
				ty = "Ty.error"
			}
		case *ast.Ellipsis:
			if id, ok := t.Elt.(*ast.Ident); ok && id.Name == "any" {
				ty = "Ty.variadicAny"
			} else if it, ok := t.Elt.(*ast.InterfaceType); ok && len(it.Methods.List) == 0 {
				ty = "Ty.variadicAny"
			}
		}
		if len(f.Names) == 0 {
			return r, fmt.Errorf("unnamed parameter")
		}
		for _, n := range f.Names {
			params = append(params, n.Name)
			r.sig = append(r.sig, ty)
		}
	}
	recv := recvName(fd)
	isParam := func(name string) bool {
		if name == recv {
			return true
		}
		for _, p := range params {
			if p == name {
				return true
			}
		}
		return false
	}
	locals := map[string]ast.Expr{}
	// resolve follows single-assignment locals and package constants (parameters shadow both)
	resolve := func(e ast.Expr) ast.Expr {
		for depth := 0; depth < 16; depth++ {
			switch x := e.(type) {
			case *ast.ParenExpr:
				e = x.X
				continue
			case *ast.Ident:
				if isParam(x.Name) {
					return e
				}
				if d, ok := locals[x.Name]; ok {
					e = d
					continue
				}
				if d, ok := pkgConsts[x.Name]; ok && pkg == "" {
					e = d
					continue
				}
			}
			return e
		}
		return e
	}
	idx := func(e ast.Expr) int {
		if id, ok := resolve(e).(*ast.Ident); ok {
			for i, p := range params {
				if p == id.Name {
					return i
				}
			}
		}
		return -1
	}
	stmts := fd.Body.List
	// optional short circuit
	if len(stmts) > 0 {
		if is, ok := stmts[0].(*ast.IfStmt); ok {
			as, ok1 := is.Init.(*ast.AssignStmt)
			okShape := ok1 && as.Tok == token.DEFINE && len(as.Lhs) == 2 && len(as.Rhs) == 1 && is.Else == nil && len(is.Body.List) == 1
			if okShape {
				ta, ok2 := as.Rhs[0].(*ast.TypeAssertExpr)
				ret, ok3 := is.Body.List[0].(*ast.ReturnStmt)
				okShape = ok2 && ok3 && idx(ta.X) >= 0 && isSel(ta.Type, pkg, "Error") && len(ret.Results) == 1
				if okShape {
					v, okv := as.Lhs[0].(*ast.Ident)
					o, oko := as.Lhs[1].(*ast.Ident)
					c, okc := is.Cond.(*ast.Ident)
					rv, okr := ret.Results[0].(*ast.Ident)
					okShape = okv && oko && okc && okr && c.Name == o.Name && rv.Name == v.Name
				}
			}
			if !okShape {
				return r, fmt.Errorf("leading if statement is not `if gerr, ok := err.(Error); ok { return gerr }`")
			}
			r.shortCircuit = true
			stmts = stmts[1:]
		}
	}
	if len(stmts) == 0 {
		return r, fmt.Errorf("empty body")
	}
	define := func(name string, val ast.Expr) error {
		if name == "_" {
			return fmt.Errorf("value assigned to _ (a statement kept only for its effect)")
		}
		if _, dup := locals[name]; dup || isParam(name) {
			return fmt.Errorf("%s is defined more than once", name)
		}
		bad := false
		ast.Inspect(val, func(n ast.Node) bool {
			switch n.(type) {
			case *ast.FuncLit:
				bad = true
			case *ast.UnaryExpr:
				if n.(*ast.UnaryExpr).Op == token.AND || n.(*ast.UnaryExpr).Op == token.ARROW {
					bad = true
				}
			}
			return !bad
		})
		if bad {
			return fmt.Errorf("definition of %s takes an address, receives from a channel or contains a function literal", name)
		}
		locals[name] = val
		return nil
	}
	for _, st := range stmts[:len(stmts)-1] {
		switch x := st.(type) {
		case *ast.AssignStmt:
			if x.Tok != token.DEFINE || len(x.Lhs) != 1 || len(x.Rhs) != 1 {
				return r, fmt.Errorf("statement before the return is not a single definition `x := expr`")
			}
			id, ok := x.Lhs[0].(*ast.Ident)
			if !ok {
				return r, fmt.Errorf("statement before the return is not a single definition `x := expr`")
			}
			if err := define(id.Name, x.Rhs[0]); err != nil {
				return r, err
			}
		case *ast.DeclStmt:
			gd, ok := x.Decl.(*ast.GenDecl)
			if !ok || (gd.Tok != token.VAR && gd.Tok != token.CONST) {
				return r, fmt.Errorf("unexpected declaration before the return")
			}
			for _, sp := range gd.Specs {
				vs := sp.(*ast.ValueSpec)
				if len(vs.Values) != len(vs.Names) {
					return r, fmt.Errorf("declaration of %s without an initial value", vs.Names[0].Name)
				}
				for k, nm := range vs.Names {
					if err := define(nm.Name, vs.Values[k]); err != nil {
						return r, err
					}
				}
			}
		default:
			return r, fmt.Errorf("statement before the return is neither a definition nor the gerror short circuit (%T)", st)
		}
	}
	ret, ok := stmts[len(stmts)-1].(*ast.ReturnStmt)
	if !ok || len(ret.Results) != 1 {
		return r, fmt.Errorf("body does not end in a single-value return")
	}
	result := resolve(ret.Results[0])
	if wrap != "" {
		wc, _ := result.(*ast.CallExpr)
		if wc == nil || len(wc.Args) != 1 || wc.Ellipsis.IsValid() || !isSel(wc.Fun, recv, wrap) {
			return r, fmt.Errorf("result is not returned through %s.%s(<CloneBase result>)", recv, wrap)
		}
		result = resolve(wc.Args[0])
	}
	call, _ := result.(*ast.CallExpr)
	if call == nil || !isSel(call.Fun, pkg, "CloneBase") || len(call.Args) != 6 || call.Ellipsis.IsValid() {
		return r, fmt.Errorf("returned value is not a call CloneBase(e, stackType, dTag, source, extMsg, srcError)")
	}
	if !isSel(resolve(call.Args[0]), "", recv) {
		return r, fmt.Errorf("first CloneBase argument is not the receiver")
	}
	r.stack = "StackType.other"
	for _, st := range [][2]string{{"NoStack", ".noStack"}, {"SourceStack", ".sourceStack"}, {"ShortStack", ".shortStack"}, {"DefaultStack", ".defaultStack"}} {
		// the StackType constants themselves are not resolved further (their values are read separately)
		a := call.Args[1]
		for depth := 0; depth < 16; depth++ {
			if isSel(a, pkg, st[0]) {
				r.stack = st[1]
				break
			}
			id, isId := a.(*ast.Ident)
			if !isId || isParam(id.Name) {
				break
			}
			if d, ok := locals[id.Name]; ok {
				a = d
			} else if d, ok := pkgConsts[id.Name]; ok && pkg == "" {
				a = d
			} else {
				break
			}
		}
	}
	if r.stack == "StackType.other" {
		return r, fmt.Errorf("stack type argument cannot be traced to one of the StackType constants")
	}
	strArg := func(e ast.Expr) string {
		e = resolve(e)
		if bl, ok := e.(*ast.BasicLit); ok && bl.Kind == token.STRING {
			if s, err := strconv.Unquote(bl.Value); err == nil && s == "" {
				return ".empty"
			}
			return ".other"
		}
		if i := idx(e); i >= 0 {
			return fmt.Sprintf(".param %d", i)
		}
		return ".other"
	}
	r.dtag = strArg(call.Args[2])
	r.src = strArg(call.Args[3])
	r.msg = ".other"
	switch m := resolve(call.Args[4]).(type) {
	case *ast.BasicLit:
		if s, err := strconv.Unquote(m.Value); err == nil && s == "" {
			r.msg = ".empty"
		}
	case *ast.CallExpr:
		if isSel(m.Fun, "fmt", "Sprintf") && len(m.Args) == 2 {
			if m.Ellipsis.IsValid() && idx(m.Args[0]) >= 0 && idx(m.Args[1]) >= 0 {
				r.msg = fmt.Sprintf(".sprintf %d %d", idx(m.Args[0]), idx(m.Args[1]))
			} else if bl, ok := resolve(m.Args[0]).(*ast.BasicLit); ok && !m.Ellipsis.IsValid() && idx(m.Args[1]) >= 0 {
				if s, err := strconv.Unquote(bl.Value); err == nil && s == "originalError: %+v" {
					r.msg = fmt.Sprintf(".origErr %d", idx(m.Args[1]))
				}
			}
		}
	}
	r.err = ".other"
	if isSel(resolve(call.Args[5]), "", "nil") {
		r.err = ".nil"
	} else if i := idx(call.Args[5]); i >= 0 {
		r.err = fmt.Sprintf(".param %d", i)
	}
	return r, nil
}

type primInfo struct {
	copiesBase    bool
	cloneFromRecv bool
	other         int
}

// extractTemplate flattens the template into Go source (actions replaced by placeholders, every
// {{if}}/{{range}} body taken once), parses that with go/parser and reads the stanzas.
func extractTemplate(path string, want map[string]bool) ([]row, primInfo, []string) {
	data, err := os.ReadFile(path)
	if err != nil {
		fatal("%v", err)
	}
	trees, err := parse.Parse("gerror.gotmpl", string(data), "{{", "}}", map[string]any{"index": true, "not": true})
	if err != nil {
		fatal("template does not parse: %v", err)
	}
	tree := trees["gerror.gotmpl"]
	var src strings.Builder
	guards := map[string]string{} // marker -> condition
	nMark := 0
	var walk func(n parse.Node, guard string)
	walk = func(n parse.Node, guard string) {
		switch x := n.(type) {
		case *parse.ListNode:
			if x == nil {
				return
			}
			for _, c := range x.Nodes {
				walk(c, guard)
			}
		case *parse.TextNode:
			src.Write(x.Text)
		case *parse.ActionNode:
			s := x.String()
			switch {
			case strings.Contains(s, "FactoryComments"):
				src.WriteString("\n")
			case strings.Contains(s, "ImportString"):
				src.WriteString("\n")
			case strings.Contains(s, ".PkgName"):
				src.WriteString("p")
			case strings.Contains(s, ".TypeName"):
				src.WriteString("TYPENAME")
			case strings.Contains(s, ".PrintAs"):
				src.WriteString("PRINTAS")
			case strings.Contains(s, "$field.Name"):
				src.WriteString("FIELDNAME")
			default:
				fatal("template: action %s is not one the extractor knows", s)
			}
		case *parse.RangeNode:
			walk(x.List, guard)
		case *parse.IfNode:
			cond := strings.TrimSuffix(strings.TrimPrefix(x.Pipe.String(), ""), "")
			g := "if " + cond
			if guard != "" {
				g = guard + " && " + g
			}
			nMark++
			mk := fmt.Sprintf("\n//GUARD-BEGIN %d\n", nMark)
			guards[strconv.Itoa(nMark)] = g
			src.WriteString(mk)
			walk(x.List, g)
			fmt.Fprintf(&src, "\n//GUARD-END %d\n", nMark)
			if x.ElseList != nil {
				fatal("template: {{else}} branches are not handled by the extractor")
			}
		default:
			fatal("template: node %T is not one the extractor knows", n)
		}
	}
	walk(tree.Root, "")
	fset := token.NewFileSet()
	f, err := parser.ParseFile(fset, "gerror.gotmpl.go", src.String(), parser.ParseComments)
	if err != nil {
		fatal("flattened template is not Go: %v", err)
	}
	// guard ranges by position
	type rng struct {
		from, to token.Pos
		cond     string
	}
	var rngs []rng
	open := map[string]token.Pos{}
	for _, cg := range f.Comments {
		for _, c := range cg.List {
			if strings.HasPrefix(c.Text, "//GUARD-BEGIN ") {
				open[strings.TrimPrefix(c.Text, "//GUARD-BEGIN ")] = c.Pos()
			}
			if strings.HasPrefix(c.Text, "//GUARD-END ") {
				k := strings.TrimPrefix(c.Text, "//GUARD-END ")
				rngs = append(rngs, rng{open[k], c.Pos(), guards[k]})
			}
		}
	}
	var rows []row
	seen := map[string]bool{}
	var prim primInfo
	var errParts []string
	for _, d := range f.Decls {
		fd, ok := d.(*ast.FuncDecl)
		if !ok || recvType(fd) != "TYPENAME" {
			continue
		}
		switch {
		case want[fd.Name.Name]:
			r, err := extractMethod(fd, "gerror", "toPrimaryType")
			if err != nil {
				fatal("gerror.gotmpl: stanza %s: %v", fd.Name.Name, err)
			}
			for _, g := range rngs {
				if g.from < fd.Pos() && fd.End() < g.to {
					r.guard = g.cond
				}
			}
			if seen[r.name] {
				fatal("gerror.gotmpl: stanza %s appears twice", r.name)
			}
			seen[r.name] = true
			rows = append(rows, r)
		case fd.Name.Name == "toPrimaryType":
			prim = extractPrimary(fd)
		case fd.Name.Name == "Error":
			errParts = extractErrorParts(fd)
		}
	}
	return rows, prim, errParts
}

// toPrimaryType(gerr *gerror.GError): result := &T{GError: *gerr, FIELD: e.FIELD}; return result
func extractPrimary(fd *ast.FuncDecl) primInfo {
	var p primInfo
	if len(fd.Type.Params.List) != 1 || len(fd.Type.Params.List[0].Names) != 1 {
		fatal("toPrimaryType: unexpected signature")
	}
	arg := fd.Type.Params.List[0].Names[0].Name
	recv := recvName(fd)
	ast.Inspect(fd.Body, func(n ast.Node) bool {
		cl, ok := n.(*ast.CompositeLit)
		if !ok {
			return true
		}
		for _, e := range cl.Elts {
			kv, ok := e.(*ast.KeyValueExpr)
			if !ok {
				p.other++
				continue
			}
			k, _ := kv.Key.(*ast.Ident)
			switch {
			case k != nil && k.Name == "GError":
				if st, ok := kv.Value.(*ast.StarExpr); ok && isSel(st.X, "", arg) {
					p.copiesBase = true
				}
			case k != nil && k.Name == "FIELDNAME":
				if isSel(kv.Value, recv, "FIELDNAME") {
					p.cloneFromRecv = true
				} else {
					p.other++
				}
			default:
				p.other++
			}
		}
		return false
	})
	return p
}

// Error(): the labelled sections in the order their string literals appear in the body.  Reading the
// literals rather than a particular statement form keeps this independent of how the text is
// assembled (+=, strings.Builder, a helper closure …).
func extractErrorParts(fd *ast.FuncDecl) []string {
	var parts []string
	ast.Inspect(fd.Body, func(n ast.Node) bool {
		bl, ok := n.(*ast.BasicLit)
		if !ok || (bl.Kind != token.STRING && bl.Kind != token.CHAR) {
			return true
		}
		var s string
		if bl.Kind == token.CHAR {
			r, _, _, err := strconv.UnquoteChar(strings.Trim(bl.Value, "'"), '\'')
			if err != nil {
				return true
			}
			s = string(r)
		} else {
			var err error
			if s, err = strconv.Unquote(bl.Value); err != nil {
				return true
			}
		}
		switch {
		case strings.HasPrefix(s, "Name: "):
			parts = append(parts, "name")
		case strings.HasPrefix(s, "DTag: "):
			parts = append(parts, "dtag")
		case strings.HasPrefix(s, "Source: "):
			parts = append(parts, "source")
		case strings.HasPrefix(s, "PRINTAS: %v"):
			parts = append(parts, "print-fields")
		case strings.HasPrefix(s, "Message: "):
			parts = append(parts, "message")
		case strings.HasPrefix(s, "\n"):
			parts = append(parts, "stack")
		case s == ", " || s == "":
		default:
			parts = append(parts, "other:"+s)
		}
		return true
	})
	return parts
}

// ---- write sets ---------------------------------------------------------------------------------

// storesLean lists every store (assignment, op-assignment, ++/--) in the functions a derivation runs
// (CloneBase, the methods of *GError and whatever they call inside the package), classified by where
// the written location lives:
//
//	fresh   a field/element of an object the same function has just allocated (&T{…}, make, T{…})
//	local   a local variable or parameter of the function itself (re-slicing included)
//	shared  anything else: through a parameter, the receiver, a package-level variable
func storesLean(fset *token.FileSet, dir string) string {
	// all functions and methods of the package, by name (methods of different types sharing a name
	// are all kept: the call graph below is by name, hence an over-approximation)
	decls := map[string][]*ast.FuncDecl{}
	var order []*ast.FuncDecl
	ents, err := os.ReadDir(dir)
	if err != nil {
		fatal("%v", err)
	}
	for _, e := range ents {
		n := e.Name()
		if e.IsDir() || !strings.HasSuffix(n, ".go") || strings.HasSuffix(n, "_test.go") {
			continue
		}
		f, err := parser.ParseFile(fset, filepath.Join(dir, n), nil, 0)
		if err != nil {
			fatal("%v", err)
		}
		for _, d := range f.Decls {
			if fd, ok := d.(*ast.FuncDecl); ok && fd.Body != nil {
				decls[fd.Name.Name] = append(decls[fd.Name.Name], fd)
				order = append(order, fd)
			}
		}
	}
	if len(decls["CloneBase"]) == 0 {
		fatal("write sets: function CloneBase not found")
	}
	// roots: CloneBase and every method of *GError; then everything they call inside the package
	reach := map[*ast.FuncDecl]bool{}
	var work []*ast.FuncDecl
	add := func(fd *ast.FuncDecl) {
		if !reach[fd] {
			reach[fd] = true
			work = append(work, fd)
		}
	}
	for _, fd := range order {
		if fd.Name.Name == "CloneBase" || (fd.Recv != nil && recvType(fd) == "GError") {
			add(fd)
		}
	}
	for len(work) > 0 {
		fd := work[len(work)-1]
		work = work[:len(work)-1]
		ast.Inspect(fd.Body, func(n ast.Node) bool {
			ce, ok := n.(*ast.CallExpr)
			if !ok {
				return true
			}
			name := ""
			switch f := ce.Fun.(type) {
			case *ast.Ident:
				name = f.Name
			case *ast.SelectorExpr:
				name = f.Sel.Name
			case *ast.IndexExpr: // explicit instantiation f[T](…)
				if id, ok := f.X.(*ast.Ident); ok {
					name = id.Name
				}
			}
			for _, callee := range decls[name] {
				add(callee)
			}
			return true
		})
	}
	var rows []string
	for _, fd := range order {
		if !reach[fd] {
			continue
		}
		for _, st := range storesOf(fd) {
			rows = append(rows, fmt.Sprintf("  (%s, %s, %s)", strconv.Quote(fd.Name.Name), strconv.Quote(st[0]), st[1]))
		}
	}
	return "/-- every store in the code a derivation runs (CloneBase, every method of `*GError`, and all package\nfunctions they reach): (function, written expression, where it lives) -/\ndef stores : List (String × String × StoreClass) := [\n" +
		strings.Join(rows, ",\n") + "\n]\n\n"
}

func storesOf(fd *ast.FuncDecl) [][2]string {
	fresh := map[string]bool{} // locals bound to a fresh allocation
	local := map[string]bool{}
	// isFresh: the expression denotes memory nobody else can reach yet
	var isFresh func(e ast.Expr) bool
	isFresh = func(e ast.Expr) bool {
		switch x := e.(type) {
		case *ast.ParenExpr:
			return isFresh(x.X)
		case *ast.UnaryExpr:
			if x.Op == token.AND {
				_, ok := x.X.(*ast.CompositeLit)
				return ok
			}
		case *ast.CompositeLit:
			return true
		case *ast.Ident:
			return x.Name == "nil" || fresh[x.Name]
		case *ast.SliceExpr:
			return isFresh(x.X)
		case *ast.CallExpr:
			if id, ok := x.Fun.(*ast.Ident); ok {
				switch id.Name {
				case "make", "new":
					return true
				case "append": // appending to a fresh slice yields a fresh slice
					return len(x.Args) > 0 && isFresh(x.Args[0])
				}
			}
			if isSel(x.Fun, "slices", "Clone") || isSel(x.Fun, "strings", "Clone") || isSel(x.Fun, "bytes", "Clone") {
				return true
			}
		}
		return false
	}
	for _, fl := range []*ast.FieldList{fd.Type.Params, fd.Type.Results} {
		if fl == nil {
			continue
		}
		for _, f := range fl.List {
			for _, n := range f.Names {
				local[n.Name] = true
			}
		}
	}
	var out [][2]string
	classify := func(lhs ast.Expr) string {
		root, depth := lhs, 0
		for {
			switch x := root.(type) {
			case *ast.SelectorExpr:
				root, depth = x.X, depth+1
				continue
			case *ast.IndexExpr:
				root, depth = x.X, depth+1
				continue
			case *ast.StarExpr:
				root, depth = x.X, depth+1
				continue
			case *ast.ParenExpr:
				root = x.X
				continue
			}
			break
		}
		id, ok := root.(*ast.Ident)
		if !ok {
			return ".shared"
		}
		if id.Name == "_" {
			return ".local"
		}
		if depth == 0 {
			if local[id.Name] || fresh[id.Name] {
				return ".local"
			}
			return ".shared" // package-level variable
		}
		if fresh[id.Name] {
			return ".fresh"
		}
		return ".shared"
	}
	text := func(e ast.Expr) string {
		var b bytes.Buffer
		printer.Fprint(&b, token.NewFileSet(), e)
		return b.String()
	}
	ast.Inspect(fd.Body, func(n ast.Node) bool {
		switch x := n.(type) {
		case *ast.AssignStmt:
			if x.Tok == token.DEFINE {
				for i, l := range x.Lhs {
					if id, ok := l.(*ast.Ident); ok {
						local[id.Name] = true
						if len(x.Rhs) == len(x.Lhs) && isFresh(x.Rhs[i]) {
							fresh[id.Name] = true
						}
					}
				}
				return true
			}
			for i, l := range x.Lhs {
				c := classify(l)
				// re-binding a fresh local to something else ends its freshness
				if id, ok := l.(*ast.Ident); ok && fresh[id.Name] && !(len(x.Rhs) == len(x.Lhs) && isFresh(x.Rhs[i])) {
					if _, isSlice := x.Rhs[min(i, len(x.Rhs)-1)].(*ast.SliceExpr); !isSlice {
						delete(fresh, id.Name)
					}
				}
				out = append(out, [2]string{text(l), c})
			}
		case *ast.IncDecStmt:
			out = append(out, [2]string{text(x.X), classify(x.X)})
		case *ast.CallExpr:
			// append(s, …) may write into the backing array of s; copy(dst, …) writes into dst
			if id, ok := x.Fun.(*ast.Ident); ok && (id.Name == "append" || id.Name == "copy") && len(x.Args) >= 2 {
				c := ".shared"
				if isFresh(x.Args[0]) {
					c = ".fresh"
				}
				out = append(out, [2]string{id.Name + " into " + text(x.Args[0]), c})
			}
		case *ast.RangeStmt:
			for _, e := range []ast.Expr{x.Key, x.Value} {
				if id, ok := e.(*ast.Ident); ok && x.Tok == token.DEFINE {
					local[id.Name] = true
				}
			}
		case *ast.DeclStmt:
			if gd, ok := x.Decl.(*ast.GenDecl); ok {
				for _, sp := range gd.Specs {
					if vs, ok := sp.(*ast.ValueSpec); ok {
						for _, n := range vs.Names {
							local[n.Name] = true
						}
					}
				}
			}
		}
		return true
	})
	return out
}

// ---- utils.go -----------------------------------------------------------------------------------

// utilsLean reads `var ErrUnknown = FactoryOf(&GError{…})` and the two branches of ExtMsgf:
//
//	v, ok := <param>.(Factory)   (as a statement or as the init of the if)
//	ok   -> return v.<Method>(<params>...)
//	!ok  -> return <package var>.<Method>(<params>)
//
// in either order of the branches.
func utilsLean(fset *token.FileSet, dir string) string {
	f, err := parser.ParseFile(fset, filepath.Join(dir, "utils.go"), nil, 0)
	if err != nil {
		fatal("%v", err)
	}
	var fields []string
	var ext *ast.FuncDecl
	for _, d := range f.Decls {
		switch x := d.(type) {
		case *ast.FuncDecl:
			if x.Name.Name == "ExtMsgf" && x.Recv == nil {
				ext = x
			}
		case *ast.GenDecl:
			if x.Tok != token.VAR {
				continue
			}
			for _, sp := range x.Specs {
				vs := sp.(*ast.ValueSpec)
				for k, n := range vs.Names {
					if n.Name != "ErrUnknown" || k >= len(vs.Values) {
						continue
					}
					call, _ := vs.Values[k].(*ast.CallExpr)
					if call == nil || !isSel(call.Fun, "", "FactoryOf") || len(call.Args) != 1 {
						fatal("utils.go: ErrUnknown is not FactoryOf(&GError{…})")
					}
					ue, _ := call.Args[0].(*ast.UnaryExpr)
					var cl *ast.CompositeLit
					if ue != nil && ue.Op == token.AND {
						cl, _ = ue.X.(*ast.CompositeLit)
					}
					if cl == nil || !isSel(cl.Type, "", "GError") {
						fatal("utils.go: ErrUnknown is not FactoryOf(&GError{…})")
					}
					for _, el := range cl.Elts {
						kv, ok := el.(*ast.KeyValueExpr)
						key, _ := kv.Key.(*ast.Ident)
						var val ast.Expr
						if ok {
							val = kv.Value
							if id, isId := val.(*ast.Ident); isId {
								if c, isC := pkgConsts[id.Name]; isC {
									val = c
								}
							}
						}
						bl, _ := val.(*ast.BasicLit)
						if !ok || key == nil || bl == nil || bl.Kind != token.STRING {
							fatal("utils.go: ErrUnknown has a field that is not `Name: \"literal\"`")
						}
						v, _ := strconv.Unquote(bl.Value)
						fields = append(fields, fmt.Sprintf("(%s, %s)", strconv.Quote(key.Name), strconv.Quote(v)))
					}
				}
			}
		}
	}
	if fields == nil {
		fatal("utils.go: var ErrUnknown not found")
	}
	if ext == nil {
		fatal("utils.go: func ExtMsgf not found")
	}
	var params []string
	for _, fl := range ext.Type.Params.List {
		for _, n := range fl.Names {
			params = append(params, n.Name)
		}
	}
	pidx := func(e ast.Expr) int {
		if id, ok := e.(*ast.Ident); ok {
			for i, p := range params {
				if p == id.Name {
					return i
				}
			}
		}
		return -1
	}
	bad := func(why string) { fatal("utils.go: ExtMsgf: %s", why) }
	stmts := ext.Body.List
	var assert *ast.AssignStmt
	var ifs *ast.IfStmt
	if len(stmts) > 0 {
		if as, ok := stmts[0].(*ast.AssignStmt); ok {
			assert = as
			stmts = stmts[1:]
		}
	}
	if len(stmts) > 0 {
		ifs, _ = stmts[0].(*ast.IfStmt)
		stmts = stmts[1:]
	}
	if ifs == nil {
		bad("no if statement on the result of the type assertion")
	}
	if assert == nil {
		assert, _ = ifs.Init.(*ast.AssignStmt)
	} else if ifs.Init != nil {
		bad("type assertion and a second if-initialiser")
	}
	if assert == nil || assert.Tok != token.DEFINE || len(assert.Lhs) != 2 || len(assert.Rhs) != 1 {
		bad("no `v, ok := err.(Factory)`")
	}
	ta, _ := assert.Rhs[0].(*ast.TypeAssertExpr)
	vId, _ := assert.Lhs[0].(*ast.Ident)
	okId, _ := assert.Lhs[1].(*ast.Ident)
	if ta == nil || vId == nil || okId == nil || pidx(ta.X) < 0 || !isSel(ta.Type, "", "Factory") {
		bad("no `v, ok := <parameter>.(Factory)`")
	}
	single := func(bs *ast.BlockStmt) ast.Expr {
		if bs == nil || len(bs.List) != 1 {
			return nil
		}
		r, _ := bs.List[0].(*ast.ReturnStmt)
		if r == nil || len(r.Results) != 1 {
			return nil
		}
		return r.Results[0]
	}
	thenE := single(ifs.Body)
	var elseE ast.Expr
	switch {
	case ifs.Else != nil && len(stmts) == 0:
		eb, _ := ifs.Else.(*ast.BlockStmt)
		elseE = single(eb)
	case ifs.Else == nil && len(stmts) == 1:
		elseE = single(&ast.BlockStmt{List: stmts})
	}
	if thenE == nil || elseE == nil {
		bad("the two branches are not single returns")
	}
	var okE, notE ast.Expr
	if isSel(ifs.Cond, "", okId.Name) {
		okE, notE = thenE, elseE
	} else if ue, isU := ifs.Cond.(*ast.UnaryExpr); isU && ue.Op == token.NOT && isSel(ue.X, "", okId.Name) {
		okE, notE = elseE, thenE
	} else {
		bad("the condition is neither ok nor !ok")
	}
	argIdx := func(c *ast.CallExpr) string {
		p := make([]string, len(c.Args))
		for i, a := range c.Args {
			k := pidx(a)
			if k < 0 {
				bad("a call argument is not a parameter of ExtMsgf")
			}
			p[i] = strconv.Itoa(k)
		}
		return "[" + strings.Join(p, ", ") + "]"
	}
	okC, _ := okE.(*ast.CallExpr)
	notC, _ := notE.(*ast.CallExpr)
	if okC == nil || notC == nil {
		bad("a branch does not return a method call")
	}
	okS, _ := okC.Fun.(*ast.SelectorExpr)
	notS, _ := notC.Fun.(*ast.SelectorExpr)
	if okS == nil || !isSel(okS.X, "", vId.Name) {
		bad("the Factory branch does not call a method of the asserted value")
	}
	var notRecv *ast.Ident
	if notS != nil {
		notRecv, _ = notS.X.(*ast.Ident)
	}
	if notRecv == nil || pidx(notRecv) >= 0 || notRecv.Name == vId.Name {
		bad("the other branch does not call a method of a package-level factory")
	}
	var b strings.Builder
	b.WriteString("/-- the fields of `var ErrUnknown = FactoryOf(&GError{…})` in utils.go -/\ndef errUnknownFields : List (String × String) := [" + strings.Join(fields, ", ") + "]\n\n")
	fmt.Fprintf(&b, "/-- `ExtMsgf`: index of the parameter asserted to `Factory`; on success the method called on it with\nthese parameters (and whether the last is spread with `...`); otherwise receiver, method, parameters -/\ndef extMsgfAsserts : Nat := %d\ndef extMsgfFactoryBranch : String × List Nat × Bool := (%s, %s, %v)\ndef extMsgfElseBranch : String × String × List Nat := (%s, %s, %s)\n\n",
		pidx(ta.X), strconv.Quote(okS.Sel.Name), argIdx(okC), okC.Ellipsis.IsValid(), strconv.Quote(notRecv.Name), strconv.Quote(notS.Sel.Name), argIdx(notC))
	return b.String()
}

// Package hx is the generic correspondence runner (tie B of DESIGN.md).
//
// A case is a list of request lines of the Lean driver's line protocol.  The same lines are
// executed on the real implementation by an Impl (an interpreter of the protocol written
// against /repo's packages) and on the Lean model by the compiled driver; the two answer
// streams are compared line by line.  Because a case *is* its request lines, replaying and
// shrinking are generic.
package hx

import (
	"bufio"
	"bytes"
	"crypto/sha1"
	"encoding/hex"
	"encoding/json"
	"flag"
	"fmt"
	"math/rand"
	"os"
	"os/exec"
	"sort"
	"strings"
	"time"
)

// Impl executes protocol lines on the real code.
type Impl interface {
	// Reset is called before the first line of every case.
	Reset()
	// Exec executes one request line and returns the canonical answer.
	Exec(line string) string
}

// Case is one generated input.
type Case struct {
	Lines      []string `json:"lines"`
	Domain     bool     `json:"domain"`     // inside the property's quantifier (gates) or not (drift only)
	Nontrivial bool     `json:"nontrivial"` // by the generator's stated rule
	Tags       []string `json:"tags,omitempty"`
	Key        string   `json:"key,omitempty"` // canonical class of this input (for known findings)
}

// Disagreement is a line on which implementation and model answered differently.
type Disagreement struct {
	Case     Case     `json:"case"`
	LineNo   int      `json:"line_no"`
	Request  string   `json:"request"`
	Impl     string   `json:"impl"`
	Model    string   `json:"model"`
	Shrunk   []string `json:"shrunk_lines,omitempty"`
	ShrunkAt int      `json:"shrunk_line_no,omitempty"`
	Key      string   `json:"key"`
	// Kind: "failing-input" (the property fails on this input: in-domain functional disagreement,
	// or the implementation-side monitor fired) or "tie-broken" (model and implementation took
	// different internal steps; not by itself a violation).
	Kind string `json:"kind"`
}

// Result is what a harness binary prints as JSON for ./check.
type Result struct {
	Harness            string            `json:"harness"`
	Property           string            `json:"property"`
	Seed               int64             `json:"seed"`
	Tier               string            `json:"tier"`
	Evaluations        int               `json:"evaluations"`
	Lines              int               `json:"lines"`
	DistinctNontrivial int               `json:"distinct_nontrivial"`
	Rule               string            `json:"rule"`
	Samples            []Case            `json:"samples"`
	Tags               map[string]int    `json:"tags"`
	Exhaustive         bool              `json:"exhaustive"`
	Disagreements      []Disagreement    `json:"disagreements"`
	DisagreementCount  int               `json:"disagreement_count"`
	DriftOutside       []Disagreement    `json:"drift_outside_domain"`
	DriftCount         int               `json:"drift_outside_domain_count"`
	Notes              map[string]string `json:"notes,omitempty"`
	Extra              map[string]any    `json:"extra,omitempty"`
	WallS              float64           `json:"wall_s"`
}

// Flags common to all harness binaries.
type Flags struct {
	Prop   string
	Tier   string
	Seed   int64
	Driver string
	Out    string
	Replay string
	Corpus string
	Scale  float64
}

func ParseFlags() *Flags {
	f := &Flags{}
	flag.StringVar(&f.Prop, "prop", "", "property id")
	flag.StringVar(&f.Tier, "tier", "quick", "quick|thorough")
	flag.Int64Var(&f.Seed, "seed", 1, "PRNG seed")
	flag.StringVar(&f.Driver, "driver", "/verif/lean/.lake/build/bin/driver", "Lean driver executable")
	flag.StringVar(&f.Out, "out", "", "result JSON file (default stdout)")
	flag.StringVar(&f.Replay, "replay", "", "replay file: run exactly that case")
	flag.StringVar(&f.Corpus, "corpus", "", "directory of corpus cases (*.json), run first")
	flag.Float64Var(&f.Scale, "scale", 1.0, "multiplier on generated case counts")
	flag.Parse()
	return f
}

// RunDriver pipes lines through the Lean driver and returns its answers.
func RunDriver(driver string, lines []string) ([]string, error) {
	cmd := exec.Command(driver)
	var in bytes.Buffer
	for _, l := range lines {
		if strings.ContainsAny(l, "\n\r") {
			return nil, fmt.Errorf("request contains a newline: %q", l)
		}
		in.WriteString(l)
		in.WriteByte('\n')
	}
	cmd.Stdin = &in
	var out bytes.Buffer
	cmd.Stdout = &out
	cmd.Stderr = os.Stderr
	if err := cmd.Run(); err != nil {
		return nil, fmt.Errorf("driver: %w", err)
	}
	res := make([]string, 0, len(lines))
	sc := bufio.NewScanner(&out)
	sc.Buffer(make([]byte, 1<<20), 1<<28)
	for sc.Scan() {
		res = append(res, sc.Text())
	}
	if len(res) != len(lines) {
		return nil, fmt.Errorf("driver answered %d lines for %d requests", len(res), len(lines))
	}
	return res, nil
}

// SafeExec runs impl.Exec with recover.
func SafeExec(impl Impl, line string) (out string) {
	defer func() {
		if r := recover(); r != nil {
			out = "panic"
		}
	}()
	return impl.Exec(line)
}

func execCase(impl Impl, lines []string) []string {
	impl.Reset()
	outs := make([]string, len(lines))
	trace := os.Getenv("VERIF_TRACE") != ""
	for i, l := range lines {
		outs[i] = SafeExec(impl, l)
		if trace {
			fmt.Fprintf(os.Stderr, "TRACE %s\n   -> %s\n", l, outs[i])
		}
	}
	return outs
}

func hashLines(lines []string) string {
	h := sha1.New()
	for _, l := range lines {
		h.Write([]byte(l))
		h.Write([]byte{'\n'})
	}
	return hex.EncodeToString(h.Sum(nil))
}

// Runner accumulates cases and compares.
type Runner struct {
	F       *Flags
	Impl    Impl
	Res     Result
	Rng     *rand.Rand
	seen    map[string]bool
	tieKept int
	start   time.Time
	pending []Case
	pendOut [][]string
	// KeyOf maps a disagreement to its canonical class (known-findings key); optional.
	KeyOf func(d *Disagreement) string
	// MaxSamples kept in the result.
	MaxSamples int
	// Compare overrides plain string equality (e.g. answers containing "?" wildcards); optional.
	Compare func(req, impl, model string) bool
	// ImplVerdict, if set, inspects an implementation answer and returns a non-empty class when
	// the implementation-side monitor of the property fired on that line.
	ImplVerdict func(implLine string) string
	// ShrinkReject, if set, names request lines on which a mismatch means "the shrunk case left
	// the property's domain" (e.g. the well-formedness echo); such candidates are not kept.
	ShrinkReject func(req, impl, model string) bool
	// TieOnly: a plain model/implementation mismatch is a broken tie, not a failing input.
	TieOnly bool
	// KindOf, when set, classifies a plain mismatch ("failing-input" or "tie-broken"): requests whose
	// answer is a prediction about the code's shape (not an observable the property talks about)
	// break the tie when they differ; "" keeps the default.
	KindOf func(d *Disagreement) string
	// ShrinkBudget bounds the re-executions spent on shrinking one disagreement (default 60) and
	// ShrinkMax the number of disagreements that get shrunk (default 40); lower them when one
	// execution of a case is expensive.
	ShrinkBudget, ShrinkMax int
	// NoShrinkKeys: disagreement classes that are not worth shrinking on every run (e.g. the keys
	// listed as `known` in known_findings.json, see LoadKnownKeys); the unshrunk case is kept.
	NoShrinkKeys map[string]bool
	// ShrinkKeep, if set, names lines the shrinker must not remove (line i of lines): e.g. the lines
	// that establish an expensive-to-rebuild setting which is itself part of the failing input.
	ShrinkKeep func(lines []string, i int) bool
}

// LoadKnownKeys reads known_findings.json and marks the `known` keys of this property as not to be
// shrunk. A missing or unreadable file changes nothing.
func (r *Runner) LoadKnownKeys(path string) {
	b, err := os.ReadFile(path)
	if err != nil {
		return
	}
	var ents []struct {
		Property string `json:"property"`
		Status   string `json:"status"`
		Key      string `json:"key"`
	}
	if json.Unmarshal(b, &ents) != nil {
		return
	}
	for _, e := range ents {
		if e.Property == r.F.Prop && e.Status == "known" {
			if r.NoShrinkKeys == nil {
				r.NoShrinkKeys = map[string]bool{}
			}
			r.NoShrinkKeys[e.Key] = true
		}
	}
}

func NewRunner(f *Flags, harness string, impl Impl, rule string) *Runner {
	r := &Runner{F: f, Impl: impl, Rng: rand.New(rand.NewSource(f.Seed)), seen: map[string]bool{}, start: time.Now(), MaxSamples: 6}
	r.Res = Result{Harness: harness, Property: f.Prop, Seed: f.Seed, Tier: f.Tier, Rule: rule, Tags: map[string]int{}, Notes: map[string]string{}, Extra: map[string]any{}}
	return r
}

// N scales a case count by tier-independent -scale.
func (r *Runner) N(n int) int {
	m := int(float64(n) * r.F.Scale)
	if m < 1 {
		m = 1
	}
	return m
}

// Add executes the case on the implementation now and queues it for the model.
func (r *Runner) Add(c Case) {
	outs := execCase(r.Impl, c.Lines)
	r.pending = append(r.pending, c)
	r.pendOut = append(r.pendOut, outs)
	r.Res.Evaluations++
	r.Res.Lines += len(c.Lines)
	for _, t := range c.Tags {
		r.Res.Tags[t]++
	}
	if c.Domain {
		h := hashLines(c.Lines)
		if !r.seen[h] {
			r.seen[h] = true
			if c.Nontrivial {
				r.Res.DistinctNontrivial++
			}
		}
	}
	if len(r.Res.Samples) < r.MaxSamples && c.Nontrivial && c.Domain && (r.Res.Evaluations%7 == 1 || len(r.pending) < 3) {
		r.Res.Samples = append(r.Res.Samples, c)
	}
	if r.Res.Lines%200000 < len(c.Lines) && len(r.pending) > 1000 {
		r.Flush()
	}
}

func (r *Runner) eq(req, a, b string) bool {
	if r.Compare != nil {
		return r.Compare(req, a, b)
	}
	return a == b
}

// Flush sends the queued cases through the driver and compares.
func (r *Runner) Flush() {
	if len(r.pending) == 0 {
		return
	}
	var all []string
	for _, c := range r.pending {
		all = append(all, c.Lines...)
	}
	model, err := RunDriver(r.F.Driver, all)
	if err != nil {
		fmt.Fprintln(os.Stderr, "FATAL", err)
		os.Exit(3)
	}
	k := 0
	for ci, c := range r.pending {
		if r.ImplVerdict != nil {
			hit := false
			for li := range c.Lines {
				if v := r.ImplVerdict(r.pendOut[ci][li]); v != "" {
					d := Disagreement{Case: c, LineNo: li, Request: c.Lines[li], Impl: r.pendOut[ci][li], Model: model[k+li], Kind: "failing-input", Key: r.F.Prop + ":monitor:" + v}
					r.record(d)
					hit = true
					break
				}
			}
			if hit {
				k += len(c.Lines)
				continue
			}
		}
		for li := range c.Lines {
			if !r.eq(c.Lines[li], r.pendOut[ci][li], model[k+li]) {
				d := Disagreement{Case: c, LineNo: li, Request: c.Lines[li], Impl: r.pendOut[ci][li], Model: model[k+li]}
				r.record(d)
				break
			}
		}
		k += len(c.Lines)
	}
	r.pending, r.pendOut = nil, nil
}

func (r *Runner) record(d Disagreement) {
	if d.Kind == "" {
		d.Kind = "failing-input"
		if r.TieOnly {
			d.Kind = "tie-broken"
		}
		if r.KindOf != nil {
			if k := r.KindOf(&d); k != "" {
				d.Kind = k
			}
		}
	}
	max := 40
	if r.ShrinkMax > 0 {
		max = r.ShrinkMax
	}
	skip := false
	if len(r.NoShrinkKeys) > 0 {
		pre := d.Key
		if pre == "" {
			pre = d.Case.Key
			if r.KeyOf != nil {
				pre = r.KeyOf(&d)
			}
		}
		skip = r.NoShrinkKeys[pre]
	}
	if !skip && d.Case.Domain && len(r.Res.Disagreements) < max && !(d.Kind == "tie-broken" && r.tieKept >= 3) {
		r.shrink(&d)
	}
	if d.Key == "" {
		d.Key = d.Case.Key
		if r.KeyOf != nil {
			d.Key = r.KeyOf(&d)
		}
	}
	if d.Key == "" {
		d.Key = r.F.Prop + ":" + firstWords(d.Request, 2)
	}
	if d.Case.Domain {
		r.Res.DisagreementCount++
		if d.Kind == "tie-broken" {
			r.tieKept++
		}
		if (d.Kind == "tie-broken" && r.tieKept <= 20) || (d.Kind != "tie-broken" && len(r.Res.Disagreements) < 200) {
			r.Res.Disagreements = append(r.Res.Disagreements, d)
		}
	} else {
		r.Res.DriftCount++
		if len(r.Res.DriftOutside) < 10 {
			r.Res.DriftOutside = append(r.Res.DriftOutside, d)
		}
	}
}

func firstWords(s string, n int) string {
	w := strings.Fields(s)
	if len(w) > n {
		w = w[:n]
	}
	return strings.Join(w, ":")
}

// firstVerdict: index of the first line on which the implementation-side monitor fires, or -1.
func (r *Runner) firstVerdict(lines []string) int {
	impl := execCase(r.Impl, lines)
	for i := range lines {
		if r.ImplVerdict(impl[i]) != "" {
			return i
		}
	}
	return -1
}

// firstDiff runs lines on both sides; returns index of first differing line or -1.
func (r *Runner) firstDiff(lines []string) (int, string, string) {
	impl := execCase(r.Impl, lines)
	model, err := RunDriver(r.F.Driver, lines)
	if err != nil {
		return -1, "", ""
	}
	for i := range lines {
		if !r.eq(lines[i], impl[i], model[i]) {
			return i, impl[i], model[i]
		}
	}
	return -1, "", ""
}

// shrink: greedy one-line-at-a-time removal (keeps line 0, the case header), bounded effort.
func (r *Runner) shrink(d *Disagreement) {
	bad := func(lines []string) int {
		if strings.Contains(d.Key, ":monitor:") && r.ImplVerdict != nil {
			return r.firstVerdict(lines)
		}
		k, im, mo := r.firstDiff(lines)
		if k >= 0 && r.ShrinkReject != nil && r.ShrinkReject(lines[k], im, mo) {
			return -1
		}
		return k
	}
	lines := append([]string{}, d.Case.Lines[:d.LineNo+1]...)
	budget := 60
	if r.ShrinkBudget > 0 {
		budget = r.ShrinkBudget
	}
	lo := 0
	if len(lines) > 0 && strings.HasPrefix(lines[0], "case") {
		lo = 1
	}
	changed := true
	for changed && budget > 0 {
		changed = false
		for i := len(lines) - 2; i >= lo && budget > 0; i-- {
			if r.ShrinkKeep != nil && i < len(lines) && r.ShrinkKeep(lines, i) {
				continue
			}
			cand := append(append([]string{}, lines[:i]...), lines[i+1:]...)
			budget--
			if k := bad(cand); k >= 0 {
				lines = cand[:k+1]
				changed = true
				if i > len(lines)-1 {
					i = len(lines) - 1 // the case got shorter than the position we were at
				}
			}
		}
	}
	if k := bad(lines); k >= 0 {
		d.Shrunk = lines
		d.ShrunkAt = k
	}
}

// RunCorpus runs corpus cases (JSON files holding a Case) first.
func (r *Runner) RunCorpus() {
	if r.F.Corpus == "" {
		return
	}
	ents, err := os.ReadDir(r.F.Corpus)
	if err != nil {
		return
	}
	names := []string{}
	for _, e := range ents {
		if strings.HasSuffix(e.Name(), ".json") {
			names = append(names, e.Name())
		}
	}
	sort.Strings(names)
	for _, n := range names {
		b, err := os.ReadFile(r.F.Corpus + "/" + n)
		if err != nil {
			continue
		}
		var c Case
		if json.Unmarshal(b, &c) != nil || len(c.Lines) == 0 {
			continue
		}
		c.Tags = append(c.Tags, "corpus")
		r.Add(c)
	}
	r.Res.Extra["corpus_cases"] = len(names)
}

// ReplayFile is the on-disk form of a replay.
type ReplayFile struct {
	Property string       `json:"property"`
	Kind     string       `json:"kind"`
	Harness  string       `json:"harness"`
	Seed     int64        `json:"seed"`
	Broken   string       `json:"broken"`
	Dis      Disagreement `json:"disagreement"`
}

// HandleReplay re-runs the case of a replay file; returns true if it was a replay run.
func (r *Runner) HandleReplay() bool {
	if r.F.Replay == "" {
		return false
	}
	b, err := os.ReadFile(r.F.Replay)
	if err != nil {
		fmt.Fprintln(os.Stderr, err)
		os.Exit(3)
	}
	var rf ReplayFile
	if err := json.Unmarshal(b, &rf); err != nil {
		fmt.Fprintln(os.Stderr, err)
		os.Exit(3)
	}
	lines := rf.Dis.Shrunk
	if len(lines) == 0 {
		lines = rf.Dis.Case.Lines
	}
	c := rf.Dis.Case
	c.Lines = lines
	c.Domain = true
	r.Add(c)
	r.Finish()
	return true
}

// Finish flushes and writes the result.
func (r *Runner) Finish() {
	r.Flush()
	r.Res.WallS = time.Since(r.start).Seconds()
	if len(r.Res.Samples) == 0 && r.Res.Evaluations > 0 {
		r.Res.Notes["samples"] = "no non-trivial in-domain sample was kept"
	}
	b, _ := json.MarshalIndent(r.Res, "", " ")
	if r.F.Out == "" {
		os.Stdout.Write(b)
		os.Stdout.Write([]byte{'\n'})
	} else {
		os.WriteFile(r.F.Out, b, 0o644)
	}
}

/-!
# Model of the identity part of `gerror` (`errors.Is`, `Unwrap`, `ExtractFactoryReference`, `Convert*`)

Mirrors `gerror/gerror.go` (`Is`, `Unwrap`, `ExtractFactoryReference`, `Convert`, `ConvertS` and the
17 derivation methods), `gerror/factory.go` (`FactoryOf`, `CloneBase`: the back-reference and the
converted-error bookkeeping) and the template's `toPrimaryType`, plus the documented algorithm of the
standard library's `errors.Is`.  Messages, tags, sources and stacks play no part in any of these
and are not modelled here (they are C15's subject).

* A heap of error objects (`Obj`); the address of an object is its index.
* An interface value of type `error` is a `Val`: `nil`, `base a` (a `*GError` pointing at the
  `GError` of object `a` -- for an object of a generated extension type that is its *embedded*
  `GError`, a different interface value from `ext ty a`, the `*T` itself), or a foreign error.
  A foreign error has a dynamic type (`FTy`: comparable or not), an identity, and the value its
  `Unwrap` returns (`nil` if it has none).
* `ifaceEq` is Go's `==` on interface values: it panics exactly when both sides have the same
  non-comparable dynamic type.
* loops/recursions of the Go code run on fuel; running out is the distinct outcome `Res.fuel`.

`gIs`/`cloneBase` mirror the repaired code (the comparison with a converted error is guarded by
comparability, every converted error is kept); `gIsLegacy`/`cloneBaseLegacy` mirror the pinned code.
-/
namespace GErrorIs

/-- dynamic type of a foreign error value: `cmp n` comparable (pointer, string, struct of
comparables), `noncmp n` not comparable (slice- or map-based). -/
inductive FTy where
  | cmp (n : Nat)
  | noncmp (n : Nat)
deriving DecidableEq, Repr, Inhabited

/-- an interface value of static type `error` -/
inductive Val where
  | nil
  | base (a : Nat)
  | ext (ty a : Nat)
  | foreign (ty : FTy) (id : Nat) (wraps : Val)
deriving DecidableEq, Repr, Inhabited

/-- outcome of a Go boolean expression: true, false, a run-time panic, or fuel exhausted -/
inductive Res where
  | t | f | panic | fuel
deriving DecidableEq, Repr, Inhabited

def Res.ofBool (b : Bool) : Res := if b then .t else .f

/-- Go's `a || b` (`b` is not evaluated when `a` is true; a panic in `a` propagates) -/
def Res.or (a b : Res) : Res :=
  match a with
  | .t => .t
  | .f => b
  | x => x

/-- Go's `c && b` for a plain boolean `c` -/
def Res.guard (c : Bool) (b : Res) : Res := if c then b else .f

/-- the `GError` fields that matter (gerror.go:30-39), plus the dynamic type of the object -/
structure Obj where
  /-- `none`: a plain `GError`; `some t`: an object of generated type number `t` embedding it -/
  extTy : Option Nat := none
  isFactory : Bool := false
  /-- `factoryRef factoryOf` -/
  factoryRef : Val := .nil
  /-- `srcErrors []error` (pinned code: `srcError error`, here a list of length ≤ 1) -/
  srcErrors : List Val := []
deriving DecidableEq, Repr, Inhabited

abbrev Heap := List Obj

def obj (h : Heap) (a : Nat) : Obj := h[a]?.getD {}

/-- `gerr, ok := err.(Error); gerr._embededGError()`: the address of the (embedded) `GError` -/
def embedded : Val → Option Nat
  | .base a => some a
  | .ext _ a => some a
  | _ => none

/-- `reflect.TypeOf(v).Comparable()` for a non-nil interface value -/
def isComparable : Val → Bool
  | .foreign (.noncmp _) _ _ => false
  | _ => true

/-- Go's `==` on two interface values -/
def ifaceEq : Val → Val → Res
  | .nil, .nil => .t
  | .base a, .base b => .ofBool (a == b)
  | .ext t a, .ext u b => .ofBool (t == u && a == b)
  | .foreign (.cmp t) i _, .foreign (.cmp u) j _ => .ofBool (t == u && i == j)
  | .foreign (.noncmp t) _ _, .foreign (.noncmp u) _ _ => if t = u then .panic else .f
  | _, _ => .f

/-- `ExtractFactoryReference` (gerror.go:227-237) -/
def extractFactoryRef (h : Heap) (err : Val) : Val :=
  match embedded err with
  | none => .nil
  | some a => if (obj h a).isFactory then .base a else (obj h a).factoryRef

/-- `slices.Contains(srcs, err)` -/
def containsErr (srcs : List Val) (err : Val) : Res :=
  match srcs with
  | [] => .f
  | s :: rest => (ifaceEq s err).or (containsErr rest err)

/-- `(*GError).Is` with receiver `&(object e).GError` (gerror.go:201-220, repaired) -/
def gIs (h : Heap) : Nat → Nat → Val → Res
  | 0, _, _ => .fuel
  | n + 1, e, err =>
    let o := obj h e
    -- if e.isFactory && e == ExtractFactoryReference(err) { return true }
    match Res.guard o.isFactory (ifaceEq (.base e) (extractFactoryRef h err)) with
    | .t => .t
    | .f =>
      -- e == err || e.factoryRef != nil && e.factoryRef == err ||
      --   isComparable(err) && slices.Contains(e.srcErrors, err)
      match ((ifaceEq (.base e) err).or
              (Res.guard (o.factoryRef != .nil) (ifaceEq o.factoryRef err))).or
              (Res.guard (err != .nil && isComparable err) (containsErr o.srcErrors err)) with
      | .t => .t
      | .f =>
        -- gerr, ok := err.(Error); if !ok { return false }
        match embedded err with
        | none => .f
        | some a =>
          -- if unwrapped := gerr.Unwrap(); unwrapped != nil { return e.Is(unwrapped) }
          let u := (obj h a).factoryRef
          if u = .nil then .f else gIs h n e u
      | x => x
    | x => x

/-- `(*GError).Is` at the pinned commit: `e.srcError != nil && e.srcError == err`, unguarded -/
def gIsLegacy (h : Heap) : Nat → Nat → Val → Res
  | 0, _, _ => .fuel
  | n + 1, e, err =>
    let o := obj h e
    match Res.guard o.isFactory (ifaceEq (.base e) (extractFactoryRef h err)) with
    | .t => .t
    | .f =>
      match ((ifaceEq (.base e) err).or
              (Res.guard (o.factoryRef != .nil) (ifaceEq o.factoryRef err))).or
              (match o.srcErrors with | [] => .f | s :: _ => ifaceEq s err) with
      | .t => .t
      | .f =>
        match embedded err with
        | none => .f
        | some a =>
          let u := (obj h a).factoryRef
          if u = .nil then .f else gIsLegacy h n e u
      | x => x
    | x => x

/-- `x.Unwrap()` of the `errors.Is` loop: gerror values unwrap to their factory back-reference
(`(*GError).Unwrap`, promoted on extension types), foreign errors to what they wrap -/
def unwrap (h : Heap) : Val → Val
  | .base a => (obj h a).factoryRef
  | .ext _ a => (obj h a).factoryRef
  | .foreign _ _ w => w
  | .nil => .nil

/-- the `errors.Is` loop (`errors.is`), parameterised by the `Is` method of gerror values -/
def errorsIsLoop (is : Nat → Nat → Val → Res) (h : Heap) : Nat → Val → Val → Bool → Res
  | 0, _, _, _ => .fuel
  | n + 1, err, target, cmp =>
    -- if targetComparable && err == target { return true }
    match Res.guard cmp (ifaceEq err target) with
    | .t => .t
    | .f =>
      -- if x, ok := err.(interface{ Is(error) bool }); ok && x.Is(target) { return true }
      match (match embedded err with
             | some a => is (n + 1) a target   -- promoted method: the receiver is the embedded GError
             | none => .f) with
      | .t => .t
      | .f =>
        -- err = x.Unwrap(); if err == nil { return false }
        let u := unwrap h err
        if u = .nil then .f else errorsIsLoop is h n u target cmp
      | x => x
    | x => x

/-- `errors.Is(err, target)` on the repaired code -/
def errorsIs (h : Heap) (fuel : Nat) (err target : Val) : Res :=
  if err = .nil ∨ target = .nil then .ofBool (err == target)
  else errorsIsLoop (gIs h) h fuel err target (isComparable target)

/-- `errors.Is(err, target)` on the pinned code -/
def errorsIsLegacy (h : Heap) (fuel : Nat) (err target : Val) : Res :=
  if err = .nil ∨ target = .nil then .ofBool (err == target)
  else errorsIsLoop (gIsLegacy h) h fuel err target (isComparable target)

/-! ## construction: roots, `FactoryOf`, `CloneBase`, `toPrimaryType`, the 19 methods -/

/-- `&GError{...}` / `&T{GError: gerror.GError{...}}`: a fresh root object -/
def alloc (h : Heap) (o : Obj) : Heap × Nat := (h ++ [o], h.length)

/-- `FactoryOf(err)`: `err._embededGError().isFactory = true` -/
def factoryOf (h : Heap) (v : Val) : Heap :=
  match embedded v with
  | some a => if a < h.length then h.set a { obj h a with isFactory := true } else h
  | none => h

/-- `CloneBase(err, _, _, _, _, srcError)` (factory.go:91-146, repaired); `recv` is `err`, `a` the
address of `err._embededGError()`.  Returns the heap with the clone and the clone's address. -/
def cloneBase (h : Heap) (recv : Val) (a : Nat) (srcError : Val) : Heap × Nat :=
  let base := obj h a
  -- fRef := factoryOf(base); if base.factoryRef != nil { fRef = base.factoryRef }
  let fRef := if base.factoryRef != .nil then base.factoryRef else .base a
  let clone : Obj := { extTy := none, isFactory := false, factoryRef := fRef, srcErrors := base.srcErrors }
  -- if clone.factoryRef == nil && base.isFactory { clone.factoryRef = err }
  let clone := if clone.factoryRef == .nil && base.isFactory then { clone with factoryRef := recv } else clone
  -- if srcError != nil { clone.srcErrors = append(copy of base.srcErrors, srcError) }
  let clone := if srcError != .nil then { clone with srcErrors := base.srcErrors ++ [srcError] } else clone
  alloc h clone

/-- `CloneBase` at the pinned commit: `if clone.srcError == nil && srcError != nil` (first wins) -/
def cloneBaseLegacy (h : Heap) (recv : Val) (a : Nat) (srcError : Val) : Heap × Nat :=
  let base := obj h a
  let fRef := if base.factoryRef != .nil then base.factoryRef else .base a
  let clone : Obj := { extTy := none, isFactory := false, factoryRef := fRef, srcErrors := base.srcErrors }
  let clone := if clone.factoryRef == .nil && base.isFactory then { clone with factoryRef := recv } else clone
  let clone := if clone.srcErrors.isEmpty && srcError != .nil then { clone with srcErrors := [srcError] } else clone
  alloc h clone

/-- the 19 methods of `gerror.Factory` that produce errors -/
inductive Meth where
  | Base | SourceOnly | Stack | Src | DTag | Msg | SrcDTagMsg | SrcDTag | SrcMsg | DTagMsg
  | SrcS | DTagS | MsgS | SrcDTagMsgS | SrcDTagS | SrcMsgS | DTagMsgS
  | Convert | ConvertS
deriving DecidableEq, Repr, Inhabited

def Meth.all : List Meth :=
  [.Base, .SourceOnly, .Stack, .Src, .DTag, .Msg, .SrcDTagMsg, .SrcDTag, .SrcMsg, .DTagMsg,
   .SrcS, .DTagS, .MsgS, .SrcDTagMsgS, .SrcDTagS, .SrcMsgS, .DTagMsgS, .Convert, .ConvertS]

/-- the two methods that take an error (and pass it on to `CloneBase`) -/
def Meth.isConvert : Meth → Bool
  | .Convert | .ConvertS => true
  | _ => false

/-- the `srcError` argument a method hands to `CloneBase`: `err` for Convert/ConvertS, `nil` for
the 17 derivations (gerror.go:66-168, gerror.gotmpl) -/
def Meth.srcArg (m : Meth) (arg : Val) : Val := if m.isConvert then arg else .nil

/-- one method call `recv.m(…, arg)`; `clone` is `cloneBase` or `cloneBaseLegacy`.
Convert/ConvertS first return an `arg` that already is a gerror `Error` unchanged.
On an extension type the clone is copied into a fresh `&T{GError: *gerr, …}` (`toPrimaryType`). -/
def callWith (clone : Heap → Val → Nat → Val → Heap × Nat)
    (h : Heap) (recv : Val) (m : Meth) (arg : Val) : Heap × Val :=
  match recv with
  | .base a =>
    if m.isConvert && (embedded arg).isSome then (h, arg)
    else
      let r := clone h recv a (m.srcArg arg)
      (r.1, .base r.2)
  | .ext ty a =>
    if m.isConvert && (embedded arg).isSome then (h, arg)
    else
      let r := clone h recv a (m.srcArg arg)
      let r2 := alloc r.1 { obj r.1 r.2 with extTy := some ty }
      (r2.1, .ext ty r2.2)
  | _ => (h, .nil)

def call := callWith cloneBase
def callLegacy := callWith cloneBaseLegacy

/-! ## histories: pools of factories and derivation calls -/

/-- argument of a call: nothing/`nil`, a foreign error, or an earlier value of the history -/
inductive Arg where
  | none
  | foreign (e : Val)
  | value (j : Nat)
deriving DecidableEq, Repr, Inhabited

/-- one step of a history; every step adds one value to the list of values -/
inductive Cmd where
  /-- `&GError{…}`, with or without `FactoryOf` -/
  | newBase (marked : Bool)
  /-- `&T{GError: gerror.GError{…}}` of generated type `ty`, with or without `FactoryOf` -/
  | newExt (ty : Nat) (marked : Bool)
  /-- `values[recv].m(…, arg)` -/
  | call (recv : Nat) (m : Meth) (arg : Arg)
deriving DecidableEq, Repr, Inhabited

structure World where
  h : Heap := []
  vals : List Val := []
deriving Repr, Inhabited

def World.val (w : World) (i : Nat) : Val := w.vals[i]?.getD .nil

def World.argVal (w : World) : Arg → Val
  | .none => .nil
  | .foreign e => e
  | .value j => w.val j

def execWith (callF : Heap → Val → Meth → Val → Heap × Val) (w : World) : Cmd → World
  | .newBase marked =>
    let r := alloc w.h {}
    let h := if marked then factoryOf r.1 (.base r.2) else r.1
    { h := h, vals := w.vals ++ [.base r.2] }
  | .newExt ty marked =>
    let r := alloc w.h { extTy := some ty }
    let h := if marked then factoryOf r.1 (.ext ty r.2) else r.1
    { h := h, vals := w.vals ++ [.ext ty r.2] }
  | .call i m arg =>
    let r := callF w.h (w.val i) m (w.argVal arg)
    { h := r.1, vals := w.vals ++ [r.2] }

def exec := execWith call
def execLegacy := execWith callLegacy

def run (cmds : List Cmd) : World := cmds.foldl exec {}
def runLegacy (cmds : List Cmd) : World := cmds.foldl execLegacy {}

/-! ## Specification (mirrors the property text; speaks about histories only, never about the heap)

`specOrigin cmds i` is the index of the factory value `i` was derived from: a factory is its own
origin, a derivation has its receiver's origin, Convert/ConvertS of a value that already is a
gerror error *is* that value.  `specSources cmds i` lists the foreign errors converted on the way. -/

def specOriginStep (os : List Nat) : Cmd → List Nat
  | .newBase _ => os ++ [os.length]
  | .newExt _ _ => os ++ [os.length]
  | .call i m arg =>
    match m.isConvert, arg with
    | true, .value j => os ++ [os[j]?.getD 0]
    | _, _ => os ++ [os[i]?.getD 0]

def specOrigins (cmds : List Cmd) : List Nat := cmds.foldl specOriginStep []
def specOrigin (cmds : List Cmd) (i : Nat) : Nat := (specOrigins cmds)[i]?.getD 0

def specSourcesStep (ss : List (List Val)) : Cmd → List (List Val)
  | .newBase _ => ss ++ [[]]
  | .newExt _ _ => ss ++ [[]]
  | .call i m arg =>
    match m.isConvert, arg with
    | true, .value j => ss ++ [ss[j]?.getD []]
    | true, .foreign e => ss ++ [ss[i]?.getD [] ++ (if e = .nil then [] else [e])]
    | _, _ => ss ++ [ss[i]?.getD []]

def specSources (cmds : List Cmd) (i : Nat) : List Val := ((cmds.foldl specSourcesStep [])[i]?.getD [])

/-- "the same error value" for foreign errors of comparable type (what `==` decides) -/
def sameForeign : Val → Val → Bool
  | .foreign (.cmp t) i _, .foreign (.cmp u) j _ => t == u && i == j
  | _, _ => false

/-- the property's answer for `errors.Is(values[i], values[j])`: same originating factory -/
def specIs (cmds : List Cmd) (i j : Nat) : Bool := specOrigin cmds i == specOrigin cmds j

/-- the property's answer for `errors.Is(values[i], e)`, `e` foreign: `e` was converted on the way
to `values[i]` (required for comparable `e`; for non-comparable `e` only "no panic") -/
def specIsForeign (cmds : List Cmd) (i : Nat) (e : Val) : Bool :=
  (specSources cmds i).any (fun s => sameForeign s e)

/-- a foreign error that neither is nor wraps a gerror error -/
def pureForeign : Val → Bool
  | .foreign _ _ .nil => true
  | .foreign _ _ w => pureForeign w
  | _ => false

/-- the quantifier's domain: calls refer to earlier values, Convert arguments are earlier values,
nothing, or foreign errors not wrapping gerror errors; extension-type factories are made with
`FactoryOf` (DESIGN.md section 8). -/
def Cmd.inDomain (n : Nat) : Cmd → Bool
  | .newBase _ => true
  | .newExt _ marked => marked
  | .call i _ arg =>
    decide (i < n) && (match arg with
      | .none => true
      | .foreign e => pureForeign e
      | .value j => decide (j < n))

/-- every command of a history is in the domain (given the number of values before it) -/
def inDomain : Nat → List Cmd → Bool
  | _, [] => true
  | n, c :: cs => c.inDomain n && inDomain (n + 1) cs

end GErrorIs

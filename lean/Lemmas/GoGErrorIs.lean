import Model.GoIface
import Lemmas.GErrorIsInv
/-!
# The primitives of `Model/GoIface.lean` in terms of the C06 model's outcomes (`GErrorIs.Res`)

`Go.ofRes` embeds the model's four outcomes (true / false / panic / out of fuel) into the monad of
the translated code.  The lemmas below move every primitive the translated `Is` uses under `ofRes`,
so that the obligation "translated `Is` = model `gIs`" becomes a case analysis over `Res` values.
-/
namespace GoGErrorIs
open GErrorIs

@[simp] theorem toRes_ofRes (r : Res) : Go.toRes (Go.ofRes r) = r := by
  cases r <;> simp [Go.ofRes, Go.toRes, pure, Except.pure, throw, throwThe, MonadExceptOf.throw, Go.panicMsg, Go.fuelMsg]

theorem ofRes_ofBool (b : Bool) : Go.ofRes (Res.ofBool b) = pure b := by
  cases b <;> rfl

theorem nbeq_comm (a b : Nat) : (a == b) = (b == a) := by
  rw [Bool.eq_iff_iff, beq_iff_eq, beq_iff_eq]; exact eq_comm

/-- `==` on interface values is symmetric (also in where it panics) -/
theorem ifaceEq_comm (a b : Val) : ifaceEq a b = ifaceEq b a := by
  cases a with
  | nil =>
    cases b with
    | foreign ty j w => cases ty <;> rfl
    | _ => rfl
  | base x => cases b <;> simp [ifaceEq, nbeq_comm x]
  | ext t x => cases b <;> simp [ifaceEq, nbeq_comm x, nbeq_comm t]
  | foreign ty i w =>
    cases b with
    | foreign ty' j w' =>
      cases ty <;> cases ty' <;> simp [ifaceEq, eq_comm, nbeq_comm i]
      rename_i a b; rw [nbeq_comm a]
    | _ => cases ty <;> rfl

theorem land_pure_ofRes (c : Bool) (r : Res) : Go.land (pure c) (Go.ofRes r) = Go.ofRes (Res.guard c r) := by
  cases c <;> rfl

theorem lor_ofRes (a b : Res) : Go.lor (Go.ofRes a) (Go.ofRes b) = Go.ofRes (a.or b) := by
  cases a <;> rfl

theorem slicesContains_eq (l : List Val) (v : Val) : Go.slicesContains l v = Go.ofRes (containsErr l v) := by
  induction l with
  | nil => rfl
  | cons x rest ih =>
    simp only [Go.slicesContains, containsErr, Go.ifaceEq, ih, ifaceEq_comm v x]
    exact lor_ofRes _ _

/-- `if (← r) then return true; k` -/
theorem ofRes_bind_ite (r : Res) (k : Go.M Bool) :
    (Go.ofRes r >>= fun c => if c = true then pure true else k) =
      (match r with | .t => pure true | .f => k | x => Go.ofRes x) := by
  cases r <;> rfl

theorem ofRes_inj {a b : Res} (h : Go.ofRes a = Go.ofRes b) : a = b := by
  have := congrArg Go.toRes h
  simpa using this

end GoGErrorIs

import Model.GSync
/-! # C02 (work in progress: invariant proof follows) -/
namespace GSync

/-- The algorithm at the pinned commit violates C02: after the schedule of `legacy_violates_C01`
all calls have returned, the count is 3 and the sentinel is installed. -/
theorem legacy_violates_C02 :
    let s := run false (init false [[.add 1, .add (-1)], [.wait, .add 1, .add 2, .wait]])
      [0, 0, 0, 1, 1, 1, 1, 1, 1, 1, 1, 0, 0]
    quiescent s = true ∧ s.sh.count = 3 ∧ s.sh.wchan = 0 := by
  decide

end GSync

package main

import (
	"fmt"
	"math/rand"
	"sort"
	"strings"

	"verif/harness/internal/hx"
)

type gen struct {
	r        *hx.Runner
	w        *world
	thorough bool
	outcomes map[string]int
	queue    []hx.Case
}

func (g *gen) rng() *rand.Rand { return g.r.Rng }

// ---- request lines of a case

func genumLines(c *genumCase) []string {
	o := optWords(c.opts)
	ls := []string{c.header(), "gg genum run"}
	if c.prev != "" {
		ls = append(ls, "gg genum overprev")
	}
	ls = append(ls, "gg genum type Alpha",
		strings.TrimSpace("gg genum methods "+o+" "+strings.Join(c.traitNames(), " ")))
	if c.shape == "two" && !c.only1 {
		ls = append(ls, "gg genum type Beta", "gg genum methods "+o)
	}
	ls = append(ls, "gg genum imports "+o, "gg genum assert "+o, "gg genum fmt",
		strings.TrimSpace("gg genum build "+o+" "+strings.Join(c.modelKinds(), " ")))
	if !c.opts[4] {
		for j, k := range c.modelKinds() {
			if k != "named" {
				ls = append(ls, fmt.Sprintf("gg typeref %s %s", k, traitName(j)))
			}
		}
	}
	return ls
}

func gerrorLines(c *gerrorCase) []string {
	s := tf(c.skip)
	ls := []string{c.header(), "gg gerror run"}
	if c.prev != "" {
		ls = append(ls, "gg gerror overprev")
	}
	for _, tn := range c.typeNames() {
		ls = append(ls, "gg gerror type "+tn, "gg gerror methods "+s)
	}
	return append(ls, "gg gerror imports "+s, "gg gerror assert "+s, "gg gerror fmt", "gg gerror build "+s)
}

func gsortLines(c *gsortCase) []string {
	ls := []string{c.header(), "gg gsort run"}
	if c.prev != "" {
		ls = append(ls, "gg gsort overprev")
	}
	names := []string{}
	for n := range c.sorters() {
		names = append(names, n)
	}
	sort.Strings(names)
	for _, n := range names {
		ls = append(ls, "gg gsort type "+n, "gg gsort methods")
	}
	return append(ls, "gg gsort imports", "gg gsort assert", "gg gsort fmt", "gg gsort build")
}

func (g *gen) addGenum(c *genumCase, tags ...string) {
	def := [5]bool{true, true, true, false, false}
	g.queue = append(g.queue, hx.Case{Lines: genumLines(c), Domain: c.bad == "", Nontrivial: c.opts != def || len(c.traits) > 0,
		Tags: append([]string{"genum", "genum:" + c.shape}, tags...)})
}

func (g *gen) addGerror(c *gerrorCase, tags ...string) {
	nt := c.skip
	for _, f := range c.fields {
		if f.tag != "" {
			nt = true
		}
	}
	g.queue = append(g.queue, hx.Case{Lines: gerrorLines(c), Domain: c.bad == "", Nontrivial: nt, Tags: append([]string{"gerror"}, tags...)})
}

func (g *gen) addGsort(c *gsortCase, tags ...string) {
	g.queue = append(g.queue, hx.Case{Lines: gsortLines(c), Domain: c.bad == "", Nontrivial: len(c.sorters()) > 0, Tags: append([]string{"gsort"}, tags...)})
}

// flush prepares the queued cases in batches (one go build per batch) and hands them to hx.
func (g *gen) flush() {
	const batch = 48
	for i := 0; i < len(g.queue); i += batch {
		j := i + batch
		if j > len(g.queue) {
			j = len(g.queue)
		}
		hs := make([]string, 0, j-i)
		for _, c := range g.queue[i:j] {
			hs = append(hs, c.Lines[0])
		}
		g.w.prepare(hs)
		for _, c := range g.queue[i:j] {
			if o := g.w.cache[c.Lines[0]]; o != nil {
				g.outcomes[strings.Fields(c.Lines[0])[2]+":"+o.run]++
			}
			g.r.Add(c)
		}
	}
	g.queue = nil
}

// ---- definitions

func allOpts() [][5]bool {
	var r [][5]bool
	for m := 0; m < 32; m++ {
		var o [5]bool
		for i := 0; i < 5; i++ {
			o[i] = m&(1<<i) != 0
		}
		r = append(r, o)
	}
	return r
}

func cols(spec string) []traitCol {
	var r []traitCol
	if spec == "" {
		return r
	}
	for _, t := range strings.Split(spec, ",") {
		r = append(r, traitCol{kind: strings.TrimSuffix(t, "+p"), parsable: strings.HasSuffix(t, "+p")})
	}
	return r
}

var genumBase = []genumCase{
	{n: 3, under: "int", traits: cols("ustr+p,uflt,dur"), shape: "plain"},
	// parsable traits of a named string and a named int type under every marshaler subset
	{n: 2, under: "uint8", traits: cols("urune,i64+p,label+p,level+p,ubool"), shape: "plain"},
	{n: 17, under: "int32", shape: "dup"},
}

func (g *gen) randomGenum() *genumCase {
	rng := g.rng()
	c := &genumCase{n: 1 + rng.Intn(4), under: []string{"int", "uint8", "int32", "int64", "uint16"}[rng.Intn(5)], shape: "plain"}
	if rng.Intn(6) == 0 {
		c.n = 16 + rng.Intn(3)
	}
	nt := rng.Intn(5)
	self := false
	used := map[string]bool{}
	for j := 0; j < nt; j++ {
		k := traitKindNames[rng.Intn(len(traitKindNames))]
		tk := traitKinds[k]
		if used[k] {
			continue // two columns of one kind would carry identical values
		}
		used[k] = true
		if tk.self {
			if self {
				continue // a second self-unmarshalling column is its own stream
			}
			self = true
		}
		col := traitCol{kind: k}
		if tk.uniq && c.n <= 26 && rng.Intn(2) == 0 {
			col.parsable = true
		}
		c.traits = append(c.traits, col)
	}
	switch rng.Intn(6) {
	case 0:
		if len(c.traits) == 0 {
			c.shape = "dup"
		}
	case 1:
		c.shape = "two"
	}
	for i := range c.opts {
		c.opts[i] = rng.Intn(2) == 0
	}
	return c
}

func (g *gen) randomGerror() *gerrorCase {
	rng := g.rng()
	c := &gerrorCase{skip: rng.Intn(2) == 0, two: rng.Intn(4) == 0}
	c.custom = c.skip && rng.Intn(2) == 0
	types := []string{"int", "string", "bool", "f64", "dur", "status", "ptr", "slice"}
	tags := []string{"", "pc", "p", "c", "n:Shown:pc", "n:other:p"}
	for i, n := 0, rng.Intn(5); i < n; i++ {
		c.fields = append(c.fields, gerrField{name: fmt.Sprintf("F%d", i), typ: types[rng.Intn(len(types))], tag: tags[rng.Intn(len(tags))]})
	}
	return c
}

func (g *gen) randomGsort() *gsortCase {
	rng := g.rng()
	c := &gsortCase{two: rng.Intn(4) == 0}
	types := []string{"int", "string", "bool", "f64", "u8", "dur", "rank"}
	for _, k := range orderedBasics {
		types = append(types, "n"+k)
	}
	types = append(types, "nbool")
	sorters := []string{"ByX", "*ByXP", "ByY", "*ByYP"}
	prio := map[string]int{}
	for i, n := 0, 1+rng.Intn(5); i < n; i++ {
		f := gsortField{name: fmt.Sprintf("F%d", i), typ: types[rng.Intn(len(types))]}
		for _, s := range sorters {
			if rng.Intn(3) == 0 {
				prio[s]++
				t := fmt.Sprintf("%s,%d", s, prio[s])
				switch {
				case f.typ == "rank" && rng.Intn(2) == 0:
					t += ",String()"
				case f.typ == "nbool": // a named bool key is compared through a non-bool accessor
					t += []string{",String()", ",Rank()"}[rng.Intn(2)]
				case strings.HasPrefix(f.typ, "n") && rng.Intn(2) == 0:
					t += []string{",String()", ",Rank()"}[rng.Intn(2)]
				}
				f.tags = append(f.tags, t)
			}
		}
		c.fields = append(c.fields, f)
	}
	return c
}

func (g *gen) run() {
	g.outcomes = map[string]int{}
	// (1) every one of the 2^5 genum settings on every base definition; parsable subsets vary with the setting
	bases := append([]genumCase{}, genumBase...)
	if g.thorough {
		for len(bases) < g.r.N(40) {
			c := g.randomGenum()
			bases = append(bases, *c)
		}
	}
	for bi := range bases {
		for oi, o := range allOpts() {
			c := bases[bi]
			if len(c.traits) == 0 && o[4] {
				continue // -disableTraits changes nothing for a definition without trait columns
			}
			c.opts = o
			c.traits = append([]traitCol{}, c.traits...)
			if bi < len(genumBase) && o[3] {
				// under -caseInsensitive: another parsable subset per marshaler subset; without it
				// the base subset meets all eight marshaler subsets
				for j := range c.traits {
					if traitKinds[c.traits[j].kind].uniq {
						c.traits[j].parsable = (oi&7+j)%2 == 0
					}
				}
			}
			g.addGenum(&c, "genum:sweep32")
		}
	}
	// (2) all parsable subsets of the first base definition under the default options
	{
		base := genumBase[0]
		var idx []int
		for j, t := range base.traits {
			if traitKinds[t.kind].uniq {
				idx = append(idx, j)
			}
		}
		for m := 0; m < 1<<len(idx); m++ {
			c := base
			c.opts = [5]bool{true, true, true, false, false}
			c.traits = append([]traitCol{}, base.traits...)
			for b, j := range idx {
				c.traits[j].parsable = m&(1<<b) != 0
			}
			g.addGenum(&c, "genum:parsable-subsets")
		}
	}
	// (3) the trait kinds the base definitions do not use, all marshalers on and yaml off
	for _, spec := range []string{"uint+p,str,f32+p,month,code+p", "u8+p,f64+p,level+p,mark"} {
		for _, yaml := range []bool{true, false} {
			c := genumCase{n: 2, under: "int", shape: "plain", traits: cols(spec), opts: [5]bool{true, yaml, true, true, false}}
			g.addGenum(&c, "genum:other-kinds")
		}
	}
	// (4) random definitions x random settings
	n := 4
	if g.thorough {
		n = 400
	}
	for i := 0; i < g.r.N(n); i++ {
		g.addGenum(g.randomGenum(), "genum:random")
	}
	// (5) definition shapes whose failures are other properties' subjects (C12), under their own keys
	g.addGenum(&genumCase{n: 2, under: "int", shape: "duptraits", traits: cols("ustr,uint"), opts: [5]bool{true, true, true, false, false}}, "genum:duplicate-with-traits")
	g.addGenum(&genumCase{n: 3, under: "int", shape: "collide", traits: cols("ustr"), opts: [5]bool{true, true, true, false, false}}, "genum:case-collision-sensitive")
	g.addGenum(&genumCase{n: 2, under: "int", shape: "plain", traits: cols("code+p,mark+p"), opts: [5]bool{true, true, true, false, false}}, "genum:two-self-unmarshalling")

	// (6) regeneration over a DIFFERENT previous output that is longer (all marshalers on before they
	// are switched off, more -types before fewer): must equal a generation into a fresh package
	g.addGenum(&genumCase{n: 3, under: "int", shape: "plain", traits: cols("ustr+p,label+p"), opts: [5]bool{false, false, true, false, false}, prev: "allon"}, "genum:over-previous")
	g.addGenum(&genumCase{n: 2, under: "int", shape: "plain", traits: cols("uint,dur"), opts: [5]bool{true, true, true, false, true}, prev: "allon"}, "genum:over-previous")
	g.addGenum(&genumCase{n: 2, under: "int", shape: "two", only1: true, traits: cols("ustr"), opts: [5]bool{true, true, true, false, false}, prev: "moretypes"}, "genum:over-previous")
	g.addGerror(&gerrorCase{two: true, only1: true, prev: "moretypes", fields: []gerrField{{"Code", "int", "pc"}}}, "gerror:over-previous")
	g.addGerror(&gerrorCase{skip: true, custom: false, prev: "noskip", fields: []gerrField{{"Code", "int", "pc"}, {"When", "dur", "c"}}}, "gerror:over-previous")
	g.addGsort(&gsortCase{two: true, only1: true, prev: "moretypes", fields: []gsortField{{"A", "int", []string{"ByA,1", "*ByAP,1"}}, {"B", "string", []string{"ByA,2"}}}}, "gsort:over-previous")
	if g.thorough {
		for i := 0; i < g.r.N(40); i++ {
			c := g.randomGenum()
			c.prev = "allon"
			if c.shape == "two" {
				c.only1, c.prev = true, "moretypes"
			}
			g.addGenum(c, "genum:over-previous")
			e := g.randomGerror()
			e.two, e.only1, e.prev = true, true, "moretypes"
			g.addGerror(e, "gerror:over-previous")
			s := g.randomGsort()
			s.two, s.only1, s.prev = true, true, "moretypes"
			g.addGsort(s, "gsort:over-previous")
		}
	}

	// gerror: with/without -skipConvertGen (caller-written Convert or the promoted one) on every base definition
	gerrBase := []gerrorCase{
		{fields: []gerrField{{"Code", "int", "pc"}, {"Note", "string", "p"}, {"When", "dur", "c"}, {"Plain", "string", ""}}},
		{},
		{two: true, fields: []gerrField{{"Stat", "status", "n:Shown:pc"}, {"Ptr", "ptr", "c"}, {"Tags", "slice", "pc"}}},
	}
	for _, b := range gerrBase {
		for _, v := range [][2]bool{{false, false}, {true, true}, {true, false}} {
			c := b
			c.skip, c.custom = v[0], v[1]
			g.addGerror(&c, "gerror:sweep")
		}
	}
	n = 2
	if g.thorough {
		n = 100
	}
	for i := 0; i < g.r.N(n); i++ {
		g.addGerror(g.randomGerror(), "gerror:random")
	}
	// gsort: value and pointer sorters
	gsortBase := []gsortCase{
		{fields: []gsortField{{"A", "int", []string{"ByA,1"}}, {"B", "string", []string{"ByA,2", "*ByBP,1"}}, {"C", "bool", []string{"ByA,3"}},
			{"D", "dur", []string{"*ByBP,2"}}, {"R", "rank", []string{"ByR,1,String()"}}, {"U", "f64", nil}}},
		{fields: []gsortField{{"A", "int", nil}}},
		{two: true, fields: []gsortField{{"A", "u8", []string{"*OnlyP,1"}}}},
		{fields: []gsortField{{"A", "bool", []string{"ByFlag,1"}}}},
	}
	for i := range gsortBase {
		g.addGsort(&gsortBase[i], "gsort:sweep")
	}
	// named key types over EVERY ordered basic kind: plain, and through accessors of different
	// result types; value and pointer sorters.  Named bool keys go through a non-bool accessor.
	named := func(accV, accP string, kinds []string) *gsortCase {
		c := &gsortCase{}
		for i, k := range kinds {
			f := gsortField{name: fmt.Sprintf("F%d", i), typ: "n" + k}
			tv, tp := fmt.Sprintf("ByV,%d", i+1), fmt.Sprintf("*ByP,%d", i+1)
			if accV != "" {
				tv += "," + accV
			}
			if accP != "" {
				tp += "," + accP
			}
			f.tags = []string{tv, tp}
			c.fields = append(c.fields, f)
		}
		return c
	}
	g.addGsort(named("", "", orderedBasics), "gsort:named-kinds")
	g.addGsort(named("String()", "Rank()", orderedBasics), "gsort:named-kinds")
	g.addGsort(named("String()", "Rank()", []string{"bool"}), "gsort:named-kinds")
	// out of domain here (C08 lists named types with a String() accessor): a named bool key
	// without accessor and an accessor with a bool result; both render `<` on bools
	{
		c := named("", "", []string{"bool"})
		c.bad = "named-bool-plain"
		g.addGsort(c, "ood")
		c = named("IsSet()", "IsSet()", []string{"int", "bool"})
		c.bad = "bool-accessor"
		g.addGsort(c, "ood")
	}
	for i := 0; i < g.r.N(n); i++ {
		g.addGsort(g.randomGsort(), "gsort:random")
	}
	// out-of-domain definitions (drift only): the generator is expected to refuse them
	g.addGenum(&genumCase{n: 3, under: "int", shape: "plain", traits: cols("ustr+p"), opts: [5]bool{true, true, true, false, false}, bad: "nonunique"}, "ood")
	g.addGenum(&genumCase{n: 2, under: "int", shape: "plain", traits: cols("ustr"), opts: [5]bool{true, true, true, false, false}, bad: "noname"}, "ood")
	// names that differ only by case are legal Go and fine without -caseInsensitive; with it the
	// pinned generator writes two equal cases into the lower-case switch (does not compile)
	g.addGenum(&genumCase{n: 3, under: "int", shape: "collide", traits: cols("ustr"), opts: [5]bool{true, true, true, true, false}, bad: "case-collision"}, "ood")
	g.addGerror(&gerrorCase{bad: "noembed", fields: []gerrField{{"Code", "int", "pc"}}}, "ood")
	g.addGerror(&gerrorCase{bad: "badopt", fields: []gerrField{{"Code", "int", "pc"}}}, "ood")
	g.addGsort(&gsortCase{bad: "dupprio", fields: []gsortField{{"A", "int", []string{"ByA,1"}}, {"B", "int", []string{"ByA,1"}}}}, "ood")
	g.flush()
}

import Model.Log
import Driver.Util
/-! Line protocol for `Model/Log` (area prefix `lg`).

Sequential part (tie B):
`lg start seq <cur|legacy> <global level> <global field>*`, then
`lg init|child|wf <ctx> <field>*`, `lg derive|dbg <ctx>`, `lg sl <ctx> <level>` (each answers
`ctx <n>`, the number of the context the call returned) and `lg probeall <max level>`: for every
context, which of the levels Debug..max emit an entry and the (sorted) fields the entries carry.

Concurrent part (tie C):
`lg start conc <cur|legacy|nocas|nowith> <level> <field>* | <prog> | <prog> …` with `<prog>` a list of
`wf=<field>,<field>…` / `sl=<level>`; `lg step <tid>` answers the label class of the operation
performed and the whole observable state.

A field is an opaque token `key:value`. -/
namespace Drv.Log
open _root_.Log

structure DSt where
  F : Bool := true
  A : Bool := true
  s : St := initSt default
  cs : CSt := { sh := { heap := [default] } }
  conc : Bool := false
  started : Bool := false

def levelLetter (l : Int) : String :=
  if l == -1 then "D" else if l == 0 then "I" else if l == 1 then "W" else if l == 2 then "E" else "P"

def sortFields (fs : List String) : List String := fs.mergeSort (fun a b => decide (a ≤ b))

/-- levels `-1 .. max` -/
def levelsTo (max : Int) : List Int := (List.range (max + 2).toNat).map (fun (n : Nat) => Int.ofNat n - 1)

def probeCtx (s : St) (max : Int) (c : Nat) : String :=
  let core := logOf s c
  let outs := (levelsTo max).map (fun l => (l, emit core l))
  let pat := String.join (outs.map (fun o => match o.2 with | some _ => levelLetter o.1 | none => "-"))
  match outs.findSome? (fun o => o.2) with
  | some fs => pat ++ "[" ++ joinSp (sortFields fs) ++ "]"
  | none => pat

def splitBar (ws : List String) : List (List String) :=
  let r := ws.foldl (fun (acc : List (List String) × List String) w =>
    if w == "|" then (acc.2.reverse :: acc.1, []) else (acc.1, w :: acc.2)) ([], [])
  (r.2.reverse :: r.1).reverse

def parseCall (w : String) : Option Call :=
  if w.startsWith "wf=" then
    some (.wf (((w.drop 3).toString.splitOn ",").filter (fun x => x ≠ "")))
  else if w.startsWith "sl=" then (w.drop 3).toString.toInt?.map .sl
  else none

def variant (v : String) : Option (Bool × Bool) :=   -- (A, F)
  if v == "cur" then some (true, true) else if v == "legacy" then some (false, false)
  else if v == "nocas" then some (false, true) else if v == "nowith" then some (true, false) else none

def showLabel : Label → String
  | .none => "none" | .ptrRead => "ptr-read" | .ptrUpdate => "ptr-update"

def pcClass : PC → String
  | .idle => "idle"
  | .load (.wf _) | .upd (.wf _) _ _ => "wf"
  | .load (.sl _) | .upd (.sl _) _ _ => "sl"

def showCState (s : CSt) : String :=
  let core := cur s
  let lvl := match (levelsTo 2).find? (fun l => core.enabled l) with
    | some l => toString l | none => "off"
  let fs := match emit core 2 with | some fs => "[" ++ joinSp fs ++ "]" | none => "?"
  s!"ptr={s.sh.ptr} lvl={lvl} fields={fs} | " ++
    " | ".intercalate (s.threads.map (fun t => s!"{pcClass t.pc} done={t.done.length}"))

def ctxAnswer (s : St) : String := s!"ctx {s.ctxs.length - 1}"

def handle (d : DSt) (ws : List String) : DSt × String :=
  if !d.started && ws.head? != some "start" then (d, "bad-op") else
  match ws with
  | "start" :: "seq" :: v :: lvl :: gf =>
    match variant v, lvl.toInt? with
    | some (a, f), some l => ({ F := f, A := a, s := initSt (.base l gf), conc := false, started := true }, "ok")
    | _, _ => (d, "bad-op")
  | "start" :: "conc" :: v :: lvl :: rest =>
    match variant v, lvl.toInt?, splitBar rest with
    | some (a, f), some l, gf :: progs =>
      match progs.mapM (fun p => p.mapM parseCall) with
      | some ps => ({ F := f, A := a, cs := cinit (.base l gf) ps, conc := true, started := true }, "ok")
      | none => (d, "bad-op")
    | _, _, _ => (d, "bad-op")
  | ["step", i] =>
    if !d.conc then (d, "bad-op") else
    match i.toNat? with
    | some i =>
      let r := cstepL d.A d.F d.cs i
      ({ d with cs := r.1 }, showLabel r.2 ++ " " ++ showCState r.1)
    | none => (d, "bad-op")
  | ["state"] => (d, showCState d.cs)
  | ["probeall", m] =>
    match m.toInt? with
    | some m => (d, " | ".intercalate ((List.range d.s.ctxs.length).map (probeCtx d.s m)))
    | none => (d, "bad-op")
  | op :: c :: rest =>
    -- calls on a context: the context must exist
    match c.toNat? with
    | none => (d, "bad-op")
    | some c =>
      if d.conc || c ≥ d.s.ctxs.length then (d, "bad-op") else
      let o : Option Op := match op, rest with
        | "init", fs => some (.init c fs)
        | "child", fs => some (.child c fs)
        | "wf", fs => some (.withFields c fs)
        | "derive", [] => some (.derive c)
        | "dbg", [] => some (.enableDebug c)
        | "sl", [l] => l.toInt?.map (.setLevel c)
        | _, _ => none
      match o with
      | some o => let s := step d.F d.s o; ({ d with s := s }, ctxAnswer s)
      | none => (d, "bad-op")
  | _ => (d, "bad-op")

end Drv.Log

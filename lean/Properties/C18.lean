import Lemmas.LogSeq
import Lemmas.LogConc
/-!
# C18 — log: context loggers keep fields and levels across any call sequence

Sequential clause: `run true (initSt g) ops` ranges over every global logger `g` and every sequence
of `InitLogger`, `ChildLogger`, `WithFields`, `SetLevel`, `EnableDebug` calls (and context
derivations that share a logger) over the growing set of contexts, of any length.  The model
(`Model/Log.lean`, cores in holders, `With`/wrapper as in the code) is related to the specification
`Spec` (fields and level per logger, written from the property text).

Concurrent clause: `crun true true (cinit c0 progs) sched` ranges over every number of goroutines,
every program of `WithFields`/`SetLevel` calls on contexts sharing one holder and every schedule of
any length at the granularity of single `atomic.Pointer` operations.

The algorithm at the pinned commit (`F = false`: no `With` on the level wrapper; `A = false`:
load-then-store) violates both clauses; the witnesses are kept below.
-/
namespace Log

/-- the specification's initial state for global logger `g` -/
def specInit (g : Core) : Spec := { global := abs g }

theorem absSt_init (g : Core) : absSt (initSt g) = specInit g := rfl

/-! ## sequential clause -/

/-- C18, fields.  After any call sequence, an entry logged through any context carries exactly the
fields the specification accumulated on that context's logger. -/
theorem log_fields_spec (g : Core) (ops : List Op) (c : Nat) :
    (logOf (run true (initSt g) ops) c).written = (((specInit g).run ops).loggerOf c).fields := by
  have := abs_logOf (run true (initSt g) ops) c
  rw [absSt_run, absSt_init] at this
  exact congrArg LSpec.fields this

/-- C18, levels.  After any call sequence, a context's logger is enabled at a level exactly when
that level is at or above the level the specification holds for that logger (most recently set, or
inherited at creation). -/
theorem log_level_spec (g : Core) (ops : List Op) (c : Nat) (lvl : Level) :
    (logOf (run true (initSt g) ops) c).enabled lvl =
      decide ((((specInit g).run ops).loggerOf c).level ≤ lvl) := by
  have := abs_logOf (run true (initSt g) ops) c
  rw [absSt_run, absSt_init] at this
  rw [enabled_eq_level]
  exact congrArg (fun l => decide (l.level ≤ lvl)) this

/-- C18, the observation as a whole: what `Log(ctx).Log(lvl, …)` emits is what the specification
says, for every context and level after every call sequence. -/
theorem log_emit_spec (g : Core) (ops : List Op) (c : Nat) (lvl : Level) :
    emit (logOf (run true (initSt g) ops) c) lvl = ((specInit g).run ops).emits c lvl := by
  unfold emit Spec.emits
  rw [log_level_spec, log_fields_spec]
  simp

/-- every call of the sequence that modifies a logger is made through a context whose holder is `h` -/
def OnlyOn (F : Bool) : St → List Op → Nat → Prop
  | _, [], _ => True
  | s, op :: ops, h => (∀ t, op.target = some t → holderOf s.ctxs t = some h) ∧ OnlyOn F (step F s op) ops h

private theorem untouched_of_onlyOn (F : Bool) (s : St) (ops : List Op) (h d : Nat) (hd : d < s.ctxs.length)
    (hne : holderOf s.ctxs d ≠ some h) (ho : OnlyOn F s ops h) : Untouched F s ops d := by
  induction ops generalizing s with
  | nil => trivial
  | cons op ops ih =>
    refine ⟨?_, ih (step F s op) (by rw [length_ctxs_step]; omega) (by rw [holderOf_step F s op d hd]; exact hne) ho.2⟩
    rintro ⟨t, h', ht, h1, h2⟩
    have := ho.1 t ht
    rw [this] at h1
    cases h1
    exact hne h2

private theorem fresh_isolated (F : Bool) (s : St) (hs : WF s) (op : Op)
    (hop : (∃ c fs, op = .child c fs) ∨ (∃ c fs, op = .init c fs)) (ops : List Op) :
    holderOf (step F s op).ctxs s.ctxs.length = some s.holders.length ∧
    (OnlyOn F (step F s op) ops s.holders.length →
      ∀ d, d < s.ctxs.length → logOf (run F (step F s op) ops) d = logOf s d) ∧
    (Untouched F (step F s op) ops s.ctxs.length →
      logOf (run F (step F s op) ops) s.ctxs.length = logOf (step F s op) s.ctxs.length) := by
  have hctx : (step F s op).ctxs = s.ctxs ++ [some s.holders.length] := by
    rcases hop with ⟨c, fs, rfl⟩ | ⟨c, fs, rfl⟩ <;> rfl
  have hnt : ∀ d, ¬ touches s op d := by
    rintro d ⟨t, h', ht, _⟩
    rcases hop with ⟨c, fs, rfl⟩ | ⟨c, fs, rfl⟩ <;> simp [Op.target] at ht
  have hwf := wf_step F s op hs
  refine ⟨by rw [hctx]; exact holderOf_append_eq _ _, ?_, ?_⟩
  · intro ho d hd
    have hd1 : d < (step F s op).ctxs.length := by rw [length_ctxs_step]; omega
    have hne : holderOf (step F s op).ctxs d ≠ some s.holders.length := by
      rw [holderOf_step F s op d hd]
      intro e
      have := hs d _ e
      omega
    rw [logOf_run_of_untouched F _ hwf ops d hd1 (untouched_of_onlyOn F _ ops _ d hd1 hne ho)]
    exact logOf_step_of_not_touches F s hs op d hd (hnt d)
  · intro hu
    exact logOf_run_of_untouched F _ hwf ops _ (by rw [length_ctxs_step]; omega) hu

/-- C18, isolation of `ChildLogger`.  The context returned by `ChildLogger` gets a logger of its
own; (a) whatever calls are then made through contexts using that logger, every older context
(the parent included) still logs exactly what it logged before; (b) whatever calls are made that
do not go through a context using the child's logger, the child logs what it logged at creation. -/
theorem child_isolated (F : Bool) (s : St) (hs : WF s) (c : Nat) (fs : List Field) (ops : List Op) :
    holderOf (step F s (.child c fs)).ctxs s.ctxs.length = some s.holders.length ∧
    (OnlyOn F (step F s (.child c fs)) ops s.holders.length →
      ∀ d, d < s.ctxs.length → logOf (run F (step F s (.child c fs)) ops) d = logOf s d) ∧
    (Untouched F (step F s (.child c fs)) ops s.ctxs.length →
      logOf (run F (step F s (.child c fs)) ops) s.ctxs.length = logOf (step F s (.child c fs)) s.ctxs.length) :=
  fresh_isolated F s hs _ (Or.inl ⟨c, fs, rfl⟩) ops

/-- The same for `InitLogger`. -/
theorem init_isolated (F : Bool) (s : St) (hs : WF s) (c : Nat) (fs : List Field) (ops : List Op) :
    holderOf (step F s (.init c fs)).ctxs s.ctxs.length = some s.holders.length ∧
    (OnlyOn F (step F s (.init c fs)) ops s.holders.length →
      ∀ d, d < s.ctxs.length → logOf (run F (step F s (.init c fs)) ops) d = logOf s d) ∧
    (Untouched F (step F s (.init c fs)) ops s.ctxs.length →
      logOf (run F (step F s (.init c fs)) ops) s.ctxs.length = logOf (step F s (.init c fs)) s.ctxs.length) :=
  fresh_isolated F s hs _ (Or.inr ⟨c, fs, rfl⟩) ops

/-- Every state reached from an initial state is well formed (hypothesis `WF` of the isolation
theorems is met by every reachable state). -/
theorem reachable_wf (F : Bool) (g : Core) (ops : List Op) : WF (run F (initSt g) ops) :=
  wf_run F _ ops (wf_init g)

/-- C18, fields in closed form (the property's own wording).  From any reachable state `s` — in
particular the state right after the logger of context `d` was created — and for any further call
sequence: what `d` logs afterwards carries exactly the fields it carried in `s` plus the fields of
every `WithFields` made since through a context that shares `d`'s logger at that moment, in order;
nothing added through other loggers (its children, its parent, unrelated ones) appears. -/
theorem fields_accumulate (s : St) (hs : WF s) (ops : List Op) (d : Nat) (hd : d < s.ctxs.length) :
    (logOf (run true s ops) d).written = (logOf s d).written ++ addedSince true s ops d := by
  induction ops generalizing s with
  | nil => simp [run, addedSince]
  | cons op ops ih =>
    have := ih (step true s op) (wf_step true s op hs) (by rw [length_ctxs_step]; omega)
    simp only [run, List.foldl_cons, addedSince] at this ⊢
    rw [this, written_step s hs op d hd, List.append_assoc]

/-- C18, level in closed form: the level of what `d` logs is the level most recently set through a
context sharing `d`'s logger, or the level it had in `s` (inherited at creation) if none was set
since. -/
theorem level_most_recent (s : St) (hs : WF s) (ops : List Op) (d : Nat) (hd : d < s.ctxs.length) :
    (logOf (run true s ops) d).level = (lastLevelSince true s ops d).getD (logOf s d).level := by
  induction ops generalizing s with
  | nil => simp [run, lastLevelSince]
  | cons op ops ih =>
    have := ih (step true s op) (wf_step true s op hs) (by rw [length_ctxs_step]; omega)
    simp only [run, List.foldl_cons, lastLevelSince] at this ⊢
    rw [this, level_step s hs op d hd]
    cases lastLevelSince true (step true s op) ops d <;> simp

/-- what the child inherits: the parent's fields plus its own, and the parent's level -/
theorem child_inherits (s : St) (c : Nat) (fs : List Field) :
    abs (logOf (step true s (.child c fs)) s.ctxs.length) =
      ⟨(abs (logOf s c)).fields ++ fs, (abs (logOf s c)).level⟩ := by
  rw [logOf_eq]
  have : (step true s (.child c fs)).ctxs = s.ctxs ++ [some s.holders.length] := rfl
  rw [this, holderOf_append_eq]
  simp only [step, newCtx, List.getElem?_append_right (Nat.le_refl _), Nat.sub_self,
    List.getElem?_cons_zero, Option.getD_some]
  exact abs_loggerWith _ fs

/-- The algorithm at the pinned commit violates the level clause: `InitLogger; SetLevel(Debug);
WithFields` — the wrapper has no `With`, the promoted one returns the inner core, and the context
no longer logs at Debug although Debug was the level most recently set (and nothing set since). -/
theorem legacy_level_violates :
    let g := Core.base warnLevel []
    let ops := [Op.init 0 ["a:1"], .setLevel 1 debugLevel, .withFields 1 ["b:2"]]
    emit (logOf (run false (initSt g) ops) 1) debugLevel = none ∧
      ((specInit g).run ops).emits 1 debugLevel = some ["a:1", "b:2"] ∧
      emit (logOf (run true (initSt g) ops) 1) debugLevel = some ["a:1", "b:2"] := by
  decide

/-- The same defect through `ChildLogger`: the child of a context at Debug does not inherit Debug. -/
theorem legacy_child_level_violates :
    let g := Core.base warnLevel []
    let ops := [Op.init 0 [], .enableDebug 1, .child 1 ["c:3"]]
    emit (logOf (run false (initSt g) ops) 3) debugLevel = none ∧
      ((specInit g).run ops).emits 3 debugLevel = some ["c:3"] := by
  decide

/-- non-vacuity (sequential): a sequence that creates loggers, shares one between two contexts,
sets levels and adds fields; the specification distinguishes all of it. -/
example :
    let sp := (specInit (.base warnLevel ["g:0"])).run
      [.init 0 ["a:1"], .derive 1, .setLevel 2 debugLevel, .withFields 1 ["b:2"], .child 2 ["c:3"],
       .withFields 5 ["d:4"], .setLevel 5 errorLevel]
    sp.emits 0 infoLevel = none ∧ sp.emits 0 warnLevel = some ["g:0"] ∧
    sp.emits 1 debugLevel = some ["g:0", "a:1", "b:2"] ∧ sp.emits 2 debugLevel = some ["g:0", "a:1", "b:2"] ∧
    sp.emits 5 warnLevel = none ∧ sp.emits 5 errorLevel = some ["g:0", "a:1", "b:2", "c:3", "d:4"] := by
  decide

/-- non-vacuity of the closed forms: after `InitLogger` (context 1), fields added through a derived
context count, fields added to its child do not, and the last level set wins. -/
example :
    let s := run true (initSt (.base warnLevel ["g:0"])) [.init 0 ["a:1"]]
    let ops := [Op.derive 1, .withFields 2 ["b:2"], .child 1 ["c:3"], .withFields 5 ["d:4"], .setLevel 2 debugLevel,
      .setLevel 5 errorLevel, .enableDebug 0]
    addedSince true s ops 1 = ["b:2"] ∧ lastLevelSince true s ops 1 = some debugLevel ∧
      (logOf (run true s ops) 1).written = ["g:0", "a:1", "b:2"] := by
  decide

/-! ## concurrent clause -/

/-- C18, concurrent clause (linearisation).  For every initial logger, every number of goroutines,
every program and every schedule: the logger installed in the shared holder is the sequential
specification applied to the calls in the order `hist` in which their pointer update took effect;
and `hist` holds, for every goroutine, exactly its returned calls in program order (a call takes
effect between its start and its return, exactly once), all of them calls of existing goroutines.
No update is lost. -/
theorem concurrent_no_lost_update (c0 : Core) (progs : List (List Call)) (sched : List Nat) :
    let s := crun true true (cinit c0 progs) sched
    abs (cur s) = specFold (abs c0) (s.sh.hist.map (·.2)) ∧
    (∀ x ∈ s.sh.hist, x.1 < progs.length) ∧
    (∀ i t, s.threads[i]? = some t →
      projHist s.sh.hist i = t.done ∧ t.done ++ inflight t.pc ++ t.prog = (progs[i]?).getD []) := by
  intro s
  have hinv := reachable_inv c0 progs sched
  exact ⟨hinv.sh.cur, hinv.sh.tids, fun i t hi => ⟨(hinv.th i t hi).hist, (hinv.th i t hi).prog⟩⟩

/-- No field is lost, none is invented: the installed logger carries exactly the initial fields
followed by the fields of the `WithFields` calls that took effect, in that order. -/
theorem concurrent_fields_exact (c0 : Core) (progs : List (List Call)) (sched : List Nat) :
    (cur (crun true true (cinit c0 progs) sched)).written =
      c0.written ++ ((crun true true (cinit c0 progs) sched).sh.hist.map (·.2)).flatMap Call.fields := by
  have h := (concurrent_no_lost_update c0 progs sched).1
  have := congrArg LSpec.fields h
  rw [specFold_fields] at this
  exact this

/-- Every field of every returned `WithFields` call of every goroutine is on the installed logger. -/
theorem concurrent_no_field_lost (c0 : Core) (progs : List (List Call)) (sched : List Nat)
    (i : Nat) (t : Thread) (hi : (crun true true (cinit c0 progs) sched).threads[i]? = some t)
    (fs : List Field) (hfs : Call.wf fs ∈ t.done) (f : Field) (hf : f ∈ fs) :
    f ∈ (cur (crun true true (cinit c0 progs) sched)).written := by
  rw [concurrent_fields_exact]
  have h := ((concurrent_no_lost_update c0 progs sched).2.2 i t hi).1
  have hm := mem_projHist _ i (.wf fs) (by rw [h]; exact hfs)
  simp only [List.mem_append, List.mem_flatMap]
  exact Or.inr ⟨.wf fs, hm, hf⟩

/-- No level change is lost: the installed logger's level is the level of the last `SetLevel`
that took effect, or the initial level if none did. -/
theorem concurrent_no_level_lost (c0 : Core) (progs : List (List Call)) (sched : List Nat) :
    (cur (crun true true (cinit c0 progs) sched)).level =
      ((((crun true true (cinit c0 progs) sched).sh.hist.map (·.2)).filterMap Call.level?).getLast?).getD c0.level := by
  have h := (concurrent_no_lost_update c0 progs sched).1
  have := congrArg LSpec.level h
  rw [specFold_level] at this
  exact this

/-- At rest (every goroutine has returned from all its calls) the order of effect is an interleaving
of the complete programs: its restriction to goroutine `i` is program `i`. -/
theorem concurrent_quiescent_all_applied (c0 : Core) (progs : List (List Call)) (sched : List Nat)
    (hq : quiescent (crun true true (cinit c0 progs) sched) = true) (i : Nat) (p : List Call)
    (hp : progs[i]? = some p) :
    projHist (crun true true (cinit c0 progs) sched).sh.hist i = p := by
  have hinv := reachable_inv c0 progs sched
  have hlt : i < progs.length := (List.getElem?_eq_some_iff.1 hp).1
  have hlt' : i < (crun true true (cinit c0 progs) sched).threads.length := by rw [hinv.len]; exact hlt
  have hi : (crun true true (cinit c0 progs) sched).threads[i]? =
      some ((crun true true (cinit c0 progs) sched).threads[i]) := List.getElem?_eq_getElem hlt'
  have ht := hinv.th i _ hi
  have hidle : ((crun true true (cinit c0 progs) sched).threads[i]).pc = .idle := by
    have := List.all_eq_true.1 hq _ (List.getElem_mem hlt')
    simpa using this
  have hprog := ht.prog
  rw [hidle, hp] at hprog
  -- an idle thread has no calls left
  have hnil : ((crun true true (cinit c0 progs) sched).threads[i]).prog = [] := ht.idle hidle
  rw [hnil] at hprog
  rw [ht.hist]
  simpa [inflight] using hprog

/-- The algorithm at the pinned commit (load-then-store) loses a field: two goroutines, one
`WithFields` each, both loads before both stores.  Both calls have returned; `a:1` is gone. -/
theorem legacy_concurrent_lost_field_violates :
    let s := crun false true (cinit (.base warnLevel ["g:0"]) [[.wf ["a:1"]], [.wf ["b:1"]]]) [0, 1, 0, 1]
    quiescent s = true ∧ (∀ t ∈ s.threads, t.done.length = 1) ∧ "a:1" ∉ (cur s).written := by
  decide

/-- … and a level change: `SetLevel(Debug)` returns, then the other goroutine's stale store
reinstalls a logger derived from the one before it. -/
theorem legacy_concurrent_lost_level_violates :
    let s := crun false true (cinit (.base warnLevel ["g:0"]) [[.wf ["a:1"]], [.sl debugLevel]]) [0, 1, 1, 0]
    quiescent s = true ∧ (∀ t ∈ s.threads, t.done.length = 1) ∧ (cur s).level = warnLevel := by
  decide

/-- non-vacuity (concurrent): under the current algorithm the same two schedules force a failed
compare-and-swap and a retry, and end with both updates applied. -/
example :
    let s := crun true true (cinit (.base warnLevel ["g:0"]) [[.wf ["a:1"]], [.wf ["b:1"]]]) [0, 1, 0, 1, 1, 1]
    let u := crun true true (cinit (.base warnLevel ["g:0"]) [[.wf ["a:1"]], [.sl debugLevel]]) [0, 1, 1, 0, 0, 0]
    quiescent s = true ∧ (cur s).written = ["g:0", "a:1", "b:1"] ∧
    quiescent u = true ∧ (cur u).written = ["g:0", "a:1"] ∧ (cur u).level = debugLevel := by
  decide

end Log

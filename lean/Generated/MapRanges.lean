import Model.GenOrder
/-! REGENERATED on every run by harness/cmd/extract-mapranges (go/types) from the generator packages
github.com/drshriveer/gtools/gencommon, github.com/drshriveer/gtools/genum/gen, github.com/drshriveer/gtools/genum/cmd/genum, github.com/drshriveer/gtools/gerror/gen, github.com/drshriveer/gtools/gerror/cmd/gerror, github.com/drshriveer/gtools/gsort/gen, github.com/drshriveer/gtools/gsort/cmd/gsort.
Every `range` over a map-typed expression and every set.Set.Slice call, as ⟨file, function, expression⟩.
A site occurring twice in one function is listed twice. Do not edit. -/
namespace Generated.MapRanges
open GenOrder

def sites : List Site := [
  ⟨"gencommon/comments.go", "CommentsFromObj", "range cmap"⟩,
  ⟨"gencommon/imports.go", "*ImportHandler.GetActive", "range ih.imports"⟩,
  ⟨"gencommon/interface.go", "allpkgs.findPKgByName", "range pkg.Imports"⟩,
  ⟨"gencommon/interface.go", "allpkgs.namedTypeToInterface", "range embeddedIface.ambiguous"⟩,
  ⟨"gencommon/interface.go", "allpkgs.namedTypeToInterface", "range methodsToAdd"⟩,
  ⟨"genum/gen/generate.go", "processDuplicates", "range data"⟩,
  ⟨"gsort/gen/sorter_desc.go", "createSorterDesc", "range descs"⟩,
  ⟨"gsort/gen/sorter_desc.go", "createSorterDesc", "range descs"⟩
]

end Generated.MapRanges

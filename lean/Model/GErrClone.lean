/-!
# Model of `gerror/factory.go` (`CloneBase`), `gerror/gerror.go` (the 19 factory methods) and
# `gerror/stack.go` (`makeStack`, `NearestExternal`, `SourceInfo`, `Metric`)

Go strings are modelled as `List Char` (sequences of code points; the quantifier of C15/C09 says
"unicode", so strings holding invalid UTF-8 are outside the model and only observed as drift).

An error object is the record `E` of the fields the properties talk about: `Name`, `Message`,
`Source`, `detailTag` and `stack` (the list of frame *names*; "a stack is present" is
`len(stack) > 0` exactly as `Error()`/`ErrStack()` see it).  `factoryRef`, `srcError` and
`isFactory` are the subject of C06 and are not part of this record.

`cloneBase` follows `factory.go:91-164` statement by statement.  The one thing the runtime
contributes — the goroutine's call stack at the point where the factory method was called — is an
input (`Frames`, innermost frame = the caller of the factory method first).  `makeStack depth
defaultSkip` is then `frames.take depth`, because `defaultSkip = 4` skips exactly
`runtime.Callers`, `makeStack`, `CloneBase` and the factory method.

The per-method argument wiring is the table `wiring` (what each method's name and doc comment
promise); `lean/Generated/GerrorBase.lean` holds what `gerror.go` really passes, regenerated on
every run, and `Properties/C15.lean` proves the two equal by `decide`.
-/
namespace GErrClone

abbrev Str := List Char

/-! ## strings -/

/-- `unicode.IsSpace`: the Latin-1 spaces listed in its doc comment, else the White_Space table. -/
def isSpace (c : Char) : Bool :=
  let n := c.toNat
  n == 0x09 || n == 0x0a || n == 0x0b || n == 0x0c || n == 0x0d || n == 0x20 || n == 0x85 ||
  n == 0xA0 || n == 0x1680 || (0x2000 ≤ n && n ≤ 0x200a) || n == 0x2028 || n == 0x2029 ||
  n == 0x202f || n == 0x205f || n == 0x3000

/-- drop trailing white space -/
def trimRight : Str → Str
  | [] => []
  | c :: cs =>
    match trimRight cs with
    | [] => if isSpace c then [] else [c]
    | r => c :: r

/-- `strings.TrimSpace` -/
def trimSpace (s : Str) : Str := trimRight (s.dropWhile isSpace)

/-- `strings.Join(parts, sep)` -/
def joinWith (sep : Str) : List Str → Str
  | [] => []
  | [a] => a
  | a :: b :: rest => a ++ sep ++ joinWith sep (b :: rest)

/-- `strings.Split(s, sep)` for a one-character separator: always at least one part. -/
def splitOn (sep : Char) : Str → List Str
  | [] => [[]]
  | c :: cs =>
    if c = sep then [] :: splitOn sep cs
    else match splitOn sep cs with
      | [] => [[c]]
      | p :: ps => (c :: p) :: ps

/-- `strings.TrimSuffix` -/
def trimSuffix (s suf : Str) : Str :=
  if suf.isSuffixOf s then s.take (s.length - suf.length) else s

/-! ## stack.go -/

/-- `StackType` with its numeric value = number of frames requested. -/
inductive StackType where
  | noStack | sourceStack | shortStack | defaultStack
  deriving DecidableEq, Repr

def StackType.depth : StackType → Nat
  | .noStack => 0 | .sourceStack => 4 | .shortStack => 16 | .defaultStack => 32

/-- The goroutine's call stack where a factory method is called: the caller's frame name and the
frames above it.  (A running goroutine always has at least the calling frame.) -/
structure Frames where
  top : Str
  rest : List Str
  deriving DecidableEq, Repr

def Frames.toList (f : Frames) : List Str := f.top :: f.rest

/-- `makeStack(depth, defaultSkip)`: `runtime.Callers(4, pcs[:depth])` seen from inside
`makeStack ← CloneBase ← <factory method> ← caller`. -/
def makeStack (st : StackType) (fr : Frames) : List Str := fr.toList.take st.depth

/-- the name `runtime.Caller(1)` reports inside `getCurrentPackage` -/
def nearestExternalFuncName : Str :=
  "github.com/drshriveer/gtools/gerror.Stack.NearestExternal".toList

/-- `getCurrentPackage`: the caller's function name split on ".", last element dropped, re-joined.
(For the method `Stack.NearestExternal` this is `…/gerror.Stack`, not the package path — mirrored
as it is.) -/
def currentPackage : Str :=
  joinWith ['.'] (splitOn '.' nearestExternalFuncName).dropLast

/-- `Stack.NearestExternal`; `s[0]` on an empty stack panics in Go — never reached from
`CloneBase` (depth ≥ 4, frames non-empty); the model returns `""` there. -/
def nearestExternal (s : List Str) : Str :=
  match s.find? (fun e => !(currentPackage.isPrefixOf e)) with
  | some e => e
  | none => s.headD []

/-- `StackElem.SourceInfo` -/
def sourceInfo (name : Str) : Str × List Str :=
  let splitName := splitOn '/' name
  let last := splitName.getLastD []
  let last := trimSuffix last "[...]".toList
  let vals := splitOn '.' last
  let packageName := vals.headD []
  let vals := vals.drop 1
  -- `for i, val := range vals { if HasPrefix(val,"func") || val == "" { vals = vals[:i]; break } }`
  let vals := vals.takeWhile (fun v => !("func".toList.isPrefixOf v || v.isEmpty))
  (packageName, vals)

/-- the `outer:` loop of `Metric`: keep everything before the first repeated element -/
def dropRepeatsAux (seen : List Str) : List Str → List Str
  | [] => []
  | x :: xs => if x ∈ seen then [] else x :: dropRepeatsAux (seen ++ [x]) xs

def dropRepeats (l : List Str) : List Str := dropRepeatsAux [] l

/-- `StackElem.Metric` -/
def metric (name : Str) : Str :=
  let (pkg, theRest) := sourceInfo name
  pkg ++ [':'] ++ joinWith [':'] (dropRepeats theRest)

/-! ## factory.go -/

structure E where
  name : Str
  msg : Str
  src : Str
  dtag : Str
  stack : List Str
  deriving DecidableEq, Repr

/-- `// handle source:` -/
def withSource (clone : E) (source : Str) : E :=
  if source ≠ [] ∧ clone.src = [] then { clone with src := source } else clone

/-- `// handle detail tags:` -/
def withDTag (clone : E) (dTag : Str) : E :=
  if dTag ≠ [] then
    if clone.dtag = [] then { clone with dtag := dTag } else { clone with dtag := clone.dtag ++ ['-'] ++ dTag }
  else clone

/-- `// handle message extension:` -/
def withMsg (clone : E) (extMsg : Str) : E :=
  let extMsg := trimSpace extMsg
  if extMsg ≠ [] then
    if clone.msg = [] then { clone with msg := extMsg } else { clone with msg := clone.msg ++ [' '] ++ extMsg }
  else clone

/-- the stack / derived-source tail of `CloneBase` -/
def withStack (clone : E) (st : StackType) (fr : Frames) : E :=
  -- "If we already have a stack, don't want one, or want a source and already have it skip stacks."
  if clone.stack.length > 0 ∨ st = .noStack ∨ (st = .sourceStack ∧ clone.src ≠ []) then clone
  else
    let clone := { clone with stack := makeStack st fr }
    if clone.src = [] then
      let clone := { clone with src := metric (nearestExternal clone.stack) }
      if st = .sourceStack then { clone with stack := [] } else clone
    else clone

/-- `CloneBase(err, stackType, dTag, source, extMsg, srcError)` restricted to the fields of `E`:
copy, then the four blocks of the function body in their order. -/
def cloneBase (base : E) (st : StackType) (dTag source extMsg : Str) (fr : Frames) : E :=
  -- clone := &GError{Name: base.Name, Message: …, Source: …, detailTag: …, stack: base.stack}
  let clone : E := { name := base.name, msg := base.msg, src := base.src, dtag := base.dtag, stack := base.stack }
  withStack (withMsg (withDTag (withSource clone source) dTag) extMsg) st fr

/-! ## gerror.go: the factory methods -/

inductive Method where
  | base | sourceOnly | stack | src | dTag | msg | srcDTagMsg | srcDTag | srcMsg | dTagMsg
  | srcS | dTagS | msgS | srcDTagMsgS | srcDTagS | srcMsgS | dTagMsgS | convert | convertS
  deriving DecidableEq, Repr

def Method.all : List Method :=
  [.base, .sourceOnly, .stack, .src, .dTag, .msg, .srcDTagMsg, .srcDTag, .srcMsg, .dTagMsg,
   .srcS, .dTagS, .msgS, .srcDTagMsgS, .srcDTagS, .srcMsgS, .dTagMsgS, .convert, .convertS]

def Method.goName : Method → String
  | .base => "Base" | .sourceOnly => "SourceOnly" | .stack => "Stack" | .src => "Src"
  | .dTag => "DTag" | .msg => "Msg" | .srcDTagMsg => "SrcDTagMsg" | .srcDTag => "SrcDTag"
  | .srcMsg => "SrcMsg" | .dTagMsg => "DTagMsg" | .srcS => "SrcS" | .dTagS => "DTagS"
  | .msgS => "MsgS" | .srcDTagMsgS => "SrcDTagMsgS" | .srcDTagS => "SrcDTagS"
  | .srcMsgS => "SrcMsgS" | .dTagMsgS => "DTagMsgS" | .convert => "Convert" | .convertS => "ConvertS"

def Method.ofGoName (s : String) : Option Method := Method.all.find? (fun m => m.goName == s)

/-- parameter types as far as the wiring cares -/
inductive Ty where
  | string | variadicAny | error | other
  deriving DecidableEq, Repr

/-- a string-valued argument handed to `CloneBase`: the literal `""` or the method's i-th parameter -/
inductive Arg where
  | empty | param (i : Nat) | other
  deriving DecidableEq, Repr

/-- the `extMsg` argument: `""`, `fmt.Sprintf(p_f, p_e...)`, or `fmt.Sprintf("originalError: %+v", p_i)` -/
inductive MsgArg where
  | empty | sprintf (f e : Nat) | origErr (i : Nat) | other
  deriving DecidableEq, Repr

/-- the `srcError` argument: `nil` or the i-th parameter -/
inductive ErrArg where
  | nil | param (i : Nat) | other
  deriving DecidableEq, Repr

/-- One row of the wiring table: the method's signature and what it hands to `CloneBase`.
`shortCircuit` records the leading `if gerr, ok := err.(Error); ok { return gerr }`. -/
structure Row where
  sig : List Ty
  stack : StackType
  dtag : Arg
  src : Arg
  msg : MsgArg
  err : ErrArg
  shortCircuit : Bool
  deriving DecidableEq, Repr

/-- does the method's name promise a source / detail-tag / message parameter, a full stack? -/
def Method.takesSrc : Method → Bool
  | .src | .srcDTagMsg | .srcDTag | .srcMsg | .srcS | .srcDTagMsgS | .srcDTagS | .srcMsgS => true
  | _ => false
def Method.takesDTag : Method → Bool
  | .dTag | .srcDTagMsg | .srcDTag | .dTagMsg | .dTagS | .srcDTagMsgS | .srcDTagS | .dTagMsgS => true
  | _ => false
def Method.takesMsg : Method → Bool
  | .msg | .srcDTagMsg | .srcMsg | .dTagMsg | .msgS | .srcDTagMsgS | .srcMsgS | .dTagMsgS => true
  | _ => false
def Method.isConvert : Method → Bool
  | .convert | .convertS => true
  | _ => false
/-- "stack-taking": `Stack` and every `…S` variant -/
def Method.takesStack : Method → Bool
  | .stack | .srcS | .dTagS | .msgS | .srcDTagMsgS | .srcDTagS | .srcMsgS | .dTagMsgS | .convertS => true
  | _ => false

/-- What the method names promise, composed mechanically from the name parts: parameters appear in
the order Src, DTag, Msg(format, elems...); `Base` asks for no stack, stack-taking methods for the
default stack, everything else for a source-only stack; `Convert*` take the error, render it as
`originalError: %+v`, remember it, and return gerror values unchanged. -/
def wiring (m : Method) : Row :=
  if m.isConvert then
    { sig := [.error], stack := if m.takesStack then .defaultStack else .sourceStack,
      dtag := .empty, src := .empty, msg := .origErr 0, err := .param 0, shortCircuit := true }
  else
    let nS := if m.takesSrc then 1 else 0
    let nD := if m.takesDTag then 1 else 0
    { sig := (if m.takesSrc then [.string] else []) ++ (if m.takesDTag then [.string] else []) ++
             (if m.takesMsg then [.string, .variadicAny] else []),
      stack := if m = .base then .noStack else if m.takesStack then .defaultStack else .sourceStack,
      dtag := if m.takesDTag then .param nS else .empty,
      src := if m.takesSrc then .param 0 else .empty,
      msg := if m.takesMsg then .sprintf (nS + nD) (nS + nD + 1) else .empty,
      err := .nil, shortCircuit := false }

/-- where a store of the derivation code writes (regenerated into `Generated.GerrorBase.stores`) -/
inductive StoreClass where
  | fresh | local | shared
  deriving DecidableEq, Repr

/-- look a method up in a regenerated table (`lean/Generated/Gerror*.lean`, keyed by Go name) -/
def rowOf (rows : List (String × Row)) (m : Method) : Option Row :=
  (rows.find? (fun p => p.1.toList == m.goName.toList)).map (·.2)

/-- One call of a factory method.  `params` are the values of the string parameters by position
(the format string included, though only its rendering matters); `formatted` is
`fmt.Sprintf(format, elems...)` for the `…Msg…` methods and `fmt.Sprintf("%+v", err)` for
`Convert*` — `fmt` is not modelled, the harness applies it; `frames` is the call stack. -/
structure Call where
  m : Method
  params : List Str
  formatted : Str
  frames : Frames
  deriving DecidableEq, Repr

def evalArg (a : Arg) (c : Call) : Str :=
  match a with
  | .param i => c.params.getD i []
  | _ => []

def originalErrorPrefix : Str := "originalError: ".toList

def evalMsg (a : MsgArg) (c : Call) : Str :=
  match a with
  | .sprintf _ _ => c.formatted
  | .origErr _ => originalErrorPrefix ++ c.formatted
  | _ => []

/-- a method body that is `return CloneBase(e, row.stack, row.dtag, row.src, row.msg, row.err)` -/
def execRow (r : Row) (e : E) (c : Call) : E :=
  cloneBase e r.stack (evalArg r.dtag c) (evalArg r.src c) (evalMsg r.msg c) c.frames

/-- one factory-method call on `e` (for `Convert*`: with an argument that is not a gerror value) -/
def step (e : E) (c : Call) : E := execRow (wiring c.m) e c

/-- a chain `e.M1(…).M2(…)…` -/
def run (e : E) (cs : List Call) : E := cs.foldl step e

/-- `Convert(err)` / `ConvertS(err)` in full: a gerror argument is returned as it is. -/
inductive ConvArg where
  | gerr (e : E) | foreign

def convertFull (r : Row) (e : E) (c : Call) (a : ConvArg) : E :=
  match r.shortCircuit, a with
  | true, .gerr g => g
  | _, _ => execRow r e c

/-! ## utils.go: `ErrUnknown`, `ExtMsgf` -/

/-- `var ErrUnknown = FactoryOf(&GError{Name: "ErrUnknown", Message: "tried to operate on non gerror.Error"})` -/
def errUnknown : E :=
  { name := "ErrUnknown".toList, msg := "tried to operate on non gerror.Error".toList, src := [], dtag := [], stack := [] }

/-- the frame of `ExtMsgf` itself, as the runtime names it -/
def extMsgfFrame : Str := "github.com/drshriveer/gtools/gerror.ExtMsgf".toList

/-- the call stack seen by the factory method `ExtMsgf` calls: `ExtMsgf`'s frame on top of the
stack of whoever called `ExtMsgf` -/
def extMsgfFrames (fr : Frames) : Frames := ⟨extMsgfFrame, fr.toList⟩

/-- what `ExtMsgf` is handed: a value implementing `Factory` (every gerror error does), or anything
else (foreign errors, `nil`) -/
inductive ExtArg where
  | gerr (e : E) | foreign

/-- `ExtMsgf(err, format, args...)`: `gerr, ok := err.(Factory); if !ok { return ErrUnknown.Convert(err) };
return gerr.Msg(format, args...)`.  `formatted` is `fmt.Sprintf(format, args...)`, `errText` is
`fmt.Sprintf("%+v", err)`; `fr` is the stack of `ExtMsgf`'s caller. -/
def extMsgf (a : ExtArg) (format formatted errText : Str) (fr : Frames) : E :=
  match a with
  | .gerr e => step e { m := .msg, params := [format], formatted := formatted, frames := extMsgfFrames fr }
  | .foreign => step errUnknown { m := .convert, params := [], formatted := errText, frames := extMsgfFrames fr }

/-! ## what the methods promise, read off a call (used by the specs) -/

def Call.srcArg (c : Call) : Str := evalArg (wiring c.m).src c
def Call.dtagArg (c : Call) : Str := evalArg (wiring c.m).dtag c
def Call.msgArg (c : Call) : Str := evalMsg (wiring c.m).msg c
def Call.stackType (c : Call) : StackType := (wiring c.m).stack
/-- the source derived from the caller for this call -/
def Call.derivedSrc (c : Call) : Str := metric (nearestExternal (makeStack c.stackType c.frames))

/-! ## specification (mirrors the text of C15) -/

/-- join the non-empty parts -/
def joinNonEmpty (sep : Str) (parts : List Str) : Str := joinWith sep (parts.filter (· ≠ []))

/-- "the message is the base message followed by each non-blank extension, trimmed, joined by
single spaces" (an empty base message contributes nothing, so no leading space). -/
def specMessage (base : Str) (exts : List Str) : Str :=
  joinNonEmpty [' '] (base :: exts.map trimSpace)

/-- "detail tags are joined by `-`" -/
def specDTag (base : Str) (tags : List Str) : Str := joinNonEmpty ['-'] (base :: tags)

/-- "the first non-empty source wins and is never overwritten, a source is derived from the caller
whenever none was given (except by Base)": walk the chain until a call gives or derives one. -/
def specSource (base : Str) : List Call → Str
  | [] => base
  | c :: cs =>
    if base ≠ [] then base
    else if c.srcArg ≠ [] then c.srcArg
    else if c.m = .base then specSource base cs
    else metric c.frames.top

/-- "a stack is present exactly when a stack-taking method has been used somewhere in the chain" -/
def specHasStack (cs : List Call) : Bool := cs.any (fun c => c.m.takesStack)

def E.hasStack (e : E) : Bool := !e.stack.isEmpty

/-! ## generated extension types (`gerror/gen/generate.go`, `gerror.gotmpl`) -/

/-- One extra field of an extension struct, as `createField` sees it.  `zero` is how `%v` prints the
zero value of the field's type (the only thing the model needs to know about the type). -/
structure FieldDef where
  name : Str
  /-- tag name; `_` has already been replaced by the field name -/
  printAs : Str
  print : Bool
  clone : Bool
  zero : Str
  deriving DecidableEq, Repr

/-- the extra fields of the struct, in declaration order (untagged ones have `print = clone = false`) -/
abbrev ExtDef := List FieldDef

/-- A struct field as `go/types` presents it to `createErrorDesc`: its name (for an embedded field
the name of the embedded type), whether it is embedded, and its `gerror:"<name>,<options…>"` tag
if it has one. -/
structure RawField where
  name : Str
  embedded : Bool
  tagName : Option Str
  opts : List Str
  zero : Str
  deriving DecidableEq, Repr

/-- `createField`: no `gerror` tag → the field is neither printed nor cloned; tag name `_` → the
field's own name; `Clone`/`Print` = the option is listed.  Nothing here looks at `embedded`: an
anonymous extra field is treated like a named one, under the name of its type. -/
def createField (r : RawField) : FieldDef :=
  match r.tagName with
  | none => { name := r.name, printAs := r.name, print := false, clone := false, zero := r.zero }
  | some n =>
    { name := r.name, printAs := if n = ['_'] then r.name else n,
      print := "print".toList ∈ r.opts, clone := "clone".toList ∈ r.opts, zero := r.zero }

/-- the field loop of `createErrorDesc` over the extra fields (everything but the embedded `GError`,
which has no `gerror` tag and only sets `embedsGError`) -/
def parseFields (rs : List RawField) : ExtDef := rs.map createField

/-- Go's `<` on strings (bytewise = by code point for valid UTF-8) as `≤` -/
def strLe : Str → Str → Bool
  | [], _ => true
  | _ :: _, [] => false
  | a :: as, b :: bs => if a.toNat < b.toNat then true else if b.toNat < a.toNat then false else strLe as bs

def insertField (f : FieldDef) : List FieldDef → List FieldDef
  | [] => [f]
  | g :: gs => if strLe f.name g.name then f :: g :: gs else g :: insertField f gs

/-- `sort.Sort(Fields(r))`: by field name.  The names of one struct are distinct, so every sorting
algorithm yields the same list; the model uses insertion sort. -/
def sortFields (fs : List FieldDef) : List FieldDef := fs.foldr insertField []

/-- `ErrorDesc.FieldsToPrint` -/
def fieldsToPrint (d : ExtDef) : List FieldDef := sortFields (d.filter (·.print))
/-- `ErrorDesc.FieldsToClone` -/
def fieldsToClone (d : ExtDef) : List FieldDef := sortFields (d.filter (·.clone))

/-- an extension object: the embedded `GError` and the `%v` rendering of every extra field -/
structure X where
  base : E
  vals : List (Str × Str)
  deriving DecidableEq, Repr

def X.val (x : X) (n : Str) : Str := ((x.vals.find? (fun p => p.1 = n)).map (·.2)).getD []

/-- template `toPrimaryType`: `&T{GError: *gerr, <each field to clone>: e.<field>}` — every other
field keeps its zero value -/
def toPrimary (d : ExtDef) (x : X) (gerr : E) : X :=
  { base := gerr,
    vals := d.map (fun f => (f.name, if f ∈ fieldsToClone d then x.val f.name else f.zero)) }

/-- a template stanza: `clone := gerror.CloneBase(e, …row…); return e.toPrimaryType(clone)` -/
def extMethod (d : ExtDef) (r : Row) (x : X) (c : Call) : X := toPrimary d x (execRow r x.base c)

/-- `GError.Error()` without the trailing stack text: the part up to the message … -/
def errorHead (e : E) : Str :=
  (if e.name ≠ [] then "Name: ".toList ++ e.name ++ ", ".toList else []) ++
  (if e.dtag ≠ [] then "DTag: ".toList ++ e.dtag ++ ", ".toList else []) ++
  (if e.src ≠ [] then "Source: ".toList ++ e.src ++ ", ".toList else [])
/-- … and the message -/
def errorTail (e : E) : Str := "Message: ".toList ++ e.msg

def baseError (e : E) : Str := errorHead e ++ errorTail e

/-- the end of both `Error()` methods: `if len(stack) > 0 { result += "\n" + stack.String() }`;
`stack.String()` (file names, line numbers) is a parameter -/
def errorStackPart (e : E) (stackText : Str) : Str :=
  if e.stack.length > 0 then ['\n'] ++ stackText else []

/-- `(*GError).Error()` in full: name, detail tag, source — each only when non-empty, each followed
by `", "` — then the message (always), then the stack text when there is a stack -/
def errorFull (e : E) (stackText : Str) : Str := errorHead e ++ errorTail e ++ errorStackPart e stackText

/-- one `result += fmt.Sprintf("<PrintAs>: %v", e.<Name>) + separator` -/
def printField (x : X) (f : FieldDef) : Str := f.printAs ++ ": ".toList ++ x.val f.name ++ ", ".toList

/-- the generated `Error()` (again without the stack text): name, tag, source, the fields to print,
message — in the order of the template -/
def extError (d : ExtDef) (x : X) : Str :=
  errorHead x.base ++ (fieldsToPrint d).flatMap (printField x) ++ errorTail x.base

/-- `Error()` of `fmt.Errorf("ctx: %w", inner)` and of `errors.Join(errors.New("x"), inner)` (also
what `%+v` prints for them), given `inner.Error()` -/
def wrapText (innerText : Str) : Str := "ctx: ".toList ++ innerText
def joinText (innerText : Str) : Str := "x\n".toList ++ innerText

/-- the generated `Error()` in full -/
def extErrorFull (d : ExtDef) (x : X) (stackText : Str) : Str :=
  extError d x ++ errorStackPart x.base stackText

/-! ## heap of error objects (immutability / write sets) -/

/-- addresses are indices; every derivation allocates a new object at the end -/
abbrev Heap := List E

/-- thread `tid` calls a factory method on the object at `addr` -/
structure Deriv where
  tid : Nat
  addr : Nat
  call : Call

/-- the `CloneBase` call of one derivation: reads `h[addr]`, writes one freshly allocated object -/
def derive (h : Heap) (d : Deriv) : Heap :=
  match h[d.addr]? with
  | some e => h ++ [step e d.call]
  | none => h

def runHeap (h : Heap) (ds : List Deriv) : Heap := ds.foldl derive h

/-! ## memory accesses of concurrent derivations

Which *locations* a derivation touches, at the granularity of whole objects (every field of an
object counts as that object): `CloneBase` reads its receiver and writes only the object it has
just allocated (`Generated.GerrorBase.stores`, regenerated from the source, lists every store and
where it goes).  Goroutines that only derive do not synchronise with each other, so two accesses
from different goroutines are never ordered by happens-before: a data race is exactly a pair of
accesses to one location from two goroutines of which at least one is a write. -/

inductive Access where
  | read (addr : Nat) | write (addr : Nat)
  deriving DecidableEq, Repr

def Access.addr : Access → Nat
  | .read a => a | .write a => a
def Access.isWrite : Access → Bool
  | .read _ => false | .write _ => true

structure Ev where
  tid : Nat
  acc : Access
  deriving DecidableEq, Repr

/-- one factory-method call by goroutine `tid` on the object at `a`; `p` is what the allocator
returned for `&GError{…}` -/
def callEvents (tid a p : Nat) : List Ev := [⟨tid, .read a⟩, ⟨tid, .write p⟩]

/-- the object the `i`-th call of a chain is made on: the factory, then the previous result -/
def chainBase (alloc : Nat → Nat → Nat) (tid f : Nat) : Nat → Nat
  | 0 => f
  | i + 1 => alloc tid i

/-- goroutine `tid` derives a chain of `k` calls starting at the shared factory at address `f`;
`alloc tid i` is the address of its `i`-th result -/
def threadEvents (alloc : Nat → Nat → Nat) (tid f : Nat) : Nat → List Ev
  | 0 => []
  | k + 1 => threadEvents alloc tid f k ++ callEvents tid (chainBase alloc tid f k) (alloc tid k)

/-- a goroutine of the program: its id, the factory it starts from, the length of its chain -/
structure Goroutine where
  tid : Nat
  factory : Nat
  len : Nat

/-- all accesses of a program (in no particular order: the race condition does not depend on it) -/
def allEvents (alloc : Nat → Nat → Nat) (gs : List Goroutine) : List Ev :=
  gs.flatMap (fun g => threadEvents alloc g.tid g.factory g.len)

end GErrClone

import Model.GErrorIs
import Driver.Util
/-! Line protocol for `Model/GErrorIs` (C06).  Stateful: a list of gerror values (factories and
derived errors, in creation order) and a list of foreign errors.

```
case gei …
gei foreign new|ptr|sliceptr|slice|map|structslice       -> ok      (fresh identity per line)
gei foreign str:<k>|struct:<k>                            -> ok      (value types: identity = k)
gei foreign wrap <f>                                      -> ok      (fmt.Errorf("%w") of foreign f)
gei foreign wrapv <i>                                     -> ok      (… of gerror value i; out of domain)
gei root base|bare|ext:<ty>|bareext:<ty>                  -> v<n> root
gei call <recv> <Method> -|nil|f<k>|v<j> <strseed>        -> v<n> new base|ext:<ty>  or  v<n> same <j>
gei isrow <i>        -> errors.Is(value i, T) for T = every value, every foreign, nil : chars t f p ?
gei isfrow <k>       -> errors.Is(foreign k, T), same targets
gei xref <i>         -> ExtractFactoryReference(value i): nil | emb <j> (the embedded base of value j) | other
gei specrow <i>      -> the property's answer (`specIs`, `specIsForeign`) for row i, `-` where it leaves the result open
```
`?` = out of fuel (never expected). -/
namespace Drv.GEI
open GErrorIs

structure St where
  w : World := {}
  cmds : List Cmd := []
  fvals : List Val := []
deriving Inhabited

def fuel : Nat := 64
/-- the harness has three generated extension types (harness/cmd/h-gerroris/xt) -/
def numExtTypes : Nat := 3

def resChar : Res → Char
  | .t => 't' | .f => 'f' | .panic => 'p' | .fuel => '?'

def parseMeth (s : String) : Option Meth :=
  Meth.all.find? (fun m => (reprStr m).replace "GErrorIs.Meth." "" == s)

def tyOfKind (k : String) : Option FTy :=
  match k with
  | "new" => some (.cmp 0) | "ptr" => some (.cmp 1) | "sliceptr" => some (.cmp 4)
  | "slice" => some (.noncmp 0) | "map" => some (.noncmp 1) | "structslice" => some (.noncmp 2)
  | _ => none

def idxTok (pfx : Char) (s : String) : Option Nat :=
  match s.toList with
  | c :: rest => if c == pfx then (String.ofList rest).toNat? else none
  | [] => none

def targets (st : St) : List Val := st.w.vals ++ st.fvals ++ [.nil]

def describe (st : St) (r : Val) : String :=
  let n := st.w.vals.length
  match st.w.vals.findIdx? (· == r) with
  | some j => s!"v{n} same {j}"
  | none =>
    match r with
    | .base _ => s!"v{n} new base"
    | .ext ty _ => s!"v{n} new ext:{ty}"
    | _ => s!"v{n} new other"

def handle (st : St) (ws : List String) : St × String :=
  match ws with
  | ["foreign", "wrap", f] =>
    match f.toNat? with
    | some f => if f < st.fvals.length then
        ({ st with fvals := st.fvals ++ [.foreign (.cmp 5) st.fvals.length (st.fvals[f]?.getD .nil)] }, "ok")
      else (st, "bad-op")
    | none => (st, "bad-op")
  | ["foreign", "wrapv", i] =>
    match i.toNat? with
    | some i => if i < st.w.vals.length then
        ({ st with fvals := st.fvals ++ [.foreign (.cmp 5) st.fvals.length (st.w.val i)] }, "ok")
      else (st, "bad-op")
    | none => (st, "bad-op")
  | ["foreign", kind] =>
    match tyOfKind kind with
    | some ty => ({ st with fvals := st.fvals ++ [.foreign ty st.fvals.length .nil] }, "ok")
    | none =>
      match kind.splitOn ":" with
      | ["str", k] => match k.toNat? with
        | some k => ({ st with fvals := st.fvals ++ [.foreign (.cmp 2) k .nil] }, "ok")
        | none => (st, "bad-op")
      | ["struct", k] => match k.toNat? with
        | some k => ({ st with fvals := st.fvals ++ [.foreign (.cmp 3) k .nil] }, "ok")
        | none => (st, "bad-op")
      | _ => (st, "bad-op")
  | ["root", kind] =>
    let cmd : Option Cmd := match kind.splitOn ":" with
      | ["base"] => some (.newBase true)
      | ["bare"] => some (.newBase false)
      | ["ext", t] => (t.toNat?.filter (· < numExtTypes)).map (fun t => .newExt t true)
      | ["bareext", t] => (t.toNat?.filter (· < numExtTypes)).map (fun t => .newExt t false)
      | _ => none
    match cmd with
    | some c =>
      let n := st.w.vals.length
      ({ st with w := exec st.w c, cmds := st.cmds ++ [c] }, s!"v{n} root")
    | none => (st, "bad-op")
  | ["call", recv, meth, arg, _seed] =>
    let a : Option Arg :=
      if arg == "-" || arg == "nil" then some .none
      else match idxTok 'f' arg with
        | some k => if k < st.fvals.length then some (.foreign (st.fvals[k]?.getD .nil)) else none
        | none => match idxTok 'v' arg with
          | some j => if j < st.w.vals.length then some (.value j) else none
          | none => none
    match recv.toNat?, parseMeth meth, a with
    | some i, some m, some a =>
      if i < st.w.vals.length then
        let c := Cmd.call i m a
        let r := call st.w.h (st.w.val i) m (st.w.argVal a)
        let d := describe st r.2
        ({ st with w := exec st.w c, cmds := st.cmds ++ [c] }, d)
      else (st, "bad-op")
    | _, _, _ => (st, "bad-op")
  | ["isrow", i] =>
    match i.toNat? with
    | some i => if i < st.w.vals.length then
        (st, String.ofList ((targets st).map (fun t => resChar (errorsIs st.w.h fuel (st.w.val i) t))))
      else (st, "bad-op")
    | none => (st, "bad-op")
  | ["isrowlegacy", i] =>
    match i.toNat? with
    | some i => if i < st.w.vals.length then
        (st, String.ofList ((targets st).map (fun t => resChar (errorsIsLegacy st.w.h fuel (st.w.val i) t))))
      else (st, "bad-op")
    | none => (st, "bad-op")
  | ["isfrow", k] =>
    match k.toNat? with
    | some k => if k < st.fvals.length then
        (st, String.ofList ((targets st).map (fun t => resChar (errorsIs st.w.h fuel (st.fvals[k]?.getD .nil) t))))
      else (st, "bad-op")
    | none => (st, "bad-op")
  | ["xref", i] =>
    match i.toNat? with
    | some i => if i < st.w.vals.length then
        match extractFactoryRef st.w.h (st.w.val i) with
        | .nil => (st, "nil")
        | .base a =>
          match st.w.vals.findIdx? (fun v => embedded v == some a) with
          | some j => (st, s!"emb {j}")
          | none => (st, "other")
        | _ => (st, "other")
      else (st, "bad-op")
    | none => (st, "bad-op")
  | ["specrow", i] =>
    match i.toNat? with
    | some i => if i < st.w.vals.length then
        let n := st.w.vals.length
        -- `specIs` / `specIsForeign` with the two folds over the history hoisted out of the loops
        let os := specOrigins st.cmds
        let srcs := specSources st.cmds i
        let oi := os[i]?.getD 0
        let vs := (List.range n).map (fun j => if oi == os[j]?.getD 0 then 't' else 'f')
        let fs := st.fvals.map (fun e =>
          if isComparable e then (if srcs.any (fun s => sameForeign s e) then 't' else 'f') else '-')
        (st, String.ofList (vs ++ fs ++ ['f']))
      else (st, "bad-op")
    | none => (st, "bad-op")
  | _ => (st, "bad-op")

end Drv.GEI

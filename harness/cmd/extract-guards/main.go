// extract-guards: tie A for C13 (DESIGN.md section 3 and section 6, C13).
//
// Reads the three generator templates of /repo with text/template/parse and writes, for every
// emitted declaration (`func (recv) Name(`, `func Name(`, `type Name `), every import line and
// every package-qualified reference (`json.`, `yaml.`, ...), the list of enclosing template
// conditions (the guard).  Reads with go/ast the method names of the documented interfaces
// (genum.Enum / TypedEnum, gerror.Error / Factory, sort.Interface), the methods *gerror.GError
// hands to an embedding type, the boolean option fields of the three `Generate` structs and the
// option that gates trait inspection in genum's Parse.  Everything goes to
// lean/Generated/Guards.lean.  This program only extracts; the theorems of Properties/C13.lean
// decide.  A template or source file that left the shape read here makes it fail, which `check`
// reports as a broken tie.
package main

import (
	"flag"
	"fmt"
	"go/ast"
	"go/parser"
	"go/token"
	"os"
	"path/filepath"
	"reflect"
	"regexp"
	"runtime"
	"sort"
	"strconv"
	"strings"
	"text/template"
	"text/template/parse"
)

type atom struct {
	kind string // opt | data | range
	desc string
	pos  bool
}

func (a atom) lean() string {
	switch a.kind {
	case "opt":
		return fmt.Sprintf(".opt %s %v", strconv.Quote(a.desc), a.pos)
	case "range":
		return fmt.Sprintf(".range %s", leanStr(a.desc))
	}
	return fmt.Sprintf(".data %s", leanStr(a.desc))
}

func leanStr(s string) string {
	var b strings.Builder
	b.WriteByte('"')
	for _, r := range s {
		switch {
		case r == '"':
			b.WriteString("\\\"")
		case r == '\\':
			b.WriteString("\\\\")
		case r == '\n':
			b.WriteString("\\n")
		case r == '\t':
			b.WriteString("\\t")
		case r < 32:
			b.WriteString(" ")
		default:
			b.WriteRune(r)
		}
	}
	b.WriteByte('"')
	return b.String()
}

func guardLean(g []atom) string {
	parts := make([]string, len(g))
	for i, a := range g {
		parts[i] = a.lean()
	}
	return "[" + strings.Join(parts, ", ") + "]"
}

// seg is a piece of the linearised template: literal text, or a placeholder for an action.
type seg struct {
	text  string
	guard []atom
}

type walker struct {
	opts  map[string]bool // boolean option fields of the Generate struct
	tmpls map[string]*parse.Tree
	segs  []seg
	depth int // nesting of range/with (inside, `.X` is not the root)
	stack []string
	// vars: template variables introduced by a plain `{{$x := pipeline}}` action; the conditions and
	// ranged-over expressions are recorded with such a variable replaced by its definition, so that
	// naming a sub-expression does not change the extracted table
	vars map[string]string
}

var reVar = regexp.MustCompile(`\$[A-Za-z_][A-Za-z0-9_]*`)

func (w *walker) subst(s string) string {
	if len(w.vars) == 0 {
		return s
	}
	for k := 0; k < 4; k++ {
		t := reVar.ReplaceAllStringFunc(s, func(v string) string {
			if d, ok := w.vars[v]; ok {
				return d
			}
			return v
		})
		if t == s {
			break
		}
		s = t
	}
	return s
}

func (w *walker) emit(text string, g []atom) {
	w.segs = append(w.segs, seg{text: text, guard: append([]atom{}, g...)})
}

// rootField returns F when the pipeline is exactly the root field `$.F` (or `.F` outside every
// range/with), else "".
func (w *walker) rootField(n parse.Node) string {
	switch x := n.(type) {
	case *parse.PipeNode:
		if len(x.Decl) == 0 && len(x.Cmds) == 1 {
			return w.rootField(x.Cmds[0])
		}
	case *parse.CommandNode:
		if len(x.Args) == 1 {
			return w.rootField(x.Args[0])
		}
	case *parse.FieldNode:
		if w.depth == 0 && len(x.Ident) == 1 {
			return x.Ident[0]
		}
	case *parse.VariableNode:
		if len(x.Ident) == 2 && x.Ident[0] == "$" {
			return x.Ident[1]
		}
	}
	return ""
}

// condAtom classifies an {{if}} condition.
func (w *walker) condAtom(p *parse.PipeNode, positive bool) atom {
	if f := w.rootField(p); f != "" && w.opts[f] {
		return atom{kind: "opt", desc: f, pos: positive}
	}
	// `not $.F`
	if len(p.Decl) == 0 && len(p.Cmds) == 1 && len(p.Cmds[0].Args) == 2 {
		if id, ok := p.Cmds[0].Args[0].(*parse.IdentifierNode); ok && id.Ident == "not" {
			if f := w.rootField(p.Cmds[0].Args[1]); f != "" && w.opts[f] {
				return atom{kind: "opt", desc: f, pos: !positive}
			}
		}
	}
	// a condition that mentions an option field in any other way is outside what is read here
	s := w.subst(p.String())
	for f := range w.opts {
		if regexp.MustCompile(`\.` + f + `\b`).MatchString(s) {
			fail("condition `" + s + "` uses option " + f + " in a form the extractor does not read")
		}
	}
	if positive {
		return atom{kind: "data", desc: s}
	}
	return atom{kind: "data", desc: "not (" + s + ")"}
}

func (w *walker) list(l *parse.ListNode, g []atom) {
	if l == nil {
		return
	}
	for _, n := range l.Nodes {
		w.node(n, g)
	}
}

func with(g []atom, a atom) []atom { return append(append([]atom{}, g...), a) }

func (w *walker) node(n parse.Node, g []atom) {
	switch x := n.(type) {
	case *parse.TextNode:
		w.emit(string(x.Text), g)
	case *parse.ActionNode:
		if len(x.Pipe.Decl) > 0 {
			// variable assignment renders nothing
			if len(x.Pipe.Decl) == 1 && !x.Pipe.IsAssign {
				if w.vars == nil {
					w.vars = map[string]string{}
				}
				d := w.subst(pipeExpr(x.Pipe))
				if !strings.HasPrefix(d, "(") && strings.ContainsAny(d, " |") {
					d = "(" + d + ")"
				}
				w.vars[x.Pipe.Decl[0].Ident[0]] = d
			}
			return
		}
		w.emit("«"+x.Pipe.String()+"»", g)
	case *parse.CommentNode:
	case *parse.IfNode:
		w.list(x.List, with(g, w.condAtom(x.Pipe, true)))
		w.list(x.ElseList, with(g, w.condAtom(x.Pipe, false)))
	case *parse.RangeNode:
		d := w.subst(pipeExpr(x.Pipe))
		w.depth++
		w.list(x.List, with(g, atom{kind: "range", desc: d}))
		w.depth--
		w.list(x.ElseList, with(g, atom{kind: "data", desc: "empty (" + d + ")"}))
	case *parse.WithNode:
		d := w.subst(pipeExpr(x.Pipe))
		w.depth++
		w.list(x.List, with(g, atom{kind: "data", desc: "with (" + d + ")"}))
		w.depth--
		w.list(x.ElseList, with(g, atom{kind: "data", desc: "not with (" + d + ")"}))
	case *parse.TemplateNode:
		for _, s := range w.stack {
			if s == x.Name {
				return // recursive instantiation: same declarations, nothing new
			}
		}
		t := w.tmpls[x.Name]
		if t == nil {
			fail("template " + x.Name + " not found")
		}
		w.stack = append(w.stack, x.Name)
		w.depth++
		w.list(t.Root, g)
		w.depth--
		w.stack = w.stack[:len(w.stack)-1]
	case *parse.ListNode:
		w.list(x, g)
	case *parse.BreakNode, *parse.ContinueNode:
		fail("break/continue in a template is not read by the extractor")
	default:
		fail(fmt.Sprintf("unexpected template node %T", n))
	}
}

// pipeExpr: the ranged-over expression without the variable declarations.
func pipeExpr(p *parse.PipeNode) string {
	cmds := make([]string, len(p.Cmds))
	for i, c := range p.Cmds {
		cmds[i] = c.String()
	}
	return strings.Join(cmds, " | ")
}

type entry struct {
	kind  string // method | func | typ | imp
	ptr   bool
	recv  string
	name  string
	guard []atom
}

type use struct {
	pkg   string
	guard []atom
}

var (
	reDecl        = regexp.MustCompile(`(?m)^func \(([^)]*)\) ([^\s(]+)\(|^func ([^\s(]+)\(|^type (\S+) `)
	reImport      = regexp.MustCompile(`^\s*(?:(\S+)\s+)?"([^"]+)"\s*$`)
	reVer         = regexp.MustCompile(`^v[0-9]+$`)
	rePlaceholder = regexp.MustCompile(`«[^»]*»`)
)

// pkgNameOfPath: the package name an import path conventionally provides (gopkg.in/yaml.v3 -> yaml).
func pkgNameOfPath(p string) string {
	parts := strings.Split(p, "/")
	last := parts[len(parts)-1]
	if reVer.MatchString(last) && len(parts) > 1 {
		last = parts[len(parts)-2]
	}
	if i := strings.Index(last, ".v"); i > 0 && reVer.MatchString(last[i+1:]) {
		last = last[:i]
	}
	return last
}

// ref is a reference, inside the template text, to a declaration the template itself writes: a
// call of a generated method on the receiver of the enclosing method (`e.UnmarshalText(`) or of a
// generated function (`Parse«$enumTypeName»(`).
type ref struct {
	kind  string // method | func
	name  string
	from  string // the declaration the reference sits in
	guard []atom
}

type table struct {
	entries []entry
	uses    []use
	refs    []ref
}

func readTemplate(file, name string, opts map[string]bool) table {
	src, err := os.ReadFile(file)
	if err != nil {
		fail(err.Error())
	}
	t, err := template.New(name).Parse(string(src))
	if err != nil {
		fail(file + ": " + err.Error())
	}
	w := &walker{opts: opts, tmpls: map[string]*parse.Tree{}}
	for _, tt := range t.Templates() {
		w.tmpls[tt.Name()] = tt.Tree
	}
	w.list(t.Tree.Root, nil)

	// concatenate; remember which segment every byte belongs to
	var b strings.Builder
	var owner []int
	for i, s := range w.segs {
		b.WriteString(s.text)
		for k := 0; k < len(s.text); k++ {
			owner = append(owner, i)
		}
	}
	text := b.String()
	guardAt := func(off int) []atom { return w.segs[owner[off]].guard }

	var tb table
	type declPos struct {
		off     int
		recvVar string
		name    string
	}
	var decls []declPos
	// declarations
	for _, m := range reDecl.FindAllStringSubmatchIndex(text, -1) {
		sub := func(k int) string {
			if m[2*k] < 0 {
				return ""
			}
			return text[m[2*k]:m[2*k+1]]
		}
		g := guardAt(m[0])
		switch {
		case sub(2) != "":
			recv := strings.TrimSpace(sub(1))
			rv := ""
			if f := strings.Fields(recv); len(f) == 2 {
				recv, rv = f[1], f[0]
			} else if len(f) != 1 {
				fail("receiver `" + sub(1) + "` not understood")
			}
			ptr := strings.HasPrefix(recv, "*")
			tb.entries = append(tb.entries, entry{kind: "method", ptr: ptr, recv: strings.TrimPrefix(recv, "*"), name: sub(2), guard: g})
			decls = append(decls, declPos{m[0], rv, sub(2)})
		case sub(3) != "":
			tb.entries = append(tb.entries, entry{kind: "func", name: sub(3), guard: g})
			decls = append(decls, declPos{m[0], "", sub(3)})
		case sub(4) != "":
			tb.entries = append(tb.entries, entry{kind: "typ", name: sub(4), guard: g})
		}
	}
	// import block: lines between `import (` and the closing `)`
	aliases := map[string]bool{}
	if i := strings.Index(text, "import ("); i >= 0 {
		j := strings.Index(text[i:], "\n)")
		if j < 0 {
			fail("import block of " + file + " is not closed")
		}
		off := i + len("import (")
		for _, line := range strings.SplitAfter(text[off:i+j+1], "\n") {
			body := strings.TrimRight(line, "\n")
			if strings.TrimSpace(body) != "" {
				m := reImport.FindStringSubmatch(body)
				if m == nil {
					// a rendered import (e.g. {{$import.ImportString}}): data-dependent
					lead := len(body) - len(strings.TrimLeft(body, " \t"))
					tb.entries = append(tb.entries, entry{kind: "imp", name: strings.TrimSpace(body), guard: guardAt(off + lead)})
				} else {
					lead := len(body) - len(strings.TrimLeft(body, " \t"))
					name := m[2]
					alias := m[1]
					if alias == "" {
						alias = pkgNameOfPath(name)
					}
					if !strings.Contains(alias, "«") {
						aliases[alias] = true
					}
					e := entry{kind: "imp", name: name, recv: alias, guard: guardAt(off + lead)}
					tb.entries = append(tb.entries, e)
				}
			}
			off += len(line)
		}
		if strings.Contains(text[i+j+2:], "\nimport ") {
			fail("second import declaration in " + file)
		}
	}
	// package-qualified references outside comments and string literals of the template text
	if len(aliases) > 0 {
		names := make([]string, 0, len(aliases))
		for a := range aliases {
			names = append(names, regexp.QuoteMeta(a))
		}
		sort.Strings(names)
		reUse := regexp.MustCompile(`(^|[^A-Za-z0-9_.$])(` + strings.Join(names, "|") + `)\.[A-Za-z_]`)
		seen := map[string]bool{}
		off := 0
		for _, line := range strings.SplitAfter(text, "\n") {
			code := line
			if k := strings.Index(code, "//"); k >= 0 {
				code = code[:k]
			}
			code = rePlaceholder.ReplaceAllStringFunc(code, func(m string) string { return strings.Repeat(" ", len(m)) })
			for _, m := range reUse.FindAllStringSubmatchIndex(code, -1) {
				// inside a string literal? (odd number of quotes before the match)
				if strings.Count(code[:m[4]], `"`)%2 == 1 {
					continue
				}
				u := use{pkg: code[m[4]:m[5]], guard: guardAt(off + m[4])}
				key := u.pkg + guardLean(u.guard)
				if !seen[key] {
					seen[key] = true
					tb.uses = append(tb.uses, u)
				}
			}
			off += len(line)
		}
	}
	// references to the template's own declarations (outside comments and string literals)
	{
		var mnames, fnames []string
		seenName := map[string]bool{}
		for _, e := range tb.entries {
			if seenName[e.kind+e.name] {
				continue
			}
			seenName[e.kind+e.name] = true
			switch {
			case e.kind == "method" && !strings.Contains(e.name, "«"):
				mnames = append(mnames, regexp.QuoteMeta(e.name))
			case e.kind == "func":
				fnames = append(fnames, regexp.QuoteMeta(e.name))
			}
		}
		enclosing := func(off int) declPos {
			d := declPos{off: -1}
			for _, x := range decls {
				if x.off <= off {
					d = x
				}
			}
			return d
		}
		seen := map[string]bool{}
		add := func(r ref) {
			key := r.kind + r.name + r.from + guardLean(r.guard)
			if !seen[key] {
				seen[key] = true
				tb.refs = append(tb.refs, r)
			}
		}
		var reM, reF *regexp.Regexp
		if len(mnames) > 0 {
			reM = regexp.MustCompile(`(^|[^A-Za-z0-9_.])([A-Za-z_][A-Za-z0-9_]*)\.(` + strings.Join(mnames, "|") + `)\(`)
		}
		if len(fnames) > 0 {
			reF = regexp.MustCompile(`(^|[^A-Za-z0-9_.])(` + strings.Join(fnames, "|") + `)\(`)
		}
		off := 0
		for _, line := range strings.SplitAfter(text, "\n") {
			code := line
			if k := strings.Index(code, "//"); k >= 0 {
				code = code[:k]
			}
			inString := func(pos int) bool {
				return strings.Count(code[:pos], `"`)%2 == 1 || strings.Count(code[:pos], "`")%2 == 1
			}
			if reM != nil {
				for _, m := range reM.FindAllStringSubmatchIndex(code, -1) {
					d := enclosing(off + m[4])
					if inString(m[4]) || d.recvVar == "" || code[m[4]:m[5]] != d.recvVar {
						continue
					}
					add(ref{kind: "method", name: code[m[6]:m[7]], from: d.name, guard: guardAt(off + m[4])})
				}
			}
			if reF != nil && !strings.HasPrefix(code, "func ") {
				for _, m := range reF.FindAllStringSubmatchIndex(code, -1) {
					if inString(m[4]) {
						continue
					}
					add(ref{kind: "func", name: code[m[4]:m[5]], from: enclosing(off + m[4]).name, guard: guardAt(off + m[4])})
				}
			}
			off += len(line)
		}
	}
	return tb
}

// ---- go/ast side ----

func parseFile(path string) *ast.File {
	f, err := parser.ParseFile(token.NewFileSet(), path, nil, parser.ParseComments)
	if err != nil {
		fail(err.Error())
	}
	return f
}

// ifaceMethods lists the method names of interface `name` declared in file f; embedded
// interfaces declared in the same file are expanded.
func ifaceMethods(f *ast.File, name string) []string {
	var it *ast.InterfaceType
	ast.Inspect(f, func(n ast.Node) bool {
		if ts, ok := n.(*ast.TypeSpec); ok && ts.Name.Name == name {
			if x, ok := ts.Type.(*ast.InterfaceType); ok {
				it = x
			}
		}
		return true
	})
	if it == nil {
		fail("interface " + name + " not found")
	}
	var res []string
	for _, m := range it.Methods.List {
		if len(m.Names) > 0 {
			for _, n := range m.Names {
				res = append(res, n.Name)
			}
			continue
		}
		switch e := m.Type.(type) {
		case *ast.Ident:
			res = append(res, ifaceMethods(f, e.Name)...)
		default:
			fail(fmt.Sprintf("interface %s embeds something the extractor does not read (%T)", name, m.Type))
		}
	}
	return res
}

// methodsOf lists the methods declared in the files on receiver type (*)recv.
func methodsOf(files []*ast.File, recv string) []string {
	var res []string
	for _, f := range files {
		for _, d := range f.Decls {
			fd, ok := d.(*ast.FuncDecl)
			if !ok || fd.Recv == nil || len(fd.Recv.List) != 1 {
				continue
			}
			t := fd.Recv.List[0].Type
			if s, ok := t.(*ast.StarExpr); ok {
				t = s.X
			}
			if id, ok := t.(*ast.Ident); ok && id.Name == recv {
				res = append(res, fd.Name.Name)
			}
		}
	}
	sort.Strings(res)
	return res
}

// boolOptions: the bool fields of struct Generate that are command-line options (not `flag:""`),
// as field name -> (flag alias, default).
type option struct {
	field, alias string
	def          bool
}

func boolOptions(f *ast.File) []option {
	var res []option
	ast.Inspect(f, func(n ast.Node) bool {
		ts, ok := n.(*ast.TypeSpec)
		if !ok || ts.Name.Name != "Generate" {
			return true
		}
		st, ok := ts.Type.(*ast.StructType)
		if !ok {
			fail("Generate is not a struct")
		}
		for _, fl := range st.Fields.List {
			id, ok := fl.Type.(*ast.Ident)
			if !ok || id.Name != "bool" || fl.Tag == nil {
				continue
			}
			raw, _ := strconv.Unquote(fl.Tag.Value)
			tag := reflect.StructTag(raw)
			if v, ok := tag.Lookup("flag"); ok && v == "" {
				continue
			}
			for _, n := range fl.Names {
				o := option{field: n.Name, alias: tag.Get("aliases"), def: tag.Get("default") == "true"}
				res = append(res, o)
			}
		}
		return false
	})
	if len(res) == 0 {
		// a generator without boolean options (gsort) is fine
	}
	return res
}

// traitGates: option fields F such that Parse has `if g.F || ... { continue }` before the call
// of extractTraitDescs (trait inspection is skipped when F is set).
func traitGates(f *ast.File, opts []option) []string {
	isOpt := map[string]bool{}
	for _, o := range opts {
		isOpt[o.field] = true
	}
	var res []string
	var callPos token.Pos
	ast.Inspect(f, func(n ast.Node) bool {
		if c, ok := n.(*ast.CallExpr); ok {
			if s, ok := c.Fun.(*ast.SelectorExpr); ok && s.Sel.Name == "extractTraitDescs" && callPos == 0 {
				callPos = c.Pos()
			}
		}
		return true
	})
	if callPos == 0 {
		fail("call of extractTraitDescs not found in genum/gen/generate.go")
	}
	ast.Inspect(f, func(n ast.Node) bool {
		is, ok := n.(*ast.IfStmt)
		if !ok || is.Pos() > callPos || len(is.Body.List) != 1 {
			return true
		}
		if br, ok := is.Body.List[0].(*ast.BranchStmt); !ok || br.Tok != token.CONTINUE {
			return true
		}
		// disjuncts of the condition
		var disj func(e ast.Expr)
		disj = func(e ast.Expr) {
			if b, ok := e.(*ast.BinaryExpr); ok && b.Op == token.LOR {
				disj(b.X)
				disj(b.Y)
				return
			}
			if s, ok := e.(*ast.SelectorExpr); ok && isOpt[s.Sel.Name] {
				res = append(res, s.Sel.Name)
			}
		}
		disj(is.Cond)
		return true
	})
	return res
}

func strList(xs []string) string {
	q := make([]string, len(xs))
	for i, x := range xs {
		q[i] = leanStr(x)
	}
	return "[" + strings.Join(q, ", ") + "]"
}

func writeTable(b *strings.Builder, name string, tb table) {
	fmt.Fprintf(b, "def %sEntries : List Entry := [\n", name)
	for i, e := range tb.entries {
		sep := ","
		if i == len(tb.entries)-1 {
			sep = ""
		}
		fmt.Fprintf(b, "  ⟨.%s, %v, %s, %s, %s⟩%s\n", e.kind, e.ptr, leanStr(e.recv), leanStr(e.name), guardLean(e.guard), sep)
	}
	b.WriteString("]\n")
	fmt.Fprintf(b, "def %sUses : List Use := [\n", name)
	for i, u := range tb.uses {
		sep := ","
		if i == len(tb.uses)-1 {
			sep = ""
		}
		fmt.Fprintf(b, "  ⟨%s, %s⟩%s\n", leanStr(u.pkg), guardLean(u.guard), sep)
	}
	b.WriteString("]\n")
	fmt.Fprintf(b, "def %sRefs : List Ref := [\n", name)
	for i, r := range tb.refs {
		sep := ","
		if i == len(tb.refs)-1 {
			sep = ""
		}
		fmt.Fprintf(b, "  ⟨.%s, %s, %s, %s⟩%s\n", r.kind, leanStr(r.name), leanStr(r.from), guardLean(r.guard), sep)
	}
	b.WriteString("]\n")
}

func writeOpts(b *strings.Builder, name string, opts []option) {
	fmt.Fprintf(b, "def %sOptions : List Option' := [", name)
	for i, o := range opts {
		if i > 0 {
			b.WriteString(", ")
		}
		fmt.Fprintf(b, "⟨%s, %s, %v⟩", leanStr(o.field), leanStr(o.alias), o.def)
	}
	b.WriteString("]\n")
}

func optSet(opts []option) map[string]bool {
	m := map[string]bool{}
	for _, o := range opts {
		m[o.field] = true
	}
	return m
}

func main() {
	repo := flag.String("repo", "", "root of the gtools checkout (default: where harness/go.work takes the genum module from)")
	out := flag.String("out", "../lean/Generated/Guards.lean", "output file (relative to the harness directory)")
	flag.Parse()
	if *repo == "" {
		*repo = repoFromWorkspace("go.work")
	}
	p := func(parts ...string) string { return filepath.Join(append([]string{*repo}, parts...)...) }

	genumGen := parseFile(p("genum", "gen", "generate.go"))
	gerrorGen := parseFile(p("gerror", "gen", "generate.go"))
	gsortGen := parseFile(p("gsort", "gen", "generate.go"))
	genumOpts, gerrorOpts, gsortOpts := boolOptions(genumGen), boolOptions(gerrorGen), boolOptions(gsortGen)

	genumT := readTemplate(p("genum", "gen", "enumTemplate.gotmpl"), "genum", optSet(genumOpts))
	gerrorT := readTemplate(p("gerror", "gen", "gerror.gotmpl"), "gerror", optSet(gerrorOpts))
	gsortT := readTemplate(p("gsort", "gen", "gsort.gotmpl"), "gsort", optSet(gsortOpts))

	defs := parseFile(p("genum", "definitions.go"))
	errF := parseFile(p("gerror", "error.go"))
	facF := parseFile(p("gerror", "factory.go"))
	gerrF := parseFile(p("gerror", "gerror.go"))
	sortF := parseFile(filepath.Join(runtime.GOROOT(), "src", "sort", "sort.go"))

	var b strings.Builder
	b.WriteString("import Model.GenGuards\n")
	fmt.Fprintf(&b, "/-! REGENERATED on every run by harness/cmd/extract-guards from the templates\n%s, %s, %s\n(text/template/parse) and from genum/definitions.go, gerror/error.go, gerror/factory.go, gerror/gerror.go,\nthe three gen/generate.go and GOROOT/src/sort/sort.go (go/ast). Do not edit.\nEntry = ⟨kind, pointer receiver, receiver (alias for imports), name (import path), guard⟩;\nRef = ⟨kind, referenced declaration, enclosing declaration, guard⟩. -/\n",
		"genum/gen/enumTemplate.gotmpl", "gerror/gen/gerror.gotmpl", "gsort/gen/gsort.gotmpl")
	b.WriteString("namespace Generated.Guards\nopen GenGuards\n\n")
	writeOpts(&b, "genum", genumOpts)
	writeOpts(&b, "gerror", gerrorOpts)
	writeOpts(&b, "gsort", gsortOpts)
	fmt.Fprintf(&b, "def genumTraitGates : List String := %s\n\n", strList(traitGates(genumGen, genumOpts)))
	writeTable(&b, "genum", genumT)
	writeTable(&b, "gerror", gerrorT)
	writeTable(&b, "gsort", gsortT)
	b.WriteString("\n")
	fmt.Fprintf(&b, "def ifaceEnum : List String := %s\n", strList(ifaceMethods(defs, "Enum")))
	fmt.Fprintf(&b, "def ifaceTypedEnum : List String := %s\n", strList(ifaceMethods(defs, "TypedEnum")))
	fmt.Fprintf(&b, "def ifaceError : List String := %s\n", strList(ifaceMethods(errF, "Error")))
	fmt.Fprintf(&b, "def ifaceFactory : List String := %s\n", strList(ifaceMethods(facF, "Factory")))
	fmt.Fprintf(&b, "def ifaceSort : List String := %s\n", strList(ifaceMethods(sortF, "Interface")))
	fmt.Fprintf(&b, "def gerrorBaseMethods : List String := %s\n", strList(methodsOf([]*ast.File{errF, facF, gerrF}, "GError")))
	b.WriteString("\nend Generated.Guards\n")

	body := b.String()
	old, _ := os.ReadFile(*out)
	if string(old) != body {
		if err := os.WriteFile(*out, []byte(body), 0o644); err != nil {
			fail(err.Error())
		}
	}
	fmt.Printf("guards: genum %d entries/%d uses/%d refs, gerror %d/%d/%d, gsort %d/%d/%d\n",
		len(genumT.entries), len(genumT.uses), len(genumT.refs), len(gerrorT.entries), len(gerrorT.uses), len(gerrorT.refs), len(gsortT.entries), len(gsortT.uses), len(gsortT.refs))
}

// repoFromWorkspace: the directory that the harness workspace uses for the genum module, minus
// "/genum" - so that the extractor reads the same tree the harness binaries are built against.
func repoFromWorkspace(goWork string) string {
	b, err := os.ReadFile(goWork)
	if err != nil {
		fail("cannot read " + goWork + " (run from the harness directory or pass -repo): " + err.Error())
	}
	for _, l := range strings.Split(string(b), "\n") {
		l = strings.TrimSpace(strings.TrimPrefix(strings.TrimSpace(l), "use "))
		if strings.HasSuffix(l, "/genum") {
			return strings.TrimSuffix(l, "/genum")
		}
	}
	fail("no genum module in " + goWork)
	return ""
}

func fail(msg string) {
	fmt.Fprintln(os.Stderr, "extract-guards:", msg)
	os.Exit(1)
}

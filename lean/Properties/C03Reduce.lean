import Generated.GoGConfigReduce
import Lemmas.GoLoop
import Lemmas.GoReduce
import Properties.C03Tie
import Properties.C03
/-!
# C03 (and C16, "only on selected branches"), tie A by translation: `reduceAny`, `reduce`,
# `parseTemplatedElements` and the pipeline of `Builder.FromBytes`

`Generated/GoGConfigReduce.lean` is rewritten from /repo's gconfig/builder.go and
gconfig/yaml_templates.go by `harness/cmd/go2lean -spec gconfigreduce` on every run.  This file proves,
for ALL inputs, that the translated functions compute exactly what the hand-written model computes:

* `go_reduce_eq` - one call of `reduce(in, dimensions, i)` = the verdict of the model's `classify1` on
  dimension `i` (through the translated `keySet` and the translated `set.Set.Remove`) and the model's
  `reduceAny` of the branch it follows;
* `go_reduceAny_eq` - `reduceAny(y, dimensions, 0)` = `GConfig.reduceAny dims y` for every document whose
  maps have distinct keys (true of every Go map), every list of dimensions none of which parses the
  empty string (`reduce` looks up `in[""]` when no key selects; enum value names are identifiers),
  every fuel ≥ `need y`; error ⇔ the model's `none`; no panic;
* `go_parseTemplated_eq` - `parseTemplatedElements` = the pointwise lift `tmplY` of the templates;
* `go_fromBytes_eq` - the translated body of `FromBytes` = `GConfig.fromBytes` then the templates;
* `go_fromBytes_spec`, `go_reduceAny_spec` - on well-formed documents that is the specification
  `resolve` written from the property text (via `reduce_eq_resolve` of Properties/C03.lean);
* `go_fromBytes_only_selected` - the templates only ever see the resolved document: what they would
  do on branches the dimensions do not select cannot change the outcome of loading (C16).

Any edit of those Go functions that changes what they compute - whatever input it would take to
show - changes the generated definitions and breaks one of these kernel-checked obligations; an
edit that leaves the translated fragment makes the translator fail.
-/
set_option linter.unusedSimpArgs false
set_option linter.unusedVariables false
namespace C03Reduce
open Generated.GoGConfigReduce GConfig GoLoop GoAny GoReduce

/-- the model's dimension as the `*dimension` the translated code works with -/
def dimOf (d : Dim) : Dimension where
  parseGeneric := fun k => match d.parse k with
    | some i => (i, none)
    | none => (0, some ())
  get := d.sel

/-- the model's answer as the `(any, error)` pair of `reduceAny` -/
def ofOptE : Option Y → Y × Err
  | some y => (y, none)
  | none => (Y.null, reduce_err1)

/-- what `reduce` returns for each verdict of the model's `classify1` -/
def redOut (dims : List Dim) (kvs : List (String × Y)) : Red → Y × Bool × Err
  | .notReducible => (Y.map kvs, false, none)
  | .follow k => ((ofOptE (GConfig.reduceAt dims kvs k)).1, true, (ofOptE (GConfig.reduceAt dims kvs k)).2)
  | .followDefault =>
    ((ofOptE (GConfig.reduceAt dims kvs GConfig.defaultKey)).1, true, (ofOptE (GConfig.reduceAt dims kvs GConfig.defaultKey)).2)
  | .broken => (Y.null, true, reduce_err1)

theorem reduceAt_lookup (dims : List Dim) (key : String) : ∀ (kvs : List (String × Y)),
    GConfig.reduceAt dims kvs key = (match lookupKey kvs key with
      | some v => GConfig.reduceAny dims v
      | none => none)
  | [] => by simp [GConfig.reduceAt, lookupKey]
  | (k, v) :: rest => by
    have ih := reduceAt_lookup dims key rest
    by_cases hk : (k == key) = true
    · simp [GConfig.reduceAt, lookupKey, List.find?_cons, hk]
    · simp only [GConfig.reduceAt, lookupKey, List.find?_cons, hk, ih]
      simp [lookupKey]

theorem lookupKey_mem (kvs : List (String × Y)) (key : String) (v : Y) (h : lookupKey kvs key = some v) :
    (key, v) ∈ kvs := by
  unfold lookupKey at h
  cases hf : kvs.find? (fun kv => kv.1 == key) with
  | none => simp [hf] at h
  | some kv =>
    simp [hf] at h
    have h1 := List.find?_some hf
    have h2 := List.mem_of_find?_eq_some hf
    obtain ⟨k', v'⟩ := kv
    simp at h1 h; subst h1; subst h; exact h2

theorem lookupKey_isSome (kvs : List (String × Y)) (key : String) :
    (lookupKey kvs key).isSome = decide (key ∈ kvs.map (·.1)) := by
  induction kvs with
  | nil => simp [lookupKey]
  | cons kv rest ih =>
    obtain ⟨k, v⟩ := kv
    by_cases hk : k = key
    · simp [lookupKey, List.find?_cons, hk]
    · have hk' : ¬ key = k := fun h => hk h.symm
      have hb : (k == key) = false := by simp [hk]
      simp only [lookupKey, List.find?_cons, hb] at ih ⊢
      simp [hk, hk', ih]

/-- the model's `found` fold of `classify1` -/
def foundStep (d : Dim) (acc : Option String) (k : String) : Option String :=
  if d.parse k == some d.sel then some k else acc

/-- one iteration of the classification loop of `reduce` on (keys, foundDimKey) -/
def redStep (d : Dim) (st : Go.GMap String × String) (k : String) : Go.GMap String × String :=
  if (d.parse k).isSome then
    ((SetM.remove st.1 [k]).1, if d.parse k == some d.sel then k else st.2)
  else st

theorem red_fold (d : Dim) (ks : List String) : ∀ (A : List String) (f : Option String), (A ++ ks).Nodup →
    ks.foldl (redStep d) (some (A ++ ks), f.getD "")
      = (some (A ++ ks.filter (fun k => (d.parse k).isNone)),
         (ks.foldl (foundStep d) f).getD "") := by
  induction ks with
  | nil => intro A f _; simp
  | cons k ks ih =>
    intro A f hnd
    have hk : k ∉ A := by
      intro hm
      simp only [List.nodup_append, List.mem_cons] at hnd
      exact hnd.2.2 k hm k (Or.inl rfl) rfl
    simp only [List.foldl_cons]
    cases hp : d.parse k with
    | none =>
      have e : A ++ k :: ks = (A ++ [k]) ++ ks := by simp
      have := ih (A ++ [k]) f (by simpa using hnd)
      simp only [redStep, hp, Option.isSome_none, Bool.false_eq_true, if_false]
      rw [e, this]
      simp [List.filter_cons, hp, foundStep]
    | some i =>
      have her : (A ++ k :: ks).erase k = A ++ ks := by
        rw [List.erase_append_right _ hk]; simp
      have hrm : (SetM.remove (some (A ++ k :: ks)) [k]).1 = some (A ++ ks) := by
        simp [SetM.remove, SetM.elems, SetM.removeStep, her]
      have hnd' : (A ++ ks).Nodup := by
        simp only [List.nodup_append, List.nodup_cons, List.mem_cons] at hnd ⊢
        exact ⟨hnd.1, hnd.2.1.2, fun a ha b hb => hnd.2.2 a ha b (Or.inr hb)⟩
      simp only [redStep, hp, Option.isSome_some, if_true, hrm]
      by_cases hs : (some i == some d.sel) = true
      · have := ih A (some k) hnd'
        simp only [Option.getD_some] at this
        simp only [hs, if_true, this, foundStep, hp]
        simp [List.filter_cons, hp]
      · have := ih A f hnd'
        simp only [hs, if_false, foundStep, hp]
        simp only [List.filter_cons, hp, Option.isNone_some, Bool.false_eq_true, if_false]
        exact this

theorem foldl_found_mem (d : Dim) (ks : List String) (f : Option String) (k : String)
    (h : ks.foldl (foundStep d) f = some k) :
    f = some k ∨ k ∈ ks := by
  induction ks generalizing f with
  | nil => simp at h; exact Or.inl h
  | cons a ks ih =>
    simp only [List.foldl_cons] at h
    rcases ih _ h with h1 | h1
    · by_cases hc : (d.parse a == some d.sel) = true
      · simp [foundStep, hc] at h1; subst h1; simp
      · simp only [foundStep, hc, if_false] at h1; exact Or.inl h1
    · exact Or.inr (by simp [h1])

theorem listGet_map (dims : List Dim) (i : Nat) (hi : i < dims.length) :
    Go.listGet (dims.map dimOf) i = pure (dimOf dims[i]) := by
  simp [Go.listGet, hi, List.getD_eq_getElem?_getD]

/-- `reduce` = the model's `classify1` verdict + `reduceAny` of the branch it follows -/
theorem go_reduce_eq (fuel : Nat) (dims : List Dim) (kvs : List (String × Y)) (i : Nat) (hi : i < dims.length)
    (hk : (kvs.map (·.1)).Nodup) (hE : dims[i].parse "" = none)
    (ih : ∀ k v, (k, v) ∈ kvs →
      Generated.GoGConfigReduce.reduceAny fuel v (dims.map dimOf) 0 = pure (ofOptE (GConfig.reduceAny dims v))) :
    Generated.GoGConfigReduce.reduce (fuel + 1) kvs (dims.map dimOf) i
      = pure (redOut dims kvs (classify1 dims[i] kvs)) := by
  rw [Generated.GoGConfigReduce.reduce]
  simp only []
  rw [listGet_map dims i hi, pure_bind, C03Tie.go_keySet_eq kvs hk, pure_bind]
  generalize hd : dims[i] = d at hE ⊢
  simp only []
  unfold classify1
  have hfs : (fun (acc : Option String) k => if d.parse k == some d.sel then some k else acc) = foundStep d := rfl
  simp only [hfs]
  -- facts about the key set
  have hks : (GConfig.keySet kvs).1 = (kvs.map (·.1)).filter (fun k => k != GConfig.defaultKey) := rfl
  have hdf : (GConfig.keySet kvs).2 = kvs.any (fun kv => kv.1 == GConfig.defaultKey) := rfl
  have hnd : ((GConfig.keySet kvs).1).Nodup := by rw [hks]; exact hk.filter _
  have hmem : ∀ k, k ∈ (GConfig.keySet kvs).1 ↔ (k ∈ kvs.map (·.1) ∧ k ≠ GConfig.defaultKey) := by
    intro k; rw [hks]; simp
  have hdef : (GConfig.keySet kvs).2 = true → ∃ v, lookupKey kvs GConfig.defaultKey = some v := by
    intro h
    have : (lookupKey kvs GConfig.defaultKey).isSome = true := by
      rw [lookupKey_isSome]; rw [hdf] at h
      simp only [List.any_eq_true] at h
      obtain ⟨kv, hm, he⟩ := h
      have : kv.1 = GConfig.defaultKey := by simpa using he
      simp only [decide_eq_true_eq, List.mem_map]
      exact ⟨kv, hm, this⟩
    cases hl : lookupKey kvs GConfig.defaultKey with
    | none => simp [hl] at this
    | some v => exact ⟨v, rfl⟩
  generalize (GConfig.keySet kvs).1 = ks at hnd hmem ⊢
  generalize (GConfig.keySet kvs).2 = hasD at hdef ⊢
  -- the classification loop
  rw [forIn_yield _ (redStep d) (fun st => st.1.isSome)
    (by
      intro b a hb
      unfold redStep
      split
      · simp only [SetM.remove]; split <;> simp_all
      · exact hb)
    (by
      intro k st hst
      obtain ⟨m, f⟩ := st
      cases m with
      | none => simp at hst
      | some l =>
        cases hp : d.parse k with
        | none => simp [dimOf, hp, redStep]
        | some j =>
          by_cases hs : d.sel = j
          · simp [dimOf, hp, redStep, C07Tie.go_remove_eq, hs]
          · have hs' : ¬ j = d.sel := fun h => hs h.symm
            simp [dimOf, hp, redStep, C07Tie.go_remove_eq, hs, hs']) _ _ (by simp)]
  have hfold := red_fold d ks [] none (by simpa using hnd)
  simp only [List.nil_append, Option.getD_none] at hfold
  simp only [Go.mapKeys, Go.mapElems, hfold, pure_bind, Go.mapLen]
  have e1 : ∀ (l : List String), l.isEmpty = (l.length == 0) := by intro l; cases l <;> simp
  simp only [e1]
  by_cases h0 : (ks.length == 0 && !hasD) = true
  · simp [h0, redOut]
  simp only [h0, if_false, Bool.false_eq_true]
  by_cases h1 : ((List.filter (fun k => (d.parse k).isNone) ks).length != 0) = true
  · have h1' : (!(List.filter (fun k => (d.parse k).isNone) ks).length == 0) = true := by simpa using h1
    simp only [h1, h1', if_true, redOut]
  have h1' : ¬ (!(List.filter (fun k => (d.parse k).isNone) ks).length == 0) = true := by simpa using h1
  simp only [h1, h1', if_false]
  have hall : ∀ k ∈ ks, (d.parse k).isSome = true := by
    intro k hm
    cases hp : d.parse k with
    | some j => rfl
    | none =>
      exfalso; apply h1
      have : k ∈ List.filter (fun k => (d.parse k).isNone) ks := by simp [hm, hp]
      cases hl : List.filter (fun k => (d.parse k).isNone) ks with
      | nil => rw [hl] at this; simp at this
      | cons a l => simp
  cases hf : List.foldl (foundStep d) none ks with
  | some k =>
    have hkm : k ∈ ks := by
      rcases foldl_found_mem d ks none k hf with h | h
      · simp at h
      · exact h
    have hkk : k ∈ kvs.map (·.1) := ((hmem k).1 hkm).1
    have hl : (lookupKey kvs k).isSome = true := by rw [lookupKey_isSome]; simpa using hkk
    cases hv : lookupKey kvs k with
    | none => simp [hv] at hl
    | some v =>
      have hr : GConfig.reduceAt dims kvs k = GConfig.reduceAny dims v := by rw [reduceAt_lookup, hv]
      simp only [Option.getD_some, amapGet, hv, if_true, ih k v (lookupKey_mem kvs k v hv), pure_bind, redOut]
      simp [hr]
  | none =>
    have hno : lookupKey kvs "" = none := by
      cases hv : lookupKey kvs "" with
      | none => rfl
      | some v =>
        exfalso
        have hm : "" ∈ kvs.map (·.1) := by
          have := lookupKey_isSome kvs ""; rw [hv] at this; simpa using this.symm
        have hm' : "" ∈ ks := (hmem "").2 ⟨hm, by decide⟩
        have := hall "" hm'
        rw [hE] at this; simp at this
    simp only [Option.getD_none, amapGet, hno, Bool.false_eq_true, if_false]
    cases hD : hasD with
    | false => simp [redOut]
    | true =>
      obtain ⟨v, hv⟩ := hdef hD
      have hr : GConfig.reduceAt dims kvs GConfig.defaultKey = GConfig.reduceAny dims v := by rw [reduceAt_lookup, hv]
      have hdk : Generated.GoGConfigReduce.defaultKey = GConfig.defaultKey := rfl
      simp only [if_true, hdk, hv, ih _ v (lookupKey_mem kvs _ v hv), pure_bind, redOut, hr]

/-! ## fuel and the standing assumption on documents -/

mutual
  /-- fuel that `reduceAny` needs on a document: two levels of calls per map (reduceAny → reduce →
  reduceAny of the branch), one per list -/
  def need : Y → Nat
    | .map kvs => needKVs kvs + 2
    | .list xs => needList xs + 1
    | _ => 1
  def needList : List Y → Nat
    | [] => 0
    | x :: xs => max (need x) (needList xs)
  def needKVs : List (String × Y) → Nat
    | [] => 0
    | (_, v) :: rest => max (need v) (needKVs rest)
end

mutual
  /-- the keys of every map of the document are pairwise distinct (true of every Go map) -/
  def NK : Y → Bool
    | .map kvs => keysDistinct (kvs.map (·.1)) && nkKVs kvs
    | .list xs => nkList xs
    | _ => true
  def nkList : List Y → Bool
    | [] => true
    | x :: xs => NK x && nkList xs
  def nkKVs : List (String × Y) → Bool
    | [] => true
    | (_, v) :: rest => NK v && nkKVs rest
end

theorem need_mem_kvs : ∀ (kvs : List (String × Y)) (k : String) (v : Y), (k, v) ∈ kvs → need v ≤ needKVs kvs
  | [], _, _, h => by simp at h
  | (k', v') :: rest, k, v, h => by
    simp only [List.mem_cons] at h
    simp only [needKVs]
    rcases h with h | h
    · have : v = v' := by injection h
      subst this; exact Nat.le_max_left _ _
    · exact Nat.le_trans (need_mem_kvs rest k v h) (Nat.le_max_right _ _)

theorem need_mem_list : ∀ (xs : List Y) (x : Y), x ∈ xs → need x ≤ needList xs
  | [], _, h => by simp at h
  | x' :: rest, x, h => by
    simp only [List.mem_cons] at h
    simp only [needList]
    rcases h with h | h
    · subst h; exact Nat.le_max_left _ _
    · exact Nat.le_trans (need_mem_list rest x h) (Nat.le_max_right _ _)

theorem nk_mem_kvs : ∀ (kvs : List (String × Y)) (k : String) (v : Y), nkKVs kvs = true → (k, v) ∈ kvs → NK v = true
  | [], _, _, _, h => by simp at h
  | (k', v') :: rest, k, v, hn, h => by
    simp only [nkKVs, Bool.and_eq_true] at hn
    simp only [List.mem_cons] at h
    rcases h with h | h
    · have : v = v' := by injection h
      subst this; exact hn.1
    · exact nk_mem_kvs rest k v hn.2 h

theorem nk_mem_list : ∀ (xs : List Y) (x : Y), nkList xs = true → x ∈ xs → NK x = true
  | [], _, _, h => by simp at h
  | x' :: rest, x, hn, h => by
    simp only [nkList, Bool.and_eq_true] at hn
    simp only [List.mem_cons] at h
    rcases h with h | h
    · subst h; exact hn.1
    · exact nk_mem_list rest x hn.2 h

theorem keysDistinct_nodup : ∀ (ks : List String), keysDistinct ks = true → ks.Nodup
  | [], _ => List.nodup_nil
  | k :: ks, h => by
    simp only [keysDistinct, Bool.and_eq_true, Bool.not_eq_true', List.contains_eq_mem, decide_eq_false_iff_not] at h
    exact List.nodup_cons.2 ⟨by simpa using h.1, keysDistinct_nodup ks h.2⟩

theorem reduceKVs_eq_map (dims : List Dim) : ∀ (kvs : List (String × Y)),
    GConfig.reduceKVs dims kvs = mapKVs (GConfig.reduceAny dims) kvs
  | [] => by simp [GConfig.reduceKVs, mapKVs]
  | (k, v) :: rest => by
    rw [GConfig.reduceKVs, mapKVs, reduceKVs_eq_map dims rest]
    cases GConfig.reduceAny dims v <;> cases mapKVs (GConfig.reduceAny dims) rest <;> rfl

theorem reduceList_eq_map (dims : List Dim) : ∀ (xs : List Y),
    GConfig.reduceList dims xs = mapList (GConfig.reduceAny dims) xs
  | [] => by simp [GConfig.reduceList, mapList]
  | x :: rest => by
    rw [GConfig.reduceList, mapList, reduceList_eq_map dims rest]
    cases GConfig.reduceAny dims x <;> cases mapList (GConfig.reduceAny dims) rest <;> rfl

/-- what the dimension loop of `reduceAny` leaves with at index `i` -/
def selAt (dims : List Dim) (kvs : List (String × Y)) (i : Nat) : Option (Y × Err) :=
  match dims[i]? with
  | none => none
  | some d =>
    match classify1 d kvs with
    | .notReducible => none
    | r => some ((redOut dims kvs r).1, (redOut dims kvs r).2.2)

/-- what it leaves with overall: the verdict of the model's `classify` -/
def selOf (dims : List Dim) (kvs : List (String × Y)) : Red → Option (Y × Err)
  | .notReducible => none
  | r => some ((redOut dims kvs r).1, (redOut dims kvs r).2.2)

theorem findSome_classify (dims : List Dim) (kvs : List (String × Y)) : ∀ (ds : List Dim) (k : Nat),
    dims.drop k = ds →
    (List.range' k ds.length).findSome? (selAt dims kvs) = selOf dims kvs (classify ds kvs)
  | [], k, _ => by simp [classify, selOf]
  | d :: ds, k, h => by
    have hk : k < dims.length := by
      apply Nat.lt_of_not_le; intro hle
      rw [List.drop_eq_nil_of_le hle] at h; cases h
    have hd : dims[k]? = some d := by
      have := List.drop_eq_getElem_cons hk
      rw [this] at h; injection h with h1 h2
      rw [List.getElem?_eq_getElem hk, h1]
    have hds : dims.drop (k + 1) = ds := by
      have := List.drop_eq_getElem_cons hk
      rw [this] at h; injection h
    have ih := findSome_classify dims kvs ds (k + 1) hds
    simp only [List.length_cons, List.range'_succ, List.findSome?_cons, classify]
    cases hc : classify1 d kvs <;> simp [selAt, hd, hc, ih, selOf]

theorem listSet_lt (v : List Y) (i : Nat) (x : Y) (h : i < v.length) : Go.listSet v i x = pure (v.set i x) := by
  simp [Go.listSet, h]

/-- **tie A**: the translated `reduceAny` (hence `reduce`, mutually) computes exactly the model's
`reduceAny`, on every document whose maps have distinct keys, for every list of dimensions none of
which parses the empty string, and every fuel above `need y`; it cannot panic, and it reports an
error exactly when the model's answer is `none`. -/
theorem go_reduceAny_eq (dims : List Dim) (hE : ∀ d ∈ dims, d.parse "" = none) : ∀ (fuel : Nat) (y : Y),
    need y ≤ fuel → NK y = true →
    Generated.GoGConfigReduce.reduceAny fuel y (dims.map dimOf) 0 = pure (ofOptE (GConfig.reduceAny dims y)) := by
  intro fuel
  induction fuel using Nat.strongRecOn with
  | _ fuel IH =>
    intro y hn hnk
    cases fuel with
    | zero => cases y <;> simp [need] at hn
    | succ f =>
      cases y with
      | null => simp [Generated.GoGConfigReduce.reduceAny, GConfig.reduceAny, ofOptE]
      | str s => simp [Generated.GoGConfigReduce.reduceAny, GConfig.reduceAny, ofOptE]
      | int n => simp [Generated.GoGConfigReduce.reduceAny, GConfig.reduceAny, ofOptE]
      | bool b => simp [Generated.GoGConfigReduce.reduceAny, GConfig.reduceAny, ofOptE]
      | list xs =>
        simp only [need] at hn
        simp only [NK] at hnk
        rw [Generated.GoGConfigReduce.reduceAny]
        simp only []
        obtain ⟨s, hs⟩ := forIn_listUpdate (fun v i => (v, i)) (GConfig.reduceAny dims) (Y.null, reduce_err1)
          (fun el v i => (v.set i Y.null, i))
          (fun el __s => do
            let p3 ← Generated.GoGConfigReduce.reduceAny f el (List.map dimOf dims) 0
            let v ← Go.listSet __s.snd.fst __s.snd.snd p3.fst
            if (p3.snd != none) = true then pure (ForInStep.done (some (Y.null, p3.snd), v, __s.snd.snd))
              else pure (ForInStep.yield (none, v, __s.snd.snd + 1))) xs
          (by
            intro el v i hm hi
            have := IH f (Nat.lt_succ_self f) el (by have := need_mem_list xs el hm; omega) (nk_mem_list xs el hnk hm)
            simp only [this, pure_bind]
            cases GConfig.reduceAny dims el with
            | some x => simp [ofOptE, listSet_lt _ _ _ hi]
            | none => simp [ofOptE, listSet_lt _ _ _ hi, reduce_err1]) []
        simp only [List.nil_append, List.length_nil] at hs
        rw [hs, GConfig.reduceAny, reduceList_eq_map]
        cases mapList (GConfig.reduceAny dims) xs <;> simp [ofOptE]
      | map kvs =>
        simp only [need] at hn
        simp only [NK, Bool.and_eq_true] at hnk
        have hnd : (kvs.map (·.1)).Nodup := keysDistinct_nodup _ hnk.1
        cases f with
        | zero => omega
        | succ f' =>
          have ihc : ∀ (m : Nat), f' ≤ m → m < f' + 1 + 1 → ∀ k v, (k, v) ∈ kvs →
              Generated.GoGConfigReduce.reduceAny m v (dims.map dimOf) 0 = pure (ofOptE (GConfig.reduceAny dims v)) := by
            intro m hm1 hm2 k v hm
            exact IH m hm2 v (by have := need_mem_kvs kvs k v hm; omega) (nk_mem_kvs kvs k v hnk.2 hm)
          rw [Generated.GoGConfigReduce.reduceAny]
          simp only []
          rw [forIn_findSome _ (selAt dims kvs) _ (by
            intro i hi
            have hi' : i < dims.length := by
              have := (List.mem_range'_1.1 hi).2; simp at this; omega
            rw [go_reduce_eq f' dims kvs i hi' hnd (hE _ (List.getElem_mem hi')) (ihc f' (Nat.le_refl _) (by omega))]
            simp only [pure_bind, selAt, List.getElem?_eq_getElem hi']
            cases hc : classify1 dims[i] kvs <;> simp [redOut])]
          have hfs := findSome_classify dims kvs dims 0 (by simp)
          simp only [List.length_map, Nat.sub_zero, pure_bind, hfs]
          rw [GConfig.reduceAny]
          cases hc : classify dims kvs with
          | follow k => simp [selOf, redOut]
          | followDefault => simp [selOf, redOut]
          | broken => simp [selOf, redOut, ofOptE]
          | notReducible =>
            simp only [selOf]
            obtain ⟨s, hs⟩ := forIn_amapUpdate (fun v => v) (GConfig.reduceAny dims) (Y.null, reduce_err1)
              (fun kv v => amapSet v kv.1 Y.null)
              (fun x __s => do
                let p2 ← Generated.GoGConfigReduce.reduceAny (f' + 1) x.snd (List.map dimOf dims) 0
                if (p2.snd != none) = true then
                    pure (ForInStep.done (some (Y.null, p2.snd), amapSet __s.snd x.fst p2.fst))
                  else pure (ForInStep.yield (none, amapSet __s.snd x.fst p2.fst))) kvs
              (by
                intro kv v hm
                have := ihc (f' + 1) (by omega) (by omega) kv.1 kv.2 hm
                simp only [this, pure_bind]
                cases GConfig.reduceAny dims kv.2 with
                | some x => simp [ofOptE]
                | none => simp [ofOptE, reduce_err1]) [] (by simpa using hnd)
            simp only [List.nil_append] at hs
            rw [hs, reduceKVs_eq_map]
            cases mapKVs (GConfig.reduceAny dims) kvs <;> simp [ofOptE]

/-! ## `parseTemplatedElements` -/

/-- the string case of `parseTemplatedElements`: the first template that fails (`none`) or matches
decides; a string no template matches is kept -/
def tmplStr : List (String → String × Bool × Err) → String → Option String
  | [], s => some s
  | t :: ts, s => if (t s).2.2 != none then none else if (t s).2.1 then some (t s).1 else tmplStr ts s

mutual
  /-- hand-written model of `parseTemplatedElements` on the document type of C03: every string
  value, at any depth below maps and lists, goes through the templates; the first failure aborts -/
  def tmplY (ts : List (String → String × Bool × Err)) : Y → Option Y
    | .str s => (tmplStr ts s).map Y.str
    | .list xs => (tmplList ts xs).map Y.list
    | .map kvs => (tmplKVs ts kvs).map Y.map
    | y => some y
  def tmplList (ts : List (String → String × Bool × Err)) : List Y → Option (List Y)
    | [] => some []
    | x :: xs =>
      match tmplY ts x, tmplList ts xs with
      | some x', some xs' => some (x' :: xs')
      | _, _ => none
  def tmplKVs (ts : List (String → String × Bool × Err)) : List (String × Y) → Option (List (String × Y))
    | [] => some []
    | (k, v) :: rest =>
      match tmplY ts v, tmplKVs ts rest with
      | some v', some rest' => some ((k, v') :: rest')
      | _, _ => none
end

theorem tmplKVs_eq_map (ts : List (String → String × Bool × Err)) : ∀ (kvs : List (String × Y)),
    tmplKVs ts kvs = mapKVs (tmplY ts) kvs
  | [] => by simp [tmplKVs, mapKVs]
  | (k, v) :: rest => by
    rw [tmplKVs, mapKVs, tmplKVs_eq_map ts rest]
    cases tmplY ts v <;> cases mapKVs (tmplY ts) rest <;> rfl

theorem tmplList_eq_map (ts : List (String → String × Bool × Err)) : ∀ (xs : List Y),
    tmplList ts xs = mapList (tmplY ts) xs
  | [] => by simp [tmplList, mapList]
  | x :: rest => by
    rw [tmplList, mapList, tmplList_eq_map ts rest]
    cases tmplY ts x <;> cases mapList (tmplY ts) rest <;> rfl

theorem err_ne_none (e : Err) (h : (e != none) = true) : e = some () := by
  cases e with
  | none => simp at h
  | some u => rfl

/-- what the template loop leaves with on template `t` -/
def tmplSel (s : String) (t : String → String × Bool × Err) : Option (Y × Err) :=
  if (t s).2.2 != none then some (Y.null, (t s).2.2)
  else if (t s).2.1 then some (Y.str (t s).1, none) else none

theorem tmplStr_findSome (s : String) : ∀ (ts : List (String → String × Bool × Err)),
    (match ts.findSome? (tmplSel s) with
      | some r => r
      | none => (Y.str s, none)) = ofOptE ((tmplStr ts s).map Y.str)
  | [] => by simp [tmplStr, ofOptE]
  | t :: ts => by
    have ih := tmplStr_findSome s ts
    simp only [List.findSome?_cons, tmplStr, tmplSel]
    by_cases h1 : ((t s).2.2 != none) = true
    · simp [h1, ofOptE, err_ne_none _ h1, reduce_err1]
    · by_cases h2 : (t s).2.1 = true
      · simp [h1, h2, ofOptE]
      · simp only [h1, h2, if_false, Bool.false_eq_true]
        exact ih

/-- **tie A**: the translated `parseTemplatedElements` (at `T = any`) is the pointwise lift `tmplY`
of the templates over map values and list items, for every document with distinct keys, every list
of templates and every fuel above `need y` -/
theorem go_parseTemplated_eq (env : Env) : ∀ (fuel : Nat) (y : Y), need y ≤ fuel → NK y = true →
    parseTemplatedElements env fuel y = pure (ofOptE (tmplY env.templates y)) := by
  intro fuel
  induction fuel with
  | zero => intro y hn; cases y <;> simp [need] at hn
  | succ f IH =>
    intro y hn hnk
    cases y with
    | null => simp [parseTemplatedElements, tmplY, ofOptE]
    | int n => simp [parseTemplatedElements, tmplY, ofOptE]
    | bool b => simp [parseTemplatedElements, tmplY, ofOptE]
    | str s =>
      rw [parseTemplatedElements]
      simp only []
      rw [forIn_findSome _ (tmplSel s) _ (by
        intro t _
        unfold tmplSel
        by_cases h1 : ((t s).2.2 != none) = true
        · simp [h1]
        · by_cases h2 : (t s).2.1 = true
          · simp [h1, h2]
          · simp [h1, h2])]
      have := tmplStr_findSome s env.templates
      simp only [pure_bind, tmplY]
      rw [← this]
      cases List.findSome? (tmplSel s) env.templates <;> rfl
    | list xs =>
      simp only [need] at hn
      simp only [NK] at hnk
      rw [parseTemplatedElements]
      simp only []
      obtain ⟨s, hs⟩ := forIn_listUpdate (fun v i => ((none : Err), v, i)) (tmplY env.templates) (Y.null, reduce_err1)
        (fun el v i => (reduce_err1, v.set i Y.null, i))
        (fun el __s => do
          let p3 ← parseTemplatedElements env f el
          let v ← Go.listSet __s.snd.snd.fst __s.snd.snd.snd p3.fst
          if (p3.snd != none) = true then pure (ForInStep.done (some (Y.null, p3.snd), p3.snd, v, __s.snd.snd.snd))
            else pure (ForInStep.yield (none, p3.snd, v, __s.snd.snd.snd + 1))) xs
        (by
          intro el v i hm hi
          have := IH el (by have := need_mem_list xs el hm; omega) (nk_mem_list xs el hnk hm)
          simp only [this, pure_bind]
          cases tmplY env.templates el with
          | some x => simp [ofOptE, listSet_lt _ _ _ hi]
          | none => simp [ofOptE, listSet_lt _ _ _ hi, reduce_err1]) []
      simp only [List.nil_append, List.length_nil] at hs
      rw [hs, tmplY, tmplList_eq_map]
      cases mapList (tmplY env.templates) xs <;> simp [ofOptE]
    | map kvs =>
      simp only [need] at hn
      simp only [NK, Bool.and_eq_true] at hnk
      have hnd : (kvs.map (·.1)).Nodup := keysDistinct_nodup _ hnk.1
      rw [parseTemplatedElements]
      simp only []
      obtain ⟨s, hs⟩ := forIn_amapUpdate (fun v => ((none : Err), v)) (tmplY env.templates) (Y.null, reduce_err1)
        (fun kv v => (reduce_err1, amapSet v kv.1 Y.null))
        (fun x __s => do
          let p2 ← parseTemplatedElements env f x.snd
          if (p2.snd != none) = true then
              pure (ForInStep.done (some (Y.null, p2.snd), p2.snd, amapSet __s.snd.snd x.fst p2.fst))
            else pure (ForInStep.yield (none, p2.snd, amapSet __s.snd.snd x.fst p2.fst))) kvs
        (by
          intro kv v hm
          have := IH kv.2 (by have := need_mem_kvs kvs kv.1 kv.2 hm; omega) (nk_mem_kvs kvs kv.1 kv.2 hnk.2 hm)
          simp only [this, pure_bind]
          cases tmplY env.templates kv.2 with
          | some x => simp [ofOptE]
          | none => simp [ofOptE, reduce_err1]) [] (by simpa using hnd)
      simp only [List.nil_append] at hs
      rw [hs, tmplY, tmplKVs_eq_map]
      cases mapKVs (tmplY env.templates) kvs <;> simp [ofOptE]

/-! ## the pipeline of `Builder.FromBytes` after `yaml.Unmarshal` -/

mutual
  /-- reduction does not deepen a document and keeps the keys of its maps distinct -/
  theorem reduce_pres (dims : List Dim) : ∀ (y r : Y), GConfig.reduceAny dims y = some r → NK y = true →
      need r ≤ need y ∧ NK r = true
    | .map kvs, r, h, hnk => by
      simp only [NK, Bool.and_eq_true] at hnk
      rw [GConfig.reduceAny] at h
      cases hc : classify dims kvs with
      | notReducible =>
        simp only [hc] at h
        cases hr : GConfig.reduceKVs dims kvs with
        | none => simp [hr] at h
        | some kvs' =>
          simp [hr] at h; subst h
          have := reduceKVs_pres dims kvs kvs' hr hnk.2
          simp only [need, NK, this.2.2, hnk.1, this.2.1, Bool.and_self, and_true]
          omega
      | follow k =>
        simp only [hc] at h
        have := reduceAt_pres dims kvs k r h hnk.2
        simp only [need]; exact ⟨by omega, this.2⟩
      | followDefault =>
        simp only [hc] at h
        have := reduceAt_pres dims kvs _ r h hnk.2
        simp only [need]; exact ⟨by omega, this.2⟩
      | broken => simp [hc] at h
    | .list xs, r, h, hnk => by
      simp only [NK] at hnk
      rw [GConfig.reduceAny] at h
      cases hr : GConfig.reduceList dims xs with
      | none => simp [hr] at h
      | some xs' =>
        simp [hr] at h; subst h
        have := reduceList_pres dims xs xs' hr hnk
        simp only [need, NK, this.2, and_true]; omega
    | .null, r, h, _ => by simp [GConfig.reduceAny] at h; subst h; simp [NK]
    | .str _, r, h, _ => by simp [GConfig.reduceAny] at h; subst h; simp [NK]
    | .int _, r, h, _ => by simp [GConfig.reduceAny] at h; subst h; simp [NK]
    | .bool _, r, h, _ => by simp [GConfig.reduceAny] at h; subst h; simp [NK]
  theorem reduceList_pres (dims : List Dim) : ∀ (xs r : List Y), GConfig.reduceList dims xs = some r →
      nkList xs = true → needList r ≤ needList xs ∧ nkList r = true
    | [], r, h, _ => by simp [GConfig.reduceList] at h; subst h; simp [needList, nkList]
    | x :: xs, r, h, hnk => by
      simp only [nkList, Bool.and_eq_true] at hnk
      rw [GConfig.reduceList] at h
      cases hx : GConfig.reduceAny dims x with
      | none => simp [hx] at h
      | some x' =>
        cases hr : GConfig.reduceList dims xs with
        | none => simp [hx, hr] at h
        | some xs' =>
          simp [hx, hr] at h; subst h
          have h1 := reduce_pres dims x x' hx hnk.1
          have h2 := reduceList_pres dims xs xs' hr hnk.2
          simp only [needList, nkList, h1.2, h2.2, Bool.and_self, and_true]; omega
  theorem reduceKVs_pres (dims : List Dim) : ∀ (kvs r : List (String × Y)), GConfig.reduceKVs dims kvs = some r →
      nkKVs kvs = true → needKVs r ≤ needKVs kvs ∧ nkKVs r = true ∧ r.map (·.1) = kvs.map (·.1)
    | [], r, h, _ => by simp [GConfig.reduceKVs] at h; subst h; simp [needKVs, nkKVs]
    | (k, v) :: rest, r, h, hnk => by
      simp only [nkKVs, Bool.and_eq_true] at hnk
      rw [GConfig.reduceKVs] at h
      cases hx : GConfig.reduceAny dims v with
      | none => simp [hx] at h
      | some v' =>
        cases hr : GConfig.reduceKVs dims rest with
        | none => simp [hx, hr] at h
        | some rest' =>
          simp [hx, hr] at h; subst h
          have h1 := reduce_pres dims v v' hx hnk.1
          have h2 := reduceKVs_pres dims rest rest' hr hnk.2
          simp only [needKVs, nkKVs, h1.2, h2.2.1, Bool.and_self, List.map_cons, h2.2.2, and_true]; omega
  theorem reduceAt_pres (dims : List Dim) : ∀ (kvs : List (String × Y)) (key : String) (r : Y),
      GConfig.reduceAt dims kvs key = some r → nkKVs kvs = true → need r ≤ needKVs kvs ∧ NK r = true
    | [], _, r, h, _ => by simp [GConfig.reduceAt] at h
    | (k, v) :: rest, key, r, h, hnk => by
      simp only [nkKVs, Bool.and_eq_true] at hnk
      rw [GConfig.reduceAt] at h
      by_cases hk : (k == key) = true
      · simp only [hk, if_true] at h
        have := reduce_pres dims v r h hnk.1
        simp only [needKVs]; exact ⟨by omega, this.2⟩
      · simp only [hk, if_false] at h
        have := reduceAt_pres dims rest key r h hnk.2
        simp only [needKVs]; exact ⟨by omega, this.2⟩
end

/-- the model of the pipeline: reduce from dimension 0, the result must be a map, then the
templates; `none` = `FromBytes` returns an error -/
def pipeline (ts : List (String → String × Bool × Err)) (dims : List Dim) (data : List (String × Y)) :
    Option (List (String × Y)) :=
  match GConfig.fromBytes dims (Y.map data) with
  | none => none
  | some m => tmplKVs ts m

/-- the answer of the pipeline as the `(data of the *Config, error)` pair of the translated `FromBytes` -/
def ofOptC : Option (List (String × Y)) → Option (List (String × Y)) × Err
  | some m => (some m, none)
  | none => (none, some ())

/-- **tie A**: the translated body of `Builder.FromBytes` (from the call of `reduceAny` to the `data`
field of the returned `*Config`) is the model's `fromBytes` followed by the templates -/
theorem go_fromBytes_eq (env : Env) (dims : List Dim) (hE : ∀ d ∈ dims, d.parse "" = none) (fuel : Nat)
    (data : List (String × Y)) (hn : need (Y.map data) ≤ fuel) (hnk : NK (Y.map data) = true) :
    Generated.GoGConfigReduce.fromBytes env fuel (dims.map dimOf) data
      = pure (ofOptC (pipeline env.templates dims data)) := by
  unfold Generated.GoGConfigReduce.fromBytes pipeline GConfig.fromBytes
  simp only []
  rw [go_reduceAny_eq dims hE fuel (Y.map data) hn hnk, pure_bind]
  cases hr : GConfig.reduceAny dims (Y.map data) with
  | none => simp [ofOptE, reduce_err1, ofOptC]
  | some r =>
    have hp := reduce_pres dims (Y.map data) r hr hnk
    cases r with
    | map m =>
      simp only [ofOptE, asMap]
      rw [go_parseTemplated_eq env fuel (Y.map m) (by omega) hp.2]
      simp only [tmplY]
      cases tmplKVs env.templates m <;> simp [ofOptE, reduce_err1, ofOptC, asMap]
    | null => simp [ofOptE, asMap, fromBytes_err1, ofOptC]
    | str _ => simp [ofOptE, asMap, fromBytes_err1, ofOptC]
    | int _ => simp [ofOptE, asMap, fromBytes_err1, ofOptC]
    | bool _ => simp [ofOptE, asMap, fromBytes_err1, ofOptC]
    | list _ => simp [ofOptE, asMap, fromBytes_err1, ofOptC]

/-! ## the property, restated for the translated code -/

mutual
  theorem wf_nk (dims : List Dim) : ∀ (y : Y), WF dims y = true → NK y = true
    | .map kvs, h => by
      simp only [WF, wfKeys, Bool.and_eq_true] at h
      simp only [NK, Bool.and_eq_true]
      exact ⟨h.1.1, wf_nkKVs dims kvs h.2⟩
    | .list xs, h => by
      simp only [WF] at h
      simp only [NK]; exact wf_nkList dims xs h
    | .null, _ => rfl
    | .str _, _ => rfl
    | .int _, _ => rfl
    | .bool _, _ => rfl
  theorem wf_nkList (dims : List Dim) : ∀ (xs : List Y), wfList dims xs = true → nkList xs = true
    | [], _ => rfl
    | x :: xs, h => by
      simp only [wfList, Bool.and_eq_true] at h
      simp only [nkList, Bool.and_eq_true]; exact ⟨wf_nk dims x h.1, wf_nkList dims xs h.2⟩
  theorem wf_nkKVs (dims : List Dim) : ∀ (kvs : List (String × Y)), wfKVs dims kvs = true → nkKVs kvs = true
    | [], _ => rfl
    | (_, v) :: rest, h => by
      simp only [wfKVs, Bool.and_eq_true] at h
      simp only [nkKVs, Bool.and_eq_true]; exact ⟨wf_nk dims v h.1, wf_nkKVs dims rest h.2⟩
end

/-- C03 for the translated code: on every well-formed document the translated `FromBytes` pipeline
delivers the RESOLUTION of the property text (each dimension-keyed map replaced by the entry of the
selected value, else `default`, else an error) with the templates applied to it - and an error
exactly when the resolution fails, is not a map, or a template on it fails. -/
theorem go_fromBytes_spec (env : Env) (dims : List Dim) (hE : ∀ d ∈ dims, d.parse "" = none) (fuel : Nat)
    (data : List (String × Y)) (hn : need (Y.map data) ≤ fuel) (hwf : WF dims (Y.map data) = true) :
    Generated.GoGConfigReduce.fromBytes env fuel (dims.map dimOf) data
      = pure (ofOptC (match resolve dims (Y.map data) with
          | some (Y.map m) => tmplKVs env.templates m
          | _ => none)) := by
  rw [go_fromBytes_eq env dims hE fuel data hn (wf_nk dims _ hwf)]
  unfold pipeline GConfig.fromBytes
  rw [GConfig.reduce_eq_resolve dims _ hwf]
  cases hr : resolve dims (Y.map data) with
  | none => rfl
  | some r => cases r <;> rfl

/-- the translated `reduceAny` on a well-formed document = the specification `resolve` -/
theorem go_reduceAny_spec (dims : List Dim) (hE : ∀ d ∈ dims, d.parse "" = none) (fuel : Nat) (y : Y)
    (hn : need y ≤ fuel) (hwf : WF dims y = true) :
    Generated.GoGConfigReduce.reduceAny fuel y (dims.map dimOf) 0 = pure (ofOptE (resolve dims y)) := by
  rw [go_reduceAny_eq dims hE fuel y hn (wf_nk dims y hwf), GConfig.reduce_eq_resolve dims y hwf]

mutual
  /-- the string values of a document -/
  def strsOf : Y → List String
    | .str s => [s]
    | .list xs => strsList xs
    | .map kvs => strsKVs kvs
    | _ => []
  def strsList : List Y → List String
    | [] => []
    | x :: xs => strsOf x ++ strsList xs
  def strsKVs : List (String × Y) → List String
    | [] => []
    | (_, v) :: rest => strsOf v ++ strsKVs rest
end

mutual
  theorem tmplY_congr (ts ts' : List (String → String × Bool × Err)) : ∀ (y : Y),
      (∀ s ∈ strsOf y, tmplStr ts s = tmplStr ts' s) → tmplY ts y = tmplY ts' y
    | .str s, h => by simp only [tmplY, h s (by simp [strsOf])]
    | .list xs, h => by simp only [tmplY, tmplList_congr ts ts' xs (by simpa [strsOf] using h)]
    | .map kvs, h => by simp only [tmplY, tmplKVs_congr ts ts' kvs (by simpa [strsOf] using h)]
    | .null, _ => rfl
    | .int _, _ => rfl
    | .bool _, _ => rfl
  theorem tmplList_congr (ts ts' : List (String → String × Bool × Err)) : ∀ (xs : List Y),
      (∀ s ∈ strsList xs, tmplStr ts s = tmplStr ts' s) → tmplList ts xs = tmplList ts' xs
    | [], _ => rfl
    | x :: xs, h => by
      simp only [strsList, List.mem_append] at h
      simp only [tmplList, tmplY_congr ts ts' x (fun s hs => h s (Or.inl hs)),
        tmplList_congr ts ts' xs (fun s hs => h s (Or.inr hs))]
  theorem tmplKVs_congr (ts ts' : List (String → String × Bool × Err)) : ∀ (kvs : List (String × Y)),
      (∀ s ∈ strsKVs kvs, tmplStr ts s = tmplStr ts' s) → tmplKVs ts kvs = tmplKVs ts' kvs
    | [], _ => rfl
    | (k, v) :: rest, h => by
      simp only [strsKVs, List.mem_append] at h
      simp only [tmplKVs, tmplY_congr ts ts' v (fun s hs => h s (Or.inl hs)),
        tmplKVs_congr ts ts' rest (fun s hs => h s (Or.inr hs))]
end

/-- C16, "only on selected branches", for the translated code: two template environments that
treat the strings of the RESOLVED document alike (whatever they do to strings on branches the
dimensions do not select) make the translated `FromBytes` return the same thing - in particular a
template that fails on an unselected branch cannot fail loading. -/
theorem go_fromBytes_only_selected (env env' : Env) (dims : List Dim) (hE : ∀ d ∈ dims, d.parse "" = none)
    (fuel : Nat) (data : List (String × Y)) (hn : need (Y.map data) ≤ fuel) (hwf : WF dims (Y.map data) = true)
    (hsame : ∀ m, resolve dims (Y.map data) = some (Y.map m) →
      ∀ s ∈ strsKVs m, tmplStr env.templates s = tmplStr env'.templates s) :
    Generated.GoGConfigReduce.fromBytes env fuel (dims.map dimOf) data
      = Generated.GoGConfigReduce.fromBytes env' fuel (dims.map dimOf) data := by
  rw [go_fromBytes_spec env dims hE fuel data hn hwf, go_fromBytes_spec env' dims hE fuel data hn hwf]
  cases hr : resolve dims (Y.map data) with
  | none => rfl
  | some r =>
    cases r with
    | map m => simp only [tmplKVs_congr _ _ m (hsame m hr)]
    | _ => rfl

/-- regenerated fact: the package variable `templates` holds exactly the env-variable template
(C16 models that one; a second template would have to be modelled too) -/
theorem templates_is_envVar : templatesDecl = ["&envVarTmpl{}"] := rfl

/-- non-vacuity: a two-dimension document (a switch of the second dimension around a switch of the
first) is well-formed, no dimension parses the empty string, fuel 7 is enough, and the translated
pipeline run on it selects `D2b`, then `D1a` -/
def exDims : List Dim := [{ names := ["D1a", "D1b"], sel := 0 }, { names := ["D2a", "D2b"], sel := 1 }]
def exData : List (String × Y) :=
  [("svc", Y.map [("D2a", Y.str "a"), ("D2b", Y.map [("D1a", Y.str "x"), ("default", Y.str "y")])])]
example : WF exDims (Y.map exData) = true ∧ need (Y.map exData) ≤ 7 ∧ exDims.all (fun d => (d.parse "").isNone) = true := by
  decide +kernel
example : (match Generated.GoGConfigReduce.fromBytes ⟨[]⟩ 7 (exDims.map dimOf) exData with
    | .ok (some [("svc", Y.str s)], none) => s == "x"
    | _ => false) = true := by decide +kernel

end C03Reduce

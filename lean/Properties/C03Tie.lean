import Generated.GoGConfigBuilder
import Lemmas.GoLoop
import Properties.C07Tie
import Properties.C03
/-!
# C03, tie A by translation: `keySet` and `lookupEnv` of gconfig/builder.go

Two leaf functions the dimension resolution rests on, re-translated from /repo on every run
(`harness/cmd/go2lean -spec gconfigbuilder`):

* `keySet(in)` - the non-`default` keys of a map and whether `default` is present.  The Go code fills
  a `set.Set[string]` with `Add`; the translation calls the TRANSLATED `Set.Add`
  (`Generated/GoSet.lean`), whose equality with the set model is `C07Tie.go_add_eq` - the two
  translations compose.  `go_keySet_eq`: for every map (keys pairwise distinct, as in any Go map) and
  every walk order the result is the model's `keySet`.
* `lookupEnv(key)` - exact, upper-case, lower-case spelling, first hit wins (`go_lookupEnv_eq`;
  `os.LookupEnv` and the case mappings are parameters, instantiated with the model's).
-/
set_option linter.unusedSimpArgs false
namespace C03Tie
open Generated.GoGConfigBuilder GConfig GoLoop

def envOf (e : String → Option String) : Env where
  lookupEnv := fun k => match e k with | some v => (v, true) | none => ("", false)
  toUpper := GConfig.upper
  toLower := String.toLower

def ofOptS : Option String → String × Bool
  | some v => (v, true)
  | none => ("", false)

theorem go_lookupEnv_eq (e : String → Option String) (key : String) :
    Generated.GoGConfigBuilder.lookupEnv (envOf e) key = pure (ofOptS (GConfig.lookupEnv e key)) := by
  unfold Generated.GoGConfigBuilder.lookupEnv GConfig.lookupEnv envOf
  simp only []
  cases h1 : e key <;> simp [h1, ofOptS]
  cases h2 : e (upper key) <;> simp [h2]
  cases h3 : e key.toLower <;> simp [h3]

/-- one iteration of `keySet`'s loop on (hasDefault, result) -/
def keyStep (st : Bool × Go.GMap String) (k : String) : Bool × Go.GMap String :=
  if k == GConfig.defaultKey then (true, st.2) else (st.1, some (SetM.insert (SetM.elems st.2) k))

theorem key_fold (ks : List String) (l : List String) (b : Bool) (hnd : (l ++ ks).Nodup) :
    List.foldl keyStep (b, some l) ks
      = (b || ks.any (fun k => k == GConfig.defaultKey), some (l ++ ks.filter (fun k => k != GConfig.defaultKey))) := by
  induction ks generalizing l b with
  | nil => simp
  | cons k ks ih =>
    simp only [List.foldl_cons, keyStep]
    by_cases hd : (k == GConfig.defaultKey) = true
    · have hnd' : (l ++ ks).Nodup := by
        have := hnd; simp only [List.nodup_append, List.nodup_cons, List.mem_cons] at this ⊢
        exact ⟨this.1, this.2.1.2, fun a ha b hb => this.2.2 a ha b (Or.inr hb)⟩
      simp only [hd, if_true]
      rw [ih l true hnd']
      have hf : List.filter (fun k => k != GConfig.defaultKey) (k :: ks) = List.filter (fun k => k != GConfig.defaultKey) ks := by
        have hk' : k = GConfig.defaultKey := by simpa using hd
        rw [List.filter_cons]; simp [hk']
      simp [hd, hf]
    · have hk : k ∉ l := by
        intro hmem
        have := hnd; simp only [List.nodup_append, List.mem_cons] at this
        exact this.2.2 k hmem k (Or.inl rfl) rfl
      have hnd' : ((l ++ [k]) ++ ks).Nodup := by simpa [List.append_assoc] using hnd
      have hd' : (k == GConfig.defaultKey) = false := by simpa using hd
      simp only [hd', Bool.false_eq_true, if_false, SetM.elems, SetM.insert, hk]
      rw [ih (l ++ [k]) b hnd']
      have hf : List.filter (fun k => k != GConfig.defaultKey) (k :: ks) = k :: List.filter (fun k => k != GConfig.defaultKey) ks := by
        have hk' : ¬ k = GConfig.defaultKey := by simpa using hd
        rw [List.filter_cons]; simp [hk']
      simp [hd', hf, List.append_assoc]

theorem go_keySet_eq (kvs : List (String × Y)) (hk : (kvs.map (·.1)).Nodup) :
    Generated.GoGConfigBuilder.keySet kvs = pure (some (GConfig.keySet kvs).1, (GConfig.keySet kvs).2) := by
  unfold Generated.GoGConfigBuilder.keySet
  simp only []
  rw [forIn_yield _ keyStep (fun st => st.2.isSome) (by
      intro b a _; unfold keyStep; split <;> simp_all)
    (by
      intro a b hb
      obtain ⟨hd, r⟩ := b
      cases r with
      | none => simp at hb
      | some l =>
        unfold keyStep
        by_cases h : (a == GConfig.defaultKey) = true
        · have h' : (a == Generated.GoGConfigBuilder.defaultKey) = true := h
          simp [h, h']
        · have h' : ¬ (a == Generated.GoGConfigBuilder.defaultKey) = true := h
          simp [h, h', C07Tie.go_add_eq, SetM.add, SetM.addStep, SetM.elems]) _ _ (by simp [Go.mapMake])]
  simp only [pure_bind, Go.mapMake]
  have := key_fold (kvs.map Prod.fst) [] false (by simpa using hk)
  rw [this]
  simp only [GConfig.keySet, Bool.false_or, List.nil_append, List.any_map]
  rfl
end C03Tie

import Generated.GoSet
/-! REGENERATED on every run by harness/cmd/go2lean -spec setcodec from set/set.go (MarshalJSON, UnmarshalJSON,
MarshalYAML, UnmarshalYAML).  Do not edit.  One Lean statement per Go statement; `s.Slice()` and `s.Add(v...)` are the
TRANSLATED methods of Generated/GoSet.lean; an `error` is the Bool "is not nil"; a pointer-receiver method returns the
receiver's new value first.  json.Marshal, json.Unmarshal(data, &v) and (*yaml.Node).Decode(&v) are parameters. -/
namespace Generated.GoSetCodec
variable {α β ν : Type} [DecidableEq α] [Inhabited α]

/-- the external codecs: `jsonMarshal v` = (bytes, err), `jsonUnmarshal data v` / `yamlDecode node v` = (new contents
of v, err) -/
structure Env (α β ν : Type) where
  jsonMarshal : Go.Slice α → β × Bool
  jsonUnmarshal : β → Go.Slice α → Go.Slice α × Bool
  yamlDecode : ν → Go.Slice α → Go.Slice α × Bool

/-- `func (s Set[T]) MarshalJSON() ([]byte, error)` -/
def MarshalJSON (env : Env α β ν) (s : Go.GMap α) : Go.M (β × Bool) := do
  let mut v : Go.Slice α ← Generated.GoSet.Set.Slice s
  let p1 := env.jsonMarshal v
  return (p1.1, p1.2)

/-- `func (s *Set[T]) UnmarshalJSON(data []byte) error` -/
def UnmarshalJSON (env : Env α β ν) (s : Go.GMap α) (data : β) : Go.M (Go.GMap α × Bool) := do
  let mut s := s
  let mut v : Go.Slice α := Go.sliceNil
  let p1 := env.jsonUnmarshal data v
  v := p1.1
  let err : Bool := p1.2
  if err then
    return (s, err)
  let r2 ← Generated.GoSet.Set.Add s (Go.sliceElems v)
  s := r2.1
  return (s, false)

/-- `func (s Set[T]) MarshalYAML() (any, error)` -/
def MarshalYAML (s : Go.GMap α) : Go.M (Go.Slice α × Bool) := do
  let v1 ← Generated.GoSet.Set.Slice s
  return (v1, false)

/-- `func (s *Set[T]) UnmarshalYAML(value *yaml.Node) error` -/
def UnmarshalYAML (env : Env α β ν) (s : Go.GMap α) (value : ν) : Go.M (Go.GMap α × Bool) := do
  let mut s := s
  let mut temp : Go.Slice α := some []
  let p1 := env.yamlDecode value temp
  temp := p1.1
  let mut err : Bool := p1.2
  if err then
    return (s, err)
  let r2 ← Generated.GoSet.Set.Add s (Go.sliceElems temp)
  s := r2.1
  return (s, false)

end Generated.GoSetCodec

package main

import (
	"os"

	"verif/harness/internal/hx"
)

const rule = "domain stream from the quantifier: (1) strings of the documented grammar ${{ ws env: ws NAME ws [| ws DEFAULT ws] }} " +
	"(NAME in [A-Za-z0-9_]+, ws over space/tab/LF/CR/FF, DEFAULTs plain, quoted, empty-quoted, with inner blanks, |, }, {, $, non-ASCII) and " +
	"near-misses (leading/trailing text, single braces, missing/damaged env:, default without |, empty or bad name, | without default, " +
	"line feed in the default, doubled template); for each string the captures of the pattern extracted from the package source under Go's " +
	"regexp, and MatchAndResolve observed through FromBytes+Get[string] on a one-key document with the referenced variable unset / set / " +
	"set to the empty string; (2) every string of length <= L over {space | } { A \" - LF $} spliced into 6 positions of the template " +
	"skeleton (captures); (3) documents: root map, depth <= 4, strings/ints at map values and list items, switches of ONE dimension (1-3 " +
	"values +/- default, any key order) never below another switch, templates with never-set variables planted on unselected branches, " +
	"each referenced variable unset / set / set-empty; FromBytes outcome, the whole resolved tree and Get[any]/Get[string] at up to 6 " +
	"selected paths plus one missing path. Out-of-domain (drift only): strings/documents yaml.v3 does not round-trip, switch below a " +
	"switch, empty maps. non-trivial: string starts with ${{ / document has a switch, a string and a referenced variable; distinct by request lines"

func runC16(f *hx.Flags) {
	impl, pat, file := newImpl()
	r := hx.NewRunner(f, "h-tmpl", impl, rule)
	r.KeyOf = keyOf
	noRe := impl.re == nil
	// a capture request answered without a pattern is a broken tie, never a failing input
	r.KindOf = func(d *hx.Disagreement) string {
		if d.Impl == "no-pattern-literal" {
			return "tie-broken"
		}
		return ""
	}
	r.Res.Extra["pattern"] = pat
	r.Res.Extra["pattern_source"] = file
	if r.HandleReplay() {
		return
	}
	r.RunCorpus()
	g := &gen{r: r.Rng, noRe: noRe}
	if noRe {
		r.Add(hx.Case{Lines: []string{"case tmpl str", "tmpl re " + tokS("${{env:A}}")}, Domain: true, Nontrivial: true, Tags: []string{"string", "no-pattern-literal"}})
	}
	legacy := os.Getenv("VERIF_C16_LEGACY") == "1" // compare the pinned-commit model instead (manual validation of `…Legacy`)

	nStr, nDoc, maxLen := r.N(20000), r.N(4000), 3
	if f.Tier == "thorough" {
		nStr, nDoc, maxLen = r.N(600000), r.N(150000), 5
	}
	for i := 0; i < nStr; i++ {
		s, tag := g.anyString()
		r.Add(g.stringCase(s, tag, legacy))
	}
	if !legacy {
		for i := 0; i < nDoc; i++ {
			kind := "domain"
			switch k := g.r.Intn(40); {
			case k == 0:
				kind = "nested-switch"
			case k == 1:
				kind = "empty-map"
			case k < 6:
				kind = "root-switch" // the document's ROOT is keyed by the dimension
			}
			r.Add(g.docCase(kind))
		}
	}
	op := "tmpl re "
	if legacy {
		op = "tmpl relegacy "
	}
	n := 0
	if noRe {
		maxLen = 0 // the spliced strings only compare captures
	}
	allStrings(maxLen, func(x string) {
		if noRe {
			return
		}
		for _, s := range spliced(x) {
			r.Add(hx.Case{Lines: []string{"case tmpl splice", op + tokS(s)}, Domain: true, Nontrivial: true, Tags: []string{"splice"}})
			n++
		}
	})
	r.Res.Extra["splice_strings"] = n
	r.Res.Extra["splice_max_len"] = maxLen
	r.Res.Exhaustive = true
	r.Res.Notes["exhaustive"] = "exhaustive only for the spliced strings (all strings up to splice_max_len over the 9-symbol alphabet at 6 positions); the rest is random"
	r.Finish()
}

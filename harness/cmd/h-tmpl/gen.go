package main

import (
	"fmt"
	"math/rand"
	"regexp"
	"strings"

	"verif/harness/internal/hx"
)

// ---- strings from the documented grammar and near-misses --------------------------------------

type gen struct {
	r    *rand.Rand
	noRe bool // the package's pattern could not be read: no capture requests
}

var wsPool = []string{" ", " ", " ", " ", "\t", "\n", "\r", "\f"}

func (g *gen) ws() string {
	switch k := g.r.Intn(10); {
	case k < 5:
		return ""
	case k < 8:
		return wsPool[g.r.Intn(len(wsPool))]
	default:
		n := 2 + g.r.Intn(2)
		s := ""
		for i := 0; i < n; i++ {
			s += wsPool[g.r.Intn(len(wsPool))]
		}
		return s
	}
}

var namePool = []string{"V", "V1", "Q_x", "_9", "a", "Zz", "0", "9_9", "C16_LONG_NAME_1", "ab_CD_09"}

const wordChars = "ABCXYZabcxyz0189_"

func (g *gen) name() string {
	if g.r.Intn(10) < 7 {
		return namePool[g.r.Intn(len(namePool))]
	}
	n := 1 + g.r.Intn(6)
	b := make([]byte, n)
	for i := range b {
		b[i] = wordChars[g.r.Intn(len(wordChars))]
	}
	return "c16" + string(b)
}

var defInner = []string{"a", "b", "z", "0", "7", "-", "_", ":", "/", ".", " ", " ", "\t", "|", "}", "}}", "{", "${{", "$", "#", "\"", "'", "é", "日本", " ", "=", ",", "env:"}
var defEdge = []string{"a", "b", "z", "0", "7", "-", "_", ":", "/", ".", "|", "}", "{", "$", "\"", "'", "é", "日", " ", "=", "x"}

// dflt: non-empty, single line, no blank at either end.
func (g *gen) dflt() string {
	switch k := g.r.Intn(12); {
	case k < 3:
		words := []string{"some-default", "3s", "localhost:8080", "x", "0", "false", "a-b_c", "http://h/p?q=1"}
		return words[g.r.Intn(len(words))]
	case k == 3:
		return `""`
	case k < 6:
		in := ""
		for i, n := 0, g.r.Intn(4); i < n; i++ {
			in += defInner[g.r.Intn(len(defInner))]
		}
		return `"` + in + `"`
	case k == 6:
		return "${{env:" + g.name() + "}}"
	default:
		n := g.r.Intn(5)
		s := defEdge[g.r.Intn(len(defEdge))]
		if n > 0 {
			for i := 0; i < n-1; i++ {
				s += defInner[g.r.Intn(len(defInner))]
			}
			s += defEdge[g.r.Intn(len(defEdge))]
		}
		return s
	}
}

type parts struct {
	w1, w2, name, w3 string
	hasDef           bool
	w4, def, w5      string
}

func (p parts) String() string {
	s := "${{" + p.w1 + "env:" + p.w2 + p.name + p.w3
	if p.hasDef {
		s += "|" + p.w4 + p.def + p.w5
	}
	return s + "}}"
}

func (g *gen) parts() parts {
	p := parts{w1: g.ws(), w2: g.ws(), name: g.name(), w3: g.ws()}
	if g.r.Intn(2) == 0 {
		p.hasDef, p.w4, p.def, p.w5 = true, g.ws(), g.dflt(), g.ws()
	}
	return p
}

// template: a string of the documented grammar.
func (g *gen) template() (string, string) {
	p := g.parts()
	if p.hasDef {
		return p.String(), "tmpl-default"
	}
	return p.String(), "tmpl-plain"
}

var plainPool = []string{"", "4m3s2ms", "plain", "hello world", "$", "${{", "}}", "${{}}", "env:V", "{{env:V}}", "a|b", "${V}", "$V", "\"\"", " ", "x}}", "${{env", "true", "12", "é"}

// nearMiss: a string that is NOT of the documented forms, obtained by damaging a template.
func (g *gen) nearMiss() (string, string) {
	p := g.parts()
	s := p.String()
	junk := []string{"x", " ", "a ", " b", "-", "$", "}", "{", "\n", "é"}
	j := junk[g.r.Intn(len(junk))]
	switch g.r.Intn(22) {
	case 0:
		return j + s, "nm-leading-text"
	case 1:
		return s + j, "nm-trailing-text"
	case 2:
		return "${" + s[3:], "nm-single-open"
	case 3:
		return s[:len(s)-1], "nm-single-close"
	case 4:
		return s[1:], "nm-no-dollar"
	case 5:
		return "$ " + s[1:], "nm-split-open"
	case 6:
		return strings.Replace(s, "env:", "", 1), "nm-missing-env"
	case 7:
		return strings.Replace(s, "env:", "env", 1), "nm-missing-colon"
	case 8:
		return strings.Replace(s, "env:", "ENV:", 1), "nm-upper-env"
	case 9:
		return strings.Replace(s, "env:", "env :", 1), "nm-split-env"
	case 10, 11, 12:
		// default without the `|`
		d := g.dflt()
		if d[0] == '|' {
			d = "x" + d
		}
		sep := " "
		if g.r.Intn(3) == 0 {
			sep = ""
			if isWordByte(d[0]) {
				d = "-" + d
			}
		}
		return "${{" + p.w1 + "env:" + p.w2 + p.name + sep + d + g.ws() + "}}", "nm-no-pipe"
	case 13:
		return "${{" + p.w1 + "env:" + p.w2 + p.w3 + "}}", "nm-empty-name"
	case 14:
		return "${{" + p.w1 + "env:" + p.w2 + "|" + g.dflt() + "}}", "nm-empty-name-default"
	case 15:
		bad := []string{".", "-", "é", "$", "+"}
		b := bad[g.r.Intn(len(bad))]
		return "${{" + p.w1 + "env:" + p.w2 + p.name + b + p.name + p.w3 + "}}", "nm-bad-name-char"
	case 16:
		return "${{" + p.w1 + "env:" + p.w2 + p.name + p.w3 + "|" + g.ws() + "}}", "nm-pipe-no-default"
	case 17:
		return "${{" + p.w1 + "env:" + p.w2 + p.name + p.w3 + "|" + p.w4 + "a\nb" + "}}", "nm-newline-default"
	case 18:
		return s + "}", "nm-extra-close"
	case 19:
		return " " + s, "nm-outer-space"
	case 20:
		return s + "\n", "nm-outer-newline"
	default:
		return s + s, "nm-doubled"
	}
}

func isWordByte(b byte) bool {
	return b == '_' || (b >= '0' && b <= '9') || (b >= 'a' && b <= 'z') || (b >= 'A' && b <= 'Z')
}

func (g *gen) anyString() (string, string) {
	switch k := g.r.Intn(10); {
	case k < 5:
		return g.template()
	case k < 9:
		return g.nearMiss()
	default:
		return plainPool[g.r.Intn(len(plainPool))], "plain"
	}
}

var valuePool = []string{"v", "aws:secret", "x y", " padded ", "${{env:V}}", "\"q\"", "é日", "0", "a|b", "}}", "line1\nline2"}

func (g *gen) envValue() string { return valuePool[g.r.Intn(len(valuePool))] }

// scanName finds the variable a string would reference under the most liberal reading
// (`${{ env: NAME` prefix); such variables are always set/unset explicitly so that a case never
// depends on the ambient environment.
var scanName = regexp.MustCompile(`^\$\{\{\s*env:\s*(\w+)`)
var scanRest = regexp.MustCompile(`(?s)^\$\{\{\s*env:\s*\w+\s*(.*)\}\}$`)

func referenced(s string) []string {
	if m := scanName.FindStringSubmatch(s); m != nil {
		return []string{m[1]}
	}
	return nil
}

// classify names the input class of a string for the known-findings key.
func classify(s string) string {
	m := scanRest.FindStringSubmatch(s)
	if m == nil {
		return "other"
	}
	rest := m[1]
	switch {
	case rest == "":
		return "template"
	case rest[0] == '|':
		if strings.Trim(rest[1:], " \t\n\f\r") == "" {
			return "pipe-empty-default"
		}
		return "template-default"
	default:
		return "no-pipe-default"
	}
}

func classKey(strs []string, op string) string {
	best := ""
	for _, s := range strs {
		switch classify(s) {
		case "no-pipe-default":
			return "C16:match:no-pipe-default"
		case "pipe-empty-default":
			best = "C16:match:pipe-empty-default"
		}
	}
	if best != "" {
		return best
	}
	return "C16:" + op
}

func stringsOfLine(line string) []string {
	var out []string
	for _, w := range strings.Fields(line) {
		if s, ok := untok('S', w); ok && len(w) > 0 {
			out = append(out, s)
		}
	}
	return out
}

// keyOf: canonical class of a failing input. String-level requests are classified by the one input
// string (`C16:match:no-pipe-default`, `C16:match:pipe-empty-default`, else `C16:<op>`).
// Document-level requests get `C16:doc:<op>`, suffixed with the class when the document contains a
// string of one of the two classes (it may then be the same defect seen through FromBytes, or not:
// the key is deliberately different from the string-level one).
func keyOf(d *hx.Disagreement) string {
	ws := strings.Fields(d.Request)
	if len(ws) < 2 {
		return "C16:?"
	}
	op := ws[1]
	docKey := func(line string) string {
		k := classKey(stringsOfLine(line), op)
		if strings.HasPrefix(k, "C16:match:") {
			return "C16:doc:" + op + ":" + strings.TrimPrefix(k, "C16:match:")
		}
		return "C16:doc:" + op
	}
	switch op {
	case "re", "relegacy", "resolve", "resolvelegacy":
		return classKey(stringsOfLine(d.Request), op)
	case "load", "loadlegacy":
		return docKey(d.Request)
	case "get", "dump":
		for i := d.LineNo; i >= 0 && i < len(d.Case.Lines); i-- {
			w := strings.Fields(d.Case.Lines[i])
			if len(w) > 1 && (w[1] == "load" || w[1] == "loadlegacy") {
				return docKey(d.Case.Lines[i])
			}
		}
		return "C16:doc:" + op
	}
	return "C16:" + op
}

// stringCase: one string, the captures, and MatchAndResolve with the referenced variable unset /
// set / set to the empty string.
func (g *gen) stringCase(s, tag string, legacy bool) hx.Case {
	names := referenced(s)
	if len(names) == 0 {
		names = []string{g.name()}
	}
	re, res := "tmpl re ", "tmpl resolve "
	if legacy {
		re, res = "tmpl relegacy ", "tmpl resolvelegacy "
	}
	lines := []string{"case tmpl str", re + tokS(s)}
	if g.noRe {
		lines = lines[:1]
	}
	order := g.r.Perm(3)
	for _, st := range order {
		for _, n := range names {
			switch st {
			case 0:
				lines = append(lines, "tmpl env "+tokS(n)+" unset")
			case 1:
				lines = append(lines, "tmpl env "+tokS(n)+" set "+tokS(g.envValue()))
			default:
				lines = append(lines, "tmpl env "+tokS(n)+" set S")
			}
		}
		lines = append(lines, res+tokS(s))
	}
	// both codec passes of the observation: the document into FromBytes, and the value alone
	// inside Get (yaml.Marshal -> yaml.Unmarshal)
	_, rt := yamlRoundTrips(map[string]any{"k": s})
	if rt {
		_, rt = yamlRoundTrips(s)
	}
	tags := []string{"string", tag}
	if !rt {
		tags = append(tags, "yaml-does-not-round-trip")
	}
	return hx.Case{Lines: lines, Domain: rt, Nontrivial: strings.HasPrefix(s, "${{"), Tags: tags}
}

// ---- documents --------------------------------------------------------------------------------

var keyPool = []string{"a", "b", "c", "k1", "name", "svc", "x_y", "Key", "deep", "zz", "token", "addr"}

type docGen struct {
	*gen
	unselVars bool // strings generated now sit on a branch that will not be selected
}

func (g *docGen) leaf() *node {
	switch k := g.r.Intn(10); {
	case k < 2:
		return &node{kind: 'N', n: g.r.Intn(100)}
	case k < 7:
		p := g.parts()
		if g.unselVars && g.r.Intn(2) == 0 {
			// a variable that is never set and has no default: must not matter off the selected path
			p.name = []string{"C16_NEVER_SET", "c16_never_2"}[g.r.Intn(2)]
			p.hasDef = false
		}
		return &node{kind: 'S', s: p.String()}
	case k < 9:
		s, _ := g.nearMiss()
		return &node{kind: 'S', s: s}
	default:
		return &node{kind: 'S', s: plainPool[g.r.Intn(len(plainPool))]}
	}
}

func (g *docGen) keys(n int) []string {
	p := g.r.Perm(len(keyPool))
	out := make([]string, n)
	for i := range out {
		out[i] = keyPool[p[i]]
	}
	return out
}

// value: allowSwitch=false below a switch (a switch below a switch of the same dimension is the
// C03 finding and outside this property's domain) unless nested is requested (drift stream).
func (g *docGen) value(depth int, allowSwitch, nested bool, sel int) *node {
	k := g.r.Intn(20)
	if depth <= 0 || k < 9 {
		return g.leaf()
	}
	switch {
	case k < 12:
		t := &node{kind: 'L'}
		for i, n := 0, g.r.Intn(4); i < n; i++ {
			t.kids = append(t.kids, g.value(depth-1, allowSwitch, nested, sel))
		}
		return t
	case k < 16 || !(allowSwitch || nested):
		n := 1 + g.r.Intn(3)
		t := &node{kind: 'M', keys: g.keys(n)}
		for i := 0; i < n; i++ {
			t.kids = append(t.kids, g.value(depth-1, allowSwitch, nested, sel))
		}
		return t
	default:
		n := 1 + g.r.Intn(3)
		p := g.r.Perm(len(dimNames))
		t := &node{kind: 'W'}
		hasSel := false
		for i := 0; i < n; i++ {
			t.keys = append(t.keys, fmt.Sprintf("B%d", p[i]))
			if p[i] == sel {
				hasSel = true
			}
		}
		hasDef := g.r.Intn(10) < 6
		if hasDef {
			t.keys = append(t.keys, "D")
		}
		g.r.Shuffle(len(t.keys), func(i, j int) { t.keys[i], t.keys[j] = t.keys[j], t.keys[i] })
		for _, key := range t.keys {
			selected := key == fmt.Sprintf("B%d", sel) || (key == "D" && !hasSel)
			saved := g.unselVars
			if !selected {
				g.unselVars = true
			}
			t.kids = append(t.kids, g.value(depth-1, false, nested, sel))
			g.unselVars = saved
		}
		return t
	}
}

func (t *node) walkStrings(f func(s string)) {
	if t.kind == 'S' {
		f(t.s)
	}
	for _, k := range t.kids {
		k.walkStrings(f)
	}
}

// selected is the tree after dimension reduction (nil when a switch has no branch to follow); only
// used to decide whether the values Get will re-marshal survive yaml.v3.
func (t *node) selected(sel int) *node {
	switch t.kind {
	case 'W':
		pick := -1
		for i, key := range t.keys {
			if key == fmt.Sprintf("B%d", sel) {
				pick = i
			}
		}
		for i, key := range t.keys {
			if pick < 0 && key == "D" {
				pick = i
			}
		}
		if pick < 0 {
			return nil
		}
		return t.kids[pick].selected(sel)
	case 'L', 'M':
		r := &node{kind: t.kind, keys: t.keys}
		for _, k := range t.kids {
			sk := k.selected(sel)
			if sk == nil {
				return nil
			}
			r.kids = append(r.kids, sk)
		}
		return r
	}
	return t
}

func (t *node) allRoundTrip() bool {
	if _, ok := yamlRoundTrips(t.goValue()); !ok {
		return false
	}
	for _, k := range t.kids {
		if !k.allRoundTrip() {
			return false
		}
	}
	return true
}

func (t *node) count(kind byte) int {
	n := 0
	if t.kind == kind {
		n = 1
	}
	for _, k := range t.kids {
		n += k.count(kind)
	}
	return n
}

// selectedPaths lists the dotted paths (through maps; switches vanish) of the leaves and lists on
// the branches chosen by sel. ok=false when some switch has neither the value nor a default.
func (t *node) selectedPaths(sel int, prefix string, out *[]string) bool {
	switch t.kind {
	case 'M':
		for i, k := range t.kids {
			p := t.keys[i]
			if prefix != "" {
				p = prefix + "." + p
			}
			if !k.selectedPaths(sel, p, out) {
				return false
			}
		}
	case 'W':
		pick := -1
		for i, key := range t.keys {
			if key == fmt.Sprintf("B%d", sel) {
				pick = i
			}
		}
		if pick < 0 {
			for i, key := range t.keys {
				if key == "D" {
					pick = i
				}
			}
		}
		if pick < 0 {
			return false
		}
		return t.kids[pick].selectedPaths(sel, prefix, out)
	case 'L':
		ok := true
		for _, k := range t.kids {
			var sink []string
			if !k.selectedPaths(sel, "\x00", &sink) {
				ok = false
			}
		}
		if prefix != "" && prefix[0] != 0 {
			*out = append(*out, prefix)
		}
		return ok
	default:
		if prefix != "" && prefix[0] != 0 {
			*out = append(*out, prefix)
		}
	}
	return true
}

func (g *gen) docCase(kind string) hx.Case {
	dg := &docGen{gen: g}
	sel := g.r.Intn(len(dimNames))
	nested := kind == "nested-switch"
	n := 1 + g.r.Intn(4)
	root := &node{kind: 'M', keys: dg.keys(n)}
	for i := 0; i < n; i++ {
		root.kids = append(root.kids, dg.value(3, true, nested, sel))
	}
	domain := true
	tags := []string{"doc"}
	if kind == "root-switch" {
		// every branch of the root is a map; only the selected branch (or `default`) may be evaluated
		nb := 1 + g.r.Intn(3)
		p := g.r.Perm(len(dimNames))
		root = &node{kind: 'W'}
		hasSel := false
		for i := 0; i < nb; i++ {
			root.keys = append(root.keys, fmt.Sprintf("B%d", p[i]))
			hasSel = hasSel || p[i] == sel
		}
		if g.r.Intn(10) < 7 {
			root.keys = append(root.keys, "D")
		}
		g.r.Shuffle(len(root.keys), func(i, j int) { root.keys[i], root.keys[j] = root.keys[j], root.keys[i] })
		for _, key := range root.keys {
			selected := key == fmt.Sprintf("B%d", sel) || (key == "D" && !hasSel)
			saved := dg.unselVars
			if !selected {
				dg.unselVars = true
			}
			m := 1 + g.r.Intn(3)
			b := &node{kind: 'M', keys: dg.keys(m)}
			for i := 0; i < m; i++ {
				b.kids = append(b.kids, dg.value(2, false, false, sel))
			}
			root.kids = append(root.kids, b)
			dg.unselVars = saved
		}
		tags = append(tags, "root-switch")
	}
	switch kind {
	case "nested-switch":
		domain = false
		tags = append(tags, "ood-nested-switch")
	case "empty-map":
		root.keys = append(root.keys, "emptied")
		root.kids = append(root.kids, &node{kind: 'M'})
		domain = false
		tags = append(tags, "ood-empty-map")
	}
	seen := map[string]bool{}
	var vars []string
	root.walkStrings(func(s string) {
		for _, v := range referenced(s) {
			if !seen[v] {
				seen[v] = true
				vars = append(vars, v)
			}
		}
	})
	lines := []string{"case tmpl doc"}
	for _, v := range vars {
		k := g.r.Intn(10)
		switch {
		case strings.HasPrefix(strings.ToUpper(v), "C16_NEVER") || k < 3:
			lines = append(lines, "tmpl env "+tokS(v)+" unset")
		case k < 8:
			lines = append(lines, "tmpl env "+tokS(v)+" set "+tokS(g.envValue()))
		default:
			lines = append(lines, "tmpl env "+tokS(v)+" set S")
		}
	}
	lines = append(lines, fmt.Sprintf("tmpl load %d %s", sel, root.String()))
	if root.kind == 'M' {
		lines = append(lines, "tmpl dump")
	}
	var paths []string
	root.selectedPaths(sel, "", &paths)
	g.r.Shuffle(len(paths), func(i, j int) { paths[i], paths[j] = paths[j], paths[i] })
	if len(paths) > 6 {
		paths = paths[:6]
	}
	for _, p := range paths {
		lines = append(lines, "tmpl get "+p)
	}
	if root.kind == 'M' {
		lines = append(lines, "tmpl get "+root.keys[0]+".nope")
	} else {
		lines = append(lines, "tmpl get nope.nope")
	}
	// YAML is not modelled: the document must survive yaml.v3 into FromBytes, and so must every
	// subtree on its own (Get re-marshals the value it returns).
	if sel0 := root.selected(sel); !root.allRoundTrip() || (sel0 != nil && !sel0.allRoundTrip()) {
		domain = false
		tags = append(tags, "yaml-does-not-round-trip")
	}
	sw, st := root.count('W'), root.count('S')
	if sw > 0 {
		tags = append(tags, "has-switch")
	}
	if seen["C16_NEVER_SET"] || seen["c16_never_2"] {
		tags = append(tags, "unset-var-on-unselected-branch")
	}
	return hx.Case{Lines: lines, Domain: domain, Nontrivial: sw > 0 && st > 0 && len(vars) > 0, Tags: tags}
}

// ---- exhaustive splice --------------------------------------------------------------------------

var spliceAlphabet = []string{" ", "|", "}", "{", "A", "\"", "-", "\n", "$"}

// spliced returns the skeletons with x inserted at each splice position.
func spliced(x string) []string {
	return []string{
		"${{env:V" + x + "}}",
		"${{env:" + x + "V}}",
		"${{" + x + "env:V}}",
		"${{env:V|" + x + "}}",
		x + "${{env:V}}",
		"${{env:V}}" + x,
	}
}

func allStrings(maxLen int, f func(string)) {
	var rec func(prefix string, n int)
	rec = func(prefix string, n int) {
		f(prefix)
		if n == 0 {
			return
		}
		for _, a := range spliceAlphabet {
			rec(prefix+a, n-1)
		}
	}
	rec("", maxLen)
}

// go2lean -spec gsync: tie A for C01/C02.
//
// Reads gsync/selectable_wait_group.go and writes the control-flow graph of Add, Wait and Count as
// Lean DATA (lean/Generated/GoGSync.lean, in the vocabulary of lean/Model/GSyncCfg.lean): one node per
// visible operation (the operations the scheduler shim of tie C yields on: mu.Lock, mu.Unlock incl.
// the deferred one in front of every return, count.Add, count.Load, wChan.Swap, wChan.CompareAndSwap,
// wChan.Load, close), per thread-local make(chan struct{}), per Go condition, per return.
// Properties/C01Tie.lean proves that the generic interpreter of such graphs, applied to THIS graph,
// is the hand-written step function of Model/GSync.lean for all states.
//
// The graph is kept in a canonical form so that behaviour-preserving rewrites give the SAME graph:
// locals are numbered in binding order (names do not matter, fields and the sentinel are found by
// their types / by what the constructor stores), `if !c A else B` is stored as `if c B else A`, a
// tagless switch is its if-chain, `x := <pure integer expression>` makes x stand for the expression,
// a parameterless, resultless helper method of the same type called as a statement is inlined.
//
// Everything the graph language cannot say makes the extractor FAIL (exit 1; `check` reports a broken
// tie): another field in the struct, another method on a field, any other helper call, a goroutine, a
// select, arithmetic on the counter value, a reassigned channel variable, another function of the
// package that touches the fields, ...
package main

import (
	"fmt"
	"go/ast"
	"go/parser"
	"go/token"
	"os"
	"path/filepath"
	"sort"
	"strconv"
	"strings"
)

func init() { register("gsync", "../lean/Generated/GoGSync.lean", runGSync) }

const gsFile = "gsync/selectable_wait_group.go"
const gsType = "SelectableWaitGroup"

func gsFail(n ast.Node, format string, a ...any) {
	where := gsFile
	if n != nil {
		where = at(n)
	}
	fail("gsync: %s: %s", where, fmt.Sprintf(format, a...))
}

// ---- graph ----

type gsNode struct {
	kind    string // lock unlock ctrAdd ctrLoad ptrSwap ptrCAS ptrLoad close make branch retInt retChan | join
	a, b    string // Lean expressions (IExp / PExp / Cond)
	x       int    // bound local
	nx      *gsNode
	t, e    *gsNode
	id      int
	src     string
	visited bool
}

func gsResolve(n *gsNode) *gsNode {
	seen := 0
	for n != nil && n.kind == "join" {
		n = n.nx
		if seen++; seen > 10000 {
			gsFail(nil, "a loop without any operation or condition in it")
		}
	}
	return n
}

// ---- per-method translation ----

type gsBinding struct {
	kind string // int | chan | ptr | bool
	idx  int    // local index; -1 for an alias
	expr string // alias: the Lean IExp it stands for
	deps []int  // alias: locals it reads
}

type gsLoop struct{ head, after *gsNode; afterUsed bool }

type gsMethod struct {
	g        *gsFileInfo
	name     string
	recv     string
	retKind  string // int | chan
	scopes   []map[string]*gsBinding
	names    []string // local index -> Go name
	aliased  map[int]bool
	deferred bool // a `defer wg.mu.Unlock()` has been executed: every return unlocks first
	loops    []*gsLoop
	inl      *gsNode  // inside an inlined helper: where its `return` goes
	depth    int
}

type gsFileInfo struct {
	mu, count, ptr string // field names
	sentinel       string // the package-level closed channel
	funcs          map[string]*ast.FuncDecl
	inlined        map[string]bool // helper methods inlined into Add / Wait / Count
}

func (m *gsMethod) push() { m.scopes = append(m.scopes, map[string]*gsBinding{}) }
func (m *gsMethod) pop()  { m.scopes = m.scopes[:len(m.scopes)-1] }
func (m *gsMethod) lookup(name string) *gsBinding {
	for i := len(m.scopes) - 1; i >= 0; i-- {
		if b, ok := m.scopes[i][name]; ok {
			return b
		}
	}
	return nil
}
func (m *gsMethod) declare(name, kind string) int {
	idx := len(m.names)
	m.names = append(m.names, name)
	if name != "_" && name != "" {
		m.scopes[len(m.scopes)-1][name] = &gsBinding{kind: kind, idx: idx}
	}
	return idx
}

func unparen(e ast.Expr) ast.Expr {
	for {
		p, ok := e.(*ast.ParenExpr)
		if !ok {
			return e
		}
		e = p.X
	}
}

// fieldCall recognises `recv.<field>.<Method>(args)`; field is "mu", "count" or "ptr".
func (m *gsMethod) fieldCall(e ast.Expr) (field, method string, args []ast.Expr, ok bool) {
	c, isCall := unparen(e).(*ast.CallExpr)
	if !isCall {
		return
	}
	s1, isSel := c.Fun.(*ast.SelectorExpr)
	if !isSel {
		return
	}
	s2, isSel := s1.X.(*ast.SelectorExpr)
	if !isSel {
		return
	}
	id, isId := s2.X.(*ast.Ident)
	if !isId || id.Name != m.recv || m.lookup(id.Name) != nil {
		return
	}
	switch s2.Sel.Name {
	case m.g.mu:
		field = "mu"
	case m.g.count:
		field = "count"
	case m.g.ptr:
		field = "ptr"
	default:
		gsFail(e, "`%s`: %s has no modelled field `%s`", src(e), gsType, s2.Sel.Name)
	}
	return field, s1.Sel.Name, c.Args, true
}

// isVisibleValueCall: a visible operation that yields a value
func (m *gsMethod) valueOp(e ast.Expr) (kind string, ok bool) {
	f, meth, args, isF := m.fieldCall(e)
	if !isF {
		return "", false
	}
	switch {
	case f == "count" && meth == "Add" && len(args) == 1:
		return "int", true
	case f == "count" && meth == "Load" && len(args) == 0:
		return "int", true
	case f == "ptr" && meth == "Swap" && len(args) == 1:
		return "ptr", true
	case f == "ptr" && meth == "CompareAndSwap" && len(args) == 2:
		return "bool", true
	case f == "ptr" && meth == "Load" && len(args) == 0:
		return "ptr", true
	case f == "mu":
		gsFail(e, "`%s` used as a value", src(e))
	}
	gsFail(e, "`%s`: operation %s on the %s field is not in the vocabulary of the model (counter: Add, Load; channel pointer: Swap, CompareAndSwap, Load)", src(e), meth, f)
	return "", false
}

func (m *gsMethod) pure(e ast.Expr) bool {
	ok := true
	ast.Inspect(e, func(n ast.Node) bool {
		if c, isC := n.(*ast.CallExpr); isC {
			if _, _, _, isF := m.fieldCall(c); isF {
				ok = false
			}
		}
		return ok
	})
	return ok
}

// emitOp appends the node of a visible value operation binding local x; returns the new hole.
func (m *gsMethod) emitOp(e ast.Expr, x int, hole **gsNode) **gsNode {
	f, meth, args, _ := m.fieldCall(e)
	n := &gsNode{x: x, src: src(e)}
	switch f + "." + meth {
	case "count.Add":
		n.kind, n.a = "ctrAdd", m.iexp(args[0])
	case "count.Load":
		n.kind = "ctrLoad"
	case "ptr.Swap":
		n.kind, n.a = "ptrSwap", m.pexp(args[0], "ptr")
	case "ptr.CompareAndSwap":
		n.kind, n.a, n.b = "ptrCAS", m.pexp(args[0], "ptr"), m.pexp(args[1], "ptr")
	case "ptr.Load":
		n.kind = "ptrLoad"
	default:
		gsFail(e, "internal: %s", src(e))
	}
	*hole = n
	return &n.nx
}

// hoist replaces every visible value operation inside e (evaluated unconditionally, left to right) by
// a fresh temporary, emitting the operations first.
func (m *gsMethod) hoist(e ast.Expr, hole **gsNode, tmp map[ast.Expr]*gsBinding) **gsNode {
	switch x := e.(type) {
	case *ast.ParenExpr:
		return m.hoist(x.X, hole, tmp)
	case *ast.UnaryExpr:
		return m.hoist(x.X, hole, tmp)
	case *ast.StarExpr:
		return m.hoist(x.X, hole, tmp)
	case *ast.BinaryExpr:
		if (x.Op == token.LAND || x.Op == token.LOR) && !m.pure(x) {
			gsFail(e, "`%s`: an operation under && / || in a position the translation does not split", src(e))
		}
		hole = m.hoist(x.X, hole, tmp)
		return m.hoist(x.Y, hole, tmp)
	case *ast.CallExpr:
		if kind, ok := m.valueOp(x); ok {
			_, _, args, _ := m.fieldCall(x)
			for _, a := range args {
				if !m.pure(a) {
					gsFail(a, "`%s`: an operation as the argument of an operation", src(a))
				}
			}
			idx := m.declare("", kind)
			m.names[idx] = "(" + src(x) + ")"
			tmp[x] = &gsBinding{kind: kind, idx: idx}
			return m.emitOp(x, idx, hole)
		}
		for _, a := range x.Args {
			hole = m.hoist(a, hole, tmp)
		}
		return hole
	}
	return hole
}

var gsTmp map[ast.Expr]*gsBinding // temporaries of the expression being translated

func (m *gsMethod) iexp(e ast.Expr) string {
	e = unparen(e)
	switch x := e.(type) {
	case *ast.Ident:
		if b := m.lookup(x.Name); b != nil && b.kind == "int" {
			if b.idx < 0 {
				return b.expr
			}
			return fmt.Sprintf("(.var %d)", b.idx)
		}
	case *ast.BasicLit:
		if x.Kind == token.INT {
			if v, err := strconv.ParseInt(x.Value, 0, 64); err == nil {
				return fmt.Sprintf("(.lit %d)", v)
			}
		}
	case *ast.UnaryExpr:
		if l, ok := unparen(x.X).(*ast.BasicLit); ok && x.Op == token.SUB && l.Kind == token.INT {
			if v, err := strconv.ParseInt(l.Value, 0, 64); err == nil {
				return fmt.Sprintf("(.lit (%d))", -v)
			}
		}
	case *ast.CallExpr:
		if b, ok := gsTmp[x]; ok && b.kind == "int" {
			return fmt.Sprintf("(.var %d)", b.idx)
		}
		// the conversions between int and int64 are the identity on the model's unbounded Int
		if id, ok := x.Fun.(*ast.Ident); ok && (id.Name == "int64" || id.Name == "int") && len(x.Args) == 1 && m.lookup(id.Name) == nil {
			return m.iexp(x.Args[0])
		}
	}
	gsFail(e, "`%s` is not an integer expression of the translated fragment (a local, a literal, int(..), int64(..))", src(e))
	return ""
}

// pexp translates a channel (`want` = "chan") or channel-pointer ("ptr") expression.
func (m *gsMethod) pexp(e ast.Expr, want string) string {
	e = unparen(e)
	bad := func() string {
		gsFail(e, "`%s` is not a %s expression of the translated fragment", src(e), map[string]string{"chan": "channel", "ptr": "channel-pointer"}[want])
		return ""
	}
	local := func(name, kind string) (string, bool) {
		if b := m.lookup(name); b != nil {
			if b.kind == kind && b.idx >= 0 {
				return fmt.Sprintf("(.var %d)", b.idx), true
			}
			return "", false
		}
		if name == m.g.sentinel && kind == "chan" {
			return ".sentinel", true
		}
		return "", false
	}
	switch x := e.(type) {
	case *ast.Ident:
		if s, ok := local(x.Name, want); ok {
			return s
		}
	case *ast.UnaryExpr: // &c
		if id, ok := unparen(x.X).(*ast.Ident); ok && x.Op == token.AND && want == "ptr" {
			if s, ok := local(id.Name, "chan"); ok {
				return s
			}
		}
	case *ast.StarExpr: // *p
		if want == "chan" {
			switch y := unparen(x.X).(type) {
			case *ast.Ident:
				if s, ok := local(y.Name, "ptr"); ok {
					return s
				}
			case *ast.CallExpr:
				if b, ok := gsTmp[y]; ok && b.kind == "ptr" {
					return fmt.Sprintf("(.var %d)", b.idx)
				}
			}
		}
	case *ast.CallExpr:
		if b, ok := gsTmp[x]; ok && b.kind == want {
			return fmt.Sprintf("(.var %d)", b.idx)
		}
	}
	return bad()
}

func (m *gsMethod) kindOf(e ast.Expr) string {
	e = unparen(e)
	switch x := e.(type) {
	case *ast.Ident:
		if b := m.lookup(x.Name); b != nil {
			return b.kind
		}
		if x.Name == m.g.sentinel {
			return "chan"
		}
	case *ast.BasicLit:
		if x.Kind == token.INT {
			return "int"
		}
	case *ast.UnaryExpr:
		switch x.Op {
		case token.AND:
			if m.kindOf(x.X) == "chan" {
				return "ptr"
			}
		case token.SUB:
			return m.kindOf(x.X)
		case token.NOT:
			return "bool"
		}
	case *ast.StarExpr:
		if m.kindOf(x.X) == "ptr" {
			return "chan"
		}
	case *ast.BinaryExpr:
		return "bool"
	case *ast.CallExpr:
		if b, ok := gsTmp[x]; ok {
			return b.kind
		}
		if id, ok := x.Fun.(*ast.Ident); ok && (id.Name == "int64" || id.Name == "int") && len(x.Args) == 1 {
			return "int"
		}
	}
	return ""
}

func (m *gsMethod) cond(e ast.Expr) string {
	e = unparen(e)
	switch x := e.(type) {
	case *ast.UnaryExpr:
		if x.Op == token.NOT {
			return "(.not " + m.cond(x.X) + ")"
		}
	case *ast.CallExpr:
		if b, ok := gsTmp[x]; ok && b.kind == "bool" {
			return fmt.Sprintf("(.bvar %d)", b.idx)
		}
	case *ast.Ident:
		if b := m.lookup(x.Name); b != nil && b.kind == "bool" && b.idx >= 0 {
			return fmt.Sprintf("(.bvar %d)", b.idx)
		}
	case *ast.BinaryExpr:
		switch x.Op {
		case token.LAND:
			return "(.and " + m.cond(x.X) + " " + m.cond(x.Y) + ")"
		case token.LOR:
			return "(.or " + m.cond(x.X) + " " + m.cond(x.Y) + ")"
		case token.EQL, token.NEQ, token.LSS, token.GTR, token.LEQ, token.GEQ:
			kx, ky := m.kindOf(x.X), m.kindOf(x.Y)
			if kx == "" || kx != ky {
				gsFail(e, "`%s`: comparison the translation cannot type (%q vs %q)", src(e), kx, ky)
			}
			if kx == "int" {
				a, b := m.iexp(x.X), m.iexp(x.Y)
				switch x.Op {
				case token.EQL:
					return "(.ieq " + a + " " + b + ")"
				case token.NEQ:
					return "(.not (.ieq " + a + " " + b + "))"
				case token.LSS:
					return "(.ilt " + a + " " + b + ")"
				case token.GTR:
					return "(.ilt " + b + " " + a + ")"
				case token.LEQ:
					return "(.not (.ilt " + b + " " + a + "))"
				case token.GEQ:
					return "(.not (.ilt " + a + " " + b + "))"
				}
			}
			if (kx == "ptr" || kx == "chan") && (x.Op == token.EQL || x.Op == token.NEQ) {
				a, b := m.pexp(x.X, kx), m.pexp(x.Y, kx)
				if x.Op == token.EQL {
					return "(.peq " + a + " " + b + ")"
				}
				return "(.not (.peq " + a + " " + b + "))"
			}
		}
	}
	gsFail(e, "`%s` is not a condition of the translated fragment", src(e))
	return ""
}

// branchOn compiles the condition e into *hole: control reaches T when it holds, F when it does not.
func (m *gsMethod) branchOn(e ast.Expr, hole **gsNode, T, F *gsNode) {
	e = unparen(e)
	if !m.pure(e) {
		switch x := e.(type) {
		case *ast.BinaryExpr:
			if x.Op == token.LAND || x.Op == token.LOR {
				mid := &gsNode{kind: "join"}
				if x.Op == token.LAND {
					m.branchOn(x.X, hole, mid, F)
				} else {
					m.branchOn(x.X, hole, T, mid)
				}
				m.branchOn(x.Y, &mid.nx, T, F)
				return
			}
		case *ast.UnaryExpr:
			if b, ok := unparen(x.X).(*ast.BinaryExpr); ok && x.Op == token.NOT && (b.Op == token.LAND || b.Op == token.LOR) {
				m.branchOn(x.X, hole, F, T)
				return
			}
		}
	}
	saved := gsTmp
	gsTmp = map[ast.Expr]*gsBinding{}
	hole = m.hoist(e, hole, gsTmp)
	c := m.cond(e)
	// `if !c A else B` is `if c B else A`: conditions are stored without an outer negation
	text := src(e)
	for strings.HasPrefix(c, "(.not ") && strings.HasSuffix(c, ")") {
		c = c[len("(.not ") : len(c)-1]
		T, F = F, T
		text = "NOT (" + text + ")"
	}
	n := &gsNode{kind: "branch", a: c, t: T, e: F, src: text}
	gsTmp = saved
	*hole = n
}

func (m *gsMethod) stmts(list []ast.Stmt, hole **gsNode, top bool) **gsNode {
	for _, s := range list {
		if hole == nil {
			gsFail(s, "unreachable statement `%s`", src(s))
		}
		hole = m.stmt(s, hole, top)
	}
	return hole
}

func (m *gsMethod) block(b *ast.BlockStmt, hole **gsNode) **gsNode {
	m.push()
	defer m.pop()
	return m.stmts(b.List, hole, false)
}

func (m *gsMethod) assign(s *ast.AssignStmt, hole **gsNode) **gsNode {
	if len(s.Lhs) != 1 || len(s.Rhs) != 1 || (s.Tok != token.DEFINE && s.Tok != token.ASSIGN) {
		gsFail(s, "`%s`: only `x := e` and `x = e` with one variable are translated", src(s))
	}
	lhs, ok := s.Lhs[0].(*ast.Ident)
	if !ok {
		gsFail(s, "`%s`: assignment to something that is not a local variable", src(s))
	}
	rhs := unparen(s.Rhs[0])
	// x := make(chan struct{})
	if c, ok := rhs.(*ast.CallExpr); ok {
		if id, ok := c.Fun.(*ast.Ident); ok && id.Name == "make" && m.lookup("make") == nil {
			if len(c.Args) != 1 || src(c.Args[0]) != "chan struct{}" {
				gsFail(s, "`%s`: only make(chan struct{}) (unbuffered) is translated", src(s))
			}
			if s.Tok != token.DEFINE {
				gsFail(s, "`%s`: a channel variable is reassigned (a pointer to it may have been published)", src(s))
			}
			n := &gsNode{kind: "make", x: m.declare(lhs.Name, "chan"), src: src(s)}
			*hole = n
			return &n.nx
		}
	}
	if kind, ok := m.valueOp(rhs); ok {
		_, _, args, _ := m.fieldCall(rhs)
		for _, a := range args {
			if !m.pure(a) {
				gsFail(a, "`%s`: an operation as the argument of an operation", src(a))
			}
		}
		// build the node before the new variable is in scope (`x := f(x)` reads the outer x)
		var tmpHole *gsNode
		end := m.emitOp(rhs, 0, &tmpHole)
		var idx int
		if s.Tok == token.DEFINE {
			idx = m.declare(lhs.Name, kind)
		} else {
			b := m.lookup(lhs.Name)
			if b == nil || b.idx < 0 || b.kind != kind || kind == "chan" {
				gsFail(s, "`%s`: assignment to `%s`, which is not a local of that kind", src(s), lhs.Name)
			}
			if m.aliased[b.idx] {
				gsFail(s, "`%s`: `%s` is reassigned while another local stands for its value", src(s), lhs.Name)
			}
			idx = b.idx
		}
		tmpHole.x = idx
		tmpHole.src = src(s)
		*hole = tmpHole
		return end
	}
	// x := <pure integer expression>: x stands for that expression (locals are never reassigned while aliased)
	if s.Tok == token.DEFINE && m.pure(rhs) && m.kindOf(rhs) == "int" {
		expr := m.iexp(rhs)
		b := &gsBinding{kind: "int", idx: -1, expr: expr}
		ast.Inspect(rhs, func(n ast.Node) bool {
			if id, ok := n.(*ast.Ident); ok {
				if v := m.lookup(id.Name); v != nil && v.idx >= 0 {
					m.aliased[v.idx] = true
				}
			}
			return true
		})
		m.scopes[len(m.scopes)-1][lhs.Name] = b
		return hole
	}
	gsFail(s, "`%s` is outside the translated fragment", src(s))
	return nil
}

func (m *gsMethod) stmt(s ast.Stmt, hole **gsNode, top bool) **gsNode {
	switch x := s.(type) {
	case *ast.EmptyStmt:
		return hole
	case *ast.BlockStmt:
		return m.block(x, hole)
	case *ast.ExprStmt:
		e := unparen(x.X)
		if c, ok := e.(*ast.CallExpr); ok {
			if id, ok := c.Fun.(*ast.Ident); ok && id.Name == "close" && m.lookup("close") == nil && len(c.Args) == 1 {
				if !m.pure(c.Args[0]) {
					gsFail(s, "`%s`: an operation as the argument of close", src(s))
				}
				n := &gsNode{kind: "close", a: m.pexp(c.Args[0], "chan"), src: src(s)}
				*hole = n
				return &n.nx
			}
		}
		if f, meth, args, ok := m.fieldCall(e); ok {
			if f == "mu" && len(args) == 0 && (meth == "Lock" || meth == "Unlock") {
				n := &gsNode{kind: strings.ToLower(meth), src: src(s)}
				*hole = n
				return &n.nx
			}
			if f == "mu" {
				gsFail(s, "`%s`: mutex operation %s is not in the vocabulary of the model (Lock, Unlock)", src(s), meth)
			}
			if kind, ok := m.valueOp(e); ok { // result discarded
				idx := m.declare("", kind)
				m.names[idx] = "(" + src(e) + ")"
				return m.emitOp(e, idx, hole)
			}
		}
		if c, ok := e.(*ast.CallExpr); ok {
			if h := m.helperCall(c); h != nil {
				return m.inline(h, s, hole)
			}
		}
		gsFail(s, "statement `%s` is outside the translated fragment (a call the model has no operation for)", src(s))
	case *ast.DeferStmt:
		if f, meth, args, ok := m.fieldCall(x.Call); ok && f == "mu" && meth == "Unlock" && len(args) == 0 && top && !m.deferred {
			m.deferred = true
			return hole
		}
		gsFail(s, "`%s`: only one `defer %s.%s.Unlock()` at the top level of a method is translated", src(s), m.recv, m.g.mu)
	case *ast.AssignStmt:
		return m.assign(x, hole)
	case *ast.IfStmt:
		m.push()
		defer m.pop()
		if x.Init != nil {
			a, ok := x.Init.(*ast.AssignStmt)
			if !ok {
				gsFail(x.Init, "`%s`: if-initialiser outside the translated fragment", src(x.Init))
			}
			hole = m.assign(a, hole)
		}
		T, F, after := &gsNode{kind: "join"}, &gsNode{kind: "join"}, &gsNode{kind: "join"}
		m.branchOn(x.Cond, hole, T, F)
		falls := false
		if h := m.block(x.Body, &T.nx); h != nil {
			*h, falls = after, true
		}
		var h **gsNode
		switch el := x.Else.(type) {
		case nil:
			h = &F.nx
		case *ast.BlockStmt:
			h = m.block(el, &F.nx)
		case *ast.IfStmt:
			h = m.stmt(el, &F.nx, false)
		default:
			gsFail(x.Else, "else branch outside the translated fragment")
		}
		if h != nil {
			*h, falls = after, true
		}
		if !falls {
			return nil
		}
		return &after.nx
	case *ast.SwitchStmt:
		if x.Init != nil || x.Tag != nil {
			gsFail(s, "only the tagless `switch { case cond: ... }` is translated")
		}
		after := &gsNode{kind: "join"}
		falls := false
		var def *ast.CaseClause
		for _, cc := range x.Body.List {
			c := cc.(*ast.CaseClause)
			if c.List == nil {
				def = c
				continue
			}
			// case a, b: is a || b
			T := &gsNode{kind: "join"}
			for _, ce := range c.List {
				F := &gsNode{kind: "join"}
				m.branchOn(ce, hole, T, F)
				hole = &F.nx
			}
			m.push()
			h := m.stmts(c.Body, &T.nx, false)
			m.pop()
			gsNoFallthrough(c)
			if h != nil {
				*h, falls = after, true
			}
		}
		if def != nil {
			if def != x.Body.List[len(x.Body.List)-1] {
				gsFail(def, "a default clause that is not the last clause")
			}
			m.push()
			hole = m.stmts(def.Body, hole, false)
			m.pop()
			gsNoFallthrough(def)
		}
		if hole != nil {
			*hole, falls = after, true
		}
		if !falls {
			return nil
		}
		return &after.nx
	case *ast.ForStmt:
		if x.Init != nil || x.Post != nil {
			gsFail(s, "only `for { }` and `for cond { }` are translated")
		}
		lp := &gsLoop{head: &gsNode{kind: "join"}, after: &gsNode{kind: "join"}}
		*hole = lp.head
		body := &lp.head.nx
		if x.Cond != nil {
			T := &gsNode{kind: "join"}
			m.branchOn(x.Cond, body, T, lp.after)
			lp.afterUsed = true
			body = &T.nx
		}
		m.loops = append(m.loops, lp)
		if h := m.block(x.Body, body); h != nil {
			*h = lp.head
		}
		m.loops = m.loops[:len(m.loops)-1]
		if !lp.afterUsed {
			return nil
		}
		return &lp.after.nx
	case *ast.BranchStmt:
		if x.Label == nil && len(m.loops) > 0 && (x.Tok == token.BREAK || x.Tok == token.CONTINUE) {
			lp := m.loops[len(m.loops)-1]
			if x.Tok == token.CONTINUE {
				*hole = lp.head
			} else {
				*hole, lp.afterUsed = lp.after, true
			}
			return nil
		}
		gsFail(s, "`%s` is outside the translated fragment", src(s))
	case *ast.ReturnStmt:
		if m.inl != nil {
			if len(x.Results) != 0 {
				gsFail(s, "`%s`: an inlined helper returns a value", src(s))
			}
			*hole = m.inl
			return nil
		}
		if len(x.Results) != 1 {
			gsFail(s, "`%s`: exactly one result is expected", src(s))
		}
		saved := gsTmp
		gsTmp = map[ast.Expr]*gsBinding{}
		hole = m.hoist(x.Results[0], hole, gsTmp)
		n := &gsNode{src: src(s)}
		if m.retKind == "int" {
			n.kind, n.a = "retInt", m.iexp(x.Results[0])
		} else {
			n.kind, n.a = "retChan", m.pexp(x.Results[0], "chan")
		}
		gsTmp = saved
		if m.deferred { // the result is evaluated, then the deferred Unlock runs
			u := &gsNode{kind: "unlock", src: "deferred " + m.recv + "." + m.g.mu + ".Unlock()"}
			*hole = u
			hole = &u.nx
		}
		*hole = n
		return nil
	}
	gsFail(s, "statement `%s` is outside the translated fragment", src(s))
	return nil
}

// helperCall recognises `recv.h()` for a plain helper method h of the same type: no parameters, no results.
func (m *gsMethod) helperCall(c *ast.CallExpr) *ast.FuncDecl {
	sel, ok := c.Fun.(*ast.SelectorExpr)
	if !ok || len(c.Args) != 0 {
		return nil
	}
	id, ok := sel.X.(*ast.Ident)
	if !ok || id.Name != m.recv || m.lookup(id.Name) != nil {
		return nil
	}
	fd := m.g.funcs[gsType+"."+sel.Sel.Name]
	if fd == nil || fd.Type.Params.NumFields() != 0 || fd.Type.Results.NumFields() != 0 || fd.Type.TypeParams != nil {
		return nil
	}
	switch sel.Sel.Name {
	case "Add", "Wait", "Count", "Inc", "Dec":
		return nil
	}
	if _, ptr := fd.Recv.List[0].Type.(*ast.StarExpr); !ptr || gsRecvName(fd) == "" || gsRecvName(fd) == "_" {
		return nil
	}
	return fd
}

// inline translates the body of a helper in place of its call: own scope, own receiver name, its
// `return` continues after the call.
func (m *gsMethod) inline(fd *ast.FuncDecl, call ast.Stmt, hole **gsNode) **gsNode {
	if m.depth >= 4 {
		gsFail(call, "`%s`: helper calls nested too deeply (recursion?)", src(call))
	}
	m.g.inlined[gsType+"."+fd.Name.Name] = true
	gsRefuseBreakInSwitch(fd.Body)
	savedScopes, savedRecv, savedLoops, savedInl := m.scopes, m.recv, m.loops, m.inl
	after := &gsNode{kind: "join"}
	m.scopes, m.recv, m.loops, m.inl = []map[string]*gsBinding{{}}, gsRecvName(fd), nil, after
	m.depth++
	h := m.stmts(fd.Body.List, hole, false)
	m.depth--
	m.scopes, m.recv, m.loops, m.inl = savedScopes, savedRecv, savedLoops, savedInl
	if h != nil {
		*h = after
	}
	return &after.nx
}

func gsNoFallthrough(c *ast.CaseClause) {
	for _, s := range c.Body {
		if b, ok := s.(*ast.BranchStmt); ok && b.Tok == token.FALLTHROUGH {
			gsFail(b, "fallthrough is outside the translated fragment")
		}
	}
}

// In a switch, `break` leaves the switch; the translation above sends it to the enclosing loop, so refuse it.
func gsRefuseBreakInSwitch(body *ast.BlockStmt) {
	var walk func(n ast.Node, inSwitch bool)
	walk = func(n ast.Node, inSwitch bool) {
		ast.Inspect(n, func(k ast.Node) bool {
			if k == n {
				return true
			}
			switch y := k.(type) {
			case *ast.SwitchStmt:
				walk(y.Body, true)
				return false
			case *ast.ForStmt:
				walk(y.Body, false)
				return false
			case *ast.BranchStmt:
				if y.Tok == token.BREAK && inSwitch {
					gsFail(y, "break inside a switch is outside the translated fragment")
				}
			case *ast.FuncLit:
				gsFail(y, "function literal is outside the translated fragment")
			}
			return true
		})
	}
	walk(body, false)
}

func (g *gsFileInfo) method(fd *ast.FuncDecl, retKind string) (*gsNode, *gsMethod) {
	m := &gsMethod{g: g, name: fd.Name.Name, recv: gsRecvName(fd), retKind: retKind, aliased: map[int]bool{}}
	m.push()
	for _, p := range fd.Type.Params.List {
		for _, n := range p.Names {
			m.declare(n.Name, "int")
		}
	}
	gsRefuseBreakInSwitch(fd.Body)
	var entry *gsNode
	if h := m.stmts(fd.Body.List, &entry, true); h != nil {
		gsFail(fd, "%s can fall off its end", fd.Name.Name)
	}
	return entry, m
}

func gsRecvName(fd *ast.FuncDecl) string {
	if fd.Recv == nil || len(fd.Recv.List) != 1 || len(fd.Recv.List[0].Names) != 1 {
		return ""
	}
	return fd.Recv.List[0].Names[0].Name
}

func gsIsMethod(fd *ast.FuncDecl) bool {
	if fd.Recv == nil || len(fd.Recv.List) != 1 {
		return false
	}
	return recvTypeName(fd.Recv.List[0].Type) == gsType
}

func gsSig(fd *ast.FuncDecl) string {
	return src(&ast.FuncDecl{Name: fd.Name, Type: fd.Type})
}

// ---- the file ----

func runGSync(repo, out string) {
	path := filepath.Join(repo, gsFile)
	file, err := parser.ParseFile(fset, path, nil, 0)
	if err != nil {
		fail("%v", err)
	}
	g := &gsFileInfo{}

	// imports under their own names (the field types are recognised by their printed form)
	need := map[string]bool{"sync": false, "sync/atomic": false}
	for _, im := range file.Imports {
		p, _ := strconv.Unquote(im.Path.Value)
		if _, ok := need[p]; ok {
			if im.Name != nil {
				gsFail(im, "import %s is renamed", p)
			}
			need[p] = true
		}
	}
	for p, ok := range need {
		if !ok {
			gsFail(nil, "package %s is not imported", p)
		}
	}

	// the struct: exactly a mutex, a 64-bit counter, a pointer to the channel
	var st *ast.StructType
	funcs := map[string]*ast.FuncDecl{}
	var pkgVars []*ast.ValueSpec
	for _, d := range file.Decls {
		switch x := d.(type) {
		case *ast.GenDecl:
			for _, sp := range x.Specs {
				switch y := sp.(type) {
				case *ast.TypeSpec:
					if y.Name.Name == gsType {
						s, ok := y.Type.(*ast.StructType)
						if !ok || y.TypeParams != nil {
							gsFail(y, "%s is not a plain struct", gsType)
						}
						st = s
					}
				case *ast.ValueSpec:
					if x.Tok == token.VAR {
						pkgVars = append(pkgVars, y)
					}
				}
			}
		case *ast.FuncDecl:
			if x.Body == nil {
				continue
			}
			key := x.Name.Name
			if x.Recv != nil {
				if !gsIsMethod(x) {
					continue
				}
				key = gsType + "." + key
			}
			if funcs[key] != nil && key != "init" {
				gsFail(x, "%s declared twice", key)
			}
			if key == "init" && funcs[key] != nil {
				gsFail(x, "more than one init function")
			}
			funcs[key] = x
		}
	}
	if st == nil {
		gsFail(nil, "type %s not found", gsType)
	}
	for _, f := range st.Fields.List {
		if len(f.Names) != 1 {
			gsFail(f, "field declaration `%s`: one name per field is expected", src(f.Type))
		}
		name := f.Names[0].Name
		switch src(f.Type) {
		case "sync.Mutex":
			if g.mu != "" {
				gsFail(f, "a second mutex field `%s`", name)
			}
			g.mu = name
		case "atomic.Int64":
			if g.count != "" {
				gsFail(f, "a second counter field `%s`", name)
			}
			g.count = name
		case "atomic.Pointer[chan struct{}]":
			if g.ptr != "" {
				gsFail(f, "a second channel-pointer field `%s`", name)
			}
			g.ptr = name
		default:
			gsFail(f, "field `%s %s`: the model's state is a sync.Mutex, an atomic.Int64 (an unbounded Int up to overflow) and an atomic.Pointer[chan struct{}]; this field is not modelled", name, src(f.Type))
		}
	}
	if g.mu == "" || g.count == "" || g.ptr == "" {
		gsFail(st, "%s must have a sync.Mutex, an atomic.Int64 and an atomic.Pointer[chan struct{}] field (found mutex=%q counter=%q pointer=%q)", gsType, g.mu, g.count, g.ptr)
	}

	// the constructor installs the sentinel and nothing else
	ctor := funcs["New"+gsType]
	if ctor == nil {
		gsFail(nil, "constructor New%s not found", gsType)
	}
	g.sentinel = gsCtor(g, ctor)
	g.funcs, g.inlined = funcs, map[string]bool{}
	sentinelHelper := gsSentinelInit(g, pkgVars, funcs["init"], file)
	// ... and so does every other file of the package
	dir := filepath.Dir(path)
	ents, err := os.ReadDir(dir)
	if err != nil {
		fail("%v", err)
	}
	for _, e := range ents {
		n := e.Name()
		if e.IsDir() || !strings.HasSuffix(n, ".go") || strings.HasSuffix(n, "_test.go") || n == filepath.Base(path) {
			continue
		}
		other, err := parser.ParseFile(fset, filepath.Join(dir, n), nil, 0)
		if err != nil {
			fail("%v", err)
		}
		for _, d := range other.Decls {
			if fd, ok := d.(*ast.FuncDecl); ok && fd.Body != nil {
				if gsIsMethod(fd) {
					gsFail(fd, "method %s.%s declared outside %s", gsType, fd.Name.Name, gsFile)
				}
				gsHandsOff(g, fd, n+":"+fd.Name.Name)
			}
		}
	}

	want := map[string]string{
		"Add":   "func Add(delta int) int",
		"Wait":  "func Wait() <-chan struct{}",
		"Count": "func Count() int",
		"Inc":   "func Inc() int",
		"Dec":   "func Dec() int",
	}
	for _, n := range []string{"Add", "Wait", "Count", "Inc", "Dec"} {
		fd := funcs[gsType+"."+n]
		if fd == nil {
			gsFail(nil, "method %s.%s not found", gsType, n)
		}
		if _, ok := fd.Recv.List[0].Type.(*ast.StarExpr); !ok || gsRecvName(fd) == "" || gsRecvName(fd) == "_" {
			gsFail(fd, "%s: a named pointer receiver is expected", n)
		}
		sig := gsSig(fd)
		if n == "Add" && len(fd.Type.Params.List) == 1 && len(fd.Type.Params.List[0].Names) == 1 {
			// the parameter may have any name
			sig = strings.Replace(sig, "("+fd.Type.Params.List[0].Names[0].Name+" int)", "(delta int)", 1)
		}
		if sig != want[n] {
			gsFail(fd, "%s has signature `%s`, the model's call is `%s`", n, gsSig(fd), want[n])
		}
	}

	addEntry, addM := g.method(funcs[gsType+".Add"], "int")
	waitEntry, waitM := g.method(funcs[gsType+".Wait"], "chan")
	countEntry, countM := g.method(funcs[gsType+".Count"], "int")
	incD := gsAddCall(funcs[gsType+".Inc"])
	decD := gsAddCall(funcs[gsType+".Dec"])

	// every other function of the file keeps its hands off the state (and off the inlined helpers)
	modelled := map[string]bool{gsType + ".Add": true, gsType + ".Wait": true, gsType + ".Count": true, gsType + ".Inc": true,
		gsType + ".Dec": true, "New" + gsType: true, "init": true}
	if sentinelHelper != "" {
		modelled[sentinelHelper] = true
	}
	keys := make([]string, 0, len(funcs))
	for k := range funcs {
		keys = append(keys, k)
	}
	sort.Strings(keys)
	for _, k := range keys {
		if !modelled[k] && !g.inlined[k] {
			gsHandsOff(g, funcs[k], k)
		}
	}

	// number the nodes: depth first from the three entries, successor before branches, then before else
	var order []*gsNode
	var visit func(n *gsNode) *gsNode
	visit = func(n *gsNode) *gsNode {
		n = gsResolve(n)
		if n == nil {
			gsFail(nil, "internal: dangling edge")
		}
		if n.visited {
			return n
		}
		n.visited = true
		n.id = len(order)
		order = append(order, n)
		switch n.kind {
		case "branch":
			n.t = visit(n.t)
			n.e = visit(n.e)
		case "retInt", "retChan":
		default:
			n.nx = visit(n.nx)
		}
		return n
	}
	addEntry = visit(addEntry)
	waitEntry = visit(waitEntry)
	countEntry = visit(countEntry)

	var b strings.Builder
	b.WriteString("import Model.GSyncCfg\n")
	b.WriteString("/-! REGENERATED on every run by harness/cmd/go2lean -spec gsync from " + gsFile + ".\nDo not edit.  The control-flow graph of Add, Wait, Count in the vocabulary of Model/GSyncCfg.lean: one node\nper visible operation (mutex / atomic / close), per thread-local make, per Go condition, per return (a\ndeferred Unlock is a node in front of the return).  Checked while reading: " + gsType + " has exactly a\nsync.Mutex (`" + g.mu + "`), an atomic.Int64 (`" + g.count + "`) and an atomic.Pointer[chan struct{}] (`" + g.ptr + "`); the constructor\nstores `&" + g.sentinel + "` (closed once, in init) and nothing else; no other function of the package touches them.\n\n")
	for _, m := range []*gsMethod{addM, waitM, countM} {
		fmt.Fprintf(&b, "locals of %s:", m.name)
		for i, n := range m.names {
			fmt.Fprintf(&b, " %d=%s", i, strings.ReplaceAll(n, "-/", "- /"))
		}
		b.WriteString("\n")
	}
	b.WriteString("-/\nnamespace Generated.GoGSync\nopen GSyncCfg\n\n")
	b.WriteString("def node : Nat → Option Node\n")
	for _, n := range order {
		var body string
		switch n.kind {
		case "lock", "unlock":
			body = fmt.Sprintf(".%s %d", n.kind, n.nx.id)
		case "ctrAdd", "ptrSwap":
			body = fmt.Sprintf(".%s %s %d %d", n.kind, n.a, n.x, n.nx.id)
		case "ctrLoad", "ptrLoad", "make":
			body = fmt.Sprintf(".%s %d %d", n.kind, n.x, n.nx.id)
		case "ptrCAS":
			body = fmt.Sprintf(".ptrCAS %s %s %d %d", n.a, n.b, n.x, n.nx.id)
		case "close":
			body = fmt.Sprintf(".close %s %d", n.a, n.nx.id)
		case "branch":
			body = fmt.Sprintf(".branch %s %d %d", n.a, n.t.id, n.e.id)
		case "retInt", "retChan":
			body = fmt.Sprintf(".%s %s", n.kind, n.a)
		}
		fmt.Fprintf(&b, "  | %d => some (%s)  -- %s\n", n.id, body, strings.ReplaceAll(n.src, "\n", " "))
	}
	b.WriteString("  | _ => none\n\n")
	fmt.Fprintf(&b, "def cfg : Cfg := { node := node, size := %d, addEntry := %d, addParam := 0, waitEntry := %d, countEntry := %d }\n\n",
		len(order), addEntry.id, waitEntry.id, countEntry.id)
	fmt.Fprintf(&b, "/-- `Inc()` is `Add(incDelta)`, `Dec()` is `Add(decDelta)` -/\ndef incDelta : Int := %d\ndef decDelta : Int := %d\n\n", incD, decD)
	b.WriteString("end Generated.GoGSync\n")
	if err := os.WriteFile(out, []byte(b.String()), 0o644); err != nil {
		fail("%v", err)
	}
}

// gsCtor checks the constructor and returns the name of the sentinel channel it installs.
func gsCtor(g *gsFileInfo, fd *ast.FuncDecl) string {
	sentinel := ""
	stores := 0
	ast.Inspect(fd.Body, func(n ast.Node) bool {
		switch x := n.(type) {
		case *ast.CallExpr:
			s1, ok := x.Fun.(*ast.SelectorExpr)
			if !ok {
				break
			}
			s2, ok := s1.X.(*ast.SelectorExpr)
			if !ok {
				break
			}
			if s2.Sel.Name == g.mu || s2.Sel.Name == g.count || s2.Sel.Name == g.ptr {
				if s2.Sel.Name == g.ptr && s1.Sel.Name == "Store" && len(x.Args) == 1 {
					if u, ok := x.Args[0].(*ast.UnaryExpr); ok && u.Op == token.AND {
						if id, ok := u.X.(*ast.Ident); ok {
							sentinel = id.Name
							stores++
							return true
						}
					}
				}
				gsFail(x, "the constructor does `%s`; the model's initial state is count 0, the sentinel installed, the mutex free", src(x))
			}
		case *ast.KeyValueExpr:
			if k, ok := x.Key.(*ast.Ident); ok && (k.Name == g.mu || k.Name == g.count || k.Name == g.ptr) {
				if cl, ok := x.Value.(*ast.CompositeLit); !ok || len(cl.Elts) != 0 {
					gsFail(x, "the constructor initialises `%s` with something other than a zero value", src(x))
				}
			}
		case *ast.GoStmt, *ast.FuncLit:
			gsFail(x, "the constructor starts a goroutine / uses a function literal")
		}
		return true
	})
	if stores != 1 {
		gsFail(fd, "the constructor must store the address of the package-level closed channel into `%s` exactly once", g.ptr)
	}
	return sentinel
}

// gsSentinelInit: the sentinel is a package-level channel that is made and closed before any group
// exists and assigned nowhere else.  Accepted: `var S chan struct{}` + `func init() { S = make(chan struct{});
// close(S) }`, or `var S = f()` / `var S = func() chan struct{} {...}()` where the function body is
// `c := make(chan struct{}); close(c); return c`.  Returns the name of the helper function f, if any.
func gsSentinelInit(g *gsFileInfo, vars []*ast.ValueSpec, initFn *ast.FuncDecl, file *ast.File) string {
	helper := ""
	madeClosed := func(body *ast.BlockStmt) bool {
		if body == nil || len(body.List) != 3 {
			return false
		}
		a, ok := body.List[0].(*ast.AssignStmt)
		if !ok || a.Tok != token.DEFINE || len(a.Lhs) != 1 || len(a.Rhs) != 1 || src(a.Rhs[0]) != "make(chan struct{})" {
			return false
		}
		c := src(a.Lhs[0])
		return src(body.List[1]) == "close("+c+")" && src(body.List[2]) == "return "+c
	}
	found := false
	for _, v := range vars {
		for _, n := range v.Names {
			if n.Name != g.sentinel {
				continue
			}
			found = true
			if len(v.Names) != 1 {
				gsFail(v, "`%s` is declared together with other variables", g.sentinel)
			}
			if len(v.Values) == 0 {
				if v.Type == nil || src(v.Type) != "chan struct{}" {
					gsFail(v, "`%s` is expected to be a `chan struct{}`", g.sentinel)
				}
				if initFn == nil || len(initFn.Body.List) != 2 ||
					src(initFn.Body.List[0]) != g.sentinel+" = make(chan struct{})" || src(initFn.Body.List[1]) != "close("+g.sentinel+")" {
					gsFail(v, "init() is expected to be `%s = make(chan struct{}); close(%s)` (the sentinel is closed before any group exists)", g.sentinel, g.sentinel)
				}
				continue
			}
			if v.Type != nil && src(v.Type) != "chan struct{}" {
				gsFail(v, "`%s` is expected to be a `chan struct{}`", g.sentinel)
			}
			call, ok := v.Values[0].(*ast.CallExpr)
			if !ok || len(call.Args) != 0 {
				gsFail(v, "initialiser of `%s` is outside the recognised forms", g.sentinel)
			}
			switch f := call.Fun.(type) {
			case *ast.FuncLit:
				if f.Type.Params.NumFields() != 0 || f.Type.Results.NumFields() != 1 || src(f.Type.Results.List[0].Type) != "chan struct{}" || !madeClosed(f.Body) {
					gsFail(v, "initialiser of `%s` is not `make; close; return`", g.sentinel)
				}
			case *ast.Ident:
				fd := g.funcs[f.Name]
				if fd == nil || fd.Type.Params.NumFields() != 0 || fd.Type.Results.NumFields() != 1 || src(fd.Type.Results.List[0].Type) != "chan struct{}" || !madeClosed(fd.Body) {
					gsFail(v, "initialiser `%s()` of `%s` is not a function of this file that is `make; close; return`", f.Name, g.sentinel)
				}
				helper = f.Name
			default:
				gsFail(v, "initialiser of `%s` is outside the recognised forms", g.sentinel)
			}
			if initFn != nil {
				gsHandsOff(g, initFn, "init")
			}
		}
	}
	if !found {
		gsFail(nil, "the channel `%s` installed by the constructor is not a package-level variable of this file", g.sentinel)
	}
	for _, d := range file.Decls {
		fd, ok := d.(*ast.FuncDecl)
		if !ok || fd.Body == nil || fd == initFn {
			continue
		}
		ast.Inspect(fd.Body, func(n ast.Node) bool {
			if a, ok := n.(*ast.AssignStmt); ok && a.Tok != token.DEFINE {
				for _, l := range a.Lhs {
					if id, ok := unparen(l).(*ast.Ident); ok && id.Name == g.sentinel {
						gsFail(a, "`%s` assigns the sentinel channel", src(a))
					}
				}
			}
			return true
		})
	}
	return helper
}

// gsHandsOff: a function outside the modelled program may call the modelled methods but not touch the fields or the sentinel.
func gsHandsOff(g *gsFileInfo, fd *ast.FuncDecl, name string) {
	ast.Inspect(fd.Body, func(n ast.Node) bool {
		switch x := n.(type) {
		case *ast.SelectorExpr:
			if x.Sel.Name == g.mu || x.Sel.Name == g.count || x.Sel.Name == g.ptr {
				gsFail(x, "%s uses `%s`: it touches the group's state but is not part of the modelled program (Add, Wait, Count, Inc, Dec and the parameterless helpers they call as statements)", name, src(x))
			}
			if g.inlined[gsType+"."+x.Sel.Name] {
				gsFail(x, "%s calls `%s`, a helper of Add / Wait / Count, from outside the modelled program", name, src(x))
			}
		case *ast.Ident:
			if x.Name == g.sentinel {
				gsFail(x, "%s uses the sentinel `%s` but is not part of the modelled program", name, x.Name)
			}
		}
		return true
	})
}

// gsAddCall: the body is `return recv.Add(<literal>)`; returns the literal.
func gsAddCall(fd *ast.FuncDecl) int64 {
	if len(fd.Body.List) == 1 {
		if r, ok := fd.Body.List[0].(*ast.ReturnStmt); ok && len(r.Results) == 1 {
			if c, ok := r.Results[0].(*ast.CallExpr); ok && len(c.Args) == 1 {
				if s, ok := c.Fun.(*ast.SelectorExpr); ok && s.Sel.Name == "Add" {
					if id, ok := s.X.(*ast.Ident); ok && id.Name == gsRecvName(fd) {
						arg := src(c.Args[0])
						if v, err := strconv.ParseInt(strings.ReplaceAll(arg, " ", ""), 10, 64); err == nil {
							return v
						}
					}
				}
			}
		}
	}
	gsFail(fd, "%s is expected to be `return %s.Add(<integer literal>)`", fd.Name.Name, gsRecvName(fd))
	return 0
}

import Model.Gencommon
import Lemmas.GencommonMerge
/-!
# Lemmas for C19 (c): type references and the import table

`Active ih path alias`: the table has an in-use entry for `path` under `alias`.  `Le ih ih'`: the
handler only grew (same current package, active entries stay active under the same alias).  The
main result `extract_ok` is by mutual structural induction over `GoType`.
-/
namespace Gencommon

/-- the import table has an in-use entry for `path` under `alias` -/
def Active (ih : IH) (path alias : Name) : Prop :=
  ∃ i ∈ ih.imports, i.path = path ∧ i.alias = alias ∧ i.inUse = true

theorem markUsed_mem {p : Name} : ∀ (is : List ImportDesc) (i : ImportDesc), i ∈ is →
    ∃ j ∈ markUsed p is, j.path = i.path ∧ j.alias = i.alias ∧ (i.inUse = true → j.inUse = true) := by
  intro is
  induction is with
  | nil => intro i h; cases h
  | cons x xs ih =>
    intro i h
    simp only [markUsed]
    rcases List.mem_cons.1 h with rfl | h
    · by_cases hp : i.path = p
      · simp only [hp, if_true]
        exact ⟨_, List.mem_cons_self, hp.symm ▸ rfl, rfl, fun _ => rfl⟩
      · simp only [hp, if_false]
        exact ⟨i, List.mem_cons_self, rfl, rfl, id⟩
    · by_cases hp : x.path = p
      · simp only [hp, if_true]
        exact ⟨i, List.mem_cons_of_mem _ h, rfl, rfl, id⟩
      · simp only [hp, if_false]
        obtain ⟨j, hj, h1⟩ := ih i h
        exact ⟨j, List.mem_cons_of_mem _ hj, h1⟩

theorem markUsed_found {p : Name} : ∀ (is : List ImportDesc) (i : ImportDesc),
    is.find? (fun i => i.path = p) = some i →
    ∃ j ∈ markUsed p is, j.path = p ∧ j.alias = i.alias ∧ j.inUse = true := by
  intro is
  induction is with
  | nil => intro i h; simp at h
  | cons x xs ih =>
    intro i h
    simp only [markUsed]
    by_cases hp : x.path = p
    · simp only [List.find?_cons, hp, decide_true] at h
      simp only [hp, if_true]
      cases h
      exact ⟨_, List.mem_cons_self, rfl, rfl, rfl⟩
    · simp only [List.find?_cons, hp, decide_false] at h
      simp only [hp, if_false]
      obtain ⟨j, hj, h1⟩ := ih i h
      exact ⟨j, List.mem_cons_of_mem _ hj, h1⟩

/-- an entry that was active stays active under the same alias -/
theorem addImport_mono (ih : IH) (q nm : Name) (p a : Name) (h : Active ih p a) :
    Active (addImport ih q nm).1 p a := by
  unfold addImport
  split
  · exact h
  · split
    · obtain ⟨i, hi, h1, h2, h3⟩ := h
      obtain ⟨j, hj, e1, e2, e3⟩ := markUsed_mem (p := q) ih.imports i hi
      exact ⟨j, hj, e1.trans h1, e2.trans h2, e3 h3⟩
    · obtain ⟨i, hi, h1⟩ := h
      exact ⟨i, List.mem_append_left _ hi, h1⟩

/-- **needed import, one reference.** Referring to a named type of package `q`: no qualifier iff
`q` is the current package; otherwise the qualifier printed is the alias of an entry for `q` that
is in use afterwards. -/
theorem addImport_active (ih : IH) (q nm : Name) :
    (q = ih.cur → (addImport ih q nm).2 = none ∧ (addImport ih q nm).1 = ih) ∧
    (q ≠ ih.cur → ∃ a, (addImport ih q nm).2 = some a ∧ Active (addImport ih q nm).1 q a) := by
  constructor
  · intro h; simp [addImport, h]
  · intro h
    unfold addImport
    simp only [h, if_false]
    split
    · rename_i i hf
      obtain ⟨j, hj, h1⟩ := markUsed_found ih.imports i hf
      exact ⟨i.alias, rfl, j, hj, h1⟩
    · refine ⟨_, rfl, _, List.mem_append_right _ List.mem_cons_self, ?_, rfl, ?_⟩
      · split <;> rfl
      · split <;> rfl

/-- the current package never changes -/
theorem addImport_cur (ih : IH) (q nm : Name) : (addImport ih q nm).1.cur = ih.cur := by
  unfold addImport
  split
  · rfl
  · split <;> rfl


/-- the aliases of the active imports are pairwise distinct (otherwise the import block of the
rendered file does not compile) -/
def DistinctAliases (ih : IH) : Prop := (ih.active.map (·.alias)).Nodup

theorem filter_alias_singleton : ∀ (l : List ImportDesc) (i : ImportDesc),
    (l.map (·.alias)).Nodup → i ∈ l → l.filter (fun j => j.alias = i.alias) = [i] := by
  intro l
  induction l with
  | nil => intro i _ h; cases h
  | cons x xs ih =>
    intro i hn hi
    simp only [List.map_cons, List.nodup_cons] at hn
    rcases List.mem_cons.1 hi with rfl | hi
    · have : xs.filter (fun j => j.alias = i.alias) = [] := by
        rw [List.filter_eq_nil_iff]
        intro j hj
        simp only [decide_eq_true_eq]
        intro e
        exact hn.1 (e ▸ List.mem_map_of_mem hj)
      simp [List.filter_cons, this]
    · have hne : ¬ x.alias = i.alias := by
        intro e
        exact hn.1 (e ▸ List.mem_map_of_mem hi)
      simp only [List.filter_cons, hne, decide_false, Bool.false_eq_true, if_false]
      exact ih i hn.2 hi

/-- with distinct aliases, a qualifier resolves to the package of the active entry carrying it -/
theorem resolve_of_active {ih : IH} (hd : DistinctAliases ih) {p a : Name} (h : Active ih p a) :
    resolveAlias ih.active a = some p := by
  obtain ⟨i, hi, h1, h2, h3⟩ := h
  have hm : i ∈ ih.active := List.mem_filter.2 ⟨hi, h3⟩
  have := filter_alias_singleton ih.active i hd hm
  unfold resolveAlias
  rw [← h2, this]
  simp only [h1]

/-- the handler only grew -/
def Le (ih ih' : IH) : Prop := ih'.cur = ih.cur ∧ ∀ p a, Active ih p a → Active ih' p a

theorem Le.refl (ih : IH) : Le ih ih := ⟨rfl, fun _ _ h => h⟩

theorem Le.trans {a b c : IH} (h1 : Le a b) (h2 : Le b c) : Le a c :=
  ⟨h2.1.trans h1.1, fun p x h => h2.2 p x (h1.2 p x h)⟩

theorem addImport_le (ih : IH) (q nm : Name) : Le ih (addImport ih q nm).1 :=
  ⟨addImport_cur ih q nm, fun p a h => addImport_mono ih q nm p a h⟩

mutual
/-- the import paths a type mentions -/
def pathsOf : GoType → List Name
  | .basic _ => []
  | .other _ => []
  | .ptr e => pathsOf e
  | .slice e => pathsOf e
  | .array _ e => pathsOf e
  | .map k v => pathsOf k ++ pathsOf v
  | .named path _ _ targs => path :: pathsOfL targs
  | .func ps _ rs => pathsOfPs ps ++ pathsOfPs rs
def pathsOfL : List GoType → List Name
  | [] => []
  | t :: ts => pathsOf t ++ pathsOfL ts
def pathsOfPs : List (Name × GoType) → List Name
  | [] => []
  | p :: ps => pathsOf p.2 ++ pathsOfPs ps
end

theorem denotePs_zipNames (cur : Name) (act : List ImportDesc) :
    ∀ (nm : List P) (ts : List TExpr), nm.length = ts.length →
    denotePs cur act (zipNames nm ts) = denoteL cur act ts := by
  intro nm
  induction nm with
  | nil => intro ts h; cases ts with
    | nil => simp [zipNames, denotePs, denoteL]
    | cons _ _ => simp at h
  | cons n nm ih =>
    intro ts h
    cases ts with
    | nil => simp at h
    | cons t ts =>
      have := ih ts (by simpa using h)
      simp only [zipNames, List.zip_cons_cons, List.map_cons, denotePs, denoteL] at this ⊢
      rw [this]

/-- the only thing the type-reference theorems need from parameter naming: it keeps the number of
parameters -/
def LenOK (gs : List P → List P → List P × List P) : Prop :=
  ∀ ins outs, (gs ins outs).1.length = ins.length

mutual
/-- `ExtractTypeRef` on any type term, from any handler state: the handler only grows; every
package the term mentions (other than the current one) is active afterwards; and in ANY later
handler state with pairwise distinct active aliases the rendered reference denotes the identical
type -/
theorem extract_ok (gs : List P → List P → List P × List P) (hgs : LenOK gs) :
    ∀ (t : GoType) (ih : IH),
    Le ih (extract gs ih t).1 ∧
    (∀ p ∈ pathsOf t, p ≠ ih.cur → ∃ a, Active (extract gs ih t).1 p a) ∧
    (∀ ihF, Le (extract gs ih t).1 ihF → DistinctAliases ihF →
      denote ih.cur ihF.active (extract gs ih t).2 = some (sem t))
  | .basic n, ih => by
    simp only [extract, pathsOf, sem, denote]
    exact ⟨Le.refl ih, fun _ h => absurd h (List.not_mem_nil), fun _ _ _ => trivial⟩
  | .other n, ih => by
    simp only [extract, pathsOf, sem, denote]
    exact ⟨Le.refl ih, fun _ h => absurd h (List.not_mem_nil), fun _ _ _ => trivial⟩
  | .ptr e, ih => by
    obtain ⟨h1, h2, h3⟩ := extract_ok gs hgs e ih
    simp only [extract, pathsOf, sem, denote]
    refine ⟨h1, h2, fun ihF hle hd => ?_⟩
    rw [h3 ihF hle hd]; rfl
  | .slice e, ih => by
    obtain ⟨h1, h2, h3⟩ := extract_ok gs hgs e ih
    simp only [extract, pathsOf, sem, denote]
    refine ⟨h1, h2, fun ihF hle hd => ?_⟩
    rw [h3 ihF hle hd]; rfl
  | .array k e, ih => by
    obtain ⟨h1, h2, h3⟩ := extract_ok gs hgs e ih
    simp only [extract, pathsOf, sem, denote]
    refine ⟨h1, h2, fun ihF hle hd => ?_⟩
    rw [h3 ihF hle hd]; rfl
  | .map k v, ih => by
    obtain ⟨a1, a2, a3⟩ := extract_ok gs hgs k ih
    obtain ⟨b1, b2, b3⟩ := extract_ok gs hgs v (extract gs ih k).1
    simp only [extract, pathsOf, sem, denote]
    refine ⟨a1.trans b1, ?_, ?_⟩
    · intro p hp hne
      rcases List.mem_append.1 hp with hp | hp
      · obtain ⟨a, ha⟩ := a2 p hp hne
        exact ⟨a, b1.2 p a ha⟩
      · exact b2 p hp (by rw [a1.1]; exact hne)
    · intro ihF hle hd
      have hb := b3 ihF hle hd
      rw [a1.1] at hb
      rw [a3 ihF (b1.trans hle) hd, hb]
  | .named path pkgName n targs, ih => by
    obtain ⟨r1, r2, r3⟩ := extractL_ok gs hgs targs (addImport ih path pkgName).1
    have hle := addImport_le ih path pkgName
    have hact := addImport_active ih path pkgName
    simp only [extract, pathsOf, sem]
    refine ⟨hle.trans r1, ?_, ?_⟩
    · intro p hp hne
      rcases List.mem_cons.1 hp with rfl | hp
      · obtain ⟨a, _, ha⟩ := hact.2 hne
        exact ⟨a, r1.2 _ a ha⟩
      · exact r2 p hp (by rw [hle.1]; exact hne)
    · intro ihF hleF hd
      have hl := r3 ihF hleF hd
      rw [hle.1] at hl
      by_cases hc : path = ih.cur
      · rw [(hact.1 hc).1]
        simp only [denote]
        rw [hl, hc]; rfl
      · obtain ⟨a, ha2, ha⟩ := hact.2 hc
        rw [ha2]
        simp only [denote]
        rw [resolve_of_active hd (hleF.2 _ _ (r1.2 _ _ ha)), hl]
  | .func ps v rs, ih => by
    obtain ⟨a1, a2, a3⟩ := extractPs_ok gs hgs ps ih
    obtain ⟨b1, b2, b3⟩ := extractPs_ok gs hgs rs (extractPs gs ih ps).1
    simp only [extract, pathsOf, sem, denote]
    refine ⟨a1.trans b1, ?_, ?_⟩
    · intro p hp hne
      rcases List.mem_append.1 hp with hp | hp
      · obtain ⟨a, ha⟩ := a2 p hp hne
        exact ⟨a, b1.2 p a ha⟩
      · exact b2 p hp (by rw [a1.1]; exact hne)
    · intro ihF hle hd
      have hb := b3 ihF hle hd
      rw [a1.1] at hb
      rw [denotePs_zipNames _ _ _ _ (by rw [hgs]; simp), a3 ihF (b1.trans hle) hd, hb]
theorem extractL_ok (gs : List P → List P → List P × List P) (hgs : LenOK gs) :
    ∀ (ts : List GoType) (ih : IH),
    Le ih (extractL gs ih ts).1 ∧
    (∀ p ∈ pathsOfL ts, p ≠ ih.cur → ∃ a, Active (extractL gs ih ts).1 p a) ∧
    (∀ ihF, Le (extractL gs ih ts).1 ihF → DistinctAliases ihF →
      denoteL ih.cur ihF.active (extractL gs ih ts).2 = some (semL ts))
  | [], ih => by
    simp only [extractL, pathsOfL, semL, denoteL]
    exact ⟨Le.refl ih, fun _ h => absurd h (List.not_mem_nil), fun _ _ _ => trivial⟩
  | t :: ts, ih => by
    obtain ⟨a1, a2, a3⟩ := extract_ok gs hgs t ih
    obtain ⟨b1, b2, b3⟩ := extractL_ok gs hgs ts (extract gs ih t).1
    simp only [extractL, pathsOfL, semL, denoteL]
    refine ⟨a1.trans b1, ?_, ?_⟩
    · intro p hp hne
      rcases List.mem_append.1 hp with hp | hp
      · obtain ⟨a, ha⟩ := a2 p hp hne
        exact ⟨a, b1.2 p a ha⟩
      · exact b2 p hp (by rw [a1.1]; exact hne)
    · intro ihF hle hd
      have hb := b3 ihF hle hd
      rw [a1.1] at hb
      rw [a3 ihF (b1.trans hle) hd, hb]
theorem extractPs_ok (gs : List P → List P → List P × List P) (hgs : LenOK gs) :
    ∀ (ps : List (Name × GoType)) (ih : IH),
    Le ih (extractPs gs ih ps).1 ∧
    (∀ p ∈ pathsOfPs ps, p ≠ ih.cur → ∃ a, Active (extractPs gs ih ps).1 p a) ∧
    (∀ ihF, Le (extractPs gs ih ps).1 ihF → DistinctAliases ihF →
      denoteL ih.cur ihF.active ((extractPs gs ih ps).2.map (·.2)) = some (semPs ps))
  | [], ih => by
    simp only [extractPs, pathsOfPs, semPs, denoteL, List.map_nil]
    exact ⟨Le.refl ih, fun _ h => absurd h (List.not_mem_nil), fun _ _ _ => trivial⟩
  | q :: ps, ih => by
    obtain ⟨a1, a2, a3⟩ := extract_ok gs hgs q.2 ih
    obtain ⟨b1, b2, b3⟩ := extractPs_ok gs hgs ps (extract gs ih q.2).1
    simp only [extractPs, pathsOfPs, semPs, denoteL, List.map_cons]
    refine ⟨a1.trans b1, ?_, ?_⟩
    · intro p hp hne
      rcases List.mem_append.1 hp with hp | hp
      · obtain ⟨a, ha⟩ := a2 p hp hne
        exact ⟨a, b1.2 p a ha⟩
      · exact b2 p hp (by rw [a1.1]; exact hne)
    · intro ihF hle hd
      have hb := b3 ihF hle hd
      rw [a1.1] at hb
      rw [a3 ihF (b1.trans hle) hd, hb]
end

/-! ### parameter naming keeps the number of parameters -/

theorem keepNamed_length (gs : Deduper → Name → Bool → Name × Deduper) :
    ∀ (ps : List P) (d : Deduper), (keepNamed gs d ps).1.length = ps.length := by
  intro ps
  induction ps with
  | nil => intro d; rfl
  | cons p ps ih =>
    intro d
    simp only [keepNamed]
    split <;> simp [ih]

theorem fillBlank_length (gs : Deduper → Name → Bool → Name × Deduper) (isOut : Bool) (len : Nat) :
    ∀ (ps : List P) (d : Deduper) (i : Nat), (fillBlank gs isOut len d i ps).1.length = ps.length := by
  intro ps
  induction ps with
  | nil => intro d i; rfl
  | cons p ps ih =>
    intro d i
    simp only [fillBlank]
    split <;> simp [ih]

theorem ensureParamNames_length (ins outs : List P) :
    (ensureParamNames ins outs).1.length = ins.length ∧
    (ensureParamNames ins outs).2.length = outs.length := by
  simp only [ensureParamNames, fillBlank_length, keepNamed_length, and_self]

theorem ensureParamNamesLegacy_length (ins outs : List P) :
    (ensureParamNamesLegacy ins outs).1.length = ins.length ∧
    (ensureParamNamesLegacy ins outs).2.length = outs.length := by
  simp only [ensureParamNamesLegacy, ensureNamesLegacy, fillBlank_length, keepNamed_length, and_self]

theorem lenOK_ensureParamNames : LenOK ensureParamNames :=
  fun ins outs => (ensureParamNames_length ins outs).1

theorem lenOK_ensureParamNamesLegacy : LenOK ensureParamNamesLegacy :=
  fun ins outs => (ensureParamNamesLegacy_length ins outs).1

theorem zipNames_map_snd {α : Type} : ∀ (nm : List P) (ts : List α), nm.length = ts.length →
    (zipNames nm ts).map (·.2) = ts := by
  intro nm
  induction nm with
  | nil => intro ts h; cases ts with
    | nil => rfl
    | cons _ _ => simp at h
  | cons n nm ih =>
    intro ts h
    cases ts with
    | nil => simp at h
    | cons t ts =>
      have := ih ts (by simpa using h)
      simp only [zipNames, List.zip_cons_cons, List.map_cons] at this ⊢
      rw [this]

/-- `MethodFromSignature` on any signature: the handler only grows, every mentioned package is
active afterwards, and in any later handler state with distinct active aliases the rendered
parameter and result types denote the identical types, position by position -/
theorem methodFromSignature_ok (gs : List P → List P → List P × List P) (hgs : LenOK gs)
    (hgs2 : ∀ ins outs, (gs ins outs).2.length = outs.length) (ih : IH) (s : Sig) :
    Le ih (methodFromSignature gs ih s).1 ∧
    (∀ p ∈ pathsOfPs s.params ++ pathsOfPs s.results, p ≠ ih.cur →
      ∃ a, Active (methodFromSignature gs ih s).1 p a) ∧
    (∀ ihF, Le (methodFromSignature gs ih s).1 ihF → DistinctAliases ihF →
      denoteL ih.cur ihF.active ((methodFromSignature gs ih s).2.input.map (·.2)) = some (semPs s.params) ∧
      denoteL ih.cur ihF.active ((methodFromSignature gs ih s).2.output.map (·.2)) = some (semPs s.results)) := by
  obtain ⟨a1, a2, a3⟩ := extractPs_ok gs hgs s.params ih
  obtain ⟨b1, b2, b3⟩ := extractPs_ok gs hgs s.results (extractPs gs ih s.params).1
  simp only [methodFromSignature]
  refine ⟨a1.trans b1, ?_, ?_⟩
  · intro p hp hne
    rcases List.mem_append.1 hp with hp | hp
    · obtain ⟨a, ha⟩ := a2 p hp hne
      exact ⟨a, b1.2 p a ha⟩
    · exact b2 p hp (by rw [a1.1]; exact hne)
  · intro ihF hle hd
    have hb := b3 ihF hle hd
    rw [a1.1] at hb
    rw [zipNames_map_snd _ _ (by rw [hgs]; simp), zipNames_map_snd _ _ (by rw [hgs2]; simp)]
    exact ⟨a3 ihF (b1.trans hle) hd, hb⟩

/-! ### lifted through `namedTypeToInterface` -/

/-- the rendered method `y` stems from a signature declared in the tree and was produced by
`MethodFromSignature` in a handler state that `ih` extends -/
def FromSig (gs : List P → List P → List P × List P) (t : Ty GoType Sig) (ih : IH)
    (y : Name × RMeth) : Prop :=
  ∃ (s : Sig) (ih0 : IH), (y.1, s) ∈ allMeths t ∧ y.2 = (methodFromSignature gs ih0 s).2 ∧
    Le (methodFromSignature gs ih0 s).1 ih

theorem nti_fromSig (gs : List P → List P → List P × List P) (hgs : LenOK gs)
    (hgs2 : ∀ ins outs, (gs ins outs).2.length = outs.length) (propagate : Bool) (o : Opts)
    (ih : IH) (t : Ty GoType Sig) :
    Le ih (nti (fun ih self => (extract gs ih self).1) (methodFromSignature gs) propagate o ih t).1 ∧
    ∀ y ∈ (nti (fun ih self => (extract gs ih self).1) (methodFromSignature gs) propagate o ih t).2.methods,
      FromSig gs t
        (nti (fun ih self => (extract gs ih self).1) (methodFromSignature gs) propagate o ih t).1 y := by
  apply nti_inv Le Le.refl (fun _ _ _ h1 h2 => Le.trans h1 h2) _ _ (FromSig gs t)
    (fun s r => (extract_ok gs hgs r s).1)
    (fun s x => (methodFromSignature_ok gs hgs hgs2 s x).1)
  · rintro s s' y hle ⟨sg, ih0, h1, h2, h3⟩
    exact ⟨sg, ih0, h1, h2, h3.trans hle⟩
  · intro m hm s
    exact ⟨m.2, s, hm, rfl, Le.refl _⟩

end Gencommon

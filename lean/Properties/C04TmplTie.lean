import Model.Genum
import Model.TmplX
import Generated.GoGenumValues
import Generated.GenumTmpl
import Lemmas.GenumTraits
import Properties.C04
import Properties.C04Tie
/-!
# C04 / C12, tie A for the template: the sections of enumTemplate.gotmpl as extracted on this run

`Generated/GenumTmpl.lean` is rewritten from /repo's `genum/gen/enumTemplate.gotmpl` by
`harness/cmd/go2lean -spec genumtmpl` on every run: the body of `range $i, $enumTypeName := .Types` cut
into the Go declarations it writes (value table, trait accessor, IsValid, Values, StringValues, String,
ParseString, Parse<T>, ParseGeneric), each a list of `TmplX.Node` as text/template/parse produced it.

The theorems here execute those sections under the template semantics of `Model/TmplX.lean` on the data
the generator hands to the template (`goData`): the field and method names bound to the TRANSLATED
`Values.ValueDeduplicatedSet` (Generated/GoGenumValues.lean) and to the model's trait descriptors
(`TraitDesc.instanceOf`, `rows`, `parsable`).  For EVERY list of types, values, trait descriptors and every
option setting, the pieces written are exactly the Go text of the component of `Genum.GenOut` /
`Genum.TraitDesc` about which C04 / C05 / C12 are proved (`tableText`, `isValidText`, `stringText`,
`parseText`, `accessorText`: canonical printers of the model's components), and those components are read
back from the pieces (`read…`).
-/
set_option linter.unusedSimpArgs false
namespace C04TmplTie
open TmplX Genum Generated.GoGenumValues Generated.GenumTmpl C04Tie

/-! ### the data the template is executed on -/

/-- `Generate` as far as the per-type part of the template looks at it -/
structure Root where
  opts : Options
  types : List String
  values : List (List Value)
  traits : List (List TraitDesc)

/-- the Go values the template handles (strings, integers and booleans are `TmplX.Val`) -/
inductive GD where
  | root (r : Root)
  | typeNames (l : List String)
  | valuess (l : List (List GValue))
  | values (l : List GValue)
  | value (v : GValue)
  | traitss (l : List (List TraitDesc))
  | traits (l : List TraitDesc)
  | trait (t : TraitDesc)
  | rows (l : List TraitRow)
  /-- a `TraitInstance` or a non-nil `*TraitInstance` -/
  | row (r : TraitRow)
  /-- the nil `*TraitInstance` -/
  | nilRow

def optM {α : Type} : Go.M α → Option α
  | .ok a => some a
  | .error _ => none

/-- a translated `Value` read as a value of the model (`InstanceOf` compares names) -/
def conc (g : GValue) : Value :=
  { name := g.Name, value := g.Value.toNat, signed := g.Signed, deprecated := g.IsDeprecated, val := 0 }

/-- the Go expression a trait constant is written as (`TraitInstance.Value()`): the literal in an untyped
column, the conversion `T(lit)` in a typed one -/
def dynTok (d : Dyn) : String := rowText d.ty false d.v

/-- text/template's field / method lookup on those values: a name is the exported field or the method of
that name; `ValueDeduplicatedSet` is the TRANSLATED method, `InstanceOf` the model's `instanceOf`,
`LowerCaseName` is `strings.ToLower` (ASCII) -/
def goData : Data GD where
  field := fun d f => match d with
    | .root r =>
      if f = "Types" then some (.data (.typeNames r.types))
      else if f = "Values" then some (.data (.valuess (r.values.map (·.map abs))))
      else if f = "Traits" then some (.data (.traitss r.traits))
      else if f = "CaseInsensitive" then some (.bool r.opts.caseInsensitive)
      else if f = "GenJSON" then some (.bool r.opts.json)
      else if f = "GenYAML" then some (.bool r.opts.yaml)
      else if f = "GenText" then some (.bool r.opts.text)
      else none
    | .values l =>
      if f = "ValueDeduplicatedSet" then (optM (GValues.ValueDeduplicatedSet l)).map (fun r => .data (.values r))
      else none
    | .value v =>
      if f = "Name" then some (.str v.Name)
      else if f = "LowerCaseName" then some (.str (asciiLower v.Name))
      else none
    | .trait t =>
      if f = "Name" then some (.str t.name)
      else if f = "TypeRef" then some (.str t.ty)
      else if f = "Parsable" then some (.bool t.parsable)
      else if f = "Traits" then some (.data (.rows t.rows))
      else none
    | .row r =>
      if f = "Value" then some (.str (dynTok r.dyn))
      else if f = "OwningValue" then some (.data (.value (abs r.owner)))
      else none
    | _ => none
  method := fun d m args => match d, args with
    | .trait t, [.data (.value v)] =>
      if m = "InstanceOf" then
        some (match t.instanceOf (conc v) with
          | some r => .data (.row r)
          | none => .data .nilRow)
      else none
    | _, _ => none
  elems := fun d => match d with
    | .typeNames l => some (l.map .str)
    | .valuess l => some (l.map (fun vs => .data (.values vs)))
    | .values l => some (l.map (fun v => .data (.value v)))
    | .traitss l => some (l.map (fun ts => .data (.traits ts)))
    | .traits l => some (l.map (fun t => .data (.trait t)))
    | .rows l => some (l.map (fun r => .data (.row r)))
    | _ => none
  truth := fun d => match d with
    | .nilRow => some false
    | .typeNames l => some (!l.isEmpty)
    | .valuess l => some (!l.isEmpty)
    | .values l => some (!l.isEmpty)
    | .traitss l => some (!l.isEmpty)
    | .traits l => some (!l.isEmpty)
    | .rows l => some (!l.isEmpty)
    | _ => some true
  print := fun _ => none

/-- the variables of `range $i, $enumTypeName := .Types` at type number `i` named `T` -/
def typeEnv (i : Nat) (T : String) : Env GD := [(typeVar, .str T), (idxVar, .int i)]

/-- executing one section for type number `i`: inside `range $i, $enumTypeName := .Types` the variables are
the index and the name, dot is the name, `$` the generator -/
def renderSec (r : Root) (i : Nat) (T : String) (sec : List Node) : Option (List String) :=
  renderList goData (typeEnv i T ++ [("$", .data (.root r))]) (.str T) (prelude ++ sec)

/-! ### generic steps -/

theorem rangeLoop_mapped {α : Type} (f : Nat → Val GD → Option (List String)) (mk : α → Val GD)
    (g : α → List String) (l : List α) (k : Nat) (h : ∀ i a, a ∈ l → f i (mk a) = some (g a)) :
    rangeLoop f k (l.map mk) = some (l.flatMap g) := by
  induction l generalizing k with
  | nil => rfl
  | cons x xs ih =>
    simp only [List.map_cons, rangeLoop, h k x (by simp), ih (k + 1) (fun i a ha => h i a (by simp [ha])),
      List.flatMap_cons]

@[simp] theorem gd_root_values (r : Root) :
    goData.field (.root r) "Values" = some (.data (.valuess (r.values.map (·.map abs)))) := by simp [goData]
@[simp] theorem gd_root_traits (r : Root) :
    goData.field (.root r) "Traits" = some (.data (.traitss r.traits)) := by simp [goData]
@[simp] theorem gd_root_ci (r : Root) :
    goData.field (.root r) "CaseInsensitive" = some (.bool r.opts.caseInsensitive) := by simp [goData]
@[simp] theorem gd_value_name (v : GValue) : goData.field (.value v) "Name" = some (.str v.Name) := by simp [goData]
@[simp] theorem gd_value_lower (v : GValue) :
    goData.field (.value v) "LowerCaseName" = some (.str (asciiLower v.Name)) := by simp [goData]
@[simp] theorem gd_trait_name (t : TraitDesc) : goData.field (.trait t) "Name" = some (.str t.name) := by simp [goData]
@[simp] theorem gd_trait_typeRef (t : TraitDesc) : goData.field (.trait t) "TypeRef" = some (.str t.ty) := by simp [goData]
@[simp] theorem gd_trait_parsable (t : TraitDesc) :
    goData.field (.trait t) "Parsable" = some (.bool t.parsable) := by simp [goData]
@[simp] theorem gd_trait_traits (t : TraitDesc) :
    goData.field (.trait t) "Traits" = some (.data (.rows t.rows)) := by simp [goData]
@[simp] theorem gd_row_value (r : TraitRow) : goData.field (.row r) "Value" = some (.str (dynTok r.dyn)) := by simp [goData]
@[simp] theorem gd_row_owner (r : TraitRow) :
    goData.field (.row r) "OwningValue" = some (.data (.value (abs r.owner))) := by simp [goData]
@[simp] theorem gd_elems_valuess (l : List (List GValue)) :
    goData.elems (.valuess l) = some (l.map (fun vs => .data (.values vs))) := rfl
@[simp] theorem gd_elems_values (l : List GValue) :
    goData.elems (.values l) = some (l.map (fun v => .data (.value v))) := rfl
@[simp] theorem gd_elems_traitss (l : List (List TraitDesc)) :
    goData.elems (.traitss l) = some (l.map (fun ts => .data (.traits ts))) := rfl
@[simp] theorem gd_elems_traits (l : List TraitDesc) :
    goData.elems (.traits l) = some (l.map (fun t => .data (.trait t))) := rfl
@[simp] theorem gd_elems_rows (l : List TraitRow) :
    goData.elems (.rows l) = some (l.map (fun r => .data (.row r))) := rfl

@[simp] theorem abs_name (v : Value) : (abs v).Name = v.name := rfl

/-- `$values := index $.Values $i` -/
theorem values_at (r : Root) (i : Nat) (vs : List Value) (hv : r.values[i]? = some vs) :
    indexVal goData (.data (.valuess (r.values.map (·.map abs)))) [.int (i : Int)] = some (.data (.values (vs.map abs))) := by
  simp [indexVal, hv]

/-- `$traits := index $.Traits $i` -/
theorem traits_at (r : Root) (i : Nat) (ts : List TraitDesc) (ht : r.traits[i]? = some ts) :
    indexVal goData (.data (.traitss r.traits)) [.int (i : Int)] = some (.data (.traits ts)) := by
  simp [indexVal, ht]

/-- `$values.ValueDeduplicatedSet`: the TRANSLATED method, which returns the model's `dedup` -/
theorem field_dedup (vs : List Value) (hu : ∀ v ∈ vs, U64 v) :
    goData.field (.values (vs.map abs)) "ValueDeduplicatedSet" = some (.data (.values ((dedup vs).map abs))) := by
  simp [goData, go_dedup_eq vs hu, optM, pure, Except.pure]

/-- evaluate a section as far as the data allows -/
local macro "tsimp" "[" ts:Lean.Parser.Tactic.simpLemma,* "]" : tactic =>
  `(tactic| simp [renderSec, render, prelude, typeEnv, idxVar, typeVar,
      renderList_nil, renderList_text, renderList_action, renderList_assign, renderList_ite, renderList_with,
      renderList_range, evalExpr_dot, evalExpr_var, evalExpr_str, evalExpr_int, evalExpr_bool, evalExpr_field,
      evalExpr_call, evalExpr_fn, evalArgs_nil, evalArgs_cons, builtin_index, builtin_len, builtin_gt,
      lookup_cons, bindOpt, printVal, truthVal, $ts,*])

/-! ### the value table, `StringValues`, `String` -/

/-- Go text of `var _<T>Values = []<T>{ … }` with the given rows -/
def tableText (T : String) (names : List String) : List String :=
  ["\n\nvar _", T, "Values = []", T, "{"] ++ names.flatMap (fun n => ["\n\t", n, ","]) ++ ["\n}"]

theorem go_render_values_eq (r : Root) (i : Nat) (T : String) (vs : List Value)
    (ts : List TraitDesc) (hv : r.values[i]? = some vs) (ht : r.traits[i]? = some ts) (hu : ∀ v ∈ vs, U64 v) :
    renderSec r i T secTable = some (tableText T (renderWith dedup r.opts T vs).stringValues) := by
  have h1 := values_at r i vs hv
  have h2 := field_dedup vs hu
  have h3 := traits_at r i ts ht
  tsimp [h3, secTable, h1, h2]
  rw [rangeLoop_mapped (g := fun v => ["\n\t", v.name, ","])]
  · simp [tableText, renderWith, GenOut.stringValues, List.flatMap_map]
  · intro i a _; simp

/-- Go text of `StringValues()` -/
def stringValuesText (T : String) (names : List String) : List String :=
  ["\n\n// StringValues returns a list of all potential values of this enum as strings.\n// Note: This does not return duplicates.\nfunc (",
    T, ") StringValues() []string {\n\treturn []string{"] ++ names.flatMap (fun n => ["\n\t\t\"", n, "\","]) ++ ["\n\t}\n}"]

theorem go_render_stringValues_eq (r : Root) (i : Nat) (T : String) (vs : List Value)
    (ts : List TraitDesc) (hv : r.values[i]? = some vs) (ht : r.traits[i]? = some ts) (hu : ∀ v ∈ vs, U64 v) :
    renderSec r i T secStringValues = some (stringValuesText T (renderWith dedup r.opts T vs).stringValues) := by
  have h1 := values_at r i vs hv
  have h2 := field_dedup vs hu
  have h3 := traits_at r i ts ht
  tsimp [h3, secStringValues, h1, h2]
  rw [rangeLoop_mapped (g := fun v => ["\n\t\t\"", v.name, "\","])]
  · simp [stringValuesText, renderWith, GenOut.stringValues, List.flatMap_map]
  · intro i a _; simp

/-- Go text of `String()`: one `case <name>: return "<name>"` per row of the table, then the default -/
def stringText (T : String) (table : List Value) : List String :=
  ["\n\n// String returns a string representation of this enum.\n// Note: in the case of duplicate values only the first alphabetical definition will be choosen.\nfunc (e ",
    T, ") String() string {\n\tswitch e {"] ++
  table.flatMap (fun v => ["\n\tcase ", v.name, ":\n\t\treturn \"", v.name, "\""]) ++
  ["\n\tdefault:\n\t\treturn fmt.Sprintf(\"Undefined", T, ":%d\", e)\n\t}\n}"]

theorem go_render_string_eq (r : Root) (i : Nat) (T : String) (vs : List Value)
    (ts : List TraitDesc) (hv : r.values[i]? = some vs) (ht : r.traits[i]? = some ts) (hu : ∀ v ∈ vs, U64 v) :
    renderSec r i T secString = some (stringText (renderWith dedup r.opts T vs).tname (renderWith dedup r.opts T vs).table) := by
  have h1 := values_at r i vs hv
  have h2 := field_dedup vs hu
  have h3 := traits_at r i ts ht
  tsimp [h3, secString, h1, h2]
  rw [rangeLoop_mapped (g := fun v => ["\n\tcase ", v.name, ":\n\t\treturn \"", v.name, "\""])]
  · simp [stringText, renderWith]
  · intro i a _; simp

/-! ### `Values`, `ParseString`, `ParseGeneric`: text and the type name only -/

def valuesText (T : String) : List String :=
  ["\n\n// Values returns a list of all potential values of this enum.\nfunc (", T, ") Values() []", T,
    " {\n\treturn slices.Clone(_", T, "Values)\n}"]

theorem go_render_valuesFn_eq (r : Root) (i : Nat) (T : String) (vs : List Value) (ts : List TraitDesc)
    (hv : r.values[i]? = some vs) (ht : r.traits[i]? = some ts) :
    renderSec r i T secValues = some (valuesText T) := by
  have h1 := values_at r i vs hv
  have h3 := traits_at r i ts ht
  tsimp [h3, secValues, h1, valuesText]

def parseStringText (T : String) : List String :=
  ["\n\n// ParseString will return a value as defined in string form.\nfunc (e ", T, ") ParseString(text string) (", T,
    ", error) {\n\treturn Parse", T, "(text)\n}"]

theorem go_render_parseString_eq (r : Root) (i : Nat) (T : String) (vs : List Value) (ts : List TraitDesc)
    (hv : r.values[i]? = some vs) (ht : r.traits[i]? = some ts) :
    renderSec r i T secParseString = some (parseStringText T) := by
  have h1 := values_at r i vs hv
  have h3 := traits_at r i ts ht
  tsimp [h3, secParseString, h1, parseStringText]

/-! ### `IsValid`: which branch is written -/

/-- Go text of `IsValid()`: `slices.BinarySearch` on the table, or the linear scan -/
def isValidText (T : String) (binary : Bool) : List String :=
  ["\n\n// IsValid returns true if the enum value is, in fact, valid.\nfunc (e ", T, ") IsValid() bool {"] ++
  (if binary then ["\n\t_, ok := slices.BinarySearch(_", T, "Values, e)\n\treturn ok"]
   else ["\n\tfor _, v := range _", T, "Values {\n\t\tif v == e {\n\t\t\treturn true\n\t\t}\n\t}\n\treturn false"]) ++
  ["\n}"]

/-- the template takes the binary search exactly when the model's `GenOut.isValid` does: more than
`bsThreshold` (15) constants, duplicates included -/
theorem go_render_isValid_eq (r : Root) (i : Nat) (T : String) (vs : List Value) (ts : List TraitDesc)
    (hv : r.values[i]? = some vs) (ht : r.traits[i]? = some ts) :
    renderSec r i T secIsValid
      = some (isValidText T (decide ((renderWith dedup r.opts T vs).nAll > bsThreshold))) := by
  have h1 := values_at r i vs hv
  have h3 := traits_at r i ts ht
  tsimp [h3, secIsValid, h1, isValidText, renderWith, bsThreshold]
  by_cases h : 15 < vs.length
  · have h' : (15 : Int) < (vs.length : Int) := by omega
    simp [h, h']
  · have h' : ¬ (15 : Int) < (vs.length : Int) := by omega
    simp [h, h']

/-! ### `Parse<T>`: one case per constant, the parsable trait constants in trait order, the lower-case block -/

/-- `case "<name>"[, <trait constant>]…: return <name>, nil` -/
def caseText (c : ParseCase) : List String :=
  ["\n\tcase \"", c.target.name, "\""] ++ (c.consts.drop 1).flatMap (fun d => [", ", dynTok d]) ++
    [":\n\t\treturn ", c.target.name, ", nil"]

/-- the `strings.ToLower` switch of the default branch -/
def lowerText : Option (List (String × Value)) → List String
  | none => []
  | some lc =>
    ["\n\t\tif text, ok := input.(string); ok {\n\t\t\tswitch strings.ToLower(text) {"] ++
    lc.flatMap (fun p => ["\n\t\t\tcase \"", p.1, "\":\n\t\t\t\treturn ", p.2.name, ", nil"]) ++
    ["\n\t\t\t}\n\t\t}"]

/-- Go text of `Parse<T>` -/
def parseText (T : String) (cases : List ParseCase) (lower : Option (List (String × Value))) : List String :=
  ["\n\n// Parse", T, " will attempt to parse the value of a ", T,
    " from either its string form\n// or any value of a trait flagged with the --parsableByTrait flag.\nfunc Parse",
    T, "(input any) (", T, ", error) {\n\tswitch input {"] ++
  cases.flatMap caseText ++ ["\n\tdefault:"] ++ lowerText lower ++
  ["\n\t\treturn 0, fmt.Errorf(\"`%+v` could not be parsed to enum of type ", T, "\", input)\n\t}\n}"]

/-- `$trait.InstanceOf $val` on the value as the template holds it = the model's `instanceOf` -/
@[simp] theorem gd_instanceOf (t : TraitDesc) (v : Value) :
    goData.method (.trait t) "InstanceOf" [.data (.value (abs v))] =
      some (match t.instanceOf v with
        | some r => .data (.row r)
        | none => .data .nilRow) := by
  simp [goData]
  rfl

/-- no instance is marked as a repeated Parse key (`validateParsableTraits`): no parsable trait earlier in the
walk carries the same written constant on the same enum value.  This holds on the property's domain (parsable
constants pairwise distinct).  The template data below binds `InstanceOf` to the model's `instanceOf`, which
does not carry the marks; the model's Parse switch (`caseOne`) leaves a marked constant out, so the two agree
exactly on descriptors without repeated keys (as `C12Tie.go_instanceOf_eq`). -/
def NoRepeatedKey (ts : List TraitDesc) (vs : List Value) : Prop :=
  ∀ t ∈ ts, ∀ v ∈ vs, ∀ r, t.instanceOf v = some r → repeatsParseKey {} ts vs.head? t r = false

/-- what the trait loop writes inside the case of `v` -/
def traitPart (ts : List TraitDesc) (first : Option Value) (v : Value) (t : TraitDesc) : List String :=
  if t.parsable then (caseOne ts first v t).flatMap (fun d => [", ", dynTok d]) else []

theorem traitPart_flat (ts : List TraitDesc) (first : Option Value) (v : Value) (l : List TraitDesc) :
    l.flatMap (traitPart ts first v)
      = (((l.filter (fun t => t.parsable)).map (caseOne ts first v)).flatten).flatMap (fun d => [", ", dynTok d]) := by
  induction l with
  | nil => rfl
  | cons t l ih =>
    by_cases hp : t.parsable = true
    · simp [List.filter_cons, hp, traitPart, ih]
    · simp [List.filter_cons, hp, traitPart, ih]

theorem go_render_parse_eq (r : Root) (i : Nat) (T : String) (vs : List Value) (ts : List TraitDesc)
    (hv : r.values[i]? = some vs) (ht : r.traits[i]? = some ts) (hnr : NoRepeatedKey ts vs) :
    renderSec r i T secParse
      = some (parseText T (vs.map (caseOf ts vs.head?)) (renderWith dedup r.opts T vs).lowerCases) := by
  have h1 := values_at r i vs hv
  have h2 := traits_at r i ts ht
  tsimp [secParse, h1, h2]
  rw [rangeLoop_mapped (g := fun v => caseText (caseOf ts vs.head? v))]
  · cases hci : r.opts.caseInsensitive
    · simp [parseText, lowerText, renderWith, hci, List.flatMap_map]
    · simp only [if_true]
      rw [rangeLoop_mapped (g := fun v => ["\n\t\t\tcase \"", asciiLower v.name, "\":\n\t\t\t\treturn ", v.name, ", nil"])]
      · simp [parseText, lowerText, renderWith, hci, List.flatMap_map]
      · intro j a _; simp
  · intro j a ha
    simp
    rw [rangeLoop_mapped (g := traitPart ts vs.head? a)]
    · simp [caseText, caseOf, caseConsts, traitPart_flat]
    · intro k t htm
      simp [traitPart, caseOne]
      cases t.parsable
      · simp
      · cases hin : t.instanceOf a with
        | none => simp [goData]
        | some row => simp [goData, hnr t htm a ha row hin]

/-! ### the trait accessors: one method per trait descriptor, one `case` per row -/

/-- Go text of the accessor of trait `t` -/
def accessorText (T : String) (t : TraitDesc) : List String :=
  ["\n\n// ", t.name,
    " returns the enum's associated trait of the same name.\n// If no trait exists for the enumeration a default value will be returned.\nfunc (e ",
    T, ") ", t.name, "() ", t.ty, " {\n\tswitch e {"] ++
  t.rows.flatMap (fun r => ["\n\tcase ", r.owner.name, ":\n\t\treturn ", dynTok r.dyn]) ++
  ["\n\t}\n\n\treturn *new(", t.ty, ")\n}\n"]

theorem go_render_accessor_eq (r : Root) (i : Nat) (T : String) (vs : List Value) (ts : List TraitDesc)
    (hv : r.values[i]? = some vs) (ht : r.traits[i]? = some ts) :
    renderSec r i T secAccessor = some (ts.flatMap (accessorText T)) := by
  have h1 := values_at r i vs hv
  have h2 := traits_at r i ts ht
  tsimp [secAccessor, h1, h2]
  rw [rangeLoop_mapped (g := accessorText T)]
  intro j t _
  simp
  rw [rangeLoop_mapped (g := fun r => ["\n\tcase ", r.owner.name, ":\n\t\treturn ", dynTok r.dyn])]
  · simp [accessorText]
  · intro k row _; simp

def parseGenericText (T : String) : List String :=
  ["\n\n// ParseGeneric calls TypedEnum.Parse but returns the result\n// in the generic genum.Enum interface. Which is useful when you are only able to work with\n// the un-typed interface.\nfunc (e ",
    T, ") ParseGeneric(input any) (genum.Enum, error) {\n\treturn Parse", T, "(input)\n}"]

theorem go_render_parseGeneric_eq (r : Root) (i : Nat) (T : String) (vs : List Value) (ts : List TraitDesc)
    (hv : r.values[i]? = some vs) (ht : r.traits[i]? = some ts) :
    renderSec r i T secParseGeneric = some (parseGenericText T) := by
  have h1 := values_at r i vs hv
  have h3 := traits_at r i ts ht
  tsimp [h3, secParseGeneric, h1, parseGenericText]

/-! ### the statements of C04 / C05 / C12, for the extracted template and the translated values -/

theorem sortedValues_u64 (f : FileDef) (t : String) : ∀ v ∈ sortedValues f t, U64 v := by
  intro v hv
  obtain ⟨c, _, _, rfl⟩ := mem_sortedValues.mp hv
  exact ofConst_u64 c

/-- what the generator hands to the template for a definition file: per type the sorted constants -/
def rootOf (o : Options) (f : FileDef) (types : List String) (traits : List (List TraitDesc)) : Root :=
  { opts := o, types := types, values := types.map (sortedValues f), traits := traits }

/-- **C04 for the template as extracted.**  For every accepted definition file, every list of types
handed to the generator, every option setting: executing the extracted sections of enumTemplate.gotmpl
for type number `i` - `ValueDeduplicatedSet` being the TRANSLATED one - writes the value table, the
`String` switch and `IsValid` of a `GenOut` `g` (table rows, switch rows, which `IsValid` branch) such
that `g.string` of every defined value is its primary name, `Undefined<T>:<n>` otherwise, `g.isValid` is
true exactly on the defined values, and `g.values` is their ascending list. -/
theorem go_template_string_primary (o : Options) (f : FileDef) (types : List String) (traits : List (List TraitDesc))
    (i : Nat) (t : String) (k : IntKind) (ts : List TraitDesc) (hi : types[i]? = some t) (ht : traits[i]? = some ts)
    (h : Accepted f t k) :
    ∃ g : GenOut,
      renderSec (rootOf o f types traits) i t secTable = some (tableText t g.stringValues) ∧
      renderSec (rootOf o f types traits) i t secStringValues = some (stringValuesText t g.stringValues) ∧
      renderSec (rootOf o f types traits) i t secString = some (stringText g.tname g.table) ∧
      renderSec (rootOf o f types traits) i t secIsValid = some (isValidText t (decide (g.nAll > bsThreshold))) ∧
      (∀ e, Defined f t e → IsPrimary f t e (g.string e)) ∧
      (∀ e, ¬ Defined f t e → g.string e = undefinedString t e) ∧
      (∀ e, g.isValid e = true ↔ Defined f t e) ∧
      IsAscDistinctOf f t g.values := by
  have hv : (rootOf o f types traits).values[i]? = some (sortedValues f t) := by simp [rootOf, hi]
  have hu := sortedValues_u64 f t
  refine ⟨genType o f t, ?_, ?_, ?_, ?_, Genum.C04.string_primary o h, Genum.C04.string_undefined o h,
    Genum.C04.isValid_iff_defined o h, Genum.C04.values_sorted_distinct o h⟩
  · exact go_render_values_eq _ i t _ ts hv ht hu
  · exact go_render_stringValues_eq _ i t _ ts hv ht hu
  · exact go_render_string_eq _ i t _ ts hv ht hu
  · exact go_render_isValid_eq _ i t _ ts hv ht

/-- **the `Parse` switch and the accessors of `genFull`** (the object of C05 / C12): whenever the model's
generator accepts a definition, executing the extracted `Parse<T>` and accessor sections on its values
and trait descriptors writes exactly the cases, the lower-case block and the accessor rows of its result. -/
theorem go_template_genFull (r : Root) (f : FileDef) (t : TypeDecl) (i : Nat) (g : GenFull)
    (h : genFull r.opts f t = .ok g)
    (hv : r.values[i]? = some (sortedValues f t.name)) (ht : r.traits[i]? = some g.traits)
    (hnr : NoRepeatedKey g.traits (sortedValues f t.name)) :
    renderSec r i t.name secParse = some (parseText g.base.tname g.base.cases g.base.lowerCases) ∧
    renderSec r i t.name secAccessor = some (g.traits.flatMap (accessorText g.base.tname)) ∧
    renderSec r i t.name secString = some (stringText g.base.tname g.base.table) ∧
    renderSec r i t.name secIsValid = some (isValidText g.base.tname (decide (g.base.nAll > bsThreshold))) := by
  obtain ⟨ts, _, hg, _⟩ := genFull_ok h
  subst hg
  refine ⟨?_, ?_, ?_, ?_⟩
  · exact go_render_parse_eq r i t.name _ ts hv ht hnr
  · exact go_render_accessor_eq r i t.name _ ts hv ht
  · exact go_render_string_eq r i t.name _ ts hv ht (sortedValues_u64 f t.name)
  · exact go_render_isValid_eq r i t.name _ ts hv ht

/-! ### the range over the types -/

@[simp] theorem gd_root_types (r : Root) :
    goData.field (.root r) "Types" = some (.data (.typeNames r.types)) := by simp [goData]
@[simp] theorem gd_elems_typeNames (l : List String) : goData.elems (.typeNames l) = some (l.map .str) := rfl

/-- executing `{{range $i, $enumTypeName := .Types}} prelude section {{end}}` on the generator writes the
section once per type, with `$i` / `$enumTypeName` the position and the name of the type: the per-type
statements above are about exactly the executions the template performs -/
theorem go_render_types (r : Root) (sec : List Node) (out : Nat → String → List String)
    (h : ∀ i T, r.types[i]? = some T → renderSec r i T sec = some (out i T)) :
    render goData (.data (.root r)) [] [.range (some idxVar) (some typeVar) typesExpr (prelude ++ sec) []]
      = some (r.types.zipIdx.flatMap (fun p => out p.2 p.1)) := by
  simp only [render, List.nil_append, renderList_range, typesExpr, evalExpr_field, evalExpr_dot, Option.bind_some,
    fieldOf_data, gd_root_types, elemsOf_data, gd_elems_typeNames, renderList_nil, Option.map_some, List.append_nil]
  rw [rangeLoop_eq _ (fun i x => match x with | .str T => out i T | _ => [])]
  · simp [List.zipIdx_map, List.flatMap_map]
  · intro i x hx
    simp only [List.getElem?_map, Option.map_eq_some_iff] at hx
    obtain ⟨T, hT, rfl⟩ := hx
    simp only [Nat.zero_add]
    exact h i T hT

/-! ### reading the model's components back from the pieces written

The printers above are one-to-one on what the model looks at: the rows of the table, the rows of the
`String` switch (label and returned literal), the branch of `IsValid`. -/

/-- the middle piece of every group of three -/
def readRows3 : List String → List String
  | _ :: n :: _ :: rest => n :: readRows3 rest
  | _ => []

/-- second and fourth piece of every group of five -/
def readRows5 : List String → List (String × String)
  | _ :: a :: _ :: b :: _ :: rest => (a, b) :: readRows5 rest
  | _ => []

theorem readRows3_flat (a b z : String) (names : List String) :
    readRows3 (names.flatMap (fun n => [a, n, b]) ++ [z]) = names := by
  induction names with
  | nil => rfl
  | cons n ns ih => simp [readRows3, ih]

theorem readRows5_flat (a b c z1 z2 z3 : String) (rows : List Value) :
    readRows5 (rows.flatMap (fun v => [a, v.name, b, v.name, c]) ++ [z1, z2, z3]) = rows.map (fun v => (v.name, v.name)) := by
  induction rows with
  | nil => rfl
  | cons n ns ih => simp [readRows5, ih]

/-- the rows of `_<T>Values` as written = `StringValues()` of the model = the names of its table -/
theorem read_table (T : String) (g : GenOut) :
    readRows3 ((tableText T g.stringValues).drop 5) = g.table.map (·.name) := by
  simp only [tableText, List.append_assoc, List.cons_append, List.nil_append, List.drop_succ_cons, List.drop_zero]
  exact readRows3_flat _ _ _ _

theorem read_stringValues (T : String) (g : GenOut) :
    readRows3 ((stringValuesText T g.stringValues).drop 3) = g.stringValues := by
  simp only [stringValuesText, List.append_assoc, List.cons_append, List.nil_append, List.drop_succ_cons, List.drop_zero]
  exact readRows3_flat _ _ _ _

/-- the `String` switch as written: one case per row of the model's table, labelled with the row's
constant and returning the row's name - what `GenOut.string` searches -/
theorem read_string (g : GenOut) :
    readRows5 ((stringText g.tname g.table).drop 3) = g.table.map (fun v => (v.name, v.name)) := by
  simp only [stringText, List.append_assoc, List.cons_append, List.nil_append, List.drop_succ_cons, List.drop_zero]
  exact readRows5_flat _ _ _ _ _ _ _

/-- which branch of `IsValid` was written -/
def readIsValidBinary (pieces : List String) : Bool := pieces[3]? == some "\n\t_, ok := slices.BinarySearch(_"

theorem read_isValid (g : GenOut) :
    readIsValidBinary (isValidText g.tname (decide (g.nAll > bsThreshold))) = decide (g.nAll > bsThreshold) := by
  unfold readIsValidBinary isValidText
  by_cases h : g.nAll > bsThreshold <;> simp [h]

/-! ### non-vacuity: a definition with a deprecated duplicate and a parsable trait, executed -/

private def exA : Value := ⟨"A", 0, false, true, 0, [.str "x"]⟩
private def exB : Value := ⟨"B", 0, false, false, 0, []⟩
private def exC : Value := ⟨"C", 1, false, false, 1, [.str "y"]⟩
private def exVals : List Value := [exA, exB, exC]

private def exTraits : List TraitDesc :=
  [⟨"Label", "string", .ustr, true, [⟨exA, ⟨"string", .str "x"⟩⟩, ⟨exC, ⟨"string", .str "y"⟩⟩]⟩]

private def exRoot : Root := ⟨{ caseInsensitive := true, parsable := ["Label"] }, ["E"], [exVals], [exTraits]⟩

private theorem exVals_u64 : ∀ v ∈ exVals, U64 v := by
  intro v hv
  simp [exVals] at hv
  rcases hv with rfl | rfl | rfl <;> (unfold U64 two64; decide)

/-- the table holds `B` (the live name of 0) and `C`; the case of `A` carries its trait constant -/
example : renderSec exRoot 0 "E" secTable = some (tableText "E" ["B", "C"]) := by
  rw [go_render_values_eq exRoot 0 "E" exVals exTraits rfl rfl exVals_u64]
  rfl

example : ∃ rest, renderSec exRoot 0 "E" secParse
    = some (["\n\n// Parse", "E", " will attempt to parse the value of a ", "E",
        " from either its string form\n// or any value of a trait flagged with the --parsableByTrait flag.\nfunc Parse",
        "E", "(input any) (", "E", ", error) {\n\tswitch input {",
        "\n\tcase \"", "A", "\"", ", ", "\"x\"", ":\n\t\treturn ", "A", ", nil",
        "\n\tcase \"", "B", "\"", ":\n\t\treturn ", "B", ", nil"] ++ rest) := by
  rw [go_render_parse_eq exRoot 0 "E" exVals exTraits rfl rfl (by
    intro t ht v hv r hr
    simp [exTraits] at ht
    subst ht
    unfold repeatsParseKey
    rw [List.any_eq_false]
    intro t' ht'
    simp [exTraits] at ht'
    subst ht'
    simp [String.lt_irrefl])]
  exact ⟨_, rfl⟩

end C04TmplTie

import Model.GoHeap
import Generated.GoSet
/-! REGENERATED on every run by harness/cmd/go2lean -spec gsort from gsort/gen/sorter_desc.go and (SortFieldDescs.Less)
gsort/gen/sorter_desc.gsort.go.  Do not edit.
Each definition follows the Go function of the same name statement by statement.  A `*CompareLine` is an
address in the heap of CompareLine cells (`Go.Heap`, `Go.Ptr`: Model/GoHeap.lean); a function that allocates
returns the heap it built next to its result.  `*SortFieldDesc` / `*SorterDesc` that are only read are the struct
values; a struct a function allocates itself (`&T{}`) is a local value until it is returned.  Go `int` is `Int`
(`len` is converted), an `error` is `Option String` (`errors.New m` = `some m`), a `types.Type` is the string
its String method returns.  sort.Sort, strings.TrimPrefix/HasPrefix/Split and strconv.Atoi are parameters
(`Env`); set.Make / Set.Add are the TRANSLATED ones of Generated/GoSet.lean.  The in-place effect of
`sort.Sort(sd.Fields)` on the caller's backing array is not part of PriorityTree's result.
Not translated: createSorterDesc (go/types objects, a map of pointers) and sortFieldDescFromTag (a
three-clause loop around reflect.StructTag.Lookup); both stay hand-written in Model/GSort.lean. -/
namespace Generated.GoGSort

/-- `type SortFieldDesc struct` -/
structure SortFieldDesc where
  FieldName : String
  FieldType : String
  CustomAccessor : String
  SortTypeName : String
  Priority : Int
  deriving Inhabited, Repr

/-- `SortFieldDesc{}` -/
def SortFieldDesc.zero : SortFieldDesc := { FieldName := "", FieldType := "", CustomAccessor := "", SortTypeName := "", Priority := 0 }

/-- `type SorterDesc struct` -/
structure SorterDesc where
  TypeName : String
  sortTypeName : String
  Fields : List SortFieldDesc
  deriving Inhabited, Repr

/-- `SorterDesc{}` -/
def SorterDesc.zero : SorterDesc := { TypeName := "", sortTypeName := "", Fields := [] }

/-- `type CompareLine struct` -/
structure CompareLine where
  IsBool : Bool
  Accessor : String
  Nest : Go.Ptr
  deriving Inhabited, Repr

/-- `CompareLine{}` -/
def CompareLine.zero : CompareLine := { IsBool := false, Accessor := "", Nest := none }

/-- what the translated functions take from outside the package -/
structure Env where
  /-- `sort.Sort(SortFieldDescs)`: the slice after the call -/
  sortSort : List SortFieldDesc → List SortFieldDesc
  trimPrefix : String → String → String
  hasPrefix : String → String → Bool
  split : String → String → List String
  /-- `strconv.Atoi`: value and error -/
  atoi : String → Int × Option String

/-- `func (s SortFieldDescs) Less(i, j int) bool` -/
def SortFieldDescs.Less (s : List SortFieldDesc) (i : Nat) (j : Nat) : Go.M (Bool) := do
  return (decide ((← Go.listGet s i).Priority < (← Go.listGet s j).Priority))

/-- `func (c CompareLine) HasNest() bool` -/
def CompareLine.HasNest (c : CompareLine) : Go.M (Bool) := do
  return (c.Nest != none)

/-- `func (c CompareLine) String() string` -/
def CompareLine.String (c : CompareLine) : Go.M (String) := do
  if c.IsBool then
    return ((("!s[i]." ++ c.Accessor) ++ " && s[j].") ++ c.Accessor)
  return (((("s[i]." ++ c.Accessor) ++ " < ") ++ "s[j].") ++ c.Accessor)

/-- `func (sd *SorterDesc) SortTypeName() string` -/
def SorterDesc.SortTypeName (env : Env) (sd : SorterDesc) : Go.M (String) := do
  return (env.trimPrefix sd.sortTypeName "*")

/-- `func (sd *SorterDesc) UsePointer() bool` -/
def SorterDesc.UsePointer (env : Env) (sd : SorterDesc) : Go.M (Bool) := do
  return (env.hasPrefix sd.sortTypeName "*")

/-- `func (sd SorterDesc) PriorityTree() *CompareLine` -/
def SorterDesc.PriorityTree (env : Env) (sd : SorterDesc) : Go.M (Go.Heap CompareLine × Go.Ptr) := do
  let mut heap : Go.Heap CompareLine := []
  let mut sd := sd
  sd := { sd with Fields := env.sortSort sd.Fields }
  let a1 := Go.new heap CompareLine.zero
  heap := a1.1
  let mut result : Go.Ptr := a1.2
  let mut current : Go.Ptr := result
  for iv2 in List.zipIdx sd.Fields do
    let v : SortFieldDesc := iv2.1
    let i : Int := Int.ofNat iv2.2
    heap ← Go.store heap current { (← Go.load heap current) with IsBool := (v.FieldType == "bool") }
    heap ← Go.store heap current { (← Go.load heap current) with Accessor := v.FieldName }
    if (v.CustomAccessor != "") then
      heap ← Go.store heap current { (← Go.load heap current) with Accessor := ((← Go.load heap current).Accessor ++ ("." ++ v.CustomAccessor)) }
    if (decide (((Int.ofNat (List.length sd.Fields)) - 1) > i)) then
      let a3 := Go.new heap CompareLine.zero
      heap := a3.1
      heap ← Go.store heap current { (← Go.load heap current) with Nest := a3.2 }
      current := (← Go.load heap current).Nest
  return (heap, result)

/-- `func (s SortFieldDescs) Validate() error` -/
def SortFieldDescs.Validate (s : List SortFieldDesc) : Go.M (Option String) := do
  if ((Int.ofNat (List.length s)) == 0) then
    return (some "no sort attributes defined")
  let mut known : Go.GMap Int := (← Generated.GoSet.Make ([] : List Int))
  for fd in s do
    let r1 ← Generated.GoSet.Set.Add known [fd.Priority]
    known := r1.1
    if (!r1.2) then
      return (some "multiple fields have same sort priority")
  return none

/-- `func sfdFromLine(options string) (*SortFieldDesc, error)` -/
def sfdFromLine (env : Env) (options : String) : Go.M (Option SortFieldDesc × Option String) := do
  let mut sfd : SortFieldDesc := SortFieldDesc.zero
  let mut tuple : List String := (env.split options ",")
  if (decide ((Int.ofNat (List.length tuple)) < 1)) then
    return (none, (some "name of type to generate is required"))
  else
    if (decide ((Int.ofNat (List.length tuple)) > 3)) then
      return (none, (some "maximum three tag options allowed; name of type to generate, field priority, optional accessor"))
  sfd := { sfd with SortTypeName := (← Go.listGet tuple 0) }
  if (decide ((Int.ofNat (List.length tuple)) ≥ 2)) then
    let mut err : Option String := none
    let p1 := env.atoi (← Go.listGet tuple 1)
    sfd := { sfd with Priority := p1.1 }
    err := p1.2
    if (err != none) then
      return (none, (some ("second option must be an int indicating sort priority! found: " ++ (← Go.listGet tuple 1))))
  if ((Int.ofNat (List.length tuple)) == 3) then
    sfd := { sfd with CustomAccessor := (← Go.listGet tuple 2) }
  return ((some sfd), none)

end Generated.GoGSort

package main

import (
	"encoding/json"
	"fmt"
	"sort"
	"strconv"
	"strings"
	"sync"

	"github.com/drshriveer/gtools/set"
	"gopkg.in/yaml.v3"
	"verif/harness/internal/hx"
)

type pt struct {
	X int
	S string
}

// opt has omittable fields: a member with a zero field is encoded without it, so a decoder
// that reuses one scratch value across items would leak the previous item's field.
type opt struct {
	Host string `json:"host,omitempty" yaml:"host,omitempty"`
	Port int    `json:"port,omitempty" yaml:"port,omitempty"`
	TLS  bool   `json:"tls,omitempty" yaml:"tls,omitempty"`
}

// pair has two adjacent string fields: different members can print alike ({Mary Ann Lee}), so an
// encoder that identifies members by their printed form loses one.
type pair struct {
	First string `json:"first" yaml:"first"`
	Last  string `json:"last" yaml:"last"`
}

// ver has its text codec on the POINTER receiver: encoding/json only finds it for addressable
// values (slice elements are, a range copy handed to an encoder is not).
type ver struct {
	Major, Minor int
}

func (v *ver) MarshalText() ([]byte, error) { return []byte(fmt.Sprintf("v%d.%d", v.Major, v.Minor)), nil }
func (v *ver) UnmarshalText(b []byte) error {
	_, err := fmt.Sscanf(string(b), "v%d.%d", &v.Major, &v.Minor)
	return err
}

// setOps runs protocol ops on a real set.Set[T]; elements are indices into a universe.
type setOps interface {
	execRT(codec, mode string, tgt []string) string
	size() int
	reset()
	exec(op string, idx []int) string
}

type typedSet[T comparable] struct {
	uni []T
	s   set.Set[T]
	arg set.Set[T] // a RETAINED argument set for AddSet/RemoveSet (`arg*` requests)
}

func (t *typedSet[T]) reset() { t.s, t.arg = nil, nil }
func (t *typedSet[T]) size() int { return len(t.uni) }

func (t *typedSet[T]) execRT(codec, mode string, tgt []string) string {
	var target set.Set[T]
	switch {
	case len(tgt) == 1 && tgt[0] == "nil":
	case len(tgt) == 1 && tgt[0] == "empty":
		target = set.Make[T]()
	default:
		idx := []int{}
		for _, w := range tgt {
			n, err := strconv.Atoi(w)
			if err != nil || n < 0 || n >= len(t.uni) {
				return "bad-op"
			}
			idx = append(idx, n)
		}
		target = set.Make(t.vals(idx)...)
	}
	return t.rt(codec, mode, target)
}

func (t *typedSet[T]) vals(idx []int) []T {
	r := make([]T, len(idx))
	for i, k := range idx {
		r[i] = t.uni[k]
	}
	return r
}

func (t *typedSet[T]) indexOf(v T) int {
	for i, u := range t.uni {
		if u == v {
			return i
		}
	}
	return -1
}

type holder[T comparable] struct {
	S set.Set[T] `json:"s" yaml:"s"`
	N int        `json:"n" yaml:"n"`
}

func shapeOf(v any) string {
	switch x := v.(type) {
	case nil:
		return "null"
	case []any:
		return fmt.Sprintf("seq:%d", len(x))
	}
	return fmt.Sprintf("other:%T", v)
}

// rt: encode t.s with the codec (standalone or as a struct field), report the shape of the
// encoding, decode into the target and report the target's members.
func (t *typedSet[T]) rt(codec, mode string, target set.Set[T]) string {
	var data []byte
	var err error
	var shape string
	switch {
	case codec == "json" && mode == "direct":
		// the Marshaler method called directly and its result RETAINED while another set is
		// encoded (also concurrently) before the first encoding is consumed
		data, err = t.s.MarshalJSON()
		if err != nil {
			return "err"
		}
		decoy := set.Make(t.uni...)
		var wg sync.WaitGroup
		for i := 0; i < 3; i++ {
			wg.Add(1)
			go func() { defer wg.Done(); _, _ = decoy.MarshalJSON(); _, _ = json.Marshal(decoy) }()
		}
		_, _ = decoy.MarshalJSON()
		wg.Wait()
		var v any
		if json.Unmarshal(data, &v) != nil {
			return "err-shape"
		}
		shape = shapeOf(v)
		err = json.Unmarshal(data, &target)
	case codec == "yaml" && mode == "direct":
		var yv any
		yv, err = t.s.MarshalYAML()
		if err != nil {
			return "err"
		}
		decoy := set.Make(t.uni...)
		_, _ = decoy.MarshalYAML()
		_, _ = yaml.Marshal(decoy)
		data, err = yaml.Marshal(yv)
		if err != nil {
			return "err"
		}
		var v any
		if yaml.Unmarshal(data, &v) != nil {
			return "err-shape"
		}
		shape = shapeOf(v)
		err = yaml.Unmarshal(data, &target)
	case codec == "json" && mode == "standalone":
		data, err = json.Marshal(t.s)
		if err != nil {
			return "err"
		}
		var v any
		if json.Unmarshal(data, &v) != nil {
			return "err-shape"
		}
		shape = shapeOf(v)
		err = json.Unmarshal(data, &target)
	case codec == "json" && mode == "field":
		data, err = json.Marshal(holder[T]{S: t.s, N: 3})
		if err != nil {
			return "err"
		}
		var v map[string]any
		if json.Unmarshal(data, &v) != nil {
			return "err-shape"
		}
		shape = shapeOf(v["s"])
		h := holder[T]{S: target}
		err = json.Unmarshal(data, &h)
		target = h.S
	case codec == "yaml" && mode == "standalone":
		data, err = yaml.Marshal(t.s)
		if err != nil {
			return "err"
		}
		var v any
		if yaml.Unmarshal(data, &v) != nil {
			return "err-shape"
		}
		shape = shapeOf(v)
		err = yaml.Unmarshal(data, &target)
	case codec == "yaml" && mode == "field":
		data, err = yaml.Marshal(holder[T]{S: t.s, N: 3})
		if err != nil {
			return "err"
		}
		var v map[string]any
		if yaml.Unmarshal(data, &v) != nil {
			return "err-shape"
		}
		shape = shapeOf(v["s"])
		h := holder[T]{S: target}
		err = yaml.Unmarshal(data, &h)
		target = h.S
	default:
		return "bad-op"
	}
	if err != nil {
		return "err"
	}
	if shape == "seq:0" {
		shape = "null" // the property allows either for an empty set
	}
	ids := []int{}
	for v := range target {
		ids = append(ids, t.indexOf(v))
	}
	sort.Ints(ids)
	p := make([]string, len(ids))
	for i, k := range ids {
		p[i] = strconv.Itoa(k)
	}
	return shape + " [" + strings.Join(p, " ") + "]"
}

func (t *typedSet[T]) exec(op string, idx []int) string {
	switch op {
	case "nil":
		t.s = nil
		return "ok"
	case "make":
		t.s = set.Make(t.vals(idx)...)
		return "ok"
	case "add":
		return b2s(t.s.Add(t.vals(idx)...))
	case "addset":
		return b2s(t.s.AddSet(set.Make(t.vals(idx)...)))
	case "remove":
		return b2s(t.s.Remove(t.vals(idx)...))
	case "removeset":
		return b2s(t.s.RemoveSet(set.Make(t.vals(idx)...)))
	case "has":
		return b2s(t.s.Has(t.vals(idx)...))
	case "hasany":
		return b2s(t.s.HasAny(t.vals(idx)...))
	case "slice":
		sl := t.s.Slice()
		if sl == nil {
			return "nil"
		}
		ids := make([]int, len(sl))
		for i, v := range sl {
			ids[i] = t.indexOf(v)
		}
		sort.Ints(ids)
		p := make([]string, len(ids))
		for i, k := range ids {
			p[i] = strconv.Itoa(k)
		}
		return "[" + strings.Join(p, " ") + "]"
	case "probe":
		var b strings.Builder
		for i := 0; i < idx[0]; i++ {
			b.WriteString(b2s(t.s.Has(t.uni[i])))
		}
		return b.String()
	case "argnil":
		t.arg = nil
		return "ok"
	case "arg":
		t.arg = set.Make(t.vals(idx)...)
		return "ok"
	case "addarg":
		return b2s(t.s.AddSet(t.arg))
	case "removearg":
		return b2s(t.s.RemoveSet(t.arg))
	case "argprobe":
		var b strings.Builder
		for i := 0; i < idx[0]; i++ {
			b.WriteString(b2s(t.arg.Has(t.uni[i])))
		}
		return b.String()
	case "argadd":
		return b2s(t.arg.Add(t.vals(idx)...))
	case "argremove":
		return b2s(t.arg.Remove(t.vals(idx)...))
	}
	return "bad-op"
}

type setImpl struct {
	cur  setOps
	kind map[string]setOps
}

func newSetImpl() *setImpl {
	return &setImpl{kind: map[string]setOps{
		"int":    &typedSet[int]{uni: []int{0, -1, 7, 1 << 40, 3, 42}},
		"string": &typedSet[string]{uni: []string{"", "a", "A", "héllo", "a b", "null"}},
		"struct": &typedSet[pt]{uni: []pt{{0, ""}, {1, ""}, {0, "x"}, {1, "x"}, {-1, "y"}, {2, "z"}}},
		"ystring": &typedSet[string]{uni: []string{"", "true", "null", "1", "- x", "a: b", "~", "héllo wörld", "0x1f", "no", "1e3", " lead", "trail ", "multi\nline", "\"q\"", "#c", "[a]", "{b}", "*x", "&y", "!t", "|", ">", "%", "@", "`", "'s'", "null ", "True", "FALSE", "1.0", ".5", "-", "?", ":", ",", "\t", "é", "日本", "\u0000z"}},
		"float":   &typedSet[float64]{uni: []float64{0, 1, -1.5, 0.1, 1e21, 3.141592653589793, 1e-7, 123456789.125, -2, 5e-324, 1.7976931348623157e308, 100}},
		"bool":    &typedSet[bool]{uni: []bool{false, true}},
		"ostruct": &typedSet[opt]{uni: []opt{{}, {Host: "a"}, {Port: 443}, {TLS: true}, {Host: "b", Port: 443, TLS: true}, {Host: "a", Port: 80}, {Host: "b"}, {Port: 80, TLS: true}, {Host: "c", TLS: true}, {Host: "c"}}},
		"pair":    &typedSet[pair]{uni: []pair{{"Mary Ann", "Lee"}, {"Mary", "Ann Lee"}, {"", "Mary Ann Lee"}, {"Mary Ann Lee", ""}, {"a", "b"}, {"a b", ""}, {"", "a b"}, {"", ""}, {" ", ""}, {"", " "}, {"x", "y z"}, {"x y", "z"}}},
		"ver":     &typedSet[ver]{uni: []ver{{0, 0}, {1, 0}, {0, 1}, {1, 2}, {2, 1}, {10, 0}, {1, 10}, {-1, 3}}},
		"wint":    &typedSet[int64]{uni: func() []int64 { r := make([]int64, 60); for i := range r { r[i] = int64(i*i*i) - 5000 }; r[59] = 1<<63 - 1; r[58] = -1 << 63; return r }()},
	}}
}

func (s *setImpl) Reset() {}

func (s *setImpl) Exec(line string) string {
	ws := strings.Fields(line)
	if len(ws) >= 3 && ws[0] == "case" && ws[1] == "set" {
		s.cur = s.kind[ws[2]]
		if s.cur == nil {
			return "bad-op"
		}
		s.cur.reset()
		return line
	}
	if len(ws) < 2 || ws[0] != "set" || s.cur == nil {
		return "bad-op"
	}
	if ws[1] == "rt" {
		if len(ws) < 5 {
			return "bad-op"
		}
		return s.cur.execRT(ws[2], ws[3], ws[4:])
	}
	idx := []int{}
	for _, w := range ws[2:] {
		n, err := strconv.Atoi(w)
		if err != nil || n < 0 || n >= s.cur.size() && ws[1] != "probe" && ws[1] != "argprobe" {
			return "bad-op"
		}
		idx = append(idx, n)
	}
	return s.cur.exec(ws[1], idx)
}

func runC07(f *hx.Flags) {
	r := hx.NewRunner(f, "h-set", newSetImpl(), "random operation sequences (<=40 ops) over universes of 4-6 int/string/struct elements (incl. a two-string struct whose distinct members share one printed form) from nil, empty and pre-filled sets, argument lists of 0-6 items with repeats; after every mutating op a full membership probe and Slice(); Has/HasAny with >=1 argument are in-domain, zero-argument calls go to the out-of-domain stream. non-trivial: at least one op changed the set and one Has/HasAny was asked; distinct by request lines")
	r.KeyOf = func(d *hx.Disagreement) string {
		ws := strings.Fields(d.Request)
		if len(ws) >= 2 {
			return "C07:" + ws[1]
		}
		return "C07:?"
	}
	if r.HandleReplay() {
		return
	}
	r.RunCorpus()
	n := r.N(20000)
	if f.Tier == "thorough" {
		n = r.N(600000)
	}
	// "pair": a struct of two strings whose first four universe members all print as `{Mary Ann Lee}`
	// (distinct members with one printed form: anything keyed by fmt.Sprint of a member conflates them)
	kinds := []string{"int", "string", "struct", "pair"}
	for i := 0; i < n; i++ {
		domain := r.Rng.Intn(20) != 0
		usz := 4 + r.Rng.Intn(3)
		lines := []string{"case set " + kinds[r.Rng.Intn(len(kinds))]}
		args := func(min int) string {
			k := min + r.Rng.Intn(7-min)
			p := make([]string, k)
			for j := range p {
				p[j] = strconv.Itoa(r.Rng.Intn(usz))
			}
			return strings.TrimSpace(" " + strings.Join(p, " "))
		}
		cat := func(op, a string) string {
			if a == "" {
				return "set " + op
			}
			return "set " + op + " " + a
		}
		tags := []string{}
		switch r.Rng.Intn(3) {
		case 0:
			lines = append(lines, "set nil")
			tags = append(tags, "start-nil")
		case 1:
			lines = append(lines, "set make")
			tags = append(tags, "start-empty")
		default:
			lines = append(lines, cat("make", args(1)))
			tags = append(tags, "start-filled")
		}
		L := 1 + r.Rng.Intn(40)
		mut, ask := false, false
		for j := 0; j < L; j++ {
			switch k := r.Rng.Intn(10); {
			case k < 2:
				lines = append(lines, cat("add", args(0)), fmt.Sprintf("set probe %d", usz))
				mut = true
			case k == 2:
				lines = append(lines, cat("addset", args(0)), fmt.Sprintf("set probe %d", usz))
				mut = true
			case k < 5:
				lines = append(lines, cat("remove", args(0)), fmt.Sprintf("set probe %d", usz))
				mut = true
			case k == 5:
				lines = append(lines, cat("removeset", args(0)), fmt.Sprintf("set probe %d", usz))
				mut = true
				if r.Rng.Intn(2) == 0 {
					// the same through a RETAINED argument set, which is mutated and reused afterwards:
					// the receiver and the argument must stay independent values
					both := []string{fmt.Sprintf("set probe %d", usz), fmt.Sprintf("set argprobe %d", usz)}
					switch r.Rng.Intn(3) {
					case 0:
						lines = append(lines, "set argnil")
					default:
						lines = append(lines, cat("arg", args(0)))
					}
					for q, Q := 0, 1+r.Rng.Intn(5); q < Q; q++ {
						switch r.Rng.Intn(6) {
						case 0, 1:
							lines = append(lines, "set addarg")
						case 2:
							lines = append(lines, "set removearg")
						case 3:
							lines = append(lines, cat("argadd", args(0)))
						case 4:
							lines = append(lines, cat("argremove", args(0)))
						default:
							lines = append(lines, cat([]string{"add", "remove"}[r.Rng.Intn(2)], args(0)))
						}
						lines = append(lines, both...)
					}
					tags = append(tags, "retained-arg")
				}
			case k < 8:
				min := 1
				if !domain {
					min = 0
				}
				lines = append(lines, cat("has", args(min)))
				ask = true
			case k == 8:
				min := 1
				if !domain {
					min = 0
				}
				lines = append(lines, cat("hasany", args(min)))
				ask = true
			default:
				lines = append(lines, "set slice")
			}
		}
		lines = append(lines, "set slice")
		if !domain {
			tags = append(tags, "zero-arg-stream")
		}
		r.Add(hx.Case{Domain: domain, Nontrivial: mut && ask, Tags: tags, Lines: lines})
	}
	r.Finish()
}

func runC17(f *hx.Flags) {
	impl := newSetImpl()
	r := hx.NewRunner(f, "h-set", impl, "random sets (0-50 elements) of string incl. YAML-significant strings, int, float, bool, struct element types, encoded with encoding/json and yaml.v3 standalone and as a struct field, decoded into nil/empty/pre-filled targets; compared: shape of the encoding (null or sequence of |S| items) and members of the target afterwards. non-trivial: source set non-empty; distinct by request lines")
	r.KeyOf = func(d *hx.Disagreement) string {
		ws := strings.Fields(d.Request)
		if len(ws) >= 4 && ws[1] == "rt" {
			return "C17:" + ws[2] + ":" + ws[3]
		}
		return "C17:?"
	}
	if r.HandleReplay() {
		return
	}
	r.RunCorpus()
	n := r.N(6000)
	if f.Tier == "thorough" {
		n = r.N(200000)
	}
	kinds := []string{"int", "string", "struct", "ystring", "float", "bool", "wint", "ostruct", "ostruct", "pair", "pair", "ver"}
	for i := 0; i < n; i++ {
		kind := kinds[r.Rng.Intn(len(kinds))]
		usz := impl.kind[kind].size()
		pick := func(max int) string {
			k := r.Rng.Intn(max + 1)
			p := make([]string, k)
			for j := range p {
				p[j] = strconv.Itoa(r.Rng.Intn(usz))
			}
			return strings.Join(p, " ")
		}
		lines := []string{"case set " + kind}
		src := ""
		switch r.Rng.Intn(8) {
		case 0:
			lines = append(lines, "set nil")
		case 1:
			lines = append(lines, "set make")
		default:
			src = pick(50)
			lines = append(lines, strings.TrimSpace("set make "+src))
		}
		for _, codec := range []string{"json", "yaml"} {
			for _, mode := range []string{"standalone", "field", "direct"} {
				tg := []string{"nil", "empty", pick(6), pick(20)}
				for _, t := range tg {
					if t == "" {
						t = "empty"
					}
					lines = append(lines, "set rt "+codec+" "+mode+" "+t)
				}
			}
		}
		lines = append(lines, "set slice")
		r.Add(hx.Case{Domain: true, Nontrivial: src != "", Tags: []string{"elem-" + kind}, Lines: lines})
	}
	r.Finish()
}

import Generated.GoGConfigExtract
import Lemmas.GoLoop
import Properties.C10
/-!
# C10 (and the `Get` clause of C03), tie A by translation: `extract` of gconfig/config.go

Every `Get/MustGet/GetOrDefault` walks the dotted key path through the loaded document with
`extract`.  `Generated/GoGConfigExtract.lean` is rewritten from /repo's gconfig/config.go by
`harness/cmd/go2lean -spec gconfigextract` on every run; `go_extract_eq` proves for every document
and every key path (any length, incl. the empty one) that the translated loop returns exactly what
the hand-written recursive model `GConfig.extract` returns - the value with `true`, or `(nil, false)`.
-/
set_option linter.unusedSimpArgs false
namespace C10Tie
open Generated.GoGConfigExtract GConfig GoLoop

/-- the answer of the model as the pair the Go function returns -/
def ofOpt : Option Y → Y × Bool
  | some y => (y, true)
  | none => (Y.null, false)

/-- one iteration of `extract`'s loop on (m, last, ok, i); `L` is `len(keys)` -/
def extractStep (L : Nat) (s : List (String × Y) × Y × Bool × Nat) (k : String) :
    Sum (List (String × Y) × Y × Bool × Nat) ((Y × Bool) × (List (String × Y) × Y × Bool × Nat)) :=
  let g := GoAny.amapGet s.1 k
  if !g.2 then .inr ((Y.null, false), (s.1, g.1, g.2, s.2.2.2))
  else
    let a := GoAny.asMap g.1
    if !a.2 && decide (s.2.2.2 < L - 1) then .inr ((Y.null, false), (a.1, g.1, g.2, s.2.2.2))
    else .inl (a.1, g.1, g.2, s.2.2.2 + 1)

theorem extract_fold (L : Nat) (rest : List String) :
    ∀ (i : Nat) (m : List (String × Y)) (last : Y) (ok : Bool), i + rest.length = L →
    (match searchFold2 (extractStep L) (m, last, ok, i) rest with
      | (some r, _) => r
      | (none, s) => (s.2.1, s.2.2.1))
      = (if rest = [] then (last, ok) else ofOpt (GConfig.extract m rest)) := by
  induction rest with
  | nil => intro i m last ok _; rfl
  | cons k rest ih =>
    intro i m last ok hL
    simp only [searchFold2, extractStep, List.length_cons] at *
    cases hk : lookupKey m k with
    | none =>
      simp [GoAny.amapGet, hk, ofOpt]
      cases rest <;> simp [GConfig.extract, hk]
    | some y =>
      simp only [GoAny.amapGet, hk, Bool.not_true, Bool.false_eq_true, if_false]
      cases rest with
      | nil =>
        have : ¬ (i < L - 1) := by simp at hL; omega
        simp [this, searchFold2, GConfig.extract, hk, ofOpt]
      | cons k2 rest2 =>
        have hlt : i < L - 1 := by simp at hL; omega
        cases y with
        | map kvs =>
          simp only [GoAny.asMap, Bool.not_true, Bool.false_and, Bool.false_eq_true, if_false]
          have := ih (i + 1) kvs (Y.map kvs) true (by simp at hL ⊢; omega)
          simp only [reduceCtorEq, if_false] at this
          rw [this]
          simp [GConfig.extract, hk]
        | _ => simp [GoAny.asMap, hlt, GConfig.extract, hk, ofOpt]

theorem go_extract_eq (m : List (String × Y)) (keys : List String) :
    Generated.GoGConfigExtract.extract m keys = pure (ofOpt (GConfig.extract m keys)) := by
  unfold Generated.GoGConfigExtract.extract
  simp only []
  rw [forIn_searchFold2 _ (extractStep keys.length) (by
    intro k s
    obtain ⟨m, last, ok, i⟩ := s
    unfold extractStep
    by_cases h1 : (GoAny.amapGet m k).2 = true
    · by_cases h2 : (!(GoAny.asMap (GoAny.amapGet m k).1).2 && decide (i < keys.length - 1)) = true
      · simp [h1, h2]
      · simp [h1, h2]
    · simp [h1])]
  simp only [pure_bind]
  have := extract_fold keys.length keys 0 m Y.null false (by simp)
  generalize searchFold2 (extractStep keys.length) (m, Y.null, false, 0) keys = r at this ⊢
  obtain ⟨o, s⟩ := r
  cases o with
  | some r =>
    simp only [] at this ⊢
    rw [this]; cases keys <;> simp [GConfig.extract, ofOpt]
  | none =>
    simp only [] at this ⊢
    rw [this]; cases keys <;> simp [GConfig.extract, ofOpt]
end C10Tie

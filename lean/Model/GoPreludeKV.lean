import Model.GoPrelude
/-!
# More primitives of the Go fragment (`harness/cmd/go2lean -spec genumgen`; core Lean only)

* `KV κ ν`: a `map[K]V` that the translated function creates itself with `make` (never nil), as an
  association list with one pair per key.  `kvGet` is the comma-ok lookup, `kvSet` the assignment
  `m[k] = v`.  A `for … range m` does not walk this list: the translated function takes the walk as a
  parameter `walk : List (κ × ν) → List (κ × ν)` and the theorems hold for EVERY walk that is a
  permutation of the entries (Go leaves the order unspecified).
* `andThen` / `orElse`: Go's short-circuit `&&` / `||` when the right operand can panic or calls a
  function (the right operand is not evaluated when the left one decides).
* `sortSort less l`: `sort.Sort` on a slice whose `Less(i, j)` compares the elements `s[i]`, `s[j]`
  with `less`.  Contract of `sort.Sort`: the result is a permutation of the input that is ascending for
  `Less`; when `Less` is a strict total order on the elements (distinct keys) there is exactly one such
  list and every algorithm returns it - written here as an insertion sort.
-/
namespace Go
variable {κ ν α : Type}

abbrev KV (κ ν : Type) := List (κ × ν)

/-- `v, ok := m[k]` as an `Option` (`none`: `ok = false`, `v` the zero value) -/
def kvGet [DecidableEq κ] (m : KV κ ν) (k : κ) : Option ν :=
  match m with
  | [] => none
  | (k', v) :: r => if k' = k then some v else kvGet r k

/-- `m[k] = v` -/
def kvSet [DecidableEq κ] (m : KV κ ν) (k : κ) (v : ν) : KV κ ν :=
  match m with
  | [] => [(k, v)]
  | (k', v') :: r => if k' = k then (k, v) :: r else (k', v') :: kvSet r k v

/-- `a && b` where `b` is only evaluated when `a` holds -/
def andThen (a : Bool) (b : M Bool) : M Bool := if a then b else pure false

/-- `a || b` where `b` is only evaluated when `a` fails -/
def orElse (a : Bool) (b : M Bool) : M Bool := if a then pure true else b

/-- insert `x` before the first element it is `less` than -/
def sortInsert (less : α → α → Bool) (x : α) : List α → List α
  | [] => [x]
  | y :: ys => if less x y then x :: y :: ys else y :: sortInsert less x ys

/-- `sort.Sort(s)` (see the header for the contract this stands for) -/
def sortSort (less : α → α → Bool) (l : List α) : List α := l.foldr (sortInsert less) []

end Go

/-! Small helpers for the line protocol (core only). -/
namespace Drv

def words (s : String) : List String :=
  (s.splitOn " ").filter (fun w => w ≠ "")

def natsOf (ws : List String) : Option (List Nat) := ws.mapM String.toNat?
def intsOf (ws : List String) : Option (List Int) := ws.mapM String.toInt?

def showBool (b : Bool) : String := if b then "t" else "f"

def joinSp (xs : List String) : String := " ".intercalate xs

end Drv

// go2lean -spec gencommonparams: translation of gencommon's parameter naming - `getSafeParamName`,
// `Params.keepUserNames`, `Params.ensureNames` (gencommon/params.go) and `Method.ensureParamNames`
// (gencommon/method.go) - into lean/Generated/GoGencommonParams.lean.
//
// Fragment (anything else makes the translator fail):
//   - kinds: string (Go.Str), bool, int (Nat: only 0, literals, `+`, `++`, map values and `len`; the
//     one subtraction allowed is `len(xs)-1` inside a `range xs` body, where len(xs) >= 1),
//     (`strconv.FormatInt(int64(v), 10)` and `strconv.Itoa(v)` are Go.itoa), map[string]int (Go.SIMap, allocated), Params = []*Param (List Gencommon.P: the elements are
//     distinct pointers, a write `p.Name = e` goes to the element the loop is at), *Param.
//   - of a Param the code may read and write `Name` and ask `TypeImplements(p.ActualType,
//     ErrorInterface | ContextInterface)`: the fields name / isErr / isCtx of the model's `P`.
//   - statements: `x := e`, `x = e`, `x++`, `a, ok := m[k]`, `m[k] = v`, `p.Name = e`,
//     `if [_, ok := m[k];] c {} [else if … | else {}]`, `for _, p := range ps {}` / `for i, p := …`
//     (no break/continue/return inside), `for { … break … }` (state = the outer variables it assigns;
//     translated with Go.loopN and a fuel argument), `return e` as the last statement, calls of the
//     other translated functions (`x = f(m, …)`, `p.Name = f(m, …)`, `ps.g(m, …)`, `recv.F.g(m, …)`).
//   - a translated function returns its result (if any) followed by the new values of everything it
//     can write through: the Params receiver and map parameters.
package main

import (
	"fmt"
	"go/ast"
	"go/parser"
	"go/token"
	"os"
	"path/filepath"
	"strconv"
	"strings"
)

func init() {
	register("gencommonparams", "../lean/Generated/GoGencommonParams.lean", runGencommonParams)
}

type pvar struct{ lean, kind string }

type pfn struct {
	goName string
	lean   string
	decl   *ast.FuncDecl
	args   []pvar   // Lean parameters after `fuel`, in order
	argSrc []string // the Go expression each of them stands for (`ps`, `paramDeduper`, `m.Input`)
	ret    string   // kind of the Go result ("" = none)
	outs   []int    // indices into args that are returned after the result
}

type pt struct {
	env       []map[string]pvar // Go source text of a variable (`v`, `m.Input`) -> Lean name, kind
	out       strings.Builder
	tmp       int
	fns       map[string]*pfn
	cur       *pfn
	loopState []pvar // state of the enclosing `for {}` ("" outside)
	inInf     bool
	rangeOver string // Go source of X in the enclosing `range X`
}

// pname: as name(), plus the command keywords a Go identifier is likely to hit (`prefix`)
func pname(n string) string {
	switch n {
	case "prefix", "infix", "infixl", "infixr", "postfix", "notation", "macro", "syntax", "abbrev", "axiom", "universe", "deriving", "mutual", "opaque":
		return "«" + n + "»"
	}
	return name(n)
}

func (t *pt) line(ind int, s string) { t.out.WriteString(strings.Repeat("  ", ind) + s + "\n") }
func (t *pt) push()                  { t.env = append(t.env, map[string]pvar{}) }
func (t *pt) pop()                   { t.env = t.env[:len(t.env)-1] }
func (t *pt) bind(goSrc string, v pvar) {
	t.env[len(t.env)-1][goSrc] = v
}
func (t *pt) lookup(goSrc string) (pvar, bool) {
	for i := len(t.env) - 1; i >= 0; i-- {
		if v, ok := t.env[i][goSrc]; ok {
			return v, true
		}
	}
	return pvar{}, false
}
func (t *pt) fresh() string { t.tmp++; return fmt.Sprintf("r%d", t.tmp) }

func pLeanType(k string) string {
	switch k {
	case "str":
		return "Go.Str"
	case "bool":
		return "Bool"
	case "int":
		return "Nat"
	case "simap":
		return "Go.SIMap"
	case "params":
		return "List Gencommon.P"
	case "param":
		return "Gencommon.P"
	}
	fail("gencommonparams: no Lean type for kind %q", k)
	return ""
}

func pKindOfType(e ast.Expr) string {
	switch src(e) {
	case "map[string]int":
		return "simap"
	case "string":
		return "str"
	case "bool":
		return "bool"
	case "int":
		return "int"
	case "Params":
		return "params"
	case "*Param":
		return "param"
	}
	return ""
}

func (t *pt) bad(n ast.Node, what string) {
	fail("gencommonparams: %s: %s `%s` is outside the translated fragment", at(n), what, src(n))
}

// varOf: an identifier or a receiver field that is a variable of the translation
func (t *pt) varOf(e ast.Expr) (pvar, bool) {
	switch x := e.(type) {
	case *ast.ParenExpr:
		return t.varOf(x.X)
	case *ast.Ident, *ast.SelectorExpr:
		return t.lookup(src(x))
	}
	return pvar{}, false
}

// expr translates a pure expression (no call of a translated function) and returns its kind.
func (t *pt) expr(e ast.Expr) (string, string) {
	switch x := e.(type) {
	case *ast.ParenExpr:
		return t.expr(x.X)
	case *ast.Ident:
		if x.Name == "true" || x.Name == "false" {
			return x.Name, "bool"
		}
		if v, ok := t.lookup(x.Name); ok {
			return v.lean, v.kind
		}
	case *ast.BasicLit:
		switch x.Kind {
		case token.INT:
			if _, err := strconv.ParseUint(x.Value, 10, 32); err == nil {
				return x.Value, "int"
			}
		case token.STRING:
			s, err := strconv.Unquote(x.Value)
			if err == nil {
				return "(Go.str " + strconv.Quote(s) + ")", "str"
			}
		}
	case *ast.SelectorExpr:
		if v, ok := t.lookup(src(x)); ok {
			return v.lean, v.kind
		}
		if v, ok := t.varOf(x.X); ok && v.kind == "param" && x.Sel.Name == "Name" {
			return v.lean + ".name", "str"
		}
	case *ast.UnaryExpr:
		if x.Op == token.NOT {
			if a, k := t.expr(x.X); k == "bool" {
				return "(!" + a + ")", "bool"
			}
		}
	case *ast.BinaryExpr:
		// the one subtraction of the fragment: len(xs)-1 inside the body of `range xs`
		if x.Op == token.SUB {
			if c, ok := x.X.(*ast.CallExpr); ok && src(c.Fun) == "len" && len(c.Args) == 1 && src(x.Y) == "1" &&
				t.rangeOver != "" && src(c.Args[0]) == t.rangeOver {
				a, _ := t.expr(x.X)
				return "(" + a + " - 1)", "int"
			}
			break
		}
		a, ka := t.expr(x.X)
		b, kb := t.expr(x.Y)
		switch {
		case (x.Op == token.LAND || x.Op == token.LOR) && ka == "bool" && kb == "bool":
			return "(" + a + map[token.Token]string{token.LAND: " && ", token.LOR: " || "}[x.Op] + b + ")", "bool"
		case x.Op == token.EQL && ka == kb && (ka == "str" || ka == "int" || ka == "bool"):
			return "(decide (" + a + " = " + b + "))", "bool"
		case x.Op == token.NEQ && ka == kb && (ka == "str" || ka == "int" || ka == "bool"):
			return "(!decide (" + a + " = " + b + "))", "bool"
		case x.Op == token.ADD && ka == "str" && kb == "str":
			return "(" + a + " ++ " + b + ")", "str"
		case x.Op == token.ADD && ka == "int" && kb == "int":
			return "(" + a + " + " + b + ")", "int"
		}
	case *ast.CallExpr:
		f := src(x.Fun)
		switch {
		case f == "len" && len(x.Args) == 1:
			if a, k := t.expr(x.Args[0]); k == "params" {
				return "(List.length " + a + ")", "int"
			}
		case f == "strconv.FormatInt" && len(x.Args) == 2 && src(x.Args[1]) == "10":
			// strconv.FormatInt(int64(v), 10), v an int of the fragment (never negative)
			if c, ok := x.Args[0].(*ast.CallExpr); ok && src(c.Fun) == "int64" && len(c.Args) == 1 {
				if a, k := t.expr(c.Args[0]); k == "int" {
					return "(Go.itoa " + a + ")", "str"
				}
			}
		case f == "strconv.Itoa" && len(x.Args) == 1:
			if a, k := t.expr(x.Args[0]); k == "int" {
				return "(Go.itoa " + a + ")", "str"
			}
		case f == "TypeImplements" && len(x.Args) == 2:
			if sel, ok := x.Args[0].(*ast.SelectorExpr); ok && sel.Sel.Name == "ActualType" {
				if v, ok := t.varOf(sel.X); ok && v.kind == "param" {
					switch src(x.Args[1]) {
					case "ErrorInterface":
						return v.lean + ".isErr", "bool"
					case "ContextInterface":
						return v.lean + ".isCtx", "bool"
					}
				}
			}
		case f == "make" && len(x.Args) == 2 && src(x.Args[0]) == "map[string]int":
			if a, k := t.expr(x.Args[1]); k == "int" {
				return "(Go.simMake " + a + ")", "simap"
			}
		}
	}
	t.bad(e, "expression")
	return "", ""
}

// callee resolves a call of another translated function: the Go expressions of the Lean arguments
// in order (receiver first)
func (t *pt) callee(c *ast.CallExpr) (*pfn, []ast.Expr) {
	switch f := c.Fun.(type) {
	case *ast.Ident:
		if fn, ok := t.fns[f.Name]; ok && fn.decl.Recv == nil {
			return fn, c.Args
		}
	case *ast.SelectorExpr:
		if v, ok := t.varOf(f.X); ok && v.kind == "params" {
			if fn, ok := t.fns["Params."+f.Sel.Name]; ok {
				return fn, append([]ast.Expr{f.X}, c.Args...)
			}
		}
	}
	return nil, nil
}

// call emits `let r ← f fuel args…`, writes the returned new values back to the variables that were
// passed, and returns the Lean term of the Go result ("" if none)
func (t *pt) call(ind int, c *ast.CallExpr) (string, string, bool) {
	fn, args := t.callee(c)
	if fn == nil {
		return "", "", false
	}
	if len(args) != len(fn.args) {
		t.bad(c, "call (argument count)")
	}
	var ls []string
	for i, a := range args {
		l, k := t.expr(a)
		if k != fn.args[i].kind {
			t.bad(a, "argument (kind "+k+", expected "+fn.args[i].kind+")")
		}
		ls = append(ls, l)
	}
	r := t.fresh()
	t.line(ind, "let "+r+" ← "+fn.lean+" fuel "+strings.Join(ls, " "))
	// components of the returned tuple
	n := len(fn.outs)
	if fn.ret != "" {
		n++
	}
	comp := func(i int) string {
		if n == 1 {
			return r
		}
		s := r + strings.Repeat(".2", i)
		if i < n-1 {
			s += ".1"
		}
		return s
	}
	k := 0
	res := ""
	if fn.ret != "" {
		res = comp(0)
		k = 1
	}
	for _, oi := range fn.outs {
		v, ok := t.varOf(args[oi])
		if !ok {
			t.bad(args[oi], "argument written through (must be a variable)")
		}
		t.line(ind, v.lean+" := "+comp(k))
		k++
	}
	return res, fn.ret, true
}

func (t *pt) commaOkIndex(ind int, lhs []ast.Expr, rhs ast.Expr, define bool) bool {
	ix, ok := rhs.(*ast.IndexExpr)
	if !ok || len(lhs) != 2 {
		return false
	}
	m, km := t.expr(ix.X)
	k, kk := t.expr(ix.Index)
	if km != "simap" || kk != "str" {
		return false
	}
	r := t.fresh()
	t.line(ind, "let "+r+" := Go.simGet "+m+" "+k)
	for i, l := range lhs {
		id, ok := l.(*ast.Ident)
		if !ok {
			return false
		}
		if id.Name == "_" {
			continue
		}
		kind := []string{"int", "bool"}[i]
		proj := []string{".1", ".2"}[i]
		if define {
			if _, exists := t.lookup(id.Name); exists {
				t.bad(l, "redefinition of a variable of an enclosing scope")
			}
			t.bind(id.Name, pvar{pname(id.Name), kind})
			t.line(ind, "let mut "+pname(id.Name)+" : "+pLeanType(kind)+" := "+r+proj)
		} else {
			v, ok := t.lookup(id.Name)
			if !ok || v.kind != kind {
				return false
			}
			t.line(ind, v.lean+" := "+r+proj)
		}
	}
	return true
}

// assigned collects the outer variables a block assigns (plain `=`, `op=`, `++`, `m[k] = v`)
func (t *pt) assigned(b *ast.BlockStmt) []pvar {
	var vs []pvar
	seen := map[string]bool{}
	add := func(e ast.Expr) {
		if ix, ok := e.(*ast.IndexExpr); ok {
			e = ix.X
		}
		if v, ok := t.varOf(e); ok && !seen[v.lean] {
			seen[v.lean] = true
			vs = append(vs, v)
		}
	}
	ast.Inspect(b, func(n ast.Node) bool {
		switch x := n.(type) {
		case *ast.AssignStmt:
			if x.Tok != token.DEFINE {
				for _, l := range x.Lhs {
					add(l)
				}
			}
		case *ast.IncDecStmt:
			add(x.X)
		case *ast.CallExpr:
			if fn, args := t.callee(x); fn != nil {
				for _, oi := range fn.outs {
					if oi < len(args) {
						add(args[oi])
					}
				}
			}
		}
		return true
	})
	return vs
}

func tupleOf(vs []pvar) (term, typ string) {
	var a, b []string
	for _, v := range vs {
		a = append(a, v.lean)
		b = append(b, pLeanType(v.kind))
	}
	if len(vs) == 1 {
		return a[0], b[0]
	}
	return "(" + strings.Join(a, ", ") + ")", strings.Join(b, " × ")
}

func (t *pt) block(ind int, b *ast.BlockStmt) {
	t.push()
	if len(b.List) == 0 {
		t.line(ind, "pure ()")
	}
	for _, s := range b.List {
		t.stmt(ind, s)
	}
	t.pop()
}

func (t *pt) ifStmt(ind int, x *ast.IfStmt, kw string) {
	if x.Init != nil {
		as, ok := x.Init.(*ast.AssignStmt)
		if !ok || as.Tok != token.DEFINE || len(as.Rhs) != 1 || kw != "if" || !t.commaOkIndex(ind, as.Lhs, as.Rhs[0], true) {
			t.bad(x.Init, "if-initialiser")
		}
	}
	c, k := t.expr(x.Cond)
	if k != "bool" {
		t.bad(x.Cond, "condition")
	}
	t.line(ind, kw+" "+c+" then")
	t.block(ind+1, x.Body)
	switch e := x.Else.(type) {
	case nil:
	case *ast.BlockStmt:
		t.line(ind, "else")
		t.block(ind+1, e)
	case *ast.IfStmt:
		if e.Init != nil {
			t.bad(e, "else-if with an initialiser")
		}
		t.ifStmt(ind, e, "else if")
	default:
		t.bad(x, "else branch")
	}
}

func (t *pt) stmt(ind int, s ast.Stmt) {
	switch x := s.(type) {
	case *ast.AssignStmt:
		if len(x.Lhs) == 2 && len(x.Rhs) == 1 && (x.Tok == token.DEFINE || x.Tok == token.ASSIGN) {
			if t.commaOkIndex(ind, x.Lhs, x.Rhs[0], x.Tok == token.DEFINE) {
				return
			}
		}
		if len(x.Lhs) != 1 || len(x.Rhs) != 1 {
			break
		}
		// right-hand side: a call of a translated function, or a pure expression
		rhs := func() (string, string) {
			if c, ok := x.Rhs[0].(*ast.CallExpr); ok {
				if r, k, ok := t.call(ind, c); ok {
					if k == "" {
						t.bad(c, "use of a call without result")
					}
					return r, k
				}
			}
			return t.expr(x.Rhs[0])
		}
		switch l := x.Lhs[0].(type) {
		case *ast.Ident:
			if x.Tok == token.DEFINE {
				if l.Name == "_" || l.Name == "fuel" {
					break
				}
				v, k := rhs()
				t.bind(l.Name, pvar{pname(l.Name), k})
				t.line(ind, "let mut "+pname(l.Name)+" : "+pLeanType(k)+" := "+v)
				return
			}
			if x.Tok == token.ASSIGN {
				if lv, ok := t.lookup(l.Name); ok {
					v, k := rhs()
					if k != lv.kind {
						t.bad(x, "assignment (kinds differ)")
					}
					t.line(ind, lv.lean+" := "+v)
					return
				}
			}
		case *ast.SelectorExpr: // p.Name = e
			if x.Tok == token.ASSIGN && l.Sel.Name == "Name" {
				if pv, ok := t.varOf(l.X); ok && pv.kind == "param" {
					v, k := rhs()
					if k != "str" {
						t.bad(x, "assignment to Name (not a string)")
					}
					t.line(ind, pv.lean+" := { "+pv.lean+" with name := "+v+" }")
					return
				}
			}
		case *ast.IndexExpr: // m[k] = v
			if x.Tok == token.ASSIGN {
				if mv, ok := t.varOf(l.X); ok && mv.kind == "simap" {
					k, kk := t.expr(l.Index)
					v, kv := t.expr(x.Rhs[0])
					if kk == "str" && kv == "int" {
						t.line(ind, mv.lean+" := Go.simSet "+mv.lean+" "+k+" "+v)
						return
					}
				}
			}
		}
	case *ast.IncDecStmt:
		if v, ok := t.varOf(x.X); ok && v.kind == "int" && x.Tok == token.INC {
			t.line(ind, v.lean+" := "+v.lean+" + 1")
			return
		}
	case *ast.ExprStmt:
		if c, ok := x.X.(*ast.CallExpr); ok {
			if _, k, ok := t.call(ind, c); ok && k == "" {
				return
			}
		}
	case *ast.IfStmt:
		t.ifStmt(ind, x, "if")
		return
	case *ast.BranchStmt:
		if x.Tok == token.BREAK && x.Label == nil && t.inInf {
			tm, _ := tupleOf(t.loopState)
			t.line(ind, "return ForInStep.done "+tm)
			return
		}
	case *ast.ForStmt:
		if x.Init != nil || x.Cond != nil || x.Post != nil || t.inInf || t.rangeOver != "" {
			break
		}
		bad := false
		ast.Inspect(x.Body, func(n ast.Node) bool {
			switch y := n.(type) {
			case *ast.ReturnStmt, *ast.ForStmt, *ast.RangeStmt, *ast.FuncLit, *ast.GoStmt, *ast.DeferStmt, *ast.SwitchStmt, *ast.SelectStmt:
				bad = true
			case *ast.BranchStmt:
				if y.Tok != token.BREAK || y.Label != nil {
					bad = true
				}
			}
			return true
		})
		if bad {
			t.bad(x, "loop body (return / nested loop / continue / switch)")
		}
		st := t.assigned(x.Body)
		if len(st) == 0 {
			t.bad(x, "loop without state")
		}
		tm, ty := tupleOf(st)
		r := t.fresh()
		t.line(ind, "let "+r+" ← Go.loopN (fun (st : "+ty+") => do")
		t.push()
		for i, v := range st {
			proj := "st"
			if len(st) > 1 {
				proj += strings.Repeat(".2", i)
				if i < len(st)-1 {
					proj += ".1"
				}
			}
			t.line(ind+2, "let mut "+v.lean+" : "+pLeanType(v.kind)+" := "+proj)
		}
		t.inInf, t.loopState = true, st
		for _, b := range x.Body.List {
			t.stmt(ind+2, b)
		}
		t.inInf, t.loopState = false, nil
		t.pop()
		t.line(ind+2, "return ForInStep.yield "+tm+") fuel "+tm)
		for i, v := range st {
			proj := r
			if len(st) > 1 {
				proj += strings.Repeat(".2", i)
				if i < len(st)-1 {
					proj += ".1"
				}
			}
			t.line(ind, v.lean+" := "+proj)
		}
		return
	case *ast.RangeStmt:
		if t.inInf || t.rangeOver != "" || x.Tok != token.DEFINE {
			break
		}
		xs, ok := t.varOf(x.X)
		vk, ok2 := x.Value.(*ast.Ident)
		if !ok || !ok2 || xs.kind != "params" || vk.Name == "_" {
			break
		}
		idx := ""
		if ik, ok := x.Key.(*ast.Ident); ok && ik.Name != "_" {
			idx = ik.Name
		}
		bad := false
		ast.Inspect(x.Body, func(n ast.Node) bool {
			switch n.(type) {
			case *ast.ReturnStmt, *ast.ForStmt, *ast.RangeStmt, *ast.BranchStmt, *ast.FuncLit, *ast.GoStmt, *ast.DeferStmt, *ast.SwitchStmt, *ast.SelectStmt:
				bad = true
			}
			return true
		})
		if bad || assignsTo(x.Body, vk.Name) || (idx != "" && assignsTo(x.Body, idx)) || assignsTo(x.Body, src(x.X)) {
			t.bad(x, "range body (branches, nested loops, or assigns the loop variables / the slice)")
		}
		for _, v := range t.assigned(x.Body) {
			if v.lean == xs.lean {
				t.bad(x, "range body (writes the slice it ranges over through a call)")
			}
		}
		if _, exists := t.lookup(vk.Name); exists {
			t.bad(x, "range variable shadows a variable")
		}
		acc := xs.lean + "Out"
		el := pname(vk.Name + "_")
		// every element is a distinct pointer: the body's writes to `p` are writes to the element the
		// loop is at; `<xs>Out` collects the elements as the body leaves them
		t.line(ind, "let mut "+acc+" : List Gencommon.P := []")
		if idx != "" {
			t.line(ind, "let mut "+pname(idx)+" : Nat := 0")
		}
		t.line(ind, "for "+el+" in "+xs.lean+" do")
		t.push()
		t.bind(vk.Name, pvar{pname(vk.Name), "param"})
		if idx != "" {
			t.bind(idx, pvar{pname(idx), "int"})
		}
		t.line(ind+1, "let mut "+pname(vk.Name)+" : Gencommon.P := "+el)
		t.rangeOver = src(x.X)
		for _, b := range x.Body.List {
			t.stmt(ind+1, b)
		}
		t.rangeOver = ""
		t.line(ind+1, acc+" := "+acc+" ++ ["+pname(vk.Name)+"]")
		if idx != "" {
			t.line(ind+1, pname(idx)+" := "+pname(idx)+" + 1")
		}
		t.pop()
		t.line(ind, xs.lean+" := "+acc)
		return
	case *ast.ReturnStmt:
		if t.inInf || t.rangeOver != "" {
			break
		}
		t.line(ind, "return "+t.retTuple(x))
		return
	}
	t.bad(s, "statement")
}

func (t *pt) retTuple(r *ast.ReturnStmt) string {
	var parts []string
	if t.cur.ret != "" {
		if r == nil || len(r.Results) != 1 {
			fail("gencommonparams: %s does not return exactly one value", t.cur.goName)
		}
		v, k := t.expr(r.Results[0])
		if k != t.cur.ret {
			t.bad(r, "result (kind)")
		}
		parts = append(parts, v)
	} else if r != nil && len(r.Results) != 0 {
		t.bad(r, "result")
	}
	for _, oi := range t.cur.outs {
		parts = append(parts, t.cur.args[oi].lean)
	}
	if len(parts) == 1 {
		return parts[0]
	}
	return "(" + strings.Join(parts, ", ") + ")"
}

func runGencommonParams(repo, out string) {
	parse := func(rel string) *ast.File {
		f, err := parser.ParseFile(fset, filepath.Join(repo, rel), nil, 0)
		if err != nil {
			fail("%v", err)
		}
		return f
	}
	fp, fm := parse("gencommon/params.go"), parse("gencommon/method.go")
	// the type declarations the kinds rely on
	typeDecl := func(f *ast.File, n string) ast.Expr {
		for _, d := range f.Decls {
			if gd, ok := d.(*ast.GenDecl); ok && gd.Tok == token.TYPE {
				for _, sp := range gd.Specs {
					if ts := sp.(*ast.TypeSpec); ts.Name.Name == n && ts.TypeParams == nil {
						return ts.Type
					}
				}
			}
		}
		fail("gencommonparams: type %s not found", n)
		return nil
	}
	if got := src(typeDecl(fp, "Params")); got != "[]*Param" {
		fail("gencommonparams: type Params is `%s`; the translation assumes `[]*Param`", got)
	}
	field := func(st ast.Expr, owner, fname, want string) {
		s, ok := st.(*ast.StructType)
		if !ok {
			fail("gencommonparams: type %s is not a struct", owner)
		}
		for _, f := range s.Fields.List {
			for _, n := range f.Names {
				if n.Name == fname {
					if src(f.Type) != want {
						fail("gencommonparams: field %s.%s has type `%s`; the translation assumes `%s`", owner, fname, src(f.Type), want)
					}
					return
				}
			}
		}
		fail("gencommonparams: field %s.%s not found", owner, fname)
	}
	field(typeDecl(fp, "Param"), "Param", "Name", "string")
	field(typeDecl(fp, "Param"), "Param", "ActualType", "types.Type")
	field(typeDecl(fm, "Method"), "Method", "Input", "Params")
	field(typeDecl(fm, "Method"), "Method", "Output", "Params")

	find := func(f *ast.File, recv, fname string) *ast.FuncDecl {
		for _, d := range f.Decls {
			fd, ok := d.(*ast.FuncDecl)
			if !ok || fd.Body == nil || fd.Name.Name != fname {
				continue
			}
			r := ""
			if fd.Recv != nil && len(fd.Recv.List) == 1 {
				r = recvTypeName(fd.Recv.List[0].Type)
			}
			if r == recv {
				return fd
			}
		}
		fail("gencommonparams: function %s %s not found", recv, fname)
		return nil
	}
	t := &pt{fns: map[string]*pfn{}}
	var defs strings.Builder
	translate := func(file *ast.File, recv, fname string) {
		fd := find(file, recv, fname)
		fn := &pfn{goName: fname, lean: fname, decl: fd}
		if recv != "" {
			fn.goName, fn.lean = recv+"."+fname, recv+"."+fname
		}
		t.cur, t.env, t.tmp = fn, nil, 0
		t.push()
		addArg := func(goSrc, lean, kind string, written bool) {
			if lean == "fuel" {
				fail("gencommonparams: %s: a variable is called fuel", fn.goName)
			}
			fn.args = append(fn.args, pvar{lean, kind})
			fn.argSrc = append(fn.argSrc, goSrc)
			if written {
				fn.outs = append(fn.outs, len(fn.args)-1)
			}
			t.bind(goSrc, pvar{lean, kind})
		}
		if fd.Recv != nil {
			rf := fd.Recv.List[0]
			if len(rf.Names) != 1 {
				fail("gencommonparams: %s: unnamed receiver", fn.goName)
			}
			rn := rf.Names[0].Name
			switch src(rf.Type) {
			case "Params":
				addArg(rn, pname(rn), "params", true)
			case "*Method":
				// the receiver's two parameter lists are the variables; nothing else of it may be touched
				addArg(rn+".Input", pname(rn+"Input"), "params", true)
				addArg(rn+".Output", pname(rn+"Output"), "params", true)
				ast.Inspect(fd.Body, func(n ast.Node) bool {
					if id, ok := n.(*ast.Ident); ok && id.Name == rn {
						// must be the X of rn.Input / rn.Output: checked by counting below
					}
					return true
				})
				uses, sels := 0, 0
				ast.Inspect(fd.Body, func(n ast.Node) bool {
					switch y := n.(type) {
					case *ast.Ident:
						if y.Name == rn {
							uses++
						}
					case *ast.SelectorExpr:
						if id, ok := y.X.(*ast.Ident); ok && id.Name == rn && (y.Sel.Name == "Input" || y.Sel.Name == "Output") {
							sels++
						}
					}
					return true
				})
				if uses != sels {
					fail("gencommonparams: %s uses its receiver other than as %s.Input / %s.Output", fn.goName, rn, rn)
				}
			default:
				fail("gencommonparams: %s: receiver type `%s`", fn.goName, src(rf.Type))
			}
		}
		for _, p := range fd.Type.Params.List {
			k := pKindOfType(p.Type)
			if k == "" || k == "param" || k == "params" || len(p.Names) == 0 {
				fail("gencommonparams: %s: parameter type `%s` is outside the translated fragment", fn.goName, src(p.Type))
			}
			for _, n := range p.Names {
				addArg(n.Name, pname(n.Name), k, k == "simap")
			}
		}
		if fd.Type.Results != nil {
			if len(fd.Type.Results.List) != 1 || len(fd.Type.Results.List[0].Names) != 0 || pKindOfType(fd.Type.Results.List[0].Type) != "str" {
				fail("gencommonparams: %s: result list `%s` is outside the translated fragment", fn.goName, src(fd.Type.Results))
			}
			fn.ret = "str"
		}
		t.out.Reset()
		for i, a := range fn.args {
			written := false
			for _, oi := range fn.outs {
				written = written || oi == i
			}
			if written || assignsTo(fd.Body, fn.argSrc[i]) {
				t.line(1, "let mut "+a.lean+" := "+a.lean)
			}
		}
		n := len(fd.Body.List)
		for _, s := range fd.Body.List {
			t.stmt(1, s)
		}
		if fn.ret != "" {
			if n == 0 || !endsInReturn(fd.Body.List[n-1]) {
				fail("gencommonparams: %s can fall off its end", fn.goName)
			}
		} else if n == 0 || !endsInReturn(fd.Body.List[n-1]) {
			t.line(1, "return "+t.retTuple(nil))
		}
		var ps, rt []string
		for _, a := range fn.args {
			ps = append(ps, "("+a.lean+" : "+pLeanType(a.kind)+")")
		}
		if fn.ret != "" {
			rt = append(rt, pLeanType(fn.ret))
		}
		for _, oi := range fn.outs {
			rt = append(rt, pLeanType(fn.args[oi].kind))
		}
		fmt.Fprintf(&defs, "/-- `%s` -/\n", src(&ast.FuncDecl{Recv: fd.Recv, Name: fd.Name, Type: fd.Type}))
		fmt.Fprintf(&defs, "def %s (fuel : Nat) %s : Go.M (%s) := do\n", fn.lean, strings.Join(ps, " "), strings.Join(rt, " × "))
		defs.WriteString(t.out.String())
		defs.WriteString("\n")
		t.fns[fn.goName] = fn
		fmt.Printf("go2lean gencommonparams: %s (%d statements)\n", fn.goName, n)
	}
	translate(fp, "", "getSafeParamName")
	translate(fp, "Params", "keepUserNames")
	translate(fp, "Params", "ensureNames")
	translate(fm, "Method", "ensureParamNames")

	var b strings.Builder
	b.WriteString("import Model.GoParams\nimport Model.Gencommon\n")
	b.WriteString("/-! REGENERATED on every run by harness/cmd/go2lean -spec gencommonparams from gencommon/params.go and\ngencommon/method.go.  Do not edit.  Each definition follows the Go function of the same name statement by\nstatement.  `map[string]int` is `Go.SIMap`, `Params` (`[]*Param`, distinct pointers) a `List Gencommon.P`\nwhose `name` is the field `Name` and whose `isErr` / `isCtx` are `TypeImplements(p.ActualType,\nErrorInterface / ContextInterface)`; `fuel` bounds the iterations of `for { … }` (Model/GoParams.lean).\nA function returns its Go result followed by the new values of what it can write through. -/\n")
	b.WriteString("namespace Generated.GoGencommonParams\n\n")
	b.WriteString(defs.String())
	b.WriteString("end Generated.GoGencommonParams\n")
	if err := os.WriteFile(out, []byte(b.String()), 0o644); err != nil {
		fail("%v", err)
	}
	fmt.Printf("go2lean gencommonparams: -> %s\n", out)
}

module verif/harness

go 1.23.0
